----------------------------- MODULE Accessors -----------------------------
(* Typed reply accessors of redis/rueidis (message.go, helper.go): properties C15 and C16.

   This module is a generator and an oracle, there is no interesting temporal behaviour: every initial state is
   one test case, TLC enumerates all of them, checks the consistency invariants of the oracle itself and prints
   one CASE record per state (the reply tree to decode and the outcome this specification predicts for every
   accessor).  harness/cmd/accessdrv encodes the tree to RESP bytes, decodes it with the real decoder, applies
   every accessor found by reflection and compares with the prediction.

   C16  abstract data (what a Redis command returns, as a mathematical value) and the two reply trees Redis
        documents for it: Shape(class, data, 2) for RESP2 and Shape(class, data, 3) for RESP3.
        Expect(class, data, proto) lists, per accessor, the Go value that the accessor must return.
   C15  reply *shapes* (every RESP type, empty / singleton / odd-length aggregates, nested empties, nil and error
        elements, streamed maps of odd length, one-point mutations of every C16 shape) with the outcome *class*
        of every accessor where the API documents one (Rule), and the error-text grammar with the outcome of every
        RedisError classifier (Classify).

   Floats are pairs <<n, d>> meaning n/d with d a power of two (exactly representable; FloatText gives the decimal
   text Redis would send).  TLC integers are 32 bit, so integer payloads stay below 2^31; numbers at and beyond the
   boundaries of the Go types (round 2, the classes num, numint, numarr, numscan, numdbl) are carried as decimal TEXT with an abstract magnitude class
   ("i64max", "u64max+1", ...) and the module predicts value-exact (the decimal text of the result) or error.
   C15 family "comp" (round 2): the structured replies with exactly ONE malformed component; the module predicts
   for the accessors that must read that component "an error" (X), Nil (N) or the component's RedisError (R).

   Negative configurations (non-vacuity of the invariants):
     BugFirstWins         MapOf keeps the first value of a repeated field            -> LastWins violated
     AllowNumericDocKeys  FT.SEARCH documents may be named "1", "2" (RESP2 layout
                          [n, key, score, key ...] becomes ambiguous)                  -> Unambiguous violated
     BugOkWithoutAddr     a redirect classifier says ok for "MOVED" without address    -> RedirectHasAddr violated
     BugU64ViaI64         AsUint64 of a string = uint64(AsInt64): "-5" accepted, 2^63 refused -> NumRanges violated
     BugCompKeepsRule     a structured helper may return a value although one of its
                          components is malformed (the plain Rule class VE)              -> CompNeverValue violated *)
EXTENDS Integers, Sequences, FiniteSets, TLC, Json

CONSTANTS Gen,                  \* "c15" | "c16": which case family the initial states enumerate
          Deep,                 \* BOOLEAN: larger bounds (thorough tier)
          Emit,                 \* BOOLEAN: print one CASE record per state
          OnlyFam,              \* "" or the one case class to enumerate (negative configs)
          BugFirstWins, AllowNumericDocKeys, BugOkWithoutAddr,
          BugU64ViaI64,         \* the unsigned conversion predicted through the signed one (ParseInt and a cast)
          BugCompKeepsRule      \* family comp forgets that a malformed component must fail the helper

VARIABLES fam,                  \* case class
          dat,                  \* abstract datum (C16) or shape descriptor (C15)
          pro,                  \* protocol version of the reply tree (2 or 3)
          tree,                 \* the reply tree of the case: Shape(fam, dat, pro) resp. Tree15(fam, dat, pro)
          exp                   \* what the specification predicts for it
vars == <<fam, dat, pro, tree, exp>>

\* ------------------------------------------------------------------------------------------------ generic helpers
Range(s)          == {s[j] : j \in DOMAIN s}
Last(s)           == s[Len(s)]
Front(s)          == SubSeq(s, 1, Len(s) - 1)
Max(S)            == CHOOSE x \in S : \A y \in S : y <= x
Min(S)            == CHOOSE x \in S : \A y \in S : x <= y
SeqFromTo(S, a, b) == UNION {[1..k -> S] : k \in a..b}
SeqUpTo(S, n)     == SeqFromTo(S, 0, n)
Abs(x)            == IF x < 0 THEN -x ELSE x
RECURSIVE Flatten(_)
Flatten(ss)       == IF ss = <<>> THEN <<>> ELSE Head(ss) \o Flatten(Tail(ss))
RECURSIVE Join(_, _)
Join(toks, sep)   == IF Len(toks) = 0 THEN "" ELSE IF Len(toks) = 1 THEN toks[1]
                     ELSE toks[1] \o sep \o Join(Tail(toks), sep)
Opt(c, s)         == IF c THEN s ELSE <<>>

\* ------------------------------------------------------------------------------------------------ floats
\* <<n, d>>, d \in {1, 2, 4, 8}
Frac(r, d) == LET th == (r * 1000) \div d IN
              IF th = 0 THEN ""
              ELSE IF th % 100 = 0 THEN "." \o ToString(th \div 100)
              ELSE IF th % 10 = 0 THEN "." \o ToString(th \div 10)
              ELSE "." \o ToString(th)
\* shortest decimal text (what Redis sends for scores and RESP3 doubles)
FloatText(f) == (IF f[1] < 0 THEN "-" ELSE "") \o ToString(Abs(f[1]) \div f[2]) \o Frac(Abs(f[1]) % f[2], f[2])
\* "%.4f" (GEO distances)
Fixed4(f) == LET q == ((Abs(f[1]) % f[2]) * 10000) \div f[2] IN
             (IF f[1] < 0 THEN "-" ELSE "") \o ToString(Abs(f[1]) \div f[2]) \o "." \o
             (IF q = 0 THEN "0000" ELSE ToString(q))
FV(f)   == [F_ |-> <<f[1], f[2]>>]      \* an expected Go float64: exactly n/d
NILV    == [Nil_ |-> TRUE]              \* an expected nil (nil map / nil slice / nil interface)
FAIL    == [Fail_ |-> TRUE]             \* an expected error (no value)
DEC(t)  == [Dec_ |-> t]                 \* an expected Go integer (int64 / uint64): the one whose decimal text is t
F2(sg, e) == [F2_ |-> <<sg, e>>]        \* an expected Go float64: sg * 2^e
SpecialF(t) == CASE t \in {"inf", "+inf"} -> [Inf_ |-> 1] [] t = "-inf" -> [Inf_ |-> -1] [] OTHER -> [NaN_ |-> TRUE]
ZERO    == <<0, 1>>

\* ------------------------------------------------------------------------------------------------ reply trees
(* A node is a record with the same five fields for every RESP type:
     t  type name        s  text payload        i  integer payload (int, bool as 0/1, double numerator,
     d  double denominator                         error: 1 = the wire text carries an "ERR " prefix before s)
     a  children (maps: key, value, key, value ...; attr: attribute pairs followed by the value itself) *)
Nd(t, s, i, d, a) == [t |-> t, s |-> s, i |-> i, d |-> d, a |-> a]
Bulk(s)     == Nd("bulk", s, 0, 1, <<>>)
SBulk(s)    == Nd("sbulk", s, 0, 1, <<>>)              \* streamed (chunked) blob string
Simple(s)   == Nd("simple", s, 0, 1, <<>>)
IntN(n)      == Nd("int", "", n, 1, <<>>)
IntX(s)      == Nd("intx", s, 0, 1, <<>>)              \* an integer reply given by its decimal text (beyond 32 bits)
Null3       == Nd("null", "", 0, 1, <<>>)               \* RESP3 _
NullB       == Nd("nullbulk", "", 0, 1, <<>>)           \* RESP2 $-1
NullA       == Nd("nullarr", "", 0, 1, <<>>)            \* RESP2 *-1
Dbl(f)      == Nd("double", FloatText(f), f[1], f[2], <<>>)
DblInf      == Nd("double", "inf", 0, 0, <<>>)
BoolN(b)    == Nd("bool", "", IF b THEN 1 ELSE 0, 1, <<>>)
Big(s)      == Nd("big", s, 0, 1, <<>>)
Verb(s)     == Nd("verb", s, 0, 1, <<>>)                \* s includes the "txt:" prefix
ErrN(s, e)  == Nd("err", s, e, 1, <<>>)                 \* wire text: (e = 1 ? "ERR " : "") \o s
BlobErr(s, e) == Nd("bloberr", s, e, 1, <<>>)
EndN        == Nd("end", "", 0, 1, <<>>)                \* a stray stream terminator ".": the decoder accepts it
Agg(k, a)   == Nd(k, "", 0, 1, a)
Arr(a)      == Agg("arr", a)
SetN(a)     == Agg("set", a)
MapN(a)     == Agg("map", a)
Push(a)     == Agg("push", a)
SArr(a)     == Agg("sarr", a)                           \* streamed aggregates: "*?" ... "."
SSet(a)     == Agg("sset", a)
SMap(a)     == Agg("smap", a)                           \* "%?": the only way to an odd number of map children
Attr(a)     == Agg("attr", a)
NullOf(p)   == IF p = 2 THEN NullB ELSE Null3
NullArrOf(p) == IF p = 2 THEN NullA ELSE Null3
Bulks(ss)   == [j \in DOMAIN ss |-> Bulk(ss[j])]
FlatPairs(ps) == Flatten([j \in DOMAIN ps |-> <<Bulk(ps[j][1]), Bulk(ps[j][2])>>])

AggKinds == {"arr", "set", "map", "push", "sarr", "sset", "smap", "attr"}
Resp2Types == {"bulk", "simple", "int", "intx", "nullbulk", "nullarr", "err", "arr"}

RECURSIVE OnlyResp2(_)
OnlyResp2(n) == n.t \in Resp2Types /\ \A j \in DOMAIN n.a : OnlyResp2(n.a[j])
RECURSIVE Encodable(_)
Encodable(n) == /\ (n.t = "map" => Len(n.a) % 2 = 0)
                /\ (n.t = "attr" => Len(n.a) % 2 = 1)
                /\ \A j \in DOMAIN n.a : Encodable(n.a[j])

\* what the decoder produces for a tree (the part of C12 this family relies on)
RECURSIVE Norm(_)
Norm(n) == LET kids == [j \in DOMAIN n.a |-> Norm(n.a[j])] IN
           CASE n.t \in {"nullbulk", "nullarr"} -> Null3
             [] n.t = "sbulk" -> Bulk(n.s)
             [] n.t = "sarr"  -> Arr(kids)
             [] n.t = "sset"  -> SetN(kids)
             [] n.t = "smap"  -> MapN(kids)
             [] n.t = "attr"  -> Norm(Last(n.a))
             [] n.t \in {"arr", "set", "map", "push"} -> Agg(n.t, kids)
             [] OTHER -> n

\* type class of a decoded node, as the accessor documentation speaks about it
TopT(n) == CASE n.t \in {"bulk", "simple"} -> "str"
             [] n.t = "intx"               -> "int"
             [] n.t \in {"arr", "set"}     -> "arr"
             [] n.t \in {"err", "bloberr"} -> "err"
             [] OTHER -> n.t               \* int double bool big verb map push null end

\* ------------------------------------------------------------------------------------------------ maps
\* a reply lists pairs in order; a Go map keeps one value per field
Keys(ps) == {ps[j][1] : j \in DOMAIN ps}
MapOfV(ps, V(_)) == [k \in Keys(ps) |->
                      LET js == {j \in DOMAIN ps : ps[j][1] = k} IN V(ps[IF BugFirstWins THEN Min(js) ELSE Max(js)][2])]
Id(x) == x
MapOf(ps) == MapOfV(ps, Id)
\* reference semantics: insert the pairs one after the other
RECURSIVE FoldMap(_)
FoldMap(ps) == IF ps = <<>> THEN [k \in {} |-> ""]
               ELSE LET prev == FoldMap(Front(ps)) p == Last(ps) IN
                    [k \in DOMAIN prev \cup {p[1]} |-> IF k = p[1] THEN p[2] ELSE prev[k]]

\* ToAny of a decoded tree
RECURSIVE AnyOf(_)
AnyOf(n) == CASE n.t \in {"bulk", "simple", "big", "verb"} -> n.s
              [] n.t = "int"    -> n.i
              [] n.t = "intx"   -> [Dec_ |-> n.s]
              [] n.t = "bool"   -> (n.i = 1)
              [] n.t = "double" -> IF n.d = 0 THEN SpecialF(n.s) ELSE FV(<<n.i, n.d>>)
              [] n.t = "null"   -> NILV
              [] n.t \in {"err", "bloberr"} -> [Err_ |-> n.s]
              [] n.t \in {"arr", "set"} -> [j \in DOMAIN n.a |-> AnyOf(n.a[j])]
              [] n.t = "map" -> LET np == Len(n.a) \div 2
                                    ks == {n.a[2 * j - 1].s : j \in 1..np} IN
                                [k \in ks |-> AnyOf(n.a[2 * Max({j \in 1..np : n.a[2 * j - 1].s = k})])]
              [] OTHER -> [Unsupported_ |-> n.t]

E(acc, val) == [acc |-> acc, val |-> val]

\* what holds for every decoded tree whatever the command: the Is* predicates, ToAny and ToArray
Common(tr) ==
    LET n == Norm(tr) IN
    << E("IsNil", n.t = "null"), E("IsInt64", n.t \in {"int", "intx"}), E("IsFloat64", n.t = "double"),
       E("IsString", n.t \in {"bulk", "simple"}), E("IsBool", n.t = "bool"), E("IsArray", n.t \in {"arr", "set"}),
       E("IsMap", n.t = "map"), E("ToAny", AnyOf(n)) >>
    \o Opt(n.t \in {"arr", "set"}, << E("ToArray", n.a) >>)

\* =================================================================================================== C16 data classes
NILS == "<nil>"                    \* marks a null element in lists of strings
NILI == -99999                     \* ... of integers
NILF == <<0, 0>>                   \* ... of floats
B01(b) == IF b THEN 1 ELSE 0

StrVals  == {"", "a", "b"}
MapKeys  == {"k1", "k2"}
Members  == {"m1", "m2"}
ZFloats  == {<<0, 1>>, <<3, 2>>, <<-1, 1>>}
Floats   == {<<0, 1>>, <<1, 1>>, <<-1, 1>>, <<3, 2>>, <<-3, 2>>, <<1, 4>>, <<-5, 8>>, <<2000001, 2>>, <<100, 1>>}
N3       == IF Deep THEN 4 ELSE 3
N2       == IF Deep THEN 3 ELSE 2

\* ---- scalars
D_str    == {"", "a", "OK", "hello world"}
S_str(d, p) == Bulk(d)
X_str(d, p) == << E("ToString", d), E("AsBytes", d), E("AsReader", d), E("AsBool", d = "OK") >>

D_status == {"OK", "QUEUED", "PONG"}
S_status(d, p) == Simple(d)

D_int    == {-2147483647, -1, 0, 1, 42, 2147483647}
S_int(d, p) == IntN(d)
X_int(d, p) == << E("ToInt64", d), E("AsInt64", d), E("AsBool", d # 0) >> \o Opt(d >= 0, << E("AsUint64", d) >>)

D_intstr == {-5, 0, 7, 2147483647}
S_intstr(d, p) == Bulk(ToString(d))
X_intstr(d, p) == << E("ToString", ToString(d)), E("AsInt64", d), E("AsFloat64", FV(<<d, 1>>)) >>
                  \o Opt(d >= 0, << E("AsUint64", d) >>)

D_float  == Floats
S_float(d, p) == IF p = 2 THEN Bulk(FloatText(d)) ELSE Dbl(d)
X_float(d, p) == << E("AsFloat64", FV(d)) >>
                 \o (IF p = 3 THEN << E("ToFloat64", FV(d)) >> ELSE << E("ToString", FloatText(d)) >>)

D_bool   == BOOLEAN
S_bool(d, p) == IF p = 2 THEN IntN(B01(d)) ELSE BoolN(d)
X_bool(d, p) == << E("AsBool", d) >> \o (IF p = 3 THEN << E("ToBool", d) >> ELSE << E("ToInt64", B01(d)) >>)

\* ---- arrays
D_strs   == SeqUpTo(StrVals \cup {NILS}, N3)
StrElems(d, p) == [j \in DOMAIN d |-> IF d[j] = NILS THEN NullOf(p) ELSE Bulk(d[j])]
S_strs(d, p) == Arr(StrElems(d, p))
X_strs(d, p) == << E("AsStrSlice", [j \in DOMAIN d |-> IF d[j] = NILS THEN "" ELSE d[j]]) >>

D_strset == SeqUpTo(StrVals, 2)                          \* SMEMBERS: a set in RESP3
S_strset(d, p) == IF p = 2 THEN Arr(Bulks(d)) ELSE SetN(Bulks(d))
X_strset(d, p) == << E("AsStrSlice", d) >>

D_ints   == SeqUpTo({-1, 0, 7, NILI}, N3)
S_ints(d, p) == Arr([j \in DOMAIN d |-> IF d[j] = NILI THEN NullOf(p) ELSE IntN(d[j])])
X_ints(d, p) == << E("AsIntSlice", [j \in DOMAIN d |-> IF d[j] = NILI THEN 0 ELSE d[j]]) >>

D_intstrs == SeqUpTo({-1, 0, 7}, N2)
S_intstrs(d, p) == Arr([j \in DOMAIN d |-> Bulk(ToString(d[j]))])
X_intstrs(d, p) == << E("AsIntSlice", d), E("AsStrSlice", [j \in DOMAIN d |-> ToString(d[j])]) >>

D_floats == SeqUpTo({<<0, 1>>, <<3, 2>>, <<-1, 4>>, NILF}, N3)       \* ZMSCORE
S_floats(d, p) == Arr([j \in DOMAIN d |-> IF d[j] = NILF THEN NullOf(p)
                                          ELSE IF p = 2 THEN Bulk(FloatText(d[j])) ELSE Dbl(d[j])])
X_floats(d, p) == << E("AsFloatSlice", [j \in DOMAIN d |-> IF d[j] = NILF THEN FV(ZERO) ELSE FV(d[j])]) >>

D_bools  == SeqUpTo(BOOLEAN, N3)                          \* SMISMEMBER (integers), module commands (RESP3 booleans)
S_bools(d, p) == Arr([j \in DOMAIN d |-> IF p = 2 THEN IntN(B01(d[j])) ELSE BoolN(d[j])])
X_bools(d, p) == << E("AsBoolSlice", d) >> \o Opt(p = 2, << E("AsIntSlice", [j \in DOMAIN d |-> B01(d[j])]) >>)

\* ---- maps (HGETALL, CONFIG GET, PUBSUB NUMSUB ...): flat array in RESP2, map in RESP3
D_strmap == SeqUpTo(MapKeys \X StrVals, N3)
S_strmap(d, p) == IF p = 2 THEN Arr(FlatPairs(d)) ELSE MapN(FlatPairs(d))
X_strmap(d, p) == << E("AsStrMap", MapOf(d)), E("AsMap", MapOfV(d, Bulk)) >>
                  \o (IF p = 3 THEN << E("ToMap", MapOfV(d, Bulk)) >>
                      ELSE << E("AsStrSlice", Flatten([j \in DOMAIN d |-> <<d[j][1], d[j][2]>>])) >>)

D_intmap == SeqUpTo(MapKeys \X {0, 5, -2}, N2)
IntPairs(d) == Flatten([j \in DOMAIN d |-> <<Bulk(d[j][1]), IntN(d[j][2])>>])
S_intmap(d, p) == IF p = 2 THEN Arr(IntPairs(d)) ELSE MapN(IntPairs(d))
X_intmap(d, p) == << E("AsIntMap", MapOf(d)), E("AsMap", MapOfV(d, IntN)) >>

D_intstrmap == D_intmap                                     \* hash of counters: the integers arrive as strings
IntStrPairs(d) == [j \in DOMAIN d |-> <<d[j][1], ToString(d[j][2])>>]
S_intstrmap(d, p) == S_strmap(IntStrPairs(d), p)
X_intstrmap(d, p) == << E("AsIntMap", MapOf(d)), E("AsStrMap", MapOf(IntStrPairs(d))) >>

\* ---- sorted-set scores
ZS(z) == [Member |-> z[1], Score |-> FV(z[2])]
ZNode(z, p) == <<Bulk(z[1]), IF p = 2 THEN Bulk(FloatText(z[2])) ELSE Dbl(z[2])>>
D_zscore == Members \X ZFloats                              \* ZPOPMIN key
S_zscore(d, p) == Arr(ZNode(d, p))
X_zscore(d, p) == << E("AsZScore", ZS(d)) >>

D_zscores == SeqUpTo(Members \X ZFloats, N2)                \* ZRANGE WITHSCORES: flat in RESP2, nested in RESP3
S_zscores(d, p) == IF p = 2 THEN Arr(Flatten([j \in DOMAIN d |-> ZNode(d[j], 2)]))
                   ELSE Arr([j \in DOMAIN d |-> Arr(ZNode(d[j], 3))])
X_zscores(d, p) == << E("AsZScores", [j \in DOMAIN d |-> ZS(d[j])]) >>

\* ---- streams: an entry is <<id, field-value pairs>>; NILFV stands for a nil field list (deleted entry)
NILFV   == << <<NILS, NILS>> >>
XFVs    == SeqUpTo({"f1", "f2"} \X {"", "v"}, N2) \cup {NILFV}
XFVsS   == {<<>>, << <<"f1", "v">> >>, << <<"f1", "v">>, <<"f1", "">> >>, << <<"f2", "">>, <<"f1", "v">> >>, NILFV}
XIds    == {"1-0", "2-1"}
XNode(e, p) == Arr(<<Bulk(e[1]), IF e[2] = NILFV THEN NullArrOf(p) ELSE Arr(FlatPairs(e[2]))>>)
XEntry(e) == [ID |-> e[1], FieldValues |-> IF e[2] = NILFV THEN NILV ELSE MapOf(e[2])]
XSlice(e) == [ID |-> e[1], FieldValues |-> IF e[2] = NILFV THEN NILV
                                           ELSE [j \in DOMAIN e[2] |-> [Field |-> e[2][j][1], Value |-> e[2][j][2]]]]
D_xentry == XIds \X XFVs
S_xentry(d, p) == XNode(d, p)
X_xentry(d, p) == << E("AsXRangeEntry", XEntry(d)), E("AsXRangeSlice", XSlice(d)) >>

D_xrange == SeqUpTo(XIds \X XFVsS, 2)
XNodes(d, p) == [j \in DOMAIN d |-> XNode(d[j], p)]
S_xrange(d, p) == Arr(XNodes(d, p))
X_xrange(d, p) == << E("AsXRange", [j \in DOMAIN d |-> XEntry(d[j])]),
                     E("AsXRangeSlices", [j \in DOMAIN d |-> XSlice(d[j])]) >>

\* XREAD: streams in reply order with distinct keys; array of [key, entries] in RESP2, map in RESP3
XStreamEntries == SeqUpTo({"1-0"} \X {<<>>, << <<"f1", "v">>, <<"f1", "">> >>, NILFV}, IF Deep THEN 2 ELSE 1)
D_xread  == {ss \in SeqFromTo({"s1", "s2"} \X XStreamEntries, 1, 2) : Len(ss) = 2 => ss[1][1] # ss[2][1]}
S_xread(d, p) == IF p = 2 THEN Arr([j \in DOMAIN d |-> Arr(<<Bulk(d[j][1]), Arr(XNodes(d[j][2], p))>>)])
                 ELSE MapN(Flatten([j \in DOMAIN d |-> <<Bulk(d[j][1]), Arr(XNodes(d[j][2], p))>>]))
X_xread(d, p) == << E("AsXRead", MapOfV(d, LAMBDA es : [j \in DOMAIN es |-> XEntry(es[j])])),
                    E("AsXReadSlices", MapOfV(d, LAMBDA es : [j \in DOMAIN es |-> XSlice(es[j])])) >>

\* ---- SCAN family, LMPOP, ZMPOP
D_scan   == {0, 17, 2147483647} \X SeqUpTo({"a", "b"}, N2)
S_scan(d, p) == Arr(<<Bulk(ToString(d[1])), Arr(Bulks(d[2]))>>)
X_scan(d, p) == << E("AsScanEntry", [Cursor |-> d[1], Elements |-> d[2]]) >>

D_lmpop  == {"k1", ""} \X SeqFromTo(StrVals, 1, N2)
S_lmpop(d, p) == Arr(<<Bulk(d[1]), Arr(Bulks(d[2]))>>)
X_lmpop(d, p) == << E("AsLMPop", [Key |-> d[1], Values |-> d[2]]) >>

D_zmpop  == {"k1"} \X SeqFromTo(Members \X ZFloats, 1, 2)
S_zmpop(d, p) == Arr(<<Bulk(d[1]), Arr([j \in DOMAIN d[2] |-> Arr(ZNode(d[2][j], p))])>>)
X_zmpop(d, p) == << E("AsZMPop", [Key |-> d[1], Values |-> [j \in DOMAIN d[2] |-> ZS(d[2][j])]]) >>

\* ---- FT.SEARCH   d = [ws, nc, wp, docs]   WITHSCORES, NOCONTENT, WITHPAYLOADS; a doc is <<key, score, attrs>>
DocKeys  == IF AllowNumericDocKeys THEN {"doc:1", "1", "2"} ELSE {"doc:1", "doc:2"}
FtAttrs  == {<<>>, << <<"f1", "v">>, <<"f2", "">> >>} \cup (IF Deep THEN {<< <<"f1", "v">> >>} ELSE {})
FtScores == {<<1, 1>>, <<3, 2>>}
\* only canonical data: a field the options suppress has its neutral value
FtDocs(ws, nc) == DocKeys \X (IF ws THEN FtScores ELSE {ZERO}) \X (IF nc THEN {<<>>} ELSE FtAttrs)
D_ftsearch == UNION {{[ws |-> ws, nc |-> nc, wp |-> wp, docs |-> ds] : ds \in SeqUpTo(FtDocs(ws, nc), 2)} :
                      ws \in BOOLEAN, nc \in BOOLEAN, wp \in BOOLEAN}
FtTotal(d) == 7                                              \* LIMIT: the number of matches says nothing about the documents returned
FtEnvelope3(total, results) ==
    MapN(<<Bulk("attributes"), Arr(<<>>), Bulk("warning"), Arr(<<>>), Bulk("total_results"), IntN(total),
           Bulk("format"), Bulk("STRING"), Bulk("results"), Arr(results)>>)
S_ftsearch(d, p) ==
    IF p = 2
    THEN Arr(<<IntN(FtTotal(d))>> \o Flatten([j \in DOMAIN d.docs |->
              <<Bulk(d.docs[j][1])>> \o Opt(d.ws, <<Bulk(FloatText(d.docs[j][2]))>>) \o Opt(d.wp, <<Bulk("pay")>>)
              \o Opt(~d.nc, <<Arr(FlatPairs(d.docs[j][3]))>>)]))
    ELSE FtEnvelope3(FtTotal(d), [j \in DOMAIN d.docs |->
              MapN(<<Bulk("id"), Bulk(d.docs[j][1])>> \o Opt(d.ws, <<Bulk("score"), Dbl(d.docs[j][2])>>)
                   \o Opt(d.wp, <<Bulk("payload"), Bulk("pay")>>)
                   \o Opt(~d.nc, <<Bulk("extra_attributes"), MapN(FlatPairs(d.docs[j][3]))>>)
                   \o <<Bulk("values"), Arr(<<>>)>>)])
FtResult(d) == [Total |-> FtTotal(d),
                Docs |-> [j \in DOMAIN d.docs |-> [Key |-> d.docs[j][1], Score |-> FV(d.docs[j][2]),
                                                   Doc |-> IF d.nc THEN NILV ELSE MapOf(d.docs[j][3])]]]
X_ftsearch(d, p) == << E("AsFtSearch", FtResult(d)) >>

\* ---- FT.AGGREGATE   d = <<rows, cursor>>   cursor -1: no WITHCURSOR
AggRows  == {<<>>, << <<"f1", "v">> >>, << <<"f1", "v">>, <<"f2", "w">> >>}
D_ftagg  == SeqUpTo(AggRows, 2) \X {-1, 0, 5}
AggBody(rows, p) ==
    IF p = 2 THEN Arr(<<IntN(Len(rows) + 3)>> \o [j \in DOMAIN rows |-> Arr(FlatPairs(rows[j]))])
    ELSE FtEnvelope3(Len(rows) + 3, [j \in DOMAIN rows |->
             MapN(<<Bulk("extra_attributes"), MapN(FlatPairs(rows[j])), Bulk("values"), Arr(<<>>)>>)])
S_ftagg(d, p) == IF d[2] = -1 THEN AggBody(d[1], p) ELSE Arr(<<AggBody(d[1], p), IntN(d[2])>>)
AggDocs(rows) == [j \in DOMAIN rows |-> MapOf(rows[j])]
X_ftagg(d, p) ==
    << E("AsFtAggregateCursor", [Cursor |-> IF d[2] = -1 THEN 0 ELSE d[2], Total |-> Len(d[1]) + 3, Docs |-> AggDocs(d[1])]) >>
    \o Opt(d[2] = -1, << E("AsFtAggregate", [Total |-> Len(d[1]) + 3, Docs |-> AggDocs(d[1])]) >>)

\* ---- GEOSEARCH   d = [wd, wh, wc, locs]   a location is <<name, dist, hash, <<lon, lat>>>>
GeoCoords == {<<ZERO, ZERO>>} \cup {<<<<27, 2>>, <<-75, 2>>>>, <<<<-1, 4>>, <<5, 1>>>>}
GeoLocs(wd, wh, wc) == (IF Deep THEN {"p1", "p2"} ELSE {"p1"}) \X (IF wd THEN {ZERO, <<3, 2>>} ELSE {ZERO}) \X (IF wh THEN {0, 1234} ELSE {0})
                       \X (IF wc THEN GeoCoords \ {<<ZERO, ZERO>>} ELSE {<<ZERO, ZERO>>})
D_geo    == UNION {{[wd |-> wd, wh |-> wh, wc |-> wc, locs |-> ls] : ls \in SeqUpTo(GeoLocs(wd, wh, wc), 2)} :
                    wd \in BOOLEAN, wh \in BOOLEAN, wc \in BOOLEAN}
GeoNum(f, p) == IF p = 2 THEN Bulk(FloatText(f)) ELSE Dbl(f)
S_geo(d, p) ==
    IF ~d.wd /\ ~d.wh /\ ~d.wc THEN Arr([j \in DOMAIN d.locs |-> Bulk(d.locs[j][1])])
    ELSE Arr([j \in DOMAIN d.locs |-> Arr(<<Bulk(d.locs[j][1])>> \o Opt(d.wd, <<Bulk(Fixed4(d.locs[j][2]))>>)
              \o Opt(d.wh, <<IntN(d.locs[j][3])>>)
              \o Opt(d.wc, <<Arr(<<GeoNum(d.locs[j][4][1], p), GeoNum(d.locs[j][4][2], p)>>)>>))])
X_geo(d, p) == << E("AsGeosearch", [j \in DOMAIN d.locs |->
                     [Name |-> d.locs[j][1], Dist |-> FV(d.locs[j][2]), GeoHash |-> d.locs[j][3],
                      Longitude |-> FV(d.locs[j][4][1]), Latitude |-> FV(d.locs[j][4][2])]]) >>

\* ---- JSON documents (JSON.GET / JSON.MGET): the Go side decodes into struct{N int; S string}
JsonDocs == [n : {0, 7}, s : {"", "a"}]
NILJ     == [n |-> -1, s |-> NILS]
JsonText(d) == "{\"N\":" \o ToString(d.n) \o ",\"S\":\"" \o d.s \o "\"}"
JsonVal(d) == IF d = NILJ THEN [N |-> 0, S |-> ""] ELSE [N |-> d.n, S |-> d.s]
D_json   == JsonDocs
S_json(d, p) == Bulk(JsonText(d))
X_json(d, p) == << E("DecodeJSON", JsonVal(d)), E("ToString", JsonText(d)) >>
D_jsons  == SeqUpTo(JsonDocs \cup {NILJ}, N2)
S_jsons(d, p) == Arr([j \in DOMAIN d |-> IF d[j] = NILJ THEN NullOf(p) ELSE Bulk(JsonText(d[j]))])
X_jsons(d, p) == << E("DecodeSliceOfJSON", [j \in DOMAIN d |-> JsonVal(d[j])]) >>

\* ---- arbitrary small trees of every RESP3 type: ToAny, ToArray, AsMap / ToMap
TreeLeaves == {Bulk("a"), Simple("OK"), IntN(5), Null3, Dbl(<<3, 2>>), BoolN(TRUE), BoolN(FALSE), Big("12345678901234567890"),
               Verb("txt:a"), ErrN("x", 1), ErrN("WRONGTYPE y", 0)}
TreeL1   == {Agg(k, a) : k \in {"arr", "set"}, a \in SeqUpTo(TreeLeaves, 2)}
            \cup {MapN(Flatten([j \in DOMAIN ps |-> <<Bulk(ps[j][1]), ps[j][2]>>])) :
                    ps \in SeqUpTo(MapKeys \X (IF Deep THEN TreeLeaves ELSE {Bulk("a"), IntN(5), Null3, Dbl(<<3, 2>>), ErrN("x", 1)}), 2)}
TreeMid  == {Arr(<<>>), Arr(<<Bulk("a"), Null3>>), MapN(<<>>), MapN(<<Bulk("k1"), IntN(5)>>),
             MapN(<<Bulk("k1"), IntN(5), Bulk("k1"), Null3>>), SetN(<<Dbl(<<3, 2>>)>>), Bulk("a"), ErrN("x", 1), Null3}
TreeL2   == {Arr(a) : a \in SeqFromTo(TreeMid, 1, 2)}
            \cup {MapN(<<Bulk("k1"), x, Bulk("k2"), y>>) : x \in TreeMid, y \in TreeMid}
            \cup {Attr(<<Bulk("ttl"), IntN(5), x>>) : x \in {Bulk("a"), Arr(<<IntN(5)>>)}}
            \cup {SArr(<<Bulk("a"), IntN(5)>>), SSet(<<Bulk("a")>>), SMap(<<Bulk("k1"), IntN(5)>>), SBulk("ab")}
D_tree   == (TreeLeaves \ {Null3, ErrN("x", 1), ErrN("WRONGTYPE y", 0)}) \cup TreeL1 \cup TreeL2
S_tree(d, p) == d
X_tree(d, p) == LET n == Norm(d)
                    ps == [j \in 1..(Len(n.a) \div 2) |-> <<n.a[2 * j - 1].s, n.a[2 * j]>>] IN
                IF n.t = "map" THEN << E("ToMap", MapOf(ps)), E("AsMap", MapOf(ps)) >> ELSE <<>>

\* ---- numbers at and beyond the boundaries of their Go type (round 2).  TLC integers are 32 bit: a number is its
\*      sign, an abstract magnitude class and a syntactic form; the text on the wire comes from MagDigits and the
\*      module predicts, per accessor, value-exact (DEC / F2 / FV) or error (FAIL) from the mathematical range of the
\*      Go type.  Syntax rules are those of the code as it is: AsInt64 accepts [+-]digits, AsUint64 digits only,
\*      AsFloat64 what strconv.ParseFloat accepts (decimal, exponent, inf, nan; no blanks, no "0x10").
Mags == <<"0", "5", "i64max", "i64max+1", "i64max+2", "u64max", "u64max+1", "2^65">>
MagRank(m) == CHOOSE j \in DOMAIN Mags : Mags[j] = m
MagDigits(m) == CASE m = "0" -> "0" [] m = "5" -> "5"
                  [] m = "i64max"   -> "9223372036854775807"  [] m = "i64max+1" -> "9223372036854775808"
                  [] m = "i64max+2" -> "9223372036854775809"  [] m = "u64max"   -> "18446744073709551615"
                  [] m = "u64max+1" -> "18446744073709551616" [] m = "2^65"     -> "36893488147419103232"
\* the mathematical value sg * m lies in the range of the type
InI64(sg, m) == IF sg = "-" THEN MagRank(m) <= MagRank("i64max+1") ELSE MagRank(m) <= MagRank("i64max")
InU64(sg, m) == sg # "-" /\ MagRank(m) <= MagRank("u64max")
\* the double nearest to sg * m (2^63 - 1 and 2^63 + 1 round to 2^63, 2^64 - 1 to 2^64)
NearestF(sg, m) == LET neg == sg = "-" IN
                   CASE m = "0" -> FV(ZERO) [] m = "5" -> FV(<<IF neg THEN -5 ELSE 5, 1>>)
                     [] m \in {"i64max", "i64max+1", "i64max+2"} -> F2(IF neg THEN -1 ELSE 1, 63)
                     [] m \in {"u64max", "u64max+1"} -> F2(IF neg THEN -1 ELSE 1, 64)
                     [] m = "2^65" -> F2(IF neg THEN -1 ELSE 1, 65)
NumDec  == {[form |-> "dec", sg |-> sg, m |-> m] : sg \in {"", "-"}, m \in Range(Mags)} \ {[form |-> "dec", sg |-> "-", m |-> "0"]}
NumOdd  == {[form |-> f, sg |-> "", m |-> "5"] : f \in {"plus", "lead-space", "trail-space", "hex", "exp", "frac", "empty",
                                                       "inf", "-inf", "nan", "-nan", "word"}}
NumText(d) == CASE d.form = "dec" -> d.sg \o MagDigits(d.m) [] d.form = "plus" -> "+5" [] d.form = "lead-space" -> " 5"
                [] d.form = "trail-space" -> "5 " [] d.form = "hex" -> "0x10" [] d.form = "exp" -> "1e3"
                [] d.form = "frac" -> "1.5" [] d.form = "empty" -> "" [] d.form = "word" -> "zz"
                [] OTHER -> d.form                                    \* inf -inf nan -nan
NumValText(d) == IF d.form = "plus" THEN "5" ELSE NumText(d)          \* decimal text of the value of an accepted integer
NumI64(d) == IF (d.form = "dec" /\ InI64(d.sg, d.m)) \/ d.form = "plus" THEN DEC(NumValText(d)) ELSE FAIL
NumU64(d) == IF BugU64ViaI64 THEN (IF NumI64(d) = FAIL THEN FAIL ELSE DEC("cast:" \o NumValText(d)))
             ELSE IF d.form = "dec" /\ InU64(d.sg, d.m) THEN DEC(NumValText(d)) ELSE FAIL
NumF64(d) == CASE d.form = "dec" -> NearestF(d.sg, d.m) [] d.form = "plus" -> FV(<<5, 1>>) [] d.form = "exp" -> FV(<<1000, 1>>)
               [] d.form = "frac" -> FV(<<3, 2>>) [] d.form \in {"inf", "-inf", "nan", "-nan"} -> SpecialF(d.form)
               [] OTHER -> FAIL
NumLabel(d) == IF d.form = "dec" THEN "dec-" \o (IF d.sg = "-" THEN "minus-" ELSE "") \o d.m ELSE d.form
\* a string reply holding a number (RESP2 bulk; the same in RESP3)
D_num    == NumDec \cup NumOdd
S_num(d, p) == Bulk(NumText(d))
X_num(d, p) == << E("ToString", NumText(d)), E("AsInt64", NumI64(d)), E("AsUint64", NumU64(d)), E("AsFloat64", NumF64(d)),
                  E("AsBool", FALSE), E("ToInt64", FAIL) >>
\* an integer reply at the boundaries of int64 ("min" = -2^63)
D_numint == {"9223372036854775807", "-9223372036854775808", "-1", "0", "1"}
S_numint(d, p) == IntX(d)
X_numint(d, p) == << E("ToInt64", DEC(d)), E("AsInt64", DEC(d)), E("AsBool", d # "0"), E("ToString", FAIL), E("AsFloat64", FAIL) >>
                  \o Opt(d \in {"9223372036854775807", "0", "1"}, << E("AsUint64", DEC(d)) >>)
\* one-element arrays of numeric strings: the slice accessors parse every element
D_numarr == NumDec \cup {d \in NumOdd : d.form \in {"plus", "lead-space", "hex", "exp", "word"}}
S_numarr(d, p) == Arr(<<Bulk(NumText(d))>>)
X_numarr(d, p) == << E("AsStrSlice", <<NumText(d)>>), E("AsIntSlice", IF NumI64(d) = FAIL THEN FAIL ELSE <<NumI64(d)>>),
                     E("AsFloatSlice", IF NumF64(d) = FAIL THEN FAIL ELSE <<NumF64(d)>>) >>
\* SCAN cursors are unsigned 64-bit numbers sent as strings
D_numscan == {d \in NumDec : d.m # "5"} \cup {d \in NumOdd : d.form \in {"plus", "hex", "empty"}}
S_numscan(d, p) == Arr(<<Bulk(NumText(d)), Arr(<<Bulk("a")>>)>>)
X_numscan(d, p) == << E("AsScanEntry", IF NumU64(d) = FAIL THEN FAIL ELSE [Cursor |-> NumU64(d), Elements |-> <<"a">>]) >>
\* hashes of counters: AsIntMap parses every value (flat array in RESP2, map in RESP3)
D_nummap == NumDec \cup {d \in NumOdd : d.form \in {"plus", "word", "exp"}}
S_nummap(d, p) == S_strmap(<< <<"k1", NumText(d)>> >>, p)
X_nummap(d, p) == << E("AsIntMap", IF NumI64(d) = FAIL THEN FAIL ELSE [k1 |-> NumI64(d)]), E("AsStrMap", [k1 |-> NumText(d)]) >>
\* RESP3 doubles that are not finite
D_numdbl == {"inf", "-inf", "nan"}
S_numdbl(d, p) == Nd("double", d, 0, 0, <<>>)
X_numdbl(d, p) == << E("AsFloat64", SpecialF(d)), E("ToFloat64", SpecialF(d)) >>

\* ---- dispatch
Classes16 == {"str", "status", "int", "intstr", "float", "bool", "strs", "strset", "ints", "intstrs", "floats", "bools",
              "strmap", "intmap", "intstrmap", "zscore", "zscores", "xentry", "xrange", "xread", "scan", "lmpop",
              "zmpop", "ftsearch", "ftagg", "geo", "json", "jsons", "tree", "num", "numint", "numarr", "numscan", "nummap", "numdbl"}
Data(c) == CASE c = "str" -> D_str [] c = "status" -> D_status [] c = "int" -> D_int [] c = "intstr" -> D_intstr
             [] c = "float" -> D_float [] c = "bool" -> D_bool [] c = "strs" -> D_strs [] c = "strset" -> D_strset
             [] c = "ints" -> D_ints [] c = "intstrs" -> D_intstrs [] c = "floats" -> D_floats [] c = "bools" -> D_bools
             [] c = "strmap" -> D_strmap [] c = "intmap" -> D_intmap [] c = "intstrmap" -> D_intstrmap
             [] c = "zscore" -> D_zscore [] c = "zscores" -> D_zscores [] c = "xentry" -> D_xentry
             [] c = "xrange" -> D_xrange [] c = "xread" -> D_xread [] c = "scan" -> D_scan [] c = "lmpop" -> D_lmpop
             [] c = "zmpop" -> D_zmpop [] c = "ftsearch" -> D_ftsearch [] c = "ftagg" -> D_ftagg [] c = "geo" -> D_geo
             [] c = "json" -> D_json [] c = "jsons" -> D_jsons [] c = "tree" -> D_tree
             [] c = "num" -> D_num [] c = "numint" -> D_numint [] c = "numarr" -> D_numarr [] c = "numscan" -> D_numscan
             [] c = "numdbl" -> D_numdbl [] c = "nummap" -> D_nummap
Shape(c, d, p) ==
           CASE c = "str" -> S_str(d, p) [] c = "status" -> S_status(d, p) [] c = "int" -> S_int(d, p)
             [] c = "intstr" -> S_intstr(d, p) [] c = "float" -> S_float(d, p) [] c = "bool" -> S_bool(d, p)
             [] c = "strs" -> S_strs(d, p) [] c = "strset" -> S_strset(d, p) [] c = "ints" -> S_ints(d, p)
             [] c = "intstrs" -> S_intstrs(d, p) [] c = "floats" -> S_floats(d, p) [] c = "bools" -> S_bools(d, p)
             [] c = "strmap" -> S_strmap(d, p) [] c = "intmap" -> S_intmap(d, p) [] c = "intstrmap" -> S_intstrmap(d, p)
             [] c = "zscore" -> S_zscore(d, p) [] c = "zscores" -> S_zscores(d, p) [] c = "xentry" -> S_xentry(d, p)
             [] c = "xrange" -> S_xrange(d, p) [] c = "xread" -> S_xread(d, p) [] c = "scan" -> S_scan(d, p)
             [] c = "lmpop" -> S_lmpop(d, p) [] c = "zmpop" -> S_zmpop(d, p) [] c = "ftsearch" -> S_ftsearch(d, p)
             [] c = "ftagg" -> S_ftagg(d, p) [] c = "geo" -> S_geo(d, p) [] c = "json" -> S_json(d, p)
             [] c = "jsons" -> S_jsons(d, p) [] c = "tree" -> S_tree(d, p)
             [] c = "num" -> S_num(d, p) [] c = "numint" -> S_numint(d, p) [] c = "numarr" -> S_numarr(d, p)
             [] c = "numscan" -> S_numscan(d, p) [] c = "numdbl" -> S_numdbl(d, p) [] c = "nummap" -> S_nummap(d, p)
Expect(c, d, p) ==
           CASE c = "str" -> X_str(d, p) [] c = "status" -> X_str(d, p) [] c = "int" -> X_int(d, p)
             [] c = "intstr" -> X_intstr(d, p) [] c = "float" -> X_float(d, p) [] c = "bool" -> X_bool(d, p)
             [] c = "strs" -> X_strs(d, p) [] c = "strset" -> X_strset(d, p) [] c = "ints" -> X_ints(d, p)
             [] c = "intstrs" -> X_intstrs(d, p) [] c = "floats" -> X_floats(d, p) [] c = "bools" -> X_bools(d, p)
             [] c = "strmap" -> X_strmap(d, p) [] c = "intmap" -> X_intmap(d, p) [] c = "intstrmap" -> X_intstrmap(d, p)
             [] c = "zscore" -> X_zscore(d, p) [] c = "zscores" -> X_zscores(d, p) [] c = "xentry" -> X_xentry(d, p)
             [] c = "xrange" -> X_xrange(d, p) [] c = "xread" -> X_xread(d, p) [] c = "scan" -> X_scan(d, p)
             [] c = "lmpop" -> X_lmpop(d, p) [] c = "zmpop" -> X_zmpop(d, p) [] c = "ftsearch" -> X_ftsearch(d, p)
             [] c = "ftagg" -> X_ftagg(d, p) [] c = "geo" -> X_geo(d, p) [] c = "json" -> X_json(d, p)
             [] c = "jsons" -> X_jsons(d, p) [] c = "tree" -> X_tree(d, p)
             [] c = "num" -> X_num(d, p) [] c = "numint" -> X_numint(d, p) [] c = "numarr" -> X_numarr(d, p)
             [] c = "numscan" -> X_numscan(d, p) [] c = "numdbl" -> X_numdbl(d, p) [] c = "nummap" -> X_nummap(d, p)

\* a label for the data inside its class: part of a violation signature ("<accessor>-wrong-<label>-<resp2|resp3>")
Label(c, d) ==
    CASE c = "ftsearch" -> c \o (IF d.ws THEN "-withscores" ELSE "") \o (IF d.nc THEN "-nocontent" ELSE "")
                             \o (IF d.wp THEN "-withpayloads" ELSE "")
      [] c = "geo"      -> c \o (IF d.wd THEN "-withdist" ELSE "") \o (IF d.wh THEN "-withhash" ELSE "")
                             \o (IF d.wc THEN "-withcoord" ELSE "")
      [] c = "ftagg"    -> c \o (IF d[2] = -1 THEN "" ELSE "-withcursor")
      [] c \in {"num", "numarr", "numscan", "nummap"} -> c \o "-" \o NumLabel(d)
      [] c = "numint"   -> c \o "-" \o (IF d = "9223372036854775807" THEN "i64max" ELSE IF d = "-9223372036854775808" THEN "i64min" ELSE d)
      [] c = "numdbl"   -> c \o "-" \o d
      [] OTHER -> c

Exp16(c, d, p) == Expect(c, d, p) \o Common(Shape(c, d, p))
Case16 == [prop |-> "C16", fam |-> fam, cls |-> Label(fam, dat), proto |-> pro, tree |-> tree, exp |-> exp]

\* =================================================================================================== C15 shapes
\* ---- the accessors that return an error, and the outcome class the API documents for them
(* outcome classes:  V value, no error      N the Nil error       R *RedisError carrying the reply's text
                     P parse error          VE value or any error  A anything but a panic
                     T the transport error the RedisResult was built with (no reply at all)
                     X an error of whatever kind: not a value, not a panic (family comp) *)
StrAccs    == {"ToString", "AsBytes", "AsReader"}
SliceAccs  == {"AsStrSlice", "AsIntSlice", "AsFloatSlice", "AsBoolSlice"}
ArrAccs    == {"AsXRangeEntry", "AsXRange", "AsXRangeSlice", "AsXRangeSlices", "AsZScore", "AsZScores", "AsScanEntry",
               "AsGeosearch", "DecodeSliceOfJSON"}
ArrMapAccs == {"AsXRead", "AsXReadSlices"}
MapAccs    == {"AsMap", "AsStrMap", "AsIntMap"}
PopAccs    == {"AsLMPop", "AsZMPop"}
FtAccs     == {"AsFtSearch", "AsFtAggregate", "AsFtAggregateCursor"}
Accs == {"ToInt64", "ToBool", "ToFloat64", "ToArray", "ToMap", "ToAny", "ToMessage", "Error", "DecodeJSON",
         "AsInt64", "AsUint64", "AsBool", "AsFloat64"}
        \cup StrAccs \cup SliceAccs \cup ArrAccs \cup ArrMapAccs \cup MapAccs \cup PopAccs \cup FtAccs

KeysAreStrings(n) == \A j \in 1..(Len(n.a) \div 2) : n.a[2 * j - 1].t \in {"bulk", "simple"}
EvenLen(n) == Len(n.a) % 2 = 0

Rule(acc, n) ==     \* n: the decoded tree
    LET T == TopT(n) IN
    IF T = "null" THEN "N"
    ELSE IF T = "err" THEN "R"
    ELSE IF T = "end" THEN "A"
    ELSE CASE acc \in {"Error", "ToMessage"} -> "V"
           [] acc = "ToInt64"   -> IF T = "int" THEN "V" ELSE "P"
           [] acc = "ToBool"    -> IF T = "bool" THEN "V" ELSE "P"
           [] acc = "ToFloat64" -> IF T = "double" THEN "V" ELSE "P"
           [] acc = "ToArray"   -> IF T = "arr" THEN "V" ELSE "P"
           [] acc = "ToMap"     -> IF T = "map" /\ EvenLen(n) /\ KeysAreStrings(n) THEN "V" ELSE "P"
           [] acc = "ToAny"     -> IF T = "push" \/ (T = "map" /\ ~EvenLen(n)) THEN "P" ELSE "V"
           [] acc \in StrAccs   -> IF T = "str" THEN "V" ELSE IF T \in {"int", "arr", "map", "push"} THEN "P" ELSE "A"
           [] acc = "DecodeJSON" -> IF T = "str" THEN "VE" ELSE IF T \in {"int", "arr", "map", "push"} THEN "P" ELSE "A"
           [] acc \in {"AsInt64", "AsUint64"} ->
                 IF T = "int" THEN "V" ELSE IF T = "str" THEN "VE" ELSE IF T \in {"arr", "map", "push"} THEN "P" ELSE "A"
           [] acc = "AsFloat64" ->
                 IF T = "double" THEN "V" ELSE IF T = "str" THEN "VE"
                 ELSE IF T \in {"int", "arr", "map", "push"} THEN "P" ELSE "A"
           [] acc = "AsBool"    -> IF T \in {"str", "int", "bool"} THEN "V" ELSE "P"
           [] acc \in {"AsStrSlice", "AsBoolSlice"}  -> IF T = "arr" THEN "V" ELSE "P"
           [] acc \in {"AsIntSlice", "AsFloatSlice"} -> IF T = "arr" THEN "VE" ELSE "P"
           [] acc \in ArrAccs    -> IF T = "arr" THEN "VE" ELSE "P"
           [] acc \in ArrMapAccs -> IF T \in {"arr", "map"} THEN "VE" ELSE "P"
           [] acc = "AsStrMap"   -> IF T \in {"arr", "map"} /\ EvenLen(n) THEN "V" ELSE "P"
           [] acc = "AsMap"      -> IF T \in {"arr", "map"} /\ EvenLen(n) /\ KeysAreStrings(n) THEN "V" ELSE "P"
           [] acc = "AsIntMap"   -> IF T \in {"arr", "map"} /\ EvenLen(n) THEN "VE" ELSE "P"
           [] acc \in PopAccs \cup FtAccs -> IF T \in {"arr", "map", "push"} THEN "VE" ELSE "P"

OutClasses == {"V", "N", "R", "P", "VE", "A", "T", "X"}
Rules(t) == LET n == Norm(t)
                r == [acc \in Accs |-> Rule(acc, n)] IN
            [c \in OutClasses |-> {acc \in Accs : r[acc] = c}]
ErrText(t) == LET n == Norm(t) IN IF TopT(n) = "err" THEN n.s ELSE ""

\* ---- leaves: every RESP type
Leaves == << [name |-> "simple", n |-> Simple("OK")], [name |-> "simple-empty", n |-> Simple("")],
             [name |-> "bulk-empty", n |-> Bulk("")], [name |-> "bulk", n |-> Bulk("a")],
             [name |-> "bulk-int", n |-> Bulk("12")], [name |-> "bulk-float", n |-> Bulk("1.5")],
             [name |-> "bulk-json", n |-> Bulk("{\"N\":1}")], [name |-> "streamed-bulk", n |-> SBulk("ab")],
             [name |-> "int", n |-> IntN(0)], [name |-> "int", n |-> IntN(1)], [name |-> "int-negative", n |-> IntN(-1)],
             [name |-> "null", n |-> Null3], [name |-> "null-bulk", n |-> NullB], [name |-> "null-array", n |-> NullA],
             [name |-> "double", n |-> Dbl(<<3, 2>>)], [name |-> "double-inf", n |-> DblInf],
             [name |-> "bool", n |-> BoolN(TRUE)], [name |-> "bool", n |-> BoolN(FALSE)],
             [name |-> "bignumber", n |-> Big("12345678901234567890")], [name |-> "verbatim", n |-> Verb("txt:a")],
             [name |-> "error", n |-> ErrN("x", 1)], [name |-> "error", n |-> ErrN("WRONGTYPE y", 0)],
             [name |-> "error-redirect", n |-> ErrN("MOVED 3999 127.0.0.1:6379", 0)],
             [name |-> "error-short-redirect", n |-> ErrN("MOVED", 0)],
             [name |-> "blob-error", n |-> BlobErr("SYNTAX z", 0)], [name |-> "blob-error", n |-> BlobErr("z", 1)],
             [name |-> "end", n |-> EndN],
             [name |-> "attr-bulk", n |-> Attr(<<Bulk("ttl"), IntN(5), Bulk("a")>>)],
             [name |-> "attr-null", n |-> Attr(<<Bulk("ttl"), IntN(5), Null3>>)] >>

\* ---- flat aggregates: every aggregate kind over every short sequence of element kinds
FlatKinds == {"arr", "set", "map", "push", "sarr", "sset", "smap"}
FlatElems == {Bulk("a"), Bulk(""), IntN(1), Null3, ErrN("x", 1)}
             \cup (IF Deep THEN {Bulk("1.5"), Dbl(<<3, 2>>), BoolN(TRUE)} ELSE {})
FlatSeqs  == SeqUpTo(FlatElems, 3) \cup (IF Deep THEN [1..4 -> {Bulk("a"), IntN(1), Null3}] ELSE {})
LenClass(k) == IF k = 0 THEN "empty" ELSE IF k = 1 THEN "single" ELSE IF k % 2 = 1 THEN "odd" ELSE "even"

\* ---- nested aggregates: short sequences of small aggregates inside each aggregate kind
NestElems == << [name |-> "str", n |-> Bulk("a")], [name |-> "int", n |-> IntN(1)], [name |-> "null", n |-> Null3],
                [name |-> "arr0", n |-> Arr(<<>>)], [name |-> "arr1", n |-> Arr(<<Bulk("a")>>)],
                [name |-> "arr2", n |-> Arr(<<Bulk("a"), Bulk("b")>>)],
                [name |-> "arr3", n |-> Arr(<<Bulk("a"), Bulk("b"), Bulk("c")>>)],
                [name |-> "map0", n |-> MapN(<<>>)], [name |-> "map1", n |-> MapN(<<Bulk("a"), Bulk("b")>>)],
                [name |-> "oddmap", n |-> SMap(<<Bulk("a")>>)], [name |-> "arr-of-arr0", n |-> Arr(<<Arr(<<>>)>>)],
                [name |-> "arr-str-arr0", n |-> Arr(<<Bulk("a"), Arr(<<>>)>>)],
                [name |-> "arr-str-arr1", n |-> Arr(<<Bulk("a"), Arr(<<Bulk("f")>>)>>)],
                [name |-> "arr-int", n |-> Arr(<<IntN(1)>>)], [name |-> "arr-nulls", n |-> Arr(<<Null3, Null3>>)],
                [name |-> "arr-str-null", n |-> Arr(<<Bulk("a"), NullA>>)] >>
NestKinds == {"arr", "map", "set", "smap"}
NestIdx   == SeqFromTo(DOMAIN NestElems, 1, N2)
RECURSIVE NestNames(_)
NestNames(ix) == IF ix = <<>> THEN "" ELSE "." \o NestElems[Head(ix)].name \o NestNames(Tail(ix))

\* ---- one-point mutations of the C16 shapes: substitute a subtree, drop or repeat a child
Rich(c) == CASE c = "strs" -> <<"a", NILS>> [] c = "ints" -> <<7, NILI>> [] c = "floats" -> <<<<3, 2>>, NILF>>
             [] c = "strmap" -> <<<<"k1", "a">>, <<"k2", "b">>>> [] c = "intmap" -> <<<<"k1", 5>>>>
             [] c = "zscore" -> <<"m1", <<3, 2>>>> [] c = "zscores" -> <<<<"m1", <<3, 2>>>>, <<"m2", <<0, 1>>>>>>
             [] c = "xentry" -> <<"1-0", <<<<"f1", "v">>>>>>
             [] c = "xrange" -> <<<<"1-0", <<<<"f1", "v">>>>>>, <<"2-1", NILFV>>>>
             [] c = "xread" -> <<<<"s1", <<<<"1-0", <<<<"f1", "v">>, <<"f1", "">>>>>>>>>>>>
             [] c = "scan" -> <<17, <<"a", "b">>>> [] c = "lmpop" -> <<"k1", <<"a", "b">>>>
             [] c = "zmpop" -> <<"k1", <<<<"m1", <<3, 2>>>>>>>>
             [] c = "ftsearch" -> [ws |-> TRUE, nc |-> FALSE, wp |-> FALSE,
                                   docs |-> <<<<"doc:1", <<3, 2>>, <<<<"f1", "v">>>>>>, <<"doc:2", <<1, 1>>, <<>>>>>>]
             [] c = "ftsearch-noscore" -> [ws |-> FALSE, nc |-> FALSE, wp |-> FALSE,
                                   docs |-> <<<<"doc:1", ZERO, <<<<"f1", "v">>>>>>>>]
             [] c = "ftsearch-nocontent" -> [ws |-> TRUE, nc |-> TRUE, wp |-> FALSE,
                                   docs |-> <<<<"doc:1", <<3, 2>>, <<>>>>>>]
             [] c = "ftagg" -> <<<<<<<<"f1", "v">>>>>>, -1>>
             [] c = "ftagg-cursor" -> <<<<<<<<"f1", "v">>>>>>, 5>>
             [] c = "geo" -> [wd |-> TRUE, wh |-> TRUE, wc |-> TRUE, locs |-> <<<<"p1", <<3, 2>>, 1234, <<<<27, 2>>, <<-75, 2>>>>>>>>]
             [] c = "geo-coord" -> [wd |-> FALSE, wh |-> FALSE, wc |-> TRUE, locs |-> <<<<"p1", ZERO, 0, <<<<27, 2>>, <<-75, 2>>>>>>>>]
             [] c = "jsons" -> <<[n |-> 7, s |-> "a"], NILJ>>
             [] c = "intstrs" -> <<7, -1>> [] c = "intstrmap" -> <<<<"k1", 5>>>>
BaseClass(c) == CASE c \in {"ftsearch-noscore", "ftsearch-nocontent"} -> "ftsearch" [] c = "ftagg-cursor" -> "ftagg"
                  [] c = "geo-coord" -> "geo" [] OTHER -> c
MutBases == {"strs", "ints", "floats", "strmap", "intmap", "zscore", "zscores", "xentry", "xrange", "xread", "scan",
             "lmpop", "zmpop", "ftsearch", "ftsearch-noscore", "ftsearch-nocontent", "ftagg", "ftagg-cursor", "geo",
             "geo-coord", "jsons"}
BaseTree(c, p) == Shape(BaseClass(c), Rich(c), p)

RECURSIVE Paths(_)
Paths(n) == {<<>>} \cup UNION {{<<j>> \o q : q \in Paths(n.a[j])} : j \in DOMAIN n.a}
RECURSIVE At(_, _)
At(n, q) == IF q = <<>> THEN n ELSE At(n.a[Head(q)], Tail(q))
RECURSIVE Put(_, _, _)
Put(n, q, r) == IF q = <<>> THEN r ELSE [n EXCEPT !.a[Head(q)] = Put(n.a[Head(q)], Tail(q), r)]
\* an odd number of map children can only be sent as a streamed map
FixMap(n) == IF n.t = "map" /\ Len(n.a) % 2 = 1 THEN SMap(n.a) ELSE n
Subst == << [name |-> "emptyarr", n |-> Arr(<<>>)], [name |-> "arr1", n |-> Arr(<<Bulk("a")>>)],
            [name |-> "null", n |-> Null3], [name |-> "int", n |-> IntN(7)], [name |-> "emptystr", n |-> Bulk("")],
            [name |-> "str", n |-> Bulk("zz")], [name |-> "error", n |-> ErrN("x", 1)],
            [name |-> "oddmap", n |-> SMap(<<Bulk("a")>>)], [name |-> "emptymap", n |-> MapN(<<>>)],
            [name |-> "double", n |-> Dbl(<<3, 2>>)] >>
MutOps == ({Subst[j].name : j \in DOMAIN Subst} \ (IF Deep THEN {} ELSE {"str", "double", "emptymap"}))
          \cup {"droplast", "dropfirst", "repeatfirst", "none"}
Mutate(b, q, op) ==
    LET x == At(b, q) IN
    CASE op = "none"        -> b
      [] op = "droplast"    -> Put(b, q, FixMap([x EXCEPT !.a = Front(@)]))
      [] op = "dropfirst"   -> Put(b, q, FixMap([x EXCEPT !.a = Tail(@)]))
      [] op = "repeatfirst" -> Put(b, q, FixMap([x EXCEPT !.a = @ \o <<Head(@)>>]))
      [] OTHER -> Put(b, q, (CHOOSE s \in Range(Subst) : s.name = op).n)
MutApplies(b, q, op) == IF op \in {"droplast", "dropfirst", "repeatfirst"} THEN Len(At(b, q).a) > 0
                        ELSE IF op = "none" THEN q = <<>> ELSE TRUE
MutData(p) == UNION {{[c |-> c, q |-> q, op |-> op] : q \in Paths(BaseTree(c, p)), op \in MutOps} : c \in MutBases}

\* ---- composites with exactly ONE malformed component (round 2)
(* A structured reply is a tree of components, each read by one conversion of the code: the SCAN cursor by AsUint64,
   the elements by AsStrSlice, a score by AsFloat64, a stream entry by AsXRangeEntry ...  CompRoles lists, per
   structured class and protocol, the components the helper MUST be able to read (name for the signature, path,
   role = which conversion reads it, the accessors that read it); RoleOps the malformed values a role cannot read
   (the code as it is: components read with the lenient string()/intlen are not listed).  Every case substitutes
   ONE component of a well-formed reply; the other components stay fine.  Predicted for the accessors of the role:
   X "an error, whatever its kind" - never a value (a partial result presented as success), never a panic; where
   the conversion is applied to the component directly, a nil component gives N and an error component R with the
   component's text.  All other accessors keep their Rule class. *)
CR(name, q, role, accs) == [name |-> name, q |-> q, role |-> role, accs |-> accs]
ZAcc  == {"AsZScores"}
XEAcc == {"AsXRangeEntry"}
XSAcc == {"AsXRangeSlice"}
XRAcc == {"AsXRange", "AsXRangeSlices"}
XDAcc == {"AsXRead", "AsXReadSlices"}
XEntryRoles(pre, ea, sa) ==      \* the components of one stream entry at path pre, read by accessors ea (maps) and sa (slices)
    {CR("entry-id", pre \o <<1>>, "str", ea \cup sa), CR("entry-fields", pre \o <<2>>, "fvmap", ea),
     CR("entry-fields", pre \o <<2>>, "fvarr", sa)}
CompRoles(c, p) ==
    CASE c = "scan"    -> {CR("cursor", <<1>>, "u64", {"AsScanEntry"}), CR("elements", <<2>>, "strs", {"AsScanEntry"})}
      [] c = "zscore"  -> {CR("member", <<1>>, "str", {"AsZScore"}), CR("score", <<2>>, "f64", {"AsZScore"})}
      [] c = "zscores" -> IF p = 2 THEN {CR("member", <<1>>, "str", ZAcc), CR("score", <<2>>, "f64", ZAcc),
                                          CR("member", <<3>>, "str", ZAcc), CR("score", <<4>>, "f64", ZAcc)}
                          ELSE {CR("pair", <<1>>, "pair", ZAcc), CR("pair", <<2>>, "pair", ZAcc),
                                CR("member", <<1, 1>>, "str", ZAcc), CR("score", <<1, 2>>, "f64", ZAcc),
                                CR("member", <<2, 1>>, "str", ZAcc), CR("score", <<2, 2>>, "f64", ZAcc)}
      [] c = "xentry"  -> XEntryRoles(<<>>, XEAcc, XSAcc)
      [] c = "xrange"  -> {CR("entry", <<1>>, "entry", XRAcc), CR("entry", <<2>>, "entry", XRAcc)}
                          \cup XEntryRoles(<<1>>, {"AsXRange"}, {"AsXRangeSlices"})
                          \cup XEntryRoles(<<2>>, {"AsXRange"}, {"AsXRangeSlices"})
      [] c = "xread"   -> IF p = 2 THEN {CR("stream", <<1>>, "pair2", XDAcc), CR("entries", <<1, 2>>, "entries", XDAcc),
                                          CR("entry", <<1, 2, 1>>, "entry", XDAcc)}
                                         \cup XEntryRoles(<<1, 2, 1>>, {"AsXRead"}, {"AsXReadSlices"})
                          ELSE {CR("entries", <<2>>, "entries", XDAcc), CR("entry", <<2, 1>>, "entry", XDAcc)}
                               \cup XEntryRoles(<<2, 1>>, {"AsXRead"}, {"AsXReadSlices"})
      [] c = "lmpop"   -> {CR("values", <<2>>, "strs", {"AsLMPop"})}
      [] c = "zmpop"   -> {CR("values", <<2>>, "zs", {"AsZMPop"}), CR("member", <<2, 1, 1>>, "str", {"AsZMPop"}),
                           CR("score", <<2, 1, 2>>, "f64", {"AsZMPop"})}
      [] c = "geo"     -> {CR("location", <<1>>, "geoloc", {"AsGeosearch"}), CR("dist", <<1, 2>>, "geodist", {"AsGeosearch"}),
                           CR("coordinates", <<1, 4>>, "coord", {"AsGeosearch"})}
      [] c = "intstrs" -> {CR("element", <<1>>, "numelem", {"AsIntSlice"})}
      [] c = "floats"  -> IF p = 2 THEN {CR("element", <<1>>, "numelem", {"AsFloatSlice"})} ELSE {}
      [] c = "intstrmap" -> {CR("value", <<2>>, "numelem", {"AsIntMap"})}
      [] c = "jsons"   -> {CR("document", <<1>>, "json", {"DecodeSliceOfJSON"})}
      \* FT.*: RESP2 replies are read leniently throughout; in the RESP3 envelope a result record must be a whole map
      [] c = "ftsearch" -> IF p = 3 THEN {CR("record", <<10, 1>>, "ftrecord", {"AsFtSearch"}),
                                          CR("record", <<10, 2>>, "ftrecord", {"AsFtSearch"})} ELSE {}
      [] c = "ftagg"    -> IF p = 3 THEN {CR("record", <<10, 1>>, "ftrecord", {"AsFtAggregate", "AsFtAggregateCursor"})} ELSE {}
      [] c = "ftagg-cursor" -> IF p = 3 THEN {CR("record", <<1, 10, 1>>, "ftrecord", {"AsFtAggregateCursor"})} ELSE {}
CompBases == {"scan", "zscore", "zscores", "xentry", "xrange", "xread", "lmpop", "zmpop", "geo", "intstrs", "floats",
              "intstrmap", "jsons", "ftsearch", "ftagg", "ftagg-cursor"}
CompSubst == Subst \o << [name |-> "negative", n |-> Bulk("-1")], [name |-> "bool", n |-> BoolN(TRUE)] >>
CompNode(op) == (CHOOSE x \in Range(CompSubst) : x.name = op).n
RoleOps(role) ==
    CASE role = "u64"     -> {"null", "error", "emptyarr", "arr1", "str", "emptystr", "emptymap", "double", "negative", "bool"}
      [] role = "f64"     -> {"null", "error", "emptyarr", "arr1", "str", "emptystr", "emptymap", "int", "bool"}
      [] role = "str"     -> {"null", "error", "emptyarr", "arr1", "int", "emptymap"}
      [] role = "strs"    -> {"null", "error", "str", "emptystr", "int", "emptymap", "double"}
      [] role = "fvmap"   -> {"error", "int", "str", "emptystr", "arr1", "double"}       \* a nil field list is a deleted entry: fine
      [] role = "fvarr"   -> {"error", "int", "str", "emptystr", "emptymap", "double"}
      [] role = "entry"   -> {"null", "error", "int", "str", "emptyarr", "arr1", "emptymap"}
      [] role = "pair"    -> {"null", "error", "int", "str", "emptyarr", "arr1"}
      [] role = "pair2"   -> {"null", "error", "int", "str", "emptyarr", "arr1", "emptymap"}
      [] role = "entries" -> {"null", "error", "int", "str", "emptymap"}
      [] role = "zs"      -> {"null", "error", "int", "str", "emptymap"}
      [] role = "geoloc"  -> {"null", "error", "int", "emptyarr", "emptymap", "double", "bool"}
      [] role = "geodist" -> {"str"}
      [] role = "coord"   -> {"emptyarr", "arr1"}
      [] role = "numelem" -> {"str"}
      [] role = "json"    -> {"str", "error", "int", "emptyarr"}
      [] role = "ftrecord" -> {"oddmap"}
\* the conversion is applied to the component itself: nil and error components surface as they are
CompDirect(c, cr) == c \in {"scan", "zscore", "xentry", "lmpop"} /\ Len(cr.q) = 1
CompClass(c, cr, op) == IF CompDirect(c, cr) /\ op = "null" THEN "N" ELSE IF CompDirect(c, cr) /\ op = "error" THEN "R" ELSE "X"
CompData(p) == UNION {UNION {{[c |-> c, cr |-> cr, op |-> op] : op \in RoleOps(cr.role)} : cr \in CompRoles(c, p)} : c \in CompBases}
CompTree(d, p) == Put(BaseTree(d.c, p), d.cr.q, CompNode(d.op))
CompRules(d, t) == LET base == Rules(t)  cl == CompClass(d.c, d.cr, d.op) IN
                   IF BugCompKeepsRule THEN base
                   ELSE [k \in OutClasses |-> IF k = cl THEN base[k] \cup d.cr.accs ELSE base[k] \ d.cr.accs]

\* ---- error texts:  code { " " field }   and the RedisError classifiers
ErrCodes == {"MOVED", "ASK", "REDIRECT", "TRYAGAIN", "LOADING", "CLUSTERDOWN", "NOSCRIPT", "BUSYGROUP", "READONLY",
             "NOPERM", "WRONGTYPE", "moved", ""}
\* host, port, form: how a node address is spelled in a redirection, and how Go wants it (net.JoinHostPort)
Addrs == { [host |-> "127.0.0.1", port |-> "6379", br |-> FALSE, v6 |-> FALSE],
           [host |-> "redis-a", port |-> "6379", br |-> FALSE, v6 |-> FALSE],
           [host |-> "", port |-> "6379", br |-> FALSE, v6 |-> FALSE],         \* "same host as the one you asked"
           [host |-> "::1", port |-> "6379", br |-> FALSE, v6 |-> TRUE],
           [host |-> "2001:db8::1", port |-> "6380", br |-> FALSE, v6 |-> TRUE],
           [host |-> "::1", port |-> "6379", br |-> TRUE, v6 |-> TRUE] }
AddrText(a) == (IF a.br THEN "[" \o a.host \o "]" ELSE a.host) \o ":" \o a.port
AddrWant(a) == (IF a.v6 THEN "[" \o a.host \o "]" ELSE a.host) \o ":" \o a.port
NOADDR == [host |-> "-", port |-> "-", br |-> FALSE, v6 |-> FALSE]
\* argument forms; "A" is the place of the address
ArgForms == {<<>>, <<"3999">>, <<"">>, <<"A">>, <<"3999", "A">>, <<"3999", "A", "extra">>, <<"3999", "">>}
ErrData(p) == {e \in [code : ErrCodes, form : ArgForms, addr : Addrs \cup {NOADDR}, erpfx : {0, 1}, blob : BOOLEAN] :
              (e.addr = NOADDR) <=> ("A" \notin Range(e.form))}
ErrArgs(e) == [j \in DOMAIN e.form |-> IF e.form[j] = "A" THEN AddrText(e.addr) ELSE e.form[j]]
ErrWire(e) == Join(<<e.code>> \o ErrArgs(e), " ")
ErrTree(e) == IF e.blob THEN BlobErr(ErrWire(e), e.erpfx) ELSE ErrN(ErrWire(e), e.erpfx)
\* a redirection names its target in field `pos` (after the code); without a target it is not a redirection
Redir(e, code, pos) ==
    LET has == e.code = code /\ Len(e.form) >= pos /\ e.form[pos] # ""  IN
    IF BugOkWithoutAddr THEN [ok |-> e.code = code, addr |-> IF has /\ e.form[pos] = "A" THEN AddrWant(e.addr) ELSE ""]
    ELSE [ok |-> has, addr |-> IF ~has THEN "" ELSE IF e.form[pos] = "A" THEN AddrWant(e.addr) ELSE e.form[pos]]
Classify(e) == [IsMoved |-> Redir(e, "MOVED", 2), IsAsk |-> Redir(e, "ASK", 2), IsRedirect |-> Redir(e, "REDIRECT", 1),
                IsTryAgain |-> e.code = "TRYAGAIN", IsLoading |-> e.code = "LOADING", IsClusterDown |-> e.code = "CLUSTERDOWN",
                IsNoScript |-> e.code = "NOSCRIPT", IsBusyGroup |-> e.code = "BUSYGROUP", IsNil |-> FALSE]
ErrLabel(e) == (IF e.code = "" THEN "nocode" ELSE e.code) \o "-" \o
               (CASE e.form = <<>> -> "nofield" [] e.form = <<"3999">> -> "onefield" [] e.form = <<"">> -> "trailingspace"
                  [] e.form = <<"A">> -> "addronly" [] e.form = <<"3999", "A">> -> "twofields"
                  [] e.form = <<"3999", "A", "extra">> -> "threefields" [] e.form = <<"3999", "">> -> "emptyaddr")
               \o (IF e.addr # NOADDR /\ e.addr.v6 THEN "-ipv6" ELSE "")

\* ---- dispatch
Classes15 == {"leaf", "flat", "nest", "mut", "comp", "errtext", "neterr"}
Data15(c, p) == CASE c = "leaf" -> DOMAIN Leaves
               [] c = "flat" -> {x \in FlatKinds \X FlatSeqs : x[1] = "map" => Len(x[2]) % 2 = 0}
               [] c = "nest" -> NestKinds \X NestIdx
               [] c = "mut"  -> MutData(p)
               [] c = "comp" -> CompData(p)
               [] c = "errtext" -> ErrData(p)
               [] c = "neterr" -> {0}
NestKids(ix) == [j \in DOMAIN ix |-> NestElems[ix[j]].n]
Tree15(c, d, p) ==
    CASE c = "leaf" -> Leaves[d].n
      [] c = "flat" -> Agg(d[1], d[2])
      [] c = "nest" -> FixMap(Agg(IF d[1] = "smap" THEN "map" ELSE d[1], NestKids(d[2])))
      [] c = "mut"  -> Mutate(BaseTree(d.c, p), d.q, d.op)
      [] c = "comp" -> CompTree(d, p)
      [] c = "errtext" -> ErrTree(d)
      [] c = "neterr" -> Null3
Label15(c, d, p) ==
    CASE c = "leaf" -> Leaves[d].name
      [] c = "flat" -> d[1] \o "-" \o LenClass(Len(d[2]))
      [] c = "nest" -> d[1] \o "-of" \o NestNames(d[2])
      [] c = "mut"  -> d.c \o "-resp" \o ToString(p) \o "-" \o d.op \o "-at-depth" \o ToString(Len(d.q))
      [] c = "comp" -> d.c \o "-resp" \o ToString(p) \o "-" \o d.cr.name \o "-is-" \o d.op
      [] c = "errtext" -> "error-" \o ErrLabel(d)
      [] c = "neterr" -> "transport-error"
\* which (class, datum, proto) combinations are cases at all
Valid15(c, d, p) ==
    CASE c = "mut" -> MutApplies(BaseTree(d.c, p), d.q, d.op)
      [] c = "nest" -> p = 3 /\ (d[1] = "map" => Len(d[2]) % 2 = 0) /\ (d[1] = "smap" => Len(d[2]) % 2 = 1)
      [] c = "comp" -> d.cr.q \in Paths(BaseTree(d.c, p)) /\ At(BaseTree(d.c, p), d.cr.q) # CompNode(d.op)
      [] OTHER -> p = 3

Exp15(c, d, t) == [rules |-> IF c = "neterr" THEN [cl \in OutClasses |-> IF cl = "T" THEN Accs ELSE {}]
                              ELSE IF c = "comp" THEN CompRules(d, t) ELSE Rules(t),
                    errtext |-> IF c = "comp" /\ d.op = "error" THEN CompNode("error").s ELSE ErrText(t),
                    classify |-> IF c = "errtext" THEN Classify(d) ELSE [IsNil |-> Norm(t).t = "null"]]
Case15 == [prop |-> "C15", fam |-> fam, cls |-> Label15(fam, dat, pro), proto |-> pro, tree |-> tree,
           rules |-> exp.rules, errtext |-> exp.errtext, classify |-> exp.classify]

\* =================================================================================================== behaviour
Round2Fams == {"num", "numint", "numarr", "numscan", "nummap", "numdbl", "comp"}
Fams(all) == IF OnlyFam = "" THEN all ELSE IF OnlyFam = "round2" THEN all \cap Round2Fams ELSE all \cap {OnlyFam}
Init == /\ pro \in {2, 3}
        /\ \/ /\ Gen = "c16" /\ fam \in Fams(Classes16) /\ (fam \in {"tree", "numdbl"} => pro = 3)
              /\ (fam \in {"num", "numarr", "numscan"} => pro = 2)       \* bulk strings: the same bytes in both protocols
              /\ dat \in Data(fam)
              /\ tree = Shape(fam, dat, pro) /\ exp = Exp16(fam, dat, pro)
           \/ /\ Gen = "c15" /\ fam \in Fams(Classes15) /\ dat \in Data15(fam, pro) /\ Valid15(fam, dat, pro)
              /\ tree = Tree15(fam, dat, pro) /\ exp = Exp15(fam, dat, tree)
Next == UNCHANGED vars
Spec == Init /\ [][Next]_vars

\* =================================================================================================== invariants
\* the tree can be written as RESP (a length-prefixed map has an even number of children)
WellFormed == Encodable(tree)
\* a RESP2 reply uses RESP2 types only
Resp2Typed == (Gen = "c16" /\ pro = 2 /\ fam # "tree") => OnlyResp2(tree)
\* the two formulations of "a Go map built from a reply" agree: the last value of a repeated field wins
LastWins == (Gen = "c16" /\ fam \in {"strmap", "intmap"}) => MapOf(dat) = FoldMap(dat)
\* the reply determines the result: no two data of a class have the same reply tree and different results
Unambiguous == (Gen = "c16" /\ fam \in {"ftsearch", "ftagg"} \cup (IF Deep THEN {"geo", "zscores", "xread"} ELSE {})) =>
                 \A d2 \in Data(fam) : Shape(fam, d2, pro) = tree => Expect(fam, d2, pro) = Expect(fam, dat, pro)
\* every accessor gets exactly one outcome class; nil and error replies propagate whatever the accessor
RulesTotal == Gen = "c15" =>
                LET r == exp.rules IN
                /\ UNION {r[c] : c \in OutClasses} = Accs
                /\ \A c1, c2 \in OutClasses : c1 # c2 => r[c1] \cap r[c2] = {}
                /\ (fam = "neterr" => r["T"] = Accs)
                /\ ((Norm(tree).t = "null" /\ fam # "neterr") => r["N"] = Accs)
                /\ (TopT(Norm(tree)) = "err" => r["R"] = Accs)
\* a redirect classifier that says ok also says where to
RedirectHasAddr == (Gen = "c15" /\ fam = "errtext") =>
                     LET c == exp.classify IN
                     /\ \A r \in {c.IsMoved, c.IsAsk, c.IsRedirect} : r.ok <=> r.addr # ""
                     /\ Cardinality({k \in {"IsMoved", "IsAsk", "IsRedirect"} : c[k].ok}) <= 1

\* the boundaries of the integer types, stated on the data themselves (not through MagRank): 2^63 - 1 is the last int64,
\* -2^63 the first, 2^64 - 1 the last uint64; nothing negative is unsigned; whatever both types accept has one text
NumRanges == (Gen = "c16" /\ fam = "num" /\ dat.form = "dec") =>
               LET i == NumI64(dat) # FAIL  u == NumU64(dat) # FAIL  t == NumText(dat) IN
               /\ (t \in {"9223372036854775807", "-9223372036854775808"} => i)
               /\ (t \in {"9223372036854775808", "-9223372036854775809"} => ~i)
               /\ (t \in {"9223372036854775808", "18446744073709551615"} => u)
               /\ (t = "18446744073709551616" => ~u)
               /\ (dat.sg = "-" => ~u)
               /\ (i /\ u => NumI64(dat) = NumU64(dat))
               /\ (u => NumU64(dat) = DEC(t))
\* a helper that must read a malformed component never gets a class that admits a value
CompNeverValue == (Gen = "c15" /\ fam = "comp") =>
                    \A acc \in dat.cr.accs : \E k \in {"N", "R", "X"} : acc \in exp.rules[k]

EmitCase == Emit => PrintT(<<"CASE", ToJson(IF Gen = "c16" THEN Case16 ELSE Case15)>>)
=============================================================================
