------------------------------- MODULE Vector -------------------------------
(* Property C45: VectorString32/64, ToVector32/64, BinaryString and JSON of binary.go (bit transport only).

   Floats are opaque words.  TLC integers are 32-bit, so a word is a sequence of 16-bit halves, most
   significant first: a float32 is <<hi, lo>>, a float64 <<h3, h2, h1, h0>>.  The wire format documented for
   Redis vector fields (FLOAT32 / FLOAT64 blobs) is the little-endian concatenation of the words:

     Pack(ws) = bytes of ws[1], least significant byte first, then ws[2], ...

   Unpack is its inverse.  For every enumerated vector the driver checks
     VectorStringN(v)       has exactly the bytes Pack(v)
     ToVectorN(Pack(v))     has exactly the bit patterns v        (decoding what the specification encoded)
     ToVectorN(VectorStringN(v)) = v bit for bit
   Words: zero, sign bit only (-0), quiet and signalling NaNs with payloads, all ones, smallest denormal, 1.0.

   Byte strings (BinaryString) over the byte classes of C12; JSON over small value trees, for which Ser(t) is
   the compact JSON text (object keys in increasing order, the escapes of quote and backslash) that both
   rueidis.JSON and encoding/json must produce.

   BugBigEndian packs the most significant byte first (negative config). *)
EXTENDS Integers, Sequences, FiniteSets, Bitwise, TLC, Json

CONSTANTS MaxVec,          \* vectors of length 0..MaxVec
          MaxBin,          \* byte strings of length 0..MaxBin
          JsonDepth,       \* 0: leaves only, 1: flat arrays/objects, 2: one more level
          Emit,
          BugBigEndian

VARIABLE case
vars == <<case>>

\* ---------------- words (16-bit halves, most significant first)
Words32 == { <<0, 0>>,            \* +0
             <<32768, 0>>,        \* 0x80000000  -0
             <<32704, 0>>,        \* 0x7FC00000  quiet NaN
             <<32704, 1>>,        \* 0x7FC00001  quiet NaN with payload
             <<32640, 1>>,        \* 0x7F800001  signalling NaN
             <<65440, 4660>>,     \* 0xFFA01234  negative signalling NaN with payload
             <<65535, 65535>>,    \* all ones
             <<0, 1>>,            \* smallest denormal
             <<16256, 0>> }       \* 0x3F800000  1.0
Words64 == { <<0, 0, 0, 0>>,
             <<32768, 0, 0, 0>>,            \* -0
             <<32760, 0, 0, 0>>,            \* 0x7FF8000000000000 quiet NaN
             <<32760, 0, 0, 1>>,            \* quiet NaN with payload
             <<32752, 0, 0, 1>>,            \* 0x7FF0000000000001 signalling NaN
             <<65524, 4660, 22136, 39612>>, \* 0xFFF4123456789ABC negative signalling NaN with payload
             <<65535, 65535, 65535, 65535>>,
             <<0, 0, 0, 1>>,                \* smallest denormal
             <<16368, 0, 0, 0>> }           \* 0x3FF0000000000000 1.0

HalfBytesLE(h) == <<h & 255, shiftR(h, 8) & 255>>          \* low byte first
HalfBytesBE(h) == <<shiftR(h, 8) & 255, h & 255>>

RECURSIVE WordBytes(_, _)
\* bytes of one word; i runs over its halves from the least significant (last) to the most significant (first)
WordBytes(w, i) == IF i = 0 THEN <<>> ELSE HalfBytesLE(w[i]) \o WordBytes(w, i - 1)
RECURSIVE WordBytesBE(_, _)
WordBytesBE(w, i) == IF i > Len(w) THEN <<>> ELSE HalfBytesBE(w[i]) \o WordBytesBE(w, i + 1)

RECURSIVE Pack(_)
Pack(ws) == IF ws = <<>> THEN <<>>
            ELSE (IF BugBigEndian THEN WordBytesBE(Head(ws), 1) ELSE WordBytes(Head(ws), Len(Head(ws)))) \o Pack(Tail(ws))

\* inverse: bytes -> words of `halves` halves each
HalfOf(lo, hi) == lo | (hi * 256)
WordAt(bs, off, halves) == [i \in 1..halves |-> LET j == off + 2 * (halves - i) IN HalfOf(bs[j + 1], bs[j + 2])]
Unpack(bs, halves) == [n \in 1..(Len(bs) \div (2 * halves)) |-> WordAt(bs, (n - 1) * 2 * halves, halves)]

\* ---------------- byte strings and JSON trees
ByteClasses == {97, 48, 13, 10, 0, 255, 45, 63}      \* letter, digit, CR, LF, NUL, 0xFF, '-', '?'

RECURSIVE SeqsUpTo(_, _)
SeqsUpTo(S, n) == IF n = 0 THEN {<<>>}
                  ELSE LET shorter == SeqsUpTo(S, n - 1)
                       IN  shorter \cup {Append(s, x) : s \in {t \in shorter : Len(t) = n - 1}, x \in S}

\* a JSON tree: [t |-> "null"] | [t |-> "bool", b] | [t |-> "int", i] | [t |-> "str", s] | [t |-> "arr", a : Seq(tree)]
\*            | [t |-> "obj", k : Seq(key) increasing, v : Seq(tree)]
Leaves == {[t |-> "null"], [t |-> "bool", b |-> TRUE], [t |-> "bool", b |-> FALSE],
           [t |-> "int", i |-> 0], [t |-> "int", i |-> -1], [t |-> "int", i |-> 42], [t |-> "int", i |-> 2147483647],
           [t |-> "str", s |-> ""], [t |-> "str", s |-> "a"], [t |-> "str", s |-> "q\"z"], [t |-> "str", s |-> "b\\s"]}
Arr(a)    == [t |-> "arr", a |-> a]
Obj(k, v) == [t |-> "obj", k |-> k, v |-> v]
Flat == {Arr(a) : a \in SeqsUpTo(Leaves, 2)} \cup {Obj(<<>>, <<>>)}
        \cup {Obj(<<"j">>, <<x>>) : x \in Leaves} \cup {Obj(<<"j", "k">>, <<x, y>>) : x \in Leaves, y \in Leaves}
SomeFlat == {Arr(<<>>), Arr(<<[t |-> "int", i |-> 42], [t |-> "str", s |-> "q\"z"]>>), Obj(<<>>, <<>>),
             Obj(<<"j", "k">>, <<[t |-> "null"], [t |-> "bool", b |-> TRUE]>>)}
Nested == {Arr(<<x>>) : x \in Flat} \cup {Arr(<<x, y>>) : x \in SomeFlat, y \in Leaves \cup SomeFlat}
          \cup {Obj(<<"j">>, <<x>>) : x \in Flat} \cup {Obj(<<"j", "k">>, <<x, y>>) : x \in Leaves \cup SomeFlat, y \in SomeFlat}
Trees == Leaves \cup (IF JsonDepth >= 1 THEN Flat ELSE {}) \cup (IF JsonDepth >= 2 THEN Nested ELSE {})

\* compact JSON text
Digits == <<"0", "1", "2", "3", "4", "5", "6", "7", "8", "9">>
RECURSIVE NatStr(_)
NatStr(n) == IF n < 10 THEN Digits[n + 1] ELSE NatStr(n \div 10) \o Digits[(n % 10) + 1]
IntStr(i) == IF i < 0 THEN "-" \o NatStr(0 - i) ELSE NatStr(i)

\* strings of the enumeration and their JSON escapes (TLC has no character access: the table is explicit)
StrText == [s \in {"", "a", "q\"z", "b\\s", "j", "k"} |->
              CASE s = "q\"z" -> "\"q\\\"z\"" [] s = "b\\s" -> "\"b\\\\s\"" [] OTHER -> "\"" \o s \o "\""]

RECURSIVE Ser(_), SerSeq(_, _), SerObj(_, _, _)
Ser(x) == CASE x.t = "null" -> "null"
            [] x.t = "bool" -> IF x.b THEN "true" ELSE "false"
            [] x.t = "int"  -> IntStr(x.i)
            [] x.t = "str"  -> StrText[x.s]
            [] x.t = "arr"  -> "[" \o SerSeq(x.a, 1) \o "]"
            [] x.t = "obj"  -> "{" \o SerObj(x.k, x.v, 1) \o "}"
SerSeq(a, i) == IF i > Len(a) THEN "" ELSE (IF i > 1 THEN "," ELSE "") \o Ser(a[i]) \o SerSeq(a, i + 1)
SerObj(k, v, i) == IF i > Len(k) THEN ""
                   ELSE (IF i > 1 THEN "," ELSE "") \o StrText[k[i]] \o ":" \o Ser(v[i]) \o SerObj(k, v, i + 1)

\* ---------------- cases
Cases ==      {[kind |-> "v32", words |-> ws] : ws \in SeqsUpTo(Words32, MaxVec)}
         \cup {[kind |-> "v64", words |-> ws] : ws \in SeqsUpTo(Words64, MaxVec)}
         \cup {[kind |-> "bin", bytes |-> bs] : bs \in SeqsUpTo(ByteClasses, MaxBin)}
         \cup {[kind |-> "json", tree |-> x] : x \in Trees}

Expected(c) ==
  CASE c.kind \in {"v32", "v64"} -> [kind |-> c.kind, words |-> c.words, bytes |-> Pack(c.words), tree |-> [t |-> "null"], text |-> ""]
    [] c.kind = "bin"            -> [kind |-> c.kind, words |-> <<>>, bytes |-> c.bytes, tree |-> [t |-> "null"], text |-> ""]
    [] c.kind = "json"           -> [kind |-> c.kind, words |-> <<>>, bytes |-> <<>>, tree |-> c.tree, text |-> Ser(c.tree)]

Init == case \in Cases
Next == UNCHANGED case
Spec == Init /\ [][Next]_vars

\* ---------------- invariants
IsVec == case.kind \in {"v32", "v64"}
Halves == IF case.kind = "v32" THEN 2 ELSE 4

\* 1.0f is 00 00 80 3F on the wire, 1.0 is 00 00 00 00 00 00 F0 3F (known answers of the FLOAT32/FLOAT64 blob format)
KnownAnswers == (case.kind # "") =>         \* (state-level on purpose: TLC reports a violated invariant, not a false constant)
                /\ Pack(<< <<16256, 0>> >>) = <<0, 0, 128, 63>>
                /\ Pack(<< <<16368, 0, 0, 0>> >>) = <<0, 0, 0, 0, 0, 0, 240, 63>>
                /\ Pack(<< <<65440, 4660>> >>) = <<52, 18, 160, 255>>

RoundTrip  == IsVec => Unpack(Pack(case.words), Halves) = case.words
PackLength == IsVec => Len(Pack(case.words)) = 2 * Halves * Len(case.words)
BytesRange == IsVec => \A i \in 1..Len(Pack(case.words)) : Pack(case.words)[i] \in 0..255

EmitCase == Emit => PrintT(<<"CASE", ToJson(Expected(case))>>)
=============================================================================
