------------------------------- MODULE CacheKey -------------------------------
(* Property C08: distinct cacheable commands never share a cache entry.

   A cacheable command is  name key arg...  (for a read-only script:  EVAL_RO script 1 key arg...).
   The client-side cache addresses an entry by the identity the client derives from the command:

     built-in store (lru.go)            Lru(c)     = <<key, cmd>>        entries are store[key][cmd]
     NewSimpleCacheAdapter (cache.go)   Adapter(c) = key \o cmd          entries are store.Get(key+cmd)

   where  cmd = name \o (every argument except the key, concatenated)  -- transcribed from cmds.CacheKey
   (a two-element command gives (key, name), which is the same formula).  MGET k1 k2 .. is cached per key
   under the identity of GET k_i, JSON.MGET k1 .. path under that of JSON.GET k_i path (cmds.MGetCacheCmd /
   MGetCacheKey): by construction the same entries as the singular commands, so they are emitted for the
   binding only and are not additional elements of the injectivity question.

   The property is Injective: no two different commands have the same identity.  TLC enumerates the commands
   of the bound, checks the invariant and prints, for every command, its identities and its colliding partners
   with the class of the collision:

     arg-boundary-shift    same name, same key, the remaining arguments concatenate to the same text
     name-boundary-shift   same key, different names: name1 \o args1 = name2 \o args2
     key-boundary-shift    different keys (adapter only): key1 \o cmd1 = key2 \o cmd2

   Separator = TRUE models an identity that keeps the argument structure (what a repair would have to do):
   Injective then holds on the same bound, which shows that the collisions are caused by the concatenation
   and are not an artefact of the enumeration. *)
EXTENDS Integers, Sequences, FiniteSets, TLC, Json

CONSTANTS Names,           \* command names of the bound (subset of DOMAIN Shapes)
          Tokens,          \* command names that may also occur as the tail of a key and as the head of a first argument
          MaxFields,       \* HMGET fields: 1..MaxFields
          Separator,       \* FALSE: the code as it is
          Emit

VARIABLE case
vars == <<case>>

\* ---------------- argument values: strings over the alphabet {"1", "2"} of length 1..2
D1   == {"1", "2"}
Digs == D1 \cup {a \o b : a \in D1, b \in D1}

\* shape of the arguments after the key: "int" = integer-typed builder parameter, "str" = string parameter
Shapes == [GET |-> {<<>>}, STRLEN |-> {<<>>}, HGETALL |-> {<<>>},
           GETRANGE |-> {<<"int", "int">>}, SUBSTR |-> {<<"int", "int">>}, GETBIT |-> {<<"int">>},
           BITCOUNT |-> {<<>>, <<"int", "int">>},
           LRANGE |-> {<<"int", "int">>}, LINDEX |-> {<<"int">>},
           HGET |-> {<<"str">>}, HEXISTS |-> {<<"str">>}, HSTRLEN |-> {<<"str">>},
           HMGET |-> {[i \in 1..n |-> "str"] : n \in 1..MaxFields},
           ZRANGE |-> {<<"str", "str">>}, ZRANGEBYSCORE |-> {<<"str", "str">>}, ZSCORE |-> {<<"str">>},
           SISMEMBER |-> {<<"str">>},
           EVAL_RO |-> {<<>>, <<"str">>}]

\* name1 \o tail = name2: a first argument starting with `tail` can imitate the longer name
Splits == {<<"HGET", "ALL", "HGETALL">>, <<"ZRANGE", "BYSCORE", "ZRANGEBYSCORE">>, <<"GET", "RANGE", "GETRANGE">>,
           <<"GET", "BIT", "GETBIT">>}
ASSUME \A s \in Splits : s[1] \o s[2] = s[3]
ASSUME Names \subseteq DOMAIN Shapes /\ Tokens \subseteq DOMAIN Shapes

Tails(n) == {s[2] : s \in {t \in Splits : t[1] = n /\ t[3] \in Names}}

\* first string argument of command n: digit strings, a token followed by at most one digit, a tail followed by digits
FirstStr(n) == Digs \cup {t \o d : t \in Tokens, d \in {""} \cup D1} \cup {t \o d : t \in Tails(n), d \in {""} \cup Digs}
ArgDom(n, shape, i) == IF shape[i] = "int" THEN Digs ELSE IF i = 1 THEN FirstStr(n) ELSE Digs

\* "1": a key that is also a possible argument value (HMGET 1 1 2, LRANGE 1 1 2, EVAL_RO s 1 1 1): the identity leaves out the
\* key by its POSITION in the command, not every argument that happens to equal it
Keys == {"k", "1"} \cup {"k" \o t : t \in Tokens}
Scripts == {"return 1", "return 11"}

RECURSIVE ArgSeqs(_, _, _)
ArgSeqs(n, shape, i) == IF i = 0 THEN {<<>>}
                        ELSE {Append(a, x) : a \in ArgSeqs(n, shape, i - 1), x \in ArgDom(n, shape, i)}

Cmds == UNION {UNION {{[name |-> n, key |-> k, pre |-> <<>>, args |-> a] : k \in Keys, a \in ArgSeqs(n, sh, Len(sh))}
                        : sh \in Shapes[n]} : n \in Names \ {"EVAL_RO"}}
        \cup (IF "EVAL_RO" \in Names
              THEN UNION {{[name |-> "EVAL_RO", key |-> k, pre |-> <<s, "1">>, args |-> a] :
                              k \in Keys, s \in Scripts, a \in ArgSeqs("EVAL_RO", sh, Len(sh))} : sh \in Shapes["EVAL_RO"]}
              ELSE {})

\* ---------------- identities
RECURSIVE Concat(_)
Concat(ss) == IF ss = <<>> THEN "" ELSE Head(ss) \o Concat(Tail(ss))

Wire(c) == <<c.name>> \o c.pre \o <<c.key>> \o c.args                 \* what is sent, for the driver

CmdString(c) == c.name \o Concat(c.pre) \o Concat(c.args)             \* cmds.CacheKey: everything except the key
LruId(c)     == IF Separator THEN <<c.key, <<c.name>> \o c.pre \o c.args>> ELSE <<c.key, CmdString(c)>>
AdapterId(c) == IF Separator THEN <<c.key, <<c.name>> \o c.pre \o c.args>> ELSE c.key \o CmdString(c)

\* every command with its identities, computed once (constant)
Recs == {[c |-> c, lru |-> LruId(c), ad |-> AdapterId(c),
          lb |-> <<c.key, Len(CmdString(c))>>, ab |-> Len(c.key) + Len(CmdString(c))] : c \in Cmds}
LruBucket == [b \in {r.lb : r \in Recs} |-> {r \in Recs : r.lb = b}]      \* candidates share key and length
AdBucket  == [b \in {r.ab : r \in Recs} |-> {r \in Recs : r.ab = b}]      \* candidates share the total length

Class(a, b) == IF a.key # b.key THEN "key-boundary-shift"
               ELSE IF a.name # b.name THEN "name-boundary-shift"
               ELSE "arg-boundary-shift"

LruPartners(r) == {p \in LruBucket[r.lb] : p.lru = r.lru /\ p.c # r.c}
AdPartners(r)  == {p \in AdBucket[r.ab] : p.ad = r.ad /\ p.c # r.c}

\* ---------------- MGET-derived identities (binding only)
MgetCases == {[kind |-> "mget", name |-> "MGET", keys |-> ks, path |-> "", ids |-> [i \in 1..Len(ks) |-> <<ks[i], "GET">>]] :
                 ks \in {<<"k">>, <<"k", "kGET">>, <<"kGET", "k", "k1">>}}
        \cup {[kind |-> "mget", name |-> "JSON.MGET", keys |-> ks, path |-> p,
               ids |-> [i \in 1..Len(ks) |-> <<ks[i], "JSON.GET" \o p>>]] :
                 ks \in {<<"k">>, <<"k", "k$">>}, p \in {"$", "$.a", "1"}}

CmdCases == {[kind |-> "cmd", rec |-> r] : r \in Recs}

Init == case \in CmdCases \cup (IF Emit THEN MgetCases ELSE {})
Next == UNCHANGED case
Spec == Init /\ [][Next]_vars

\* ---------------- the property
InjectiveLru     == case.kind = "cmd" => LruPartners(case.rec) = {}
InjectiveAdapter == case.kind = "cmd" => AdPartners(case.rec) = {}
\* the adapter identity is at most as fine as the built-in one (every lru collision is an adapter collision)
AdapterCoarser   == case.kind = "cmd" => {p.c : p \in LruPartners(case.rec)} \subseteq {p.c : p \in AdPartners(case.rec)}

Out(r) == [kind |-> "cmd", wire |-> Wire(r.c), name |-> r.c.name, key |-> r.c.key,
           lruKey |-> r.c.key, lruCmd |-> CmdString(r.c), adapterKey |-> r.c.key \o CmdString(r.c),
           lruPartners |-> {[wire |-> Wire(p.c), class |-> Class(r.c, p.c)] : p \in LruPartners(r)},
           adPartners  |-> {[wire |-> Wire(p.c), class |-> Class(r.c, p.c)] : p \in AdPartners(r)}]

EmitCase == Emit => PrintT(<<"CASE", ToJson(IF case.kind = "cmd" THEN Out(case.rec) ELSE case)>>)
=============================================================================
