SPECIFICATION Spec
CONSTANTS
  MaxVec = 4
  MaxBin = 5
  JsonDepth = 2
  Emit = TRUE
  BugBigEndian = FALSE
INVARIANTS KnownAnswers RoundTrip PackLength BytesRange EmitCase
CHECK_DEADLOCK FALSE
