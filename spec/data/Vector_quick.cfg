SPECIFICATION Spec
CONSTANTS
  MaxVec = 3
  MaxBin = 3
  JsonDepth = 2
  Emit = TRUE
  BugBigEndian = FALSE
INVARIANTS KnownAnswers RoundTrip PackLength BytesRange EmitCase
CHECK_DEADLOCK FALSE
