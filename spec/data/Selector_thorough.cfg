SPECIFICATION Spec
CONSTANTS
  AZs = {"a", "b", ""}
  MaxNodes = 6
  MaxCalls = 8
  LongCalls = 320
  Long = TRUE
  Emit = FALSE
  BugUnderflow = FALSE
INVARIANTS ContractOK AlwaysAdmissible Rotates
CHECK_DEADLOCK FALSE
