SPECIFICATION Spec
CONSTANTS
  Alphabet = {123, 125, 97, 0, 255}
  MaxLen = 6
  AllBytes = TRUE
  Emit = TRUE
  BugEmptyTag = FALSE
  BugLastBrace = FALSE
INVARIANTS CrcKnown SpecExamples TagRuleOK SlotRange TagDecides EmitCase
CHECK_DEADLOCK FALSE
