\* negative: the header alone allocates the declared length -> AllocBounded must break
CONSTANTS
  DefectChunkLenTotal = FALSE
  DefectMapCountKids = FALSE
  DefectNull2Empty = FALSE
  Emit = FALSE
  Thorough = FALSE
  GrowDivs = {1, 2, 4}
  DefectPreallocDeclared = TRUE
  DefectGrowToDeclared = FALSE
INIT Init
NEXT Next
INVARIANTS AllocBounded TypeOK Truncated
