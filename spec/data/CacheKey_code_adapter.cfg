SPECIFICATION Spec
CONSTANTS
  Names = {"GET", "HGET", "LRANGE"}
  Tokens = {"HGET"}
  MaxFields = 1
  Separator = FALSE
  Emit = FALSE
INVARIANTS InjectiveAdapter
CHECK_DEADLOCK FALSE
