\* case generation, thorough tier: mode mut
CONSTANTS
  DefectChunkLenTotal = FALSE
  DefectMapCountKids = FALSE
  DefectNull2Empty = FALSE
  Mode = "mut"
  MaxNodes = 4
  MaxDepth = 3
  Emit = TRUE
  SampleN = 25000
  Thorough = TRUE
INIT Init
NEXT Next
INVARIANTS EmitCase RoundTrip PushRoundTrip MutantsRejected CmdRoundTrip Bounds
