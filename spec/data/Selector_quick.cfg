SPECIFICATION Spec
CONSTANTS
  AZs = {"a", "b", ""}
  MaxNodes = 5
  MaxCalls = 6
  LongCalls = 20
  Long = TRUE
  Emit = FALSE
  BugUnderflow = FALSE
INVARIANTS ContractOK AlwaysAdmissible Rotates
CHECK_DEADLOCK FALSE
