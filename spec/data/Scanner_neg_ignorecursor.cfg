SPECIFICATION Spec
CONSTANTS
  MaxLive = 1
  MaxElems = 2
  Cursors = {5, 7}
  Emit = FALSE
  BugFetchAfterStop = FALSE
  BugStopOnEmpty = FALSE
  BugIgnoreCursor = TRUE
INVARIANTS InOrder CursorChain NeverBeyondScript NoFetchAfterStop NoItemAfterStop Complete 
CHECK_DEADLOCK FALSE
