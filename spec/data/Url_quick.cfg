SPECIFICATION Spec
CONSTANTS
  Tier = "quick"
  Emit = TRUE
  BugWriteToDial = FALSE
INVARIANTS NonInterference Effective EmitCase
CHECK_DEADLOCK FALSE
