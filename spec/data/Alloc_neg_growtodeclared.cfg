\* negative: after the first bounded window the accumulator is extended to the declared length in one step -> AllocBounded must break
CONSTANTS
  DefectChunkLenTotal = FALSE
  DefectMapCountKids = FALSE
  DefectNull2Empty = FALSE
  Emit = FALSE
  Thorough = FALSE
  GrowDivs = {1, 2, 4}
  DefectPreallocDeclared = FALSE
  DefectGrowToDeclared = TRUE
INIT Init
NEXT Next
INVARIANTS AllocBounded TypeOK Truncated
