\* negative: predicting AsUint64 through the signed conversion (ParseInt and a cast) must violate NumRanges
SPECIFICATION Spec
CONSTANTS
  Gen = "c16"
  Deep = FALSE
  Emit = FALSE
  OnlyFam = "num"
  BugFirstWins = FALSE
  AllowNumericDocKeys = FALSE
  BugOkWithoutAddr = FALSE
  BugU64ViaI64 = TRUE
  BugCompKeepsRule = FALSE
INVARIANTS NumRanges
CHECK_DEADLOCK FALSE
