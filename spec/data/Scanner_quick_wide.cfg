SPECIFICATION Spec
CONSTANTS
  MaxLive = 1
  MaxElems = 5
  Cursors = {5, 7}
  Emit = TRUE
  BugFetchAfterStop = FALSE
  BugStopOnEmpty = FALSE
  BugIgnoreCursor = FALSE
INVARIANTS InOrder CursorChain NeverBeyondScript NoFetchAfterStop NoItemAfterStop Complete EmitCase
CHECK_DEADLOCK FALSE
