\* negative: numeric FT.SEARCH document names make the RESP2 layout ambiguous -> Unambiguous violated (why the data are restricted)
SPECIFICATION Spec
CONSTANTS
  Gen = "c16"
  Deep = FALSE
  Emit = FALSE
  OnlyFam = "ftsearch"
  BugFirstWins = FALSE
  AllowNumericDocKeys = TRUE
  BugOkWithoutAddr = FALSE
  BugU64ViaI64 = FALSE
  BugCompKeepsRule = FALSE
INVARIANTS Unambiguous
CHECK_DEADLOCK FALSE
