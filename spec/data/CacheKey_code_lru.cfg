SPECIFICATION Spec
CONSTANTS
  Names = {"GET", "HGETALL", "GETRANGE", "GETBIT", "HGET", "HMGET", "ZRANGE", "ZRANGEBYSCORE", "LRANGE", "EVAL_RO"}
  Tokens = {"HGET", "GET"}
  MaxFields = 2
  Separator = FALSE
  Emit = FALSE
INVARIANTS InjectiveLru
CHECK_DEADLOCK FALSE
