\* negative: chunk headers declare the total length -> RoundTrip must break
CONSTANTS
  DefectChunkLenTotal = TRUE
  DefectMapCountKids = FALSE
  DefectNull2Empty = FALSE
  Mode = "leaves"
  MaxNodes = 3
  MaxDepth = 3
  Emit = FALSE
  SampleN = 1500
  Thorough = FALSE
INIT Init
NEXT Next
INVARIANTS RoundTrip PushRoundTrip MutantsRejected CmdRoundTrip Bounds
