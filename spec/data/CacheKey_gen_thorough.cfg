SPECIFICATION Spec
CONSTANTS
  Names = {"GET", "STRLEN", "HGETALL", "GETRANGE", "SUBSTR", "GETBIT", "BITCOUNT", "LRANGE", "LINDEX", "HGET", "HEXISTS", "HSTRLEN", "HMGET", "ZRANGE", "ZRANGEBYSCORE", "ZSCORE", "SISMEMBER", "EVAL_RO"}
  Tokens = {"HGET", "GET", "ZRANGE", "LRANGE", "EVAL_RO"}
  MaxFields = 3
  Separator = FALSE
  Emit = TRUE
INVARIANTS AdapterCoarser EmitCase
CHECK_DEADLOCK FALSE
