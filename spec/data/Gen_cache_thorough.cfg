\* case generation, thorough tier: mode cache
CONSTANTS
  DefectChunkLenTotal = FALSE
  DefectMapCountKids = FALSE
  DefectNull2Empty = FALSE
  Mode = "cache"
  MaxNodes = 4
  MaxDepth = 3
  Emit = TRUE
  SampleN = 5000
  Thorough = TRUE
INIT Init
NEXT Next
INVARIANTS EmitCase RoundTrip PushRoundTrip MutantsRejected CmdRoundTrip Bounds
