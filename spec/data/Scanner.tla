------------------------------- MODULE Scanner -------------------------------
(* Property C46: rueidis.Scanner (helper.go).

     scanner := rueidis.NewScanner(func(cursor uint64) (rueidis.ScanEntry, error) { ... SCAN cursor ... })
     for v := range scanner.Iter()  { ... }       // Iter2: for k, v := range scanner.Iter2()
     err := scanner.Err()

   State machine of one iteration.  The environment is a script: the k-th call of `next` answers with the k-th
   page of the script (whatever cursor it is given; the cursor requested is recorded).  A page either fails or
   carries 0..3 elements and the cursor for the following call; cursor 0 ends the scan.  The consumer stops
   (break) when it has received its StopAt-th item, or never (StopAt = 0).

   Steps: Fetch (call next with the current cursor), Deliver (hand one element, or one pair for Iter2, to the
   consumer), EndPage (page exhausted: finish on cursor 0, otherwise go on with the returned cursor).
   Every behaviour is finite; in its final state `req`, `out`, `err` are what the real Scanner must show:
   cursors passed to next, items yielded, Err() # nil.

   The property is stated independently of the steps as invariants over (script, req, out, err, pc).
   BugFetchAfterStop / BugStopOnEmpty / BugIgnoreCursor re-introduce plausible defects (negative configs). *)
EXTENDS Integers, Sequences, FiniteSets, TLC, Json

CONSTANTS MaxLive,         \* number of non-final pages before the final one: 0..MaxLive
          MaxElems,        \* elements per page: 0..MaxElems
          Cursors,         \* non-zero cursors a live page may return (a repeated cursor is allowed)
          Emit,
          BugFetchAfterStop, BugStopOnEmpty, BugIgnoreCursor

VARIABLES script,          \* sequence of pages [fail, n, cursor]
          mode,            \* "iter" | "iter2"
          stopAt,          \* the consumer breaks on receiving its stopAt-th item; 0 = never
          pc,              \* "fetch" | "page" | "done"
          cur,             \* cursor for the next call of next
          k,               \* index of the page being delivered (= number of calls made)
          pos,             \* elements of the current page consumed so far
          req, out, err
vars == <<script, mode, stopAt, pc, cur, k, pos, req, out, err>>

\* ---------------- scripts
LivePages  == [fail : {FALSE}, n : 0..MaxElems, cursor : Cursors]
FinalPages == [fail : {FALSE}, n : 0..MaxElems, cursor : {0}] \cup {[fail |-> TRUE, n |-> 0, cursor |-> 0]}
Sentinel   == [fail |-> FALSE, n |-> 1, cursor |-> 0]        \* a page that must never be requested

RECURSIVE SeqsOfLen(_, _)
SeqsOfLen(S, n) == IF n = 0 THEN {<<>>} ELSE {Append(s, x) : s \in SeqsOfLen(S, n - 1), x \in S}

Scripts == {live \o <<fin>> \o tail : live \in UNION {SeqsOfLen(LivePages, n) : n \in 0..MaxLive},
                                       fin \in FinalPages, tail \in {<<>>, <<Sentinel>>}}

\* element j of page i is the pair <<i, j>> (all elements distinct)
Elems(s, i) == [j \in 1..s[i].n |-> <<i, j>>]

\* items a page contributes: its elements, or for Iter2 its consecutive pairs (a trailing odd element is dropped)
Items(s, i, m) == IF m = "iter" THEN [j \in 1..s[i].n |-> <<Elems(s, i)[j]>>]
                  ELSE [j \in 1..(s[i].n \div 2) |-> <<Elems(s, i)[2 * j - 1], Elems(s, i)[2 * j]>>]

\* index of the first page that ends the scan (fails or returns cursor 0)
LastPage(s) == CHOOSE i \in 1..Len(s) : (s[i].fail \/ s[i].cursor = 0) /\ \A j \in 1..(i - 1) : ~s[j].fail /\ s[j].cursor # 0

RECURSIVE AllItems(_, _, _)
AllItems(s, m, upto) == IF upto = 0 THEN <<>> ELSE AllItems(s, m, upto - 1) \o (IF s[upto].fail THEN <<>> ELSE Items(s, upto, m))

TotalItems(s, m) == Len(AllItems(s, m, LastPage(s)))

\* ---------------- behaviour
Init == /\ script \in Scripts
        /\ mode \in {"iter", "iter2"}
        /\ stopAt \in 0..(TotalItems(script, mode))
        /\ pc = "fetch" /\ cur = 0 /\ k = 0 /\ pos = 0
        /\ req = <<>> /\ out = <<>> /\ err = FALSE

Fetch == /\ pc = "fetch"
         /\ k < Len(script)                         \* a call beyond the script cannot happen (NeverBeyondScript)
         /\ k' = k + 1 /\ pos' = 0
         /\ req' = Append(req, cur)
         /\ IF script[k + 1].fail THEN err' = TRUE /\ pc' = "done" ELSE err' = FALSE /\ pc' = "page"
         /\ UNCHANGED <<script, mode, stopAt, cur, out>>

Deliver == /\ pc = "page"
           /\ pos < Len(Items(script, k, mode))
           /\ pos' = pos + 1
           /\ out' = Append(out, Items(script, k, mode)[pos + 1])
           /\ pc' = IF Len(out') = stopAt
                    THEN (IF BugFetchAfterStop /\ script[k].cursor # 0 THEN "nextpage" ELSE "done")
                    ELSE "page"
           /\ UNCHANGED <<script, mode, stopAt, cur, k, req, err>>

EndPage == /\ \/ pc = "page" /\ pos = Len(Items(script, k, mode))
              \/ pc = "nextpage"
           /\ IF script[k].cursor = 0 \/ (BugStopOnEmpty /\ script[k].n = 0)
              THEN pc' = "done" /\ cur' = cur
              ELSE pc' = "fetch" /\ cur' = (IF BugIgnoreCursor THEN cur + 1 ELSE script[k].cursor)
           /\ UNCHANGED <<script, mode, stopAt, k, pos, req, out, err>>

Next == Fetch \/ Deliver \/ EndPage
Spec == Init /\ [][Next]_vars

\* ---------------- the property
Done == pc = "done"
IsPrefix(a, b) == Len(a) <= Len(b) /\ SubSeq(b, 1, Len(a)) = a
Stopped == stopAt > 0 /\ Len(out) >= stopAt

\* items are yielded in order, none skipped, none duplicated, none invented
InOrder == IsPrefix(out, AllItems(script, mode, LastPage(script)))

\* the scan starts at cursor 0 and follows the cursors the server returned
CursorChain == \A i \in 1..Len(req) : req[i] = IF i = 1 THEN 0 ELSE script[i - 1].cursor

\* nothing is requested after the final page, after a failure, or after the consumer stopped
NeverBeyondScript == Len(req) <= LastPage(script)
NoFetchAfterStop  == Stopped => Len(req) <= (CHOOSE i \in 1..LastPage(script) : Len(AllItems(script, mode, i)) >= stopAt
                                                  /\ \A j \in 1..(i - 1) : Len(AllItems(script, mode, j)) < stopAt)
NoItemAfterStop   == stopAt > 0 => Len(out) <= stopAt

\* at the end: everything was delivered unless the consumer stopped; Err() reports exactly a failed page that was reached
Complete == Done => /\ (~Stopped => out = AllItems(script, mode, LastPage(script)) /\ Len(req) = LastPage(script))
                    /\ (err <=> (script[Len(req)].fail))
                    /\ (Stopped => Len(out) = stopAt /\ ~err)

\* one CASE per finished behaviour: inputs and the outcome the specification predicts
EmitCase == (Emit /\ Done) =>
   PrintT(<<"CASE", ToJson([script |-> script, mode |-> mode, stopAt |-> stopAt, req |-> req, out |-> out, err |-> err])>>)
=============================================================================
