SPECIFICATION Spec
CONSTANTS
  MaxLive = 3
  MaxElems = 3
  Cursors = {5, 7}
  Emit = TRUE
  BugFetchAfterStop = FALSE
  BugStopOnEmpty = FALSE
  BugIgnoreCursor = FALSE
INVARIANTS InOrder CursorChain NeverBeyondScript NoFetchAfterStop NoItemAfterStop Complete EmitCase
CHECK_DEADLOCK FALSE
