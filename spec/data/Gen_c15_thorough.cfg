\* C15 thorough: larger element alphabets, longer aggregates, deeper nesting
SPECIFICATION Spec
CONSTANTS
  Gen = "c15"
  Deep = TRUE
  Emit = TRUE
  OnlyFam = ""
  BugFirstWins = FALSE
  AllowNumericDocKeys = FALSE
  BugOkWithoutAddr = FALSE
INVARIANTS WellFormed Resp2Typed LastWins Unambiguous RulesTotal RedirectHasAddr EmitCase
CHECK_DEADLOCK FALSE
