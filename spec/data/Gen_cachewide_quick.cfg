\* case generation, quick tier: mode cachewide (wide aggregates, run-length encoded)
CONSTANTS
  DefectChunkLenTotal = FALSE
  DefectMapCountKids = FALSE
  DefectNull2Empty = FALSE
  Mode = "cachewide"
  MaxNodes = 3
  MaxDepth = 3
  Emit = TRUE
  SampleN = 1500
  Thorough = FALSE
INIT Init
NEXT Next
INVARIANTS EmitCase RoundTrip PushRoundTrip MutantsRejected CmdRoundTrip Bounds
