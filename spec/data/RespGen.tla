------------------------------ MODULE RespGen ------------------------------
(***************************************************************************************************************)
(* Case generation for C12 / C13 / C14 / C17 from the grammar of Resp.tla.  TLC is the exhaustive enumerator:  *)
(* one state per case; the invariant EmitCase prints the case (inputs and the outcome the specification        *)
(* predicts) as JSON, the invariants RoundTrip / MutantsRejected / CmdRoundTrip check the specification        *)
(* against its own reference decoder (they are what the negative configs break).                               *)
(*                                                                                                             *)
(* Mode: "shapes"  all trees with <= MaxNodes nodes and depth <= MaxDepth over a small leaf alphabet (+ sample) *)
(*       "leaves"  every leaf variant (types x payload classes x forms x chunkings) in every context           *)
(*       "attr"    an attribute frame at every node of small trees                                             *)
(*       "long"    payload lengths around the buffer sizes of the reader                                       *)
(*       "push"    a push frame followed by a reply (streaming reads skip pushes)                              *)
(*       "mut"     malformed inputs: x is a base tree, m one mutation of its encoding                          *)
(*       "cmd"     commands (argv run-length encoded), singly and two in a row                                 *)
(*       "cache"   cacheable trees x expiry classes                                                            *)
(***************************************************************************************************************)
EXTENDS Resp, Json, Randomization

CONSTANTS Mode, MaxNodes, MaxDepth, Emit, Thorough,
          SampleN     \* size of the seeded random samples (TLC -seed) taken from the sets that are too large to enumerate

VARIABLES x,   \* the subject: a value tree ("cmd": a sequence of commands)
          m    \* the second choice: a mutation (mode "mut"), an expiry (mode "cache"), NoMut otherwise
vars == <<x, m>>

----------------------------------------------------------------------------------------------------------------
(* leaf alphabets *)
A == <<97>>                      \* "a"  (the driver substitutes a seeded letter)
CRLFp == <<13, 10>>
BlobPayloads == { <<>>, A, <<55>>, <<13>>, <<10>>, CRLFp, <<0>>, <<255>>, <<45>>, <<63>>, <<97, 13, 10, 97>>,
                  <<13, 10, 13, 10>>, <<36, 53, 13, 10>>, <<59, 48, 13, 10>>, <<46, 13, 10>>, <<79, 75>>, <<45, 49>>,
                  <<97, 55, 0, 255, 45, 63, 13, 10>> }
LinePayloads == { <<>>, A, <<55>>, <<0>>, <<255>>, <<45>>, <<63>>, <<79, 75>>, <<79, 75, 97>>, <<79>>, <<79, 75, 79, 75>>,
                  <<97, 55, 0, 255, 45, 63>>, <<69, 82, 82, 32, 120>> }
DoubleTexts == { <<49, 46, 53>>, <<105, 110, 102>>, <<45, 105, 110, 102>>, <<110, 97, 110>>, <<49, 101, 43, 50, 50>>, <<45, 48>>, <<49, 48>> }
BigTexts == { <<49, 56, 52, 52, 54, 55, 52, 52, 48, 55, 51, 55, 48, 57, 53, 53, 49, 54, 49, 54>>, <<45, 49>>, <<48>> }
Verbatims == { <<116, 120, 116, 58>> \o p : p \in {<<>>, A, CRLFp, <<0, 255>>} } \cup { <<109, 107, 100, 58, 97>> }
IntForms == { <<"0", "0">>, <<"1", "1">>, <<"-1", "-1">>, <<"9", "9">>, <<"10", "10">>, <<"-10", "-10">>,
              <<"2147483647", "2147483647">>, <<"2147483648", "2147483648">>, <<"-2147483649", "-2147483649">>,
              <<"9223372036854775807", "9223372036854775807">>, <<"-9223372036854775808", "-9223372036854775808">>,
              <<"-0", "0">>, <<"+5", "5">> }
Chunkings == { <<>>, <<A>>, <<CRLFp>>, <<A, A>>, <<<<13>>, <<10>>>>, <<<<59, 48, 13, 10>>, A>>, <<A, <<0, 255>>, CRLFp>>,
               <<<<97, 97, 97>>, <<55>>>>, <<<<46, 13, 10>>>> }

FullLeaves ==
       { Str("$", p) : p \in BlobPayloads } \cup { Str("!", p) : p \in {<<>>, A, CRLFp, <<69, 82, 82, 32, 120>>, <<0, 255>>} }
  \cup { Str("=", p) : p \in Verbatims }
  \cup { Str("+", p) : p \in LinePayloads } \cup { Str("-", p) : p \in LinePayloads }
  \cup { Str(",", p) : p \in DoubleTexts } \cup { Str("(", p) : p \in BigTexts }
  \cup { IntV(f[1], f[2]) : f \in IntForms } \cup { Bool("t"), Bool("f"), Null3, Null2("$"), Null2("*") }
  \cup { StreamStr(c) : c \in Chunkings }

SmallLeaves == { Str("+", A), Str("$", CRLFp), IntV("-1", "-1"), Null3 }
TinyLeaves == { Str("$", A), IntV("1", "1") }

NestedAggForms == { <<"*", "p">>, <<"*", "s">>, <<"~", "p">>, <<"~", "s">>, <<"%", "p">>, <<"%", "s">> }
TopAggForms == NestedAggForms \cup { <<">", "p">> }            \* push frames only at top level

(* Trees(top, nested, leaves, maxn, maxd): all trees with <= maxn (<= 5) nodes and depth <= maxd (2 or 3); the root takes its *)
(* aggregate form from top, inner aggregates from nested; maps have an even number of elements.  The levels are     *)
(* separate LET definitions so that TLC computes each of them once.                                                 *)
Aggs(forms, F) == UNION { { Agg(af[1], af[2], ks) : ks \in { k \in F : af[1] = "%" => Len(k) % 2 = 0 } } : af \in forms }
Cons(H, R) == { <<h>> \o r : h \in H, r \in R }
Trees(top, nested, leaves, maxn, maxd) ==
  LET D1   == leaves \cup Aggs(nested, {<<>>})            \* inner trees of one node
      F1_0 == { <<>> }                                     \* F1_k: forests of k one-node trees
      F1_1 == Cons(D1, F1_0)
      F1_2 == Cons(D1, F1_1)
      F1_3 == Cons(D1, F1_2)
      F1_4 == Cons(D1, F1_3)
      D2_2 == Aggs(nested, F1_1)                           \* D2_n: inner trees of depth <= 2 with exactly n nodes
      D2_3 == Aggs(nested, F1_2)
      D2_4 == Aggs(nested, F1_3)
      F2_0 == { <<>> }                                     \* F2_n: forests of such trees with n nodes in total
      F2_1 == Cons(D1, F2_0)
      F2_2 == Cons(D1, F2_1) \cup Cons(D2_2, F2_0)
      F2_3 == Cons(D1, F2_2) \cup Cons(D2_2, F2_1) \cup Cons(D2_3, F2_0)
      F2_4 == Cons(D1, F2_3) \cup Cons(D2_2, F2_2) \cup Cons(D2_3, F2_1) \cup Cons(D2_4, F2_0)
      R1   == leaves \cup Aggs(top, {<<>>})
      R2   == Aggs(top, F1_1)
      R3   == Aggs(top, IF maxd >= 3 THEN F2_2 ELSE F1_2)
      R4   == Aggs(top, IF maxd >= 3 THEN F2_3 ELSE F1_3)
      R5   == Aggs(top, IF maxd >= 3 THEN F2_4 ELSE F1_4)
  IN  R1 \cup (IF maxn >= 2 /\ maxd >= 2 THEN R2 ELSE {}) \cup (IF maxn >= 3 /\ maxd >= 2 THEN R3 ELSE {})
         \cup (IF maxn >= 4 /\ maxd >= 2 THEN R4 ELSE {}) \cup (IF maxn >= 5 /\ maxd >= 2 THEN R5 ELSE {})
Sample(S) == IF SampleN = 0 THEN {} ELSE IF Cardinality(S) <= SampleN THEN S ELSE RandomSubset(SampleN, S)
Shapes == IF Mode # "shapes" THEN {}      \* exhaustive up to MaxNodes nodes, a seeded sample of the trees with one node more
          ELSE Trees(TopAggForms, NestedAggForms, SmallLeaves, MaxNodes, MaxDepth)
               \cup Sample(Trees(TopAggForms, NestedAggForms, IF MaxNodes >= 4 THEN {Str("$", A)} ELSE SmallLeaves, MaxNodes + 1, MaxDepth))

(* every leaf in every context *)
K == Str("+", <<107>>)           \* a map key "k"
Contexts(l) == { l, Agg("*", "p", <<l>>), Agg("*", "s", <<l>>), Agg("~", "p", <<l>>), Agg("~", "s", <<l, l>>), Agg(">", "p", <<K, l>>),
                 Agg("%", "p", <<l, K>>), Agg("%", "p", <<K, l>>), Agg("%", "s", <<K, l, l, K>>),
                 Agg("*", "p", <<Agg("*", "p", <<l>>), l>>), Agg("*", "p", <<K, l, K>>) }
         \cup (IF l.f = "n" THEN {} ELSE { WithAttr(l, <<K, IntV("1", "1")>>), WithAttr(K, <<K, l>>), WithAttr(Agg("*", "p", <<l>>), <<l, l>>) })
Leaves == IF Mode # "leaves" THEN {} ELSE UNION { Contexts(l) : l \in FullLeaves }

(* an attribute frame at exactly one node *)
AttrSet == { <<>>, <<K, IntV("1", "1")>>, <<K, Agg("*", "s", <<Str("$", A)>>), Str("$", CRLFp), Null3>>,
             <<K, WithAttr(IntV("1", "1"), <<K, K>>)>> }
RECURSIVE AttrVariants(_)
AttrVariants(y) ==
  (IF y.f = "n" THEN {} ELSE { WithAttr(y, a) : a \in AttrSet })
  \cup UNION { { [y EXCEPT !.kids[j] = z] : z \in AttrVariants(y.kids[j]) } : j \in DOMAIN y.kids }
AttrBase == IF Mode # "attr" THEN {} ELSE Trees(TopAggForms, NestedAggForms, TinyLeaves \cup {Null2("$")}, 3, 3)
AllAttrs == IF Mode # "attr" THEN {} ELSE UNION { AttrVariants(y) : y \in AttrBase }
Attrs == IF Mode # "attr" THEN {} ELSE IF Thorough THEN AllAttrs ELSE Sample(AllAttrs)

(* payload lengths around the reader's buffer sizes (bufio 32 and 4096, and the 16 byte minimum) *)
LongLens == IF Thorough THEN {14, 15, 16, 17, 26, 27, 28, 29, 30, 31, 32, 33, 34, 63, 64, 65, 4090, 4091, 4092, 4093, 4094, 4095, 4096, 4097, 8192, 70000, 1048576, 1048577, 3000000}
            ELSE {15, 16, 17, 27, 28, 30, 31, 32, 33, 4091, 4092, 4095, 4096, 4097, 70000, 1100000}
Longs == IF Mode # "long" THEN {} ELSE UNION { { Str("$", <<-k>>), Str("+", <<-k>>), Str("=", <<116, 120, 116, 58, -k>>), StreamStr(<<<<-k>>, <<-3>>>>), StreamStr(<<A, <<-k>>>>),
                   Agg("*", "p", <<Str("$", <<-k>>), Str("$", <<-k, 13, 10>>)>>), Agg("%", "s", <<Str("+", <<-k>>), Str("!", <<-k>>)>>),
                   WithAttr(Str("$", <<-k>>), <<Str("$", <<-k>>), Str("-", <<-k>>)>>) } : k \in LongLens }

(* push then reply *)
PushBase == { Agg(">", "p", <<Str("$", <<109, 115, 103>>), Str("$", A)>>), Agg(">", "p", <<>>) }
Replies == { Str("$", A), Str("$", <<>>), StreamStr(<<A, CRLFp>>), Str("+", <<79, 75>>), IntV("-10", "-10"), Str(",", <<49, 46, 53>>), Null3, Null2("$"),
             Str("-", <<69, 82, 82, 32, 120>>), Agg("*", "p", <<>>), Bool("t"), Str("(", <<48>>), Str("=", <<116, 120, 116, 58, 97>>) }

(* base trees of the malformed-input cases *)
MutBase == { Str("$", A), Str("$", <<>>), Str("$", <<97, 13, 10, 97>>), Str("=", <<116, 120, 116, 58, 97>>), Str("!", A), Str("+", A), Str("+", <<79, 75>>), Str("-", A),
             Str(",", <<49, 46, 53>>), Str("(", <<48>>), IntV("10", "10"), IntV("-1", "-1"), Bool("t"), Null3, Null2("$"), Null2("*"),
             StreamStr(<<>>), StreamStr(<<A>>), StreamStr(<<<<97, 97>>, CRLFp>>),
             Agg("*", "p", <<>>), Agg("*", "p", <<Str("$", A)>>), Agg("*", "p", <<IntV("1", "1"), Str("+", A)>>), Agg("*", "s", <<>>), Agg("*", "s", <<Str("$", A), Null3>>),
             Agg("~", "p", <<Str("+", A)>>), Agg("~", "s", <<IntV("1", "1")>>), Agg(">", "p", <<Str("$", A), IntV("1", "1")>>),
             Agg("%", "p", <<>>), Agg("%", "p", <<K, IntV("1", "1")>>), Agg("%", "s", <<K, Str("$", A)>>), Agg("%", "s", <<K, IntV("1", "1"), K, Null3>>),
             WithAttr(Str("$", A), <<K, IntV("1", "1")>>), WithAttr(Agg("*", "p", <<Null3>>), <<>>),
             Agg("*", "p", <<Agg("*", "s", <<IntV("1", "1")>>), Str("+", A)>>), Agg("*", "p", <<Agg("%", "p", <<K, Agg("~", "p", <<Null3>>)>>)>>),
             Agg("*", "p", <<StreamStr(<<A>>), Str("$", A)>>),
             Str("$", <<-40>>), Str("+", <<-40>>), Str("!", <<69, 82, 82, 32, 120>>), Str("=", <<109, 107, 100, 58, 97>>), Str(",", <<45, 105, 110, 102>>), Bool("f"),
             IntV("-9223372036854775808", "-9223372036854775808"), StreamStr(<<A, <<0, 255>>, CRLFp>>),
             Agg("~", "s", <<Str("$", A), Str("+", A)>>), Agg(">", "p", <<>>), Agg("%", "p", <<Str("$", A), Agg("*", "p", <<>>), K, Bool("t")>>),
             Agg("*", "s", <<Agg("%", "s", <<K, StreamStr(<<A>>)>>), Null2("$")>>), Agg("~", "p", <<Agg("~", "s", <<>>), Agg("*", "p", <<Null2("*")>>)>>),
             WithAttr(Agg("%", "p", <<K, Null3>>), <<K, Agg("*", "s", <<IntV("1", "1")>>)>>), WithAttr(StreamStr(<<A>>), <<K, K>>),
             Agg("*", "p", <<WithAttr(IntV("1", "1"), <<K, Str("$", A)>>), Str(",", <<49, 46, 53>>)>>) }
         \cup (IF Thorough THEN { StreamStr(<<<<-40>>, <<-5000>>>>), Agg("*", "p", <<Str("$", <<-5000>>), IntV("1", "1")>>),
                                  Agg("%", "p", <<K, WithAttr(Str("$", A), <<K, K>>), K, Agg("*", "s", <<Bool("f")>>)>>) } ELSE {})
DeepDepths == IF Thorough THEN {1000, 50000, 200000, 3000000} ELSE {1000, 50000, 3000000}

(* commands *)
ArgLens == {0, 1, 9, 10, 11, 99, 100, 101, 999, 1000, 1001, 9999, 10000, 10001, 99999, 100000, 100001, 999999, 1000000, 1000001, 9999999, 10000000, 10000001}
ArgCounts == {1, 2, 9, 10, 11, 99, 100, 101, 999, 1000, 1001} \cup (IF Thorough THEN {9999, 10000, 10001, 100000} ELSE {})
Contents == { <<>>, A, CRLFp, <<13>>, <<10>>, <<0>>, <<255>>, <<97, 13, 10, 36, 51, 13, 10>>, <<42, 49, 13, 10>>, <<0, 255, 13, 10, 45, 63>> }
Name == <<83, 69, 84>>
FillOf(k) == IF k = 0 THEN <<>> ELSE <<-k>>
Cmds == IF Mode # "cmd" THEN {} ELSE    { <<Grp(1, Name), Grp(1, c)>> : c \in Contents } \cup { <<Grp(1, c)>> : c \in Contents }
      \cup { <<Grp(1, Name), Grp(1, FillOf(k))>> : k \in ArgLens }
      \cup { <<Grp(1, FillOf(k)), Grp(1, CRLFp), Grp(1, FillOf(k))>> : k \in {j \in ArgLens : j <= 1000001} }
      \cup { <<Grp(1, <<13, 10>> \o FillOf(k) \o <<13, 10>>)>> : k \in {j \in ArgLens : j <= 100001} }
      \cup { IF n = 1 THEN <<Grp(1, Name)>> ELSE <<Grp(1, Name), Grp(n - 1, c)>> : n \in ArgCounts, c \in {<<>>, A, CRLFp} }
      \cup { <<Grp(n - 2, A), Grp(1, FillOf(k)), Grp(1, <<>>)>> : n \in {j \in ArgCounts : j >= 3 /\ j <= 1001}, k \in {9, 10, 99, 100, 999, 1000, 9999, 10000} }
SecondCmds == { <<Grp(1, Name)>>, <<Grp(1, <<>>)>>, <<Grp(1, <<42, 49, 13, 10>>), Grp(1, <<36, 51, 13, 10>>)>>, <<Grp(10, A)>>, <<Grp(1, Name), Grp(1, <<-4096>>)>> }
FirstCmds == { <<Grp(1, Name), Grp(1, c)>> : c \in {<<>>, CRLFp, <<36, 51, 13, 10>>, <<-9>>, <<-10>>, <<-4095>>, <<-4096>>} }
             \cup { <<Grp(9, A)>>, <<Grp(10, <<>>)>>, <<Grp(100, CRLFp)>> }
CmdSeqs == IF Mode # "cmd" THEN {} ELSE { <<c>> : c \in Cmds } \cup { <<c1, c2>> : c1 \in FirstCmds, c2 \in SecondCmds }

(* cacheable replies: every scalar type, arrays, sets and maps (no push, no attributes) *)
CacheLeaves == { Str("$", p) : p \in {<<>>, A, CRLFp, <<0, 255>>, <<-300>>} } \cup { Str("+", A), Str("+", <<79, 75>>), Str("-", <<69, 82, 82, 32, 120>>), Str("!", A),
                 Str("=", <<116, 120, 116, 58, 97>>), Str(",", <<49, 46, 53>>), Str("(", <<45, 49>>), Bool("t"), Bool("f"), Null3, Null2("$"), Null2("*"),
                 StreamStr(<<A, CRLFp>>) } \cup { IntV(f[1], f[2]) : f \in {<<"0", "0">>, <<"-1", "-1">>, <<"9223372036854775807", "9223372036854775807">>, <<"-9223372036854775808", "-9223372036854775808">>} }
CacheSmall == { Str("$", A), IntV("-1", "-1"), Null3, Str("+", <<>>) }
CacheTrees == IF Mode # "cache" THEN {} ELSE Trees({<<"*", "p">>, <<"~", "p">>, <<"%", "p">>}, {<<"*", "p">>, <<"~", "s">>, <<"%", "p">>, <<"%", "s">>}, CacheSmall, 4, 3)
              \cup (IF Thorough THEN Sample(Trees({<<"*", "p">>, <<"~", "p">>, <<"%", "p">>}, {<<"*", "p">>, <<"~", "s">>, <<"%", "p">>, <<"%", "s">>}, CacheSmall, 5, 3)) ELSE {})
              \cup UNION { { l, Agg("*", "p", <<l>>), Agg("%", "p", <<K, l>>), Agg("~", "s", <<l, l>>) } : l \in CacheLeaves }
Expiries == { "0", "1", "now", "36028797018963968", "72057594037927935" }     \* 0 = none, 1 ms, the present, 2^55, 2^56 - 1
(* wide aggregates (mode "cachewide"): n equal elements, written run-length encoded (Rep) and expected run-length encoded  *)
(* (field rep of the expected tree: the kids repeated rep times).  The lengths straddle the sizes at which a decoder that   *)
(* pre-allocates a bounded number of elements and grows while reading has to re-allocate.                                *)
WideLens == IF Thorough THEN {4096, 13107, 13108, 20000, 65537} ELSE {13107, 13108, 20000}
WideAggs == IF Mode # "cachewide" THEN {} ELSE { <<t, n>> : t \in {"*", "~", "%"}, n \in WideLens }
WideUnit(t) == IF t = "%" THEN <<K, Str("$", A)>> ELSE <<Str("$", A)>>

----------------------------------------------------------------------------------------------------------------
Subjects ==   \* (TLC evaluates constant definitions eagerly: the IF keeps the other modes' sets unevaluated)
  CASE Mode = "shapes" -> Shapes
    [] Mode = "leaves" -> Leaves
    [] Mode = "attr"   -> Attrs
    [] Mode = "long"   -> Longs
    [] Mode = "push"   -> { <<p, r>> : p \in PushBase, r \in Replies }
    [] Mode = "mut"    -> MutBase
    [] Mode = "deep"   -> DeepDepths
    [] Mode = "cmd"    -> CmdSeqs
    [] Mode = "cache"  -> CacheTrees
    [] Mode = "cachewide" -> WideAggs

Init == x \in Subjects /\ m = NoMut
Next ==
  \/ Mode = "mut" /\ m = NoMut /\ m' \in Mutations(x) /\ x' = x
  \/ Mode \in {"cache", "cachewide"} /\ m = NoMut /\ m' \in { Mut("expiry", <<>>, e) : e \in Expiries } /\ x' = x
  \/ UNCHANGED vars
Spec == Init /\ [][Next]_vars

----------------------------------------------------------------------------------------------------------------
(* the case records handed to the Go driver *)
RECURSIVE EncodeCmds(_)
EncodeCmds(cs) == IF cs = <<>> THEN <<>> ELSE EncodeCmd(Head(cs)) \o EncodeCmds(Tail(cs))

CaseRec ==
  CASE Mode \in {"shapes", "leaves", "attr", "long"} ->
         [kind |-> "value", sig |-> Sig(x), toks |-> Encode(x), exp |-> <<Expected(x)>>, stream |-> StreamExpected(x), nodes |-> Nodes(x)]
    [] Mode = "push" ->   \* two messages in a row; a streaming read delivers the reply and skips the push
         [kind |-> "value", sig |-> Sig(x[1]) \o Sig(x[2]), toks |-> Encode(x[1]) \o Encode(x[2]), exp |-> <<Expected(x[1]), Expected(x[2])>>,
          stream |-> StreamExpected(x[2]), nodes |-> Nodes(x[1]) + Nodes(x[2])]
    [] Mode = "mut" ->
         [kind |-> "malformed", sig |-> Sig(x), name |-> m.name, toks |-> m.toks, cls |-> m.cls]
    [] Mode = "deep" ->
         [kind |-> "malformed", sig |-> "deep", name |-> "nesting-depth=" \o ToString(x), toks |-> DeepToks(x), cls |-> "any"]
    [] Mode = "cmd" ->
         [kind |-> "cmd", cmds |-> x, toks |-> EncodeCmds(x)]
    [] Mode = "cache" ->
         [kind |-> "cache", sig |-> Sig(x), toks |-> Encode(x), exp |-> <<Expected(x)>>, expiry |-> m.cls, pxat |-> IF m.cls = "0" THEN "-1" ELSE m.cls]
    [] Mode = "cachewide" ->
         [kind |-> "cache", sig |-> x[1] \o "[wide" \o ToString(x[2]) \o "]",
          toks |-> <<Y(x[1]), N(x[2]), CRLF, Rep(x[2], EncodeSeq(WideUnit(x[1])))>>,
          exp |-> <<[k |-> "agg", t |-> x[1], s |-> <<>>, i |-> "", kids |-> ExpectedSeq(WideUnit(x[1])), a |-> <<>>, rep |-> x[2]]>>,
          expiry |-> m.cls, pxat |-> IF m.cls = "0" THEN "-1" ELSE m.cls]

Ready == CASE Mode \in {"mut", "cache", "cachewide"} -> m # NoMut [] OTHER -> TRUE
EmitCase == (Emit /\ Ready) => PrintT(<<"CASE", ToJson(CaseRec)>>)

----------------------------------------------------------------------------------------------------------------
(* the specification checked against itself *)
RoundTrip ==       \* the reference decoder reads every generated encoding back to the expected tree, consuming everything
  Mode \in {"shapes", "leaves", "attr", "long", "cache", "mut"} =>
     LET r == Parse(Encode(x)) IN r.ok /\ r.v = Expected(x)
PushRoundTrip == Mode = "push" => LET s == Encode(x[1]) \o Encode(x[2])
                                      r == PV(s, 1) IN r.ok /\ r.v = Expected(x[1]) /\ LET q == PV(s, r.pos) IN q.ok /\ q.v = Expected(x[2]) /\ q.pos = Len(s) + 1
MutantsRejected == \* no malformed input of class "error" is a sentence of the grammar
  (Mode = "mut" /\ m # NoMut /\ m.cls = "error") => ~Parse(m.toks).ok
RECURSIVE CmdsParse(_, _, _)
CmdsParse(s, i, cs) == IF cs = <<>> THEN i = Len(s) + 1
                       ELSE LET r == ParseCmd(s, i) IN r.ok /\ r.gs = Head(cs) /\ CmdsParse(s, r.pos, Tail(cs))
CmdRoundTrip == Mode = "cmd" => CmdsParse(EncodeCmds(x), 1, x)    \* consecutive commands are framed independently
Bounds == Mode \in {"shapes"} => Nodes(x) <= MaxNodes + 1 /\ Depth(x) <= MaxDepth
=============================================================================
