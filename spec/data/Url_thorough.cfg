SPECIFICATION Spec
CONSTANTS
  Tier = "thorough"
  Emit = TRUE
  BugWriteToDial = FALSE
INVARIANTS NonInterference Effective EmitCase
CHECK_DEADLOCK FALSE
