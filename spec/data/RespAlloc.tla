----------------------------- MODULE RespAlloc -----------------------------
(***************************************************************************************************************)
(* C13, the allocation half of the property as a process over time:                                            *)
(*                                                                                                             *)
(*      "decoding never allocates memory far beyond the bytes actually received"                               *)
(*                                                                                                             *)
(* A frame header declares D units (payload bytes of a blob string / of one chunk of a streamed string,        *)
(* elements of an aggregate; a map or attribute header declares D/2 pairs).  The peer then delivers only       *)
(* `sent` < D of them and closes the connection.  The decoder owns an accumulator of `cap` units of which `got`*)
(* are filled; `total` is the number of units it has allocated so far (every re-allocation counts in full: the *)
(* old block is garbage, but it was allocated).  The rule, at EVERY moment of the decoding (not only for a     *)
(* header that arrives alone):                                                                                 *)
(*                                                                                                             *)
(*      AllocBounded ==  total * cost  <=  Factor * (bytes received so far)  +  Slack                          *)
(*                                                                                                             *)
(* The actions are the steps of a family of reference decoders that keep the rule: pre-allocate at most Win     *)
(* bytes worth of units, fill what is there, grow geometrically (by cap/g, g in GrowDivs: doubling, 1.5, Go's   *)
(* append ratio 1.25) when - and only when - the accumulator is full.                                          *)
(* Two defects can be switched on (negative configs, TLC must report AllocBounded violated):                   *)
(*   DefectPreallocDeclared  the header alone makes the decoder allocate D units (round 1, finding #2)         *)
(*   DefectGrowToDeclared    the first window is bounded, but once it is full the accumulator is extended to   *)
(*                           D units in one step (the two-step shape: oversized length + >= one window of      *)
(*                           real payload; round 2, seeded change C13/2)                                       *)
(*                                                                                                             *)
(* Case generation (Emit = TRUE): every behaviour ends in the state "eof" (the peer closed before D units);    *)
(* that state is printed as a CASE record: the tokens of the input (Resp.tla token language), the class        *)
(* "error" (an incomplete frame is not a sentence of the grammar) and `abound`, the allocation the rule        *)
(* permits for the bytes of this input.  The Go driver delivers the bytes to the real decoder and compares     *)
(* runtime.MemStats.TotalAlloc with abound; it contains no allocation rule of its own for these cases.         *)
(*                                                                                                             *)
(* Integers stay below 2^31: magnitudes of the declared lengths are capped (MagCap), the wire text is exact.   *)
(***************************************************************************************************************)
EXTENDS Resp, Json

CONSTANTS Emit, Thorough,
          GrowDivs,          \* the reference decoders: a full accumulator of capacity c grows by c \div g, g \in GrowDivs
          DefectPreallocDeclared, DefectGrowToDeclared

Slack == 1048576            \* bytes a decoder may hold without having received anything for them (1 MiB)
Win   == Slack \div 2       \* the reference decoder pre-allocates at most this many bytes for a declared length
ByteFactor == 8             \* an accumulator grown geometrically by the ratio r allocates r/(r-1) * final capacity in total and is
                            \* at most r * filled: r^2/(r-1) * filled (4 for doubling, 4.5 for 1.5, 6.25 for the 1.25 of Go's append);
                            \* 8 admits every ratio between 1.17 and 6.8
ElemFactor == 128           \* an element of 3 bytes ("_\r\n") becomes a 48 byte message struct: 16 * ByteFactor
StructSize == 48            \* bytes of one decoded element (unsafe.Sizeof(RedisMessage{}) on 64 bit platforms)
Min(a, b) == IF a < b THEN a ELSE b

----------------------------------------------------------------------------------------------------------------
(* frames: where the oversized length stands                                                                   *)
(*   id    name used in signatures                  t     type byte of the header                              *)
(*   pre   tokens in front of the header            held  payload units of earlier chunks already accumulated  *)
(*   unit  "byte" | "elem"                          pairs TRUE: the header counts pairs (D = 2 * declared)      *)
Frame(id, t, pre, held, unit, pairs) == [id |-> id, t |-> t, pre |-> pre, held |-> held, unit |-> unit, pairs |-> pairs]
Cost(f) == IF f.unit = "byte" THEN 1 ELSE StructSize        \* bytes allocated per unit
Wire(f) == IF f.unit = "byte" THEN 1 ELSE 3                 \* bytes received per unit (elements are "_\r\n")
Factor(f) == IF f.unit = "byte" THEN ByteFactor ELSE ElemFactor
U(f) == Win \div Cost(f)                                    \* one window, in units of the frame
MagCap(f) == IF f.unit = "byte" THEN 1073741824 ELSE 16777216

AttrK == <<Y("|"), N(1), CRLF, Y("+"), P(<<107>>), CRLF, Y(":"), L("1"), CRLF>>      \* |1 +k :1  in front of a value
Chunk(k) == <<Y(";"), N(k), CRLF, P(<<-k>>), CRLF>>
ByteFrames ==
  { Frame("$", "$", <<>>, 0, "byte", FALSE), Frame("!", "!", <<>>, 0, "byte", FALSE), Frame("=", "=", <<>>, 0, "byte", FALSE),
    Frame("*[$", "$", <<Y("*"), N(2), CRLF>>, 0, "byte", FALSE),
    Frame("|$", "$", AttrK, 0, "byte", FALSE),
    Frame(";first", ";", <<Y("$"), L("?"), CRLF>>, 0, "byte", FALSE),
    Frame(";after1", ";", <<Y("$"), L("?"), CRLF>> \o Chunk(1), 1, "byte", FALSE),
    Frame(";afterW+1", ";", <<Y("$"), L("?"), CRLF>> \o Chunk(Win + 1), Win + 1, "byte", FALSE) }
  \cup (IF Thorough THEN { Frame("%[+$", "$", <<Y("%"), N(1), CRLF, Y("+"), P(<<107>>), CRLF>>, 0, "byte", FALSE),
                           Frame("*?[!", "!", <<Y("*"), L("?"), CRLF>>, 0, "byte", FALSE),
                           Frame(";after2W", ";", <<Y("$"), L("?"), CRLF>> \o Chunk(2 * Win), 2 * Win, "byte", FALSE) } ELSE {})
ElemFrames ==
  { Frame("*", "*", <<>>, 0, "elem", FALSE), Frame("~", "~", <<>>, 0, "elem", FALSE), Frame(">", ">", <<>>, 0, "elem", FALSE),
    Frame("%", "%", <<>>, 0, "elem", TRUE), Frame("|", "|", <<>>, 0, "elem", TRUE),
    Frame("*[*", "*", <<Y("*"), N(1), CRLF>>, 0, "elem", FALSE),
    Frame("*?[%", "%", <<Y("*"), L("?"), CRLF>>, 0, "elem", TRUE) }
  \cup (IF Thorough THEN { Frame("|*", "*", AttrK, 0, "elem", FALSE), Frame("%[+~", "~", <<Y("%"), N(1), CRLF, Y("+"), P(<<107>>), CRLF>>, 0, "elem", FALSE) } ELSE {})
Frames == ByteFrames \cup ElemFrames

(* declared lengths: wire text and magnitude.  The two small ones can really be allocated, so that the excess is *)
(* measured (30 MB / 100 MB of bytes, 144 MB / 480 MB of elements, twice that for pair counts); 10^8 bytes and   *)
(* both element counts exceed what the rule permits on every rung of the ladder.  2^63-1 is the largest length   *)
(* the integer parser accepts, 2^62-1 the largest pair count whose double fits.                                  *)
Lens(f) == (IF f.unit = "byte" THEN { [txt |-> "30000000", mag |-> 30000000], [txt |-> "100000000", mag |-> 100000000] }
                               ELSE { [txt |-> "3000000", mag |-> 3000000], [txt |-> "10000000", mag |-> 10000000] })
           \cup { [txt |-> "9223372036854775807", mag |-> 1073741824] }
           \cup (IF f.pairs \/ Thorough THEN { [txt |-> "4611686018427387903", mag |-> 1073741824] } ELSE {})
           \cup (IF Thorough THEN { [txt |-> "2147483648", mag |-> 1073741824], [txt |-> "17179869184", mag |-> 1073741824] } ELSE {})
Declared(f, len) == LET m == Min(len.mag, MagCap(f)) IN IF f.pairs THEN 2 * m ELSE m

(* how much the peer really delivers: around every multiple of the window (the implementation's first window is  *)
(* 512 KiB = Win; the other rungs are for windows of a different size)                                          *)
Ladder(f) == LET u == U(f) IN
  { <<"0", 0>>, <<"1", 1>>, <<"W/8+1", u \div 8 + 1>>, <<"W-1", u - 1>>, <<"W", u>>, <<"W+1", u + 1>>, <<"W+W/128", u + u \div 128>>,
    <<"2W-1", 2 * u - 1>>, <<"2W+1", 2 * u + 1>>, <<"4W+1", 4 * u + 1>> }
  \cup (IF Thorough THEN { <<"W/2", u \div 2>>, <<"2W", 2 * u>>, <<"3W+5", 3 * u + 5>>, <<"6W+3", 6 * u + 3>>, <<"8W+1", 8 * u + 1>>, <<"16W+7", 16 * u + 7>> } ELSE {})

----------------------------------------------------------------------------------------------------------------
VARIABLES f, len, sent,      \* the input: frame, declared length, units delivered before the peer closes
          g,                 \* the growth divisor of this reference decoder
          phase,             \* "hdr" the header has arrived | "body" | "eof" the decoder has seen the end of the input
          cap, got, total    \* accumulator capacity, filled units (incl. held), units allocated so far
vars == <<f, len, sent, g, phase, cap, got, total>>

D == Declared(f, len)
Init == /\ f \in Frames /\ len \in Lens(f) /\ sent \in Ladder(f) /\ g \in GrowDivs
        /\ sent[2] < Declared(f, len)                 \* the frame stays incomplete: class "error"
        /\ phase = "hdr" /\ cap = 0 /\ got = f.held
        /\ total = 2 * f.held                         \* what the earlier chunks have cost (doubling accumulator)

Header == /\ phase = "hdr"
          /\ LET room == IF DefectPreallocDeclared THEN D ELSE Min(D, U(f))
                 c == IF f.held = 0 THEN room ELSE 2 * f.held + room        \* growing a non-empty accumulator by room
             IN  cap' = c /\ total' = total + c
          /\ phase' = "body" /\ UNCHANGED <<f, len, sent, g, got>>
Fill ==   /\ phase = "body" /\ got < cap /\ got < f.held + sent[2]
          /\ got' = Min(cap, f.held + sent[2])
          /\ UNCHANGED <<f, len, sent, g, phase, cap, total>>
Grow ==   /\ phase = "body" /\ got = cap /\ cap < f.held + D       \* full, and the header promised more
          /\ LET step == IF cap \div g = 0 THEN 1 ELSE cap \div g
                 c == IF DefectGrowToDeclared THEN f.held + D ELSE cap + Min(step, f.held + D - cap)
             IN  cap' = c /\ total' = total + c
          /\ UNCHANGED <<f, len, sent, g, phase, got>>
Eof ==    /\ phase = "body" /\ got = f.held + sent[2] /\ got < cap   \* reading into the free part hits the end of the input
          /\ phase' = "eof" /\ UNCHANGED <<f, len, sent, g, cap, got, total>>
Next == Header \/ Fill \/ Grow \/ Eof \/ (phase = "eof" /\ UNCHANGED vars)
Spec == Init /\ [][Next]_vars

----------------------------------------------------------------------------------------------------------------
(* the input as tokens and the bytes of it that have arrived when `g` units of this frame are filled *)
HeaderToks == f.pre \o <<Y(f.t), L(len.txt), CRLF>>
BodyToks(k) == IF k = 0 THEN <<>> ELSE IF f.unit = "byte" THEN <<P(<<-k>>)>> ELSE <<Rep(k, <<Y("_"), CRLF>>)>>
Toks == HeaderToks \o BodyToks(sent[2])
Received == ToksSize(HeaderToks) + (got - f.held) * Wire(f)

AllocBounded == phase # "hdr" => total * Cost(f) <= Factor(f) * Received + Slack
TypeOK == /\ phase \in {"hdr", "body", "eof"}
          /\ (phase # "hdr" => got <= cap /\ cap <= f.held + D)
          /\ got <= f.held + sent[2]
Truncated == phase = "eof" => ~Parse(Toks).ok          \* the reference decoder of Resp.tla rejects every generated input

CaseRec == [kind |-> "malformed", sig |-> "partial", name |-> "partial:len=" \o len.txt \o "@" \o f.id, detail |-> "sent=" \o sent[1],
            toks |-> Toks, cls |-> "error", abound |-> Factor(f) * ToksSize(Toks) + Slack,
            declared |-> len.txt, sent |-> sent[2], unit |-> f.unit]
EmitCase == (Emit /\ phase = "eof") => PrintT(<<"CASE", ToJson(CaseRec)>>)
=============================================================================
