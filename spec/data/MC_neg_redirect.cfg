\* negative: a redirect classifier that answers ok for a text without address must violate RedirectHasAddr
SPECIFICATION Spec
CONSTANTS
  Gen = "c15"
  Deep = FALSE
  Emit = FALSE
  OnlyFam = "errtext"
  BugFirstWins = FALSE
  AllowNumericDocKeys = FALSE
  BugOkWithoutAddr = TRUE
  BugU64ViaI64 = FALSE
  BugCompKeepsRule = FALSE
INVARIANTS RedirectHasAddr
CHECK_DEADLOCK FALSE
