\* model self-check (reference decoder reads every encoding back), no case output: shapes <= 3 nodes (961 trees)
CONSTANTS
  DefectChunkLenTotal = FALSE
  DefectMapCountKids = FALSE
  DefectNull2Empty = FALSE
  Mode = "shapes"
  MaxNodes = 3
  MaxDepth = 3
  Emit = FALSE
  SampleN = 0
  Thorough = FALSE
INIT Init
NEXT Next
INVARIANTS RoundTrip PushRoundTrip MutantsRejected CmdRoundTrip Bounds
