\* case generation, quick tier: mode cmd
CONSTANTS
  DefectChunkLenTotal = FALSE
  DefectMapCountKids = FALSE
  DefectNull2Empty = FALSE
  Mode = "cmd"
  MaxNodes = 3
  MaxDepth = 3
  Emit = TRUE
  SampleN = 1500
  Thorough = FALSE
INIT Init
NEXT Next
INVARIANTS EmitCase RoundTrip PushRoundTrip MutantsRejected CmdRoundTrip Bounds
