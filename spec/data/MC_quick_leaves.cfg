\* model self-check: all leaf variants in all contexts
CONSTANTS
  DefectChunkLenTotal = FALSE
  DefectMapCountKids = FALSE
  DefectNull2Empty = FALSE
  Mode = "leaves"
  MaxNodes = 3
  MaxDepth = 3
  Emit = FALSE
  SampleN = 1500
  Thorough = FALSE
INIT Init
NEXT Next
INVARIANTS RoundTrip PushRoundTrip MutantsRejected CmdRoundTrip Bounds
