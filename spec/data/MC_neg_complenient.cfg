\* negative: a structured helper that may return a value although one of its components is malformed must violate CompNeverValue
SPECIFICATION Spec
CONSTANTS
  Gen = "c15"
  Deep = FALSE
  Emit = FALSE
  OnlyFam = "comp"
  BugFirstWins = FALSE
  AllowNumericDocKeys = FALSE
  BugOkWithoutAddr = FALSE
  BugU64ViaI64 = FALSE
  BugCompKeepsRule = TRUE
INVARIANTS CompNeverValue
CHECK_DEADLOCK FALSE
