\* model self-check, shapes <= 4 nodes (14561 trees)
CONSTANTS
  DefectChunkLenTotal = FALSE
  DefectMapCountKids = FALSE
  DefectNull2Empty = FALSE
  Mode = "shapes"
  MaxNodes = 4
  MaxDepth = 3
  Emit = FALSE
  SampleN = 0
  Thorough = TRUE
INIT Init
NEXT Next
INVARIANTS RoundTrip PushRoundTrip MutantsRejected CmdRoundTrip Bounds
