\* C16 quick: every (class, datum, protocol) is one initial state; oracle invariants checked, one CASE record printed per state (run with -workers 1)
SPECIFICATION Spec
CONSTANTS
  Gen = "c16"
  Deep = FALSE
  Emit = TRUE
  OnlyFam = ""
  BugFirstWins = FALSE
  AllowNumericDocKeys = FALSE
  BugOkWithoutAddr = FALSE
  BugU64ViaI64 = FALSE
  BugCompKeepsRule = FALSE
INVARIANTS WellFormed Resp2Typed LastWins Unambiguous RulesTotal RedirectHasAddr NumRanges CompNeverValue EmitCase
CHECK_DEADLOCK FALSE
