\* allocation discipline: the reference decoder keeps AllocBounded in every state (quick ladder)
CONSTANTS
  DefectChunkLenTotal = FALSE
  DefectMapCountKids = FALSE
  DefectNull2Empty = FALSE
  Emit = FALSE
  Thorough = FALSE
  GrowDivs = {1, 2, 4}
  DefectPreallocDeclared = FALSE
  DefectGrowToDeclared = FALSE
INIT Init
NEXT Next
INVARIANTS AllocBounded TypeOK Truncated
