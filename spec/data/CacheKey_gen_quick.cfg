SPECIFICATION Spec
CONSTANTS
  Names = {"GET", "HGETALL", "GETRANGE", "GETBIT", "HGET", "HMGET", "ZRANGE", "ZRANGEBYSCORE", "LRANGE", "EVAL_RO"}
  Tokens = {"HGET", "GET"}
  MaxFields = 2
  Separator = FALSE
  Emit = TRUE
INVARIANTS AdapterCoarser EmitCase
CHECK_DEADLOCK FALSE
