\* negative: RESP2 nulls expected as empty values -> RoundTrip must break
CONSTANTS
  DefectChunkLenTotal = FALSE
  DefectMapCountKids = FALSE
  DefectNull2Empty = TRUE
  Mode = "leaves"
  MaxNodes = 3
  MaxDepth = 3
  Emit = FALSE
  SampleN = 1500
  Thorough = FALSE
INIT Init
NEXT Next
INVARIANTS RoundTrip PushRoundTrip MutantsRejected CmdRoundTrip Bounds
