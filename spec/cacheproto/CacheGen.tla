------------------------------ MODULE CacheGen ------------------------------
(* Generation of behaviours for harness/cmd/cachedrv (-mode scen): CacheProto with AtomicCall = TRUE records every
   environment step and every return (with the values, hit flags and errors the specification predicts) in hist;
   a complete behaviour is printed as one CASE line.  Used with -simulate (sampling) and exhaustively (tiny bounds);
   WantFlags restricts the output to behaviours in which the named things happened (e.g. "stalecancel"). *)
EXTENDS CacheProto, Json

CONSTANT WantFlags

GenPrint == (GenDone /\ WantFlags \subseteq flags) => PrintT(<<"CASE", ToJson([steps |-> hist, flags |-> flags])>>)
=============================================================================
