------------------------------ MODULE CacheR6 ------------------------------
(* C06 (and the reply routing of C01) against a Redis 6 server, the scripted product: invalidations that arrive
   EMBEDDED in the array reply of a cached-read transaction (redis/redis#8935, see LazyWrite / ExecFrame.emb in
   CacheProto.tla and the transcription in CacheTrace.tla).

     victims   ka and kb are cached under the command vc (completed entries);
     rlz       the keys that then change on the server without a push (LazyWrite): {ka}, {kb} or both;
     rkind     the carrier: the next cached read that touches the keys under ANOTHER command cc -- DoCache (one: the
               first key of rlz only), DoMultiCache (multi: one transaction per key, each with its own embedded
               push) or DoCache(MGET) (mget: one transaction, up to TWO embedded pushes and two displaced elements);
     rfail     the carrier's first transaction is aborted: nothing is executed, nothing is reported, the keys stay
               owed and the next transaction that touches them carries the pushes;
     rpend     a request for a third command of ka is sent right behind the carrier: its entry is pending when the
               reader applies the embedded invalidation (mixed purge).

   The reader must apply every embedded invalidation to the store (all completed entries of the key, whatever the
   command) before it completes the carrier's own entries, and must reassemble the array: the last call reads every
   victim and every carrier entry -- a miss for each purged victim, a hit with the NEW version for the carrier's entries,
   a hit for the victims whose key was not reported.  TLC prints each behaviour with the predicted outcome;
   harness/cmd/cachedrv -mode redis6 replays it on the real client against a server that says 6.2.0 and scripts the
   wire shape. *)
EXTENDS CacheProto, Json

VARIABLES ph, rlz, rkind, rfail, rpend
rvars == <<ph, rlz, rkind, rfail, rpend>>

KA == "ka"
KB == "kb"
K2 == <<KA, KB>>
VC == IF rkind = "mget" THEN "h" ELSE "g"      \* MGET shares the identity of GET: the carrier's command is "g" then
CC == IF rkind = "mget" THEN "g" ELSE "h"
Victims == << <<KA, VC>>, <<KB, VC>> >>
LzSeq == SelectSeq(K2, LAMBDA k : k \in rlz)
Carrier == IF rkind = "one" THEN [kind |-> "one", ids |-> << <<LzSeq[1], CC>> >>]
           ELSE [kind |-> rkind, ids |-> << <<KA, CC>>, <<KB, CC>> >>]
Third == << <<KA, "i">> >>

R6Init == /\ Init
          /\ ph = 0
          /\ rlz \in {{KA}, {KB}, {KA, KB}}
          /\ rkind \in {"one", "multi", "mget"}
          /\ rfail \in BOOLEAN
          /\ rpend \in BOOLEAN

Skip == UNCHANGED vars
Internal == \E c \in Callers : Abort(c) \/ ConnErr(c) \/ DoCancel(c) \/ CancelDone(c) \/ WaitAll(c) \/ AsmErr(c) \/ Return(c)
MultiOp(ids) == [kind |-> "multi", ids |-> ids]

\* 0, 1 both keys are written once; 2 the victims are cached, 3 drain; 4, 5 the silent changes; 6 the carrier;
\* 7 the third command (pending); 8 drain; 9 the reading call; 10 drain; 11 done
PhaseNext ==
    IF ph = 0 THEN Write(KA) /\ ph' = 1
    ELSE IF ph = 1 THEN Write(KB) /\ ph' = 2
    ELSE IF ph = 2 THEN StartA(3, MultiOp(Victims), FALSE) /\ ph' = 3
    ELSE IF ph \in {3, 8, 10} /\ wire # <<>> THEN Reader /\ ph' = ph
    ELSE IF ph = 3 THEN Skip /\ ph' = 4
    ELSE IF ph = 4 THEN (IF KA \in rlz THEN LazyWrite(KA) ELSE Skip) /\ ph' = 5
    ELSE IF ph = 5 THEN (IF KB \in rlz THEN LazyWrite(KB) ELSE Skip) /\ ph' = 6
    ELSE IF ph = 6 THEN StartA(2, Carrier, rfail) /\ ph' = 7
    ELSE IF ph = 7 THEN (IF rpend THEN StartA(4, [kind |-> "one", ids |-> Third], FALSE) ELSE Skip) /\ ph' = 8
    ELSE IF ph = 8 THEN Skip /\ ph' = 9
    ELSE IF ph = 9 THEN StartA(1, MultiOp(Victims \o << <<KA, CC>>, <<KB, CC>> >> \o Third), FALSE) /\ ph' = 10
    ELSE IF ph = 10 THEN Skip /\ ph' = 11
    ELSE FALSE

R6Next == IF InternalEnabled THEN Internal /\ UNCHANGED rvars
          ELSE PhaseNext /\ UNCHANGED <<rlz, rkind, rfail, rpend>>
R6Spec == R6Init /\ [][R6Next]_<<vars, rvars>>

R6Print == (ph = 11 /\ ~InternalEnabled) =>
              PrintT(<<"CASE", ToJson([steps |-> hist, flags |-> flags, lz |-> rlz, kind |-> rkind, fail |-> rfail, pend |-> rpend])>>)
=============================================================================
