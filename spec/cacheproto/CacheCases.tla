------------------------------ MODULE CacheCases ------------------------------
(* C11, the exhaustive product: every batch of <= MaxBatch entries over three keys (duplicates included; one
   representative per renaming of the keys) x DoMultiCache / DoCache(MGET) x every assignment of a cache state
   (hit, pending by another caller, miss, expired, pfail = pending by another caller whose request then FAILS -- at
   most one key) to the keys of the batch, x (round 2) the batch's own first transaction aborted or not (cfail; only
   without a pfail key, so that one failure is in play at a time).  Each case is a scripted behaviour of
   CacheProto (AtomicCall = TRUE): populate the keys that are to be expired, let the TTL pass, populate the hits, let
   another caller open the pending flights (its replies are held back), issue the batch, deliver everything.  TLC
   prints the behaviour with the outcome the specification predicts at every step; harness/cmd/cachedrv replays it on
   the real client (single wire, multiplexed wires, cluster). *)
EXTENDS CacheProto, Json

VARIABLES ph, cbatch, ckind, cstate, cfail
cvars == <<ph, cbatch, ckind, cstate, cfail>>

K3 == <<"ka", "kb", "kc">>
KeySeqs == UNION {[1..n -> Keys] : n \in 1..MaxBatch}
\* one representative per renaming: keys appear in the order ka, kb, kc
Canon(s) == \A i \in 1..Len(s) : \A j \in 2..3 : s[i] = K3[j] => \E i2 \in 1..(i - 1) : s[i2] = K3[j - 1]
Used(s) == {s[i] : i \in 1..Len(s)}
States == {"hit", "pend", "miss", "exp", "pfail"}
\* the keys in state st, in key order, as identities of GET
InState(st) == LET I == {j \in 1..3 : K3[j] \in DOMAIN cstate /\ cstate[K3[j]] = st} IN
               [n \in 1..Cardinality(I) |-> <<K3[CHOOSE j \in I : Cardinality({j2 \in I : j2 < j}) = n - 1], GetCmd>>]

CaseInit == /\ Init
            /\ ph = -3
            /\ cbatch \in {s \in KeySeqs : Canon(s)}
            /\ ckind \in (IF Len(cbatch) >= 2 THEN {"multi", "mget"} ELSE {"multi"})
            /\ cstate \in {f \in [Used(cbatch) -> States] : Cardinality({k \in Used(cbatch) : f[k] = "pfail"}) <= 1}
            /\ cfail \in {c \in BOOLEAN : c => /\ \A k1 \in Used(cbatch) : cstate[k1] # "pfail"
                                                /\ \E k2 \in Used(cbatch) : cstate[k2] \in {"miss", "exp"}}

Multi(ids) == [kind |-> "multi", ids |-> ids]
Skip == UNCHANGED vars
Internal == \E c \in Callers : Abort(c) \/ ConnErr(c) \/ DoCancel(c) \/ CancelDone(c) \/ WaitAll(c) \/ AsmErr(c) \/ Return(c)

\* -3..-1 every key of the batch is written once (so that the values embed their key), 1 populate the keys to expire, 2 drain, 3 expiry, 35 populate the hits, 4 drain, 5 pending flights of caller 2,
\* 55 the flight of caller 4 that fails, 6 the batch, 7 drain, 8 done
PhaseNext ==
    IF ph < 0 THEN /\ (IF K3[ph + 4] \in Used(cbatch) THEN Write(K3[ph + 4]) ELSE Skip) /\ ph' = ph + 1
    ELSE IF ph = 0 THEN Skip /\ ph' = 1
    ELSE IF ph = 2 /\ wire = <<>> THEN Skip /\ ph' = 3
    ELSE IF ph = 3 THEN /\ (IF InState("exp") # <<>> THEN ExpireAll ELSE Skip) /\ ph' = 35
    ELSE IF ph = 35 THEN /\ (IF InState("hit") # <<>> THEN StartA(3, Multi(InState("hit")), FALSE) ELSE Skip) /\ ph' = 4
    ELSE IF ph \in {2, 4, 7} /\ wire # <<>> THEN Reader /\ ph' = ph
    ELSE IF ph = 1 THEN /\ (IF InState("exp") # <<>> THEN StartA(3, Multi(InState("exp")), FALSE) ELSE Skip) /\ ph' = 2
    ELSE IF ph = 4 THEN Skip /\ ph' = 5
    ELSE IF ph = 5 THEN /\ (IF InState("pend") # <<>> THEN StartA(2, Multi(InState("pend")), FALSE) ELSE Skip) /\ ph' = 55
    ELSE IF ph = 55 THEN /\ (IF InState("pfail") # <<>> THEN StartA(4, Multi(InState("pfail")), TRUE) ELSE Skip) /\ ph' = 6
    ELSE IF ph = 6 THEN /\ StartA(1, [kind |-> ckind, ids |-> [i \in 1..Len(cbatch) |-> <<cbatch[i], GetCmd>>]], cfail) /\ ph' = 7
    ELSE IF ph = 7 THEN Skip /\ ph' = 8
    ELSE FALSE

CaseNext == IF InternalEnabled THEN Internal /\ UNCHANGED cvars
            ELSE PhaseNext /\ UNCHANGED <<cbatch, ckind, cstate, cfail>>
CaseSpec == CaseInit /\ [][CaseNext]_<<vars, cvars>>

CasePrint == (ph = 8 /\ ~InternalEnabled) =>
                PrintT(<<"CASE", ToJson([steps |-> hist, flags |-> {}, batch |-> cbatch, kind |-> ckind, state |-> cstate, cfail |-> cfail])>>)
=============================================================================
