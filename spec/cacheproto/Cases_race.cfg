SPECIFICATION RaceSpec
CONSTANTS
  Keys = {"ka", "kb"}
  Cmds = {"g"}
  Callers = {1, 2, 3}
  OpKinds = {"one", "multi", "mget"}
  MinMulti = 1
  MaxBatch = 2
  MaxCalls = 2
  TotalCalls = 100
  MaxVer = 3
  Mode = "optin"
  MaxFlush = 1
  MaxExpire = 0
  MaxFail = 0
  MaxCut = 0
  MaxPlain = 0
  Cancelable = {}
  MaxF = 8
  AtomicCall = TRUE
  GateCancel = {}
  Reduce = "full"
  CancelByKey = TRUE
  BugPurgePending = FALSE
  BugSkipFlush = FALSE
  BugReorder = FALSE
  BugCacheFailed = FALSE
  BugCancelNoWake = FALSE
  BugRefill = FALSE
  BugNoClose = FALSE
  Redis6 = FALSE
  BugPurgeStop = FALSE
  BugPendingExpires = FALSE
  BugSkipEmbedded = FALSE
  RaceFlight = FALSE
INVARIANTS RacePrint TypeOK NoStaleHit Positional NoHole NoLostWaiter SingleFlight
CHECK_DEADLOCK FALSE
