#!/usr/bin/env python3
"""dev helper: python3 spec/cache/runcfg.py <module> <cfg>... -- runs TLC through lib/vlib.py and prints one line per config"""
import os, sys
sys.path.insert(0, os.path.join(os.path.dirname(os.path.abspath(__file__)), '..', '..'))
from lib import vlib
mod = sys.argv[1]
for c in sys.argv[2:]:
    r = vlib.tlc('cacheproto', mod, c, workers=int(os.environ.get('W', '4')), timeout=int(os.environ.get('T', '300')),
                 extra=os.environ.get('X', '').split() or None)
    print(c, r.summary(), r.error or '')
    if os.environ.get('V'):
        print(r.output[-int(os.environ['V']):])
