SPECIFICATION Spec
CONSTANTS
  Keys = {"ka", "kb"}
  Cmds = {"g"}
  Callers = {1, 2, 3}
  OpKinds = {"one", "multi", "mget"}
  MinMulti = 1
  MaxBatch = 2
  MaxCalls = 2
  TotalCalls = 4
  MaxVer = 3
  Mode = "optout"
  MaxFlush = 1
  MaxExpire = 0
  MaxFail = 1
  MaxCut = 0
  MaxPlain = 1
  Cancelable = {1, 2}
  MaxF = 8
  AtomicCall = TRUE
  GateCancel = {}
  Reduce = "full"
  CancelByKey = TRUE
  BugPurgePending = FALSE
  BugSkipFlush = FALSE
  BugReorder = FALSE
  BugCacheFailed = FALSE
  BugCancelNoWake = FALSE
  BugRefill = FALSE
  BugNoClose = FALSE
  Redis6 = FALSE
  BugPurgeStop = FALSE
  BugPendingExpires = FALSE
  BugSkipEmbedded = FALSE
  RaceFlight = FALSE
INVARIANTS GenPrint
CHECK_DEADLOCK FALSE
CONSTANT WantFlags = {}
