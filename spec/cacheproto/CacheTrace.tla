------------------------------ MODULE CacheTrace ------------------------------
(* Trace validation for CacheProto.tla: every line of the ndjson trace recorded by harness/cmd/cachedrv from the real
   rueidis client (single wire) and the fake server must be explained by the corresponding action of CacheProto.tla.

     driver events   Call (before the API call), Ret (after it, with key / version / hit flag / error class of every
                     position), CtxB / CtxE (around cancel()), Expire (before sleeping longer than the TTL), CancelGo
     server events   SUnit (the reply of one cached-read transaction was queued: identities, versions, ok), SInv (an
                     invalidation push was queued), SWrite (a write by another client took effect), SCut
     client events   InvCb: ClientOption.OnInvalidations ran on the reader goroutine right after cache.Delete(keys) (or,
                     with all = true, after the null invalidation of a flush or after cache.Close of a broken wire)

   What the implementation cannot report is a silent step TLC places wherever it fits: the Flight of each position, the
   send, the reader goroutine processing a reply frame (Update + hand-over), Abort / ConnErr, every Cancel, the waits, the
   mux dropping a broken wire, the instant a context ends (between CtxB and CtxE).
   A Ret is accepted only if the specification, in some placement of the silent steps, returns exactly the logged
   values, hit flags and (classes of) errors; an SUnit only if that transaction is the next in the specification's send
   queue and carries the versions the specification's server holds.  All invariants are evaluated at every step.

   The traces are validated with CancelByKey = FALSE, the specification that satisfies every invariant; a trace it
   rejects but CancelByKey = TRUE accepts shows the stale Cancel of DESIGN.md section 7 #16 (checks/cachecommon.py).

   Several runs are concatenated with RESET lines.  Acceptance: the highest position reached (register 1) is the end
   of the trace (POSTCONDITION). *)
EXTENDS CacheProto, Json, IOUtils

VARIABLES l,        \* position in TraceLog
          cxl,      \* callers whose cancel() has begun
          pendw,    \* per key: "inv" = the push of a write was logged, its SWrite is still to come; "write" = the reverse
          avail,    \* -1: the reader may consume the whole wire; n >= 0: only its first n frames, the server holds the rest
          unconf    \* invalidations / store closes the reader has processed and whose callback has not been logged yet

TraceLog == ndJsonDeserialize(IOEnv.VERIF_TRACE)
tvars == <<vars, l, cxl, pendw, avail, unconf>>
Ev == TraceLog[l]
Is(e) == l <= Len(TraceLog) /\ TraceLog[l].ev = e
Step == l' = l + 1
KeepT == UNCHANGED <<cxl, pendw, avail, unconf>>
SeqToSet(s) == {s[i] : i \in 1..Len(s)}

TraceInit == Init /\ l = 1 /\ cxl = {} /\ pendw = [k \in Keys |-> "none"] /\ avail = -1 /\ unconf = <<>> /\ TLCSet(1, 1)

TReset == /\ Is("RESET") /\ Step
          /\ sver' = [k \in Keys |-> 0] /\ tracked' = {} /\ sendq' = <<>> /\ wire' = <<>>
          /\ pst' = [p \in Pipes |-> "up"] /\ cur' = 1 /\ dead' = {} /\ live' = TRUE /\ lazy' = {}
          /\ ent' = [p \in Pipes |-> [id \in Ids |-> 0]] /\ fl' = [f \in 1..MaxF |-> FreeRec]
          /\ invv' = [p \in Pipes |-> [k \in Keys |-> 0]]
          /\ pc' = [c \in Callers |-> "idle"] /\ op' = [c \in Callers |-> NoOp] /\ pos' = [c \in Callers |-> 0]
          /\ slot' = [c \in Callers |-> <<>>] /\ resp' = [c \in Callers |-> <<>>] /\ res' = [c \in Callers |-> <<>>]
          /\ cerr' = [c \in Callers |-> "none"] /\ tocancel' = [c \in Callers |-> <<>>]
          /\ ctx' = [c \in Callers |-> FALSE] /\ ncalls' = [c \in Callers |-> 0]
          /\ sinv' = [c \in Callers |-> [k \in Keys |-> 0]] /\ sdead' = [c \in Callers |-> {}]
          /\ cep' = [c \in Callers |-> 1]
          /\ nflush' = 0 /\ nexp' = 0 /\ nfail' = 0 /\ nplain' = 0
          /\ hist' = <<>> /\ flags' = {}
          /\ cxl' = {} /\ pendw' = [k \in Keys |-> "none"] /\ avail' = -1 /\ unconf' = <<>>

\* ---- driver events
TCall == /\ Is("Call") /\ Step
         /\ ncalls[Ev.c] = Ev.gen
         /\ Start(Ev.c, [kind |-> Ev.kind, ids |-> Ev.ids])
         /\ cxl' = cxl \ {Ev.c} /\ UNCHANGED <<pendw, avail, unconf>>

ErrOk(e, logged) == CASE e = "ctx" -> logged = "ctx"
                      [] e = "conn" -> logged \in {"conn", "aborted"}
                      [] e = "fail" -> logged \in {"redis", "aborted"}
                      [] e = "closed" -> logged \in {"aborted", "conn"}
                      [] e = "cancelled" -> TRUE
                      [] OTHER -> FALSE
PosMatch(m, g) == IF m.t = "val"
                  THEN g.t = "val" /\ g.k = m.id[1] /\ g.cmd = m.id[2] /\ g.ver = m.ver /\ g.hit = m.hit
                  ELSE g.t = "err" /\ ErrOk(m.e, g.e)
ResMatch(mr, gr) == Len(mr) = Len(gr) /\ \A i \in 1..Len(mr) : PosMatch(mr[i], gr[i])
TRet == /\ Is("Ret") /\ Step
        /\ pc[Ev.c] = "ret" /\ ncalls[Ev.c] = Ev.gen
        /\ ResMatch(res[Ev.c], Ev.res)
        /\ Return(Ev.c)
        /\ KeepT

TCtxB == /\ Is("CtxB") /\ Step /\ cxl' = cxl \cup {Ev.c} /\ UNCHANGED <<vars, pendw, avail, unconf>>
TCtxE == /\ Is("CtxE") /\ Step
         /\ (pc[Ev.c] \in {"flights", "sent", "waits"}) => ctx[Ev.c]
         /\ UNCHANGED <<vars, cxl, pendw, avail, unconf>>
TExpire == /\ Is("Expire") /\ Step /\ KeepT
           /\ IF \E p \in Pipes : \E id \in Ids : ent[p][id] # 0 THEN ExpireAll ELSE UNCHANGED vars
TCancelGo == Is("CancelGo") /\ Step /\ KeepT /\ UNCHANGED vars

\* ---- server events
TUnit == /\ Is("SUnit") /\ Step /\ KeepT
         /\ sendq # <<>> /\ Head(sendq).ids = Ev.ids /\ Ev.p = cur
         /\ (Ev.ok => Ev.vers = [j \in 1..Len(Ev.ids) |-> sver[KeyOf(Ev.ids[j])]])
         \* Redis 6: the pushes the server wrote into the array of this reply (keys, in wire order)
         /\ Ev.emb = EmbOf(Head(sendq), ~Ev.ok, lazy)
         /\ ServerExecF(~Ev.ok)

\* a write by another client is reported by two events of the same dispatch, in either order
TWrite == /\ Is("SWrite") /\ Step /\ UNCHANGED <<cxl, avail, unconf>>
          /\ Ev.k \in Keys
          /\ IF pendw[Ev.k] = "inv"
             THEN /\ sver[Ev.k] = Ev.ver /\ pendw' = [pendw EXCEPT ![Ev.k] = "none"] /\ UNCHANGED vars
             ELSE /\ pendw[Ev.k] = "none" /\ Ev.ver = sver[Ev.k] + 1
                  /\ Write(Ev.k)
                  /\ pendw' = [pendw EXCEPT ![Ev.k] = IF Len(wire') > Len(wire) THEN "write" ELSE "none"]
TInvKey == /\ Is("SInv") /\ ~Ev.all /\ Len(Ev.keys) = 1 /\ Step /\ UNCHANGED <<cxl, avail, unconf>>
           /\ Ev.keys[1] \in Keys /\ Ev.p = cur
           /\ LET k == Ev.keys[1] IN
              IF pendw[k] = "write"
              THEN /\ pendw' = [pendw EXCEPT ![k] = "none"] /\ UNCHANGED vars
              ELSE /\ pendw[k] = "none"
                   /\ Write(k) /\ Len(wire') > Len(wire)
                   /\ pendw' = [pendw EXCEPT ![k] = "inv"]
\* FLUSHALL: the null invalidation; the rewrites of the keys follow as ordinary writes
TInvAll == /\ Is("SInv") /\ Ev.all /\ Step /\ KeepT /\ Ev.p = cur
           /\ pst[cur] = "up" /\ live
           /\ wire' = Append(wire, InvFrame(Keys, [k \in Keys |-> sver[k] + 1]))
           /\ tracked' = {} /\ lazy' = {}
           /\ UNCHANGED <<sver, sendq, pst, cur, dead, live, storv, callv, budgv, hist, flags>>
\* Redis 6 transcription (redis/redis#8935), see LazyWrite / ExecFrame in CacheProto.tla.  What the (scripted) server
\* does on the wire:   EXEC reply of MULTI, PTTL k, cmd k   with k owed an invalidation:
\*       *2  >2 invalidate [k]  :pttl        <- the announced two elements: the push took the place of an element
\*       $value                               <- the real last element follows as a top-level message
\* (MGET transaction with two such keys:  *3 >inv[a] :pttl_a >inv[b]  |  :pttl_b  |  *2 $va $vb).  pipe._backgroundRead
\* (branch ver == 6) hands every embedded push to handlePush -- store.Delete + OnInvalidations, in array order --,
\* shifts the real elements down and reads one follow-up message per stripped push, then treats the patched array
\* like any EXEC reply (store.Update ...).  In the specification the broken array and its tail are ONE frame
\* (RepFrame.emb = the embedded keys in wire order); the reader step on it applies Delete for every embedded key first,
\* then Update.  Trace events: SLazy (the key changed without a push: LazyWrite), SUnit.emb (the keys the server
\* embedded, checked against EmbOf), one InvCb per embedded push after the silent reader step (unconf, in order).
TLazy == /\ Is("SLazy") /\ Step /\ KeepT /\ Ev.k \in Keys /\ Ev.ver = sver[Ev.k] + 1 /\ LazyWrite(Ev.k)
\* the server executed CLIENT TRACKING ON on the connection of a new wire
TDial == /\ Is("SDial") /\ Step /\ KeepT /\ Ev.p = cur /\ Dial
\* OPTOUT: an uncached read on the data connection (its keys are remembered as well)
TPlain == /\ Is("SPlain") /\ Step /\ KeepT /\ Ev.k \in Keys
          /\ IF Ev.k \in tracked THEN UNCHANGED vars ELSE PlainRead(Ev.k)
TCut == /\ Is("SCut") /\ Step /\ UNCHANGED <<cxl, pendw, unconf>> /\ Ev.p = cur /\ Cut /\ avail' = -1

\* reply gating by the driver (fakeredis HoldReplies / Release): frames queued while the connection is held are not
\* available to the reader goroutine before they are released.  Hold is logged after the gate closed, Unhold and Rel
\* before it opens, so that the specification never knows of fewer available frames than there are.  Sync: the
\* callback of a barrier push that follows the released frames on the wire has run.
CanRead == avail # 0
Took == avail' = IF avail > 0 THEN avail - 1 ELSE avail
THold == /\ Is("Hold") /\ Step /\ avail' = (IF avail = -1 THEN Len(wire) ELSE avail) /\ UNCHANGED <<vars, cxl, pendw, unconf>>
TUnhold == /\ Is("Unhold") /\ Step /\ avail' = -1 /\ UNCHANGED <<vars, cxl, pendw, unconf>>
TRel == /\ Is("Rel") /\ Step /\ avail >= 0 /\ avail' = avail + Ev.ver /\ UNCHANGED <<vars, cxl, pendw, unconf>>
TSync == /\ Is("Sync") /\ Step /\ (avail = 0 \/ (avail = -1 /\ wire = <<>>)) /\ UNCHANGED <<vars, cxl, pendw, avail, unconf>>

\* ---- the reader goroutine.  OnInvalidations runs after cache.Delete / cache.Close returned and is logged later still:
\* the event does not tell when the store was purged, only that it has been by now.  The reader's steps are therefore
\* silent; the ones that end in a callback are remembered in unconf until their callback is logged (per wire, in order).
FirstOf(p) == CHOOSE i \in 1..Len(unconf) : unconf[i].p = p /\ \A j \in 1..(i - 1) : unconf[j].p # p
Without(i) == [j \in 1..(Len(unconf) - 1) |-> IF j < i THEN unconf[j] ELSE unconf[j + 1]]
TInvCb == /\ Is("InvCb") /\ Step /\ UNCHANGED <<vars, cxl, pendw, avail>>
          /\ \E i \in 1..Len(unconf) : unconf[i].p = Ev.p
          /\ LET i == FirstOf(Ev.p) IN
             /\ IF Ev.all THEN (unconf[i].close \/ unconf[i].keys = Keys)
                ELSE (~unconf[i].close /\ unconf[i].keys = SeqToSet(Ev.keys))
             /\ unconf' = Without(i)

\* ---- silent steps
Silent == /\ UNCHANGED <<l, cxl, pendw>>
          /\ \/ /\ UNCHANGED <<avail, unconf>>
                /\ \/ \E c \in Callers : \/ FlightAt(c) \/ Send(c) \/ Abort(c) \/ ConnErr(c) \/ DoCancel(c) \/ CancelDone(c)
                                         \/ WaitAll(c) \/ AsmErr(c)
                                         \/ (c \in cxl /\ CtxCancel(c))
                   \/ MuxSwap
             \/ (wire # <<>> /\ wire[1].t = "rep" /\ CanRead /\ Reader /\ Took
                 /\ unconf' = unconf \o [n \in 1..Len(wire[1].emb) |-> [p |-> cur, keys |-> {wire[1].emb[n]}, close |-> FALSE]])
             \/ (wire # <<>> /\ wire[1].t = "inv" /\ CanRead /\ Reader /\ Took
                 /\ unconf' = Append(unconf, [p |-> cur, keys |-> wire[1].keys, close |-> FALSE]))
             \/ \E p \in Pipes : CloseStore(p) /\ UNCHANGED avail
                                  /\ unconf' = Append(unconf, [p |-> p, keys |-> {}, close |-> TRUE])

TraceNext == \/ TReset \/ TCall \/ TRet \/ TCtxB \/ TCtxE \/ TExpire \/ TCancelGo
             \/ TUnit \/ TLazy \/ TWrite \/ TInvKey \/ TInvAll \/ TCut \/ TDial \/ TPlain \/ TInvCb \/ THold \/ TUnhold \/ TRel \/ TSync
             \/ Silent

TraceSpec == TraceInit /\ [][TraceNext]_tvars

\* high-water mark of the trace position (needs -workers 1)
HighWater == TLCSet(1, IF l > TLCGet(1) THEN l ELSE TLCGet(1))
TraceAccepted == \/ TLCGet(1) = Len(TraceLog) + 1
                 \/ PrintT(<<"REJECTED-AT", TLCGet(1), TraceLog[TLCGet(1)]>>) /\ FALSE
=============================================================================
