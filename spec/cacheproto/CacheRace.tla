------------------------------ MODULE CacheRace ------------------------------
(* C06 / C09, the regression product for the look-up / registration race of the stores (found in round 2 in
   NewSimpleCacheAdapter: its Flight registered a flight under Lock without looking at the SimpleCache again).

   Both stores take a Flight decision in two critical sections: look-up under the read lock, registration under the
   write lock.  A call may be delayed between the two for as long as another call needs to miss, fetch and complete
   the same identity.  For the specification the delayed call's Flight happens when it registers (FlightAt is
   atomic, RaceFlight = FALSE): by then the entry is completed and fresh, so the call is a HIT and sends nothing;
   after the next invalidation of the key the entry is gone and the following call fetches again.

   Each case is one behaviour of CacheProto (AtomicCall = TRUE) printed with the predicted outcome; the driver
   (cachedrv, scenario field "park") starts the delayed caller's call first, holds it at the verif hook between the two
   sections (lru.flight.slow / lru.flights.slow / adapter.flight.slow) -- it has only read, and found nothing -- and
   releases it where the behaviour has its call step.  With the race the delayed call sends a second request
   (what=extra-request) and, later, the completed value survives the invalidation (a stale hit).

     dkind  the delayed call: DoCache, DoMultiCache or DoCache(MGET); the batches also read kb (a plain miss)
     dinv   the invalidation that follows: a write of ka, or a flush *)
EXTENDS CacheProto, Json

VARIABLES ph, dkind, dinv
rvars == <<ph, dkind, dinv>>

KA == "ka"
KB == "kb"
One(k) == [kind |-> "one", ids |-> << <<k, GetCmd>> >>]
Delayed == IF dkind = "one" THEN One(KA) ELSE [kind |-> dkind, ids |-> << <<KA, GetCmd>>, <<KB, GetCmd>> >>]

RaceInit == Init /\ ph = 0 /\ dkind \in {"one", "multi", "mget"} /\ dinv \in {"write", "flush"}

Skip == UNCHANGED vars
Internal == \E c \in Callers : Abort(c) \/ ConnErr(c) \/ DoCancel(c) \/ CancelDone(c) \/ WaitAll(c) \/ AsmErr(c) \/ Return(c)

\* 0, 1 the keys are written once; 2 caller 1 misses and fetches ka, 3 drain; 4 the delayed call of caller 3 (a hit on
\* ka), 5 drain; 6 the invalidation, 7 the reader takes it; 8 caller 2 reads ka (a miss), 9 drain; 10 done
PhaseNext ==
    IF ph = 0 THEN Write(KA) /\ ph' = 1
    ELSE IF ph = 1 THEN Write(KB) /\ ph' = 2
    ELSE IF ph = 2 THEN StartA(1, One(KA), FALSE) /\ ph' = 3
    ELSE IF ph \in {3, 5, 9} /\ wire # <<>> THEN Reader /\ ph' = ph
    ELSE IF ph = 3 THEN Skip /\ ph' = 4
    ELSE IF ph = 4 THEN StartA(3, Delayed, FALSE) /\ ph' = 5
    ELSE IF ph = 5 THEN Skip /\ ph' = 6
    ELSE IF ph = 6 THEN (IF dinv = "write" THEN Write(KA) ELSE Flush) /\ ph' = 7
    ELSE IF ph = 7 THEN Reader /\ ph' = 8
    ELSE IF ph = 8 THEN StartA(2, One(KA), FALSE) /\ ph' = 9
    ELSE IF ph = 9 THEN Skip /\ ph' = 10
    ELSE FALSE

RaceNext == IF InternalEnabled THEN Internal /\ UNCHANGED rvars
            ELSE PhaseNext /\ UNCHANGED <<dkind, dinv>>
RaceSpec == RaceInit /\ [][RaceNext]_<<vars, rvars>>

RacePrint == (ph = 10 /\ ~InternalEnabled) =>
                PrintT(<<"CASE", ToJson([steps |-> hist, flags |-> flags, kind |-> dkind, inv |-> dinv, park |-> 3])>>)
=============================================================================
