SPECIFICATION Spec
CONSTANTS
  Keys = {"ka"}
  Cmds = {"g"}
  Callers = {1, 2, 3}
  OpKinds = {"one", "multi"}
  MinMulti = 1
  MaxBatch = 1
  MaxCalls = 2
  TotalCalls = 3
  MaxVer = 1
  Mode = "optin"
  MaxFlush = 0
  MaxExpire = 0
  MaxFail = 0
  MaxCut = 0
  MaxPlain = 0
  Cancelable = {1}
  MaxF = 6
  AtomicCall = TRUE
  GateCancel = {}
  Reduce = "full"
  CancelByKey = TRUE
  BugPurgePending = FALSE
  BugSkipFlush = FALSE
  BugReorder = FALSE
  BugCacheFailed = FALSE
  BugCancelNoWake = FALSE
  BugRefill = FALSE
  BugNoClose = FALSE
  Redis6 = FALSE
  BugPurgeStop = FALSE
  BugPendingExpires = FALSE
  BugSkipEmbedded = FALSE
  RaceFlight = FALSE
INVARIANTS GenPrint
CHECK_DEADLOCK FALSE
CONSTANT WantFlags = {"doublereq"}
VIEW GenView
