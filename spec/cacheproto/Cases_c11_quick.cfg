SPECIFICATION CaseSpec
CONSTANTS
  Keys = {"ka", "kb", "kc"}
  Cmds = {"g"}
  Callers = {1, 2, 3, 4}
  OpKinds = {"multi", "mget"}
  MinMulti = 1
  MaxBatch = 3
  MaxCalls = 3
  TotalCalls = 100
  MaxVer = 1
  Mode = "optin"
  MaxFlush = 0
  MaxExpire = 1
  MaxFail = 1
  MaxCut = 0
  MaxPlain = 0
  Cancelable = {}
  MaxF = 14
  AtomicCall = TRUE
  GateCancel = {}
  Reduce = "full"
  CancelByKey = TRUE
  BugPurgePending = FALSE
  BugSkipFlush = FALSE
  BugReorder = FALSE
  BugCacheFailed = FALSE
  BugCancelNoWake = FALSE
  BugRefill = FALSE
  BugNoClose = FALSE
  Redis6 = FALSE
  BugPurgeStop = FALSE
  BugPendingExpires = FALSE
  BugSkipEmbedded = FALSE
  RaceFlight = FALSE
INVARIANTS CasePrint
CHECK_DEADLOCK FALSE
