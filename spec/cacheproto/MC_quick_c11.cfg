SPECIFICATION Spec
CONSTANTS
  Keys = {"a", "b"}
  Cmds = {"g"}
  Callers = {1, 2}
  OpKinds = {"multi", "mget"}
  MinMulti = 2
  MaxBatch = 2
  MaxCalls = 1
  TotalCalls = 2
  MaxVer = 1
  Mode = "optin"
  MaxFlush = 0
  MaxExpire = 0
  MaxFail = 0
  MaxCut = 0
  MaxPlain = 0
  Cancelable = {}
  MaxF = 4
  AtomicCall = FALSE
  GateCancel = {}
  Reduce = "full"
  CancelByKey = FALSE
  BugPurgePending = FALSE
  BugSkipFlush = FALSE
  BugReorder = FALSE
  BugCacheFailed = FALSE
  BugCancelNoWake = FALSE
  BugRefill = FALSE
  BugNoClose = FALSE
  Redis6 = FALSE
  BugPurgeStop = FALSE
  BugPendingExpires = FALSE
  BugSkipEmbedded = FALSE
  RaceFlight = FALSE
INVARIANTS TypeOK NoStaleHit Positional NoHole SingleFlight FailedFlightNotCached WaitersGetFlightOutcome CancelledByOwner NoLostWaiter PendingHasOwner
CHECK_DEADLOCK FALSE
