------------------------------ MODULE CacheProto ------------------------------
(* Server-assisted client-side caching of redis/rueidis, end to end: one client (a mux with one wire at a time, each
   wire = one `pipe` with its own CacheStore), a tracking Redis server, writers on other connections.
   Properties C06, C09, C11.

   Code read: pipe.go (DoCache, doCacheMGet, DoMultiCache, the cache branches of _backgroundRead, handlePush
   "invalidate", _background: cache.Close + onInvalidations(nil)), lru.go / cache.go (Flight, Flights, Update, Cancel,
   Delete, Close), mux.go (the close hook of the mux replaces a wire at pipe._exit).

   What is modelled
     server     sver[k]: version counter of key k (the value of k is "k|sver[k]"); tracked: the keys the server
                remembers for the live connection (OPTIN: keys read under CLIENT CACHING YES; OPTOUT: every read key;
                BCAST: nothing is remembered, every write is reported).
     wire       the frames the server queued on the live connection and the reader goroutine has not processed yet,
                in wire order.  Redis order: the invalidation caused by a write is queued at the write.  A frame is
                either the reply of one request unit (the EXEC reply of OPTIN/MULTI/PTTL/cmd/EXEC, or of the rewritten
                MGET transaction) or an invalidation push (a key set, or all keys: flush).
     reader     the single reader goroutine processes frames in order: invalidation -> store.Delete (+ the
                OnInvalidations callback), successful cacheable reply -> store.Update for every identity of the unit,
                then the reply is handed to the caller (after the last unit of its DoMulti).
     store      per pipe p: ent[p][id] = the entry object currently stored under identity id = <<key, cmd>> (0 = none);
                fl[f]: entry objects ("flights"): pending / done(ver) / cancelled / closed.  Waiters keep a reference
                to the entry object they found pending (CacheEntry.Wait), exactly as the code does.
     callers    DoCache ("one"), DoMultiCache ("multi"), DoCache on MGET ("mget": per key Flight, rewrite to the
                missing keys, one transaction, positional refill).  A call = Start (binds the mux's current wire), one
                Flight per position, Send, (server) Exec per unit, (reader) Deliver, Cancel of failed/aborted units as
                SEPARATE LATER STEPS, Wait for the flights of other callers, assemble, Return.
     faults     transaction aborts / error replies (a unit fails), context cancellation at any step, Cut of the
                connection (replies lost), Close of the store by _background (+ the nil invalidation callback),
                replacement of the wire by the mux after a call saw the error.
     clock      ExpireAll: more than the (common) client TTL passes: completed entries are gone, pending entries are
                completed later as already expired (lru.Update keeps the smaller pxat computed at Flight time).

     Redis 6    (round 2) Redis6 = TRUE: LazyWrite -- a remembered key changes on the server without a push; the push is
                owed (lazy) and arrives EMBEDDED in the array reply of the next transaction of the connection that
                touches the key (redis/redis#8935; RepFrame.emb), or as an ordinary push when a writer touches it first.
                The reader applies embedded invalidations (Delete + invv) before the Update of the reply.
     commands   Ids = Keys \X Cmds: several cacheable commands per key are separate entries; an invalidation of the key
                removes every completed one of them and keeps every pending one.

   CancelByKey = TRUE is pipe.go/lru.go/cache.go as they are: Cancel(key, cmd, err) removes whatever flight is pending
   under the identity, not the caller's own flight (DESIGN.md section 7 #16).  FALSE: "cancel only your own flight".
   The Bug* constants re-introduce plausible defects (negative configs).

   AtomicCall = TRUE restricts the behaviours to those a driver can force on the real client without hooks (a call runs
   alone until it returned / blocked / its transactions were executed; internal steps run to completion before the next
   environment step; only the Cancel of the callers in GateCancel is a step the environment releases) and records
   them in hist: the generation configs. *)
EXTENDS Integers, Sequences, FiniteSets, TLC

CONSTANTS Keys, Cmds, Callers,
          OpKinds,        \* subset of {"one", "multi", "mget"}
          MinMulti, MaxBatch,
          MaxCalls,       \* calls per caller
          TotalCalls,     \* calls altogether
          MaxVer,         \* bound of the version of a key (writes + flushes)
          Mode,           \* "optin" | "optout" | "bcast"
          MaxFlush, MaxExpire, MaxFail, MaxCut, MaxPlain,
          Cancelable,     \* callers whose context may end during a call
          MaxF,           \* entry objects alive at the same time
          AtomicCall, GateCancel,
          Reduce,         \* "full": the partial-order reduction described at Calm (model checking); "local": only the
                          \* caller-local part of it (trace validation); "none"
          CancelByKey,
          BugPurgePending, BugSkipFlush, BugReorder, BugCacheFailed, BugCancelNoWake, BugRefill, BugNoClose,
          Redis6,         \* the server is a Redis 6: the invalidation of a lazily expired key is written INSIDE the array
                          \* reply of the transaction that touches the key (redis/redis#8935), see LazyWrite
          BugPurgeStop,       \* store.Delete stops at the first pending entry of a key (completed entries of the key
                              \* under other commands survive; worst iteration order: the pending entry comes first)
          BugPendingExpires,  \* Flight treats a pending entry older than the client TTL as an expired value
          BugSkipEmbedded,    \* an invalidation embedded in a reply is consumed but not applied to the store
          RaceFlight          \* NewSimpleCacheAdapter as it is: adapter.Flight looks the value up under RLock and registers
                              \* the flight under Lock, re-reading only the flights map -- a caller delayed between the two
                              \* registers a new flight (a second request) although a completed, fresh entry exists by then

VARIABLES sver, tracked, sendq, wire, pst, cur, dead,
          live,           \* the server has the (tracking) connection of wire cur; FALSE between a cut and the next dial
          lazy,           \* Redis 6: keys remembered for the connection that changed (expired) on the server without
                          \* having been reported yet; the report is embedded in the next reply that touches the key

          ent, fl, invv,                                        \* the stores
          pc, op, pos, slot, resp, res, cerr, tocancel, ctx, ncalls, sinv, sdead, cep,   \* callers
          nflush, nexp, nfail, nplain,                          \* budgets
          hist, flags     \* generation configs: the behaviour so far; notable things that happened in it

servv == <<sver, tracked, sendq, wire, pst, cur, dead, live, lazy>>
storv == <<ent, fl, invv>>
callv == <<pc, op, pos, slot, resp, res, cerr, tocancel, ctx, ncalls, sinv, sdead, cep>>
budgv == <<nflush, nexp, nfail, nplain>>
vars  == <<servv, storv, callv, budgv, hist, flags>>

GetCmd == "g"                       \* the command whose identity MGET shares (GET / JSON.GET+path)
Ids    == Keys \X Cmds
Pipes  == 1..(MaxCut + 1)
KeyOf(id) == id[1]
NoOp   == [kind |-> "none", ids |-> <<>>]
SeqsOf(S, lo, hi) == UNION {[1..n -> S] : n \in lo..hi}
Ops == [kind : {"one"} \cap OpKinds, ids : SeqsOf(Ids, 1, 1)]
       \cup [kind : {"multi"} \cap OpKinds, ids : SeqsOf(Ids, MinMulti, MaxBatch)]
       \cup [kind : {"mget"} \cap OpKinds, ids : SeqsOf(Keys \X {GetCmd}, 2, MaxBatch)]

Range(s) == {s[i] : i \in 1..Len(s)}
Max2(a, b) == IF a >= b THEN a ELSE b
\* indexes of s selected by Test, in increasing order
SelectIdx(s, from, Test(_)) ==
    LET I == {i \in from..Len(s) : Test(i)} IN
    [k \in 1..Cardinality(I) |-> CHOOSE i \in I : Cardinality({j \in I : j < i}) = k - 1]

\* ------------------------------------------------------------------------------------------------ records
FreeRec == [id |-> <<>>, st |-> "free", ver |-> 0, owner |-> 0, gen |-> 0, by |-> 0, bygen |-> 0, dead |-> FALSE, p |-> 0]
\* emb: Redis 6 only -- the keys whose invalidation pushes are embedded in the array of this reply, in wire order
\* (w: the version of each embedded key the push reports)
RepFrame(c, g, ids, vers, ok, last, emb, w) ==
    [t |-> "rep", c |-> c, gen |-> g, ids |-> ids, vers |-> vers, ok |-> ok, last |-> last, keys |-> {}, w |-> w, emb |-> emb]
InvFrame(keys, w) ==
    [t |-> "inv", c |-> 0, gen |-> 0, ids |-> <<>>, vers |-> <<>>, ok |-> TRUE, last |-> FALSE, keys |-> keys, w |-> w,
     emb |-> <<>>]
Slot(t, f, ver) == [t |-> t, f |-> f, ver |-> ver]
Val(id, ver, hit) == [t |-> "val", id |-> id, ver |-> ver, hit |-> hit, e |-> ""]
ErrR(e) == [t |-> "err", id |-> <<>>, ver |-> 0, hit |-> FALSE, e |-> e]

\* entry objects still referenced by a store or by a caller; the others are recycled (canonical form)
Referenced(f, e, s) == (\E p \in Pipes : \E id \in Ids : e[p][id] = f)
                       \/ (\E c \in Callers : \E i \in 1..Len(s[c]) : s[c][i].f = f)
GC(f2, e, s) == [f \in 1..MaxF |-> IF Referenced(f, e, s) THEN f2[f] ELSE FreeRec]
FreeF(e, s) == {f \in 1..MaxF : ~Referenced(f, e, s)}

LogF(r, S) == /\ hist' = IF AtomicCall THEN Append(hist, r) ELSE hist
              /\ flags' = IF AtomicCall THEN flags \cup S ELSE flags
Log(r) == LogF(r, {})

Init == /\ sver = [k \in Keys |-> 0] /\ tracked = {} /\ sendq = <<>> /\ wire = <<>>
        /\ pst = [p \in Pipes |-> "up"] /\ cur = 1 /\ dead = {} /\ live = TRUE /\ lazy = {}
        /\ ent = [p \in Pipes |-> [id \in Ids |-> 0]] /\ fl = [f \in 1..MaxF |-> FreeRec]
        /\ invv = [p \in Pipes |-> [k \in Keys |-> 0]]
        /\ pc = [c \in Callers |-> "idle"] /\ op = [c \in Callers |-> NoOp] /\ pos = [c \in Callers |-> 0]
        /\ slot = [c \in Callers |-> <<>>] /\ resp = [c \in Callers |-> <<>>] /\ res = [c \in Callers |-> <<>>]
        /\ cerr = [c \in Callers |-> "none"] /\ tocancel = [c \in Callers |-> <<>>]
        /\ ctx = [c \in Callers |-> FALSE] /\ ncalls = [c \in Callers |-> 0]
        /\ sinv = [c \in Callers |-> [k \in Keys |-> 0]] /\ sdead = [c \in Callers |-> {}]
        /\ cep = [c \in Callers |-> 1]
        /\ nflush = 0 /\ nexp = 0 /\ nfail = 0 /\ nplain = 0
        /\ hist = <<>> /\ flags = {}

\* the store of pipe p has not been closed (lru: c.store != nil)
StoreOpenP(p) == pst[p] # "closed" \/ BugNoClose

\* ------------------------------------------------------------------------------------------------ callers
\* position i of the batch ids consults the store of pipe p: lru.Flight / lru.Flights / adapter.Flight
\* race (RaceFlight only): the look-up of this call ran before the completed entry existed, the registration after
FlightEffect(c, p, ids, i, e0, f0, s0, race) ==
    LET id == ids[i] IN
    IF ~StoreOpenP(p)
    THEN [e |-> e0, f |-> f0, s |-> [s0 EXCEPT ![c] = Append(@, Slot("miss", 0, 0))]]   \* store == nil: miss, no entry
    ELSE IF e0[p][id] # 0 /\ f0[e0[p][id]].st = "done" /\ ~race
    THEN [e |-> e0, f |-> f0, s |-> [s0 EXCEPT ![c] = Append(@, Slot("hit", 0, f0[e0[p][id]].ver))]]
    \* a pending entry is joined however old it is (lru.Flight: v.typ == 0 || ...; adapter: flights[key][cmd] != nil)
    ELSE IF e0[p][id] # 0 /\ f0[e0[p][id]].st # "done" /\ ~(BugPendingExpires /\ f0[e0[p][id]].dead)
    THEN [e |-> e0, f |-> f0, s |-> [s0 EXCEPT ![c] = Append(@, Slot("wait", e0[p][id], 0))]]
    ELSE LET f == CHOOSE x \in FreeF(e0, s0) : \A y \in FreeF(e0, s0) : x <= y IN
         [e |-> [e0 EXCEPT ![p][id] = f],
          f |-> [f0 EXCEPT ![f] = [id |-> id, st |-> "pending", ver |-> 0, owner |-> c, gen |-> ncalls[c],
                                  by |-> 0, bygen |-> 0, dead |-> FALSE, p |-> p]],
          s |-> [s0 EXCEPT ![c] = Append(@, Slot("miss", f, 0))]]

RECURSIVE FlightsFrom(_, _, _, _, _, _, _)
FlightsFrom(c, p, ids, i, e0, f0, s0) ==
    IF i > Len(ids) THEN [e |-> e0, f |-> f0, s |-> s0]
    ELSE LET r == FlightEffect(c, p, ids, i, e0, f0, s0, FALSE) IN FlightsFrom(c, p, ids, i + 1, r.e, r.f, r.s)

MissPos(sc) == SelectIdx(sc, 1, LAMBDA i : sc[i].t = "miss")
MissIds(ids, sc) == [j \in 1..Len(MissPos(sc)) |-> ids[MissPos(sc)[j]]]
\* request units: DoCache / DoMultiCache send one transaction per missing command, doCacheMGet one for all missing keys
Units(c, o, sc) == LET m == MissIds(o.ids, sc) IN
                   IF Len(m) = 0 THEN <<>>
                   ELSE IF o.kind = "mget" THEN << [c |-> c, gen |-> ncalls[c], ids |-> m, last |-> TRUE] >>
                   ELSE [j \in 1..Len(m) |-> [c |-> c, gen |-> ncalls[c], ids |-> <<m[j]>>, last |-> (j = Len(m))]]

\* responses of the units flattened in order: <<[id, ver, ok]>>
RECURSIVE Flat(_)
Flat(rs) == IF rs = <<>> THEN <<>>
            ELSE [j \in 1..Len(Head(rs).ids) |-> [id |-> Head(rs).ids[j], ver |-> Head(rs).vers[j], ok |-> Head(rs).ok]]
                 \o Flat(Tail(rs))

\* ---- internal steps have priority in the generation configs
CanWaitAll(c) == pc[c] = "waits" /\ (ctx[c] \/ \A i \in 1..Len(slot[c]) : slot[c][i].t = "wait" => fl[slot[c][i].f].st # "pending")
\* the first Cancel of a context-aborted owner in GateCancel is released by the environment (a hook holds it)
GatedNow(c) == /\ AtomicCall /\ c \in GateCancel /\ pc[c] = "cancel" /\ cerr[c] = "ctx"
               /\ tocancel[c] # <<>> /\ tocancel[c] = MissIds(op[c].ids, slot[c])
InternalEnabled ==
    \/ \E c \in Callers : \/ pc[c] = "sent" /\ (ctx[c] \/ pst[cep[c]] # "up")
                          \/ pc[c] = "cancel" /\ ~GatedNow(c)
                          \/ CanWaitAll(c) \/ pc[c] \in {"asm", "ret"}
    \/ \E p \in Pipes : pst[p] = "down"
    \/ (pst[cur] # "up" /\ cur <= MaxCut)
ActiveCalls == Cardinality({c \in Callers : pc[c] # "idle"})
RECURSIVE SumCalls(_)
SumCalls(S) == IF S = {} THEN 0 ELSE LET c == CHOOSE x \in S : TRUE IN ncalls[c] + SumCalls(S \ {c})
CallBudget == SumCalls(Callers) + ActiveCalls < TotalCalls
\* generation configs: the behaviour is complete (every budgeted call was made and returned, the wire is drained)
GenDone == /\ AtomicCall /\ \A c \in Callers : pc[c] = "idle"
           /\ wire = <<>> /\ ~InternalEnabled /\ SumCalls(Callers) = TotalCalls
Quiet == AtomicCall => (~InternalEnabled /\ ~GenDone)

\* ---- reduction of the interleavings in the model-checking configs (Reduce = "full"): steps that only touch the
\* caller's own variables run before anything else, the hand-over of the request to the connection follows the last
\* Flight at once (a restriction: the order in which two callers' requests enter the connection is the order of their
\* last Flights), and the server consumes its input queue before the client side moves on (ServerExec commutes with
\* every client-side step: it appends to the end of the wire); writes still interleave freely with the executions.
\* Trace validation (Reduce = "local") keeps only the caller-local part, which is invisible in a trace.
WaitsReady(c) == pc[c] = "waits" /\ \A i \in 1..Len(slot[c]) : slot[c][i].t = "wait" => fl[slot[c][i].f].st # "pending"
UrgentLocal == \E c \in Callers : \/ pc[c] = "asm" \/ (pc[c] = "ret" /\ Reduce = "full")
                                  \/ pc[c] = "cancel" /\ tocancel[c] = <<>>
                                  \/ pc[c] = "flights" /\ pos[c] > Len(op[c].ids) /\ Reduce = "full"
                                  \/ WaitsReady(c)
Calm    == AtomicCall \/ Reduce = "none" \/ ((Reduce = "full" => sendq = <<>>) /\ ~UrgentLocal)
SrvCalm == AtomicCall \/ Reduce = "none" \/ ~UrgentLocal

Start(c, o) ==
    /\ ~AtomicCall /\ Calm /\ CallBudget
    /\ pc[c] = "idle" /\ ncalls[c] < MaxCalls
    /\ Cardinality(FreeF(ent, slot)) >= Len(o.ids)
    /\ pc' = [pc EXCEPT ![c] = "flights"] /\ op' = [op EXCEPT ![c] = o] /\ pos' = [pos EXCEPT ![c] = 1]
    /\ slot' = [slot EXCEPT ![c] = <<>>] /\ resp' = [resp EXCEPT ![c] = <<>>] /\ res' = [res EXCEPT ![c] = <<>>]
    /\ cerr' = [cerr EXCEPT ![c] = "none"] /\ tocancel' = [tocancel EXCEPT ![c] = <<>>]
    /\ ctx' = [ctx EXCEPT ![c] = FALSE]
    /\ sinv' = [sinv EXCEPT ![c] = invv[cur]] /\ sdead' = [sdead EXCEPT ![c] = dead] /\ cep' = [cep EXCEPT ![c] = cur]
    /\ UNCHANGED <<servv, storv, ncalls, budgv, hist, flags>>

FlightAt(c) ==
    /\ pc[c] = "flights" /\ pos[c] <= Len(op[c].ids) /\ Calm
    /\ \E race \in {FALSE} \cup (IF RaceFlight /\ ent[cep[c]][op[c].ids[pos[c]]] # 0
                                       /\ fl[ent[cep[c]][op[c].ids[pos[c]]]].st = "done" THEN {TRUE} ELSE {}) :
       LET r == FlightEffect(c, cep[c], op[c].ids, pos[c], ent, fl, slot, race) IN
       /\ ent' = r.e /\ slot' = r.s /\ fl' = GC(r.f, r.e, r.s)
    /\ pos' = [pos EXCEPT ![c] = @ + 1]
    /\ UNCHANGED <<servv, invv, pc, op, resp, res, cerr, tocancel, ctx, ncalls, sinv, sdead, cep, budgv, hist, flags>>

\* after the last Flight: DoMulti(...) of the missing commands (or nothing to send)
Send(c) ==
    /\ pc[c] = "flights" /\ pos[c] > Len(op[c].ids)
    /\ LET u == Units(c, op[c], slot[c]) IN
       IF Len(u) = 0
       THEN /\ pc' = [pc EXCEPT ![c] = "waits"] /\ UNCHANGED <<sendq, cerr, tocancel>>
       ELSE IF ctx[c]                     \* DoMulti: ctx.Err() != nil -> nothing is sent
       THEN /\ pc' = [pc EXCEPT ![c] = "cancel"] /\ cerr' = [cerr EXCEPT ![c] = "ctx"]
            /\ tocancel' = [tocancel EXCEPT ![c] = MissIds(op[c].ids, slot[c])] /\ UNCHANGED sendq
       ELSE IF pst[cep[c]] # "up"         \* the pipe is closing / closed: DoMulti returns its error
       THEN /\ pc' = [pc EXCEPT ![c] = "cancel"] /\ cerr' = [cerr EXCEPT ![c] = "conn"]
            /\ tocancel' = [tocancel EXCEPT ![c] = MissIds(op[c].ids, slot[c])] /\ UNCHANGED sendq
       ELSE /\ pc' = [pc EXCEPT ![c] = "sent"] /\ sendq' = sendq \o u /\ UNCHANGED <<cerr, tocancel>>
    /\ UNCHANGED <<sver, tracked, wire, pst, cur, dead, live, lazy, storv, op, pos, slot, resp, res, ctx, ncalls, sinv, sdead,
                   cep, budgv, hist, flags>>

\* the caller's context ends (observed by the code at its next select / ctx.Err())
CtxCancel(c) ==
    /\ Quiet /\ (Reduce = "full" => Calm)
    /\ c \in Cancelable /\ ~ctx[c] /\ pc[c] \in {"flights", "sent", "waits"}
    \* what a driver can force deterministically: no select with two ready branches
    /\ AtomicCall => \/ pc[c] = "sent" /\ \A i \in 1..Len(slot[c]) : slot[c][i].t # "wait"
                     \/ pc[c] = "waits" /\ \A i \in 1..Len(slot[c]) : slot[c][i].t = "wait" => fl[slot[c][i].f].st = "pending"
    /\ ctx' = [ctx EXCEPT ![c] = TRUE]
    /\ Log([a |-> "ctx", c |-> c])
    /\ UNCHANGED <<servv, storv, pc, op, pos, slot, resp, res, cerr, tocancel, ncalls, sinv, sdead, cep, budgv>>

\* DoMulti's select takes the context branch: the request stays in flight, its reply will still be processed
Abort(c) ==
    /\ pc[c] = "sent" /\ ctx[c] /\ Calm
    /\ pc' = [pc EXCEPT ![c] = "cancel"] /\ cerr' = [cerr EXCEPT ![c] = "ctx"]
    /\ tocancel' = [tocancel EXCEPT ![c] = MissIds(op[c].ids, slot[c])]
    /\ UNCHANGED <<servv, storv, op, pos, slot, resp, res, ctx, ncalls, sinv, sdead, cep, budgv, hist, flags>>

\* the connection is gone: the pending DoMulti is answered with the connection error
ConnErr(c) ==
    /\ pc[c] = "sent" /\ pst[cep[c]] # "up" /\ Calm
    /\ pc' = [pc EXCEPT ![c] = "cancel"] /\ cerr' = [cerr EXCEPT ![c] = "conn"]
    \* Cancel for every unit without a successful reply (not yet answered, or answered with an error)
    /\ LET m == MissIds(op[c].ids, slot[c])
           fr == Flat(resp[c])
           bad == SelectIdx(m, 1, LAMBDA k : k > Len(fr) \/ ~fr[k].ok)
       IN tocancel' = [tocancel EXCEPT ![c] = [j \in 1..Len(bad) |-> m[bad[j]]]]
    /\ UNCHANGED <<servv, storv, op, pos, slot, resp, res, ctx, ncalls, sinv, sdead, cep, budgv, hist, flags>>

\* p.cache.Cancel(key, cmd, err) for the next failed/aborted identity -- a step of its own (the owner may be delayed
\* arbitrarily between DoMulti returning and this call)
DoCancel(c) ==
    /\ pc[c] = "cancel" /\ tocancel[c] # <<>> /\ Calm
    /\ GatedNow(c) => Quiet
    /\ LET id == Head(tocancel[c])
           p  == cep[c]
           f  == ent[p][id]
           hit == /\ StoreOpenP(p) /\ f # 0 /\ fl[f].st = "pending"
                  /\ (CancelByKey \/ (fl[f].owner = c /\ fl[f].gen = ncalls[c]))
           e2 == IF hit THEN [ent EXCEPT ![p][id] = 0] ELSE ent
           f2 == IF hit /\ ~BugCancelNoWake
                 THEN [fl EXCEPT ![f] = [@ EXCEPT !.st = "cancelled", !.by = c, !.bygen = ncalls[c]]] ELSE fl
       IN /\ ent' = e2 /\ fl' = GC(f2, e2, slot)
    /\ tocancel' = [tocancel EXCEPT ![c] = Tail(@)]
    /\ LET f == ent[cep[c]][Head(tocancel[c])]
           stale == /\ StoreOpenP(cep[c]) /\ f # 0 /\ fl[f].st = "pending" /\ CancelByKey
                    /\ ~(fl[f].owner = c /\ fl[f].gen = ncalls[c])
           waited == \E c2 \in Callers : \E i \in 1..Len(slot[c2]) : slot[c2][i].t = "wait" /\ slot[c2][i].f = f
           S == IF stale THEN (IF waited THEN {"stalecancel", "stalewaiter"} ELSE {"stalecancel"}) ELSE {}
       IN IF GatedNow(c) THEN LogF([a |-> "cancelgo", c |-> c], S)
          ELSE /\ UNCHANGED hist /\ flags' = IF AtomicCall THEN flags \cup S ELSE flags
    /\ UNCHANGED <<servv, invv, pc, op, pos, slot, resp, res, cerr, ctx, ncalls, sinv, sdead, cep, budgv>>

CancelDone(c) ==
    /\ pc[c] = "cancel" /\ tocancel[c] = <<>>
    /\ pc' = [pc EXCEPT ![c] = IF op[c].kind = "multi" THEN "waits" ELSE "asm"]
    /\ UNCHANGED <<servv, storv, op, pos, slot, resp, res, cerr, tocancel, ctx, ncalls, sinv, sdead, cep, budgv, hist, flags>>

\* ---- assembling the result
\* the refill walk of DoMultiCache / doCacheMGet: the k-th response goes to the k-th slot still unfilled.
\* BugRefill: slots of waiters are taken for unfilled ones (a walk that does not skip resolved waits)
Unfilled(sc) == IF BugRefill THEN SelectIdx(sc, 1, LAMBDA i : sc[i].t # "hit")
                ELSE SelectIdx(sc, 1, LAMBDA i : sc[i].t = "miss")
WaitRes(f, useCtx) ==
    IF useCtx THEN ErrR("ctx")
    ELSE IF fl[f].st = "pending" THEN ErrR("notyet")     \* doCacheMGet returned at an earlier failed entry
    ELSE IF fl[f].st = "done" THEN Val(fl[f].id, fl[f].ver, TRUE)
    ELSE IF fl[f].st = "cancelled" THEN ErrR("cancelled") ELSE ErrR("closed")
\* DoMulti after a context abort returns the context error for every command; after a connection error the units
\* answered before it keep their replies
MissRes(c, i, fr, unf) ==
    IF cerr[c] = "ctx" THEN ErrR("ctx")
    ELSE LET ks == {k \in 1..Len(unf) : unf[k] = i} IN
         IF ks = {} THEN ErrR("unfilled")
         ELSE LET k == CHOOSE x \in ks : TRUE IN
              IF k > Len(fr) THEN (IF cerr[c] = "conn" THEN ErrR("conn") ELSE ErrR("unfilled"))
              ELSE IF fr[k].ok THEN Val(fr[k].id, fr[k].ver, FALSE) ELSE ErrR("fail")
Assembled(c, useCtx) ==
    LET fr == Flat(resp[c])
        unf == Unfilled(slot[c])
        raw == [i \in 1..Len(slot[c]) |->
                  IF slot[c][i].t = "hit" THEN Val(op[c].ids[i], slot[c][i].ver, TRUE)
                  ELSE IF slot[c][i].t = "wait" /\ ~(BugRefill /\ \E k \in 1..Len(unf) : unf[k] = i /\ k <= Len(fr))
                       THEN WaitRes(slot[c][i].f, useCtx)
                  ELSE MissRes(c, i, fr, unf)]
    IN \* DoCache (one / mget) returns ONE result: any error makes the whole reply that error
       IF op[c].kind = "multi" THEN raw
       ELSE IF \E i \in 1..Len(raw) : raw[i].t = "err"
            THEN LET E == {i \in 1..Len(raw) : raw[i].t = "err" /\ raw[i].e # "notyet"}
                     i0 == CHOOSE i \in E : \A j \in E : i <= j
                 IN [i \in 1..Len(raw) |-> ErrR(raw[i0].e)]
            ELSE raw

\* doCacheMGet waits for its entries in map order and returns at the first one that failed: with a failed and a still
\* pending entry it may return early (not in the generation configs: the driver could not force the order)
MgetEarlyErr(c) == /\ ~AtomicCall /\ op[c].kind = "mget"
                   /\ \E i \in 1..Len(slot[c]) : slot[c][i].t = "wait" /\ fl[slot[c][i].f].st \in {"cancelled", "closed"}
\* entry.Wait(ctx) for every flight of another caller (or an own duplicate), then the refill walk
WaitAll(c) ==
    /\ pc[c] = "waits"
    /\ \E useCtx \in {FALSE, ctx[c]} :
          /\ \/ useCtx \/ MgetEarlyErr(c)
             \/ \A i \in 1..Len(slot[c]) : slot[c][i].t = "wait" => fl[slot[c][i].f].st # "pending"
          /\ (AtomicCall /\ ctx[c] => useCtx)
          /\ (~WaitsReady(c) => Calm)
          /\ res' = [res EXCEPT ![c] = Assembled(c, useCtx)]
    /\ pc' = [pc EXCEPT ![c] = "ret"]
    /\ UNCHANGED <<servv, storv, op, pos, slot, resp, cerr, tocancel, ctx, ncalls, sinv, sdead, cep, budgv, hist, flags>>

\* DoCache / doCacheMGet after a failed or aborted request: the error is returned without waiting
AsmErr(c) ==
    /\ pc[c] = "asm"
    /\ res' = [res EXCEPT ![c] = [i \in 1..Len(slot[c]) |-> ErrR(cerr[c])]]
    /\ pc' = [pc EXCEPT ![c] = "ret"]
    /\ UNCHANGED <<servv, storv, op, pos, slot, resp, cerr, tocancel, ctx, ncalls, sinv, sdead, cep, budgv, hist, flags>>

Return(c) ==
    /\ pc[c] = "ret"
    /\ pc' = [pc EXCEPT ![c] = "idle"] /\ ncalls' = [ncalls EXCEPT ![c] = @ + 1]
    /\ op' = [op EXCEPT ![c] = NoOp] /\ pos' = [pos EXCEPT ![c] = 0]
    /\ slot' = [slot EXCEPT ![c] = <<>>] /\ resp' = [resp EXCEPT ![c] = <<>>] /\ res' = [res EXCEPT ![c] = <<>>]
    /\ cerr' = [cerr EXCEPT ![c] = "none"] /\ ctx' = [ctx EXCEPT ![c] = FALSE]
    /\ fl' = GC(fl, ent, [slot EXCEPT ![c] = <<>>])
    /\ Log([a |-> "ret", c |-> c, gen |-> ncalls[c], res |-> res[c]])
    /\ UNCHANGED <<sver, tracked, sendq, wire, pst, cur, dead, live, lazy, ent, invv, tocancel, sinv, sdead, cep, budgv>>

\* ------------------------------------------------------------------------------------------------ server
UnitKeys(u) == {KeyOf(u.ids[j]) : j \in 1..Len(u.ids)}
\* Redis 6: the keys of the unit that are owed an invalidation, in the order the transaction touches them (PTTL of
\* every key first, in the order of the command).  An aborted transaction executes nothing and touches nothing.
EmbOf(u, fail, lz) ==
    IF fail THEN <<>>
    ELSE LET I == SelectIdx(u.ids, 1, LAMBDA i : KeyOf(u.ids[i]) \in lz /\ \A j \in 1..(i - 1) : KeyOf(u.ids[j]) # KeyOf(u.ids[i]))
         IN [n \in 1..Len(I) |-> KeyOf(u.ids[I[n]])]
ExecFrame(u, fail, lz) ==
    LET emb == EmbOf(u, fail, lz) IN
    RepFrame(u.c, u.gen, u.ids, [j \in 1..Len(u.ids) |-> sver[KeyOf(u.ids[j])]], ~fail, u.last, emb,
             IF emb = <<>> THEN <<>> ELSE [k \in Keys |-> IF k \in Range(emb) THEN sver[k] ELSE 0])
TrackKeys(u, fail) == IF fail \/ Mode = "bcast" THEN {} ELSE {KeyOf(u.ids[j]) : j \in 1..Len(u.ids)}

\* the server executes the next transaction of the connection and queues its reply
ServerExecF(fail) ==
    /\ ~AtomicCall /\ SrvCalm
    /\ sendq # <<>> /\ pst[cur] = "up" /\ live
    /\ (fail => nfail < MaxFail)
    /\ wire' = Append(wire, ExecFrame(Head(sendq), fail, lazy))
    /\ lazy' = lazy \ Range(EmbOf(Head(sendq), fail, lazy))
    /\ tracked' = tracked \cup TrackKeys(Head(sendq), fail)
    /\ nfail' = IF fail THEN nfail + 1 ELSE nfail
    /\ sendq' = Tail(sendq)
    /\ UNCHANGED <<sver, pst, cur, dead, live, storv, callv, nflush, nexp, nplain, hist, flags>>

\* another client writes k: version + 1; Redis queues the invalidation to the tracking connection at once
Write(k) ==
    /\ Quiet /\ SrvCalm
    /\ sver[k] < MaxVer
    /\ sver' = [sver EXCEPT ![k] = @ + 1]
    \* (a key that is owed a report -- lazy -- is reported now: Redis deletes the expired key before it writes)
    /\ IF pst[cur] = "up" /\ live /\ (Mode = "bcast" \/ k \in tracked \/ k \in lazy)
       THEN /\ wire' = Append(wire, InvFrame({k}, [kk \in Keys |-> IF kk = k THEN sver[k] + 1 ELSE 0]))
            /\ tracked' = tracked \ {k}
       ELSE UNCHANGED <<wire, tracked>>
    /\ lazy' = lazy \ {k}
    /\ Log([a |-> "write", k |-> k, ver |-> sver[k] + 1])
    /\ UNCHANGED <<sendq, pst, cur, dead, live, storv, callv, budgv>>

\* FLUSHALL (the keys are rewritten with new versions in the same atomic step): null invalidation to every
\* tracking connection, the tracking table is reset
Flush ==
    /\ Quiet /\ SrvCalm
    /\ nflush < MaxFlush /\ \A k \in Keys : sver[k] < MaxVer
    /\ sver' = [k \in Keys |-> sver[k] + 1]
    /\ IF pst[cur] = "up" /\ live THEN wire' = Append(wire, InvFrame(Keys, [k \in Keys |-> sver[k] + 1])) ELSE UNCHANGED wire
    /\ tracked' = {} /\ lazy' = {}
    /\ nflush' = nflush + 1
    /\ Log([a |-> "flush", vers |-> [k \in Keys |-> sver[k] + 1]])
    /\ UNCHANGED <<sendq, pst, cur, dead, live, storv, callv, nexp, nfail, nplain>>

\* OPTOUT only: an uncached read on the same connection is remembered too
PlainRead(k) ==
    /\ Quiet /\ Calm
    /\ Mode = "optout" /\ nplain < MaxPlain /\ pst[cur] = "up" /\ live /\ k \notin tracked /\ k \notin lazy
    /\ (AtomicCall => wire = <<>> /\ \A c \in Callers : pc[c] # "sent")     \* the driver must get the reply through
    /\ tracked' = tracked \cup {k} /\ nplain' = nplain + 1
    /\ Log([a |-> "plain", k |-> k])
    /\ UNCHANGED <<sver, sendq, wire, pst, cur, dead, live, lazy, storv, callv, nflush, nexp, nfail>>

\* Redis 6 (redis/redis#8935): a key remembered for the connection changes on the server without a push (it expired
\* and no expiry cycle has visited it yet).  The server reports it when somebody touches the key: a writer (Write:
\* an ordinary push) or the tracking connection itself -- then the push is written in the middle of the array reply
\* of the transaction (ExecFrame: emb) and the tail of the array follows as separate messages.  The new version
\* stands for "whatever the key reads as after the change".
LazyWrite(k) ==
    /\ Quiet /\ SrvCalm
    /\ Redis6 /\ sver[k] < MaxVer /\ pst[cur] = "up" /\ live /\ k \in tracked
    /\ sver' = [sver EXCEPT ![k] = @ + 1]
    /\ tracked' = tracked \ {k} /\ lazy' = lazy \cup {k}
    /\ Log([a |-> "lazywrite", k |-> k, ver |-> sver[k] + 1])
    /\ UNCHANGED <<sendq, wire, pst, cur, dead, live, storv, callv, budgv>>

\* ------------------------------------------------------------------------------------------------ reader
\* store.Delete(keys): completed entries of the keys go, pending ones stay
\* (every command cached under the key: lru.purge walks kc.cache, adapter.del walks flights[key])
HasPending(e0, p, k) == \E id2 \in Ids : KeyOf(id2) = k /\ e0[p][id2] # 0 /\ fl[e0[p][id2]].st = "pending"
HasDone(e0, p, k) == \E id2 \in Ids : KeyOf(id2) = k /\ e0[p][id2] # 0 /\ fl[e0[p][id2]].st = "done"
DeleteKeys(e0, p, keys) ==
    [e0 EXCEPT ![p] = [id \in Ids |-> IF KeyOf(id) \in keys /\ e0[p][id] # 0
                                         /\ (fl[e0[p][id]].st = "done" \/ BugPurgePending)
                                         /\ ~(BugPurgeStop /\ HasPending(e0, p, KeyOf(id))) THEN 0 ELSE e0[p][id]]]

\* store.Update for every identity of a successful unit: completes whatever flight is pending under the identity
\* (the reply of an abandoned request may therefore complete a newer flight)
RECURSIVE UpdateAll(_, _, _, _, _)
UpdateAll(fr, p, j, e0, f0) ==
    IF j > Len(fr.ids) THEN [e |-> e0, f |-> f0]
    ELSE LET id == fr.ids[j]
             f  == e0[p][id]
         IN IF f # 0 /\ f0[f].st = "pending" /\ (fr.ok \/ BugCacheFailed)
            THEN UpdateAll(fr, p, j + 1,
                           IF f0[f].dead THEN [e0 EXCEPT ![p][id] = 0] ELSE e0,
                           [f0 EXCEPT ![f] = [@ EXCEPT !.st = "done", !.ver = IF fr.ok THEN fr.vers[j] ELSE -1]])
            ELSE UpdateAll(fr, p, j + 1, e0, f0)

ReadFrame(n) ==
    LET fr == wire[n]
        rest == [j \in 1..(Len(wire) - 1) |-> IF j < n THEN wire[j] ELSE wire[j + 1]]
    IN
    /\ wire' = rest
    /\ IF fr.t = "inv"
       THEN /\ LET e2 == IF fr.keys = Keys /\ BugSkipFlush THEN ent ELSE DeleteKeys(ent, cur, fr.keys) IN
                 /\ ent' = e2 /\ fl' = GC(fl, e2, slot)
            /\ invv' = [invv EXCEPT ![cur] = [k \in Keys |-> IF k \in fr.keys THEN Max2(invv[cur][k], fr.w[k]) ELSE invv[cur][k]]]
            /\ LogF([a |-> "rinv", keys |-> fr.keys],
                    IF \E k \in fr.keys : HasPending(ent, cur, k) /\ HasDone(ent, cur, k) THEN {"mixedpurge"} ELSE {})
            /\ UNCHANGED <<pc, resp, cerr, tocancel>>
       ELSE \* Redis 6: the pushes embedded in the array are handled first (handlePush: store.Delete + callback, one per
            \* push), then the patched reply is processed like any other
            /\ LET e1 == IF BugSkipEmbedded THEN ent ELSE DeleteKeys(ent, cur, Range(fr.emb))
                    u == UpdateAll(fr, cur, 1, e1, fl) IN
                 /\ ent' = u.e /\ fl' = GC(u.f, u.e, slot)
            /\ invv' = IF fr.emb = <<>> THEN invv
                       ELSE [invv EXCEPT ![cur] = [k \in Keys |-> IF k \in Range(fr.emb) THEN Max2(invv[cur][k], fr.w[k])
                                                                   ELSE invv[cur][k]]]
            /\ LET late == fr.ok /\ \E j \in 1..Len(fr.ids) :
                                LET f == ent[cur][fr.ids[j]] IN
                                f # 0 /\ fl[f].st = "pending" /\ ~(fl[f].owner = fr.c /\ fl[f].gen = fr.gen)
                   embf == (IF \E k \in Range(fr.emb) : HasDone(ent, cur, k) THEN {"embpurge"} ELSE {})
                           \cup (IF Len(fr.emb) >= 2 THEN {"emb2"} ELSE {})
               IN LogF([a |-> "rrep", c |-> fr.c, ids |-> fr.ids, emb |-> fr.emb], (IF late THEN {"latereply"} ELSE {}) \cup embf)
            /\ IF pc[fr.c] = "sent" /\ ncalls[fr.c] = fr.gen
               THEN LET r2 == Append(resp[fr.c], [ids |-> fr.ids, vers |-> fr.vers, ok |-> fr.ok])
                        failed == SelectIdx(r2, 1, LAMBDA i : ~r2[i].ok)
                        fids == IF op[fr.c].kind = "mget" THEN fr.ids
                                ELSE [j \in 1..Len(failed) |-> r2[failed[j]].ids[1]]
                    IN /\ resp' = [resp EXCEPT ![fr.c] = r2]
                       /\ IF ~fr.last THEN UNCHANGED <<pc, cerr, tocancel>>
                          ELSE IF Len(failed) = 0
                          THEN /\ pc' = [pc EXCEPT ![fr.c] = "waits"] /\ UNCHANGED <<cerr, tocancel>>
                          ELSE /\ pc' = [pc EXCEPT ![fr.c] = "cancel"] /\ cerr' = [cerr EXCEPT ![fr.c] = "fail"]
                               /\ tocancel' = [tocancel EXCEPT ![fr.c] = fids]
               ELSE UNCHANGED <<pc, resp, cerr, tocancel>>

\* the reader goroutine takes the next frame off the wire (BugReorder: an invalidation overtakes the reply before it)
Reader ==
    /\ Quiet /\ Calm
    /\ wire # <<>> /\ pst[cur] = "up"
    /\ \E n \in {1} \cup (IF BugReorder /\ Len(wire) >= 2 /\ wire[1].t = "rep" /\ wire[2].t = "inv" THEN {2} ELSE {}) :
          ReadFrame(n)
    /\ UNCHANGED <<sver, tracked, sendq, pst, cur, dead, live, lazy, op, pos, slot, res, ctx, ncalls, sinv, sdead, cep, budgv>>

\* ------------------------------------------------------------------------------------------------ clock, connection
\* more than the client TTL passes
ExpireAll ==
    /\ Quiet /\ Calm
    /\ nexp < MaxExpire
    /\ \E p \in Pipes : \E id \in Ids : ent[p][id] # 0
    /\ LET e2 == [p \in Pipes |-> [id \in Ids |-> IF ent[p][id] # 0 /\ fl[ent[p][id]].st = "done" THEN 0 ELSE ent[p][id]]]
           f2 == [f \in 1..MaxF |-> IF fl[f].st = "pending" THEN [fl[f] EXCEPT !.dead = TRUE] ELSE fl[f]]
       IN ent' = e2 /\ fl' = GC(f2, e2, slot)
    /\ nexp' = nexp + 1
    /\ Log([a |-> "expire"])
    /\ UNCHANGED <<servv, invv, callv, nflush, nfail, nplain>>

\* the connection is cut: what was in flight is lost, the server forgets the connection
Cut ==
    /\ Quiet /\ Calm
    /\ pst[cur] = "up" /\ cur <= MaxCut
    /\ pst' = [pst EXCEPT ![cur] = "down"] /\ sendq' = <<>> /\ wire' = <<>> /\ tracked' = {} /\ live' = FALSE /\ lazy' = {}
    /\ Log([a |-> "cut"])
    /\ UNCHANGED <<sver, cur, dead, storv, callv, budgv>>

\* the next call after the mux dropped the wire dials a new connection (HELLO, CLIENT TRACKING ON ...)
Dial ==
    /\ ~AtomicCall /\ Calm
    /\ ~live /\ pst[cur] = "up"
    /\ live' = TRUE
    /\ UNCHANGED <<sver, tracked, sendq, wire, pst, cur, dead, lazy, storv, callv, budgv, hist, flags>>

\* _background after both loops ended: cache.Close(ErrDoCacheAborted) and onInvalidations(nil)
CloseStore(p) ==
    /\ pst[p] = "down" /\ cur > p /\ Calm
    /\ pst' = [pst EXCEPT ![p] = "closed"] /\ dead' = dead \cup {p}
    /\ IF BugNoClose THEN UNCHANGED <<ent, fl>>
       ELSE LET e2 == [ent EXCEPT ![p] = [id \in Ids |-> 0]]
                f2 == [f \in 1..MaxF |-> IF fl[f].st = "pending" /\ fl[f].p = p THEN [fl[f] EXCEPT !.st = "closed"] ELSE fl[f]]
            IN ent' = e2 /\ fl' = GC(f2, e2, slot)
    /\ Log([a |-> "close", p |-> p])
    /\ UNCHANGED <<sver, tracked, sendq, wire, cur, live, lazy, invv, callv, budgv>>

\* pipe._exit runs the close hook the mux installed on the wire: the mux drops the wire, the next call dials a new
\* one (with an empty store).  This happens before _background closes the store of the wire that broke.
MuxSwap ==
    /\ pst[cur] # "up" /\ cur <= MaxCut /\ Calm
    /\ cur' = cur + 1 /\ UNCHANGED live
    /\ UNCHANGED <<sver, tracked, sendq, wire, pst, dead, lazy, storv, callv, budgv, hist, flags>>

\* C09: requests in flight (sent, reply not yet processed) whose owner still waits for them
Outstanding(c, id) == /\ pc[c] = "sent" /\ pst[cep[c]] = "up"
                      /\ \/ \E j \in 1..Len(sendq) : sendq[j].c = c /\ sendq[j].gen = ncalls[c] /\ id \in Range(sendq[j].ids)
                         \/ \E j \in 1..Len(wire) : wire[j].t = "rep" /\ wire[j].c = c /\ wire[j].gen = ncalls[c]
                                                    /\ id \in Range(wire[j].ids)

\* ------------------------------------------------------------------------------------------------ atomic call start
\* generation configs: the call runs alone until it returned, blocked on another flight, or its transactions have
\* been executed by the server (whose replies the driver holds back).  fail: the first transaction is aborted.
StartA(c, o, fail) ==
    /\ AtomicCall /\ Quiet /\ CallBudget
    /\ pc[c] = "idle" /\ ncalls[c] < MaxCalls
    /\ Cardinality(FreeF(ent, slot)) >= Len(o.ids)
    /\ LET p  == cur
           r  == FlightsFrom(c, p, o.ids, 1, ent, fl, [slot EXCEPT ![c] = <<>>])
           u  == Units(c, o, r.s[c])
           \* Redis 6: what is still owed when unit j is executed (the earlier units of the call took theirs)
           lzAt(j) == lazy \ UNION {Range(EmbOf(u[i], fail /\ i = 1, lazy)) : i \in 1..(j - 1)}
           frs == [j \in 1..Len(u) |-> ExecFrame(u[j], fail /\ j = 1, lzAt(j))]
           trk == UNION {TrackKeys(u[j], fail /\ j = 1) : j \in 1..Len(u)}
       IN /\ ent' = r.e /\ slot' = r.s /\ fl' = GC(r.f, r.e, r.s)
          /\ (fail => Len(u) > 0 /\ nfail < MaxFail /\ pst[p] = "up")
          /\ nfail' = IF fail THEN nfail + 1 ELSE nfail
          /\ IF Len(u) = 0
             THEN /\ pc' = [pc EXCEPT ![c] = "waits"] /\ cerr' = [cerr EXCEPT ![c] = "none"]
                  /\ tocancel' = [tocancel EXCEPT ![c] = <<>>] /\ UNCHANGED <<wire, tracked, lazy>>
             ELSE IF pst[p] # "up"
             THEN /\ pc' = [pc EXCEPT ![c] = "cancel"] /\ cerr' = [cerr EXCEPT ![c] = "conn"]
                  /\ tocancel' = [tocancel EXCEPT ![c] = MissIds(o.ids, r.s[c])] /\ UNCHANGED <<wire, tracked, lazy>>
             ELSE /\ pc' = [pc EXCEPT ![c] = "sent"] /\ cerr' = [cerr EXCEPT ![c] = "none"]
                  /\ tocancel' = [tocancel EXCEPT ![c] = <<>>]
                  /\ wire' = wire \o frs /\ tracked' = (IF live THEN tracked ELSE {}) \cup trk
                  /\ lazy' = lazy \ UNION {Range(frs[j].emb) : j \in 1..Len(u)}
          /\ LogF([a |-> "call", c |-> c, gen |-> ncalls[c], kind |-> o.kind, ids |-> o.ids, fail |-> fail,
                   units |-> IF pst[p] = "up" THEN [j \in 1..Len(u) |-> u[j].ids] ELSE <<>>,
                   embs |-> IF pst[p] = "up" THEN [j \in 1..Len(u) |-> frs[j].emb] ELSE <<>>,
                   slots |-> [i \in 1..Len(r.s[c]) |-> r.s[c][i].t]],
                  (IF pst[p] = "up" /\ \E j \in 1..Len(u) : \E i \in 1..Len(u[j].ids) : \E c2 \in Callers \ {c} :
                                           Outstanding(c2, u[j].ids[i])
                   THEN {"doublereq"} ELSE {})
                  \* the call joins a flight that has been pending for longer than the client TTL
                  \cup (IF \E i \in 1..Len(r.s[c]) : r.s[c][i].t = "wait" /\ fl[r.s[c][i].f].dead THEN {"waitdead"} ELSE {}))
    /\ op' = [op EXCEPT ![c] = o] /\ pos' = [pos EXCEPT ![c] = Len(o.ids) + 1]
    /\ resp' = [resp EXCEPT ![c] = <<>>] /\ res' = [res EXCEPT ![c] = <<>>]
    /\ ctx' = [ctx EXCEPT ![c] = FALSE]
    /\ sinv' = [sinv EXCEPT ![c] = invv[cur]] /\ sdead' = [sdead EXCEPT ![c] = dead] /\ cep' = [cep EXCEPT ![c] = cur]
    /\ live' = (live \/ (pst[cur] = "up" /\ Len(Units(c, o, FlightsFrom(c, cur, o.ids, 1, ent, fl, [slot EXCEPT ![c] = <<>>]).s[c])) > 0))
    /\ UNCHANGED <<sver, sendq, pst, cur, dead, invv, ncalls, nflush, nexp, nplain>>

Next == \/ \E c \in Callers : \/ \E o \in Ops : Start(c, o) \/ \E fail \in BOOLEAN : StartA(c, o, fail)
                              \/ FlightAt(c) \/ Send(c) \/ CtxCancel(c) \/ Abort(c) \/ ConnErr(c)
                              \/ DoCancel(c) \/ CancelDone(c) \/ WaitAll(c) \/ AsmErr(c) \/ Return(c)
        \/ (\E fail \in BOOLEAN : ServerExecF(fail)) \/ Reader \/ ExpireAll \/ Cut \/ MuxSwap \/ Dial \/ Flush
        \/ \E p \in Pipes : CloseStore(p)
        \/ \E k \in Keys : Write(k) \/ PlainRead(k) \/ LazyWrite(k)

Spec == Init /\ [][Next]_vars

\* ------------------------------------------------------------------------------------------------ properties
\* C06: a value returned to a call that started after the reader had processed an invalidation of the key is not
\* older than that invalidation (in wire order the reply that produced it follows the invalidation); a call that
\* started after the nil invalidation of a closed connection gets nothing from that connection's store.
NoStaleHit == \A c \in Callers : pc[c] = "ret" =>
                 \A i \in 1..Len(res[c]) : res[c][i].t = "val" =>
                     /\ res[c][i].ver >= sinv[c][KeyOf(op[c].ids[i])]
                     /\ (res[c][i].hit => cep[c] \notin sdead[c])
\* C06/C11: every value is the reply to exactly the command at that position
Positional == \A c \in Callers : pc[c] = "ret" =>
                 /\ Len(res[c]) = Len(op[c].ids)
                 /\ \A i \in 1..Len(res[c]) : res[c][i].t = "val" => res[c][i].id = op[c].ids[i]
\* no value is lost in the assembly: a position is an error only if something failed
NoHole == \A c \in Callers : pc[c] = "ret" => \A i \in 1..Len(res[c]) : res[c][i].e # "unfilled"

\* the flight the caller opened for id has not been completed by a reply and not been cancelled by the caller itself
OwnFlightLive(c, id) == \E i \in 1..Len(slot[c]) : /\ slot[c][i].t = "miss" /\ op[c].ids[i] = id /\ slot[c][i].f # 0
                                                     /\ fl[slot[c][i].f].st \in {"pending", "cancelled"}
\* while a flight is pending and its owner has not abandoned it, no second request for the identity is in flight
SingleFlight == \A id \in Ids : \A c1, c2 \in Callers :
                   (c1 # c2 /\ Outstanding(c1, id) /\ OwnFlightLive(c1, id)) => ~(Outstanding(c2, id) /\ OwnFlightLive(c2, id))
\* the literal reading of C09: never two requests of callers that still wait for them.  The code does not guarantee
\* it: the late reply of an abandoned request completes the flight of a later caller (Update is keyed by identity),
\* after which an invalidation/expiry lets a third caller fetch again while the second request is still in flight.
SingleRequest == \A id \in Ids : \A c1, c2 \in Callers : (c1 # c2 /\ Outstanding(c1, id)) => ~Outstanding(c2, id)
FailedFlightNotCached == \A p \in Pipes : \A id \in Ids :
                            (ent[p][id] # 0 /\ fl[ent[p][id]].st = "done") => fl[ent[p][id]].ver >= 0
\* a waiter returns the outcome of the flight it joined: its value, or the error of THAT request (cancelled by the
\* flight's owner, or the store was closed), or its own context error
WaitersGetFlightOutcome ==
    \A c \in Callers : pc[c] = "ret" /\ op[c].kind = "multi" =>
        \A i \in 1..Len(slot[c]) : slot[c][i].t = "wait" =>
            LET f == slot[c][i].f IN
            \/ res[c][i].t = "err" /\ res[c][i].e = "ctx" /\ ctx[c]
            \/ fl[f].st = "done" /\ res[c][i] = Val(fl[f].id, fl[f].ver, TRUE)
            \/ fl[f].st = "closed" /\ res[c][i].t = "err"
            \/ fl[f].st = "cancelled" /\ res[c][i].t = "err" /\ fl[f].by = fl[f].owner /\ fl[f].bygen = fl[f].gen
\* no flight is cancelled by somebody else's call (state form of the above, also covers DoCache waiters)
CancelledByOwner == \A f \in 1..MaxF : fl[f].st = "cancelled" => (fl[f].by = fl[f].owner /\ fl[f].bygen = fl[f].gen)
\* no lost wake-up: a flight somebody waits for is still in the store (so that Update/Cancel/Close will find it)
NoLostWaiter == \A c \in Callers : \A i \in 1..Len(slot[c]) :
                   (slot[c][i].t = "wait" /\ fl[slot[c][i].f].st = "pending")
                       => ent[fl[slot[c][i].f].p][fl[slot[c][i].f].id] = slot[c][i].f
\* every pending flight in a store has an owner that is still inside the call that opened it
PendingHasOwner == \A p \in Pipes : \A id \in Ids : (ent[p][id] # 0 /\ fl[ent[p][id]].st = "pending") =>
                      LET o == fl[ent[p][id]].owner IN
                      /\ ncalls[o] = fl[ent[p][id]].gen
                      /\ pc[o] \in {"flights", "sent", "cancel"}

TypeOK == /\ \A k \in Keys : sver[k] \in 0..MaxVer
          /\ tracked \subseteq Keys /\ lazy \subseteq Keys /\ lazy \cap tracked = {} /\ cur \in Pipes
          /\ \A c \in Callers : pc[c] \in {"idle", "flights", "sent", "cancel", "waits", "asm", "ret"}
          /\ \A p \in Pipes : \A id \in Ids :
                /\ ent[p][id] \in 0..MaxF
                /\ ent[p][id] # 0 => (fl[ent[p][id]].id = id /\ fl[ent[p][id]].p = p /\ fl[ent[p][id]].st \in {"pending", "done"})

\* generation configs that only need one behaviour per reachable situation: hist is not part of the state identity
GenView == <<servv, storv, callv, budgv, flags>>
=============================================================================
