------------------------------ MODULE CachePurge ------------------------------
(* C06, the scripted product "an invalidation meets a key whose entries are in mixed states": one key (ka) cached
   under pn different commands, all completed except the commands in ppend, whose request is in flight when the
   reader goroutine processes the invalidation (of ka by a write, or of everything by a flush); a second key (kb)
   is cached as a bystander.  store.Delete must remove every completed entry of ka, keep the pending ones (their
   waiters are woken by the reply), and leave kb alone unless everything is flushed.  The next call reads every
   command of ka and kb: the specification predicts a miss (a new request) for every purged entry, a wait for the
   pending ones, a hit for the bystander.

   The populating and the reading call are made in batches of three commands.
   pn = 3 keeps the per-key table of the lru store (a Go map) in its small, array-like representation, pn = 10 in
   the hashed one: the order in which lru.purge meets the pending entry differs (and is random in both).

   Wire order makes the schedule: the invalidation is queued first, then the request of the pending commands is
   executed by the server (their reply follows the invalidation on the wire and carries the new version), then the
   reader takes the invalidation.  Each case is one behaviour of CacheProto (AtomicCall = TRUE); TLC prints it with
   the outcome predicted at every step and harness/cmd/cachedrv replays it on the real client. *)
EXTENDS CacheProto, Json

VARIABLES ph, pi, pn, ppend, pinv
pvars == <<ph, pi, pn, ppend, pinv>>

Letters == <<"g", "h", "i", "j", "k", "l", "m", "n", "o", "p">>
KA == "ka"
KB == "kb"
UsedL == {Letters[i] : i \in 1..pn}
\* the identities (ka, c) for the commands c of S, in letter order
IdSeq(S) == LET I == SelectIdx(Letters, 1, LAMBDA i : Letters[i] \in S)
            IN [n \in 1..Len(I) |-> <<KA, Letters[I[n]]>>]
Bystander == << <<KB, GetCmd>> >>
\* batches of at most three commands (the calls of one caller follow each other)
ChunkLen == 3
NChunks(s) == (Len(s) + ChunkLen - 1) \div ChunkLen
Chunk(s, n) == [j \in 1..(IF n * ChunkLen <= Len(s) THEN ChunkLen ELSE Len(s) - (n - 1) * ChunkLen) |-> s[(n - 1) * ChunkLen + j]]
PopIds == IdSeq(UsedL \ ppend) \o Bystander
ReadIds == IdSeq(UsedL) \o Bystander

PurgeInit == /\ Init
             /\ ph = 0 /\ pi = 1
             /\ pn \in {3, Len(Letters)}
             \* the first, a middle and the last command, or two of them
             /\ ppend \in {{Letters[1]}, {Letters[(pn + 1) \div 2]}, {Letters[pn]}, {Letters[1], Letters[pn]}}
             /\ pinv \in {"write", "flush"}

Skip == UNCHANGED vars
Internal == \E c \in Callers : Abort(c) \/ ConnErr(c) \/ DoCancel(c) \/ CancelDone(c) \/ WaitAll(c) \/ AsmErr(c) \/ Return(c)
MultiOp(ids) == [kind |-> "multi", ids |-> ids]

\* 0, 1 both keys are written once (the values embed their key); 2 populate (chunk pi), 3 drain, back to 2 for the next
\* chunk; 4 the write / flush (its push is queued, not read); 5 the request of the pending commands; 6 the reader takes
\* the invalidation; 7 the reading calls (chunk pi), 8 drain, back to 7; 9 done
PhaseNext ==
    IF ph = 0 THEN Write(KA) /\ ph' = 1 /\ UNCHANGED pi
    ELSE IF ph = 1 THEN Write(KB) /\ ph' = 2 /\ UNCHANGED pi
    ELSE IF ph = 2 THEN StartA(3, MultiOp(Chunk(PopIds, pi)), FALSE) /\ ph' = 3 /\ UNCHANGED pi
    ELSE IF ph \in {3, 8} /\ wire # <<>> THEN Reader /\ UNCHANGED <<ph, pi>>
    ELSE IF ph = 3 THEN Skip /\ (IF pi < NChunks(PopIds) THEN ph' = 2 /\ pi' = pi + 1 ELSE ph' = 4 /\ pi' = 1)
    ELSE IF ph = 4 THEN (IF pinv = "write" THEN Write(KA) ELSE Flush) /\ ph' = 5 /\ UNCHANGED pi
    ELSE IF ph = 5 THEN /\ StartA(2, IF Cardinality(ppend) = 1 THEN [kind |-> "one", ids |-> IdSeq(ppend)] ELSE MultiOp(IdSeq(ppend)), FALSE)
                        /\ ph' = 6 /\ UNCHANGED pi
    ELSE IF ph = 6 THEN Reader /\ ph' = 7 /\ UNCHANGED pi
    ELSE IF ph = 7 THEN StartA(1, MultiOp(Chunk(ReadIds, pi)), FALSE) /\ ph' = 8 /\ UNCHANGED pi
    ELSE IF ph = 8 THEN Skip /\ (IF pi < NChunks(ReadIds) THEN ph' = 7 /\ pi' = pi + 1 ELSE ph' = 9 /\ pi' = 1)
    ELSE FALSE

PurgeNext == IF InternalEnabled THEN Internal /\ UNCHANGED pvars
             ELSE PhaseNext /\ UNCHANGED <<pn, ppend, pinv>>
PurgeSpec == PurgeInit /\ [][PurgeNext]_<<vars, pvars>>

PurgePrint == (ph = 9 /\ ~InternalEnabled) =>
                 PrintT(<<"CASE", ToJson([steps |-> hist, flags |-> flags, pn |-> pn, pend |-> ppend, inv |-> pinv])>>)
=============================================================================
