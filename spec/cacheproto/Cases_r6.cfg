SPECIFICATION R6Spec
CONSTANTS
  Keys = {"ka", "kb"}
  Cmds = {"g", "h", "i"}
  Callers = {1, 2, 3, 4}
  OpKinds = {"one", "multi", "mget"}
  MinMulti = 1
  MaxBatch = 2
  MaxCalls = 3
  TotalCalls = 100
  MaxVer = 3
  Mode = "optin"
  MaxFlush = 0
  MaxExpire = 0
  MaxFail = 1
  MaxCut = 0
  MaxPlain = 0
  Cancelable = {}
  MaxF = 16
  AtomicCall = TRUE
  GateCancel = {}
  Reduce = "full"
  CancelByKey = TRUE
  BugPurgePending = FALSE
  BugSkipFlush = FALSE
  BugReorder = FALSE
  BugCacheFailed = FALSE
  BugCancelNoWake = FALSE
  BugRefill = FALSE
  BugNoClose = FALSE
  Redis6 = TRUE
  BugPurgeStop = FALSE
  BugPendingExpires = FALSE
  BugSkipEmbedded = FALSE
  RaceFlight = FALSE
INVARIANTS R6Print TypeOK NoStaleHit Positional NoHole NoLostWaiter
CHECK_DEADLOCK FALSE
