SPECIFICATION Spec
CONSTANTS
  Keys = {"a"}
  Cmds = {"g"}
  Callers = {1, 2, 3}
  OpKinds = {"one"}
  MinMulti = 2
  MaxBatch = 2
  MaxCalls = 1
  TotalCalls = 3
  MaxVer = 1
  Mode = "optin"
  MaxFlush = 1
  MaxExpire = 0
  MaxFail = 1
  MaxCut = 0
  MaxPlain = 0
  Cancelable = {1}
  MaxF = 4
  AtomicCall = FALSE
  GateCancel = {}
  Reduce = "full"
  CancelByKey = FALSE
  BugPurgePending = FALSE
  BugSkipFlush = FALSE
  BugReorder = FALSE
  BugCacheFailed = TRUE
  BugCancelNoWake = FALSE
  BugRefill = FALSE
  BugNoClose = FALSE
  Redis6 = FALSE
  BugPurgeStop = FALSE
  BugPendingExpires = FALSE
  BugSkipEmbedded = FALSE
  RaceFlight = FALSE
INVARIANTS FailedFlightNotCached
CHECK_DEADLOCK FALSE
