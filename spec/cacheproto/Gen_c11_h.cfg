SPECIFICATION Spec
CONSTANTS
  Keys = {"ka", "kb"}
  Cmds = {"g", "h"}
  Callers = {1, 2}
  OpKinds = {"multi"}
  MinMulti = 2
  MaxBatch = 2
  MaxCalls = 2
  TotalCalls = 3
  MaxVer = 1
  Mode = "optin"
  MaxFlush = 0
  MaxExpire = 0
  MaxFail = 0
  MaxCut = 0
  MaxPlain = 0
  Cancelable = {}
  MaxF = 12
  AtomicCall = TRUE
  GateCancel = {}
  Reduce = "full"
  CancelByKey = TRUE
  BugPurgePending = FALSE
  BugSkipFlush = FALSE
  BugReorder = FALSE
  BugCacheFailed = FALSE
  BugCancelNoWake = FALSE
  BugRefill = FALSE
  BugNoClose = FALSE
  Redis6 = FALSE
  BugPurgeStop = FALSE
  BugPendingExpires = FALSE
  BugSkipEmbedded = FALSE
  RaceFlight = FALSE
INVARIANTS GenPrint
CHECK_DEADLOCK FALSE
CONSTANT WantFlags = {}
