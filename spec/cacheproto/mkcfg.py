#!/usr/bin/env python3
"""Regenerates the CacheProto configs of this directory (kept so that the bounds are in one place)."""
base = '''SPECIFICATION Spec
CONSTANTS
  Keys = {%(keys)s}
  Cmds = {%(cmds)s}
  Callers = {%(callers)s}
  OpKinds = {%(kinds)s}
  MinMulti = %(minmulti)s
  MaxBatch = %(maxbatch)s
  MaxCalls = %(maxcalls)s
  TotalCalls = %(total)s
  MaxVer = %(maxver)s
  Mode = "%(mode)s"
  MaxFlush = %(flush)s
  MaxExpire = %(expire)s
  MaxFail = %(fail)s
  MaxCut = %(cut)s
  MaxPlain = %(plain)s
  Cancelable = {%(cancelable)s}
  MaxF = %(maxf)s
  AtomicCall = %(atomic)s
  GateCancel = {%(gate)s}
  Reduce = %(reduce)s
  CancelByKey = %(bykey)s
  BugPurgePending = %(BugPurgePending)s
  BugSkipFlush = %(BugSkipFlush)s
  BugReorder = %(BugReorder)s
  BugCacheFailed = %(BugCacheFailed)s
  BugCancelNoWake = %(BugCancelNoWake)s
  BugRefill = %(BugRefill)s
  BugNoClose = %(BugNoClose)s
  Redis6 = %(redis6)s
  BugPurgeStop = %(BugPurgeStop)s
  BugPendingExpires = %(BugPendingExpires)s
  BugSkipEmbedded = %(BugSkipEmbedded)s
  RaceFlight = FALSE
INVARIANTS %(invs)s
CHECK_DEADLOCK FALSE
%(tail)s'''
ALL = 'TypeOK NoStaleHit Positional NoHole SingleFlight FailedFlightNotCached WaitersGetFlightOutcome CancelledByOwner NoLostWaiter PendingHasOwner'
# what holds for the code as it is (CancelByKey = TRUE): everything except the three invariants broken by the stale Cancel
ASIS = 'TypeOK NoStaleHit Positional NoHole FailedFlightNotCached NoLostWaiter PendingHasOwner'
d0 = dict(keys='"a"', cmds='"g"', callers='1, 2', kinds='"one"', minmulti=2, maxbatch=2, maxcalls=2, total=3, maxver=2, mode='optin',
          flush=1, expire=0, fail=0, cut=0, plain=0, cancelable='', maxf=4, atomic='FALSE', gate='', reduce='"full"', bykey='FALSE', invs=ALL,
          BugPurgePending='FALSE', BugSkipFlush='FALSE', BugReorder='FALSE', BugCacheFailed='FALSE', BugCancelNoWake='FALSE',
          BugRefill='FALSE', BugNoClose='FALSE', redis6='FALSE', BugPurgeStop='FALSE', BugPendingExpires='FALSE',
          BugSkipEmbedded='FALSE', tail='')


def mk(name, **kw):
    d = dict(d0)
    d.update(kw)
    open(name, 'w').write(base % d)


C09 = dict(callers='1, 2, 3', maxcalls=1, total=3, maxver=1, flush=1, fail=1, cancelable='1')
C11 = dict(keys='"a", "b"', kinds='"multi", "mget"', minmulti=2, maxcalls=1, total=2, maxver=1, flush=0, fail=1, cancelable='1')
CUT = dict(callers='1, 2', maxcalls=2, total=3, maxver=1, flush=0, cut=1, maxf=4)
# ---- quick, exhaustive
mk('MC_quick_c06.cfg')                                        # 2 readers x <=3 calls, 1 key, writes <=2, flush
mk('MC_quick_c06_bcast.cfg', mode='bcast', flush=0)
mk('MC_quick_c06_optout.cfg', mode='optout', plain=1, flush=0, total=2)
mk('MC_quick_c06_cut.cfg', **CUT)
mk('MC_quick_c06_exp.cfg', expire=1, flush=0, maxver=1, cancelable='1')
mk('MC_quick_c09.cfg', **C09)                                 # 3 readers x 1 call, abort, ctx of reader 1
mk('MC_quick_c09_asis.cfg', **dict(C09, bykey='TRUE', invs=ASIS))
mk('MC_quick_c11.cfg', **dict(C11, fail=0, cancelable=''))
mk('MC_quick_c11_asis.cfg', **dict(C11, bykey='TRUE', invs=ASIS))
# ---- negative configs (non-vacuity): each must violate the named invariant
mk('MC_neg_stalecancel.cfg', **dict(C09, bykey='TRUE', invs='CancelledByOwner'))
mk('MC_neg_stalecancel_sf.cfg', **dict(C09, bykey='TRUE', invs='SingleFlight'))
mk('MC_neg_stalecancel_w.cfg', **dict(C09, kinds='"multi"', minmulti=1, maxbatch=1, bykey='TRUE', invs='WaitersGetFlightOutcome'))
mk('MC_obs_latereply.cfg', **dict(C09, invs='SingleRequest'))
mk('MC_neg_purge.cfg', **dict(C09, BugPurgePending='TRUE', invs='NoLostWaiter'))
mk('MC_neg_flush.cfg', BugSkipFlush='TRUE', invs='NoStaleHit')
mk('MC_neg_reorder.cfg', BugReorder='TRUE', invs='NoStaleHit')
mk('MC_neg_cachefailed.cfg', **dict(C09, BugCacheFailed='TRUE', invs='FailedFlightNotCached'))
mk('MC_neg_cancelnowake.cfg', **dict(C09, BugCancelNoWake='TRUE', invs='NoLostWaiter'))
mk('MC_neg_refill.cfg', **dict(C11, BugRefill='TRUE', invs='Positional'))
# ---- round 2 (strengthening after seeded changes)
# several cacheable commands per key: an invalidation meets a pending entry next to completed ones of the same key
CMDS = dict(cmds='"g", "h"', kinds='"one"', callers='1, 2', maxcalls=2, total=3, maxver=1, flush=0, maxf=6)
mk('MC_quick_c06_cmds.cfg', **CMDS)
mk('MC_neg_purgestop.cfg', **dict(CMDS, BugPurgeStop='TRUE', invs='NoStaleHit'))
# Redis 6: invalidations embedded in array replies
R6 = dict(cmds='"g", "h"', kinds='"one"', keys='"a"', callers='1, 2', maxcalls=2, total=3, maxver=2, flush=0, maxf=4, redis6='TRUE')
mk('MC_quick_c06_r6.cfg', **R6)
mk('MC_neg_skipemb.cfg', **dict(R6, BugSkipEmbedded='TRUE', invs='NoStaleHit'))
# a flight that stays pending for longer than the client TTL is still joined
C09X = dict(C09, expire=1, flush=0, fail=0, cancelable='')
mk('MC_quick_c09_exp.cfg', **C09X)
mk('MC_neg_pendingexpires.cfg', **dict(C09X, BugPendingExpires='TRUE', invs='NoLostWaiter'))
mk('MC_neg_pendingexpires_sf.cfg', **dict(C09X, BugPendingExpires='TRUE', invs='SingleFlight'))
# ---- thorough
mk('MC_thorough_c06.cfg', keys='"a", "b"', maxver=2, total=3, flush=1, expire=1, cancelable='1', fail=1)
mk('MC_thorough_c09.cfg', **dict(C09, total=4, maxcalls=2, maxver=2))
mk('MC_thorough_c11.cfg', **dict(C11, maxbatch=3, cmds='"g", "h"', maxf=6))
mk('MC_thorough_cut.cfg', **dict(CUT, keys='"a", "b"', kinds='"one", "multi"', cancelable='1', fail=1))

mk('MC_thorough_r6.cfg', **dict(R6, kinds='"one", "mget"', keys='"a", "b"', maxver=1, maxf=6))

# ---- generation configs (module CacheGen): behaviours for the driver, the code as it is (CancelByKey = TRUE)
GEN = dict(atomic='TRUE', bykey='TRUE', invs='GenPrint', keys='"ka", "kb"', tail='CONSTANT WantFlags = {}\n')
for mode in ('optin', 'optout', 'bcast'):
    mk('Gen_%s.cfg' % mode, **dict(GEN, mode=mode, kinds='"one", "multi", "mget"', minmulti=1, maxbatch=2, callers='1, 2, 3', maxcalls=2,
                                  total=4, maxver=3, flush=(0 if mode == 'bcast' else 1), expire=0, fail=1, cancelable='1, 2',
                                  plain=(1 if mode == 'optout' else 0), maxf=8))
mk('Gen_cut.cfg', **dict(GEN, kinds='"one", "multi"', minmulti=1, maxbatch=2, callers='1, 2, 3', maxcalls=2, total=4, maxver=2, flush=0, cut=1,
                         fail=0, cancelable='1', maxf=8))
mk('Gen_expire.cfg', **dict(GEN, kinds='"one", "multi"', minmulti=1, maxbatch=2, callers='1, 2', maxcalls=2, total=3, maxver=2, flush=0, expire=1,
                            cancelable='1', maxf=8))
mk('Gen_c11_h.cfg', **dict(GEN, cmds='"g", "h"', kinds='"multi"', minmulti=2, maxbatch=2, callers='1, 2', maxcalls=2, total=3,
                           maxver=1, flush=0, expire=0, fail=0, cancelable='', maxf=12))
# the stale Cancel of DESIGN.md section 7 #16 and the late reply: exhaustive, only the behaviours that show them
ST = dict(GEN, keys='"ka"', kinds='"one", "multi"', minmulti=1, maxbatch=1, callers='1, 2, 3', maxcalls=1, total=3, maxver=1, flush=0, fail=0,
          cancelable='1', gate='1', maxf=6)
mk('Gen_stale.cfg', **dict(ST, tail='CONSTANT WantFlags = {"stalewaiter"}\nVIEW GenView\n'))
mk('Gen_late.cfg', **dict(ST, gate='', maxcalls=2, tail='CONSTANT WantFlags = {"doublereq"}\nVIEW GenView\n'))

# round 2: behaviours that show the named situation (flags)
mk('Gen_cmds.cfg', **dict(GEN, keys='"ka"', cmds='"g", "h", "i"', kinds='"one", "multi"', minmulti=1, maxbatch=3, callers='1, 2, 3', maxcalls=2,
                          total=4, maxver=2, flush=1, fail=0, cancelable='', maxf=10, tail='CONSTANT WantFlags = {"mixedpurge"}\n'))
mk('Gen_pendexp.cfg', **dict(GEN, keys='"ka"', kinds='"one", "multi"', minmulti=1, maxbatch=1, callers='1, 2, 3', maxcalls=2, total=4, maxver=1,
                             flush=0, expire=1, fail=0, cancelable='', maxf=8, tail='CONSTANT WantFlags = {"waitdead"}\n'))
R6G = dict(GEN, cmds='"g", "h"', kinds='"one", "multi", "mget"', minmulti=1, maxbatch=2, callers='1, 2, 3', maxcalls=2, total=4, maxver=3,
           flush=0, fail=1, cancelable='', maxf=10, redis6='TRUE')
mk('Gen_r6.cfg', **dict(R6G, tail='CONSTANT WantFlags = {"embpurge"}\n'))

# C06, the scripted product of CachePurge.tla: an invalidation meets a key with completed and pending entries
mk('Cases_purge.cfg', **dict(GEN, mode='optin', keys='"ka", "kb"', cmds='"g", "h", "i", "j", "k", "l", "m", "n", "o", "p"', kinds='"one", "multi"', minmulti=1,
                             maxbatch=2, callers='1, 2, 3', maxcalls=6, total=100, maxver=3, flush=1, expire=0, fail=0, cancelable='',
                             maxf=20, invs='PurgePrint TypeOK NoStaleHit Positional NoHole NoLostWaiter', tail=''))
t = open('Cases_purge.cfg').read().replace('SPECIFICATION Spec', 'SPECIFICATION PurgeSpec')
open('Cases_purge.cfg', 'w').write(t)

# C06 / C01 against a Redis 6 server, the scripted product of CacheR6.tla
mk('Cases_r6.cfg', **dict(GEN, mode='optin', keys='"ka", "kb"', cmds='"g", "h", "i"', kinds='"one", "multi", "mget"', minmulti=1, maxbatch=2,
                          callers='1, 2, 3, 4', maxcalls=3, total=100, maxver=3, flush=0, expire=0, fail=1, cancelable='', maxf=16, redis6='TRUE',
                          invs='R6Print TypeOK NoStaleHit Positional NoHole NoLostWaiter', tail=''))
t = open('Cases_r6.cfg').read().replace('SPECIFICATION Spec', 'SPECIFICATION R6Spec')
open('Cases_r6.cfg', 'w').write(t)

# C06 / C09: the look-up / registration race of the stores (CacheRace.tla)
mk('Cases_race.cfg', **dict(GEN, mode='optin', keys='"ka", "kb"', cmds='"g"', kinds='"one", "multi", "mget"', minmulti=1, maxbatch=2,
                            callers='1, 2, 3', maxcalls=2, total=100, maxver=3, flush=1, expire=0, fail=0, cancelable='', maxf=8,
                            invs='RacePrint TypeOK NoStaleHit Positional NoHole NoLostWaiter SingleFlight', tail=''))
t = open('Cases_race.cfg').read().replace('SPECIFICATION Spec', 'SPECIFICATION RaceSpec')
open('Cases_race.cfg', 'w').write(t)

# ---- C11: the exhaustive product (module CacheCases)
def mkcases(name, maxbatch, mode='optin'):
    mk(name, **dict(GEN, mode=mode, keys='"ka", "kb", "kc"', kinds='"multi", "mget"', minmulti=1, maxbatch=maxbatch, callers='1, 2, 3, 4', maxcalls=3,
                    total=100, maxver=1, flush=0, expire=1, fail=1, cancelable='', maxf=14, invs='CasePrint', tail=''))
    t = open(name).read().replace('SPECIFICATION Spec', 'SPECIFICATION CaseSpec')
    open(name, 'w').write(t)
mkcases('Cases_c11_quick.cfg', 3)
mkcases('Cases_c11.cfg', 4)
mkcases('Cases_c11_bcast.cfg', 3, 'bcast')
