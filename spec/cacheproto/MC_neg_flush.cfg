SPECIFICATION Spec
CONSTANTS
  Keys = {"a"}
  Cmds = {"g"}
  Callers = {1, 2}
  OpKinds = {"one"}
  MinMulti = 2
  MaxBatch = 2
  MaxCalls = 2
  TotalCalls = 3
  MaxVer = 2
  Mode = "optin"
  MaxFlush = 1
  MaxExpire = 0
  MaxFail = 0
  MaxCut = 0
  MaxPlain = 0
  Cancelable = {}
  MaxF = 4
  AtomicCall = FALSE
  GateCancel = {}
  Reduce = "full"
  CancelByKey = FALSE
  BugPurgePending = FALSE
  BugSkipFlush = TRUE
  BugReorder = FALSE
  BugCacheFailed = FALSE
  BugCancelNoWake = FALSE
  BugRefill = FALSE
  BugNoClose = FALSE
  Redis6 = FALSE
  BugPurgeStop = FALSE
  BugPendingExpires = FALSE
  BugSkipEmbedded = FALSE
  RaceFlight = FALSE
INVARIANTS NoStaleHit
CHECK_DEADLOCK FALSE
