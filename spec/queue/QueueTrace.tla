---------------------------- MODULE QueueTrace ----------------------------
(* Validates ndjson traces recorded by harness/cmd/queuedrv from the real ring / flowBuffer against QueueObs.
   Events are logged by the goroutine that performed the step, after the step, under one tracer mutex.  Every line
   is one QueueObs action; there are no silent steps, so validation is linear.  RESET starts a new run; END asserts
   that nothing was lost. *)
EXTENDS QueueObs, Json, IOUtils
VARIABLE l
TraceLog == ndJsonDeserialize(IOEnv.VERIF_TRACE)
Ev == TraceLog[l]
Is(e) == l <= Len(TraceLog) /\ TraceLog[l].ev = e
Step == l' = l + 1
TraceInit == OInit /\ l = 1 /\ TLCSet(1, 1)
Reset == /\ Is("RESET") /\ Step
         /\ st' = [c \in Cells |-> "none"] /\ owner' = [c \in Cells |-> 0] /\ tok' = [c \in Cells |-> 0]
         /\ wseq' = <<>> /\ rcount' = 0 /\ cur' = 0 /\ recvd' = {} /\ delivered' = {}
TraceNext == \/ Reset
             \/ Is("PutCall") /\ Step /\ PutCall(Ev.p, Ev.cell)
             \/ Is("PutRet") /\ Step /\ PutRet(Ev.p, Ev.cell, Ev.tok)
             \/ Is("PutErr") /\ Step /\ PutErr(Ev.p, Ev.cell)
             \/ Is("WTake") /\ Step /\ WTake(Ev.cell, Ev.tok)
             \/ Is("RTake") /\ Step /\ RTake(Ev.cell, Ev.tok)
             \/ Is("Deliver") /\ Step /\ Deliver(Ev.cell)
             \/ Is("Recv") /\ Step /\ Recv(Ev.p, Ev.cell, Ev.got)
             \/ Is("Fin") /\ Step /\ Fin
             \/ Is("END") /\ Step /\ Complete /\ UNCHANGED ovars
TraceSpec == TraceInit /\ [][TraceNext]_<<ovars, l>>
HighWater == TLCSet(1, IF l > TLCGet(1) THEN l ELSE TLCGet(1))
TraceAccepted == \/ TLCGet(1) = Len(TraceLog) + 1
                 \/ PrintT(<<"REJECTED-AT", TLCGet(1), TraceLog[TLCGet(1)]>>) /\ FALSE
=============================================================================
