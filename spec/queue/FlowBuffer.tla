---------------------------- MODULE FlowBuffer ----------------------------
(* flowbuffer.go of redis/rueidis: the channel-based alternative to the ring (RUEIDIS_QUEUE_TYPE=flowbuffer).
   Three buffered channels of capacity N carry N tokens (each token owns one unbuffered reply channel):
   f (free) -> PutOne/PutMulti -> w (to write) -> NextWriteCmd/WaitForWrite -> r (to read) -> NextResultCh ...
   FinishResult -> f.  Property C02.  Each channel operation is one action; a goroutine holding a token between a
   receive and the following send is visible as a program counter.  Hook names in comments.

   BugNoReturn: FinishResult does not give the token back (queue starves after N commands);
   BugWrongOrder: NextWriteCmd pushes to the front of r instead of the back. *)
EXTENDS Integers, Sequences, FiniteSets, TLC

CONSTANTS P, N, MaxPuts, Cancelable, BugNoReturn, BugWrongOrder

VARIABLES f, w, r,               \* channel contents: f a sequence of tokens; w, r sequences of <<token, cmd>>
          pc, tokn, nput, ctxDone, \* putters
          wpc, wcell,            \* writer: "next" | "moveN" | "wait" | "moveW" ; the cell in its hands
          rpc, rcell,            \* reader: "idle" | "send" | "fin"
          wire, rd, got, sent    \* written commands; replies read; results per putter; order of the sends into w
vars == <<f, w, r, pc, tokn, nput, ctxDone, wpc, wcell, rpc, rcell, wire, rd, got, sent>>
NOCELL == <<0, <<0, 0>>>>

Init == /\ f = [i \in 1..N |-> i] /\ w = <<>> /\ r = <<>>
        /\ pc = [p \in P |-> "idle"] /\ tokn = [p \in P |-> 0] /\ nput = [p \in P |-> 0]
        /\ ctxDone = [p \in P |-> FALSE]
        /\ wpc = "next" /\ wcell = NOCELL /\ rpc = "idle" /\ rcell = NOCELL
        /\ wire = <<>> /\ rd = 0 /\ got = [p \in P |-> <<>>] /\ sent = <<>>

\* ---- putters: select { case cmd := <-b.f ... ; case <-ctx.Done(): return err }
Begin(p) == /\ pc[p] = "idle" /\ nput[p] < MaxPuts
            /\ pc' = [pc EXCEPT ![p] = "select"] /\ ctxDone' = [ctxDone EXCEPT ![p] = FALSE]
            /\ UNCHANGED <<f, w, r, tokn, nput, wpc, wcell, rpc, rcell, wire, rd, got, sent>>
RecvF(p) == /\ pc[p] = "select" /\ Len(f) > 0                              \* hook: fb.put.got
            /\ tokn' = [tokn EXCEPT ![p] = Head(f)] /\ f' = Tail(f)
            /\ pc' = [pc EXCEPT ![p] = "sendW"]
            /\ UNCHANGED <<w, r, nput, ctxDone, wpc, wcell, rpc, rcell, wire, rd, got, sent>>
CtxCancel(p) == /\ p \in Cancelable /\ pc[p] = "select" /\ ~ctxDone[p]
                /\ ctxDone' = [ctxDone EXCEPT ![p] = TRUE]
                /\ UNCHANGED <<f, w, r, pc, tokn, nput, wpc, wcell, rpc, rcell, wire, rd, got, sent>>
\* the put is abandoned with ctx.Err(); nothing was enqueued (counts as a finished put)
CtxAbort(p) == /\ pc[p] = "select" /\ ctxDone[p]
               /\ pc' = [pc EXCEPT ![p] = "idle"] /\ nput' = [nput EXCEPT ![p] = @ + 1]
               /\ got' = [got EXCEPT ![p] = Append(@, <<p, nput[p] + 1>>)]   \* placeholder: the call is accounted for
               /\ UNCHANGED <<f, w, r, tokn, ctxDone, wpc, wcell, rpc, rcell, wire, rd, sent>>
SendW(p) == /\ pc[p] = "sendW" /\ Len(w) < N                               \* hook: fb.put.sent
            /\ w' = Append(w, <<tokn[p], <<p, nput[p] + 1>>>>)
            /\ sent' = Append(sent, <<p, nput[p] + 1>>)
            /\ nput' = [nput EXCEPT ![p] = @ + 1]
            /\ pc' = [pc EXCEPT ![p] = "recv"]
            /\ UNCHANGED <<f, r, tokn, ctxDone, wpc, wcell, rpc, rcell, wire, rd, got>>

\* ---- writer
WNextTake == /\ wpc = "next" /\ Len(w) > 0                                 \* NextWriteCmd: case cmd := <-b.w
             /\ wcell' = Head(w) /\ w' = Tail(w) /\ wire' = Append(wire, Head(w)[2]) /\ wpc' = "moveN"
             /\ UNCHANGED <<f, r, pc, tokn, nput, ctxDone, rpc, rcell, rd, got, sent>>
WNextNone == /\ wpc = "next" /\ Len(w) = 0 /\ wpc' = "wait"                \* default:
             /\ UNCHANGED <<f, w, r, pc, tokn, nput, ctxDone, wcell, rpc, rcell, wire, rd, got, sent>>
WWaitTake == /\ wpc = "wait" /\ Len(w) > 0                                 \* WaitForWrite: cmd := <-b.w
             /\ wcell' = Head(w) /\ w' = Tail(w) /\ wire' = Append(wire, Head(w)[2]) /\ wpc' = "moveW"
             /\ UNCHANGED <<f, r, pc, tokn, nput, ctxDone, rpc, rcell, rd, got, sent>>
WSendR == /\ wpc \in {"moveN", "moveW"} /\ Len(r) < N                      \* b.r <- cmd   hooks: fb.nw.move / fb.ww.move
          /\ r' = IF BugWrongOrder THEN <<wcell>> \o r ELSE Append(r, wcell)
          /\ wcell' = NOCELL /\ wpc' = "next"
          /\ UNCHANGED <<f, w, pc, tokn, nput, ctxDone, rpc, rcell, wire, rd, got, sent>>

\* ---- reader: a reply for the next written command exists when rd < Len(wire)
RNext == /\ rpc = "idle" /\ rd < Len(wire) /\ Len(r) > 0                   \* NextResultCh: case cmd := <-b.r   hook: fb.nr.take
         /\ rcell' = Head(r) /\ r' = Tail(r) /\ rpc' = "send"
         /\ UNCHANGED <<f, w, pc, tokn, nput, ctxDone, wpc, wcell, wire, rd, got, sent>>
\* ch <- result on the token's unbuffered channel: rendezvous with the putter receiving on that token
RSend == /\ rpc = "send"
         /\ \E p \in P : /\ pc[p] = "recv" /\ tokn[p] = rcell[1]
                         /\ got' = [got EXCEPT ![p] = Append(@, wire[rd + 1])]
                         /\ pc' = [pc EXCEPT ![p] = "idle"]
         /\ rd' = rd + 1 /\ rpc' = "fin"
         /\ UNCHANGED <<f, w, r, tokn, nput, ctxDone, wpc, wcell, rcell, wire, sent>>
RFin == /\ rpc = "fin" /\ Len(f) < N                                        \* FinishResult: b.f <- queuedCmd{ch}   hook: fb.fin
        /\ f' = IF BugNoReturn THEN f ELSE Append(f, rcell[1])
        /\ rcell' = NOCELL /\ rpc' = "idle"
        /\ UNCHANGED <<w, r, pc, tokn, nput, ctxDone, wpc, wcell, wire, rd, got, sent>>

Next == \/ \E p \in P : Begin(p) \/ RecvF(p) \/ CtxCancel(p) \/ CtxAbort(p) \/ SendW(p)
        \/ WNextTake \/ WNextNone \/ WWaitTake \/ WSendR \/ RNext \/ RSend \/ RFin
Spec == Init /\ [][Next]_vars
FairSpec == Spec /\ WF_vars(\E p \in P : Begin(p) \/ RecvF(p) \/ CtxAbort(p) \/ SendW(p))
                 /\ WF_vars(WNextTake \/ WNextNone \/ WWaitTake \/ WSendR) /\ WF_vars(RNext \/ RSend \/ RFin)
                 /\ \A p \in P : WF_vars(RecvF(p) \/ CtxAbort(p) \/ SendW(p))

\* ---- properties (C02)
OwnReplies == \A p \in P : \A i \in 1..Len(got[p]) : got[p][i] = <<p, i>>
NoDup == \A i, j \in 1..Len(wire) : i # j => wire[i] # wire[j]
IsPrefix(a, b) == Len(a) <= Len(b) /\ \A i \in 1..Len(a) : a[i] = b[i]
Fifo == IsPrefix(wire, sent)
\* the reader meets the cells in the order they were written
ReaderOrder == rpc \in {"send", "fin"} /\ rcell # NOCELL /\ rpc = "send" => rcell[2] = wire[rd + 1]
InHands == Cardinality({p \in P : pc[p] = "sendW"}) + (IF wcell = NOCELL THEN 0 ELSE 1) + (IF rcell = NOCELL THEN 0 ELSE 1)
\* the N tokens are conserved, hence no send into w, r or f can ever block
TokenConservation == BugNoReturn \/ Len(f) + Len(w) + Len(r) + InHands = N
Done == \A p \in P : nput[p] = MaxPuts /\ pc[p] = "idle"
NoDeadlock == Done \/ ENABLED Next
Terminates == <>[]Done
\* a putter whose context ended while it waits for a free token returns (C05 for the flow buffer)
CtxHonoured == \A p \in P : (pc[p] = "select" /\ ctxDone[p]) ~> pc[p] # "select"
=============================================================================
