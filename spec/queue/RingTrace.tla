----------------------------- MODULE RingTrace -----------------------------
(* Trace validation of the real ring (ring.go) against Ring.tla.  The hook events are emitted by the instrumented
   code while the slot mutex is held (ring.put.wait/woken/fill, ring.nw.*, ring.ww.*, ring.nr.*, ring.fin), except
   ring.put.bcast (just before c2.Broadcast) ; the driver adds Deliver (the reader's send on the slot channel
   completed).  Each event carries the slot index and the slot's mark, which must equal the specification's.
   Not observable and therefore silent: the atomic ticket (Ticket) and the Signal after FinishResult's unlock
   (RSignal).  TLC infers them; RESET separates runs. *)
EXTENDS Ring, Json, IOUtils
VARIABLES l, started   \* started: puts whose PutCall was logged (only they can have taken a ticket)
TraceLog == ndJsonDeserialize(IOEnv.VERIF_TRACE)
Ev == TraceLog[l]
Is(e) == l <= Len(TraceLog) /\ TraceLog[l].ev = e
Step == l' = l + 1
Mark == mark'[Ev.slot] = Ev.mark
TraceInit == Init /\ l = 1 /\ started = {} /\ TLCSet(1, 1)

Reset == /\ Is("RESET") /\ Step
         /\ write' = 0 /\ read1' = 0 /\ read2' = 0
         /\ mark' = [s \in Slots |-> 0] /\ slept' = [s \in Slots |-> FALSE] /\ cmd' = [s \in Slots |-> <<0,0>>]
         /\ lk' = [s \in Slots |-> 0] /\ c1q' = [s \in Slots |-> {}] /\ c2q' = [s \in Slots |-> FALSE]
         /\ pc' = [p \in P |-> "idle"] /\ tk' = [p \in P |-> 0] /\ nput' = [p \in P |-> 0]
         /\ wpc' = "next" /\ wslot' = 0 /\ rpc' = "idle" /\ rslot' = 0 /\ rsig' = <<>>
         /\ wire' = <<>> /\ rd' = 0 /\ got' = [p \in P |-> <<>>] /\ tickets' = [s \in Slots |-> <<>>]
         /\ started' = {}

\* a putter's check of its slot: fresh (lock + check) or after a wake-up; the event tells which branch was taken
PutStep(p, waits) == /\ tk[p] = Ev.slot
                     /\ (waits <=> mark[Ev.slot] # 0)
                     /\ (PLockChk(p) \/ PChk(p))
TraceNext ==
    \/ Reset
    \/ Is("PutCall") /\ Step /\ started' = started \cup {Ev.p} /\ UNCHANGED vars
    \/ Is("ring.put.wait") /\ Step /\ UNCHANGED started /\ PutStep(Ev.p, TRUE) /\ Mark
    \/ Is("ring.put.fill") /\ Step /\ UNCHANGED started /\ PutStep(Ev.p, FALSE) /\ Mark
    \/ Is("ring.put.woken") /\ Step /\ UNCHANGED started /\ tk[Ev.p] = Ev.slot /\ PWoken(Ev.p) /\ Mark
    \/ Is("ring.put.bcast") /\ Step /\ UNCHANGED started /\ tk[Ev.p] = Ev.slot /\ PBcast(Ev.p)
    \/ Is("ring.nw.take") /\ Step /\ UNCHANGED started /\ (read1 + 1) % N = Ev.slot /\ mark[Ev.slot] = 1 /\ WNext /\ Mark
    \/ Is("ring.nw.none") /\ Step /\ UNCHANGED started /\ (read1 + 1) % N = Ev.slot /\ mark[Ev.slot] # 1 /\ WNext /\ Mark
    \/ Is("ring.ww.sleep") /\ Step /\ UNCHANGED started /\ mark[Ev.slot] # 1
          /\ (\/ (read1 + 1) % N = Ev.slot /\ wpc = "wait" /\ WWait
              \/ wslot = Ev.slot /\ WWaitChk)
          /\ Mark
    \/ Is("ring.ww.take") /\ Step /\ UNCHANGED started /\ mark[Ev.slot] = 1
          /\ (\/ (read1 + 1) % N = Ev.slot /\ wpc = "wait" /\ WWait
              \/ wslot = Ev.slot /\ WWaitChk)
          /\ Mark
    \/ Is("ring.ww.woken") /\ Step /\ UNCHANGED started /\ wslot = Ev.slot /\ WWoken /\ Mark
    \/ Is("ring.nr.take") /\ Step /\ UNCHANGED started /\ (read2 + 1) % N = Ev.slot /\ mark[Ev.slot] = 2 /\ RNext /\ Mark
    \/ Is("ring.nr.none") /\ Step /\ UNCHANGED started /\ (read2 + 1) % N = Ev.slot /\ mark[Ev.slot] # 2 /\ RNext /\ Mark
    \/ Is("Deliver") /\ Step /\ UNCHANGED started /\ RSend
    \/ Is("ring.fin") /\ Step /\ UNCHANGED started /\ RFin
    \/ (UNCHANGED <<l, started>> /\ (RSignal \/ \E p \in started : Ticket(p)))

TraceSpec == TraceInit /\ [][TraceNext]_<<vars, l, started>>
HighWater == TLCSet(1, IF l > TLCGet(1) THEN l ELSE TLCGet(1))
TraceAccepted == \/ TLCGet(1) = Len(TraceLog) + 1
                 \/ PrintT(<<"REJECTED-AT", TLCGet(1), TraceLog[TLCGet(1)]>>) /\ FALSE
=============================================================================
