SPECIFICATION FairSpec
CONSTANTS
  P = {1, 2, 3}
  N = 2
  MaxPuts = 2
  BugNoSignal = FALSE
  BugNoBcast = FALSE
  BugNoRestore = FALSE
INVARIANTS OwnReplies
PROPERTIES Terminates
CHECK_DEADLOCK FALSE
