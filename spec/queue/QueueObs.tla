----------------------------- MODULE QueueObs -----------------------------
(* The pipeline queue as its three users see it (C02): callers put cells (one command or one batch) and get a reply
   channel ("ticket"); the single writer takes cells; the single reader takes them again in the same order, delivers
   the result on the cell's ticket and finishes.  Observable specification used to validate traces recorded from the
   real ring and flowBuffer (QueueTrace.tla): every cell handed to the writer exactly once, the reader meets the
   cells in wire order, the result completes exactly the enqueuer's ticket, nothing put is lost.
   Ring.tla and FlowBuffer.tla state the same facts on their detailed state (OwnReplies, NoDup, Fifo, ReaderOrder). *)
EXTENDS Integers, Sequences, FiniteSets, TLC

CONSTANTS Cells, Procs
VARIABLES st,      \* st[c] \in {"none","called","ret","err"}: the put of cell c as seen by its caller
          owner,   \* owner[c]: the process that put c
          tok,     \* tok[c]: ticket the queue associated with c (0 unknown yet)
          wseq,    \* cells in the order the writer took them
          rcount,  \* how many of them the reader has taken
          cur,     \* cell in the reader's hands (0 none)
          recvd,   \* cells whose result the enqueuer received
          delivered \* cells whose result the reader has sent on the ticket
ovars == <<st, owner, tok, wseq, rcount, cur, recvd, delivered>>

OInit == /\ st = [c \in Cells |-> "none"] /\ owner = [c \in Cells |-> 0] /\ tok = [c \in Cells |-> 0]
         /\ wseq = <<>> /\ rcount = 0 /\ cur = 0 /\ recvd = {} /\ delivered = {}

InSeq(c, s) == \E i \in 1..Len(s) : s[i] = c

PutCall(p, c) == /\ st[c] = "none" /\ st' = [st EXCEPT ![c] = "called"] /\ owner' = [owner EXCEPT ![c] = p]
                 /\ UNCHANGED <<tok, wseq, rcount, cur, recvd, delivered>>
\* the put returned ticket t (the writer may already have taken the cell)
PutRet(p, c, t) == /\ st[c] = "called" /\ owner[c] = p /\ t # 0
                   /\ (tok[c] # 0 => tok[c] = t)
                   /\ st' = [st EXCEPT ![c] = "ret"] /\ tok' = [tok EXCEPT ![c] = t]
                   /\ UNCHANGED <<owner, wseq, rcount, cur, recvd, delivered>>
\* the put was refused (context done while waiting for room): the cell must never reach the writer
PutErr(p, c) == /\ st[c] = "called" /\ owner[c] = p /\ ~InSeq(c, wseq)
                /\ st' = [st EXCEPT ![c] = "err"]
                /\ UNCHANGED <<owner, tok, wseq, rcount, cur, recvd, delivered>>
\* handed to the writer: exactly once, only something that was put
WTake(c, t) == /\ st[c] \in {"called", "ret"} /\ ~InSeq(c, wseq) /\ t # 0
               /\ (tok[c] # 0 => tok[c] = t)
               /\ tok' = [tok EXCEPT ![c] = t] /\ wseq' = Append(wseq, c)
               /\ UNCHANGED <<st, owner, rcount, cur, recvd, delivered>>
\* the reader meets the cells in wire order, with the same ticket
RTake(c, t) == /\ cur = 0 /\ rcount < Len(wseq) /\ wseq[rcount + 1] = c /\ tok[c] = t
               /\ cur' = c /\ rcount' = rcount + 1
               /\ UNCHANGED <<st, owner, tok, wseq, recvd, delivered>>
Deliver(c) == /\ cur = c /\ c \notin delivered /\ delivered' = delivered \cup {c}
              /\ UNCHANGED <<st, owner, tok, wseq, rcount, cur, recvd>>
\* the enqueuer receives the result of its own cell, once, after the reader took the cell
Recv(p, c, got) == /\ owner[c] = p /\ got = c /\ c \notin recvd
                   /\ \E i \in 1..rcount : wseq[i] = c
                   /\ recvd' = recvd \cup {c}
                   /\ UNCHANGED <<st, owner, tok, wseq, rcount, cur, delivered>>
Fin == /\ cur # 0 /\ cur \in delivered /\ cur' = 0 /\ UNCHANGED <<st, owner, tok, wseq, rcount, recvd, delivered>>
\* end of a run: nothing that was put is lost
Complete == /\ \A c \in Cells : st[c] = "ret" => (InSeq(c, wseq) /\ c \in recvd)
            /\ \A c \in Cells : st[c] # "called"
            /\ rcount = Len(wseq) /\ cur = 0

NoDupW == \A i, j \in 1..Len(wseq) : i # j => wseq[i] # wseq[j]
TicketsDistinctWhileOpen ==
    \A c, d \in Cells : (c # d /\ tok[c] # 0 /\ tok[c] = tok[d] /\ InSeq(c, wseq) /\ InSeq(d, wseq)) =>
        \* two cells share a ticket (a slot's channel is reused) only after the result of the earlier one was sent
        (c \in delivered \/ d \in delivered)
=============================================================================
