SPECIFICATION Spec
CONSTANTS
  P = {1, 2, 3, 4}
  N = 2
  MaxPuts = 2
  BugNoSignal = FALSE
  BugNoBcast = FALSE
  BugNoRestore = FALSE
INVARIANTS OwnReplies NoDup Fifo NoDeadlock
PROPERTIES ReaderNeverEmpty
CHECK_DEADLOCK FALSE
