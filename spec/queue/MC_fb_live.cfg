SPECIFICATION FairSpec
CONSTANTS
  P = {1, 2, 3}
  N = 2
  MaxPuts = 2
  Cancelable = {3}
  BugNoReturn = FALSE
  BugWrongOrder = FALSE
PROPERTIES Terminates CtxHonoured
CHECK_DEADLOCK FALSE
