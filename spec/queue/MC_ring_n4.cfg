SPECIFICATION Spec
CONSTANTS
  P = {1, 2, 3, 4, 5}
  N = 4
  MaxPuts = 1
  BugNoSignal = FALSE
  BugNoBcast = FALSE
  BugNoRestore = FALSE
INVARIANTS OwnReplies NoDup Fifo NoDeadlock
PROPERTIES ReaderNeverEmpty
CHECK_DEADLOCK FALSE
