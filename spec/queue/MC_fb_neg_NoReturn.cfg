SPECIFICATION Spec
CONSTANTS
  P = {1, 2, 3}
  N = 2
  MaxPuts = 2
  Cancelable = {3}
  BugNoReturn = TRUE
  BugWrongOrder = FALSE
INVARIANTS OwnReplies NoDup Fifo ReaderOrder TokenConservation NoDeadlock
CHECK_DEADLOCK FALSE
