SPECIFICATION Spec
CONSTANTS
  P = {1, 2, 3, 4}
  N = 2
  MaxPuts = 2
  Cancelable = {3}
  BugNoReturn = FALSE
  BugWrongOrder = FALSE
INVARIANTS OwnReplies NoDup Fifo ReaderOrder TokenConservation NoDeadlock
CHECK_DEADLOCK FALSE
