SPECIFICATION TraceSpec
CONSTANTS
  Cells = {1,2,3,4,5,6,7,8,9,10,11,12,13,14,15,16,17,18,19,20,21,22,23,24,25,26,27,28,29,30,31,32,33,34,35,36,37,38,39,40}
  Procs = {1,2,3,4,5,6,7,8}
INVARIANTS NoDupW TicketsDistinctWhileOpen
CONSTRAINT HighWater
POSTCONDITION TraceAccepted
CHECK_DEADLOCK FALSE
