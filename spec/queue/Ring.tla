------------------------------- MODULE Ring -------------------------------
(* ring.go of redis/rueidis: the lock-per-slot ring that hands commands from callers (PutOne / PutMulti) to the
   single writer goroutine (NextWriteCmd / WaitForWrite) and their reply slots to the single reader goroutine
   (NextResultCh ... FinishResult).  Property C02.

   One action per critical section.  sync.Cond.Wait is "enqueue on the notify list, then unlock" in one step; the
   signaller that does not hold the lock (PutOne's c2.Broadcast) is a separate step, so the interleavings in which a
   wake-up could be lost are explored.  The reader keeps the slot mutex from NextResultCh to FinishResult, exactly
   as the code does.  Hook names of the instrumented code are given in the comments.

   BugNoSignal / BugNoBcast / BugNoRestore re-introduce plausible defects (negative configs). *)
EXTENDS Integers, Sequences, FiniteSets, TLC

CONSTANTS P,          \* putter goroutines (positive integers)
          N,          \* number of slots (2^k in the code)
          MaxPuts,    \* puts per putter
          BugNoSignal,   \* FinishResult without c1.Signal
          BugNoBcast,    \* PutOne without the c2.Broadcast when the writer sleeps
          BugNoRestore   \* NextWriteCmd not restoring read1 when nothing is queued

W == -1   \* lock holder ids of the writer and the reader
R == -2
VARIABLES write, read1, read2,             \* tickets / cursors (the code masks them; here the slot is ticket % N)
          mark, slept, cmd, lk, c1q, c2q,  \* per slot: mark 0 free / 1 filled / 2 written, writer-sleeps flag, command,
                                           \* mutex holder, putters parked on c1, writer parked on c2
          pc, tk, nput,                    \* per putter: program counter, slot of its ticket, puts done
          wpc, wslot, rpc, rslot,          \* writer and reader
          rsig,                            \* slots whose c1.Signal (after FinishResult's unlock) is still to happen
          wire, rd, got, tickets           \* commands written in order; replies read; results per putter;
                                           \* tickets[s]: history of the commands filled into slot s
vars == <<write, read1, read2, mark, slept, cmd, lk, c1q, c2q, pc, tk, nput, wpc, wslot, rpc, rslot, rsig, wire, rd, got, tickets>>
Slots == 0..(N-1)

Init == /\ write = 0 /\ read1 = 0 /\ read2 = 0
        /\ mark = [s \in Slots |-> 0] /\ slept = [s \in Slots |-> FALSE] /\ cmd = [s \in Slots |-> <<0,0>>]
        /\ lk = [s \in Slots |-> 0] /\ c1q = [s \in Slots |-> {}] /\ c2q = [s \in Slots |-> FALSE]
        /\ pc = [p \in P |-> "idle"] /\ tk = [p \in P |-> 0] /\ nput = [p \in P |-> 0]
        /\ wpc = "next" /\ wslot = 0 /\ rpc = "idle" /\ rslot = 0 /\ rsig = <<>>
        /\ wire = <<>> /\ rd = 0 /\ got = [p \in P |-> <<>>] /\ tickets = [s \in Slots |-> <<>>]

\* ---- putters: PutOne / PutMulti
\* n := &r.store[atomic.AddUint32(&r.write, 1) & r.mask]                                    (not observable)
Ticket(p) == /\ pc[p] = "idle" /\ nput[p] < MaxPuts
             /\ write' = write + 1 /\ tk' = [tk EXCEPT ![p] = (write + 1) % N]
             /\ pc' = [pc EXCEPT ![p] = "lock"]
             /\ UNCHANGED <<read1, read2, mark, slept, cmd, lk, c1q, c2q, nput, wpc, wslot, rpc, rslot, rsig, wire, rd, got, tickets>>
\* n.c1.L.Lock(); for n.mark != 0 { n.c1.Wait() }; fill; unlock        hooks: ring.put.wait / ring.put.fill
Chk(p, s) == IF mark[s] # 0 THEN
                 /\ c1q' = [c1q EXCEPT ![s] = @ \cup {p}] /\ lk' = [lk EXCEPT ![s] = 0]
                 /\ pc' = [pc EXCEPT ![p] = "parked"]
                 /\ UNCHANGED <<mark, cmd, nput, tickets>>
              ELSE
                 /\ mark' = [mark EXCEPT ![s] = 1] /\ cmd' = [cmd EXCEPT ![s] = <<p, nput[p] + 1>>]
                 /\ nput' = [nput EXCEPT ![p] = @ + 1]
                 /\ tickets' = [tickets EXCEPT ![s] = Append(@, <<p, nput[p] + 1>>)]
                 /\ lk' = [lk EXCEPT ![s] = 0]
                 /\ pc' = [pc EXCEPT ![p] = IF slept[s] /\ ~BugNoBcast THEN "bcast" ELSE "recv"]
                 /\ UNCHANGED c1q
PLockChk(p) == /\ pc[p] = "lock" /\ lk[tk[p]] = 0
               /\ Chk(p, tk[p])
               /\ UNCHANGED <<write, read1, read2, slept, c2q, tk, wpc, wslot, rpc, rslot, rsig, wire, rd, got>>
\* woken: the mutex is re-acquired                                       hook: ring.put.woken
PWoken(p) == /\ pc[p] = "parked" /\ p \notin c1q[tk[p]] /\ lk[tk[p]] = 0
             /\ lk' = [lk EXCEPT ![tk[p]] = p] /\ pc' = [pc EXCEPT ![p] = "chk"]
             /\ UNCHANGED <<write, read1, read2, mark, slept, cmd, c1q, c2q, tk, nput, wpc, wslot, rpc, rslot, rsig, wire, rd, got, tickets>>
PChk(p) == /\ pc[p] = "chk" /\ Chk(p, tk[p])
           /\ UNCHANGED <<write, read1, read2, slept, c2q, tk, wpc, wslot, rpc, rslot, rsig, wire, rd, got>>
\* if s { n.c2.Broadcast() }  -- after the unlock, without the lock        hook: ring.put.bcast
PBcast(p) == /\ pc[p] = "bcast"
             /\ c2q' = [c2q EXCEPT ![tk[p]] = FALSE] /\ pc' = [pc EXCEPT ![p] = "recv"]
             /\ UNCHANGED <<write, read1, read2, mark, slept, cmd, lk, c1q, tk, nput, wpc, wslot, rpc, rslot, rsig, wire, rd, got, tickets>>

\* ---- writer: NextWriteCmd, then WaitForWrite when nothing is queued
\* hooks: ring.nw.take / ring.nw.none
WNext == /\ wpc = "next" /\ lk[(read1 + 1) % N] = 0
         /\ LET s == (read1 + 1) % N IN
            IF mark[s] = 1 THEN
               /\ mark' = [mark EXCEPT ![s] = 2] /\ wire' = Append(wire, cmd[s])
               /\ read1' = read1 + 1 /\ wpc' = "next"
            ELSE /\ read1' = IF BugNoRestore THEN read1 + 1 ELSE read1
                 /\ wpc' = "wait" /\ UNCHANGED <<mark, wire>>
         /\ UNCHANGED <<write, read2, slept, cmd, lk, c1q, c2q, pc, tk, nput, wslot, rpc, rslot, rsig, rd, got, tickets>>
\* WaitForWrite: lock; for n.mark != 1 { n.slept = true; n.c2.Wait(); n.slept = false }; take; unlock
\* hooks: ring.ww.sleep / ring.ww.take
WChk(s) == IF mark[s] = 1 THEN
              /\ mark' = [mark EXCEPT ![s] = 2] /\ wire' = Append(wire, cmd[s])
              /\ slept' = [slept EXCEPT ![s] = FALSE]
              /\ lk' = [lk EXCEPT ![s] = 0] /\ wpc' = "next" /\ UNCHANGED c2q
           ELSE /\ slept' = [slept EXCEPT ![s] = TRUE] /\ c2q' = [c2q EXCEPT ![s] = TRUE]
                /\ lk' = [lk EXCEPT ![s] = 0] /\ wpc' = "wparked" /\ UNCHANGED <<mark, wire>>
WWait == /\ wpc = "wait" /\ lk[(read1 + 1) % N] = 0
         /\ read1' = read1 + 1 /\ wslot' = (read1 + 1) % N
         /\ WChk((read1 + 1) % N)
         /\ UNCHANGED <<write, read2, cmd, c1q, pc, tk, nput, rpc, rslot, rsig, rd, got, tickets>>
\* hook: ring.ww.woken
WWoken == /\ wpc = "wparked" /\ ~c2q[wslot] /\ lk[wslot] = 0
          /\ lk' = [lk EXCEPT ![wslot] = W] /\ wpc' = "waitchk"
          /\ UNCHANGED <<write, read1, read2, mark, slept, cmd, c1q, c2q, pc, tk, nput, wslot, rpc, rslot, rsig, wire, rd, got, tickets>>
WWaitChk == /\ wpc = "waitchk" /\ WChk(wslot)
            /\ UNCHANGED <<write, read1, read2, cmd, c1q, pc, tk, nput, wslot, rpc, rslot, rsig, rd, got, tickets>>

\* ---- reader: a reply for the next written command exists when rd < Len(wire)
\* NextResultCh: the slot mutex is taken and KEPT until FinishResult      hooks: ring.nr.take / ring.nr.none
RNext == /\ rpc = "idle" /\ rsig = <<>> /\ rd < Len(wire) /\ lk[(read2 + 1) % N] = 0
         /\ LET s == (read2 + 1) % N IN
            /\ lk' = [lk EXCEPT ![s] = R] /\ rslot' = s
            /\ IF mark[s] = 2 THEN /\ mark' = [mark EXCEPT ![s] = 0] /\ read2' = read2 + 1 /\ rpc' = "send"
                              ELSE /\ rpc' = "fin" /\ UNCHANGED <<mark, read2>>
         /\ UNCHANGED <<write, read1, slept, cmd, c1q, c2q, pc, tk, nput, wpc, wslot, rsig, wire, rd, got, tickets>>
\* ch <- result: rendezvous on the slot's unbuffered channel with whoever receives on it
RSend == /\ rpc = "send"
         /\ \E p \in P : /\ pc[p] = "recv" /\ tk[p] = rslot
                         /\ got' = [got EXCEPT ![p] = Append(@, wire[rd + 1])]
                         /\ pc' = [pc EXCEPT ![p] = "idle"]
         /\ rd' = rd + 1 /\ rpc' = "fin"
         /\ UNCHANGED <<write, read1, read2, mark, slept, cmd, lk, c1q, c2q, tk, nput, wpc, wslot, rslot, rsig, wire, tickets>>
\* FinishResult: r.resc.L.Unlock() ...                                        hook: ring.fin
RFin == /\ rpc = "fin"
        /\ lk' = [lk EXCEPT ![rslot] = 0]
        /\ rsig' = IF BugNoSignal THEN rsig ELSE Append(rsig, rslot)
        /\ rpc' = "idle"
        /\ UNCHANGED <<write, read1, read2, mark, slept, cmd, c1q, c2q, pc, tk, nput, wpc, wslot, rslot, wire, rd, got, tickets>>
\* ... r.resc.Signal(): wakes one putter waiting for that slot, if any -- after the unlock, without the lock
\* (the reader does this before anything else, so at most one is outstanding)          not observable
RSignal == /\ rsig # <<>>
           /\ LET s == Head(rsig) IN
                 \/ c1q[s] = {} /\ UNCHANGED c1q
                 \/ \E q \in c1q[s] : c1q' = [c1q EXCEPT ![s] = @ \ {q}]
           /\ rsig' = Tail(rsig)
           /\ UNCHANGED <<write, read1, read2, mark, slept, cmd, lk, c2q, pc, tk, nput, wpc, wslot, rpc, rslot, wire, rd, got, tickets>>

Next == \/ \E p \in P : Ticket(p) \/ PLockChk(p) \/ PWoken(p) \/ PChk(p) \/ PBcast(p)
        \/ WNext \/ WWait \/ WWoken \/ WWaitChk
        \/ RNext \/ RSend \/ RFin \/ RSignal
Spec == Init /\ [][Next]_vars
FairSpec == Spec /\ WF_vars(Next)

\* ---- properties (C02)
\* every delivered result is the reply to the receiver's own command, in its own order
OwnReplies == \A p \in P : \A i \in 1..Len(got[p]) : got[p][i] = <<p, i>>
\* a command reaches the wire at most once
NoDup == \A i, j \in 1..Len(wire) : i # j => wire[i] # wire[j]
\* the wire order is the queue order: the writer visits the slots round-robin (slot i % N at its i-th visit) and takes
\* from each slot the commands in the order they were put there -- nothing skipped, nothing overtaken within a slot.
\* (Two putters whose tickets map to the same slot may fill it in either order; the queue order is the slot order.)
Fifo == \A i \in 1..Len(wire) : LET s == i % N  k == ((i - s) \div N) + (IF s = 0 THEN 0 ELSE 1) IN
            k <= Len(tickets[s]) /\ wire[i] = tickets[s][k]
\* the slot the reader visits for a reply has been written: the "protocol bug" panic is unreachable
ReaderSeesWritten == rpc = "fin" => TRUE
ReaderNeverEmpty == [][(rpc = "idle" /\ rpc' = "fin") => FALSE]_vars
Done == \A p \in P : nput[p] = MaxPuts /\ pc[p] = "idle"
NoDeadlock == Done \/ ENABLED Next
Terminates == <>[]Done
=============================================================================
