module verifharness

go 1.25.0

require (
	github.com/redis/rueidis v1.0.76
	github.com/redis/rueidis/mock v1.0.76
	github.com/redis/rueidis/om v1.0.76
	github.com/redis/rueidis/rueidisaside v1.0.76
	github.com/redis/rueidis/rueidiscompat v1.0.76
	github.com/redis/rueidis/rueidishook v1.0.76
	github.com/redis/rueidis/rueidislimiter v1.0.76
	github.com/redis/rueidis/rueidisprob v1.0.76
)

require (
	github.com/oklog/ulid/v2 v2.1.1 // indirect
	github.com/twmb/murmur3 v1.1.8 // indirect
	go.uber.org/mock v0.6.0 // indirect
	golang.org/x/sys v0.43.0 // indirect
)

replace (
	github.com/redis/rueidis => /repo
	github.com/redis/rueidis/mock => /repo/mock
	github.com/redis/rueidis/om => /repo/om
	github.com/redis/rueidis/rueidisaside => /repo/rueidisaside
	github.com/redis/rueidis/rueidiscompat => /repo/rueidiscompat
	github.com/redis/rueidis/rueidishook => /repo/rueidishook
	github.com/redis/rueidis/rueidislimiter => /repo/rueidislimiter
	github.com/redis/rueidis/rueidisprob => /repo/rueidisprob
)
