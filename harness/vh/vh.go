// Package vh holds what every driver of the verification harness shares: the report format read by
// /verif/lib/vlib.py, the event tracer (one mutex, one sequence), goroutine identification and seeding.
package vh

import (
	"bytes"
	"encoding/json"
	"flag"
	"fmt"
	"math/rand"
	"os"
	"runtime"
	"strconv"
	"sync"
)

// Violation is one observed contradiction of a property by the real code.
type Violation struct {
	Signature string `json:"signature"` // stable identification of the failing input class / call site / history
	What      string `json:"what"`
	Replay    any    `json:"replay,omitempty"` // scenario + trace needed to reproduce
}

// Report is what a driver writes to the -out file.
type Report struct {
	Evaluations        int         `json:"evaluations"`
	DistinctNontrivial int         `json:"distinct_nontrivial"`
	Rule               string      `json:"rule"`
	Traces             int         `json:"traces"` // traces / behaviours bound to the implementation
	Samples            []any       `json:"samples"`
	Violations         []Violation `json:"violations"`
	Inconclusive       []string    `json:"inconclusive"`
	Assumptions        []string    `json:"assumptions"`
	Extra              map[string]any `json:"extra,omitempty"`
	mu                 sync.Mutex
	seen               map[string]bool
}

func (r *Report) Violate(sig, what string, replay any) {
	r.mu.Lock()
	defer r.mu.Unlock()
	if r.seen == nil {
		r.seen = map[string]bool{}
	}
	if r.seen[sig] && len(r.Violations) > 50 {
		return
	}
	r.seen[sig] = true
	r.Violations = append(r.Violations, Violation{Signature: sig, What: what, Replay: replay})
}

func (r *Report) Inconcl(format string, a ...any) {
	r.mu.Lock()
	defer r.mu.Unlock()
	r.Inconclusive = append(r.Inconclusive, fmt.Sprintf(format, a...))
}

func (r *Report) Sample(s any) {
	r.mu.Lock()
	defer r.mu.Unlock()
	if len(r.Samples) < 6 {
		r.Samples = append(r.Samples, s)
	}
}

func (r *Report) Write(path string) {
	r.mu.Lock()
	defer r.mu.Unlock()
	if r.Samples == nil {
		r.Samples = []any{}
	}
	b, err := json.MarshalIndent(r, "", " ")
	if err != nil {
		panic(err)
	}
	if path == "" {
		os.Stdout.Write(b)
		return
	}
	if err := os.WriteFile(path, b, 0o644); err != nil {
		panic(err)
	}
}

var Out = flag.String("out", "", "report file")

func Seed() int64 {
	if s := os.Getenv("VERIF_SEED"); s != "" {
		if v, err := strconv.ParseInt(s, 10, 64); err == nil {
			return v
		}
	}
	return 1
}

func Thorough() bool { return os.Getenv("VERIF_TIER") == "thorough" }

func Rng(stream int64) *rand.Rand { return rand.New(rand.NewSource(Seed()*1000003 + stream)) }

// GoID returns the current goroutine's id (parsed from the stack header; test-harness use only).
func GoID() int64 {
	var buf [64]byte
	n := runtime.Stack(buf[:], false)
	b := buf[:n]
	b = bytes.TrimPrefix(b, []byte("goroutine "))
	if i := bytes.IndexByte(b, ' '); i > 0 {
		v, _ := strconv.ParseInt(string(b[:i]), 10, 64)
		return v
	}
	return -1
}

// Tracer is the single event log of a run: one mutex, one sequence number, so the log order is a linear
// extension of happens-before for events emitted under the lock that protects what they describe.
type Tracer struct {
	mu     sync.Mutex
	events []map[string]any
	seq    int
}

func (t *Tracer) Log(ev string, kv ...any) {
	m := map[string]any{"ev": ev}
	for i := 0; i+1 < len(kv); i += 2 {
		m[kv[i].(string)] = kv[i+1]
	}
	t.mu.Lock()
	t.seq++
	m["seq"] = t.seq
	t.events = append(t.events, m)
	t.mu.Unlock()
}

func (t *Tracer) Events() []map[string]any {
	t.mu.Lock()
	defer t.mu.Unlock()
	return append([]map[string]any(nil), t.events...)
}

func (t *Tracer) Len() int { t.mu.Lock(); defer t.mu.Unlock(); return len(t.events) }

// WriteNDJSON appends the events to f, one JSON object per line.
func WriteNDJSON(path string, traces [][]map[string]any) error {
	var buf bytes.Buffer
	for _, tr := range traces {
		for _, e := range tr {
			b, err := json.Marshal(e)
			if err != nil {
				return err
			}
			buf.Write(b)
			buf.WriteByte('\n')
		}
	}
	return os.WriteFile(path, buf.Bytes(), 0o644)
}
