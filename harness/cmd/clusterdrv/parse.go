package main

import (
	"bufio"
	"encoding/json"
	"fmt"
	"os"
	"sort"
	"strings"

	"github.com/redis/rueidis"
	"verifharness/fakeredis"
	"verifharness/vh"
)

// tree is the value tree printed by ClusterTopo.tla: {t: int|str|nil|arr|map, n, s, v}
type tree struct {
	T string `json:"t"`
	N int64  `json:"n"`
	S string `json:"s"`
	V []tree `json:"v"`
}

// value builds the fake server's reply value. A "map" with an odd number of elements cannot be a RESP3 map and is
// sent as a flat array (what a RESP2 connection would carry).
func (t tree) value(flatMaps bool) fakeredis.Value {
	switch t.T {
	case "int":
		return fakeredis.Int(t.N)
	case "str":
		return fakeredis.Bulk(t.S)
	case "nil":
		return fakeredis.Null()
	}
	vs := make([]fakeredis.Value, len(t.V))
	for i, c := range t.V {
		vs[i] = c.value(flatMaps)
	}
	if t.T == "map" && !flatMaps && len(vs)%2 == 0 {
		return fakeredis.Map(vs...)
	}
	return fakeredis.Array(vs...)
}

type expGroup struct {
	P     string     `json:"p"`
	RS    []string   `json:"rs"`
	NRS   int        `json:"nrs"`
	Slots [][2]int64 `json:"slots"`
}

type parseCase struct {
	Kind      string   `json:"kind"`
	Templates []int    `json:"templates"`
	Tree      tree     `json:"tree"`
	Fallback  string   `json:"fallback"`
	TLS       bool     `json:"tls"`
	Groups    groupMap `json:"groups"`
	Exact     bool     `json:"exact"`
	Endpoint  string   `json:"endpoint"`
	Port      int64    `json:"port"`
	Expect    string   `json:"expect"`
}

// groupMap: TLC prints a function with an empty domain as [].
type groupMap map[string]expGroup

func (g *groupMap) UnmarshalJSON(b []byte) error {
	if strings.HasPrefix(strings.TrimSpace(string(b)), "[") {
		*g = groupMap{}
		return nil
	}
	m := map[string]expGroup{}
	if err := json.Unmarshal(b, &m); err != nil {
		return err
	}
	*g = m
	return nil
}

func sortedCopy(s []string) []string {
	c := append([]string(nil), s...)
	sort.Strings(c)
	return c
}

func runParse(rep *vh.Report) {
	f, err := os.Open(*scenFile)
	if err != nil {
		rep.Inconcl("cannot open %s: %v", *scenFile, err)
		return
	}
	defer f.Close()
	sc := bufio.NewScanner(f)
	sc.Buffer(make([]byte, 1<<20), 1<<26)
	seen := map[string]bool{}
	distinct := map[string]bool{}
	for sc.Scan() {
		line := strings.TrimSpace(sc.Text())
		if line == "" || seen[line] {
			continue
		}
		seen[line] = true
		var c parseCase
		if err := json.Unmarshal([]byte(line), &c); err != nil {
			rep.Inconcl("bad case: %v", err)
			continue
		}
		if c.Kind == "endpoint" {
			rep.Evaluations++
			got, pm := rueidis.VerifParseEndpoint(c.Fallback, c.Endpoint, c.Port)
			if pm != "" {
				rep.Violate("parseEndpoint-panic", fmt.Sprintf("parseEndpoint(%q, %q, %d) panicked: %s", c.Fallback, c.Endpoint, c.Port, pm), c)
			} else if got != c.Expect {
				rep.Violate(fmt.Sprintf("parseEndpoint-wrong endpoint-class=%s", epClass(c.Endpoint)),
					fmt.Sprintf("parseEndpoint(%q, %q, %d) = %q, ClusterTopo.tla expects %q", c.Fallback, c.Endpoint, c.Port, got, c.Expect), c)
			}
			if c.Endpoint == "" || c.Endpoint == "?" || strings.Contains(c.Endpoint, ":") {
				distinct[line] = true
			}
			continue
		}
		// both encodings: RESP3 (maps) and the flattened form a RESP2 connection carries
		for _, flat := range []bool{false, true} {
			if flat && c.Kind == "slots" {
				continue
			}
			rep.Evaluations++
			wire := c.Tree.value(flat).Encode(3)
			groups, pm, err := rueidis.VerifParseTopology(c.Kind, wire, c.Fallback, c.TLS)
			sigBase := fmt.Sprintf("parse-%s", c.Kind)
			if err != nil {
				rep.Inconcl("case %v: the real decoder rejected the encoded tree: %v", c.Templates, err)
				continue
			}
			if pm != "" {
				rep.Violate(sigBase+" panic", fmt.Sprintf("the parser panicked on %s reply built from templates %v (flat=%v): %s", c.Kind, c.Templates, flat, pm), c)
				continue
			}
			var diffs []string
			for addr, eg := range c.Groups {
				g, ok := groups[addr]
				if !ok {
					diffs = append(diffs, fmt.Sprintf("group %s missing", addr))
					continue
				}
				if len(g.Nodes) == 0 || g.Nodes[0] != addr {
					diffs = append(diffs, fmt.Sprintf("group %s: nodes[0] = %v", addr, g.Nodes))
					continue
				}
				if fmt.Sprint(sortedCopy(g.Nodes[1:])) != fmt.Sprint(sortedCopy(eg.RS)) || len(g.Nodes)-1 != eg.NRS {
					diffs = append(diffs, fmt.Sprintf("group %s: replicas %v, expected %v (%d)", addr, g.Nodes[1:], eg.RS, eg.NRS))
				}
				if fmt.Sprint(g.Slots) != fmt.Sprint(eg.Slots) && !(len(g.Slots) == 0 && len(eg.Slots) == 0) {
					diffs = append(diffs, fmt.Sprintf("group %s: slots %v, expected %v", addr, g.Slots, eg.Slots))
				}
			}
			if c.Exact {
				for addr := range groups {
					if _, ok := c.Groups[addr]; !ok {
						diffs = append(diffs, fmt.Sprintf("unexpected group %s %v", addr, groups[addr]))
					}
				}
			}
			if len(diffs) > 0 {
				sort.Strings(diffs)
				rep.Violate(sigBase+" "+diffClass(diffs[0]), fmt.Sprintf("%s reply from templates %v (tls=%v flat=%v): %s; parser returned %v", c.Kind, c.Templates, c.TLS, flat,
					strings.Join(diffs, "; "), groups), c)
			}
		}
		if len(c.Templates) > 0 {
			distinct[fmt.Sprint(c.Kind, c.Templates, c.TLS)] = true
		}
		if rep.Evaluations%97 == 0 {
			rep.Sample(map[string]any{"kind": c.Kind, "templates": c.Templates, "tls": c.TLS, "expected_groups": c.Groups})
		}
	}
	rep.DistinctNontrivial = len(distinct)
	rep.Rule = "distinct non-empty topology replies (sequence of entry templates x tls) plus parseEndpoint cases with an empty, unknown or IPv6 endpoint"
	rep.Assumptions = append(rep.Assumptions, "the value trees are encoded by the fake server's RESP encoder and decoded by the real decoder before they reach parseSlots/parseShards")
}

func epClass(e string) string {
	switch {
	case e == "":
		return "empty"
	case e == "?":
		return "unknown"
	case strings.Contains(e, ":"):
		return "ipv6"
	}
	return "host"
}

func diffClass(d string) string {
	switch {
	case strings.Contains(d, "missing"):
		return "group-missing"
	case strings.Contains(d, "nodes[0]"):
		return "wrong-primary"
	case strings.Contains(d, "replicas"):
		return "wrong-replicas"
	case strings.Contains(d, "slots"):
		return "wrong-slots"
	case strings.Contains(d, "unexpected"):
		return "unexpected-group"
	}
	return "other"
}
