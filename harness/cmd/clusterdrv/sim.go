package main

import (
	"bufio"
	"bytes"
	"context"
	"encoding/json"
	"errors"
	"fmt"
	"math/rand"
	"os"
	"path/filepath"
	"sort"
	"strconv"
	"strings"
	"sync"
	"sync/atomic"
	"time"

	"github.com/redis/rueidis"
	"verifharness/clustersim"
	"verifharness/vh"
)

const maxAtt = 3 // RetryDelay answers -1 from this attempt on (constant MaxAtt of Cluster.tla)

// ---------------------------------------------------------------------------------------------- scenario format
type Opt struct {
	MaxMoved int    `json:"maxMoved"`
	Mode     string `json:"mode"`    // none | sendto | replicaonly
	SelKind  string `json:"selKind"` // rns | rs | dflt
	SelIdx   int    `json:"selIdx"`
	RetryOn  bool   `json:"retryOn"`
}

type Member struct {
	S int    `json:"s"`
	C string `json:"c"`
	O bool   `json:"o"`
}

type Res struct {
	K   string `json:"k"`
	N   string `json:"n"`
	To  string `json:"to"`
	ID  int    `json:"id"`
	IDs []int  `json:"ids"`
	Err string `json:"-"` // text of an unexpected error (diagnostics only)
}

type Step struct {
	T        string                         `json:"t"` // topo | call | refresh | kill
	Truth    map[string]string              `json:"truth,omitempty"`
	Migr     map[string]string              `json:"migr,omitempty"`
	Stale    map[string]map[string][]string `json:"stale,omitempty"`
	Report   map[string]clustersim.Group    `json:"report,omitempty"`
	Down     []string                       `json:"down,omitempty"`
	Kind     string                         `json:"kind,omitempty"`
	Mem      []Member                       `json:"mem,omitempty"`
	Inj      [][]string                     `json:"inj,omitempty"`
	Migrated []int                          `json:"migrated,omitempty"`
	Deny     []int                          `json:"deny,omitempty"`
	Res      []Res                          `json:"res,omitempty"` // predicted by Cluster.tla (TLC-generated scenarios)
}

type Scenario struct {
	Opt    Opt              `json:"opt"`
	Script []Step           `json:"script"`
	Shards bool             `json:"shards"`
	Mux    int              `json:"mux"`
	Noise  clustersim.Noise `json:"noise"`
	Name   string           `json:"name"`
	Gen    bool             `json:"gen"` // TLC-generated: results are compared with the prediction
}

func nn(s string) string { // "-" is None in the specification
	if s == "-" {
		return ""
	}
	return s
}

func initialTopo() clustersim.Topo {
	t := clustersim.Topo{Truth: [4]string{"a", "b", "c", ""}, Stale: map[string]map[int][]string{}}
	t.Report = reportOf(t.Truth, nil)
	return t
}

func reportOf(truth [4]string, down map[string]bool) clustersim.Report {
	var r clustersim.Report
	for s, p := range truth {
		if p == "" {
			continue
		}
		r[s].P = p
		for _, n := range clustersim.Repl {
			if clustersim.PrimOf(n) == p && !down[n] {
				r[s].RS = append(r[s].RS, n)
			}
		}
	}
	return r
}

func (st Step) topo() clustersim.Topo {
	t := clustersim.Topo{Stale: map[string]map[int][]string{}}
	for s := 0; s < 4; s++ {
		k := strconv.Itoa(s)
		t.Truth[s] = nn(st.Truth[k])
		t.Migr[s] = nn(st.Migr[k])
		g := st.Report[k]
		t.Report[s] = clustersim.Group{P: nn(g.P), RS: g.RS}
	}
	for n, m := range st.Stale {
		for k, q := range m {
			if len(q) > 0 {
				s, _ := strconv.Atoi(k)
				if t.Stale[n] == nil {
					t.Stale[n] = map[int][]string{}
				}
				t.Stale[n][s] = append([]string(nil), q...)
			}
		}
	}
	return t
}

// ---------------------------------------------------------------------------------------------- one run
type simRun struct {
	sc      Scenario
	tr      *vh.Tracer
	cl      *clustersim.Cluster
	client  rueidis.Client
	deny    atomic.Pointer[map[int]bool]
	results [][]Res
	killed  map[string]bool
	note    string
	problem string // driver-level trouble (hang, refresh wait timed out): inconclusive, never a violation
}

func optMap(o Opt) map[string]any {
	return map[string]any{"maxMoved": o.MaxMoved, "mode": o.Mode, "selKind": o.SelKind, "selIdx": o.SelIdx, "retryOn": o.RetryOn}
}

func (r *simRun) keyOf(cmd rueidis.Completed) (string, bool) {
	c := cmd.Commands()
	if len(c) < 2 {
		return "", false
	}
	return c[1], true
}

func (r *simRun) clientOption() rueidis.ClientOption {
	o := r.sc.Opt
	opt := rueidis.ClientOption{
		InitAddress:       []string{clustersim.Addr("a"), clustersim.Addr("b"), clustersim.Addr("c")},
		DialCtxFn:         r.cl.Net.DialCtxFn(),
		ShuffleInit:       false,
		DisableRetry:      !o.RetryOn,
		PipelineMultiplex: r.sc.Mux,
		ClusterOption:     rueidis.ClusterOption{MaxMovedRedirections: o.MaxMoved},
		RetryDelay: func(attempts int, cmd rueidis.Completed, err error) time.Duration {
			if attempts >= maxAtt {
				return -1
			}
			if k, ok := r.keyOf(cmd); ok {
				if id, _ := clustersim.ParseKey(k); id >= 0 {
					if d := r.deny.Load(); d != nil && (*d)[id] {
						return -1
					}
				}
			}
			return 0
		},
	}
	opt.Dialer.Timeout = 60 * time.Second
	opt.ConnWriteTimeout = 60 * time.Second
	switch o.Mode {
	case "replicaonly":
		opt.ReplicaOnly = true
	case "sendto":
		opt.SendToReplicas = func(cmd rueidis.Completed) bool {
			k, ok := r.keyOf(cmd)
			if !ok {
				return false
			}
			_, optin := clustersim.ParseKey(k)
			return optin
		}
		// The selectors choose by address, as real selectors do (the order in which the client lists the replicas of a
		// group is not part of any contract): selIdx counts in the order primary, replicas by name; an index outside
		// that list is returned as it is.
		idx := o.SelIdx
		choose := func(nodes []rueidis.NodeInfo, fixed int) int {
			if idx < 0 || idx >= len(nodes) {
				return idx
			}
			names := make([]string, 0, len(nodes))
			for _, n := range nodes[fixed:] {
				names = append(names, n.Addr)
			}
			sort.Strings(names)
			want := ""
			if idx < fixed {
				want = nodes[idx].Addr
			} else {
				want = names[idx-fixed]
			}
			for i, n := range nodes {
				if n.Addr == want {
					return i
				}
			}
			return idx
		}
		switch o.SelKind {
		case "rns":
			opt.ReadNodeSelector = func(slot uint16, nodes []rueidis.NodeInfo) int { return choose(nodes, 1) }
		case "rs":
			opt.ReplicaSelector = func(slot uint16, replicas []rueidis.NodeInfo) int { return choose(replicas, 0) }
		}
	}
	return opt
}

func (r *simRun) allKeys() []string {
	var keys []string
	ci := 0
	for _, st := range r.sc.Script {
		if st.T != "call" {
			continue
		}
		ci++
		for i, m := range st.Mem {
			if m.C == "r" || m.C == "w" {
				keys = append(keys, clustersim.Key(m.S, ci, i+1, m.O))
			}
		}
	}
	return keys
}

// classifyErr turns an error of a call into the result kinds of Cluster.tla.
func classifyErr(err error) Res {
	out := Res{N: "-", To: "-", IDs: []int{}}
	{
		var re *rueidis.RedisError
		switch {
		case errors.As(err, &re):
			if addr, ok := re.IsMoved(); ok {
				out.K, out.To = "moved", clustersim.NameOf(addr)
			} else if addr, ok := re.IsAsk(); ok {
				out.K, out.To = "ask", clustersim.NameOf(addr)
			} else if re.IsLoading() || re.IsTryAgain() || re.IsClusterDown() {
				out.K = "retry"
			} else if strings.HasPrefix(re.Error(), "EXECABORT") {
				out.K = "abort"
			} else if re.IsNil() {
				out.K = "nil"
			} else {
				out.K = "err:" + re.Error()
			}
		case errors.Is(err, rueidis.ErrNoSlot):
			out.K = "noslot"
		default:
			out.K = "neterr"
			out.Err = err.Error()
		}
		return out
	}
}

// decodeText reads a value "<node>|<key>" as the streaming calls deliver it.
func decodeText(s string) Res {
	out := Res{N: "-", To: "-", IDs: []int{}}
	switch s {
	case "OK":
		out.K = "ok"
	case "QUEUED":
		out.K = "queued"
	default:
		n, id := splitVal(s)
		if id < 0 {
			out.K = "err:value " + s
		} else {
			out.K, out.N, out.ID = "val", n, id
		}
	}
	return out
}

// drain reads the n replies of a DoStream / DoMultiStream result.
func drain(s rueidis.MultiRedisResultStream, n int) []Res {
	var out []Res
	var buf bytes.Buffer
	for s.HasNext() && len(out) < n {
		buf.Reset()
		if _, err := s.WriteTo(&buf); err != nil {
			out = append(out, classifyErr(err))
		} else {
			out = append(out, decodeText(buf.String()))
		}
	}
	for len(out) < n { // the call failed as a whole (no node for the slot, connection trouble)
		err := s.Error()
		if err == nil {
			err = errors.New("stream ended early")
		}
		out = append(out, classifyErr(err))
	}
	return out
}

func decode(res rueidis.RedisResult) Res {
	out := Res{N: "-", To: "-", IDs: []int{}}
	if err := res.Error(); err != nil {
		return classifyErr(err)
	}
	msg, _ := res.ToMessage()
	if arr, err := msg.ToArray(); err == nil {
		out.K = "exec"
		for _, e := range arr {
			s, _ := e.ToString()
			n, id := splitVal(s)
			if id < 0 {
				out.K = "err:exec element " + s
				return out
			}
			if out.N != "-" && out.N != n {
				out.K = "err:exec elements from two nodes"
				return out
			}
			out.N = n
			out.IDs = append(out.IDs, id)
		}
		return out
	}
	s, err := msg.ToString()
	if err != nil {
		out.K = "err:" + err.Error()
		return out
	}
	switch s {
	case "OK":
		out.K = "ok"
	case "QUEUED":
		out.K = "queued"
	default:
		n, id := splitVal(s)
		if id < 0 {
			out.K = "err:value " + s
		} else {
			out.K, out.N, out.ID = "val", n, id
		}
	}
	return out
}

func splitVal(s string) (string, int) {
	i := strings.IndexByte(s, '|')
	if i < 0 {
		return "", -1
	}
	id, _ := clustersim.ParseKey(s[i+1:])
	return s[:i], id
}

func resAny(rs []Res) []any {
	out := make([]any, len(rs))
	for i, r := range rs {
		ids := r.IDs
		if ids == nil {
			ids = []int{}
		}
		out[i] = map[string]any{"k": r.K, "n": r.N, "to": r.To, "id": r.ID, "ids": ids}
	}
	return out
}

func (r *simRun) call(ci int, st Step) {
	b := r.client.B()
	cmds := make([]rueidis.Completed, 0, len(st.Mem))
	cache := st.Kind == "docache" || st.Kind == "multicache"
	var cts []rueidis.CacheableTTL
	mem := make([]any, len(st.Mem))
	for i, m := range st.Mem {
		mem[i] = map[string]any{"s": m.S, "c": m.C, "o": m.O}
		key := clustersim.Key(max(m.S, 0), ci, i+1, m.O)
		switch {
		case m.C == "M":
			cmds = append(cmds, b.Multi().Build())
		case m.C == "E":
			cmds = append(cmds, b.Exec().Build())
		case m.C == "n": // a command without a key; the text carries the member id (and the opt-in mark) like a key does
			cmds = append(cmds, b.Echo().Message(key).Build())
		case cache:
			cts = append(cts, rueidis.CT(b.Get().Key(key).Cache(), time.Minute))
		case m.C == "r":
			cmds = append(cmds, b.Get().Key(key).Build())
		default:
			cmds = append(cmds, b.Getset().Key(key).Value("x").Build())
		}
	}
	deny := map[int]bool{}
	for _, d := range st.Deny {
		deny[d] = true
	}
	r.deny.Store(&deny)
	inj := map[int][]string{}
	for i, q := range st.Inj {
		if len(q) > 0 {
			inj[i+1] = q
		}
	}
	r.cl.BeginCall(inj, st.Migrated)
	dl := st.Deny
	if dl == nil {
		dl = []int{}
	}
	sort.Ints(dl)
	r.tr.Log("Call", "kind", st.Kind, "mem", mem, "deny", dl)
	ctx, cancel := context.WithTimeout(context.Background(), 60*time.Second)
	defer cancel()
	done := make(chan []Res, 1)
	go func() {
		defer func() {
			if p := recover(); p != nil {
				done <- []Res{{K: fmt.Sprintf("panic:%v", p)}}
			}
		}()
		var out []Res
		switch st.Kind {
		case "do":
			out = []Res{decode(r.client.Do(ctx, cmds[0]))}
		case "docache":
			out = []Res{decode(r.client.DoCache(ctx, cts[0].Cmd, cts[0].TTL))}
		case "multi":
			for _, x := range r.client.DoMulti(ctx, cmds...) {
				out = append(out, decode(x))
			}
		case "multicache":
			for _, x := range r.client.DoMultiCache(ctx, cts...) {
				out = append(out, decode(x))
			}
		case "stream":
			out = drain(r.client.DoStream(ctx, cmds[0]), 1)
		case "multistream":
			out = drain(r.client.DoMultiStream(ctx, cmds...), len(cmds))
		}
		done <- out
	}()
	select {
	case out := <-done:
		r.tr.Log("Ret", "res", resAny(out))
		r.results = append(r.results, out)
		for i, x := range out {
			if x.K == "neterr" && len(r.killed) == 0 {
				// no node is dead, so this is not the cluster's doing: a time-out of the in-memory transport under
				// machine load (environment trouble, the run proves nothing) or an error the client made up (kept in
				// the trace, which ClusterTrace.tla then rejects)
				if strings.Contains(x.Err, "timeout") || strings.Contains(x.Err, "deadline exceeded") {
					r.problem = fmt.Sprintf("member %d failed with %q although every node is alive", i+1, x.Err)
				} else {
					r.note = fmt.Sprintf("member %d failed with %q although every node is alive", i+1, x.Err)
				}
			}
		}
	case <-time.After(120 * time.Second):
		r.problem = "call did not return within 120s"
		r.results = append(r.results, nil)
	}
}

// waitRefresh waits for the lazy refresh that the last call armed (any MOVED / ASK / retryable error does), i.e. for
// a CLUSTER reply logged after the first such event, and then gives the client a moment to install it.
func (r *simRun) waitRefresh(fromSeq int) {
	trigger := -1
	for _, e := range r.tr.Events() {
		seq := e["seq"].(int)
		if seq <= fromSeq {
			continue
		}
		switch e["ev"] {
		case "X":
			if rep := e["rep"].(string); trigger < 0 && (rep == "moved" || rep == "ask" || rep == "retry") {
				trigger = seq
			}
		case "Ret":
			for _, x := range e["res"].([]any) {
				if trigger < 0 && x.(map[string]any)["k"] == "neterr" {
					trigger = seq - 1
				}
			}
		}
	}
	if trigger < 0 {
		return
	}
	deadline := time.Now().Add(15 * time.Second)
	for time.Now().Before(deadline) {
		evs := r.tr.Events()
		for i := len(evs) - 1; i >= 0 && evs[i]["seq"].(int) > trigger; i-- {
			if evs[i]["ev"] == "CL" {
				time.Sleep(40 * time.Millisecond)
				return
			}
		}
		time.Sleep(5 * time.Millisecond)
	}
	r.problem = "no lazy refresh within 15s after a redirect"
}

func (r *simRun) run() {
	r.tr = &vh.Tracer{}
	r.killed = map[string]bool{}
	r.tr.Log("RESET", "opt", optMap(r.sc.Opt))
	r.cl = clustersim.New(r.tr, r.sc.Shards, r.sc.Noise, initialTopo())
	defer r.cl.Close()
	r.cl.Preload(r.allKeys())
	client, err := rueidis.NewClient(r.clientOption())
	if err != nil {
		r.problem = "NewClient: " + err.Error()
		return
	}
	r.client = client
	defer client.Close()
	ci := 0
	lastCallSeq := 0
	lastKind := ""
	lastCall := -1
	for i, st := range r.sc.Script {
		if st.T == "call" {
			lastCall = i
		}
	}
	for i, st := range r.sc.Script {
		if r.problem != "" {
			return
		}
		if i > lastCall && st.T == "refresh" {
			break // nothing depends on a refresh after the last call (ClusterTrace.tla places it whenever it comes)
		}
		switch st.T {
		case "topo":
			for _, d := range st.Down {
				if !r.killed[d] {
					r.killed[d] = true
					r.cl.Kill(d)
				}
			}
			r.cl.SetTopo(st.topo())
		case "call":
			ci++
			lastCallSeq = r.tr.Len()
			lastKind = st.Kind
			r.call(ci, st)
		case "refresh":
			if lastKind != "stream" && lastKind != "multistream" { // the streaming calls never arm the lazy refresh
				r.waitRefresh(lastCallSeq)
			}
		}
	}
}

// ---------------------------------------------------------------------------------------------- trace output
var evDefaults = map[string]any{
	"node": "", "conn": 0, "op": "", "id": 0, "ask": false, "rep": "", "to": "", "ver": 0, "kind": "",
	"mem": []any{}, "deny": []int{}, "res": []any{}, "trep": []any{},
	"opt": map[string]any{"maxMoved": 0, "mode": "none", "selKind": "dflt", "selIdx": 0, "retryOn": true},
}

func normalise(evs []map[string]any) []map[string]any {
	out := make([]map[string]any, 0, len(evs))
	for _, e := range evs {
		if e["ev"] == "X" && e["op"] == "aux" {
			// ASKING, CLIENT CACHING YES and the PTTL/MULTI/EXEC wrapper of client side caching: ClusterTrace.tla skips
			// them (TAux); the ASKING state is carried by the `ask` field of the commands that follow
			continue
		}
		m := map[string]any{"ev": e["ev"], "seq": e["seq"]}
		for k, d := range evDefaults {
			if v, ok := e[k]; ok {
				m[k] = v
			} else {
				m[k] = d
			}
		}
		if m["to"] == "" {
			m["to"] = "-"
		}
		out = append(out, m)
	}
	return out
}

// ---------------------------------------------------------------------------------------------- random scenarios
func randomScenario(rng *rand.Rand, n int, focus []string) Scenario {
	sc := Scenario{Name: fmt.Sprintf("rnd-%d", n)}
	modes := []string{"none", "none", "sendto", "sendto", "replicaonly"}
	if *modesF != "" {
		modes = strings.Split(*modesF, ",")
	}
	sc.Opt = Opt{MaxMoved: []int{0, 0, 1, 2}[rng.Intn(4)], Mode: modes[rng.Intn(len(modes))], SelKind: "dflt", RetryOn: rng.Intn(5) != 0}
	if sc.Opt.Mode == "sendto" {
		sc.Opt.SelKind = []string{"rns", "rs", "dflt"}[rng.Intn(3)]
		sc.Opt.SelIdx = []int{-1, 0, 1, 2, 3, 7}[rng.Intn(6)]
	}
	sc.Shards = rng.Intn(2) == 0
	sc.Mux = []int{0, 0, 2}[rng.Intn(3)]
	sc.Noise = clustersim.Noise{SelfEmpty: rng.Intn(2) == 0, UnknownRepl: rng.Intn(2) == 0, Unhealthy: rng.Intn(2) == 0,
		ReplFirst: rng.Intn(2) == 0, TLSPort: rng.Intn(2) == 0, Hostnames: rng.Intn(2) == 0}
	truth := [4]string{"a", "b", "c", ""}
	var migr [4]string
	down := map[string]bool{}
	mfail := map[string]bool{} // primaries the nodes list as not online (their shard has no usable master)
	report := reportOf(truth, down)
	live := func() []string {
		var l []string
		for _, p := range clustersim.Prim {
			if !down[p] {
				l = append(l, p)
			}
		}
		return l
	}
	topoStep := func() Step {
		stale := map[string]map[string][]string{}
		lag := false
		switch k := rng.Intn(11); {
		case k == 10: // the master of a shard with replicas is reported as failed / is healthy again (ownership unchanged)
			p := []string{"a", "b"}[rng.Intn(2)]
			mfail[p] = !mfail[p]
		case k < 4: // move a slot, maybe with stale views (chains, self, unknown node d)
			s := rng.Intn(3)
			old := truth[s]
			cand := live()
			q := cand[rng.Intn(len(cand))]
			if q != old {
				truth[s], migr[s] = q, ""
				lag = rng.Intn(2) == 0
				for _, n := range live() {
					if n != q && rng.Intn(3) == 0 {
						var chain []string
						for j := 0; j <= rng.Intn(2); j++ {
							chain = append(chain, cand[rng.Intn(len(cand))])
						}
						stale[n] = map[string][]string{strconv.Itoa(s): chain}
					}
				}
			}
		case k < 7: // start a migration
			s := rng.Intn(3)
			cand := live()
			if q := cand[rng.Intn(len(cand))]; q != truth[s] {
				migr[s] = q
				if rng.Intn(3) == 0 { // the target does not know yet that it imports the slot: it bounces the first ASKING command
					stale[q] = map[string][]string{strconv.Itoa(s): {cand[rng.Intn(len(cand))]}}
				}
			}
		case k < 8: // finish migrations
			for s := range migr {
				if migr[s] != "" {
					truth[s], migr[s] = migr[s], ""
				}
			}
		case k < 9: // slot 3 gets an owner / loses it
			if truth[3] == "" {
				truth[3] = live()[rng.Intn(len(live()))]
			} else {
				truth[3] = ""
			}
		default: // c dies, a takes over
			if !down["c"] {
				down["c"] = true
				for s := range truth {
					if truth[s] == "c" {
						truth[s] = "a"
					}
					if migr[s] == "c" {
						migr[s] = ""
					}
				}
			}
		}
		for s := range migr {
			if migr[s] == truth[s] || down[migr[s]] {
				migr[s] = ""
			}
		}
		if !lag {
			report = reportOf(truth, down)
			for s := range report {
				if mfail[report[s].P] {
					report[s].P = ""
				}
			}
		}
		st := Step{T: "topo", Truth: map[string]string{}, Migr: map[string]string{}, Stale: stale, Report: map[string]clustersim.Group{}}
		for s := 0; s < 4; s++ {
			k := strconv.Itoa(s)
			st.Truth[k], st.Migr[k], st.Report[k] = truth[s], migr[s], report[s]
		}
		for d := range down {
			st.Down = append(st.Down, d)
		}
		return st
	}
	kinds := []string{"do", "do", "docache", "multi", "multi", "multi", "multicache", "stream", "multistream"}
	if len(focus) > 0 {
		kinds = focus
	}
	callStep := func() Step {
		st := Step{T: "call", Kind: kinds[rng.Intn(len(kinds))]}
		slot := func() int {
			if rng.Intn(12) == 0 {
				return 3
			}
			return rng.Intn(3)
		}
		mk := func(s int, c string) Member { return Member{S: s, C: c, O: rng.Intn(2) == 0} }
		switch st.Kind {
		case "do":
			st.Mem = []Member{mk(slot(), []string{"r", "w"}[rng.Intn(2)])}
		case "docache":
			st.Mem = []Member{mk(slot(), "r")}
		case "stream":
			st.Mem = []Member{mk(slot(), []string{"r", "w"}[rng.Intn(2)])}
		case "multistream": // one slot, at least one command with a key, maybe commands without a key
			s := slot()
			for i := 0; i < 1+rng.Intn(3); i++ {
				st.Mem = append(st.Mem, mk(s, []string{"r", "r", "w"}[rng.Intn(3)]))
			}
			for i := 0; i < rng.Intn(3); i++ {
				j := rng.Intn(len(st.Mem) + 1)
				st.Mem = append(st.Mem[:j], append([]Member{{S: -1, C: "n", O: rng.Intn(2) == 0}}, st.Mem[j:]...)...)
			}
		case "multicache":
			for i := 0; i < 1+rng.Intn(5); i++ {
				st.Mem = append(st.Mem, mk(slot(), "r"))
			}
		case "multi":
			if rng.Intn(3) == 0 { // one MULTI ... EXEC block, every keyed member in one slot
				s := rng.Intn(3)
				pre, in, post := rng.Intn(2), 1+rng.Intn(2), rng.Intn(2)
				for i := 0; i < pre; i++ {
					st.Mem = append(st.Mem, mk(s, []string{"r", "w"}[rng.Intn(2)]))
				}
				st.Mem = append(st.Mem, Member{S: -1, C: "M"})
				for i := 0; i < in; i++ {
					st.Mem = append(st.Mem, mk(s, []string{"r", "w"}[rng.Intn(2)]))
				}
				st.Mem = append(st.Mem, Member{S: -1, C: "E"})
				for i := 0; i < post && len(st.Mem) < 5; i++ {
					st.Mem = append(st.Mem, mk(s, []string{"r", "w"}[rng.Intn(2)]))
				}
			} else if rng.Intn(5) == 0 { // commands without a key among commands of one slot
				s := slot()
				for i := 0; i < 1+rng.Intn(3); i++ {
					st.Mem = append(st.Mem, mk(s, []string{"r", "w"}[rng.Intn(2)]))
				}
				for i := 0; i < 1+rng.Intn(2); i++ {
					j := rng.Intn(len(st.Mem) + 1)
					st.Mem = append(st.Mem[:j], append([]Member{{S: -1, C: "n", O: rng.Intn(2) == 0}}, st.Mem[j:]...)...)
				}
			} else {
				for i := 0; i < 1+rng.Intn(5); i++ {
					st.Mem = append(st.Mem, mk(slot(), []string{"r", "w"}[rng.Intn(2)]))
				}
			}
		}
		st.Inj = make([][]string, len(st.Mem))
		for i, m := range st.Mem {
			st.Inj[i] = []string{}
			if m.C != "r" && m.C != "w" {
				continue
			}
			if rng.Intn(5) == 0 {
				for j := 0; j <= rng.Intn(2); j++ {
					st.Inj[i] = append(st.Inj[i], "retry")
				}
			}
			if rng.Intn(3) == 0 {
				st.Migrated = append(st.Migrated, i+1)
			}
			if rng.Intn(6) == 0 {
				st.Deny = append(st.Deny, i+1)
			}
		}
		return st
	}
	if rng.Intn(3) != 0 {
		sc.Script = append(sc.Script, topoStep())
	}
	for i := 0; i < 1+rng.Intn(3); i++ {
		sc.Script = append(sc.Script, callStep())
		if rng.Intn(2) == 0 {
			sc.Script = append(sc.Script, Step{T: "refresh"})
		}
		if rng.Intn(3) == 0 {
			sc.Script = append(sc.Script, topoStep())
		}
	}
	return sc
}

// ---------------------------------------------------------------------------------------------- comparison with the prediction
func randomChoice(o Opt) bool {
	return o.Mode == "replicaonly" || (o.Mode == "sendto" && o.SelKind == "dflt")
}

func diffRes(want, got []Res, ignoreNode bool) string {
	if len(want) != len(got) {
		return fmt.Sprintf("length want=%d got=%d", len(want), len(got))
	}
	for i := range want {
		w, g := want[i], got[i]
		if w.K != g.K {
			return fmt.Sprintf("member=%d kind want=%s got=%s", i+1, w.K, g.K)
		}
		switch w.K {
		case "val":
			if w.ID != g.ID {
				return fmt.Sprintf("member=%d value reply-of-another-member want=%s|%d got=%s|%d", i+1, w.N, w.ID, g.N, g.ID)
			}
			if !ignoreNode && w.N != g.N {
				return fmt.Sprintf("member=%d value wrong-node want-role=%s got-role=%s want=%s|%d got=%s|%d", i+1, role(w.N), role(g.N), w.N, w.ID, g.N, g.ID)
			}
		case "exec":
			if fmt.Sprint(w.IDs) != fmt.Sprint(g.IDs) || (!ignoreNode && w.N != g.N) {
				return fmt.Sprintf("member=%d exec want=%s%v got=%s%v", i+1, w.N, w.IDs, g.N, g.IDs)
			}
		case "moved", "ask":
			if w.To != g.To {
				return fmt.Sprintf("member=%d redirect-target want=%s got=%s", i+1, w.To, g.To)
			}
		}
	}
	return ""
}

func role(n string) string {
	if clustersim.IsRepl(n) {
		return "replica"
	}
	return "primary"
}

func classOf(sc Scenario, ci int) string {
	n := 0
	for _, st := range sc.Script {
		if st.T == "call" {
			if n == ci {
				tx, kl := "", ""
				for _, m := range st.Mem {
					if m.C == "M" {
						tx = "+tx"
					}
					if m.C == "n" {
						kl = "+keyless"
					}
				}
				return st.Kind + tx + kl
			}
			n++
		}
	}
	return "?"
}

func compare(r *simRun) string {
	ci := 0
	for _, st := range r.sc.Script {
		if st.T != "call" {
			continue
		}
		if ci >= len(r.results) || r.results[ci] == nil {
			return ""
		}
		if d := diffRes(st.Res, r.results[ci], randomChoice(r.sc.Opt)); d != "" {
			return fmt.Sprintf("call=%d(%s) %s", ci+1, classOf(r.sc, ci), d)
		}
		ci++
	}
	return ""
}

// ---------------------------------------------------------------------------------------------- mode sim
func runSim(rep *vh.Report) {
	var scens []Scenario
	if *scenFile != "" {
		f, err := os.Open(*scenFile)
		if err != nil {
			rep.Inconcl("cannot open %s: %v", *scenFile, err)
			return
		}
		sc := bufio.NewScanner(f)
		sc.Buffer(make([]byte, 1<<20), 1<<26)
		n := 0
		for sc.Scan() {
			if len(strings.TrimSpace(sc.Text())) == 0 {
				continue
			}
			var s Scenario
			if err := json.Unmarshal(sc.Bytes(), &s); err != nil {
				rep.Inconcl("bad scenario line: %v", err)
				continue
			}
			n++
			s.Gen = true
			s.Name = fmt.Sprintf("gen-%d", n)
			// the wire format of the topology is not part of the TLC scenario: rotate through the variants
			s.Shards = n%2 == 0
			s.Noise = clustersim.Noise{SelfEmpty: n%3 == 0, UnknownRepl: n%5 == 0, Unhealthy: n%2 == 0, ReplFirst: n%4 == 0,
				TLSPort: n%3 == 1, Hostnames: n%4 == 1}
			for _, st := range s.Script {
				for _, g := range st.Report {
					if nn(g.P) == "" && len(g.RS) > 0 {
						s.Shards = true // a master that is listed but not online: only CLUSTER SHARDS can say that
					}
				}
			}
			scens = append(scens, s)
		}
		f.Close()
	}
	var focus []string
	if *filter != "" {
		focus = strings.Split(*filter, ",")
	}
	rng := vh.Rng(19)
	for i := 0; i < *nRandom; i++ {
		scens = append(scens, randomScenario(rng, i, focus))
	}
	runs := make([]*simRun, len(scens))
	sem := make(chan struct{}, *parallel)
	var wg sync.WaitGroup
	for i := range scens {
		wg.Add(1)
		sem <- struct{}{}
		go func(i int) {
			defer wg.Done()
			defer func() { <-sem }()
			r := &simRun{sc: scens[i]}
			r.run()
			// environment trouble (time-outs of the in-memory transport or a background refresh that did not come in
			// time on an overloaded machine) says nothing about the client: run the scenario again
			for k := 0; k < 3 && r.problem != ""; k++ {
				time.Sleep(200 * time.Millisecond)
				r = &simRun{sc: scens[i]}
				r.run()
			}
			// a command that failed with a transport-level error other than a time-out although every node is alive: seen
			// once on a machine at load 170+ (MOVED to a node the reports do not list yet, the lazy refresh drops that node,
			// and the goroutine that re-sends the command is stalled for more than the 5 s after which the dropped connection
			// is closed).  A timing-dependent verdict has to reproduce before it counts: the run is repeated, and its trace
			// (which ClusterTrace.tla rejects at Ret) is kept only if the error shows again.
			if r.problem == "" && r.note != "" {
				fmt.Fprintf(os.Stderr, "scenario %s: %s - running it again\n", r.sc.Name, r.note)
				for k := 0; k < 2; k++ {
					r2 := &simRun{sc: scens[i]}
					r2.run()
					if r2.problem != "" {
						continue
					}
					r = r2
					if r2.note != "" {
						break // reproduced
					}
				}
			}
			if r.sc.Gen && r.problem == "" {
				if d := compare(r); d != "" {
					// timing (a lazy refresh that fired early) can change an outcome legitimately: a difference counts
					// only when it shows every time
					same := 1
					for k := 0; k < 2; k++ {
						r2 := &simRun{sc: scens[i]}
						r2.run()
						if r2.problem == "" && compare(r2) == d {
							same++
						}
					}
					if same == 3 {
						rep.Violate("gen-outcome "+stableSig(d), fmt.Sprintf("scenario %s: the real client's results differ from the results Cluster.tla predicts: %s", r.sc.Name, d),
							map[string]any{"scenario": r.sc, "trace": normalise(r.tr.Events())})
					}
				}
			}
			runs[i] = r
		}(i)
	}
	wg.Wait()
	files := make([][][]map[string]any, *nFiles)
	distinct := map[string]bool{}
	for i, r := range runs {
		rep.Evaluations++
		if r.problem != "" {
			rep.Inconcl("scenario %s: %s", r.sc.Name, r.problem)
			if os.Getenv("VERIF_DEBUG") != "" {
				b, _ := json.Marshal(r.sc)
				fmt.Fprintf(os.Stderr, "PROBLEM %s: %s\n%s\n", r.sc.Name, r.problem, b)
				for _, e := range r.tr.Events() {
					eb, _ := json.Marshal(e)
					fmt.Fprintf(os.Stderr, "  %s\n", eb)
				}
			}
			continue
		}
		evs := normalise(r.tr.Events())
		files[i%*nFiles] = append(files[i%*nFiles], evs)
		rep.Traces++
		redirected := false
		for _, e := range evs {
			if e["ev"] == "X" && (e["rep"] == "moved" || e["rep"] == "ask" || e["rep"] == "retry") {
				redirected = true
			}
		}
		if redirected {
			b, _ := json.Marshal(r.sc.Script)
			distinct[fmt.Sprint(r.sc.Opt)+string(b)] = true
		}
		if i%37 == 0 {
			rep.Sample(map[string]any{"scenario": r.sc.Name, "opt": r.sc.Opt, "script": r.sc.Script, "results": r.results})
		}
	}
	rep.DistinctNontrivial = len(distinct)
	rep.Rule = "scenarios (options x topology changes x calls) in which at least one command was answered with MOVED, ASK or a retryable error"
	if *traceDir != "" {
		for g, trs := range files {
			if len(trs) == 0 {
				continue
			}
			if err := vh.WriteNDJSON(filepath.Join(*traceDir, fmt.Sprintf("cluster-%d.ndjson", g)), trs); err != nil {
				rep.Inconcl("cannot write trace: %v", err)
			}
		}
	}
	rep.Assumptions = append(rep.Assumptions,
		"the simulated cluster (harness/clustersim) stands for Redis Cluster: ownership, migration, stale views and the ASKING flag follow the rules of the environment half of Cluster.tla",
		"calls are issued one at a time; only the client's background refresh runs concurrently with them")
}

func stableSig(d string) string {
	// drop the call number, keep kind / member class of the difference
	f := strings.Fields(d)
	var keep []string
	for _, x := range f {
		if strings.HasPrefix(x, "call=") {
			if i := strings.IndexByte(x, '('); i >= 0 {
				keep = append(keep, "kind="+strings.Trim(x[i:], "()"))
			}
			continue
		}
		if strings.HasPrefix(x, "member=") {
			continue
		}
		if strings.HasPrefix(x, "want=") || strings.HasPrefix(x, "got=") {
			if i := strings.IndexAny(x, "|["); i >= 0 {
				continue
			}
		}
		keep = append(keep, x)
	}
	return strings.Join(keep, " ")
}
