package main

import (
	"bufio"
	"context"
	"encoding/json"
	"errors"
	"fmt"
	"os"
	"sort"
	"strconv"
	"strings"
	"sync"
	"time"

	"github.com/redis/rueidis"
	"verifharness/clustersim"
	"verifharness/fakeredis"
	"verifharness/vh"
)

// keyed: TLC prints a function whose domain is 1..n as an array and any other function as an object
type keyed map[int]string

func (k *keyed) UnmarshalJSON(b []byte) error {
	*k = keyed{}
	if strings.HasPrefix(strings.TrimSpace(string(b)), "[") {
		var a []string
		if err := json.Unmarshal(b, &a); err != nil {
			return err
		}
		for i, v := range a {
			(*k)[i+1] = v
		}
		return nil
	}
	m := map[string]string{}
	if err := json.Unmarshal(b, &m); err != nil {
		return err
	}
	for s, v := range m {
		i, _ := strconv.Atoi(s)
		(*k)[i] = v
	}
	return nil
}

type helperCase struct {
	Helper string `json:"helper"`
	Client string `json:"client"`
	Keys   []int  `json:"keys"`
	St     keyed  `json:"st"`
	Expect struct {
		Fail string `json:"fail"`
		Out  keyed  `json:"out"`
		Post keyed  `json:"post"`
	} `json:"expect"`
}

func slotOfKey(k int) int {
	switch k {
	case 1, 2:
		return 0
	case 3:
		return 1
	}
	return 2
}

type helperEnv struct {
	single  *fakeredis.Server
	scli    rueidis.Client
	cl      *clustersim.Cluster
	ccli    rueidis.Client
	mu      sync.Mutex
	errKeys map[string]bool
}

func newHelperEnv() (*helperEnv, error) {
	h := &helperEnv{errKeys: map[string]bool{}}
	h.single = fakeredis.NewServer("single", fakeredis.Options{})
	h.single.SetIntercept(func(cn *fakeredis.Conn, argv []string) (fakeredis.Value, fakeredis.Action) {
		h.mu.Lock()
		defer h.mu.Unlock()
		for _, k := range clustersim.CommandKeys(argv) {
			if h.errKeys[k] {
				if cn.InMulti() {
					cn.FlagTx()
				}
				return fakeredis.Err("ERR injected"), fakeredis.Reply
			}
		}
		return fakeredis.Value{}, fakeredis.Pass
	})
	net := fakeredis.NewNetwork()
	net.Add("single:6379", h.single)
	var err error
	h.scli, err = rueidis.NewClient(rueidis.ClientOption{InitAddress: []string{"single:6379"}, DialCtxFn: net.DialCtxFn(), ForceSingleClient: true})
	if err != nil {
		return nil, err
	}
	topo := initialTopo()
	h.cl = clustersim.New(&vh.Tracer{}, false, clustersim.Noise{}, topo)
	h.ccli, err = rueidis.NewClient(rueidis.ClientOption{
		InitAddress: []string{clustersim.Addr("a"), clustersim.Addr("b"), clustersim.Addr("c")}, DialCtxFn: h.cl.Net.DialCtxFn()})
	return h, err
}

func (h *helperEnv) close() {
	if h.scli != nil {
		h.scli.Close()
	}
	if h.ccli != nil {
		h.ccli.Close()
	}
	h.single.Close()
	h.cl.Close()
}

// server that stores key id k for the given client kind
func (h *helperEnv) server(client string, k int) *fakeredis.Server {
	if client == "single" {
		return h.single
	}
	return h.cl.Srv[[]string{"a", "b", "c"}[slotOfKey(k)]]
}

func snap(s *fakeredis.Server, key string) string {
	t := s.Do("TYPE", key).Str
	switch t {
	case "none":
		return "absent"
	case "string":
		return "string:" + s.Do("GET", key).Str
	case "list":
		return "list:" + s.Do("LRANGE", key, "0", "-1").String()
	}
	return t + ":" + s.Do("JSON.GET", key, "$").Str
}

func classify(err error) string {
	switch {
	case err == nil:
		return "ok"
	case errors.Is(err, rueidis.ErrMSetNXNotSet):
		return "notset"
	case rueidis.IsRedisNil(err):
		return "nil"
	case strings.Contains(err.Error(), "WRONGTYPE"):
		return "wrong"
	case strings.Contains(err.Error(), "injected"):
		return "inj"
	}
	return "err:" + err.Error()
}

func runHelpers(rep *vh.Report) {
	f, err := os.Open(*scenFile)
	if err != nil {
		rep.Inconcl("cannot open %s: %v", *scenFile, err)
		return
	}
	defer f.Close()
	h, err := newHelperEnv()
	if err != nil {
		rep.Inconcl("helper environment: %v", err)
		return
	}
	defer h.close()
	sc := bufio.NewScanner(f)
	sc.Buffer(make([]byte, 1<<20), 1<<26)
	distinct := map[string]bool{}
	n := 0
	for sc.Scan() {
		line := strings.TrimSpace(sc.Text())
		if line == "" {
			continue
		}
		var c helperCase
		if err := json.Unmarshal([]byte(line), &c); err != nil {
			rep.Inconcl("bad case: %v", err)
			continue
		}
		n++
		rep.Evaluations++
		runHelperCase(rep, h, n, c)
		ks := map[int]bool{}
		slots := map[int]bool{}
		odd := false
		for _, k := range c.Keys {
			ks[k] = true
			slots[slotOfKey(k)] = true
			odd = odd || c.St[k] != "val"
		}
		if len(slots) > 1 || len(ks) < len(c.Keys) || odd {
			distinct[line] = true
		}
	}
	rep.DistinctNontrivial = len(distinct)
	rep.Rule = "cases whose key list spans several slots, repeats a key, or contains a key that is absent / of another type / poisoned"
	rep.Assumptions = append(rep.Assumptions, "fakeredis stands for Redis and RedisJSON (MGET, MSET, MSETNX, DEL, JSON.GET/MGET/SET/MSET, client side caching wrapper)",
		"the cluster client runs against the simulated cluster with three primaries and a correct topology; wrong-node commands would be answered with MOVED, cross-slot commands with CROSSSLOT")
}

func runHelperCase(rep *vh.Report, h *helperEnv, n int, c helperCase) {
	jsonFam := strings.HasPrefix(c.Helper, "Json")
	name := func(k int) string { return fmt.Sprintf("{%s}h%d-k%d", clustersim.Tags[slotOfKey(k)], n, k) }
	client := h.scli
	if c.Client == "cluster" {
		client = h.ccli
	}
	inKS := map[int]bool{}
	for _, k := range c.Keys {
		inKS[k] = true
	}
	var errKeys []string
	before := map[int]string{}
	truth := map[int]string{}
	for k := range inKS {
		s := h.server(c.Client, k)
		key := name(k)
		st := c.St[k]
		switch {
		case st == "nil":
		case (st == "wrong") == jsonFam: // a string: the value for the plain family, the wrong type for the JSON family
			s.Do("SET", key, "val-"+key)
		case jsonFam:
			s.Do("JSON.SET", key, "$", `{"k":"`+key+`"}`)
		default:
			s.Do("RPUSH", key, "x")
		}
		if st == "err" {
			errKeys = append(errKeys, key)
		}
		before[k] = snap(s, key)
		if jsonFam {
			truth[k] = s.Do("JSON.GET", key, "$").Str
		} else {
			truth[k] = s.Do("GET", key).Str
		}
	}
	h.mu.Lock()
	h.errKeys = map[string]bool{}
	for _, k := range errKeys {
		h.errKeys[k] = true
	}
	h.mu.Unlock()
	h.cl.SetErrKeys(errKeys)

	keys := make([]string, len(c.Keys))
	kvs := map[string]string{}
	newVal := map[int]string{}
	for i, k := range c.Keys {
		keys[i] = name(k)
		if jsonFam {
			newVal[k] = `{"n":"` + name(k) + `"}`
		} else {
			newVal[k] = "new-" + name(k)
		}
		kvs[name(k)] = newVal[k]
	}
	ctx, cancel := context.WithTimeout(context.Background(), 20*time.Second)
	defer cancel()
	var rd map[string]rueidis.RedisMessage
	var wr map[string]error
	var herr error
	reader := true
	panicked := ""
	func() {
		defer func() {
			if p := recover(); p != nil {
				panicked = fmt.Sprint(p)
			}
		}()
		switch c.Helper {
		case "MGet":
			rd, herr = rueidis.MGet(client, ctx, keys)
		case "MGetCache":
			rd, herr = rueidis.MGetCache(client, ctx, time.Minute, keys)
		case "JsonMGet":
			rd, herr = rueidis.JsonMGet(client, ctx, keys, "$")
		case "JsonMGetCache":
			rd, herr = rueidis.JsonMGetCache(client, ctx, time.Minute, keys, "$")
		case "MSet":
			reader, wr = false, rueidis.MSet(client, ctx, kvs)
		case "MSetNX":
			reader, wr = false, rueidis.MSetNX(client, ctx, kvs)
		case "MDel":
			reader, wr = false, rueidis.MDel(client, ctx, keys)
		case "JsonMSet":
			reader, wr = false, rueidis.JsonMSet(client, ctx, kvs, "$")
		}
	}()
	sig := fmt.Sprintf("helper=%s client=%s ", c.Helper, c.Client)
	desc := fmt.Sprintf("%s on the %s client, keys %v (1,2 share a slot), states %v", c.Helper, c.Client, c.Keys, c.St)
	if panicked != "" {
		rep.Violate(sig+"panic", desc+": panic "+panicked, c)
		return
	}
	// ---- the returned map
	got := map[int]string{}
	gotKeys := 0
	if reader {
		gotKeys = len(rd)
		for k := range inKS {
			m, ok := rd[name(k)]
			if !ok {
				got[k] = "missing"
				continue
			}
			if e := m.Error(); e != nil {
				got[k] = classify(e)
			} else if s, e := m.ToString(); e != nil {
				got[k] = "err:" + e.Error()
			} else if s == truth[k] && c.St[k] != "nil" {
				got[k] = "v"
			} else {
				got[k] = "other:" + s
			}
		}
	} else {
		gotKeys = len(wr)
		for k := range inKS {
			e, ok := wr[name(k)]
			if !ok {
				got[k] = "missing"
				continue
			}
			got[k] = classify(e)
		}
	}
	if c.Expect.Fail != "" {
		if herr == nil || classify(herr) != c.Expect.Fail {
			rep.Violate(sig+"whole-failure-expected", fmt.Sprintf("%s: ClusterHelpers.tla expects the helper to fail with %q, it returned err=%v map=%v", desc, c.Expect.Fail, herr, got), c)
		}
	} else {
		if herr != nil {
			rep.Violate(sig+"unexpected-failure", fmt.Sprintf("%s: the helper failed with %v", desc, herr), c)
			return
		}
		if gotKeys != len(inKS) {
			rep.Violate(sig+"keyset", fmt.Sprintf("%s: the map has %d entries for %d distinct input keys: %v", desc, gotKeys, len(inKS), got), c)
		}
		var ids []int
		for k := range inKS {
			ids = append(ids, k)
		}
		sort.Ints(ids)
		for _, k := range ids {
			if want := c.Expect.Out[k]; got[k] != want {
				g := got[k]
				if strings.HasPrefix(g, "other:") {
					g = "other-keys-value"
				}
				rep.Violate(sig+fmt.Sprintf("entry want=%s got=%s", want, g),
					fmt.Sprintf("%s: entry of key %d is %s, ClusterHelpers.tla expects %s (all entries: %v)", desc, k, got[k], want, got), c)
				break
			}
		}
	}
	// ---- the store afterwards
	for k := range inKS {
		s := h.server(c.Client, k)
		after := snap(s, name(k))
		var ok bool
		switch c.Expect.Post[k] {
		case "old":
			ok = after == before[k]
		case "absent":
			ok = after == "absent"
		case "new":
			if jsonFam {
				ok = strings.Contains(after, `"n":"`+name(k)+`"`)
			} else {
				ok = after == "string:"+newVal[k]
			}
		}
		if !ok {
			rep.Violate(sig+"store-after want="+c.Expect.Post[k], fmt.Sprintf("%s: store holds %q for key %d afterwards (before: %q), expected %s", desc, after, k, before[k], c.Expect.Post[k]), c)
			break
		}
	}
	if n%211 == 0 {
		rep.Sample(map[string]any{"helper": c.Helper, "client": c.Client, "keys": c.Keys, "states": c.St, "returned": got})
	}
}
