// clusterdrv binds spec/client/Cluster.tla, ClusterTopo.tla and ClusterHelpers.tla to the real code (C19 C20 C21 C31).
//
//	-mode sim      runs scenarios (TLC-generated ones from -scen, plus -random seeded random ones) with the real
//	               rueidis cluster client against the simulated cluster of harness/clustersim; writes the recorded
//	               traces as ndjson files for validation against ClusterTrace.tla and compares the results of the
//	               TLC-generated scenarios with the results Cluster.tla predicts for them
//	-mode parse    TLC-enumerated CLUSTER SLOTS / CLUSTER SHARDS replies -> real decoder -> real parseSlots /
//	               parseShards / parseEndpoint (export wrappers), compared with the group map ClusterTopo.tla predicts
//	-mode helpers  TLC-enumerated key sets and per-key outcomes -> MGet MGetCache JsonMGet JsonMGetCache MSet MSetNX MDel
//	               JsonMSet on a single client and on the simulated cluster, compared with the map ClusterHelpers.tla predicts
package main

import (
	"flag"
	"fmt"
	"os"

	"verifharness/vh"
)

var (
	mode     = flag.String("mode", "sim", "sim | parse | helpers")
	scenFile = flag.String("scen", "", "ndjson file of TLC-generated scenarios / cases")
	nRandom  = flag.Int("random", 0, "number of seeded random scenarios")
	traceDir = flag.String("tracedir", "", "directory for ndjson traces")
	nFiles   = flag.Int("tracefiles", 4, "number of trace files the scenarios are spread over")
	filter   = flag.String("focus", "", "sim: comma separated call kinds the random scenarios are restricted to")
	parallel = flag.Int("parallel", 8, "scenarios running concurrently")
	modesF   = flag.String("modes", "", "sim: comma separated client modes (none,sendto,replicaonly) the random scenarios are restricted to")
)

func main() {
	flag.Parse()
	rep := &vh.Report{}
	defer func() {
		if r := recover(); r != nil {
			rep.Inconcl("driver panic: %v", r)
			rep.Write(*vh.Out)
			os.Exit(3)
		}
	}()
	switch *mode {
	case "sim":
		runSim(rep)
	case "parse":
		runParse(rep)
	case "helpers":
		runHelpers(rep)
	default:
		fmt.Fprintln(os.Stderr, "unknown mode", *mode)
		os.Exit(2)
	}
	rep.Write(*vh.Out)
}
