package main

import (
	"bufio"
	"bytes"
	"context"
	"encoding/json"
	"errors"
	"fmt"
	"io"
	"math/rand"
	"os"
	"strconv"
	"strings"
	"sync"
	"sync/atomic"
	"time"

	"github.com/redis/rueidis"
	"verifharness/fakeredis"
	"verifharness/vh"
)

// ---- CASE records of spec/pool/PoolSessions.tla (stream generation config): the steps of one stream caller with
// the outcome the specification predicts for each of them

type sstep struct {
	Op     string `json:"op"` // ctxend | acquire | dostream | writeto | extra-writeto
	At     string `json:"at"`
	Got    string `json:"got"`
	N      int    `json:"n"`
	Res    string `json:"res"`
	Class  string `json:"class"`
	Ret    string `json:"ret"`
	Left   int    `json:"left"`
	E      string `json:"e"`
	Stored bool   `json:"stored"`
	Closed bool   `json:"closed"`
}

type scase struct {
	Warm   bool    `json:"warm"`
	Steps  []sstep `json:"steps"`
	Idle   int     `json:"idle"`
	Size   int     `json:"size"`
	Leaked bool    `json:"leaked"`
}

// scriptedCtx is a context whose Err() starts to report cancellation at its failFrom-th call (0 = never): every
// cancellation test of the code goes through Err(), so the call index enumerates "the caller cancels at any moment".
type scriptedCtx struct {
	failFrom int32
	calls    int32
}

func (c *scriptedCtx) Deadline() (time.Time, bool) { return time.Time{}, false }
func (c *scriptedCtx) Done() <-chan struct{}       { return nil }
func (c *scriptedCtx) Value(any) any               { return nil }
func (c *scriptedCtx) Err() error {
	n := atomic.AddInt32(&c.calls, 1)
	if c.failFrom > 0 && n >= c.failFrom {
		return context.Canceled
	}
	return nil
}

var errWriter = errors.New("injected writer failure")

// failingWriter accepts limit bytes, then fails (returning the number of bytes it did take).
type failingWriter struct {
	buf   bytes.Buffer
	limit int
}

func (w *failingWriter) Write(p []byte) (int, error) {
	room := w.limit - w.buf.Len()
	if room >= len(p) {
		return w.buf.Write(p)
	}
	if room > 0 {
		w.buf.Write(p[:room])
	} else {
		room = 0
	}
	return room, errWriter
}

// ---- pool hook events, attributed to the goroutine that caused them

var (
	hookMu     sync.Mutex
	hookEvents = map[int64][]string{}
	hookSink   func(gid int64, point string, obj any) // optional (concurrent mode)
)

func installPoolHook() {
	rueidis.SetVerifHook(func(point string, obj any, a, b int) {
		if !strings.HasPrefix(point, "pool.store.") && !strings.HasPrefix(point, "pool.acq.") {
			return
		}
		gid := vh.GoID()
		hookMu.Lock()
		if _, ok := hookEvents[gid]; ok {
			hookEvents[gid] = append(hookEvents[gid], point)
		}
		sink := hookSink
		hookMu.Unlock()
		if sink != nil {
			sink(gid, point, obj)
		}
	})
}

// inG runs f in a new goroutine, collects the pool hook events that goroutine causes and reports a hang.  A panic of
// the library in the calling goroutine is returned as an event "panic: ...".
func inG(timeout time.Duration, f func()) (events []string, hung bool) {
	type res struct {
		gid int64
		pan string
	}
	done := make(chan res, 1)
	go func() {
		gid := vh.GoID()
		hookMu.Lock()
		hookEvents[gid] = []string{}
		hookMu.Unlock()
		defer func() {
			r := res{gid: gid}
			if p := recover(); p != nil {
				r.pan = fmt.Sprintf("panic: %v", p)
			}
			done <- r
		}()
		f()
	}()
	select {
	case r := <-done:
		hookMu.Lock()
		events = hookEvents[r.gid]
		delete(hookEvents, r.gid)
		hookMu.Unlock()
		if r.pan != "" {
			events = append(events, r.pan)
		}
		return events, false
	case <-time.After(timeout):
		return nil, true
	}
}

func panicOf(ev []string) string {
	for _, e := range ev {
		if strings.HasPrefix(e, "panic: ") {
			return e
		}
	}
	return ""
}

func countStores(ev []string) (keep, drop, placeholder int) {
	for _, e := range ev {
		switch e {
		case "pool.store.keep":
			keep++
		case "pool.store.drop":
			drop++
		case "pool.store.placeholder":
			placeholder++
		}
	}
	return
}

// ---- payloads

func binPayload(rng *rand.Rand, n int) string {
	special := []byte{'\r', '\n', 0x00, 0xff, '$', '*', '-', '+', ':', '_', ';', '>'}
	b := make([]byte, n)
	for i := range b {
		if rng.Intn(3) == 0 {
			b[i] = special[rng.Intn(len(special))]
		} else {
			b[i] = byte(rng.Intn(256))
		}
	}
	if n >= 6 {
		copy(b[n-6:], "\r\n$5\r\n") // looks like the start of the next frame
	}
	return string(b)
}

type streamEnv struct {
	M      *fakeredis.Server
	client rueidis.Client
	mu     sync.Mutex
	// replies the server sent for stream commands, per connection in order, and the connection of each command
	sent    []sentReply
	classes []string // class per stream command of the scenario (cut arming), indexed by arrival
	arrived int
	cutAt   func(frameLen int) int
	pend    map[int][]string // conn -> argv waiting for its SRep
}

type sentReply struct {
	conn  int
	argv  []string
	reply fakeredis.Value
}

func isStreamCmd(argv []string) bool {
	if len(argv) < 2 {
		return false
	}
	switch strings.ToUpper(argv[0]) {
	case "GET", "STRLEN", "ZSCORE", "TYPE":
		return strings.HasPrefix(argv[1], "s:")
	}
	return false
}

func newStreamEnv(poolSize int, big string, bin string, resp2 bool) (*streamEnv, error) {
	e := &streamEnv{pend: map[int][]string{}}
	e.M = fakeredis.NewServer("M", fakeredis.Options{})
	nw := fakeredis.NewNetwork()
	nw.Add(addrM, e.M)
	e.M.Do("SET", "s:empty", "")
	e.M.Do("SET", "s:bin", bin)
	e.M.Do("SET", "s:big", big)
	e.M.Do("SET", "s:num", "12345678901234")
	e.M.Do("ZADD", "s:z", "1.5", "m")
	e.M.Do("RPUSH", "s:list", "x")
	e.M.Do("SET", "s:probe", "probe-value")
	e.M.SetEventSink(func(ev fakeredis.Event) {
		switch ev.Kind {
		case fakeredis.SRecv:
			if isStreamCmd(ev.Argv) {
				e.mu.Lock()
				e.pend[ev.Conn] = ev.Argv
				e.mu.Unlock()
			}
		case fakeredis.SRep:
			e.mu.Lock()
			if argv := e.pend[ev.Conn]; argv != nil {
				delete(e.pend, ev.Conn)
				e.sent = append(e.sent, sentReply{conn: ev.Conn, argv: argv, reply: ev.Reply})
			}
			e.mu.Unlock()
		}
	})
	e.M.SetIntercept(func(cn *fakeredis.Conn, argv []string) (fakeredis.Value, fakeredis.Action) {
		if isStreamCmd(argv) {
			e.mu.Lock()
			i := e.arrived
			e.arrived++
			var cls string
			if i < len(e.classes) {
				cls = e.classes[i]
			}
			cutAt := e.cutAt
			e.mu.Unlock()
			if cls == "cut" && cutAt != nil {
				cn.CutAfterNextReplyBytes(cutAt(len(big)))
			}
		}
		return fakeredis.Value{}, fakeredis.Pass
	})
	opt := rueidis.ClientOption{InitAddress: []string{addrM}, DialCtxFn: nw.DialCtxFn(), ForceSingleClient: true,
		DisableRetry: true, BlockingPoolSize: poolSize, PipelineMultiplex: -1}
	if resp2 { // RESP2 connections: null bulk, doubles as bulk strings
		opt.AlwaysRESP2, opt.DisableCache = true, true
	}
	opt.Dialer.KeepAlive = 10 * time.Minute
	cl, err := rueidis.NewClient(opt)
	if err != nil {
		e.M.Close()
		return nil, err
	}
	e.client = cl
	return e, nil
}

func (e *streamEnv) close() {
	done := make(chan struct{})
	go func() { e.client.Close(); close(done) }()
	select {
	case <-done:
	case <-time.After(5 * time.Second):
	}
	e.M.Close()
}

func (e *streamEnv) build(class string) rueidis.Completed {
	b := e.client.B()
	switch class {
	case "ok-empty":
		return b.Get().Key("s:empty").Build()
	case "ok-bin":
		return b.Get().Key("s:bin").Build()
	case "ok-int":
		return b.Strlen().Key("s:big").Build()
	case "ok-dbl":
		return b.Zscore().Key("s:z").Member("m").Build()
	case "ok-simple":
		return b.Type().Key("s:bin").Build()
	case "nil":
		return b.Get().Key("s:missing").Build()
	case "rerr":
		return b.Get().Key("s:list").Build()
	}
	return b.Get().Key("s:big").Build() // ok-big, werr, cut
}

// payloadOf is what the server put on the wire for a reply (the oracle for the bytes WriteTo must deliver).
func payloadOf(v fakeredis.Value) (string, bool) {
	switch v.Typ {
	case fakeredis.TBulk, fakeredis.TSimple, fakeredis.TDouble, fakeredis.TVerbatim, fakeredis.TBigNum:
		if v.Null {
			return "", false
		}
		return v.Str, true
	case fakeredis.TInt:
		return strconv.FormatInt(v.Int, 10), true
	}
	return "", false
}

func classOfErr(err error) string {
	switch {
	case err == nil:
		return "ok"
	case rueidis.IsRedisNil(err):
		return "nil"
	case errors.Is(err, io.EOF) && err == io.EOF:
		return "eof"
	}
	if _, ok := rueidis.IsRedisErr(err); ok {
		return "rerr"
	}
	return "err"
}

func sig(c *scase) string {
	parts := []string{map[bool]string{true: "warm", false: "cold"}[c.Warm]}
	for _, s := range c.Steps {
		switch s.Op {
		case "ctxend":
			parts = append(parts, "ctxend@"+s.At)
		case "acquire":
			parts = append(parts, "acq:"+s.Got)
		case "dostream":
			parts = append(parts, fmt.Sprintf("do%d:%s", s.N, s.Res))
		case "writeto":
			parts = append(parts, s.Class)
		}
	}
	return strings.Join(parts, ",")
}

var (
	calOnce sync.Once
	calWarm int32 = -1
	calCold int32 = -1
)

// calibrateCtx counts the Err() calls client.DoStream makes on a context that never ends, with an idle wire in the
// stream pool (warm) and with an empty pool (cold).
func calibrateCtx() (warm, cold int32) {
	calOnce.Do(func() {
		env, err := newStreamEnv(1, "x", "y", false)
		if err != nil {
			return
		}
		defer env.close()
		run := func() int32 {
			ctx := &scriptedCtx{}
			s := env.client.DoStream(ctx, env.client.B().Get().Key("s:probe").Build())
			n := atomic.LoadInt32(&ctx.calls)
			for s.HasNext() {
				if _, err := s.WriteTo(io.Discard); err != nil {
					break
				}
			}
			return n
		}
		calCold = run()
		calWarm = run()
	})
	return calWarm, calCold
}

func runStream(rep *vh.Report) {
	installPoolHook()
	defer rueidis.SetVerifHook(nil)
	if *casesF != "" {
		f, err := os.Open(*casesF)
		if err != nil {
			rep.Inconcl("cannot read cases: %v", err)
			return
		}
		var cases []scase
		sc := bufio.NewScanner(f)
		sc.Buffer(make([]byte, 1<<20), 1<<24)
		for sc.Scan() {
			if len(bytes.TrimSpace(sc.Bytes())) == 0 {
				continue
			}
			var c scase
			if err := json.Unmarshal(sc.Bytes(), &c); err != nil {
				rep.Inconcl("bad CASE record: %v", err)
				return
			}
			cases = append(cases, c)
		}
		f.Close()
		var wg sync.WaitGroup
		ch := make(chan int)
		var nontrivial int64
		for w := 0; w < *workers; w++ {
			wg.Add(1)
			go func() {
				defer wg.Done()
				for i := range ch {
					if runStreamCase(rep, &cases[i], i) {
						atomic.AddInt64(&nontrivial, 1)
					}
				}
			}()
		}
		for i := range cases {
			ch <- i
		}
		close(ch)
		wg.Wait()
		rep.Evaluations += len(cases)
		rep.Traces += len(cases)
		rep.DistinctNontrivial += int(nontrivial)
	}
	for r := 0; r < *runs; r++ {
		runStreamConcurrent(rep, r)
	}
	rep.Rule = "stream scenarios printed by PoolSessions.tla (context position x number of commands x reply class per WriteTo), each followed by a probe stream; non-trivial = a failure class (nil, error reply, failing writer, cut connection, ended context) occurs; plus seeded concurrent stream runs"
	rep.Assumptions = append(rep.Assumptions,
		"the expected bytes are the reply values fakeredis reports in its SRep events (independent RESP codec)",
		"pool.Store is observed through the verif hook events of pool.go, attributed by goroutine id")
}

// runStreamCase replays one scenario; returns whether it is non-trivial.
func runStreamCase(rep *vh.Report, c *scase, idx int) (nontrivial bool) {
	rng := vh.Rng(int64(1000 + idx))
	bigN := 64<<10 + rng.Intn(64<<10)
	if vh.Thorough() || idx%16 == 0 {
		bigN = 1 << 20
	}
	big := binPayload(rng, bigN)
	bin := binPayload(rng, 40+rng.Intn(400))
	sg := sig(c)
	bad := func(kind, what string, env *streamEnv) {
		var logs any
		if env != nil {
			logs = snapshot(env.M)
		}
		rep.Violate("stream-"+kind+" scenario="+sg, what, map[string]any{"case": c, "logs": logs})
	}
	defer func() {
		if r := recover(); r != nil {
			bad("panic", fmt.Sprintf("panic: %v", r), nil)
		}
	}()
	env, err := newStreamEnv(1, big, bin, idx%3 == 2)
	if err != nil {
		rep.Inconcl("stream case %d: NewClient: %v", idx, err)
		return
	}
	defer env.close()

	// the scenario's inputs
	failFrom := int32(0)
	var doStep *sstep
	var writes []sstep
	extra := 0
	acqGot := ""
	ctxAt := ""
	for i := range c.Steps {
		s := &c.Steps[i]
		switch s.Op {
		case "ctxend":
			nontrivial = true
			ctxAt = s.At
		case "acquire":
			acqGot = s.Got
		case "dostream":
			doStep = s
		case "writeto":
			writes = append(writes, *s)
			if !strings.HasPrefix(s.Class, "ok") {
				nontrivial = true
			}
		case "extra-writeto":
			extra++
		}
	}
	if doStep == nil {
		return
	}
	// Err() call index at which the scripted context starts to fail.  The indices are calibrated on the code under
	// test (calibrateCtx): the last Err() call inside client.DoStream is pipe.DoStream's test, the first one is
	// pool.Acquire's, anything in between happens while the connection is made (cold pool only).  Calls after the
	// last one do not exist on this path: ending the context then must make no difference.
	nW, nC := calibrateCtx()
	switch {
	case ctxAt == "start":
		failFrom = 1
	case acqGot == "dead":
		if nC < 3 {
			return // no Err() call while the connection is made: this scenario cannot be produced
		}
		failFrom = 2
		nontrivial = true
	case ctxAt == "acq" && c.Warm:
		failFrom = nW
	case ctxAt == "acq":
		failFrom = nC
	case c.Warm:
		failFrom = []int32{0, nW + 1, nW + 2}[rng.Intn(3)]
	default:
		failFrom = []int32{0, nC + 1, nC + 2}[rng.Intn(3)]
	}
	if failFrom < 0 {
		rep.Inconcl("could not calibrate the scripted context")
		return
	}
	warmConn := 0
	if c.Warm {
		var wbuf bytes.Buffer
		_, hung := inG(20*time.Second, func() {
			ws := env.client.DoStream(context.Background(), env.client.B().Get().Key("s:probe").Build())
			for ws.HasNext() {
				if _, e := ws.WriteTo(&wbuf); e != nil {
					break
				}
			}
		})
		env.mu.Lock()
		if len(env.sent) > 0 {
			warmConn = env.sent[len(env.sent)-1].conn
		}
		env.sent = nil
		env.mu.Unlock()
		if hung || wbuf.String() != "probe-value" || warmConn == 0 {
			rep.Inconcl("warm-up stream failed (scenario %s)", sg)
			return
		}
	}
	n := doStep.N
	if doStep.Res != "active" {
		n = 1 + rng.Intn(3)
	}
	classes := make([]string, n)
	for i := range classes {
		if i < len(writes) {
			classes[i] = writes[i].Class
		} else {
			classes[i] = "ok-bin" // never read: the stream ended before
		}
	}
	cutPos := rng.Intn(4)
	env.mu.Lock()
	env.classes = classes
	env.arrived = 0
	env.cutAt = func(frameLen int) int {
		switch cutPos {
		case 0:
			return 0 // nothing of the reply
		case 1:
			return 3 // inside the length header
		case 2:
			return bigN + len(strconv.Itoa(bigN)) + 3 // payload complete, CRLF missing
		}
		return 10 + bigN/2
	}
	env.mu.Unlock()
	cmds := make([]rueidis.Completed, n)
	for i, cl := range classes {
		cmds[i] = env.build(cl)
	}
	ctx := &scriptedCtx{failFrom: failFrom}
	var stream rueidis.RedisResultStream
	multi := n > 1 || rng.Intn(3) == 0
	ev, hung := inG(20*time.Second, func() {
		if multi {
			stream = env.client.DoMultiStream(ctx, cmds...)
		} else {
			stream = env.client.DoStream(ctx, cmds[0])
		}
	})
	if hung {
		rep.Inconcl("DoStream did not return within 20s (scenario %s)", sg)
		return
	}
	if p := panicOf(ev); p != "" {
		rep.Violate("stream-panic in=DoStream "+p, "DoStream panicked in scenario "+sg+": "+p, map[string]any{"case": c})
		return
	}
	keep, drop, _ := countStores(ev)
	wantStores := 0
	if doStep.Stored {
		wantStores = 1
	}
	if doStep.Res == "ctxerr" {
		if e := stream.Error(); !errors.Is(e, context.Canceled) {
			bad("dostream-result want=ctxerr", fmt.Sprintf("DoStream with an ended context returned a stream with Error() = %v", e), env)
		}
		if stream.HasNext() {
			bad("hasnext-after-ctxerr", "HasNext() is true on a stream that failed with the context's error", env)
		}
		if keep+drop != wantStores {
			// (reported by the probe below as a leak when it is one; this is the bookkeeping view)
			bad(fmt.Sprintf("store-count-at-dostream want=%d got=%d", wantStores, keep+drop),
				fmt.Sprintf("DoStream on the ctx.Err() path stored the wire %d time(s), the specification stores it %d time(s)", keep+drop, wantStores), env)
		}
	} else {
		if e := stream.Error(); e != nil {
			bad("dostream-result want=active", fmt.Sprintf("DoStream failed: %v", e), env)
			return
		}
		if keep+drop != 0 {
			bad("store-before-last-reply", "the wire was stored while replies are outstanding", env)
		}
	}
	streamConn := 0
	// ---- WriteTo calls
	for j, w := range writes {
		var buf bytes.Buffer
		var fw *failingWriter
		var wr io.Writer = &buf
		if w.Class == "werr" {
			fw = &failingWriter{limit: []int{0, 1, 4096, 32 << 10, bigN / 2, bigN - 1}[rng.Intn(6)]}
			wr = fw
		}
		var nn int64
		var werr error
		ev, hung := inG(30*time.Second, func() { nn, werr = stream.WriteTo(wr) })
		if hung {
			bad("writeto-hang class="+w.Class, fmt.Sprintf("WriteTo #%d did not return within 30s", j+1), env)
			return
		}
		if p := panicOf(ev); p != "" {
			rep.Violate("stream-panic in=WriteTo "+p, "WriteTo panicked in scenario "+sg+": "+p, map[string]any{"case": c})
			return
		}
		got := buf.Bytes()
		if fw != nil {
			got = fw.buf.Bytes()
		}
		env.mu.Lock()
		var sr *sentReply
		if j < len(env.sent) {
			sr = &env.sent[j]
		}
		env.mu.Unlock()
		if sr == nil {
			bad("no-server-reply", fmt.Sprintf("the server never replied to stream command #%d", j+1), env)
			return
		}
		if streamConn == 0 {
			streamConn = sr.conn
			if (acqGot == "reused") != (streamConn == warmConn) {
				bad("acquire want="+acqGot, fmt.Sprintf("the specification's Acquire is %q, the stream was sent on connection %d (idle connection: %d)", acqGot, streamConn, warmConn), env)
			}
		} else if sr.conn != streamConn {
			bad("stream-on-two-connections", "the commands of one stream were sent on two connections", env)
		}
		payload, hasPayload := payloadOf(sr.reply)
		gc := classOfErr(werr)
		if gc == "eof" { // a connection that ends inside a reply surfaces as io.EOF from the reader: an error like any other here
			gc = "err"
		}
		if gc != w.Ret {
			bad(fmt.Sprintf("writeto-result class=%s want=%s got=%s", w.Class, w.Ret, gc),
				fmt.Sprintf("WriteTo #%d (reply %s): returned error %v, the specification predicts class %q", j+1, sr.reply.String()[:min(60, len(sr.reply.String()))], werr, w.Ret), env)
			return
		}
		switch {
		case w.Ret == "ok":
			if !hasPayload || string(got) != payload || nn != int64(len(payload)) {
				bad("payload-mismatch class="+w.Class, fmt.Sprintf("WriteTo #%d wrote %d bytes (n=%d), the server sent %d bytes; equal=%v", j+1, len(got), nn, len(payload), string(got) == payload), env)
			}
		case w.Class == "werr":
			if !errors.Is(werr, errWriter) {
				bad("writer-error-lost", fmt.Sprintf("WriteTo returned %v instead of the writer's error", werr), env)
			}
			if !strings.HasPrefix(payload, string(got)) || nn != int64(len(got)) {
				bad("payload-mismatch class=werr", fmt.Sprintf("failing writer accepted %d bytes, n=%d, not a prefix of the payload", len(got), nn), env)
			}
		case w.Class == "cut":
			if !strings.HasPrefix(payload, string(got)) {
				bad("payload-mismatch class=cut", "bytes written before the connection ended are not a prefix of the payload", env)
			}
		default: // nil, rerr
			if len(got) != 0 || nn != 0 {
				bad("bytes-written-for-"+w.Ret, fmt.Sprintf("WriteTo wrote %d bytes (n=%d) for a %s reply", len(got), nn, w.Ret), env)
			}
		}
		if hn := stream.HasNext(); hn != (w.Left > 0 && w.E == "nil") {
			bad(fmt.Sprintf("hasnext class=%s left=%d", w.Class, w.Left), fmt.Sprintf("HasNext() = %v after WriteTo #%d, the specification has n=%d e=%s", hn, j+1, w.Left, w.E), env)
		}
		keep, drop, _ := countStores(ev)
		switch {
		case !w.Stored && keep+drop != 0:
			bad("store-before-last-reply", fmt.Sprintf("WriteTo #%d stored the wire although %d replies are outstanding", j+1, w.Left), env)
		case w.Stored && keep+drop != 1:
			bad(fmt.Sprintf("store-count want=1 got=%d", keep+drop), fmt.Sprintf("the last WriteTo stored the wire %d times", keep+drop), env)
		case w.Stored && w.Closed && drop != 1:
			bad("unclean-wire-kept class="+w.Class, "a wire whose reply was not consumed completely went back to the pool without being closed", env)
		case w.Stored && !w.Closed && keep != 1:
			bad("clean-wire-dropped class="+w.Class, "a wire whose replies were all consumed was closed instead of being kept", env)
		}
	}
	for x := 0; x < extra+1; x++ {
		if stream.HasNext() {
			break // (only reachable after a reported mismatch)
		}
		var buf bytes.Buffer
		var nn int64
		var werr error
		ev, hung := inG(10*time.Second, func() { nn, werr = stream.WriteTo(&buf) })
		if hung {
			bad("extra-writeto-hang", "WriteTo on a finished stream did not return", env)
			return
		}
		keep, drop, _ := countStores(ev)
		if werr == nil || nn != 0 || buf.Len() != 0 || keep+drop != 0 {
			bad("extra-writeto", fmt.Sprintf("WriteTo on a finished stream: n=%d err=%v bytes=%d stores=%d", nn, werr, buf.Len(), keep+drop), env)
		}
	}
	// ---- probe: is the pool in the state the specification predicts?
	env.mu.Lock()
	before := len(env.sent)
	env.mu.Unlock()
	var pbuf bytes.Buffer
	var perr error
	pctx, pcancel := context.WithTimeout(context.Background(), 60*time.Second)
	defer pcancel()
	var pev []string
	pev, hung = inG(5*time.Second+time.Duration(bigN/1000)*time.Millisecond, func() {
		ps := env.client.DoStream(pctx, env.client.B().Get().Key("s:probe").Build())
		for ps.HasNext() {
			if _, perr = ps.WriteTo(&pbuf); perr != nil {
				break
			}
		}
		if perr == nil && ps.Error() != nil && ps.Error() != io.EOF {
			perr = ps.Error()
		}
	})
	if hung {
		// with BlockingPoolSize 1 the only way the next DoStream can wait is a wire that was never stored
		rep.Violate("stream-wire-leaked scenario="+sg, "after the scenario the next DoStream (BlockingPoolSize 1) was still waiting for a connection after 5 s: the wire of the previous stream was never stored",
			map[string]any{"case": c, "logs": snapshot(env.M)})
		return
	}
	if p := panicOf(pev); p != "" {
		rep.Violate("stream-panic in=probe "+p, "the stream after scenario "+sg+" panicked: "+p, map[string]any{"case": c})
		return
	}
	if perr != nil || pbuf.String() != "probe-value" {
		bad("probe-failed", fmt.Sprintf("the stream after the scenario returned %q, %v", pbuf.String(), perr), env)
		return
	}
	env.mu.Lock()
	var probeConn int
	if len(env.sent) > before {
		probeConn = env.sent[len(env.sent)-1].conn
	}
	env.mu.Unlock()
	if streamConn == 0 {
		streamConn = warmConn // the scenario never sent anything: the idle wire, if any, is the warm one
	}
	if streamConn != 0 || c.Idle == 0 {
		reused := probeConn == streamConn
		if c.Idle == 1 && !reused {
			bad("wire-not-reused", "the specification leaves the wire idle in the pool, the next stream used a new connection", env)
		}
		if c.Idle == 0 && reused {
			bad("closed-wire-reused", "the specification drops the wire, the next stream was sent on the same connection", env)
		}
	}
	if idx < 3 {
		rep.Sample(map[string]any{"scenario": sg, "failFrom": failFrom, "multi": multi, "bigBytes": bigN})
	}
	return
}

// runStreamConcurrent: several goroutines stream through one small pool; a connection never carries the commands of
// a second stream before the first one stored it, and every stream gets exactly its bytes.
func runStreamConcurrent(rep *vh.Report, run int) {
	rng := vh.Rng(int64(5000 + run))
	big := binPayload(rng, 8<<10+rng.Intn(32<<10))
	bin := binPayload(rng, 100)
	capN := 1 + run%2
	env, err := newStreamEnv(capN, big, bin, run%3 == 2)
	if err != nil {
		rep.Inconcl("concurrent stream run %d: %v", run, err)
		return
	}
	defer env.close()
	tr := &vh.Tracer{}
	var gidStream sync.Map // goroutine id -> stream id
	hookMu.Lock()
	hookSink = func(gid int64, point string, obj any) {
		if v, ok := gidStream.Load(gid); ok && strings.HasPrefix(point, "pool.store.") {
			tr.Log("Store", "sid", v.(int), "conn", 0, "kind", point)
		}
	}
	hookMu.Unlock()
	defer func() { hookMu.Lock(); hookSink = nil; hookMu.Unlock() }()
	// server side: which stream's command arrives on which connection (keys carry no id: use the goroutine-free
	// route: one marker command per stream is not available for streams, so tag through distinct missing keys)
	env.M.SetEventSink(func(ev fakeredis.Event) {
		if ev.Kind == fakeredis.SRecv && len(ev.Argv) == 2 && strings.HasPrefix(ev.Argv[1], "s:t:") {
			sid, _ := strconv.Atoi(strings.Split(ev.Argv[1], ":")[2])
			tr.Log("SRecv", "sid", sid, "conn", ev.Conn, "kind", "")
		}
	})
	env.M.SetIntercept(nil)
	const G, R = 3, 6
	var wg sync.WaitGroup
	var sidc int32
	want := map[int][]string{}
	var wmu sync.Mutex
	for g := 0; g < G; g++ {
		wg.Add(1)
		grng := vh.Rng(int64(6000 + run*10 + g))
		go func() {
			defer wg.Done()
			defer func() {
				if p := recover(); p != nil {
					rep.Violate(fmt.Sprintf("stream-concurrent-panic %v", p), fmt.Sprintf("a concurrent stream caller panicked inside the library: %v", p), tr.Events())
				}
			}()
			gid := vh.GoID()
			for r := 0; r < R; r++ {
				sid := int(atomic.AddInt32(&sidc, 1))
				gidStream.Store(gid, sid)
				n := 1 + grng.Intn(3)
				cmds := make([]rueidis.Completed, n)
				exp := make([]string, n)
				for i := range cmds {
					key := fmt.Sprintf("s:t:%d:%d", sid, i)
					if grng.Intn(4) != 0 {
						val := fmt.Sprintf("v-%d-%d-%s", sid, i, big[:grng.Intn(len(big))])
						env.M.Do("SET", key, val)
						exp[i] = val
					} else {
						exp[i] = "\x00nil"
					}
					cmds[i] = env.client.B().Get().Key(key).Build()
				}
				wmu.Lock()
				want[sid] = exp
				wmu.Unlock()
				ctx, cancel := context.WithTimeout(context.Background(), 30*time.Second)
				s := env.client.DoMultiStream(ctx, cmds...)
				for i := 0; s.HasNext(); i++ {
					var buf bytes.Buffer
					_, err := s.WriteTo(&buf)
					switch {
					case i >= n:
						rep.Violate("stream-concurrent-extra-reply", "more WriteTo calls succeeded than commands were sent", tr.Events())
					case exp[i] == "\x00nil":
						if !rueidis.IsRedisNil(err) {
							rep.Violate("stream-concurrent-wrong-reply", fmt.Sprintf("stream %d reply %d: want nil, got %v / %d bytes", sid, i, err, buf.Len()), tr.Events())
						}
					case err != nil || buf.String() != exp[i]:
						rep.Violate("stream-concurrent-wrong-reply", fmt.Sprintf("stream %d reply %d: %d bytes, err %v, expected %d bytes (another stream's reply?)", sid, i, buf.Len(), err, len(exp[i])), tr.Events())
					}
				}
				if e := s.Error(); e != io.EOF {
					if errors.Is(e, context.DeadlineExceeded) {
						rep.Violate("stream-concurrent-hang", "a stream waited 30 s for a connection of the stream pool", tr.Events())
					} else {
						rep.Violate("stream-concurrent-error", fmt.Sprintf("stream %d ended with %v", sid, e), tr.Events())
					}
				}
				cancel()
			}
		}()
	}
	wg.Wait()
	// monitor on the merged log: on every connection the commands of a stream are contiguous and the next stream's
	// first command comes after the previous stream's Store event
	owner := map[int]int{}      // conn -> stream currently using it
	stored := map[int]bool{}    // stream -> its Store was seen
	streamConn := map[int]int{} // stream -> conn
	for _, e := range tr.Events() {
		sid := e["sid"].(int)
		switch e["ev"] {
		case "SRecv":
			conn := e["conn"].(int)
			if cur, ok := owner[conn]; ok && cur != sid && !stored[cur] {
				rep.Violate("stream-interleaved-on-connection", fmt.Sprintf("connection %d received a command of stream %d while stream %d had not stored it", conn, sid, cur), tr.Events())
			}
			if c0, ok := streamConn[sid]; ok && c0 != conn {
				rep.Violate("stream-on-two-connections", fmt.Sprintf("stream %d used connections %d and %d", sid, c0, conn), tr.Events())
			}
			owner[conn], streamConn[sid] = sid, conn
		case "Store":
			if stored[sid] {
				rep.Violate("stream-concurrent-store-twice", fmt.Sprintf("stream %d stored its wire twice", sid), tr.Events())
			}
			stored[sid] = true
		}
	}
	for sid := 1; sid <= int(sidc); sid++ {
		if !stored[sid] {
			rep.Violate("stream-concurrent-never-stored", fmt.Sprintf("stream %d never stored its wire", sid), tr.Events())
		}
	}
	if n := len(env.M.Conns()); n > capN+1 { // +1: the client's pipelining connection
		rep.Violate("stream-pool-bound", fmt.Sprintf("%d connections open with BlockingPoolSize %d", n-1, capN), tr.Events())
	}
	rep.Evaluations += int(sidc)
	rep.Traces++
}
