package main

import "io"

var errEOF = io.EOF
