package main

import (
	"context"
	"errors"
	"fmt"
	"math/rand"
	"os"
	"os/exec"
	"path/filepath"
	"regexp"
	"strconv"
	"strings"
	"sync"
	"sync/atomic"
	"time"

	"github.com/redis/rueidis"
	"verifharness/fakeredis"
	"verifharness/vh"
)

// Dedicated sessions (C25).  Processes: dedicated sessions 1..3, blocking callers 4..5, shared pipeline traffic 0.
// Every command that has a key or channel argument carries its process in it ("{d2}", "{b4}", "{p0}", and
// "late:{d2}" for calls made after release).  One vh.Tracer receives
//   Acq/Store     from the pool.go hooks (emitted under the pool mutex, attributed by goroutine id)
//   Send/Clean    from the server's SRecv events (emitted under the dispatcher mutex)
//   Hooks, BlockFail, Close, Release, Release2, Late   from the session goroutines (before the call / after its return)
// The log is checked twice: by the monitors below and by TLC against spec/pool/SessionTrace.tla.

var discardedRuns int // runs in which a deadline passed before its command was written (overloaded machine): not evaluated

var tagRe = regexp.MustCompile(`\{([dbp])(\d)\}`)

type dedRun struct {
	tr            *vh.Tracer
	rep           *vh.Report
	M             *fakeredis.Server
	S             *fakeredis.Server
	client        rueidis.Client
	mu            sync.Mutex
	gidProc       map[int64]int // goroutine -> process
	connOf        map[int]int   // process -> server connection of its current acquisition
	topo          string
	multiReturned int64
	abandonSeen   map[int]chan struct{} // blocking caller -> closed when the server received its hopeless BLPOP
	abandoned     int64
	blpopSeen     map[int]bool // dedicated session -> the server received its BLPOP on the empty list
	untimely      int32        // a deadline passed before its command reached the server: the run says nothing (machine overloaded)
}

func (r *dedRun) log(ev string, p, conn int, what string, subs, track, multi int, res string) {
	r.logB(ev, p, conn, what, subs, track, multi, -1, res)
}

// logB: blck = 1 when the server still owes the connection the answer to a blocking command (-1: not looked at)
func (r *dedRun) logB(ev string, p, conn int, what string, subs, track, multi, blck int, res string) {
	r.tr.Log(ev, "p", p, "conn", conn, "what", what, "subs", subs, "track", track, "multi", multi, "blck", blck, "res", res)
}

func (r *dedRun) procOfGid() (int, bool) {
	r.mu.Lock()
	defer r.mu.Unlock()
	p, ok := r.gidProc[vh.GoID()]
	return p, ok
}

func (r *dedRun) register(p int) {
	r.mu.Lock()
	r.gidProc[vh.GoID()] = p
	r.mu.Unlock()
}

// classify maps a command received by the data node to the event vocabulary of SessionTrace.tla.
func classify(argv []string) (p int, what string, tagged, late bool) {
	p = -1
	up := strings.ToUpper(argv[0])
	for _, a := range argv[1:] {
		if m := tagRe.FindStringSubmatch(a); m != nil {
			p, _ = strconv.Atoi(m[2])
			tagged = true
			if strings.HasPrefix(a, "late:") {
				late = true
			}
			if strings.HasSuffix(a, ":bg") {
				what = "bgcmd"
			}
			break
		}
	}
	switch {
	case late:
		what = "late"
	case up == "MULTI":
		what = "multi"
	case up == "EXEC":
		what = "exec"
	case up == "SUBSCRIBE":
		what = "sub"
	case (up == "BLPOP" || up == "BRPOP") && p >= 4 && len(argv) > 1 && strings.HasSuffix(argv[1], ":empty"):
		// a blocking caller waits on a list nobody pushes to: the call can only end through its context
		what = "abandon"
	case what == "":
		what = "cmd"
	}
	return
}

func (r *dedRun) sink(ev fakeredis.Event) {
	if ev.Kind != fakeredis.SRecv || len(ev.Argv) == 0 || ev.Conn == 0 { // (connection 0 = the driver's own admin commands)
		return
	}
	up := strings.ToUpper(ev.Argv[0])
	switch up {
	case "HELLO", "AUTH", "SELECT", "READONLY", "PING", "ROLE", "CLUSTER", "SENTINEL", "INFO":
		return
	case "CLIENT":
		if len(ev.Argv) >= 3 && strings.ToUpper(ev.Argv[1]) == "TRACKING" {
			if strings.ToUpper(ev.Argv[2]) == "OFF" {
				r.log("Clean", -1, ev.Conn, "trackoff", 0, 0, 0, "")
				return
			}
			if len(ev.Argv) == 3 { // CLIENT TRACKING ON of a session (the setup form has options)
				r.log("Send", -1, ev.Conn, "cmd", 0, 0, 0, "")
			}
		}
		return
	case "UNSUBSCRIBE":
		if len(ev.Argv) == 1 {
			r.log("Clean", -1, ev.Conn, "unsub", 0, 0, 0, "")
		}
		return
	case "PUNSUBSCRIBE", "SUNSUBSCRIBE":
		return
	case "DISCARD":
		return // the last command of CleanSubscriptions (sessions here never send DISCARD themselves)
	}
	p, what, tagged, _ := classify(ev.Argv)
	if tagged && p != 0 {
		r.mu.Lock()
		if _, ok := r.connOf[p]; !ok {
			r.connOf[p] = ev.Conn
		}
		r.mu.Unlock()
	}
	r.log("Send", p, ev.Conn, what, 0, 0, 0, "")
	if up == "BLPOP" && tagged && p >= 1 && p <= 3 {
		r.mu.Lock()
		r.blpopSeen[p] = true
		r.mu.Unlock()
	}
	if what == "abandon" {
		r.mu.Lock()
		if ch := r.abandonSeen[p]; ch != nil {
			close(ch)
			delete(r.abandonSeen, p)
		}
		r.mu.Unlock()
	}
}

func (r *dedRun) hook(point string, obj any, a, b int) {
	if !strings.HasPrefix(point, "pool.") {
		return
	}
	p, ok := r.procOfGid()
	if !ok {
		return
	}
	switch point {
	case "pool.acq.make":
		r.log("Acq", p, 0, "make", 0, 0, 0, "")
	case "pool.acq.take":
		r.log("Acq", p, 0, "take", 0, 0, 0, "")
	case "pool.store.keep", "pool.store.drop":
		r.mu.Lock()
		conn := r.connOf[p]
		delete(r.connOf, p)
		r.mu.Unlock()
		subs, track, multi, blck := -1, -1, -1, -1
		if cn := r.M.Conn(conn); conn != 0 && cn != nil {
			blck = 0
			if cn.Blocked() {
				blck = 1
				if point == "pool.store.keep" {
					r.rep.Violate("connection-returned-with-command-in-flight topo="+r.topo,
						fmt.Sprintf("process %d returned connection %d to the dedicated pool while the server still owes it the answer to a blocking command: the next holder's commands queue behind a foreign command", p, conn), r.tr.Events())
					// the finding is recorded; answer the foreign command so that the rest of the run does not spend
					// every following call waiting for its time-out behind it
					go r.M.Do("RPUSH", fmt.Sprintf("bl:{b%d}:empty", p), "x")
				}
			}
			chs, pats, sh := cn.Subscriptions()
			subs = len(chs) + len(pats) + len(sh)
			track, multi = 0, 0
			if cn.TrackingMode() != "off" {
				track = 1
			}
			if cn.InMulti() {
				multi = 1
			}
			if point == "pool.store.keep" {
				// C25 CleanOnReturn on the real server state, at the instant the connection becomes available again
				if subs != 0 {
					r.rep.Violate("dedicated-returned-with-subscriptions topo="+r.topo, fmt.Sprintf("process %d returned connection %d to the pool with %d subscriptions", p, conn, subs), r.tr.Events())
				}
				if track != 0 && p <= 3 {
					r.rep.Violate("dedicated-returned-with-tracking topo="+r.topo, fmt.Sprintf("process %d returned connection %d to the pool with tracking %s", p, conn, cn.TrackingMode()), r.tr.Events())
				}
				if multi != 0 {
					atomic.AddInt64(&r.multiReturned, 1)
				}
			}
		}
		r.logB("Store", p, conn, strings.TrimPrefix(point, "pool.store."), subs, track, multi, blck, "")
	}
}

func runDedicated(rep *vh.Report) {
	openMultiScenarios(rep)
	for _, topo := range []string{"single", "cluster"} {
		closeAfterReleaseScenario(rep, topo)
	}
	traces := map[int][][]map[string]any{}
	topos := []string{"single", "single", "redirect", "sentinel", "cluster"}
	var multiReturned int64
	for i := 0; i < *runs; i++ {
		topo := topos[i%len(topos)]
		tr, mr := dedicatedRun(rep, i, topo)
		multiReturned += mr
		if tr != nil {
			reset := map[string]any{"ev": "RESET", "p": 0, "conn": 0, "what": topo, "subs": 0, "track": 0, "multi": 0, "blck": 0, "res": "", "seq": 0}
			traces[1+i%2] = append(traces[1+i%2], append([]map[string]any{reset}, tr...))
			rep.Traces++
		}
	}
	var all [][]map[string]any
	for _, capN := range []int{1, 2} {
		all = append(all, traces[capN]...)
	}
	if *traceDir != "" && len(all) > 0 {
		if err := vh.WriteNDJSON(filepath.Join(*traceDir, "sessions.ndjson"), all); err != nil {
			rep.Inconcl("cannot write trace: %v", err)
		}
	}
	rep.Rule = "events of dedicated-session runs (2-3 sessions with WATCH/MULTI/EXEC, Receive, hooks, invalidation tracking, open MULTI, timed-out BLPOP, Close; 2 blocking callers that also abandon BLPOPs through cancel-only / deadline contexts (Do and DoMulti); shared traffic); non-trivial = events of sessions that subscribed, installed hooks, enabled tracking, were closed or called after release"
	rep.Extra = map[string]any{"connections_returned_inside_MULTI": multiReturned, "runs_discarded_deadline_before_write": discardedRuns}
	rep.Assumptions = append(rep.Assumptions,
		"commands are attributed to processes by the {dN}/{bN}/{p0} tag in their key or channel; MULTI/EXEC/CLIENT TRACKING ON carry none and are attributed to the holder of their connection",
		"pool events come from the verif hooks of pool.go (under the pool mutex), server events from fakeredis' dispatcher")
}

func dedicatedRun(rep *vh.Report, idx int, topo string) ([]map[string]any, int64) {
	rng := vh.Rng(int64(9000 + idx))
	r := &dedRun{tr: &vh.Tracer{}, rep: rep, gidProc: map[int64]int{}, connOf: map[int]int{}, topo: topo, abandonSeen: map[int]chan struct{}{}, blpopSeen: map[int]bool{}}
	r.M = fakeredis.NewServer("M", fakeredis.Options{})
	defer r.M.Close()
	nw := fakeredis.NewNetwork()
	nw.Add(addrM, r.M)
	opt := rueidis.ClientOption{InitAddress: []string{addrM}, DialCtxFn: nw.DialCtxFn(), DisableRetry: true,
		PipelineMultiplex: -1, BlockingPoolSize: 1 + idx%2,
		DisableCache: true} // connections start with tracking off: any tracking seen later was turned on by a session
	opt.Dialer.KeepAlive = 10 * time.Minute
	icpt := func(cn *fakeredis.Conn, argv []string) (fakeredis.Value, fakeredis.Action) {
		up := strings.ToUpper(argv[0])
		if up == "CLUSTER" && len(argv) > 1 && strings.ToUpper(argv[1]) == "SLOTS" && topo == "cluster" {
			return fakeredis.Array(fakeredis.Array(fakeredis.Int(0), fakeredis.Int(16383),
				fakeredis.Array(fakeredis.Bulk("127.0.0.1"), fakeredis.Int(7001), fakeredis.Bulk("0000000000000000000000000000000000000001")))), fakeredis.Reply
		}
		if up == "SENTINEL" && len(argv) > 1 {
			switch strings.ToUpper(argv[1]) {
			case "SENTINELS", "REPLICAS":
				return fakeredis.Array(), fakeredis.Reply
			case "GET-MASTER-ADDR-BY-NAME":
				return fakeredis.BulkArray("127.0.0.1", "7001"), fakeredis.Reply
			}
		}
		return fakeredis.Value{}, fakeredis.Pass
	}
	r.M.SetIntercept(icpt)
	switch topo {
	case "single":
		opt.ForceSingleClient = true
	case "redirect":
		opt.Standalone.EnableRedirect = true
	case "sentinel":
		r.S = fakeredis.NewServer("S", fakeredis.Options{})
		defer r.S.Close()
		r.S.SetIntercept(icpt)
		nw.Add(addrS, r.S)
		opt.InitAddress = []string{addrS}
		opt.Sentinel.MasterSet = "mymaster"
		opt.Sentinel.Dialer.KeepAlive = 10 * time.Minute
	}
	r.M.SetEventSink(r.sink)
	rueidis.SetVerifHook(r.hook)
	defer rueidis.SetVerifHook(nil)
	client, err := rueidis.NewClient(opt)
	if err != nil {
		rep.Inconcl("dedicated run %d (%s): NewClient: %v", idx, topo, err)
		return nil, 0
	}
	r.client = client
	bg := context.Background()
	var wg sync.WaitGroup
	hung := int32(0)

	// ---- dedicated sessions
	nsess := 2 + rng.Intn(2)
	for p := 1; p <= nsess; p++ {
		wg.Add(1)
		srng := vh.Rng(int64(9000+idx)*100 + int64(p))
		go func(p int) {
			defer wg.Done()
			r.register(p)
			time.Sleep(time.Duration(srng.Intn(300)) * time.Microsecond)
			r.session(p, srng)
		}(p)
	}
	// ---- blocking callers (mux.blocking on the same pool)
	for p := 4; p <= 5; p++ {
		wg.Add(1)
		brng := vh.Rng(int64(9000+idx)*100 + int64(p))
		go func(p int) {
			defer wg.Done()
			r.register(p)
			key := fmt.Sprintf("bl:{b%d}", p)
			for k := 0; k < 2+brng.Intn(3); k++ {
				if v := brng.Intn(10); v < 4 {
					// a blocking call its caller gives up: the list stays empty, only the context ends the call.
					//   v=0,1  context without deadline, cancelled by hand once the server has the command (the pipe
					//          queues the command and stays healthy)            v=2  the same through DoMulti
					//   v=3    context with a deadline (a wire in synchronous mode breaks itself at the deadline)
					seen := make(chan struct{})
					r.mu.Lock()
					r.abandonSeen[p] = seen
					r.mu.Unlock()
					var ctx context.Context
					var cancel context.CancelFunc
					if v == 3 {
						ctx, cancel = context.WithTimeout(bg, time.Duration(150+brng.Intn(100))*time.Millisecond)
					} else {
						ctx, cancel = context.WithCancel(bg)
						go func() {
							select {
							case <-seen:
							case <-time.After(20 * time.Second):
							}
							time.Sleep(time.Duration(brng.Intn(300)) * time.Microsecond)
							cancel()
						}()
					}
					cmd := client.B().Blpop().Key(key + ":empty").Timeout(0).Build()
					var err error
					if v == 2 {
						err = client.DoMulti(ctx, cmd)[0].Error()
					} else {
						err = client.Do(ctx, cmd).Error()
					}
					cancel()
					atomic.AddInt64(&r.abandoned, 1)
					select {
					case <-seen:
					default:
						atomic.StoreInt32(&r.untimely, 1) // the deadline passed before the command reached the server
					}
					if !errors.Is(err, context.Canceled) && !errors.Is(err, context.DeadlineExceeded) {
						rep.Violate("dedicated-blocking-call-failed topo="+topo, fmt.Sprintf("abandoned BLPOP of process %d returned %v", p, err), r.tr.Events())
						return
					}
					time.Sleep(time.Duration(brng.Intn(200)) * time.Microsecond)
					continue
				}
				r.M.Do("RPUSH", key, "x")
				ctx, cancel := context.WithTimeout(bg, 20*time.Second)
				err := client.Do(ctx, client.B().Blpop().Key(key).Timeout(1).Build()).Error()
				cancel()
				if err != nil {
					if errors.Is(err, context.DeadlineExceeded) {
						atomic.StoreInt32(&hung, 1)
					} else {
						rep.Violate("dedicated-blocking-call-failed topo="+topo, fmt.Sprintf("BLPOP of process %d: %v", p, err), r.tr.Events())
					}
					return
				}
				time.Sleep(time.Duration(brng.Intn(200)) * time.Microsecond)
			}
		}(p)
	}
	// ---- shared pipeline traffic
	stop := make(chan struct{})
	var swg sync.WaitGroup
	swg.Add(1)
	go func() {
		defer swg.Done()
		for n := 0; ; n++ {
			select {
			case <-stop:
				return
			default:
			}
			ctx, cancel := context.WithTimeout(bg, 20*time.Second)
			client.Do(ctx, client.B().Get().Key(fmt.Sprintf("k:{p0}:%d", n%7)).Build())
			cancel()
			time.Sleep(100 * time.Microsecond)
		}
	}()
	done := make(chan struct{})
	go func() { wg.Wait(); close(done) }()
	select {
	case <-done:
	case <-time.After(60 * time.Second):
		rep.Inconcl("dedicated run %d (%s) did not finish within 60s", idx, topo)
		close(stop)
		return nil, 0
	}
	close(stop)
	swg.Wait()
	if atomic.LoadInt32(&hung) != 0 {
		rep.Inconcl("dedicated run %d (%s): a blocking call waited 20s for a pool connection", idx, topo)
	}
	rueidis.SetVerifHook(nil)
	events := r.tr.Events()
	client.Close()
	if atomic.LoadInt32(&r.untimely) != 0 {
		discardedRuns++
		return nil, atomic.LoadInt64(&r.multiReturned)
	}
	r.monitors(events)
	rep.Evaluations += len(events)
	nt := 0
	for _, e := range events {
		switch e["ev"] {
		case "Hooks", "Clean", "Close", "Late", "Release2", "BlockFail":
			nt++
		case "Send":
			if e["what"] == "abandon" {
				nt++
			}
		}
	}
	rep.DistinctNontrivial += nt
	if idx < 2 {
		var s []string
		for _, e := range events[:min(len(events), 25)] {
			s = append(s, fmt.Sprintf("%v p=%v conn=%v %v", e["ev"], e["p"], e["conn"], e["what"]))
		}
		rep.Sample(map[string]any{"topo": topo, "events": s})
	}
	return events, atomic.LoadInt64(&r.multiReturned)
}

// session runs one dedicated session of process p and then calls every method again after release.
func (r *dedRun) session(p int, rng *rand.Rand) {
	bg := context.Background()
	tag := fmt.Sprintf("{d%d}", p)
	topo := r.topo
	var hookCh <-chan error
	closed := false
	script := func(d rueidis.DedicatedClient) {
		to := func() (context.Context, context.CancelFunc) { return context.WithTimeout(bg, 20*time.Second) }
		ctx, c := to()
		if err := d.Do(ctx, d.B().Watch().Key("k:"+tag+":w").Build()).Error(); err != nil {
			r.rep.Violate("dedicated-command-failed topo="+topo, fmt.Sprintf("WATCH in session %d: %v", p, err), r.tr.Events())
		}
		c()
		hasInv, dead := false, false
		for n := 1 + rng.Intn(4); n > 0 && !dead; n-- {
			switch k := rng.Intn(7); {
			case k == 0: // WATCH ... MULTI/EXEC
				ctx, c := to()
				res := d.DoMulti(ctx, d.B().Multi().Build(), d.B().Incr().Key("k:"+tag+":c").Build(), d.B().Exec().Build())
				c()
				if err := res[2].Error(); err != nil && !rueidis.IsRedisNil(err) {
					r.rep.Violate("dedicated-transaction-failed topo="+topo, fmt.Sprintf("EXEC in session %d: %v (another caller's command inside the transaction?)", p, err), r.tr.Events())
				} else if err == nil {
					if arr, _ := res[2].ToArray(); len(arr) != 1 {
						r.rep.Violate("dedicated-transaction-foreign-command topo="+topo, fmt.Sprintf("EXEC in session %d returned %d results for 1 queued command", p, len(arr)), r.tr.Events())
					}
				}
			case k == 1: // plain command, synchronous path
				ctx, c := to()
				d.Do(ctx, d.B().Get().Key("k:"+tag+":g").Build())
				c()
			case k == 2: // plain command with a cancellable context: starts the background loop of the pipe
				ctx, c := context.WithCancel(bg)
				d.Do(ctx, d.B().Get().Key("k:"+tag+":g:bg").Build())
				c()
			case k == 3: // Receive, left by cancelling the context: the server-side subscription stays
				ch := "ch:" + tag
				ctx, c := context.WithCancel(bg)
				rd := make(chan error, 1)
				go func() { rd <- d.Receive(ctx, d.B().Subscribe().Channel(ch).Build(), func(rueidis.PubSubMessage) {}) }()
				deadline := time.Now().Add(10 * time.Second)
				for time.Now().Before(deadline) && r.M.Do("PUBSUB", "NUMSUB", ch).Arr[1].Int == 0 {
					time.Sleep(200 * time.Microsecond)
				}
				c()
				select {
				case <-rd:
				case <-time.After(10 * time.Second):
					r.rep.Inconcl("Receive of session %d did not return after cancel", p)
				}
			case k == 4 && !hasInv: // hooks + SUBSCRIBE through Do
				hookCh = d.SetPubSubHooks(rueidis.PubSubHooks{OnMessage: func(rueidis.PubSubMessage) {}})
				r.log("Hooks", p, 0, "ps", 0, 0, 0, "")
				ctx, c := to()
				d.Do(ctx, d.B().Subscribe().Channel("ch:"+tag+":h").Build())
				c()
			case k == 5: // invalidation hook + tracking
				hookCh = d.SetOnInvalidations(func([]rueidis.RedisMessage) {})
				hasInv = true
				r.log("Hooks", p, 0, "inv", 0, 0, 0, "")
				ctx, c := to()
				d.Do(ctx, d.B().Arbitrary("CLIENT", "TRACKING", "ON").Build())
				d.Do(ctx, d.B().Get().Key("k:"+tag+":t").Build())
				c()
			case k == 6: // a blocking command that runs into its deadline
				ctx, c := context.WithTimeout(bg, 60*time.Millisecond)
				err := d.Do(ctx, d.B().Blpop().Key("bl:"+tag+":empty").Timeout(0).Build()).Error()
				c()
				if err != nil {
					r.mu.Lock()
					seen := r.blpopSeen[p]
					r.mu.Unlock()
					if !seen {
						// the deadline passed before the command was written (overloaded machine): this is not the
						// scenario "blocking call outstanding"; the run is not evaluated
						atomic.StoreInt32(&r.untimely, 1)
					}
					r.log("BlockFail", p, 0, "", 0, 0, 0, "")
					dead = true
				}
			}
		}
		if rng.Intn(5) == 0 {
			r.log("Close", p, 0, "", 0, 0, 0, "")
			r.log("Release", p, 0, "", 0, 0, 0, "")
			closed = true
			d.Close()
		}
	}
	var d rueidis.DedicatedClient
	var cancel func()
	if rng.Intn(2) == 0 {
		d, cancel = r.client.Dedicate()
		script(d)
		if !closed {
			r.log("Release", p, 0, "", 0, 0, 0, "")
		} else {
			r.log("Release2", p, 0, "", 0, 0, 0, "")
		}
		cancel()
	} else {
		r.client.Dedicated(func(dc rueidis.DedicatedClient) error {
			d = dc
			script(dc)
			if !closed {
				r.log("Release", p, 0, "", 0, 0, 0, "")
			} else {
				r.log("Release2", p, 0, "", 0, 0, 0, "")
			}
			return nil
		})
	}
	// the hooks of the session are gone: their channel is closed (with at most one error)
	if hookCh != nil {
		n := 0
		timeout := time.After(10 * time.Second)
	drain:
		for {
			select {
			case _, ok := <-hookCh:
				if !ok {
					break drain
				}
				n++
			case <-timeout:
				r.rep.Violate("dedicated-hooks-survive-release topo="+topo, fmt.Sprintf("the error channel of session %d's hooks was not closed within 10s of release", p), r.tr.Events())
				break drain
			}
		}
		if n > 1 {
			r.rep.Violate("dedicated-hooks-channel-errors topo="+topo, fmt.Sprintf("%d errors on the hooks channel", n), r.tr.Events())
		}
	}
	// ---- use after release: every method must answer ErrDedicatedClientRecycled and touch no connection
	late := func(method string, err error) {
		res := "recycled"
		if !errors.Is(err, rueidis.ErrDedicatedClientRecycled) {
			res = fmt.Sprintf("other:%v", err)
			r.rep.Violate("dedicated-use-after-release method="+method+" topo="+topo, fmt.Sprintf("%s on a released dedicated client of session %d returned %v", method, p, err), r.tr.Events())
		}
		r.log("Late", p, 0, method, 0, 0, 0, res)
	}
	ctx, c := context.WithTimeout(bg, 10*time.Second)
	defer c()
	lk := "late:" + tag
	late("Do", d.Do(ctx, d.B().Get().Key(lk).Build()).Error())
	for _, res := range d.DoMulti(ctx, d.B().Get().Key(lk).Build(), d.B().Get().Key(lk).Build()) {
		late("DoMulti", res.Error())
	}
	late("Receive", d.Receive(ctx, d.B().Subscribe().Channel(lk).Build(), func(rueidis.PubSubMessage) {}))
	chErr := func(ch <-chan error) error {
		if ch == nil {
			return errors.New("nil channel")
		}
		select {
		case e := <-ch:
			return e
		case <-time.After(5 * time.Second):
			return errors.New("no error on the channel")
		}
	}
	late("SetPubSubHooks", chErr(d.SetPubSubHooks(rueidis.PubSubHooks{OnMessage: func(rueidis.PubSubMessage) {}})))
	late("SetOnInvalidations", chErr(d.SetOnInvalidations(func([]rueidis.RedisMessage) {})))
	r.log("Release2", p, 0, "", 0, 0, 0, "")
	if cancel != nil {
		cancel()
	} else {
		d.Close()
	}
	late("DoAfterSecondRelease", d.Do(ctx, d.B().Get().Key(lk).Build()).Error())
}

// monitors evaluates C25 directly on the merged log (independently of the trace specification).
func (r *dedRun) monitors(events []map[string]any) {
	owner := map[int]int{} // server connection -> process holding it (from its first tagged command to its Store)
	for _, e := range events {
		p, conn := e["p"].(int), e["conn"].(int)
		switch e["ev"] {
		case "Send":
			if e["what"] == "late" {
				r.rep.Violate("dedicated-late-call-reached-server topo="+r.topo, fmt.Sprintf("a call made after release by session %d reached connection %d", p, conn), events)
				continue
			}
			if p < 0 {
				continue
			}
			if cur, held := owner[conn]; held && cur != p {
				r.rep.Violate("dedicated-foreign-command topo="+r.topo, fmt.Sprintf("connection %d is held by process %d but received a command of process %d", conn, cur, p), events)
			}
			if p != 0 {
				owner[conn] = p
			}
		case "Store":
			if conn != 0 {
				delete(owner, conn)
			}
		}
	}
}

// openMultiScenarios: a session that leaves a MULTI open (an error path between MULTI and EXEC) and is released.
//
//	sync wire       pipe.CleanSubscriptions does nothing while the background loop is not running: the connection goes
//	                back inside MULTI and the next session's commands are queued into the abandoned transaction
//	background wire the UNSUBSCRIBE of CleanSubscriptions is answered QUEUED (DISCARD is sent last) and
//	                _backgroundRead panics: run in a child process
func openMultiScenarios(rep *vh.Report) {
	M := fakeredis.NewServer("M", fakeredis.Options{})
	defer M.Close()
	nw := fakeredis.NewNetwork()
	nw.Add(addrM, M)
	client, err := rueidis.NewClient(rueidis.ClientOption{InitAddress: []string{addrM}, DialCtxFn: nw.DialCtxFn(), ForceSingleClient: true,
		DisableRetry: true, BlockingPoolSize: 1})
	if err != nil {
		rep.Inconcl("open-MULTI scenario: %v", err)
		return
	}
	defer client.Close()
	ctx, cancel := context.WithTimeout(context.Background(), 20*time.Second)
	defer cancel()
	client.Dedicated(func(d rueidis.DedicatedClient) error {
		d.Do(ctx, d.B().Watch().Key("k:{d1}:w").Build())
		d.Do(ctx, d.B().Multi().Build())
		d.Do(ctx, d.B().Incr().Key("k:{d1}:c").Build()) // queued, then the session gives up (no EXEC, no DISCARD)
		return errors.New("business error")
	})
	client.Dedicated(func(d rueidis.DedicatedClient) error {
		res := d.DoMulti(ctx, d.B().Multi().Build(), d.B().Incr().Key("k:{d2}:c").Build(), d.B().Exec().Build())
		arr, _ := res[2].ToArray()
		foreign := M.Do("GET", "k:{d1}:c")
		if len(arr) != 1 || !foreign.IsNull() {
			rep.Violate("dedicated-open-multi-leaks-into-next-session",
				fmt.Sprintf("session 1 left MULTI open on a wire in synchronous mode and was released; session 2's MULTI/INCR/EXEC on the same connection returned %d results (MULTI reply: %v) and executed session 1's abandoned INCR (k:{d1}:c = %s)",
					len(arr), res[0].Error(), foreign.String()), flat(M.Conn(2).Log()))
		}
		return nil
	})
	rep.Evaluations += 2
	// background wire: child process
	exe, _ := os.Executable()
	out, err := exec.Command(exe, "-mode", "releasepanic").CombinedOutput()
	switch {
	case strings.Contains(string(out), "survived release"):
	case strings.Contains(string(out), "SUBSCRIBE/UNSUBSCRIBE are not allowed in MULTI/EXEC block"):
		rep.Violate("dedicated-release-panics-after-open-multi",
			"a dedicated session used a cancellable context (background loop running), sent MULTI and was released: the process panicked in _backgroundRead because the clean-up UNSUBSCRIBE was answered QUEUED\n"+tailOf(string(out), 600), nil)
	default:
		rep.Inconcl("release-panic child process: %v\n%s", err, tailOf(string(out), 600))
	}
}

func tailOf(s string, n int) string {
	if len(s) > n {
		return s[len(s)-n:]
	}
	return s
}

// runReleasePanic is the body of the child process.
func runReleasePanic() {
	M := fakeredis.NewServer("M", fakeredis.Options{})
	nw := fakeredis.NewNetwork()
	nw.Add(addrM, M)
	c, err := rueidis.NewClient(rueidis.ClientOption{InitAddress: []string{addrM}, DialCtxFn: nw.DialCtxFn(), ForceSingleClient: true})
	if err != nil {
		fmt.Println("NewClient:", err)
		return
	}
	d, release := c.Dedicate()
	ctx, cancel := context.WithCancel(context.Background())
	d.Do(ctx, d.B().Get().Key("k:{d1}:g:bg").Build())
	cancel()
	d.Do(context.Background(), d.B().Multi().Build())
	release()
	time.Sleep(500 * time.Millisecond)
	fmt.Println("survived release")
}

// closeAfterReleaseScenario: Close() on a dedicated client that was already released must be rejected like every other
// call; in particular it must not close the connection, which by then belongs to the pool or to the next session.
func closeAfterReleaseScenario(rep *vh.Report, topo string) {
	M := fakeredis.NewServer("M", fakeredis.Options{})
	defer M.Close()
	nw := fakeredis.NewNetwork()
	nw.Add(addrM, M)
	M.SetIntercept(func(cn *fakeredis.Conn, argv []string) (fakeredis.Value, fakeredis.Action) {
		if strings.ToUpper(argv[0]) == "CLUSTER" && len(argv) > 1 && strings.ToUpper(argv[1]) == "SLOTS" && topo == "cluster" {
			return fakeredis.Array(fakeredis.Array(fakeredis.Int(0), fakeredis.Int(16383),
				fakeredis.Array(fakeredis.Bulk("127.0.0.1"), fakeredis.Int(7001), fakeredis.Bulk("0000000000000000000000000000000000000001")))), fakeredis.Reply
		}
		return fakeredis.Value{}, fakeredis.Pass
	})
	opt := rueidis.ClientOption{InitAddress: []string{addrM}, DialCtxFn: nw.DialCtxFn(), DisableRetry: true, BlockingPoolSize: 1, PipelineMultiplex: -1}
	opt.ForceSingleClient = topo == "single"
	client, err := rueidis.NewClient(opt)
	if err != nil {
		rep.Inconcl("close-after-release scenario (%s): %v", topo, err)
		return
	}
	defer client.Close()
	ctx, cancel := context.WithTimeout(context.Background(), 20*time.Second)
	defer cancel()
	a, releaseA := client.Dedicate()
	a.Do(ctx, a.B().Watch().Key("k:{d1}:w").Build())
	releaseA()
	b, releaseB := client.Dedicate()
	defer releaseB()
	if err := b.Do(ctx, b.B().Watch().Key("k:{d2}:w").Build()).Error(); err != nil {
		rep.Inconcl("close-after-release scenario (%s): second session: %v", topo, err)
		return
	}
	a.Close() // use after release
	err = b.Do(ctx, b.B().Get().Key("k:{d2}:g").Build()).Error()
	rep.Evaluations++
	if err != nil && !rueidis.IsRedisNil(err) {
		rep.Violate("dedicated-close-after-release-closes-connection topo="+topo,
			fmt.Sprintf("session 1 was released, session 2 got its connection; a late Close() on session 1's client closed that connection: session 2's next command failed with %v", err), snapshot(M))
	}
}
