package main

import (
	"bufio"
	"bytes"
	"context"
	"encoding/json"
	"errors"
	"fmt"
	"os"
	"reflect"
	"sort"
	"strings"
	"sync"
	"sync/atomic"
	"time"

	"github.com/redis/rueidis"
	"verifharness/fakeredis"
	"verifharness/vh"
)

// ---- CASE records of spec/client/Setup.tla (the oracle: nothing below decides what is right)

type optRec struct {
	Cred    string `json:"cred"`
	DCred   string `json:"dcred"` // result class of AuthCredentialsFn: off (no provider) | empty | pass | userpass | useronly
	Name    string `json:"name"`
	DB      int    `json:"db"`
	Cache   string `json:"cache"`
	RO      bool   `json:"ro"`
	NoTouch bool   `json:"notouch"`
	NoEvict bool   `json:"noevict"`
	SetInfo string `json:"setinfo"`
	R2      bool   `json:"r2"`
	AZ      string `json:"az"`
	Topo    string `json:"topo"`
	SCred   string `json:"scred"`
	SName   string `json:"sname"`
}

type faultRec struct {
	Slot string `json:"slot"`
	Step int    `json:"step"`
	Kind string `json:"kind"`
	Txt  string `json:"txt"` // kind "err": which error text the server answers with (the specification knows its class)
}

type sessRec struct {
	Authed  bool   `json:"authed"`
	User    string `json:"user"`
	Proto   int    `json:"proto"`
	Name    string `json:"name"`
	DB      int    `json:"db"`
	Track   string `json:"track"`
	RO      bool   `json:"ro"`
	NoTouch bool   `json:"notouch"`
	NoEvict bool   `json:"noevict"`
	Capa    bool   `json:"capa"`
	Lib     string `json:"lib"`
	Ver     string `json:"ver"`
}

type slotRec struct {
	Log  [][]string `json:"log"`
	Out  string     `json:"out"`
	Sess sessRec    `json:"sess"`
	Need pairRec    `json:"need"` // the one credential pair the specification lets this connection use (server user table)
}

type pairRec struct {
	U string `json:"u"`
	P string `json:"p"`
}

type caseRec struct {
	O      optRec   `json:"o"`
	Srv    string   `json:"srv"`
	Fault  faultRec `json:"fault"`
	UCmd   string   `json:"ucmd"`
	Result string   `json:"result"`
	Served string   `json:"served"`
	S1     slotRec  `json:"S1"`
	M1     slotRec  `json:"M1"`
	M2     slotRec  `json:"M2"`
}

var errPanic = errors.New("panic")

const (
	addrM = "127.0.0.1:7001"
	addrS = "127.0.0.1:26379"
)

// usersFor builds the user table of a fake server from the pair Setup.tla (AuthOK) says it accepts: no users for the
// empty pair, the default user's password for a password-only pair, otherwise an ACL user (empty password = nopass)
// next to a default user with an unrelated password.
func usersFor(need pairRec) map[string]string {
	switch {
	case need.U == "" && need.P == "":
		return nil
	case need.U == "":
		return map[string]string{"default": need.P}
	}
	return map[string]string{"default": "dpw", need.U: need.P}
}

// staticPair / dynPair are the concrete values of the credential classes of Setup.tla (StaticPair, DynPair); they only
// fill the option record in - which pair a connection must use is read from the CASE record (slot.need, slot.log).
func staticPair(cred string) (user, pass string) {
	switch cred {
	case "pass":
		return "", "pw"
	case "userpass":
		return "u1", "pw"
	case "useronly":
		return "u1", ""
	case "spass":
		return "", "spw"
	}
	return "", ""
}

func dynPair(dcred string, sentinel bool) (user, pass string) {
	x := ""
	if sentinel {
		x = "s"
	}
	switch dcred {
	case "pass":
		return "", "tok" + x
	case "userpass":
		return "u2" + x, "tok2" + x
	case "useronly":
		return "u2" + x, ""
	}
	return "", ""
}

// errText is the wire text of an injected error reply of class fault.txt answering command argv.
func errText(txt string, argv []string) string {
	switch txt {
	case "noperm":
		return "NOPERM User default has no permissions to run the '" + strings.ToLower(argv[0]) + "' command"
	case "noauth":
		return "NOAUTH Authentication required."
	case "loading":
		return "LOADING Redis is loading the dataset in memory"
	case "unkself":
		return "ERR unknown command '" + argv[0] + "', with args beginning with: "
	case "unkhello":
		return "ERR unknown command 'HELLO', with args beginning with: '3' "
	case "readonly":
		return "READONLY You can't write against a read only replica."
	case "wrongpass":
		return "WRONGPASS invalid username-password pair or user is disabled."
	}
	return "ERR injected failure"
}

func subst(log [][]string) []string {
	out := make([]string, len(log))
	for i, c := range log {
		cc := make([]string, len(c))
		for j, a := range c {
			switch a {
			case "$LIBNAME":
				a = rueidis.LibName
			case "$LIBVER":
				a = rueidis.LibVer
			}
			cc[j] = a
		}
		out[i] = strings.Join(cc, " ")
	}
	return out
}

func flat(log [][]string) []string {
	out := make([]string, len(log))
	for i, c := range log {
		out[i] = strings.Join(c, " ")
	}
	return out
}

func isSetupCmd(c string) bool {
	switch strings.ToUpper(strings.SplitN(c, " ", 2)[0]) {
	case "HELLO", "AUTH", "CLIENT", "SELECT", "READONLY", "INFO":
		return true
	}
	return false
}

// firstDiff names the first position where two command logs differ (command names only: stable signature).
func firstDiff(want, got []string) string {
	name := func(l []string, i int) string {
		if i >= len(l) {
			return "<end>"
		}
		f := strings.Fields(l[i])
		if len(f) > 1 && strings.ToUpper(f[0]) == "CLIENT" {
			return f[0] + "-" + f[1]
		}
		if len(f) > 1 && strings.ToUpper(f[0]) == "HELLO" {
			return f[0] + f[1]
		}
		if len(f) == 0 {
			return "<empty>"
		}
		return f[0]
	}
	for i := 0; i < len(want) || i < len(got); i++ {
		if i >= len(want) || i >= len(got) || want[i] != got[i] {
			d := fmt.Sprintf("want=%s/got=%s", name(want, i), name(got, i))
			if i < len(want) && i < len(got) && name(want, i) == name(got, i) {
				d += " differ=" + argDiff(strings.Fields(want[i]), strings.Fields(got[i]))
			}
			return d
		}
	}
	return ""
}

// argDiff names the part of two equally named commands that differs: the last keyword in front of the first differing
// argument and the offset behind it (HELLO 3 AUTH u p: "AUTH+1" = the user name, "AUTH+2" = the password).
func argDiff(w, g []string) string {
	kw, at := "arg", 0
	for j := 0; j < len(w) || j < len(g); j++ {
		if j < len(w) && j < len(g) && w[j] == g[j] {
			switch up := strings.ToUpper(w[j]); up {
			case "AUTH", "SETNAME", "TRACKING", "SETINFO", "SELECT", "HELLO":
				kw, at = up, j
			}
			continue
		}
		if j >= len(w) {
			return fmt.Sprintf("%s+%d-extra", kw, j-at)
		}
		if j >= len(g) {
			return fmt.Sprintf("%s+%d-missing", kw, j-at)
		}
		return fmt.Sprintf("%s+%d", kw, j-at)
	}
	return "none"
}

func trackOf(c *fakeredis.Conn) string {
	m := c.TrackingMode()
	if m == "optin" && c.TrackingNoLoop() {
		return "optin-noloop"
	}
	return m
}

type setupStats struct {
	cases, nontrivial int64
	mu                sync.Mutex
	perKind           map[string]int // reported violations per kind of mismatch (without the case class)
	suppressed        int
}

// admit keeps the report readable when one defect shows in hundreds of cases: at most 8 violations per kind of
// mismatch (e.g. "log-mismatch slot=M1 out=ok3 want=HELLO3/got=HELLO3 differ=AUTH+1") are reported with their case, the
// rest is counted in extra.suppressed_violations.
func (st *setupStats) admit(kind string) bool {
	st.mu.Lock()
	defer st.mu.Unlock()
	if st.perKind == nil {
		st.perKind = map[string]int{}
	}
	st.perKind[kind]++
	if st.perKind[kind] > 8 {
		st.suppressed++
		return false
	}
	return true
}

func (c *caseRec) class() string {
	f := "nofault"
	if c.Fault.Kind != "none" {
		f = fmt.Sprintf("%s@%s", c.Fault.Kind, c.Fault.Slot)
		if c.Fault.Txt != "" {
			f = fmt.Sprintf("%s:%s@%s", c.Fault.Kind, c.Fault.Txt, c.Fault.Slot)
		}
	}
	return fmt.Sprintf("topo=%s srv=%s fault=%s ucmd=%s", c.O.Topo, c.Srv, f, c.UCmd)
}

func runSetup(rep *vh.Report) {
	f, err := os.Open(*casesF)
	if err != nil {
		rep.Inconcl("cannot read cases: %v", err)
		return
	}
	defer f.Close()
	var cases []caseRec
	sc := bufio.NewScanner(f)
	sc.Buffer(make([]byte, 1<<20), 1<<24)
	for sc.Scan() {
		if len(bytes.TrimSpace(sc.Bytes())) == 0 {
			continue
		}
		var c caseRec
		if err := json.Unmarshal(sc.Bytes(), &c); err != nil {
			rep.Inconcl("bad CASE record: %v", err)
			return
		}
		cases = append(cases, c)
	}
	var st setupStats
	var wg sync.WaitGroup
	ch := make(chan *caseRec)
	for w := 0; w < *workers; w++ {
		wg.Add(1)
		go func() {
			defer wg.Done()
			for c := range ch {
				runCase(rep, c, &st)
			}
		}()
	}
	for i := range cases {
		ch <- &cases[i]
	}
	close(ch)
	wg.Wait()
	if st.suppressed > 0 {
		if rep.Extra == nil {
			rep.Extra = map[string]any{}
		}
		rep.Extra["suppressed_violations"] = st.suppressed
		rep.Extra["violations_per_kind"] = st.perKind
	}
	rep.Evaluations = int(st.cases)
	rep.DistinctNontrivial = int(st.nontrivial)
	rep.Traces = int(st.cases)
	rep.Rule = "setup cases: one per (option record, server kind, fault, user command) printed by Setup.tla; non-trivial = an injected fault fired, the server rejected HELLO 3, or more than one connection was set up"
	rep.Assumptions = append(rep.Assumptions,
		"fakeredis stands for the Redis server (HELLO/AUTH/CLIENT/SELECT/READONLY semantics, NOAUTH after command lookup)",
		"the environment part of Setup.tla (Exec) is a model of fakeredis; a mismatch shows as a log/session difference")
}

func runCase(rep *vh.Report, c *caseRec, st *setupStats) {
	defer func() {
		if r := recover(); r != nil {
			rep.Violate("setup-panic "+c.class(), fmt.Sprintf("panic %v in case %+v", r, *c), c)
		}
	}()
	atomic.AddInt64(&st.cases, 1)
	if c.Fault.Kind != "none" || c.Srv != "v7" || c.M2.Out != "none" || c.S1.Out != "none" {
		atomic.AddInt64(&st.nontrivial, 1)
	}
	sopt := fakeredis.Options{AZ: "az1", NoHello: c.Srv == "nohello"}
	if c.Srv == "proto2" {
		sopt.MaxProto = 2
	}
	mo := sopt
	mo.Users = usersFor(c.M1.Need)
	M := fakeredis.NewServer("M", mo)
	defer M.Close()
	nw := fakeredis.NewNetwork()
	nw.Add(addrM, M)
	var S *fakeredis.Server
	if c.O.Topo == "sentinel" {
		so := sopt
		so.Users = usersFor(c.S1.Need)
		S = fakeredis.NewServer("S", so)
		defer S.Close()
		nw.Add(addrS, S)
	}
	// the user command must find data so that BLPOP returns at once
	if c.O.DB != 0 {
		M.Do("SELECT", fmt.Sprint(c.O.DB))
	}
	M.Do("RPUSH", "ubl", "x")
	M.Do("SET", "uk", "v")
	M.Do("SET", "usk", "sv")
	M.Do("SELECT", "0")

	icpt := func(node string) fakeredis.InterceptFn {
		return func(cn *fakeredis.Conn, argv []string) (fakeredis.Value, fakeredis.Action) {
			slot := ""
			switch {
			case node == "S" && cn.ID() == 1:
				slot = "S1"
			case node == "M" && cn.ID() == 1:
				slot = "M1"
			case node == "M" && cn.ID() == 2:
				slot = "M2"
			}
			if slot != "" && slot == c.Fault.Slot && len(cn.Log())-1 == c.Fault.Step {
				switch c.Fault.Kind {
				case "err":
					return fakeredis.Err(errText(c.Fault.Txt, argv)), fakeredis.Reply
				case "cut":
					return fakeredis.Value{}, fakeredis.CutNow
				case "proto2map":
					if strings.ToUpper(argv[0]) == "HELLO" {
						return fakeredis.Map(fakeredis.Bulk("server"), fakeredis.Bulk("redis"), fakeredis.Bulk("version"), fakeredis.Bulk("7.2.4"),
							fakeredis.Bulk("proto"), fakeredis.Int(2), fakeredis.Bulk("id"), fakeredis.Int(int64(cn.ID())),
							fakeredis.Bulk("mode"), fakeredis.Bulk("standalone"), fakeredis.Bulk("role"), fakeredis.Bulk("master"),
							fakeredis.Bulk("modules"), fakeredis.Array()), fakeredis.Reply
					}
				}
			}
			up := strings.ToUpper(argv[0])
			if up == "CLUSTER" && len(argv) > 1 && strings.ToUpper(argv[1]) == "SLOTS" && c.O.Topo == "cluster" {
				return fakeredis.Array(fakeredis.Array(fakeredis.Int(0), fakeredis.Int(16383),
					fakeredis.Array(fakeredis.Bulk("127.0.0.1"), fakeredis.Int(7001), fakeredis.Bulk("0000000000000000000000000000000000000001")))), fakeredis.Reply
			}
			if up == "SENTINEL" && len(argv) > 1 {
				switch strings.ToUpper(argv[1]) {
				case "SENTINELS":
					return fakeredis.Array(), fakeredis.Reply
				case "GET-MASTER-ADDR-BY-NAME":
					return fakeredis.BulkArray("127.0.0.1", "7001"), fakeredis.Reply
				case "REPLICAS":
					return fakeredis.Array(), fakeredis.Reply
				}
			}
			return fakeredis.Value{}, fakeredis.Pass
		}
	}
	M.SetIntercept(icpt("M"))
	if S != nil {
		S.SetIntercept(icpt("S"))
	}

	opt := rueidis.ClientOption{
		InitAddress:       []string{addrM},
		DialCtxFn:         nw.DialCtxFn(),
		DisableRetry:      true,
		PipelineMultiplex: -1,
		ClientName:        c.O.Name,
		SelectDB:          c.O.DB,
		ReplicaOnly:       c.O.RO,
		ClientNoTouch:     c.O.NoTouch,
		ClientNoEvict:     c.O.NoEvict,
		AlwaysRESP2:       c.O.R2,
	}
	opt.Dialer.KeepAlive = 10 * time.Minute // no background PING inside a case
	// AuthCredentialsFn fails for the connection the fault names: the k-th connection to that node
	var authM, authS int32
	failAuth := func(addr string) bool {
		if c.Fault.Kind != "authfn" {
			return false
		}
		if addr == addrS {
			return atomic.AddInt32(&authS, 1) == 1 && c.Fault.Slot == "S1"
		}
		n := atomic.AddInt32(&authM, 1)
		return (n == 1 && c.Fault.Slot == "M1") || (n == 2 && c.Fault.Slot == "M2")
	}
	// static credentials AND (dcred != off) a provider: both are configured, the provider answers per address
	opt.Username, opt.Password = staticPair(c.O.Cred)
	if c.O.DCred != "off" {
		opt.AuthCredentialsFn = func(ac rueidis.AuthCredentialsContext) (rueidis.AuthCredentials, error) {
			addr := ac.Address.String()
			if failAuth(addr) {
				return rueidis.AuthCredentials{}, errors.New("injected AuthCredentialsFn failure")
			}
			u, p := dynPair(c.O.DCred, addr == addrS)
			return rueidis.AuthCredentials{Username: u, Password: p}, nil
		}
	}
	switch c.O.Cache {
	case "custom":
		opt.ClientTrackingOptions = []string{"OPTIN", "NOLOOP"}
	case "bcast":
		opt.ClientTrackingOptions = []string{"BCAST", "PREFIX", "p:"}
	case "off":
		opt.DisableCache = true
	}
	switch c.O.SetInfo {
	case "two":
		opt.ClientSetInfo = []string{"mylib", "1.2.3"}
	case "other":
		opt.ClientSetInfo = []string{}
	}
	switch c.O.AZ {
	case "enable":
		opt.EnableReplicaAZInfo = true
	case "info":
		opt.EnableReplicaAZInfo, opt.AZFromInfo = true, true
	}
	switch c.O.Topo {
	case "single":
		opt.ForceSingleClient = true
	case "redirect":
		opt.Standalone.EnableRedirect = true
	case "sentinel":
		opt.InitAddress = []string{addrS}
		opt.Sentinel.MasterSet = "mymaster"
		su, sp := staticPair(c.O.SCred)
		opt.Sentinel.Username, opt.Sentinel.Password, opt.Sentinel.ClientName = su, sp, c.O.SName
		opt.Sentinel.Dialer.KeepAlive = 10 * time.Minute
	}

	bad := func(kind, detail string) {
		if !st.admit(kind) {
			return
		}
		rep.Violate(fmt.Sprintf("setup-%s %s", kind, c.class()), detail, map[string]any{"case": c, "logs": snapshot(M, S)})
	}

	type ncRes struct {
		cl  rueidis.Client
		err error
	}
	ncCh := make(chan ncRes, 1)
	go func() {
		defer func() {
			if r := recover(); r != nil {
				ncCh <- ncRes{nil, fmt.Errorf("%w: %v", errPanic, r)}
			}
		}()
		cl, err := rueidis.NewClient(opt)
		ncCh <- ncRes{cl, err}
	}()
	var client rueidis.Client
	select {
	case r := <-ncCh:
		client, err0 := r.cl, r.err
		defer func() {
			if client != nil && !(reflect.ValueOf(client).Kind() == reflect.Ptr && reflect.ValueOf(client).IsNil()) {
				client.Close()
			}
		}()
		gotRes := "ok"
		if errors.Is(err0, errPanic) {
			rep.Violate(fmt.Sprintf("setup-panic-in-NewClient srv=%s az=%s msg=%s", c.Srv, c.O.AZ, strings.SplitN(err0.Error(), "\n", 2)[0]),
				fmt.Sprintf("NewClient panicked: %v (case %s)", err0, c.class()), map[string]any{"case": c, "logs": snapshot(M, S)})
			return
		}
		if err0 != nil {
			gotRes = "newclient-fail"
			if errors.Is(err0, rueidis.ErrNoCache) {
				gotRes = "newclient-nocache"
			}
		} else {
			gotRes = userCommand(c, client, M)
		}
		if gotRes == "hang" {
			rep.Inconcl("user command did not return within 10s: %s", c.class())
			return
		}
		if gotRes != c.Result {
			bad("outcome-mismatch want="+c.Result+" got="+gotRes, fmt.Sprintf("specification predicts %q, the client produced %q (NewClient error: %v)", c.Result, gotRes, err0))
		}
	case <-time.After(20 * time.Second):
		_ = client
		rep.Inconcl("NewClient did not return within 20s: %s", c.class())
		return
	}

	// ---- per-connection comparison with the specification's prediction
	check := func(slot string, want slotRec, srv *fakeredis.Server, id int) {
		var cn *fakeredis.Conn
		if srv != nil {
			cn = srv.Conn(id)
		}
		if want.Out == "none" {
			if cn != nil && slot != "S1" {
				bad("unexpected-connection slot="+slot, fmt.Sprintf("connection %s was opened (log %v) but the specification opens none", slot, flat(cn.Log())))
			}
			return
		}
		if cn == nil {
			bad("missing-connection slot="+slot, "the specification sets up connection "+slot+", the client never dialed it")
			return
		}
		wl, gl := subst(want.Log), flat(cn.Log())
		if slot == "S1" { // the sentinel connection goes on with (concurrent) sentinel traffic: compare the leading setup run
			n := 0
			for n < len(gl) && isSetupCmd(gl[n]) {
				n++
			}
			gl = gl[:n]
		}
		if want.Out == "fail" || want.Out == "nocache" {
			// p.Close() of a failed connection pushes one PING through its queue and waits at most 1 s for the answer:
			// whether the server still sees it is a matter of timing, so the trailing PING is optional on both sides
			if k := len(wl); k > 0 && wl[k-1] == "PING" {
				wl = wl[:k-1]
			}
			if k := len(gl); k > 0 && gl[k-1] == "PING" {
				gl = gl[:k-1]
			}
		}
		if d := firstDiff(wl, gl); d != "" {
			bad(fmt.Sprintf("log-mismatch slot=%s out=%s %s", slot, want.Out, d),
				fmt.Sprintf("connection %s: specification predicts\n  %s\nserver received\n  %s", slot, strings.Join(wl, " | "), strings.Join(gl, " | ")))
			return
		}
		if (want.Out == "ok3" || want.Out == "ok2") && cn.Closed() && c.Result == "ok" {
			bad("connection-closed slot="+slot, "connection "+slot+" was set up completely and the command succeeded, yet the client closed it")
		}
		// (a closed connection has lost its session state; when NewClient fails the earlier connections are being closed)
		if (want.Out == "ok3" || want.Out == "ok2") && !cn.Closed() && !strings.HasPrefix(c.Result, "newclient-") {
			lib, ver := cn.LibInfo()
			capa := false
			for _, x := range cn.Capa() {
				if x == "redirect" {
					capa = true
				}
			}
			got := sessRec{Authed: cn.Authenticated(), User: cn.User(), Proto: cn.Proto(), Name: cn.Name(), DB: cn.DB(), Track: trackOf(cn),
				RO: cn.ReadOnly(), NoTouch: cn.NoTouch(), NoEvict: cn.NoEvict(), Capa: capa, Lib: lib, Ver: ver}
			w := want.Sess
			if w.Lib == "$LIBNAME" {
				w.Lib = rueidis.LibName
			}
			if w.Ver == "$LIBVER" {
				w.Ver = rueidis.LibVer
			}
			if got != w {
				bad(fmt.Sprintf("session-mismatch slot=%s out=%s fields=%s", slot, want.Out, sessDiff(w, got)),
					fmt.Sprintf("connection %s serves commands with session %+v, the specification requires %+v", slot, got, w))
			}
		}
	}
	check("S1", c.S1, S, 1)
	check("M1", c.M1, M, 1)
	check("M2", c.M2, M, 2)
	if M.Conn(3) != nil {
		bad("unexpected-connection slot=M3", fmt.Sprintf("a third connection was opened to the data node: %v", flat(M.Conn(3).Log())))
	}
	// independent of the predicted logs: the user command is on no connection but the one predicted to serve it
	ucmd := map[string]string{"get": "GET uk", "blpop": "BLPOP ubl 1", "stream": "GET usk", "subscribe": "SUBSCRIBE uch"}[c.UCmd]
	for id := 1; id <= 3; id++ {
		if cn := M.Conn(id); cn != nil {
			for _, l := range flat(cn.Log()) {
				if l == ucmd && fmt.Sprintf("M%d", id) != c.Served {
					bad(fmt.Sprintf("user-command-on-unexpected-connection slot=M%d", id), "the user command reached connection M"+fmt.Sprint(id)+" although the specification serves it on '"+c.Served+"'")
				}
			}
		}
	}
	rep.Sample(map[string]any{"case": c.class(), "result": c.Result, "M1": subst(c.M1.Log)})
}

func sessDiff(a, b sessRec) string {
	var d []string
	add := func(n string, x, y any) {
		if x != y {
			d = append(d, n)
		}
	}
	add("authed", a.Authed, b.Authed)
	add("user", a.User, b.User)
	add("proto", a.Proto, b.Proto)
	add("name", a.Name, b.Name)
	add("db", a.DB, b.DB)
	add("track", a.Track, b.Track)
	add("ro", a.RO, b.RO)
	add("notouch", a.NoTouch, b.NoTouch)
	add("noevict", a.NoEvict, b.NoEvict)
	add("capa", a.Capa, b.Capa)
	add("lib", a.Lib, b.Lib)
	add("ver", a.Ver, b.Ver)
	sort.Strings(d)
	return strings.Join(d, ",")
}

func snapshot(servers ...*fakeredis.Server) map[string][]string {
	out := map[string][]string{}
	for _, s := range servers {
		if s == nil {
			continue
		}
		for id := 1; id <= 4; id++ {
			if cn := s.Conn(id); cn != nil {
				out[fmt.Sprintf("%s%d", s.Name(), id)] = flat(cn.Log())
			}
		}
	}
	return out
}

// userCommand issues the case's user command and classifies what the caller saw.
func userCommand(c *caseRec, client rueidis.Client, M *fakeredis.Server) string {
	ctx, cancel := context.WithTimeout(context.Background(), 10*time.Second)
	defer cancel()
	classify := func(err error) string {
		switch {
		case err == nil || rueidis.IsRedisNil(err):
			return "ok"
		case errors.Is(err, context.DeadlineExceeded):
			return "hang"
		case errors.Is(err, rueidis.ErrNoCache):
			return "cmd-nocache"
		}
		// (a failed connection hands its setup error, possibly a Redis error reply, to every caller: whether the
		// command was served is decided on the server-side log, not here)
		return "cmd-fail"
	}
	switch c.UCmd {
	case "get":
		return classify(client.Do(ctx, client.B().Get().Key("uk").Build()).Error())
	case "blpop":
		return classify(client.Do(ctx, client.B().Blpop().Key("ubl").Timeout(1).Build()).Error())
	case "stream":
		s := client.DoStream(ctx, client.B().Get().Key("usk").Build())
		var err error
		var buf bytes.Buffer
		for s.HasNext() {
			if _, err = s.WriteTo(&buf); err != nil {
				break
			}
		}
		if err == nil {
			err = s.Error()
		}
		if errors.Is(err, errEOF) {
			err = nil
		}
		return classify(err)
	case "subscribe":
		sctx, scancel := context.WithCancel(ctx)
		defer scancel()
		done := make(chan error, 1)
		go func() {
			done <- client.Receive(sctx, client.B().Subscribe().Channel("uch").Build(), func(rueidis.PubSubMessage) {})
		}()
		deadline := time.Now().Add(8 * time.Second)
		for time.Now().Before(deadline) {
			select {
			case err := <-done:
				return classify(err)
			default:
			}
			if M.Do("PUBSUB", "NUMSUB", "uch").Arr[1].Int == 1 {
				scancel()
				select {
				case err := <-done:
					if errors.Is(err, context.Canceled) {
						return "ok"
					}
					return classify(err)
				case <-time.After(5 * time.Second):
					return "hang"
				}
			}
			time.Sleep(200 * time.Microsecond)
		}
		return "hang"
	}
	return "unknown-ucmd"
}
