// sessiondrv binds the "connection sessions" specifications to the real rueidis client running against fakeredis:
//
//	-mode setup      (C47) replays every CASE record printed by spec/client/Setup.tla: builds the real client with the
//	                 record's options over fake servers of the record's kind, injects the record's fault, issues the
//	                 user command and compares every connection's command log, server-side session state and the
//	                 outcome with what the specification predicts
//	-mode dedicated  (C25) runs Dedicated/Dedicate sessions interleaved with shared-pipeline and blocking traffic,
//	                 evaluates the isolation / reject-after-release / clean-on-return monitors on the server-side
//	                 history and writes an ndjson trace for spec/pool/SessionTrace.tla
//	-mode stream     (C29) DoStream/DoMultiStream over payload classes, failure points and scripted contexts, checks
//	                 the bytes written and the pool bookkeeping (hook events of the stream pool) and writes a trace
package main

import (
	"flag"
	"fmt"
	"os"

	"verifharness/vh"
)

var (
	mode     = flag.String("mode", "setup", "setup | dedicated | stream")
	casesF   = flag.String("cases", "", "ndjson file with CASE records (setup mode)")
	traceDir = flag.String("tracedir", "", "directory for ndjson traces")
	runs     = flag.Int("runs", 20, "seeded runs (dedicated / stream mode)")
	workers  = flag.Int("workers", 6, "parallel cases")
)

func main() {
	flag.Parse()
	rep := &vh.Report{}
	switch *mode {
	case "setup":
		runSetup(rep)
	case "dedicated":
		runDedicated(rep)
	case "stream":
		runStream(rep)
	case "releasepanic":
		runReleasePanic()
		return
	default:
		fmt.Fprintln(os.Stderr, "unknown mode", *mode)
		os.Exit(2)
	}
	rep.Write(*vh.Out)
}
