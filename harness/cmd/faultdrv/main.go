// faultdrv drives the real rueidis client against fake servers for the failure / cancellation / retry family
// (properties C03, C04, C05, C28):
//
//	-mode retry      TLC-generated retry scenarios (spec/client/Retry.tla), trace for spec/client/RetryTrace.tla
//	-mode fault      TLC-generated break / Close scenarios (spec/pipe/FaultObs.tla), trace for spec/pipe/FaultTrace.tla
//	-mode ctxwait    the waiting places of C05 (pipeline queue, cache flight, retry back-off, done context)
//	-mode entryrace  the TLC counterexample schedule of Pipe.tla's entry race forced through a real pipe with a blocking hook
//	-mode staledead  a call after Close must return ErrClosing even when a dial had failed before
package main

import (
	"flag"

	"verifharness/vh"
)

var (
	mode      = flag.String("mode", "retry", "retry | fault | ctxwait | entryrace | staledead")
	casesPath = flag.String("cases", "", "ndjson file with TLC-generated scenarios")
	tracePath = flag.String("trace", "", "ndjson trace output")
	par       = flag.Int("par", 12, "scenarios run concurrently")
	schedule  = flag.String("schedule", "", "entryrace: comma separated Pipe.tla actions")
	rounds    = flag.Int("rounds", 3, "entryrace: repetitions")
)

func main() {
	flag.Parse()
	rep := &vh.Report{}
	switch *mode {
	case "retry":
		modeRetry(rep, *casesPath, *tracePath, *par)
	case "fault":
		modeFault(rep, *casesPath, *tracePath, *par)
	case "entryrace":
		modeEntryRace(rep, *schedule, *rounds)
	default:
		rep.Inconcl("unknown mode %q", *mode)
	}
	rep.Write(*vh.Out)
}
