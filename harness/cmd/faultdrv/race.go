package main

// Mode "entryrace": a schedule of Pipe.tla (the counterexample TLC finds for NoHang in MC_neg_entryrace.cfg, or any other
// sequence of its caller / Close actions) is forced through a real pipe.  The hook "pipe.enter" sits right after
// incrWaits() in pipe.Do: a blocking hook holds a caller between Enter1 (incrWaits) and Enter2 (the load of p.state).
// Enter1(c), Enter2(c) and CloseStart are placed exactly; the steps in between are the code's own and get a short pause.

import (
	"context"
	"fmt"
	"regexp"
	"strconv"
	"strings"
	"sync"
	"sync/atomic"
	"time"

	"github.com/redis/rueidis"
	"verifharness/vh"
)

type raceCaller struct {
	id     int
	gid    atomic.Int64
	atGate chan struct{}
	gate   chan struct{}
	done   chan struct{}
	kind   string
	val    string
	waits  atomic.Int32
}

var tokenRe = regexp.MustCompile(`^([A-Za-z0-9]+)(?:\((.*)\))?$`)

func modeEntryRace(rep *vh.Report, schedule string, rounds int) {
	if schedule == "" {
		schedule = "Enter1(2),Enter1(1),Enter2(1),Route(1),Put(1),CloseStart,Enter2(2),Route(2),CloseEnd,Leave(2)"
	}
	rep.Rule = "entry-race schedules: replays of a Pipe.tla schedule through a real pipe that place Enter1/Enter2/CloseStart exactly"
	for round := 0; round < rounds; round++ {
		hung, detail, trace := replayEntrySchedule(schedule)
		rep.Evaluations++
		rep.Traces++
		rep.DistinctNontrivial = 1
		if round == 0 {
			rep.Sample(map[string]any{"schedule": schedule, "outcome": detail})
		}
		if hung {
			rep.Violate("hang-after-close entry-race queue="+queueType(),
				"schedule "+schedule+" forced through a real pipe: "+detail, map[string]any{"schedule": schedule, "events": trace})
			return
		}
	}
}

func replayEntrySchedule(schedule string) (hung bool, detail string, trace []string) {
	w := newWorld(1)
	defer w.close()
	w.decide = nil
	var tmu sync.Mutex
	logf := func(f string, a ...any) {
		tmu.Lock()
		trace = append(trace, fmt.Sprintf(f, a...))
		tmu.Unlock()
	}
	client, err := rueidis.NewClient(rueidis.ClientOption{
		InitAddress: []string{w.nodes[0].addr}, DialCtxFn: w.net.DialCtxFn(), ForceSingleClient: true,
		DisableCache: true, DisableRetry: true, PipelineMultiplex: -1,
	})
	if err != nil {
		return false, "client set-up failed: " + err.Error(), nil
	}
	callers := map[int]*raceCaller{}
	var cmu sync.Mutex
	byGid := func(g int64) *raceCaller {
		cmu.Lock()
		defer cmu.Unlock()
		for _, c := range callers {
			if c.gid.Load() == g {
				return c
			}
		}
		return nil
	}
	closeCas := make(chan struct{}, 1)
	var pipeObj atomic.Value
	rueidis.SetVerifHook(func(point string, obj any, a, b int) {
		switch point {
		case "pipe.enter":
			if c := byGid(vh.GoID()); c != nil {
				pipeObj.Store(obj)
				c.waits.Store(int32(a))
				logf("caller %d: incrWaits() = %d, held before the state load", c.id, a)
				close(c.atGate)
				<-c.gate
				st, bg, wt, _ := rueidis.VerifPipeState(obj)
				logf("caller %d: released (state=%d bgState=%d waits=%d)", c.id, st, bg, wt)
			}
		case "pipe.close.cas":
			st, bg, wt, _ := rueidis.VerifPipeState(obj)
			logf("Close: CAS done (waits=%d state=%d bgState=%d pipeWaits=%d)", a, st, bg, wt)
			select {
			case closeCas <- struct{}{}:
			default:
			}
		}
	})
	defer rueidis.SetVerifHook(nil)

	closeDone := make(chan struct{})
	closeStarted := false
	released := map[int]bool{}
	for _, tok := range strings.Split(schedule, ",") {
		m := tokenRe.FindStringSubmatch(strings.TrimSpace(tok))
		if m == nil {
			continue
		}
		arg, _ := strconv.Atoi(strings.TrimSpace(m[2]))
		switch m[1] {
		case "Enter1":
			c := &raceCaller{id: arg, atGate: make(chan struct{}), gate: make(chan struct{}), done: make(chan struct{})}
			cmu.Lock()
			callers[arg] = c
			cmu.Unlock()
			started := make(chan struct{})
			go func() {
				c.gid.Store(vh.GoID())
				close(started)
				c.kind, c.val = renderResult(client.Do(context.Background(), client.B().Get().Key(fmt.Sprintf("k:c%d", c.id)).Build()))
				close(c.done)
			}()
			<-started
			select {
			case <-c.atGate:
			case <-time.After(5 * time.Second):
				logf("caller %d never reached pipe.enter", arg)
			}
		case "Enter2":
			if c := callers[arg]; c != nil && !released[arg] {
				released[arg] = true
				close(c.gate)
				time.Sleep(40 * time.Millisecond)
			}
		case "CloseStart":
			if !closeStarted {
				closeStarted = true
				go func() { client.Close(); close(closeDone) }()
				select {
				case <-closeCas:
				case <-time.After(5 * time.Second):
					logf("Close never reached its CAS")
				}
			}
		default:
			time.Sleep(10 * time.Millisecond)
		}
	}
	for id, c := range callers {
		if !released[id] {
			released[id] = true
			close(c.gate)
		}
	}
	if !closeStarted {
		go func() { client.Close(); close(closeDone) }()
	}
	deadline := time.After(12 * time.Second)
	var pending []string
	for _, c := range callers {
		select {
		case <-c.done:
			logf("caller %d returned %s", c.id, c.kind)
		case <-deadline:
			pending = append(pending, fmt.Sprintf("caller %d (waits at entry %d)", c.id, c.waits.Load()))
		}
	}
	select {
	case <-closeDone:
	case <-time.After(3 * time.Second):
		pending = append(pending, "Close()")
	}
	if len(pending) > 0 {
		st, bg, wt := int32(-1), int32(-1), uint32(0)
		if o := pipeObj.Load(); o != nil {
			st, bg, wt, _ = rueidis.VerifPipeState(o)
		}
		// un-stick the goroutines so that the process can go on: cut the server side
		for _, c := range w.nodes[0].srv.Conns() {
			c.Cut()
		}
		return true, fmt.Sprintf("still pending 12 s after Close(): %s; pipe state=%d bgState=%d waits=%d (a queued call with no background loops)",
			strings.Join(pending, ", "), st, bg, wt), trace
	}
	return false, "all callers and Close() returned", trace
}
