package main

import (
	"context"
	"encoding/json"
	"errors"
	"fmt"
	"net"
	"os"
	"strconv"
	"strings"
	"sync"
	"sync/atomic"
	"time"

	"github.com/redis/rueidis"
	"verifharness/fakeredis"
	"verifharness/vh"
)

// ---------------------------------------------------------------------------------------------------- trace

// Every trace line carries the same field set (TLC rejects access to a missing field).
type ev struct {
	Ev   string `json:"ev"`
	ID   string `json:"id"`   // request / call id ("" when not applicable)
	Conn int    `json:"conn"` // server connection number (node*1000 + id), 0 when not applicable
	Kind string `json:"kind"` // reply kind, break kind, result kind, error kind of a Delay ...
	Cls  string `json:"cls"`  // command class of a Call
	Ck   string `json:"ck"`   // client kind of a Call / scenario name of a RESET
	Dis  bool   `json:"dis"`  // DisableRetry
	N    int    `json:"n"`    // attempts argument of a Delay, ordinal of a scenario
	V    string `json:"v"`    // verdict of a Delay
	Val  string `json:"val"`  // canonical rendering of a reply / a result
	Seq  int    `json:"seq"`
}

type tracer struct {
	mu  sync.Mutex
	evs []ev
}

func (t *tracer) log(e ev) {
	t.mu.Lock()
	e.Seq = len(t.evs) + 1
	t.evs = append(t.evs, e)
	t.mu.Unlock()
}

func (t *tracer) events() []ev {
	t.mu.Lock()
	defer t.mu.Unlock()
	return append([]ev(nil), t.evs...)
}

func (t *tracer) count(evname, id string) int {
	n := 0
	for _, e := range t.events() {
		if e.Ev == evname && e.ID == id {
			n++
		}
	}
	return n
}

func evMaps(es []ev) []map[string]any {
	out := make([]map[string]any, 0, len(es))
	for _, e := range es {
		out = append(out, map[string]any{"ev": e.Ev, "id": e.ID, "conn": e.Conn, "kind": e.Kind, "cls": e.Cls, "ck": e.Ck,
			"dis": e.Dis, "n": e.N, "v": e.V, "val": e.Val, "seq": e.Seq})
	}
	return out
}

// ---------------------------------------------------------------------------------------------------- ids

// Requests carry their id in the key name: "k:<id>" (second word of the command). PTTL (sent by DoCache) and
// set-up commands are not tagged.
func idOf(argv []string) string {
	if len(argv) >= 2 && strings.HasPrefix(argv[1], "k:") && strings.ToUpper(argv[0]) != "PTTL" {
		return argv[1][2:]
	}
	return ""
}

func renderValue(v fakeredis.Value) (kind, val string) {
	switch {
	case v.IsError():
		w := strings.SplitN(v.Str, " ", 2)[0]
		switch w {
		case "LOADING", "TRYAGAIN", "CLUSTERDOWN", "MOVED", "ASK", "REDIRECT":
			return w, "e:" + v.Str
		}
		return "errreply", "e:" + strings.TrimPrefix(v.Str, "ERR ") // the client strips the generic prefix (message.go)
	case v.IsNull():
		return "nil", "nil"
	case v.Typ == fakeredis.TInt:
		return "ok", "i:" + strconv.FormatInt(v.Int, 10)
	case v.Typ == fakeredis.TBulk || v.Typ == fakeredis.TSimple:
		return "ok", "s:" + v.Str
	case v.Typ == fakeredis.TArray:
		ss := make([]string, 0, len(v.Arr))
		for _, e := range v.Arr {
			ss = append(ss, e.Str)
		}
		return "ok", "a:" + strings.Join(ss, ",")
	}
	return "ok", "x:" + v.String()
}

func renderResult(r rueidis.RedisResult) (kind, val string) {
	if err := r.Error(); err != nil {
		return renderErr(err)
	}
	m, _ := r.ToMessage()
	if m.IsInt64() {
		n, _ := m.AsInt64()
		return "ok", "i:" + strconv.FormatInt(n, 10)
	}
	if s, err := m.ToString(); err == nil {
		return "ok", "s:" + s
	}
	if ss, err := m.AsStrSlice(); err == nil {
		return "ok", "a:" + strings.Join(ss, ",")
	}
	return "ok", "x:" + m.String()
}

func readLines(path string, fn func(string) error) error {
	b, err := os.ReadFile(path)
	if err != nil {
		return err
	}
	for _, line := range strings.Split(string(b), "\n") {
		if line = strings.TrimSpace(line); line != "" {
			if err := fn(line); err != nil {
				return err
			}
		}
	}
	return nil
}

func jsonUnmarshal(line string, v any) error { return json.Unmarshal([]byte(line), v) }

// renderErr classifies an error returned by the client: a Redis reply (returned as it is) or a local error.
func renderErr(err error) (kind, val string) {
	if rueidis.IsRedisNil(err) {
		return "nil", "nil"
	}
	if re, ok := rueidis.IsRedisErr(err); ok {
		s := re.Error()
		w := strings.SplitN(s, " ", 2)[0]
		switch w {
		case "LOADING", "TRYAGAIN", "CLUSTERDOWN", "MOVED", "ASK", "REDIRECT":
			return w, "e:" + s
		}
		return "errreply", "e:" + s
	}
	switch {
	case errors.Is(err, context.Canceled), errors.Is(err, context.DeadlineExceeded):
		return "ctx", "ctx"
	case errors.Is(err, rueidis.ErrClosing):
		return "closing", "closing"
	case err.Error() == "connection is expired":
		return "expired", "expired"
	}
	return "neterr", "neterr:" + err.Error()
}

// ---------------------------------------------------------------------------------------------------- servers

type node struct {
	idx  int
	addr string
	srv  *fakeredis.Server
}

type world struct {
	tr    *tracer
	net   *fakeredis.Network
	nodes []*node
	seq   *atomic.Int64
	mu    sync.Mutex
	cur   map[int]string // connection -> id of the request whose reply comes next
	held  map[int]bool   // connections whose replies stay in the server (HoldReplies): they are queued, never delivered
	recvN map[string]int // id -> times received by a server
	// decide is consulted under the dispatcher mutex for every tagged request: n is the ordinal of this reception of id
	decide func(nd *node, c *fakeredis.Conn, id string, n int, argv []string) (fakeredis.Value, fakeredis.Action)
	// other is consulted for untagged commands (CLUSTER SLOTS, SENTINEL ..., PING); nil = pass
	other func(nd *node, c *fakeredis.Conn, argv []string) (fakeredis.Value, fakeredis.Action, bool)
}

func connNo(nd *node, c int) int { return nd.idx*1000 + c }

func newWorld(nnodes int) *world {
	w := &world{tr: &tracer{}, net: fakeredis.NewNetwork(), seq: new(atomic.Int64), cur: map[int]string{}, held: map[int]bool{}, recvN: map[string]int{}}
	for i := 0; i < nnodes; i++ {
		nd := &node{idx: i + 1, addr: fmt.Sprintf("10.0.0.%d:6379", i+1)}
		nd.srv = fakeredis.NewServer(nd.addr, fakeredis.Options{Seq: w.seq})
		w.net.Add(nd.addr, nd.srv)
		w.nodes = append(w.nodes, nd)
		w.wire(nd)
	}
	return w
}

// wire installs the event sink and the intercept of one node. Both run under that node's dispatcher mutex; the shared
// tracer has its own mutex, so the trace order is a linear extension of happens-before.
func (w *world) wire(nd *node) {
	nd.srv.SetEventSink(func(e fakeredis.Event) {
		if e.Conn == 0 {
			return
		}
		cn := connNo(nd, e.Conn)
		switch e.Kind {
		case fakeredis.SConn:
			w.tr.log(ev{Ev: "SConn", Conn: cn})
		case fakeredis.SRecv:
			id := idOf(e.Argv)
			w.mu.Lock()
			w.cur[cn] = id
			w.mu.Unlock()
			if id != "" {
				w.tr.log(ev{Ev: "SRecv", ID: id, Conn: cn, Kind: strings.ToUpper(e.Argv[0])})
			}
		case fakeredis.SExec:
			if id := idOf(e.Argv); id != "" {
				w.tr.log(ev{Ev: "SExec", ID: id, Conn: cn})
			}
		case fakeredis.SRep:
			w.mu.Lock()
			id, held := w.cur[cn], w.held[cn]
			w.mu.Unlock()
			if id != "" {
				k, v := renderValue(e.Reply)
				name := "SRep"
				if held {
					name = "SRepHeld" // produced, but kept in the server: the client cannot have seen it
				}
				w.tr.log(ev{Ev: name, ID: id, Conn: cn, Kind: k, Val: v})
			}
		case fakeredis.SCut:
			kind := "cut"
			if strings.Contains(e.Note, "after-reply-bytes") {
				kind = "midreply"
			}
			w.tr.log(ev{Ev: "SBreak", Conn: cn, Kind: kind})
		case fakeredis.SClose:
			w.tr.log(ev{Ev: "SBreak", Conn: cn, Kind: "clientclose"})
		}
	})
	nd.srv.SetIntercept(func(c *fakeredis.Conn, argv []string) (fakeredis.Value, fakeredis.Action) {
		if id := idOf(argv); id != "" {
			w.mu.Lock()
			w.recvN[id]++
			n := w.recvN[id]
			w.mu.Unlock()
			if w.decide != nil {
				return w.decide(nd, c, id, n, argv)
			}
			return fakeredis.Value{}, fakeredis.Pass
		}
		if w.other != nil {
			if v, a, ok := w.other(nd, c, argv); ok {
				return v, a
			}
		}
		return fakeredis.Value{}, fakeredis.Pass
	})
}

// hold makes the server keep every further reply of connection c (dispatcher mutex held by the caller)
func (w *world) hold(nd *node, c *fakeredis.Conn) {
	w.mu.Lock()
	w.held[connNo(nd, c.ID())] = true
	w.mu.Unlock()
	c.HoldReplies(true)
}

func (w *world) close() {
	for _, nd := range w.nodes {
		nd.srv.Close()
	}
}

func (w *world) conns() (n int) {
	for _, e := range w.tr.events() {
		if e.Ev == "SConn" {
			n++
		}
	}
	return
}

func hostPort(addr string) (string, string) {
	h, p, _ := net.SplitHostPort(addr)
	return h, p
}

// clusterOther answers CLUSTER SLOTS for a cluster of two masters (nodes[0]: slots 0-8191, nodes[1]: 8192-16383) and ASKING.
// The fake servers accept every key; which node a request reaches first only decides where MOVED/ASK point to.
func (w *world) clusterOther(nd *node, c *fakeredis.Conn, argv []string) (fakeredis.Value, fakeredis.Action, bool) {
	if len(argv) >= 2 && strings.EqualFold(argv[0], "CLUSTER") {
		if strings.EqualFold(argv[1], "SLOTS") {
			var groups []fakeredis.Value
			for i, rng := range [][2]int64{{0, 8191}, {8192, 16383}} {
				h, p := hostPort(w.nodes[i].addr)
				port, _ := strconv.Atoi(p)
				groups = append(groups, fakeredis.Array(fakeredis.Int(rng[0]), fakeredis.Int(rng[1]),
					fakeredis.Array(fakeredis.Bulk(h), fakeredis.Int(int64(port)), fakeredis.Bulk(fmt.Sprintf("node%d", i+1)))))
			}
			return fakeredis.Array(groups...), fakeredis.Reply, true
		}
		return fakeredis.Err("ERR unsupported CLUSTER subcommand"), fakeredis.Reply, true
	}
	if len(argv) >= 1 && strings.EqualFold(argv[0], "ASKING") {
		return fakeredis.Simple("OK"), fakeredis.Reply, true
	}
	return fakeredis.Value{}, fakeredis.Pass, false
}

// sentinelOther answers the SENTINEL commands of a sentinel (nodes[1]) that monitors master nodes[0].
func (w *world) sentinelOther(nd *node, c *fakeredis.Conn, argv []string) (fakeredis.Value, fakeredis.Action, bool) {
	if len(argv) >= 2 && strings.EqualFold(argv[0], "SENTINEL") {
		switch strings.ToUpper(argv[1]) {
		case "SENTINELS":
			return fakeredis.Array(), fakeredis.Reply, true
		case "GET-MASTER-ADDR-BY-NAME":
			h, p := hostPort(w.nodes[0].addr)
			return fakeredis.BulkArray(h, p), fakeredis.Reply, true
		case "REPLICAS":
			return fakeredis.Array(), fakeredis.Reply, true
		}
		return fakeredis.Err("ERR unsupported SENTINEL subcommand"), fakeredis.Reply, true
	}
	return fakeredis.Value{}, fakeredis.Pass, false
}

// ---------------------------------------------------------------------------------------------------- misc

func within(d time.Duration, f func()) bool {
	done := make(chan struct{})
	go func() { f(); close(done) }()
	select {
	case <-done:
		return true
	case <-time.After(d):
		return false
	}
}

func waitUntil(d time.Duration, cond func() bool) bool {
	dl := time.Now().Add(d)
	for {
		if cond() {
			return true
		}
		if time.Now().After(dl) {
			return false
		}
		time.Sleep(200 * time.Microsecond)
	}
}

func queueType() string {
	if q := os.Getenv("RUEIDIS_QUEUE_TYPE"); q != "" {
		return q
	}
	return "ring"
}

var _ = vh.Seed
