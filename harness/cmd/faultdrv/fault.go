package main

// Mode "fault": scenarios enumerated by TLC from spec/pipe/FaultObs.tla (FaultGen.cfg).  A set of calls of different
// kinds is left pending on a real client (the server holds the replies), then the connection fails at the chosen point,
// the client is closed, or the calls' contexts end; afterwards one more call is made.  The driver only records what
// happened (trace for spec/pipe/FaultTrace.tla); every judgement (must the call have returned, may it return this) is
// made by TLC on the trace.

import (
	"context"
	"fmt"
	"sort"
	"strings"
	"sync"
	"sync/atomic"
	"time"

	"github.com/redis/rueidis"
	"verifharness/fakeredis"
	"verifharness/vh"
)

type faultScn struct {
	Pend  []string          `json:"pend"`
	Ctx   map[string]string `json:"ctx"`
	Fault string            `json:"fault"`
	Pipe  bool              `json:"pipe"`
	Warm  bool              `json:"warm"`
	Small bool              `json:"small"`
}

func (s faultScn) name() string {
	ks := append([]string(nil), s.Pend...)
	sort.Strings(ks)
	var parts []string
	for _, k := range ks {
		if c := s.Ctx[k]; c != "" && c != "none" {
			parts = append(parts, k+"/"+c)
		} else {
			parts = append(parts, k)
		}
	}
	n := s.Fault + " " + strings.Join(parts, "+")
	if s.Pipe {
		n += " pipelined"
	}
	if s.Warm {
		n += " warm"
	}
	if s.Small {
		n += " small-queue"
	}
	return n
}

func (s faultScn) has(k string) bool {
	for _, p := range s.Pend {
		if p == k {
			return true
		}
	}
	return false
}

type pcall struct {
	id      string
	kind    string
	ctxk    string
	ctx     context.Context
	cancel  context.CancelFunc
	done    chan struct{}
	ctxEnd  atomic.Int64 // unix nano of CancelEnd
	awaited bool
}

const hangWait = 13 * time.Second

// callID maps a request id ("p3.b") to its call ("p3")
func callID(req string) string {
	if i := strings.IndexByte(req, '.'); i >= 0 {
		return req[:i]
	}
	return req
}

func runFaultScenario(sc faultScn, ord int) (events []ev, notes []string) {
	w := newWorld(1)
	defer w.close()
	nd := w.nodes[0]
	tr := w.tr
	logf := func(e ev) { tr.log(e) }
	logf(ev{Ev: "RESET", Ck: sc.name(), Kind: queueType(), V: sc.Fault, N: ord})

	triggerFault := sc.Fault == "cutnow" || sc.Fault == "execcut" || sc.Fault == "midreply"
	var parkedConn atomic.Pointer[fakeredis.Conn]
	w.decide = func(nd *node, c *fakeredis.Conn, id string, n int, argv []string) (fakeredis.Value, fakeredis.Action) {
		switch {
		case strings.HasPrefix(id, "w"), strings.HasPrefix(id, "a"): // warm-up and after calls are answered
			return fakeredis.Value{}, fakeredis.Pass
		case id == "t1.a":
			return fakeredis.Value{}, fakeredis.Pass
		case id == "t1.b": // the trigger's second command stays in the server until the fault
			parkedConn.Store(c)
			return fakeredis.Value{}, fakeredis.Park
		case strings.ToUpper(argv[0]) == "BLPOP" || strings.ToUpper(argv[0]) == "SUBSCRIBE":
			return fakeredis.Value{}, fakeredis.Pass // they block by themselves
		}
		w.hold(nd, c) // executed, but this reply and everything after it on the connection stays in the server
		return fakeredis.Value{}, fakeredis.Pass
	}
	// rewrite request ids to call ids in the trace
	fix := func() []ev {
		es := tr.events()
		for i := range es {
			if es[i].ID != "" && (es[i].Ev == "SRecv" || es[i].Ev == "SExec" || es[i].Ev == "SRep" || es[i].Ev == "SRepHeld") {
				es[i].V = es[i].ID
				es[i].ID = callID(es[i].ID)
			}
		}
		return es
	}

	hasCache := sc.has("cachemiss")
	opt := rueidis.ClientOption{
		InitAddress:       []string{nd.addr},
		DialCtxFn:         w.net.DialCtxFn(),
		ForceSingleClient: true,
		DisableRetry:      true,
		DisableCache:      !hasCache,
		AlwaysPipelining:  sc.Pipe,
		PipelineMultiplex: -1,
	}
	if sc.Fault == "pingtimeout" {
		opt.Dialer.KeepAlive = 150 * time.Millisecond
		opt.ConnWriteTimeout = 600 * time.Millisecond
	}
	if sc.Small {
		opt.RingScaleEachConn = 1
	}
	client, err := rueidis.NewClient(opt)
	if err != nil {
		return fix(), []string{"client set-up failed: " + err.Error()}
	}
	var closed atomic.Bool
	defer func() {
		if !closed.Load() {
			client.Close()
		}
	}()
	note := func(f string, a ...any) { notes = append(notes, fmt.Sprintf(f, a...)) }

	seen := func(id string) bool {
		for _, e := range tr.events() {
			if e.Ev == "SRecv" && callID(e.ID) == id {
				return true
			}
		}
		return false
	}

	// --- a warm-up call answered normally
	if sc.Warm {
		logf(ev{Ev: "Call", ID: "w1", Cls: "do", Ck: "none", Kind: "warm"})
		k, v := renderResult(client.Do(context.Background(), client.B().Get().Key("k:w1").Build()))
		logf(ev{Ev: "Ret", ID: "w1", Kind: k, Val: v, N: -1})
	}

	var mu sync.Mutex
	var calls []*pcall
	var wg sync.WaitGroup
	var dedicated rueidis.DedicatedClient
	var dedRelease func()

	start := func(pc *pcall, fn func(ctx context.Context) (string, string)) {
		pc.done = make(chan struct{})
		pc.ctx, pc.cancel = context.Background(), func() {}
		mu.Lock()
		calls = append(calls, pc)
		mu.Unlock()
		logf(ev{Ev: "Call", ID: pc.id, Cls: pc.kind, Ck: pc.ctxk, Kind: map[bool]string{true: "trigger", false: "pend"}[pc.id == "t1"]})
		switch pc.ctxk {
		case "cancel":
			pc.ctx, pc.cancel = context.WithCancel(context.Background())
		case "done":
			pc.ctx, pc.cancel = context.WithCancel(context.Background())
			logf(ev{Ev: "CancelBegin", ID: pc.id})
			pc.cancel()
			logf(ev{Ev: "CancelEnd", ID: pc.id})
			pc.ctxEnd.Store(time.Now().UnixNano())
		case "deadline":
			// the deadline is armed when the call starts; CancelEnd is logged once ctx.Done() is closed
			pc.ctx, pc.cancel = context.WithTimeout(context.Background(), 400*time.Millisecond)
			logf(ev{Ev: "CancelBegin", ID: pc.id})
			go func() {
				<-pc.ctx.Done()
				pc.ctxEnd.CompareAndSwap(0, time.Now().UnixNano())
				logf(ev{Ev: "CancelEnd", ID: pc.id})
			}()
		}
		wg.Add(1)
		go func() {
			defer wg.Done()
			k, v := fn(pc.ctx)
			late := -1
			if t := pc.ctxEnd.Load(); t != 0 {
				late = int(time.Since(time.Unix(0, t)) / time.Millisecond)
				if late < 0 {
					late = 0
				}
			} else if pc.ctxk == "deadline" && pc.ctx.Err() != nil {
				late = 0
			}
			logf(ev{Ev: "Ret", ID: pc.id, Kind: k, Val: v, N: late})
			close(pc.done)
		}()
	}
	ready := func(pc *pcall, needSeen bool) {
		if pc.ctxk == "done" { // returns at once
			select {
			case <-pc.done:
			case <-time.After(3 * time.Second):
			}
			return
		}
		if needSeen {
			if !waitUntil(3*time.Second, func() bool { return seen(pc.id) }) {
				// legitimately so when the request sits behind a parked command or waits for a queue slot
				time.Sleep(20 * time.Millisecond)
			}
		} else {
			time.Sleep(30 * time.Millisecond)
		}
	}

	// --- the trigger of the cut-at-request faults: a two-command DoMulti whose second command stays in the server
	if triggerFault {
		t := &pcall{id: "t1", kind: "multi", ctxk: "none", awaited: true}
		start(t, func(ctx context.Context) (string, string) {
			rs := client.DoMulti(ctx, client.B().Get().Key("k:t1.a").Build(), client.B().Get().Key("k:t1.b").Build())
			return renderResult(rs[1])
		})
		if !waitUntil(3*time.Second, func() bool { return parkedConn.Load() != nil }) {
			note("the trigger did not reach the server")
		}
	}

	// --- the pending calls, in a fixed order
	order := []string{"cachemiss", "cachewait", "do", "multi", "block", "sub"}
	n := 0
	cacheKey := ""
	for _, kind := range order {
		if !sc.has(kind) {
			continue
		}
		reps := 1
		if sc.Small && kind == "do" {
			reps = 4
		}
		for r := 0; r < reps; r++ {
			n++
			pc := &pcall{id: fmt.Sprintf("p%d", n), kind: kind, ctxk: sc.Ctx[kind], awaited: true}
			if pc.ctxk == "" {
				pc.ctxk = "none"
			}
			if sc.Fault == "ctxend" && pc.ctxk == "none" {
				pc.awaited = false
			}
			if triggerFault && kind == "block" {
				pc.awaited = false
			}
			id := pc.id
			switch kind {
			case "do":
				start(pc, func(ctx context.Context) (string, string) {
					return renderResult(client.Do(ctx, client.B().Get().Key("k:"+id).Build()))
				})
				ready(pc, !triggerFault && !(sc.Small && r >= 2))
			case "multi":
				start(pc, func(ctx context.Context) (string, string) {
					rs := client.DoMulti(ctx, client.B().Get().Key("k:"+id+".a").Build(), client.B().Get().Key("k:"+id+".b").Build())
					k, v := renderResult(rs[1])
					if k0, v0 := renderResult(rs[0]); k0 != "ok" && k0 != "nil" {
						k, v = k0, v0
					}
					return k, v
				})
				ready(pc, !triggerFault)
			case "cachemiss":
				cacheKey = "k:" + id
				start(pc, func(ctx context.Context) (string, string) {
					return renderCache(client.DoCache(ctx, client.B().Get().Key(cacheKey).Cache(), time.Minute))
				})
				ready(pc, !triggerFault)
			case "cachewait":
				start(pc, func(ctx context.Context) (string, string) {
					return renderCache(client.DoCache(ctx, client.B().Get().Key(cacheKey).Cache(), time.Minute))
				})
				ready(pc, false)
			case "block":
				if sc.Fault == "dialfail" {
					// the blocking pool has to dial a connection for this call: refuse it
					logf(ev{Ev: "Fault", Kind: "dialfail"})
					w.net.SetDialHook(func(dst string) error { return fmt.Errorf("dial %s: connection refused (scripted)", dst) })
					start(pc, func(ctx context.Context) (string, string) {
						return renderResult(client.Do(ctx, client.B().Blpop().Key("k:"+id).Timeout(0).Build()))
					})
					select {
					case <-pc.done:
					case <-time.After(5 * time.Second):
					}
					w.net.SetDialHook(nil)
				} else if sc.Fault == "dedclose" {
					dedicated, dedRelease = client.Dedicate()
					start(pc, func(ctx context.Context) (string, string) {
						return renderResult(dedicated.Do(ctx, client.B().Blpop().Key("k:"+id).Timeout(0).Build()))
					})
				} else {
					start(pc, func(ctx context.Context) (string, string) {
						return renderResult(client.Do(ctx, client.B().Blpop().Key("k:"+id).Timeout(0).Build()))
					})
				}
				if sc.Fault != "dialfail" {
					ready(pc, true)
				}
			case "sub":
				start(pc, func(ctx context.Context) (string, string) {
					err := client.Receive(ctx, client.B().Subscribe().Channel("k:"+id).Build(), func(rueidis.PubSubMessage) {})
					if err == nil {
						return "ok", "s:"
					}
					return renderErr(err)
				})
				ready(pc, !triggerFault)
			}
		}
	}

	// --- the fault
	t0 := time.Now()
	switch sc.Fault {
	case "cutall":
		logf(ev{Ev: "Fault", Kind: sc.Fault})
		for _, c := range nd.srv.Conns() {
			c.Cut()
		}
	case "cutnow", "execcut", "midreply":
		logf(ev{Ev: "Fault", Kind: sc.Fault})
		if c := parkedConn.Load(); c != nil {
			switch sc.Fault {
			case "cutnow":
				c.Cut()
			case "execcut":
				nd.srv.Lock()
				w.hold(nd, c)
				c.UnparkExec()
				c.Cut()
				nd.srv.Unlock()
			case "midreply":
				nd.srv.Lock()
				c.CutAfterNextReplyBytes(2)
				c.UnparkExec()
				nd.srv.Unlock()
			}
		}
	case "pingtimeout":
		logf(ev{Ev: "Fault", Kind: sc.Fault})
	case "close", "dialfail":
		logf(ev{Ev: "CloseBegin"})
		client.Close()
		closed.Store(true)
		logf(ev{Ev: "CloseEnd"})
		t0 = time.Now()
		// a blocking command on a pool connection is answered after Close() has returned
		mu.Lock()
		for _, pc := range calls {
			if pc.kind == "block" {
				nd.srv.Do("RPUSH", "k:"+pc.id, "x")
			}
		}
		mu.Unlock()
	case "dedclose":
		mu.Lock()
		id := calls[len(calls)-1].id
		mu.Unlock()
		logf(ev{Ev: "DedCloseBegin", ID: id})
		dedicated.Close()
		logf(ev{Ev: "DedCloseEnd", ID: id})
		_ = dedRelease
		t0 = time.Now()
	case "ctxend":
		mu.Lock()
		for _, pc := range calls {
			if pc.ctxk == "cancel" {
				logf(ev{Ev: "CancelBegin", ID: pc.id})
				pc.cancel()
				pc.ctxEnd.Store(time.Now().UnixNano())
				logf(ev{Ev: "CancelEnd", ID: pc.id})
			}
		}
		mu.Unlock()
		// deadlines end by themselves 400 ms after the call started
		time.Sleep(450 * time.Millisecond)
		t0 = time.Now()
	}

	// --- wait for the calls that are expected to come back, at most hangWait
	allDone := func() bool {
		mu.Lock()
		defer mu.Unlock()
		for _, pc := range calls {
			if pc.awaited {
				select {
				case <-pc.done:
				default:
					return false
				}
			}
		}
		return true
	}
	waitUntil(hangWait, allDone)
	logf(ev{Ev: "Waited", N: int(time.Since(t0) / time.Millisecond)})

	// --- one more call (and another one when the first is the call that discovers the break of an idle connection)
	if sc.Fault != "ctxend" {
		for i, role := range []string{"after", "after2"} {
			id := fmt.Sprintf("a%d", i+1)
			logf(ev{Ev: "Call", ID: id, Cls: "do", Ck: "none", Kind: role})
			var k, v string
			if within(hangWait, func() {
				k, v = renderResult(client.Do(context.Background(), client.B().Get().Key("k:"+id).Build()))
			}) {
				logf(ev{Ev: "Ret", ID: id, Kind: k, Val: v, N: -1})
			} else {
				note("the call after the fault did not return within %v", hangWait)
				logf(ev{Ev: "Ret", ID: id, Kind: "hang", Val: "hang", N: -1})
			}
			if k != "neterr" {
				break
			}
		}
	}

	// --- clean up whatever is legitimately still pending
	logf(ev{Ev: "Cleanup"})
	mu.Lock()
	for _, pc := range calls {
		pc.cancel()
	}
	mu.Unlock()
	for _, c := range nd.srv.Conns() {
		c.Cut()
	}
	if !within(5*time.Second, wg.Wait) {
		// only reachable when a call hangs for good; the trace already shows it (Waited)
		note("calls still pending after the final clean-up")
	}
	return fix(), notes
}

func renderCache(r rueidis.RedisResult) (string, string) {
	if err := r.Error(); err != nil && err == rueidis.ErrDoCacheAborted {
		return "cacheaborted", "cacheaborted"
	}
	return renderResult(r)
}

func loadFaultScenarios(path string) ([]faultScn, error) {
	var out []faultScn
	err := readLines(path, func(line string) error {
		var s faultScn
		if err := jsonUnmarshal(line, &s); err != nil {
			return err
		}
		out = append(out, s)
		return nil
	})
	return out, err
}

func modeFault(rep *vh.Report, casesPath, tracePath string, par int) {
	scs, err := loadFaultScenarios(casesPath)
	if err != nil {
		rep.Inconcl("cannot read the scenarios: %v", err)
		return
	}
	type res struct {
		evs   []ev
		notes []string
	}
	results := make([]res, len(scs))
	var wg sync.WaitGroup
	sem := make(chan struct{}, par)
	for i, sc := range scs {
		wg.Add(1)
		sem <- struct{}{}
		go func(i int, sc faultScn) {
			defer wg.Done()
			defer func() { <-sem }()
			e, n := runFaultScenario(sc, i+1)
			results[i] = res{e, n}
		}(i, sc)
	}
	wg.Wait()
	var traces [][]map[string]any
	distinct := map[string]bool{}
	var allNotes []map[string]any
	for i, r := range results {
		rep.Evaluations++
		rep.Traces++
		traces = append(traces, evMaps(r.evs))
		distinct[scs[i].name()] = true
		if len(r.notes) > 0 {
			allNotes = append(allNotes, map[string]any{"scenario": scs[i].name(), "notes": r.notes})
		}
		if len(rep.Samples) < 4 {
			rets := map[string]string{}
			for _, e := range r.evs {
				if e.Ev == "Ret" {
					rets[e.ID] = e.Kind
				}
			}
			rep.Sample(map[string]any{"scenario": scs[i].name(), "queue": queueType(), "returns": rets, "events": len(r.evs)})
		}
	}
	rep.DistinctNontrivial = len(distinct)
	rep.Rule = "fault scenarios: distinct (pending-call mix, contexts, fault, pipelining, queue size) combinations"
	rep.Extra = map[string]any{"notes": allNotes, "queue": queueType()}
	if tracePath != "" {
		if err := vh.WriteNDJSON(tracePath, traces); err != nil {
			rep.Inconcl("cannot write the trace: %v", err)
		}
	}
}
