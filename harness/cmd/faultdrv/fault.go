package main

// Mode "fault": scenarios enumerated by TLC from spec/pipe/FaultObs.tla (FaultGen.cfg).  A set of calls of different
// kinds is left pending on a real client (the server holds the replies), then the connection fails at the chosen point,
// the client is closed, or the calls' contexts end; afterwards one more call is made.  The driver only records what
// happened (trace for spec/pipe/FaultTrace.tla); every judgement (must the call have returned, may it return this) is
// made by TLC on the trace.

import (
	"context"
	"fmt"
	"sort"
	"strings"
	"sync"
	"sync/atomic"
	"time"

	"github.com/redis/rueidis"
	"verifharness/fakeredis"
	"verifharness/vh"
)

type faultScn struct {
	Pend  []string          `json:"pend"`
	Ctx   map[string]string `json:"ctx"`
	Fault string            `json:"fault"`
	Pipe  bool              `json:"pipe"`
	Warm  bool              `json:"warm"`
	Small bool              `json:"small"`
	// further ingredients (spec/fault/FaultObs.tla): an unsolicited unsubscribe push before the fault, new short-lived calls
	// while the server is silent, a RESP2 client (Pub/Sub on a second connection)
	Push    string `json:"push"`
	Traffic bool   `json:"traffic"`
	Resp2   bool   `json:"resp2"`
}

// opts renders the further ingredients for the scenario name and the findings
func (s faultScn) opts() string {
	var parts []string
	if s.Push != "" && s.Push != "none" {
		parts = append(parts, "push="+s.Push)
	}
	if s.Traffic {
		parts = append(parts, "traffic")
	}
	if s.Resp2 {
		parts = append(parts, "resp2")
	}
	return strings.Join(parts, " ")
}

func (s faultScn) name() string {
	ks := append([]string(nil), s.Pend...)
	sort.Strings(ks)
	var parts []string
	for _, k := range ks {
		if c := s.Ctx[k]; c != "" && c != "none" {
			parts = append(parts, k+"/"+c)
		} else {
			parts = append(parts, k)
		}
	}
	n := s.Fault + " " + strings.Join(parts, "+")
	if s.Pipe {
		n += " pipelined"
	}
	if s.Warm {
		n += " warm"
	}
	if s.Small {
		n += " small-queue"
	}
	if o := s.opts(); o != "" {
		n += " " + o
	}
	return n
}

func (s faultScn) has(k string) bool {
	for _, p := range s.Pend {
		if p == k {
			return true
		}
	}
	return false
}

type pcall struct {
	id      string
	kind    string
	ctxk    string
	ctx     context.Context
	cancel  context.CancelFunc
	done    chan struct{}
	ctxEnd  atomic.Int64 // unix nano of CancelEnd
	awaited bool
}

const hangWait = 13 * time.Second

// constants of spec/fault/FaultObs.tla
const (
	deadlineMs = 400
	dlFarMs    = 60000
	backoffMs  = 9000
	dialMs     = 60000
)

func isHandshakeKind(k string) bool { return k == "hsblock" || k == "hsredial" || k == "hspool" }
func isBackoffKind(k string) bool   { return k == "backoff" || k == "backoffm" }

// callID maps a request id ("p3.b") to its call ("p3")
func callID(req string) string {
	if i := strings.IndexByte(req, '.'); i >= 0 {
		return req[:i]
	}
	return req
}

func runFaultScenario(sc faultScn, ord int) (events []ev, notes []string) {
	w := newWorld(1)
	defer w.close()
	nd := w.nodes[0]
	tr := w.tr
	logf := func(e ev) { tr.log(e) }
	logf(ev{Ev: "RESET", Ck: sc.name(), Kind: queueType(), V: sc.Fault, Val: sc.opts(), N: ord})

	triggerFault := sc.Fault == "cutnow" || sc.Fault == "execcut" || sc.Fault == "midreply"
	var parkedConn atomic.Pointer[fakeredis.Conn]
	var kinds sync.Map         // call id -> call kind
	var stallHello atomic.Bool // from now on the server accepts connections and never answers HELLO
	var helloParked atomic.Int32
	var finished atomic.Bool
	backoffSeen := make(chan string, 16)
	kindOf := func(id string) string {
		if k, ok := kinds.Load(callID(id)); ok {
			return k.(string)
		}
		return ""
	}
	w.other = func(nd *node, c *fakeredis.Conn, argv []string) (fakeredis.Value, fakeredis.Action, bool) {
		if stallHello.Load() && len(argv) > 0 && strings.EqualFold(argv[0], "HELLO") {
			helloParked.Add(1)
			return fakeredis.Value{}, fakeredis.Park, true
		}
		return fakeredis.Value{}, fakeredis.Pass, false
	}
	w.decide = func(nd *node, c *fakeredis.Conn, id string, n int, argv []string) (fakeredis.Value, fakeredis.Action) {
		switch {
		case isBackoffKind(kindOf(id)): // the server is loading its data set: every attempt is refused
			return fakeredis.Err("LOADING Redis is loading the dataset in memory"), fakeredis.Reply
		case strings.HasPrefix(id, "x"): // throw-away calls of the driver
			return fakeredis.Value{}, fakeredis.Pass
		case strings.HasPrefix(id, "b"):
			// background traffic: on the silent connection its replies stay in the server like all the others (the connection
			// is being held); on a fresh connection it is answered
			return fakeredis.Value{}, fakeredis.Pass
		case strings.HasPrefix(id, "w"), strings.HasPrefix(id, "a"): // warm-up and after calls are answered
			return fakeredis.Value{}, fakeredis.Pass
		case id == "t1.a":
			return fakeredis.Value{}, fakeredis.Pass
		case id == "t1.b": // the trigger's second command stays in the server until the fault
			parkedConn.Store(c)
			return fakeredis.Value{}, fakeredis.Park
		case strings.ToUpper(argv[0]) == "BLPOP" || strings.ToUpper(argv[0]) == "SUBSCRIBE":
			return fakeredis.Value{}, fakeredis.Pass // they block by themselves
		}
		w.hold(nd, c) // executed, but this reply and everything after it on the connection stays in the server
		return fakeredis.Value{}, fakeredis.Pass
	}
	// rewrite request ids to call ids in the trace
	fix := func() []ev {
		es := tr.events()
		for i := range es {
			if es[i].ID != "" && (es[i].Ev == "SRecv" || es[i].Ev == "SExec" || es[i].Ev == "SRep" || es[i].Ev == "SRepHeld") {
				es[i].V = es[i].ID
				es[i].ID = callID(es[i].ID)
			}
		}
		return es
	}

	hasCache := sc.has("cachemiss")
	hasBackoff := sc.has("backoff") || sc.has("backoffm")
	hasHandshake := sc.has("hsblock") || sc.has("hsredial") || sc.has("hspool")
	opt := rueidis.ClientOption{
		InitAddress:       []string{nd.addr},
		DialCtxFn:         w.net.DialCtxFn(),
		ForceSingleClient: true,
		DisableRetry:      !hasBackoff,
		DisableCache:      !hasCache,
		AlwaysPipelining:  sc.Pipe,
		PipelineMultiplex: -1,
	}
	if hasBackoff {
		// a back-off far longer than what counts as prompt, for the calls in back-off only; nothing else is retried
		opt.RetryDelay = func(attempts int, cmd rueidis.Completed, err error) time.Duration {
			id := callID(idOf(cmd.Commands()))
			if !isBackoffKind(kindOf(id)) || finished.Load() {
				return -1
			}
			tr.log(ev{Ev: "Backoff", ID: id, N: attempts})
			select {
			case backoffSeen <- id:
			default:
			}
			return backoffMs * time.Millisecond
		}
	}
	if sc.has("poolwait") {
		opt.BlockingPoolSize = 1
	}
	if hasHandshake {
		opt.Dialer.Timeout = dialMs * time.Millisecond // the dial timeout alone would end the handshake far too late
		opt.DisableAutoPipelining = sc.has("hspool")
	}
	if sc.Resp2 {
		opt.AlwaysRESP2 = true
		opt.DisableCache = true
	}
	if sc.Fault == "pingtimeout" {
		opt.Dialer.KeepAlive = 150 * time.Millisecond
		opt.ConnWriteTimeout = 600 * time.Millisecond
	}
	if sc.Small {
		opt.RingScaleEachConn = 1
	}
	client, err := rueidis.NewClient(opt)
	if err != nil {
		return fix(), []string{"client set-up failed: " + err.Error()}
	}
	var closed atomic.Bool
	defer func() {
		if !closed.Load() {
			client.Close()
		}
	}()
	note := func(f string, a ...any) { notes = append(notes, fmt.Sprintf(f, a...)) }

	seen := func(id string) bool {
		for _, e := range tr.events() {
			if e.Ev == "SRecv" && callID(e.ID) == id {
				return true
			}
		}
		return false
	}

	// --- a warm-up call answered normally
	if sc.Warm {
		logf(ev{Ev: "Call", ID: "w1", Cls: "do", Ck: "none", Kind: "warm"})
		k, v := renderResult(client.Do(context.Background(), client.B().Get().Key("k:w1").Build()))
		logf(ev{Ev: "Ret", ID: "w1", Kind: k, Val: v, N: -1})
	}

	if sc.Fault == "pingtimeout" {
		// the server is silent from now on: whatever is sent is never answered, and the connection may be found dead (keep-alive
		// ping, write/read time-out of a call on the synchronous path) at any moment after the first request
		logf(ev{Ev: "Fault", Kind: sc.Fault})
	}

	var mu sync.Mutex
	var calls []*pcall
	var wg sync.WaitGroup
	var dedicated rueidis.DedicatedClient
	var dedRelease func()
	var dedMain *fakeredis.Conn // the connection that carries the commands of the dedicated client

	start := func(pc *pcall, fn func(ctx context.Context) (string, string)) {
		pc.done = make(chan struct{})
		kinds.Store(pc.id, pc.kind)
		pc.ctx, pc.cancel = context.Background(), func() {}
		mu.Lock()
		calls = append(calls, pc)
		mu.Unlock()
		logf(ev{Ev: "Call", ID: pc.id, Cls: pc.kind, Ck: pc.ctxk, Kind: map[bool]string{true: "trigger", false: "pend"}[pc.id == "t1"]})
		switch pc.ctxk {
		case "cancel":
			pc.ctx, pc.cancel = context.WithCancel(context.Background())
		case "done":
			pc.ctx, pc.cancel = context.WithCancel(context.Background())
			logf(ev{Ev: "CancelBegin", ID: pc.id})
			pc.cancel()
			logf(ev{Ev: "CancelEnd", ID: pc.id})
			pc.ctxEnd.Store(time.Now().UnixNano())
		case "dlcancel": // a deadline far away; the context is cancelled by hand
			pc.ctx, pc.cancel = context.WithTimeout(context.Background(), dlFarMs*time.Millisecond)
		case "deadline":
			// the deadline is armed when the call starts; CancelEnd is logged once ctx.Done() is closed
			pc.ctx, pc.cancel = context.WithTimeout(context.Background(), deadlineMs*time.Millisecond)
			logf(ev{Ev: "CancelBegin", ID: pc.id})
			go func() {
				<-pc.ctx.Done()
				pc.ctxEnd.CompareAndSwap(0, time.Now().UnixNano())
				logf(ev{Ev: "CancelEnd", ID: pc.id})
			}()
		}
		wg.Add(1)
		go func() {
			defer wg.Done()
			k, v := fn(pc.ctx)
			late := -1
			if t := pc.ctxEnd.Load(); t != 0 {
				late = int(time.Since(time.Unix(0, t)) / time.Millisecond)
				if late < 0 {
					late = 0
				}
			} else if pc.ctxk == "deadline" && pc.ctx.Err() != nil {
				late = 0
			}
			logf(ev{Ev: "Ret", ID: pc.id, Kind: k, Val: v, N: late})
			close(pc.done)
		}()
	}
	ready := func(pc *pcall, needSeen bool) {
		if pc.ctxk == "done" { // returns at once
			select {
			case <-pc.done:
			case <-time.After(3 * time.Second):
			}
			return
		}
		if needSeen {
			if !waitUntil(3*time.Second, func() bool { return seen(pc.id) }) {
				// legitimately so when the request sits behind a parked command or waits for a queue slot
				time.Sleep(20 * time.Millisecond)
			}
		} else {
			time.Sleep(30 * time.Millisecond)
		}
	}

	// --- the trigger of the cut-at-request faults: a two-command DoMulti whose second command stays in the server
	if triggerFault {
		t := &pcall{id: "t1", kind: "multi", ctxk: "none", awaited: true}
		start(t, func(ctx context.Context) (string, string) {
			rs := client.DoMulti(ctx, client.B().Get().Key("k:t1.a").Build(), client.B().Get().Key("k:t1.b").Build())
			return renderResult(rs[1])
		})
		if !waitUntil(3*time.Second, func() bool { return parkedConn.Load() != nil }) {
			note("the trigger did not reach the server")
		}
	}

	// --- the pending calls, in a fixed order
	order := []string{"cachemiss", "cachewait", "do", "multi", "block", "poolwait", "sub", "dedsub", "backoff", "backoffm", "hsblock", "hsredial", "hspool"}
	// wait (bounded) until the call sits in the waiting place the scenario is about
	inBackoff := func(id string) {
		dl := time.After(3 * time.Second)
		for {
			select {
			case got := <-backoffSeen:
				if got == id {
					time.Sleep(20 * time.Millisecond) // RetryDelay has answered: the wait begins
					return
				}
			case <-dl:
				note("call %s did not reach the retry back-off", id)
				return
			}
		}
	}
	inHandshake := func(id string, before int32) {
		if !waitUntil(3*time.Second, func() bool { return helloParked.Load() > before }) {
			note("call %s did not reach the handshake of a new connection", id)
		}
	}
	n := 0
	cacheKey := ""
	for _, kind := range order {
		if !sc.has(kind) {
			continue
		}
		reps := 1
		if sc.Small && kind == "do" {
			reps = 4
		}
		for r := 0; r < reps; r++ {
			n++
			pc := &pcall{id: fmt.Sprintf("p%d", n), kind: kind, ctxk: sc.Ctx[kind], awaited: true}
			if pc.ctxk == "" {
				pc.ctxk = "none"
			}
			if sc.Fault == "ctxend" && pc.ctxk == "none" {
				pc.awaited = false
			}
			if triggerFault && kind == "block" {
				pc.awaited = false
			}
			id := pc.id
			switch kind {
			case "do":
				start(pc, func(ctx context.Context) (string, string) {
					return renderResult(client.Do(ctx, client.B().Get().Key("k:"+id).Build()))
				})
				ready(pc, !triggerFault && !(sc.Small && r >= 2))
			case "multi":
				start(pc, func(ctx context.Context) (string, string) {
					rs := client.DoMulti(ctx, client.B().Get().Key("k:"+id+".a").Build(), client.B().Get().Key("k:"+id+".b").Build())
					k, v := renderResult(rs[1])
					if k0, v0 := renderResult(rs[0]); k0 != "ok" && k0 != "nil" {
						k, v = k0, v0
					}
					return k, v
				})
				ready(pc, !triggerFault)
			case "cachemiss":
				cacheKey = "k:" + id
				start(pc, func(ctx context.Context) (string, string) {
					return renderCache(client.DoCache(ctx, client.B().Get().Key(cacheKey).Cache(), time.Minute))
				})
				ready(pc, !triggerFault)
			case "cachewait":
				start(pc, func(ctx context.Context) (string, string) {
					return renderCache(client.DoCache(ctx, client.B().Get().Key(cacheKey).Cache(), time.Minute))
				})
				ready(pc, false)
			case "block":
				if sc.Fault == "dialfail" {
					// the blocking pool has to dial a connection for this call: refuse it
					logf(ev{Ev: "Fault", Kind: "dialfail"})
					w.net.SetDialHook(func(dst string) error { return fmt.Errorf("dial %s: connection refused (scripted)", dst) })
					start(pc, func(ctx context.Context) (string, string) {
						return renderResult(client.Do(ctx, client.B().Blpop().Key("k:"+id).Timeout(0).Build()))
					})
					select {
					case <-pc.done:
					case <-time.After(5 * time.Second):
					}
					w.net.SetDialHook(nil)
				} else if sc.Fault == "dedclose" {
					dedicated, dedRelease = client.Dedicate()
					start(pc, func(ctx context.Context) (string, string) {
						return renderResult(dedicated.Do(ctx, client.B().Blpop().Key("k:"+id).Timeout(0).Build()))
					})
				} else {
					start(pc, func(ctx context.Context) (string, string) {
						return renderResult(client.Do(ctx, client.B().Blpop().Key("k:"+id).Timeout(0).Build()))
					})
				}
				if sc.Fault != "dialfail" {
					ready(pc, true)
				}
			case "dedsub":
				// a dedicated client: one command first, so that its connection exists and is known, then the Receive
				// (RESP2: on a second connection of the same wire)
				before := map[int]bool{}
				for _, c := range nd.srv.Conns() {
					before[c.ID()] = true
				}
				dedicated, dedRelease = client.Dedicate()
				dedicated.Do(context.Background(), client.B().Get().Key("k:x0").Build())
				for _, c := range nd.srv.Conns() {
					if !before[c.ID()] {
						dedMain = c
					}
				}
				start(pc, func(ctx context.Context) (string, string) {
					err := dedicated.Receive(ctx, client.B().Subscribe().Channel("k:"+id).Build(), func(rueidis.PubSubMessage) {})
					if err == nil {
						return "ok", "s:"
					}
					return renderErr(err)
				})
				ready(pc, true)
			case "poolwait": // the only connection of the blocking pool is taken by the "block" call
				start(pc, func(ctx context.Context) (string, string) {
					return renderResult(client.Do(ctx, client.B().Blpop().Key("k:"+id).Timeout(0).Build()))
				})
				ready(pc, false)
			case "backoff":
				start(pc, func(ctx context.Context) (string, string) {
					return renderResult(client.Do(ctx, client.B().Get().Key("k:"+id).Build()))
				})
				if pc.ctxk != "deadline" { // (a back-off longer than the time left to the deadline is not waited for at all)
					inBackoff(id)
				} else {
					ready(pc, true)
				}
			case "backoffm":
				start(pc, func(ctx context.Context) (string, string) {
					rs := client.DoMulti(ctx, client.B().Get().Key("k:"+id+".a").Build(), client.B().Get().Key("k:"+id+".b").Build())
					return renderResult(rs[0])
				})
				if pc.ctxk != "deadline" {
					inBackoff(id)
				} else {
					ready(pc, true)
				}
			case "hsblock": // the blocking pool has to make a connection for this call
				stallHello.Store(true)
				before := helloParked.Load()
				start(pc, func(ctx context.Context) (string, string) {
					return renderResult(client.Do(ctx, client.B().Blpop().Key("k:"+id).Timeout(0).Build()))
				})
				inHandshake(id, before)
			case "hspool": // DisableAutoPipelining: every call takes a connection from the pool, the first one has to be made
				stallHello.Store(true)
				before := helloParked.Load()
				start(pc, func(ctx context.Context) (string, string) {
					return renderResult(client.Do(ctx, client.B().Get().Key("k:"+id).Build()))
				})
				inHandshake(id, before)
			case "hsredial":
				// the multiplexed connection breaks; a throw-away call makes the client notice (it fails on the broken
				// connection or in the handshake of its own re-dial), so that the call under test has to dial
				stallHello.Store(true)
				for _, c := range nd.srv.Conns() {
					c.Cut()
				}
				xctx, xcancel := context.WithTimeout(context.Background(), 300*time.Millisecond)
				client.Do(xctx, client.B().Get().Key("k:x1").Build())
				xcancel()
				before := helloParked.Load()
				start(pc, func(ctx context.Context) (string, string) {
					return renderResult(client.Do(ctx, client.B().Get().Key("k:"+id).Build()))
				})
				inHandshake(id, before)
			case "sub":
				start(pc, func(ctx context.Context) (string, string) {
					err := client.Receive(ctx, client.B().Subscribe().Channel("k:"+id).Build(), func(rueidis.PubSubMessage) {})
					if err == nil {
						return "ok", "s:"
					}
					return renderErr(err)
				})
				ready(pc, !triggerFault)
			}
		}
	}

	// --- an unsolicited unsubscribe notification on every connection, ahead of whatever the server keeps back; the client's
	// reader takes the next pending call off the queue for it
	if sc.Push != "" && sc.Push != "none" {
		logf(ev{Ev: "Push", Kind: sc.Push})
		for _, c := range nd.srv.Conns() {
			c.InjectNow(fakeredis.Push(fakeredis.Bulk(sc.Push), fakeredis.Bulk("unrelated"), fakeredis.Int(0)))
		}
		time.Sleep(150 * time.Millisecond) // (no way to see from outside that the reader has consumed it)
	}
	stopTraffic := func() {}
	if sc.Traffic {
		// request handlers with short deadlines keep issuing calls while the server is silent
		stop := make(chan struct{})
		var twg sync.WaitGroup
		twg.Add(1)
		go func() {
			defer twg.Done()
			tick := time.NewTicker(25 * time.Millisecond)
			defer tick.Stop()
			for i := 0; i < 600; i++ {
				select {
				case <-stop:
					return
				case <-tick.C:
				}
				bid := fmt.Sprintf("k:b%d", i)
				twg.Add(1)
				go func() {
					defer twg.Done()
					bctx, bcancel := context.WithTimeout(context.Background(), 50*time.Millisecond)
					client.Do(bctx, client.B().Get().Key(bid).Build())
					bcancel()
				}()
			}
		}()
		var once sync.Once
		stopTraffic = func() { once.Do(func() { close(stop); twg.Wait() }) }
		time.Sleep(60 * time.Millisecond)
	}
	defer stopTraffic()

	// --- the fault
	t0 := time.Now()
	switch sc.Fault {
	case "cutall":
		logf(ev{Ev: "Fault", Kind: sc.Fault})
		for _, c := range nd.srv.Conns() {
			c.Cut()
		}
	case "cutnow", "execcut", "midreply":
		logf(ev{Ev: "Fault", Kind: sc.Fault})
		if c := parkedConn.Load(); c != nil {
			switch sc.Fault {
			case "cutnow":
				c.Cut()
			case "execcut":
				nd.srv.Lock()
				w.hold(nd, c)
				c.UnparkExec()
				c.Cut()
				nd.srv.Unlock()
			case "midreply":
				nd.srv.Lock()
				c.CutAfterNextReplyBytes(2)
				c.UnparkExec()
				nd.srv.Unlock()
			}
		}
	case "pingtimeout": // (announced before the calls were issued)
	case "close", "dialfail":
		logf(ev{Ev: "CloseBegin"})
		client.Close()
		closed.Store(true)
		logf(ev{Ev: "CloseEnd"})
		t0 = time.Now()
		// a blocking command on a pool connection is answered after Close() has returned
		mu.Lock()
		for _, pc := range calls {
			if pc.kind == "block" {
				nd.srv.Do("RPUSH", "k:"+pc.id, "x")
			}
		}
		mu.Unlock()
	case "dedclose":
		mu.Lock()
		id := calls[len(calls)-1].id
		mu.Unlock()
		logf(ev{Ev: "DedCloseBegin", ID: id})
		dedicated.Close()
		logf(ev{Ev: "DedCloseEnd", ID: id})
		_ = dedRelease
		t0 = time.Now()
	case "dedbreak":
		logf(ev{Ev: "Fault", Kind: sc.Fault})
		if dedMain != nil {
			dedMain.Cut()
		} else {
			note("the connection of the dedicated client was not found")
		}
		// a command on the dedicated client fails on the broken connection ...
		logf(ev{Ev: "Call", ID: "a1", Cls: "do", Ck: "none", Kind: "after"})
		k, v := renderResult(dedicated.Do(context.Background(), client.B().Get().Key("k:a1").Build()))
		logf(ev{Ev: "Ret", ID: "a1", Kind: k, Val: v, N: -1})
		// ... and the dedicated client is given back (the pool closes a broken wire)
		mu.Lock()
		id := calls[len(calls)-1].id
		mu.Unlock()
		logf(ev{Ev: "DedCloseBegin", ID: id})
		dedRelease()
		logf(ev{Ev: "DedCloseEnd", ID: id})
		t0 = time.Now()
	case "ctxend":
		mu.Lock()
		for _, pc := range calls {
			if pc.ctxk == "cancel" || pc.ctxk == "dlcancel" {
				logf(ev{Ev: "CancelBegin", ID: pc.id})
				pc.cancel()
				pc.ctxEnd.Store(time.Now().UnixNano())
				logf(ev{Ev: "CancelEnd", ID: pc.id})
			}
		}
		mu.Unlock()
		// deadlines end by themselves 400 ms after the call started
		time.Sleep((deadlineMs + 50) * time.Millisecond)
		t0 = time.Now()
	}

	// --- wait for the calls that are expected to come back, at most hangWait
	allDone := func() bool {
		mu.Lock()
		defer mu.Unlock()
		for _, pc := range calls {
			if pc.awaited {
				select {
				case <-pc.done:
				default:
					return false
				}
			}
		}
		return true
	}
	waitUntil(hangWait, allDone)
	logf(ev{Ev: "Waited", N: int(time.Since(t0) / time.Millisecond)})
	stopTraffic()

	// --- one more call (and another one when the first is the call that discovers the break of an idle connection)
	if sc.Fault != "ctxend" {
		for i, role := range []string{"after", "after2"} {
			if sc.Fault == "dedbreak" && i == 0 {
				continue // (made on the dedicated client, above)
			}
			id := fmt.Sprintf("a%d", i+1)
			logf(ev{Ev: "Call", ID: id, Cls: "do", Ck: "none", Kind: role})
			var k, v string
			if within(hangWait, func() {
				k, v = renderResult(client.Do(context.Background(), client.B().Get().Key("k:"+id).Build()))
			}) {
				logf(ev{Ev: "Ret", ID: id, Kind: k, Val: v, N: -1})
			} else {
				note("the call after the fault did not return within %v", hangWait)
				logf(ev{Ev: "Ret", ID: id, Kind: "hang", Val: "hang", N: -1})
			}
			if k != "neterr" {
				break
			}
		}
	}

	// --- clean up whatever is legitimately still pending
	logf(ev{Ev: "Cleanup"})
	finished.Store(true)
	mu.Lock()
	for _, pc := range calls {
		pc.cancel()
	}
	mu.Unlock()
	for _, c := range nd.srv.Conns() {
		c.Cut()
	}
	if !within(5*time.Second, wg.Wait) {
		// only reachable when a call hangs for good; the trace already shows it (Waited)
		note("calls still pending after the final clean-up")
	}
	return fix(), notes
}

func renderCache(r rueidis.RedisResult) (string, string) {
	if err := r.Error(); err != nil && err == rueidis.ErrDoCacheAborted {
		return "cacheaborted", "cacheaborted"
	}
	return renderResult(r)
}

func loadFaultScenarios(path string) ([]faultScn, error) {
	var out []faultScn
	err := readLines(path, func(line string) error {
		var s faultScn
		if err := jsonUnmarshal(line, &s); err != nil {
			return err
		}
		out = append(out, s)
		return nil
	})
	return out, err
}

func modeFault(rep *vh.Report, casesPath, tracePath string, par int) {
	scs, err := loadFaultScenarios(casesPath)
	if err != nil {
		rep.Inconcl("cannot read the scenarios: %v", err)
		return
	}
	type res struct {
		evs   []ev
		notes []string
	}
	results := make([]res, len(scs))
	var wg sync.WaitGroup
	sem := make(chan struct{}, par)
	for i, sc := range scs {
		wg.Add(1)
		sem <- struct{}{}
		go func(i int, sc faultScn) {
			defer wg.Done()
			defer func() { <-sem }()
			e, n := runFaultScenario(sc, i+1)
			results[i] = res{e, n}
		}(i, sc)
	}
	wg.Wait()
	var traces [][]map[string]any
	distinct := map[string]bool{}
	var allNotes []map[string]any
	for i, r := range results {
		rep.Evaluations++
		rep.Traces++
		traces = append(traces, evMaps(r.evs))
		distinct[scs[i].name()] = true
		if len(r.notes) > 0 {
			allNotes = append(allNotes, map[string]any{"scenario": scs[i].name(), "notes": r.notes})
		}
		if len(rep.Samples) < 4 {
			rets := map[string]string{}
			for _, e := range r.evs {
				if e.Ev == "Ret" {
					rets[e.ID] = e.Kind
				}
			}
			rep.Sample(map[string]any{"scenario": scs[i].name(), "queue": queueType(), "returns": rets, "events": len(r.evs)})
		}
	}
	rep.DistinctNontrivial = len(distinct)
	rep.Rule = "fault scenarios: distinct (pending-call mix, contexts, fault, pipelining, queue size) combinations"
	rep.Extra = map[string]any{"notes": allNotes, "queue": queueType()}
	if tracePath != "" {
		if err := vh.WriteNDJSON(tracePath, traces); err != nil {
			rep.Inconcl("cannot write the trace: %v", err)
		}
	}
}
