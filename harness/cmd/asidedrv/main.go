// asidedrv binds C39 (rueidisaside) to spec/addons/Aside.tla / AsideTrace.tla, hook-free:
//
// real rueidisaside clients (both UseLuaLock settings, some behind NewTypedCacheAsideClient) run over one fakeredis
// server per scenario with the real clock. The server side of every lock-protocol command (SET NX GET / acquireLock,
// setkey, delkey, DEL, the liveness key's SET) is logged under the dispatcher mutex with the key's value before and
// after it; the driver logs Get begin/end with the classified result and every loader invocation. Client death =
// its connections are cut, new dials are refused and it is stopped without its final DEL. The ndjson trace is judged
// by AsideTrace.tla.
//
// Round 2: Gets without a loader (step field nil), unconditional DELs of cache keys that no `del` step asked for are
// logged as LibDel, the first command of a client on a new connection as Conn, gates (`gate` steps: the replies to one
// client are held from a command of a given kind until another command has arrived at the server; this forces the
// interleavings "two callers register an id at once" and "two waiters see the dead holder's marker gone before either
// releases the lock" without sleeping), and a slow server clock (scenario field slow: liveness keys live slow * ClientTTL
// of wall-clock time, so that a missing refresh is told from a late one).
package main

import (
	"bufio"
	"context"
	"crypto/sha1"
	"encoding/hex"
	"encoding/json"
	"errors"
	"flag"
	"fmt"
	"math/rand"
	"os"
	"path/filepath"
	"strconv"
	"strings"
	"sync"
	"syscall"
	"time"

	"github.com/redis/rueidis"
	"github.com/redis/rueidis/rueidisaside"
	"verifharness/fakeredis"
	"verifharness/vh"
)

var (
	mode     = flag.String("mode", "both", "scen | random | both")
	scenFile = flag.String("scen", "", "ndjson scenarios")
	runs     = flag.Int("runs", 40, "random scenarios")
	par      = flag.Int("par", 16, "scenarios run concurrently")
	traceDir = flag.String("tracedir", "", "directory for the ndjson trace")
	verbose  = flag.Bool("v", false, "print scenarios")
)

const (
	addr      = "127.0.0.1:6379"
	clientTTL = 300 * time.Millisecond
	phPrefix  = rueidisaside.PlaceholderPrefix
)

type step struct {
	Op   string `json:"op"` // get del die disc expire expireid sleep
	C    int    `json:"c"`
	K    int    `json:"k"`
	TTL  int    `json:"ttl"`  // get: lock / cache TTL in ms
	Load int    `json:"load"` // get: loader duration in ms
	Fail bool   `json:"fail"` // get: loader fails
	Ms   int    `json:"ms"`
	Nil  bool   `json:"nil"`  // get: fn == nil
	Hold bool   `json:"hold"` // get: the next step waits until this Get's loader runs (at most 1.5 s)
	// gate: from the first command of kind What of client C (idset: SET of a liveness key; phgone: GET of a liveness key
	// that does not exist) the replies to C are held until N commands of kind Until (idset lock) of client UC have
	// arrived since, at most Ms milliseconds
	What  string `json:"what"`
	UC    int    `json:"uc"`
	Until string `json:"until"`
	N     int    `json:"n"`
}

type gate struct {
	st      step
	holding bool
	done    bool
	count   int
	conn    *fakeredis.Conn
}

type scenario struct {
	ID      string `json:"id"`
	Clients int    `json:"clients"`
	Lua     bool   `json:"lua"`
	Typed   bool   `json:"typed"`
	Steps   []step `json:"steps"`
	Class   string `json:"class"`
	Slow    int    `json:"slow"` // > 1: the server clock runs that many times slower than the wall clock
	// one connection per client (PipelineMultiplex -1): onInvalidation(nil), which resets c.id, then happens exactly once
	// per Conn record; only such scenarios log Conn records and are held to the rules about registered ids
	Single bool `json:"single"`
}

// slowClock is the wall clock slowed down by a constant factor.
type slowClock struct {
	t0  time.Time
	div int
}

func (c slowClock) Now() time.Time { return c.t0.Add(time.Since(c.t0) / time.Duration(c.div)) }

type pending struct {
	kind   string // lock setkey delkey del idset
	c, k   int
	idarg  int
	preV   string
	preOK  bool
	key    string
	valarg string
	cmd    string
	postV  string
	postOK bool
	conn   int
}

type world struct {
	sc      *scenario
	srv     *fakeredis.Server
	nets    []*fakeredis.Network
	clients []rueidisaside.CacheAsideClient
	typed   []rueidisaside.TypedCacheAsideClient[string]
	t0      time.Time
	tr      *vh.Tracer
	rep     *vh.Report

	mu      sync.Mutex
	ids     map[string]int // liveness key -> id number
	idOwner map[int]int
	vals    map[string]int // loader value -> load number
	nload   int
	pre     map[int]*pending
	pend    *pending // executed command whose record is written at its reply
	dead    map[int]bool
	wg      sync.WaitGroup
	gets    int
	connOf  map[int]int    // client -> id of the connection it used last
	userDel map[string]int // "client/key" -> user Del calls in progress
	gates   []*gate
}

// gateCheck is called from the intercept (dispatcher mutex and w.mu held) for a command of the given kind of client cl.
func (w *world) gateCheck(c *fakeredis.Conn, cl int, kind string) {
	for _, g := range w.gates {
		if g.done {
			continue
		}
		if !g.holding && cl == g.st.C && kind == g.st.What {
			g.holding = true
			g.conn = c
			c.HoldReplies(true)
			ms := g.st.Ms
			if ms <= 0 {
				ms = 500
			}
			go func(g *gate) {
				time.Sleep(time.Duration(ms) * time.Millisecond)
				w.mu.Lock()
				was := g.done
				g.done = true
				w.mu.Unlock()
				if !was {
					g.conn.HoldReplies(false)
				}
			}(g)
		}
		if g.holding && cl == g.st.UC && kind == g.st.Until {
			g.count++
			if g.count >= g.st.N {
				g.done = true
				g.conn.HoldReplies(false)
			}
		}
	}
}

func keyName(k int) string { return "ck" + strconv.Itoa(k) }
func keyIdx(s string) int {
	if strings.HasPrefix(s, "ck") {
		if n, err := strconv.Atoi(s[2:]); err == nil {
			return n
		}
	}
	return -1
}

func (w *world) now() int { return int(time.Since(w.t0) / time.Millisecond) }

// every record has the same fields
func (w *world) log(ev string, c, k, id int, fk string, fn int, tk string, tn int, res string, n int) {
	w.tr.Log(ev, "c", c, "k", k, "id", id, "fk", fk, "fn", fn, "tk", tk, "tn", tn, "res", res, "n", n, "t", w.now())
}

// classify a stored / returned string: nil, ph(id number), v(load number), x (anything else)
func (w *world) classify(s string, ok bool) (string, int) {
	if !ok {
		return "nil", 0
	}
	if strings.HasPrefix(s, phPrefix) {
		id, known := w.ids[s]
		if !known {
			id = len(w.ids) + 1
			w.ids[s] = id
		}
		return "ph", id
	}
	if n, known := w.vals[s]; known {
		return "v", n
	}
	return "x", 0
}

func (w *world) clientOf(c *fakeredis.Conn) int {
	n := c.Name()
	if strings.HasPrefix(n, "A") {
		if v, err := strconv.Atoi(n[1:]); err == nil {
			return v
		}
	}
	return 0
}

func scriptKind(src string) string {
	switch {
	case strings.Contains(src, `"DEL"`):
		return "delkey"
	case strings.Contains(src, `"NX"`):
		return "lock"
	case strings.Contains(src, `"SET"`):
		return "setkey"
	}
	return ""
}

func (w *world) intercept(c *fakeredis.Conn, argv []string) (fakeredis.Value, fakeredis.Action) {
	cl := w.clientOf(c)
	w.mu.Lock()
	isDead := w.dead[cl]
	w.mu.Unlock()
	if isDead && cl != 0 {
		return fakeredis.Value{}, fakeredis.CutNow
	}
	cmd := strings.ToUpper(argv[0])
	if cl != 0 && w.sc.Single {
		w.mu.Lock()
		if w.connOf[cl] != c.ID() {
			w.connOf[cl] = c.ID()
			w.flush()
			w.log("Conn", cl, 0, 0, "", 0, "", 0, "", c.ID())
		}
		w.mu.Unlock()
	}
	var p *pending
	switch cmd {
	case "GET":
		if len(argv) == 2 && strings.HasPrefix(argv[1], phPrefix) {
			w.srv.ExpireNow()
			if _, _, ok := w.srv.PeekRaw(argv[1]); !ok {
				w.mu.Lock()
				w.gateCheck(c, cl, "phgone")
				w.mu.Unlock()
			}
		}
	case "SET":
		if len(argv) >= 3 {
			if strings.HasPrefix(argv[1], phPrefix) {
				p = &pending{kind: "idset", key: argv[1]}
			} else if keyIdx(argv[1]) >= 0 {
				p = &pending{kind: "lock", key: argv[1], valarg: argv[2]}
			}
		}
	case "DEL":
		if len(argv) == 2 && (keyIdx(argv[1]) >= 0 || strings.HasPrefix(argv[1], phPrefix)) {
			p = &pending{kind: "del", key: argv[1]}
			w.mu.Lock()
			if keyIdx(argv[1]) >= 0 && w.userDel[strconv.Itoa(cl)+"/"+argv[1]] == 0 {
				p.kind = "libdel" // nobody called Del: the library's own unconditional DEL
			}
			w.mu.Unlock()
		}
	case "EVAL", "EVALSHA":
		if len(argv) >= 5 && argv[2] == "1" && keyIdx(argv[3]) >= 0 {
			sha := strings.ToLower(argv[1])
			shaMu.Lock()
			if cmd == "EVAL" {
				sha = sha1hex(argv[1])
				shaKinds[sha] = scriptKind(argv[1])
			}
			kind := shaKinds[sha]
			shaMu.Unlock()
			if kind != "" {
				p = &pending{kind: kind, key: argv[3], valarg: argv[4]}
			}
		}
	}
	if p == nil {
		return fakeredis.Value{}, fakeredis.Pass
	}
	w.srv.ExpireNow()
	p.cmd = cmd
	p.c = cl
	p.k = keyIdx(p.key)
	p.preV, _, p.preOK = w.srv.PeekRaw(p.key)
	w.mu.Lock()
	w.pre[c.ID()] = p
	w.gateCheck(c, cl, p.kind)
	w.mu.Unlock()
	return fakeredis.Value{}, fakeredis.Pass
}

var shaMu sync.Mutex
var shaKinds = map[string]string{}

func sha1hex(s string) string {
	sum := sha1.Sum([]byte(s))
	return hex.EncodeToString(sum[:])
}

// flush logs the executed command kept in w.pend (w.mu held). Logging is deferred until the command's reply so that a
// key expiring lazily inside the command is logged in front of it.
func (w *world) flush() {
	p := w.pend
	if p == nil {
		return
	}
	w.pend = nil
	switch p.kind {
	case "idset":
		_, id := w.classify(p.key, true)
		if _, ok := w.idOwner[id]; !ok {
			w.idOwner[id] = p.c
		}
		w.log("IdSet", p.c, 0, id, "", 0, "", 0, "", 0)
	case "del":
		if strings.HasPrefix(p.key, phPrefix) {
			_, id := w.classify(p.key, true)
			if p.preOK {
				w.log("IdGone", p.c, 0, id, "", 0, "", 0, "del", 0)
			}
			return
		}
		fk, fn := w.classify(p.preV, p.preOK)
		tk, tn := w.classify(p.postV, p.postOK)
		w.log("Del", p.c, p.k, 0, fk, fn, tk, tn, "", 0)
	case "libdel":
		fk, fn := w.classify(p.preV, p.preOK)
		tk, tn := w.classify(p.postV, p.postOK)
		w.log("LibDel", p.c, p.k, 0, fk, fn, tk, tn, "", 0)
	default:
		fk, fn := w.classify(p.preV, p.preOK)
		tk, tn := w.classify(p.postV, p.postOK)
		idarg := 0
		if strings.HasPrefix(p.valarg, phPrefix) {
			_, idarg = w.classify(p.valarg, true)
		}
		name := map[string]string{"lock": "Lock", "setkey": "SetKey", "delkey": "DelKey"}[p.kind]
		w.log(name, p.c, p.k, idarg, fk, fn, tk, tn, "", 0)
	}
}

func (w *world) sink(ev fakeredis.Event) {
	w.mu.Lock()
	defer w.mu.Unlock()
	switch ev.Kind {
	case fakeredis.SRep:
		if ev.Reply.IsError() {
			delete(w.pre, ev.Conn)
		}
		if w.pend != nil && w.pend.conn == ev.Conn {
			w.flush()
		}
	case fakeredis.SPush:
	case fakeredis.SExpire:
		if p := w.pend; p != nil && p.key == ev.Argv[0] && p.preOK {
			// lazy expiry inside the command that has just run: it found the key absent
			p.preOK = false
		} else {
			w.flush()
		}
		if k := keyIdx(ev.Argv[0]); k >= 0 {
			w.log("Expire", 0, k, 0, "", 0, "nil", 0, "", 0)
		} else if strings.HasPrefix(ev.Argv[0], phPrefix) {
			_, id := w.classify(ev.Argv[0], true)
			w.log("IdGone", w.idOwner[id], 0, id, "", 0, "", 0, "expire", 0)
		}
	case fakeredis.SExec:
		if strings.HasPrefix(ev.Note, "lua") || len(ev.Argv) == 0 {
			return
		}
		w.flush()
		cmd := strings.ToUpper(ev.Argv[0])
		if ev.Conn == 0 {
			if cmd == "DEL" && len(ev.Argv) == 2 && keyIdx(ev.Argv[1]) >= 0 {
				w.log("Del", 0, keyIdx(ev.Argv[1]), 0, "", 0, "nil", 0, "", 0)
			}
			return
		}
		p := w.pre[ev.Conn]
		delete(w.pre, ev.Conn)
		// the pending entry must belong to this very command (one that ended with an error reply leaves it behind)
		if p == nil || p.cmd != cmd || len(ev.Argv) < 2 || (p.key != ev.Argv[1] && (len(ev.Argv) < 4 || p.key != ev.Argv[3])) {
			return
		}
		w.mu.Unlock()
		p.postV, _, p.postOK = w.srv.PeekRaw(p.key)
		w.mu.Lock()
		p.conn = ev.Conn
		w.pend = p
	default:
		w.flush()
	}
}

func (w *world) newClient(c int) error {
	n := fakeredis.NewNetwork()
	n.Add(addr, w.srv)
	w.nets[c] = n
	mpx := 0 // the default: 4 connections
	if w.sc.Single {
		mpx = -1
	}
	cl, err := rueidisaside.NewClient(rueidisaside.ClientOption{
		ClientOption: rueidis.ClientOption{
			InitAddress:       []string{addr},
			DialCtxFn:         n.DialCtxFn(),
			ForceSingleClient: true,
			ClientName:        "A" + strconv.Itoa(c),
			PipelineMultiplex: mpx,
		},
		ClientTTL:  clientTTL,
		UseLuaLock: w.sc.Lua,
	})
	if err != nil {
		return err
	}
	w.clients[c] = cl
	if w.sc.Typed && c%2 == 0 {
		w.typed[c] = rueidisaside.NewTypedCacheAsideClient[string](cl,
			func(s *string) (string, error) { return *s, nil },
			func(s string) (*string, error) { return &s, nil })
	}
	return nil
}

func (w *world) get(st step, started chan struct{}) {
	defer w.wg.Done()
	c, k := st.C, st.K
	ttl := time.Duration(st.TTL) * time.Millisecond
	w.mu.Lock()
	w.gets++
	g := w.gets
	isnil := 0
	if st.Nil {
		isnil = 1
	}
	w.log("GetBegin", c, k, isnil, "", 0, "", 0, "", g)
	w.mu.Unlock()
	loader := func(ctx context.Context, key string) (string, error) {
		if started != nil {
			close(started)
		}
		w.mu.Lock()
		w.nload++
		n := w.nload
		v := fmt.Sprintf("val-%d-%d", k, n)
		w.vals[v] = n
		w.log("LoadBegin", c, k, 0, "", 0, "", 0, "", n)
		w.mu.Unlock()
		time.Sleep(time.Duration(st.Load) * time.Millisecond)
		w.mu.Lock()
		res := "ok"
		if st.Fail {
			res = "fail"
		}
		w.log("LoadEnd", c, k, 0, "", 0, "", 0, res, n)
		w.mu.Unlock()
		if st.Fail {
			return "", errors.New("loader failed")
		}
		return v, nil
	}
	var val string
	var err error
	if st.Nil {
		val, err = w.clients[c].Get(context.Background(), ttl, keyName(k), nil)
	} else if t := w.typed[c]; t != nil {
		var p *string
		p, err = t.Get(context.Background(), ttl, keyName(k), func(ctx context.Context, key string) (*string, error) {
			s, e := loader(ctx, key)
			if e != nil {
				return nil, e
			}
			return &s, nil
		})
		if p != nil {
			val = *p
		}
	} else {
		val, err = w.clients[c].Get(context.Background(), ttl, keyName(k), loader)
	}
	w.mu.Lock()
	defer w.mu.Unlock()
	if w.dead[c] {
		w.log("GetEnd", c, k, 0, "", 0, "dead", 0, "dead", g)
		return
	}
	// what the caller got: the value string is classified whatever the error says
	kind, n := w.classify(val, val != "")
	res := "ok"
	switch {
	case err == nil:
	case errors.Is(err, context.DeadlineExceeded), errors.Is(err, context.Canceled):
		res = "timeout"
	case err.Error() == "loader failed":
		res = "loaderr"
	case rueidis.IsRedisNil(err):
		res = "nil"
	default:
		res = "err"
	}
	w.log("GetEnd", c, k, 0, "", 0, kind, n, res, g)
}

func (w *world) kill(c int) {
	w.mu.Lock()
	w.dead[c] = true
	w.log("Die", c, 0, 0, "", 0, "", 0, "", 0)
	w.mu.Unlock()
	w.nets[c].SetDialHook(func(string) error { return syscall.ECONNREFUSED })
	for _, sc := range w.srv.Conns() {
		if w.clientOf(sc) == c {
			sc.Cut()
		}
	}
	go w.clients[c].Close() // stops refresh; its final DEL cannot reach the server
}

func runScenario(sc *scenario, rep *vh.Report, rng *rand.Rand) []map[string]any {
	w := &world{sc: sc, tr: &vh.Tracer{}, rep: rep, ids: map[string]int{}, idOwner: map[int]int{}, vals: map[string]int{},
		pre: map[int]*pending{}, dead: map[int]bool{}, connOf: map[int]int{}, userDel: map[string]int{}}
	w.t0 = time.Now()
	stopTick := make(chan struct{})
	defer close(stopTick)
	if sc.Slow > 1 {
		w.srv = fakeredis.NewServer("s", fakeredis.Options{Clock: slowClock{t0: w.t0, div: sc.Slow}})
		go func() { // a server on a foreign clock has no expiry ticker of its own
			for {
				select {
				case <-stopTick:
					return
				case <-time.After(10 * time.Millisecond):
					w.srv.ExpireNow()
				}
			}
		}()
	} else {
		w.srv = fakeredis.NewServer("s", fakeredis.Options{})
	}
	for _, st := range sc.Steps {
		if st.Op == "gate" {
			w.gates = append(w.gates, &gate{st: st})
		}
	}
	w.nets = make([]*fakeredis.Network, sc.Clients+1)
	w.clients = make([]rueidisaside.CacheAsideClient, sc.Clients+1)
	w.typed = make([]rueidisaside.TypedCacheAsideClient[string], sc.Clients+1)
	w.srv.SetIntercept(w.intercept)
	w.srv.SetEventSink(w.sink)
	mono := 0
	if sc.Single {
		mono = 1
	}
	w.tr.Log("RESET", "c", sc.Clients, "k", 0, "id", mono, "fk", "", "fn", 0, "tk", "", "tn", 0, "res", sc.ID, "n", sc.Slow, "t", 0)
	for c := 1; c <= sc.Clients; c++ {
		if err := w.newClient(c); err != nil {
			rep.Inconcl("NewClient: %v", err)
			return nil
		}
	}
	for _, st := range sc.Steps {
		switch st.Op {
		case "get":
			w.mu.Lock()
			d := w.dead[st.C]
			w.mu.Unlock()
			if d {
				continue
			}
			w.wg.Add(1)
			var started chan struct{}
			if st.Hold {
				started = make(chan struct{})
			}
			go w.get(st, started)
			time.Sleep(time.Duration(15+rng.Intn(25)) * time.Millisecond)
			if st.Hold {
				select {
				case <-started:
				case <-time.After(1500 * time.Millisecond):
				}
			}
		case "del":
			w.mu.Lock()
			d := w.dead[st.C]
			w.mu.Unlock()
			if !d {
				uk := strconv.Itoa(st.C) + "/" + keyName(st.K)
				w.mu.Lock()
				w.userDel[uk]++
				w.mu.Unlock()
				ctx, cancel := context.WithTimeout(context.Background(), time.Second)
				_ = w.clients[st.C].Del(ctx, keyName(st.K))
				cancel()
				w.mu.Lock()
				w.userDel[uk]--
				w.mu.Unlock()
			}
			time.Sleep(time.Duration(10+rng.Intn(20)) * time.Millisecond)
		case "die":
			w.kill(st.C)
			time.Sleep(time.Duration(10+rng.Intn(20)) * time.Millisecond)
		case "disc":
			for _, c := range w.srv.Conns() {
				if w.clientOf(c) == st.C {
					c.Cut()
				}
			}
			time.Sleep(time.Duration(20+rng.Intn(20)) * time.Millisecond)
		case "expire":
			w.srv.ExpireKeyNow(keyName(st.K))
			time.Sleep(time.Duration(10+rng.Intn(10)) * time.Millisecond)
		case "expireid":
			w.mu.Lock()
			var keys []string
			for s, id := range w.ids {
				if w.idOwner[id] == st.C {
					keys = append(keys, s)
				}
			}
			w.mu.Unlock()
			for _, s := range keys {
				w.srv.ExpireKeyNow(s)
			}
			time.Sleep(time.Duration(10+rng.Intn(10)) * time.Millisecond)
		case "sleep":
			time.Sleep(time.Duration(st.Ms) * time.Millisecond)
		}
	}
	done := make(chan struct{})
	go func() { w.wg.Wait(); close(done) }()
	select {
	case <-done:
	case <-time.After(12 * time.Second):
		rep.Violate("aside-get-hangs", fmt.Sprintf("a Get did not return within 12 s although its context has a deadline (scenario %s)", sc.ID), sc)
	}
	time.Sleep(20 * time.Millisecond)
	w.mu.Lock()
	w.flush()
	w.log("End", 0, 0, 0, "", 0, "", 0, "", 0)
	w.mu.Unlock()
	evs := w.tr.Events()
	for c := 1; c <= sc.Clients; c++ {
		if !w.dead[c] {
			go w.clients[c].Close()
		}
	}
	time.Sleep(20 * time.Millisecond)
	w.srv.SetEventSink(nil)
	w.srv.SetIntercept(nil)
	w.srv.Close()
	return evs
}

func randomScenario(i int, rng *rand.Rand) *scenario {
	sc := &scenario{ID: fmt.Sprintf("rnd%d", i), Clients: 2 + rng.Intn(2), Lua: rng.Intn(2) == 0, Typed: rng.Intn(3) == 0, Class: "random"}
	sc.Single = i%2 == 1
	n := 4 + rng.Intn(7)
	died := 0
	for j := 0; j < n; j++ {
		c := 1 + rng.Intn(sc.Clients)
		k := 1 + rng.Intn(2)
		switch r := rng.Intn(20); {
		case r < 11:
			ttls := []int{150, 400, 1500, 2500}
			sc.Steps = append(sc.Steps, step{Op: "get", C: c, K: k, TTL: ttls[rng.Intn(len(ttls))], Load: []int{0, 30, 120, 500}[rng.Intn(4)], Fail: rng.Intn(5) == 0, Nil: rng.Intn(5) == 0})
		case r < 13:
			sc.Steps = append(sc.Steps, step{Op: "del", C: c, K: k})
		case r < 14:
			if died < sc.Clients-1 {
				died++
				sc.Steps = append(sc.Steps, step{Op: "die", C: c})
			}
		case r < 15:
			sc.Steps = append(sc.Steps, step{Op: "disc", C: c})
		case r < 16:
			sc.Steps = append(sc.Steps, step{Op: "expire", K: k})
		case r < 17:
			sc.Steps = append(sc.Steps, step{Op: "expireid", C: c})
		default:
			sc.Steps = append(sc.Steps, step{Op: "sleep", Ms: 10 + rng.Intn(200)})
		}
	}
	return sc
}

func main() {
	flag.Parse()
	rep := &vh.Report{Rule: "a scenario counts as non-trivial when two clients ran Get for the same key concurrently or a client died / was disconnected / a key was deleted or expired while a Get was running"}
	var scs []*scenario
	if (*mode == "scen" || *mode == "both") && *scenFile != "" {
		f, err := os.Open(*scenFile)
		if err != nil {
			rep.Inconcl("cannot read scenarios: %v", err)
		} else {
			r := bufio.NewScanner(f)
			r.Buffer(make([]byte, 1<<20), 1<<24)
			for r.Scan() {
				if len(strings.TrimSpace(r.Text())) == 0 {
					continue
				}
				sc := &scenario{}
				if err := json.Unmarshal(r.Bytes(), sc); err != nil {
					rep.Inconcl("bad scenario line: %v", err)
					continue
				}
				scs = append(scs, sc)
			}
			f.Close()
		}
	}
	if *mode == "random" || *mode == "both" {
		rng := vh.Rng(39)
		for i := 0; i < *runs; i++ {
			scs = append(scs, randomScenario(i, rng))
		}
	}
	traces := make([][]map[string]any, len(scs))
	sem := make(chan struct{}, *par)
	var wg sync.WaitGroup
	for i, sc := range scs {
		wg.Add(1)
		sem <- struct{}{}
		go func(i int, sc *scenario) {
			defer wg.Done()
			defer func() { <-sem }()
			traces[i] = runScenario(sc, rep, vh.Rng(int64(2000+i)))
		}(i, sc)
	}
	wg.Wait()
	nontrivial := 0
	for i, tr := range traces {
		open := map[int]int{}
		nt := false
		for _, e := range tr {
			k, _ := e["k"].(int)
			switch e["ev"] {
			case "GetBegin":
				open[k]++
				if open[k] >= 2 {
					nt = true
				}
			case "GetEnd":
				open[k]--
			case "Die", "Del", "Expire", "IdGone":
				for _, n := range open {
					if n > 0 {
						nt = true
					}
				}
			}
		}
		if nt {
			nontrivial++
		}
		if i < 3 {
			rep.Sample(map[string]any{"scenario": scs[i], "events": len(tr)})
		}
		if *verbose {
			b, _ := json.Marshal(scs[i])
			fmt.Printf("%s -> %d events\n", b, len(tr))
		}
	}
	rep.Evaluations = len(scs)
	rep.DistinctNontrivial = nontrivial
	rep.Traces = 0 // counted by the check: traces accepted by AsideTrace.tla
	if *traceDir != "" {
		if err := vh.WriteNDJSON(filepath.Join(*traceDir, "aside-traces.ndjson"), traces); err != nil {
			rep.Inconcl("cannot write traces: %v", err)
		}
		idx := make([]map[string]any, 0, len(scs))
		pos := 1
		for i, sc := range scs {
			idx = append(idx, map[string]any{"first": pos, "last": pos + len(traces[i]) - 1, "scenario": sc})
			pos += len(traces[i])
		}
		b, _ := json.Marshal(idx)
		_ = os.WriteFile(filepath.Join(*traceDir, "aside-index.json"), b, 0o644)
	}
	rep.Assumptions = []string{
		"fakeredis + luamini stand for Redis (OPTIN tracking of DoCache reads, invalidation on write and expiry, scripts executed from the text the library sends)",
		"client death is simulated: connections cut, dials refused, Close without a reachable server",
	}
	rep.Write(*vh.Out)
}
