// asidedrv binds C39 (rueidisaside) to spec/addons/Aside.tla / AsideTrace.tla, hook-free:
//
// real rueidisaside clients (both UseLuaLock settings, some behind NewTypedCacheAsideClient) run over one fakeredis
// server per scenario with the real clock. The server side of every lock-protocol command (SET NX GET / acquireLock,
// setkey, delkey, DEL, the liveness key's SET) is logged under the dispatcher mutex with the key's value before and
// after it; the driver logs Get begin/end with the classified result and every loader invocation. Client death =
// its connections are cut, new dials are refused and it is stopped without its final DEL. The ndjson trace is judged
// by AsideTrace.tla.
package main

import (
	"bufio"
	"context"
	"crypto/sha1"
	"encoding/hex"
	"encoding/json"
	"errors"
	"flag"
	"fmt"
	"math/rand"
	"os"
	"path/filepath"
	"strconv"
	"strings"
	"sync"
	"syscall"
	"time"

	"github.com/redis/rueidis"
	"github.com/redis/rueidis/rueidisaside"
	"verifharness/fakeredis"
	"verifharness/vh"
)

var (
	mode     = flag.String("mode", "both", "scen | random | both")
	scenFile = flag.String("scen", "", "ndjson scenarios")
	runs     = flag.Int("runs", 40, "random scenarios")
	par      = flag.Int("par", 16, "scenarios run concurrently")
	traceDir = flag.String("tracedir", "", "directory for the ndjson trace")
	verbose  = flag.Bool("v", false, "print scenarios")
)

const (
	addr      = "127.0.0.1:6379"
	clientTTL = 300 * time.Millisecond
	phPrefix  = rueidisaside.PlaceholderPrefix
)

type step struct {
	Op   string `json:"op"` // get del die disc expire expireid sleep
	C    int    `json:"c"`
	K    int    `json:"k"`
	TTL  int    `json:"ttl"`  // get: lock / cache TTL in ms
	Load int    `json:"load"` // get: loader duration in ms
	Fail bool   `json:"fail"` // get: loader fails
	Ms   int    `json:"ms"`
}

type scenario struct {
	ID      string `json:"id"`
	Clients int    `json:"clients"`
	Lua     bool   `json:"lua"`
	Typed   bool   `json:"typed"`
	Steps   []step `json:"steps"`
	Class   string `json:"class"`
}

type pending struct {
	kind   string // lock setkey delkey del idset
	c, k   int
	idarg  int
	preV   string
	preOK  bool
	key    string
	valarg string
	cmd    string
	postV  string
	postOK bool
	conn   int
}

type world struct {
	sc      *scenario
	srv     *fakeredis.Server
	nets    []*fakeredis.Network
	clients []rueidisaside.CacheAsideClient
	typed   []rueidisaside.TypedCacheAsideClient[string]
	t0      time.Time
	tr      *vh.Tracer
	rep     *vh.Report

	mu      sync.Mutex
	ids     map[string]int // liveness key -> id number
	idOwner map[int]int
	vals    map[string]int // loader value -> load number
	nload   int
	pre     map[int]*pending
	pend    *pending // executed command whose record is written at its reply
	dead    map[int]bool
	wg      sync.WaitGroup
	gets    int
}

func keyName(k int) string { return "ck" + strconv.Itoa(k) }
func keyIdx(s string) int {
	if strings.HasPrefix(s, "ck") {
		if n, err := strconv.Atoi(s[2:]); err == nil {
			return n
		}
	}
	return -1
}

func (w *world) now() int { return int(time.Since(w.t0) / time.Millisecond) }

// every record has the same fields
func (w *world) log(ev string, c, k, id int, fk string, fn int, tk string, tn int, res string, n int) {
	w.tr.Log(ev, "c", c, "k", k, "id", id, "fk", fk, "fn", fn, "tk", tk, "tn", tn, "res", res, "n", n, "t", w.now())
}

// classify a stored / returned string: nil, ph(id number), v(load number), x (anything else)
func (w *world) classify(s string, ok bool) (string, int) {
	if !ok {
		return "nil", 0
	}
	if strings.HasPrefix(s, phPrefix) {
		id, known := w.ids[s]
		if !known {
			id = len(w.ids) + 1
			w.ids[s] = id
		}
		return "ph", id
	}
	if n, known := w.vals[s]; known {
		return "v", n
	}
	return "x", 0
}

func (w *world) clientOf(c *fakeredis.Conn) int {
	n := c.Name()
	if strings.HasPrefix(n, "A") {
		if v, err := strconv.Atoi(n[1:]); err == nil {
			return v
		}
	}
	return 0
}

func scriptKind(src string) string {
	switch {
	case strings.Contains(src, `"DEL"`):
		return "delkey"
	case strings.Contains(src, `"NX"`):
		return "lock"
	case strings.Contains(src, `"SET"`):
		return "setkey"
	}
	return ""
}

func (w *world) intercept(c *fakeredis.Conn, argv []string) (fakeredis.Value, fakeredis.Action) {
	cl := w.clientOf(c)
	w.mu.Lock()
	isDead := w.dead[cl]
	w.mu.Unlock()
	if isDead && cl != 0 {
		return fakeredis.Value{}, fakeredis.CutNow
	}
	cmd := strings.ToUpper(argv[0])
	var p *pending
	switch cmd {
	case "SET":
		if len(argv) >= 3 {
			if strings.HasPrefix(argv[1], phPrefix) {
				p = &pending{kind: "idset", key: argv[1]}
			} else if keyIdx(argv[1]) >= 0 {
				p = &pending{kind: "lock", key: argv[1], valarg: argv[2]}
			}
		}
	case "DEL":
		if len(argv) == 2 && (keyIdx(argv[1]) >= 0 || strings.HasPrefix(argv[1], phPrefix)) {
			p = &pending{kind: "del", key: argv[1]}
		}
	case "EVAL", "EVALSHA":
		if len(argv) >= 5 && argv[2] == "1" && keyIdx(argv[3]) >= 0 {
			sha := strings.ToLower(argv[1])
			shaMu.Lock()
			if cmd == "EVAL" {
				sha = sha1hex(argv[1])
				shaKinds[sha] = scriptKind(argv[1])
			}
			kind := shaKinds[sha]
			shaMu.Unlock()
			if kind != "" {
				p = &pending{kind: kind, key: argv[3], valarg: argv[4]}
			}
		}
	}
	if p == nil {
		return fakeredis.Value{}, fakeredis.Pass
	}
	w.srv.ExpireNow()
	p.cmd = cmd
	p.c = cl
	p.k = keyIdx(p.key)
	p.preV, _, p.preOK = w.srv.PeekRaw(p.key)
	w.mu.Lock()
	w.pre[c.ID()] = p
	w.mu.Unlock()
	return fakeredis.Value{}, fakeredis.Pass
}

var shaMu sync.Mutex
var shaKinds = map[string]string{}

func sha1hex(s string) string {
	sum := sha1.Sum([]byte(s))
	return hex.EncodeToString(sum[:])
}

// flush logs the executed command kept in w.pend (w.mu held). Logging is deferred until the command's reply so that a
// key expiring lazily inside the command is logged in front of it.
func (w *world) flush() {
	p := w.pend
	if p == nil {
		return
	}
	w.pend = nil
	switch p.kind {
	case "idset":
		_, id := w.classify(p.key, true)
		if _, ok := w.idOwner[id]; !ok {
			w.idOwner[id] = p.c
		}
		w.log("IdSet", p.c, 0, id, "", 0, "", 0, "", 0)
	case "del":
		if strings.HasPrefix(p.key, phPrefix) {
			_, id := w.classify(p.key, true)
			if p.preOK {
				w.log("IdGone", p.c, 0, id, "", 0, "", 0, "del", 0)
			}
			return
		}
		fk, fn := w.classify(p.preV, p.preOK)
		tk, tn := w.classify(p.postV, p.postOK)
		w.log("Del", p.c, p.k, 0, fk, fn, tk, tn, "", 0)
	default:
		fk, fn := w.classify(p.preV, p.preOK)
		tk, tn := w.classify(p.postV, p.postOK)
		idarg := 0
		if strings.HasPrefix(p.valarg, phPrefix) {
			_, idarg = w.classify(p.valarg, true)
		}
		name := map[string]string{"lock": "Lock", "setkey": "SetKey", "delkey": "DelKey"}[p.kind]
		w.log(name, p.c, p.k, idarg, fk, fn, tk, tn, "", 0)
	}
}

func (w *world) sink(ev fakeredis.Event) {
	w.mu.Lock()
	defer w.mu.Unlock()
	switch ev.Kind {
	case fakeredis.SRep:
		if ev.Reply.IsError() {
			delete(w.pre, ev.Conn)
		}
		if w.pend != nil && w.pend.conn == ev.Conn {
			w.flush()
		}
	case fakeredis.SPush:
	case fakeredis.SExpire:
		if p := w.pend; p != nil && p.key == ev.Argv[0] && p.preOK {
			// lazy expiry inside the command that has just run: it found the key absent
			p.preOK = false
		} else {
			w.flush()
		}
		if k := keyIdx(ev.Argv[0]); k >= 0 {
			w.log("Expire", 0, k, 0, "", 0, "nil", 0, "", 0)
		} else if strings.HasPrefix(ev.Argv[0], phPrefix) {
			_, id := w.classify(ev.Argv[0], true)
			w.log("IdGone", w.idOwner[id], 0, id, "", 0, "", 0, "expire", 0)
		}
	case fakeredis.SExec:
		if strings.HasPrefix(ev.Note, "lua") || len(ev.Argv) == 0 {
			return
		}
		w.flush()
		cmd := strings.ToUpper(ev.Argv[0])
		if ev.Conn == 0 {
			if cmd == "DEL" && len(ev.Argv) == 2 && keyIdx(ev.Argv[1]) >= 0 {
				w.log("Del", 0, keyIdx(ev.Argv[1]), 0, "", 0, "nil", 0, "", 0)
			}
			return
		}
		p := w.pre[ev.Conn]
		delete(w.pre, ev.Conn)
		// the pending entry must belong to this very command (one that ended with an error reply leaves it behind)
		if p == nil || p.cmd != cmd || len(ev.Argv) < 2 || (p.key != ev.Argv[1] && (len(ev.Argv) < 4 || p.key != ev.Argv[3])) {
			return
		}
		w.mu.Unlock()
		p.postV, _, p.postOK = w.srv.PeekRaw(p.key)
		w.mu.Lock()
		p.conn = ev.Conn
		w.pend = p
	default:
		w.flush()
	}
}

func (w *world) newClient(c int) error {
	n := fakeredis.NewNetwork()
	n.Add(addr, w.srv)
	w.nets[c] = n
	cl, err := rueidisaside.NewClient(rueidisaside.ClientOption{
		ClientOption: rueidis.ClientOption{
			InitAddress:       []string{addr},
			DialCtxFn:         n.DialCtxFn(),
			ForceSingleClient: true,
			ClientName:        "A" + strconv.Itoa(c),
		},
		ClientTTL:  clientTTL,
		UseLuaLock: w.sc.Lua,
	})
	if err != nil {
		return err
	}
	w.clients[c] = cl
	if w.sc.Typed && c%2 == 0 {
		w.typed[c] = rueidisaside.NewTypedCacheAsideClient[string](cl,
			func(s *string) (string, error) { return *s, nil },
			func(s string) (*string, error) { return &s, nil })
	}
	return nil
}

func (w *world) get(st step) {
	defer w.wg.Done()
	c, k := st.C, st.K
	ttl := time.Duration(st.TTL) * time.Millisecond
	w.mu.Lock()
	w.gets++
	g := w.gets
	w.log("GetBegin", c, k, 0, "", 0, "", 0, "", g)
	w.mu.Unlock()
	loader := func(ctx context.Context, key string) (string, error) {
		w.mu.Lock()
		w.nload++
		n := w.nload
		v := fmt.Sprintf("val-%d-%d", k, n)
		w.vals[v] = n
		w.log("LoadBegin", c, k, 0, "", 0, "", 0, "", n)
		w.mu.Unlock()
		time.Sleep(time.Duration(st.Load) * time.Millisecond)
		w.mu.Lock()
		res := "ok"
		if st.Fail {
			res = "fail"
		}
		w.log("LoadEnd", c, k, 0, "", 0, "", 0, res, n)
		w.mu.Unlock()
		if st.Fail {
			return "", errors.New("loader failed")
		}
		return v, nil
	}
	var val string
	var err error
	if t := w.typed[c]; t != nil {
		var p *string
		p, err = t.Get(context.Background(), ttl, keyName(k), func(ctx context.Context, key string) (*string, error) {
			s, e := loader(ctx, key)
			if e != nil {
				return nil, e
			}
			return &s, nil
		})
		if p != nil {
			val = *p
		}
	} else {
		val, err = w.clients[c].Get(context.Background(), ttl, keyName(k), loader)
	}
	w.mu.Lock()
	defer w.mu.Unlock()
	if w.dead[c] {
		w.log("GetEnd", c, k, 0, "", 0, "dead", 0, "dead", g)
		return
	}
	// what the caller got: the value string is classified whatever the error says
	kind, n := w.classify(val, val != "")
	res := "ok"
	switch {
	case err == nil:
	case errors.Is(err, context.DeadlineExceeded), errors.Is(err, context.Canceled):
		res = "timeout"
	case err.Error() == "loader failed":
		res = "loaderr"
	case rueidis.IsRedisNil(err):
		res = "nil"
	default:
		res = "err"
	}
	w.log("GetEnd", c, k, 0, "", 0, kind, n, res, g)
}

func (w *world) kill(c int) {
	w.mu.Lock()
	w.dead[c] = true
	w.log("Die", c, 0, 0, "", 0, "", 0, "", 0)
	w.mu.Unlock()
	w.nets[c].SetDialHook(func(string) error { return syscall.ECONNREFUSED })
	for _, sc := range w.srv.Conns() {
		if w.clientOf(sc) == c {
			sc.Cut()
		}
	}
	go w.clients[c].Close() // stops refresh; its final DEL cannot reach the server
}

func runScenario(sc *scenario, rep *vh.Report, rng *rand.Rand) []map[string]any {
	w := &world{sc: sc, tr: &vh.Tracer{}, rep: rep, ids: map[string]int{}, idOwner: map[int]int{}, vals: map[string]int{},
		pre: map[int]*pending{}, dead: map[int]bool{}}
	w.srv = fakeredis.NewServer("s", fakeredis.Options{})
	w.t0 = time.Now()
	w.nets = make([]*fakeredis.Network, sc.Clients+1)
	w.clients = make([]rueidisaside.CacheAsideClient, sc.Clients+1)
	w.typed = make([]rueidisaside.TypedCacheAsideClient[string], sc.Clients+1)
	w.srv.SetIntercept(w.intercept)
	w.srv.SetEventSink(w.sink)
	w.tr.Log("RESET", "c", sc.Clients, "k", 0, "id", 0, "fk", "", "fn", 0, "tk", "", "tn", 0, "res", sc.ID, "n", 0, "t", 0)
	for c := 1; c <= sc.Clients; c++ {
		if err := w.newClient(c); err != nil {
			rep.Inconcl("NewClient: %v", err)
			return nil
		}
	}
	for _, st := range sc.Steps {
		switch st.Op {
		case "get":
			w.mu.Lock()
			d := w.dead[st.C]
			w.mu.Unlock()
			if d {
				continue
			}
			w.wg.Add(1)
			go w.get(st)
			time.Sleep(time.Duration(15+rng.Intn(25)) * time.Millisecond)
		case "del":
			w.mu.Lock()
			d := w.dead[st.C]
			w.mu.Unlock()
			if !d {
				ctx, cancel := context.WithTimeout(context.Background(), time.Second)
				_ = w.clients[st.C].Del(ctx, keyName(st.K))
				cancel()
			}
			time.Sleep(time.Duration(10+rng.Intn(20)) * time.Millisecond)
		case "die":
			w.kill(st.C)
			time.Sleep(time.Duration(10+rng.Intn(20)) * time.Millisecond)
		case "disc":
			for _, c := range w.srv.Conns() {
				if w.clientOf(c) == st.C {
					c.Cut()
				}
			}
			time.Sleep(time.Duration(20+rng.Intn(20)) * time.Millisecond)
		case "expire":
			w.srv.ExpireKeyNow(keyName(st.K))
			time.Sleep(time.Duration(10+rng.Intn(10)) * time.Millisecond)
		case "expireid":
			w.mu.Lock()
			var keys []string
			for s, id := range w.ids {
				if w.idOwner[id] == st.C {
					keys = append(keys, s)
				}
			}
			w.mu.Unlock()
			for _, s := range keys {
				w.srv.ExpireKeyNow(s)
			}
			time.Sleep(time.Duration(10+rng.Intn(10)) * time.Millisecond)
		case "sleep":
			time.Sleep(time.Duration(st.Ms) * time.Millisecond)
		}
	}
	done := make(chan struct{})
	go func() { w.wg.Wait(); close(done) }()
	select {
	case <-done:
	case <-time.After(12 * time.Second):
		rep.Violate("aside-get-hangs", fmt.Sprintf("a Get did not return within 12 s although its context has a deadline (scenario %s)", sc.ID), sc)
	}
	time.Sleep(20 * time.Millisecond)
	w.mu.Lock()
	w.flush()
	w.log("End", 0, 0, 0, "", 0, "", 0, "", 0)
	w.mu.Unlock()
	evs := w.tr.Events()
	for c := 1; c <= sc.Clients; c++ {
		if !w.dead[c] {
			go w.clients[c].Close()
		}
	}
	time.Sleep(20 * time.Millisecond)
	w.srv.SetEventSink(nil)
	w.srv.SetIntercept(nil)
	w.srv.Close()
	return evs
}

func randomScenario(i int, rng *rand.Rand) *scenario {
	sc := &scenario{ID: fmt.Sprintf("rnd%d", i), Clients: 2 + rng.Intn(2), Lua: rng.Intn(2) == 0, Typed: rng.Intn(3) == 0, Class: "random"}
	n := 4 + rng.Intn(7)
	died := 0
	for j := 0; j < n; j++ {
		c := 1 + rng.Intn(sc.Clients)
		k := 1 + rng.Intn(2)
		switch r := rng.Intn(20); {
		case r < 11:
			ttls := []int{150, 400, 1500, 2500}
			sc.Steps = append(sc.Steps, step{Op: "get", C: c, K: k, TTL: ttls[rng.Intn(len(ttls))], Load: []int{0, 30, 120, 500}[rng.Intn(4)], Fail: rng.Intn(5) == 0})
		case r < 13:
			sc.Steps = append(sc.Steps, step{Op: "del", C: c, K: k})
		case r < 14:
			if died < sc.Clients-1 {
				died++
				sc.Steps = append(sc.Steps, step{Op: "die", C: c})
			}
		case r < 15:
			sc.Steps = append(sc.Steps, step{Op: "disc", C: c})
		case r < 16:
			sc.Steps = append(sc.Steps, step{Op: "expire", K: k})
		case r < 17:
			sc.Steps = append(sc.Steps, step{Op: "expireid", C: c})
		default:
			sc.Steps = append(sc.Steps, step{Op: "sleep", Ms: 10 + rng.Intn(200)})
		}
	}
	return sc
}

func main() {
	flag.Parse()
	rep := &vh.Report{Rule: "a scenario counts as non-trivial when two clients ran Get for the same key concurrently or a client died / was disconnected / a key was deleted or expired while a Get was running"}
	var scs []*scenario
	if (*mode == "scen" || *mode == "both") && *scenFile != "" {
		f, err := os.Open(*scenFile)
		if err != nil {
			rep.Inconcl("cannot read scenarios: %v", err)
		} else {
			r := bufio.NewScanner(f)
			r.Buffer(make([]byte, 1<<20), 1<<24)
			for r.Scan() {
				if len(strings.TrimSpace(r.Text())) == 0 {
					continue
				}
				sc := &scenario{}
				if err := json.Unmarshal(r.Bytes(), sc); err != nil {
					rep.Inconcl("bad scenario line: %v", err)
					continue
				}
				scs = append(scs, sc)
			}
			f.Close()
		}
	}
	if *mode == "random" || *mode == "both" {
		rng := vh.Rng(39)
		for i := 0; i < *runs; i++ {
			scs = append(scs, randomScenario(i, rng))
		}
	}
	traces := make([][]map[string]any, len(scs))
	sem := make(chan struct{}, *par)
	var wg sync.WaitGroup
	for i, sc := range scs {
		wg.Add(1)
		sem <- struct{}{}
		go func(i int, sc *scenario) {
			defer wg.Done()
			defer func() { <-sem }()
			traces[i] = runScenario(sc, rep, vh.Rng(int64(2000+i)))
		}(i, sc)
	}
	wg.Wait()
	nontrivial := 0
	for i, tr := range traces {
		open := map[int]int{}
		nt := false
		for _, e := range tr {
			k, _ := e["k"].(int)
			switch e["ev"] {
			case "GetBegin":
				open[k]++
				if open[k] >= 2 {
					nt = true
				}
			case "GetEnd":
				open[k]--
			case "Die", "Del", "Expire", "IdGone":
				for _, n := range open {
					if n > 0 {
						nt = true
					}
				}
			}
		}
		if nt {
			nontrivial++
		}
		if i < 3 {
			rep.Sample(map[string]any{"scenario": scs[i], "events": len(tr)})
		}
		if *verbose {
			b, _ := json.Marshal(scs[i])
			fmt.Printf("%s -> %d events\n", b, len(tr))
		}
	}
	rep.Evaluations = len(scs)
	rep.DistinctNontrivial = nontrivial
	rep.Traces = 0 // counted by the check: traces accepted by AsideTrace.tla
	if *traceDir != "" {
		if err := vh.WriteNDJSON(filepath.Join(*traceDir, "aside-traces.ndjson"), traces); err != nil {
			rep.Inconcl("cannot write traces: %v", err)
		}
		idx := make([]map[string]any, 0, len(scs))
		pos := 1
		for i, sc := range scs {
			idx = append(idx, map[string]any{"first": pos, "last": pos + len(traces[i]) - 1, "scenario": sc})
			pos += len(traces[i])
		}
		b, _ := json.Marshal(idx)
		_ = os.WriteFile(filepath.Join(*traceDir, "aside-index.json"), b, 0o644)
	}
	rep.Assumptions = []string{
		"fakeredis + luamini stand for Redis (OPTIN tracking of DoCache reads, invalidation on write and expiry, scripts executed from the text the library sends)",
		"client death is simulated: connections cut, dials refused, Close without a reachable server",
	}
	rep.Write(*vh.Out)
}
