// puredrv binds the generation/oracle modules of spec/data to the real code of the root package.
// TLC enumerates the cases and predicts the outcome (one JSON object per case, file given with -cases);
// this driver applies every case to the real function and compares.  It never computes an expected value itself.
//
//	-mode url       C44  Url.tla       -> rueidis.ParseURL
//	-mode selector  C22  Selector.tla  -> PreferReplicaNodeSelector, AZAffinityNodeSelector, AZAffinityReplicasAndPrimaryNodeSelector
//	-mode scanner   C46  Scanner.tla   -> NewScanner(...).Iter / Iter2 / Err with a scripted next
//	-mode vector    C45  Vector.tla    -> VectorString32/64, ToVector32/64, BinaryString, JSON
//	-mode slot      C18  Slot.tla      -> Slot() of commands built by cluster and non-cluster builders
//	-mode cachekey  C08  CacheKey.tla  -> cmds.CacheKey / MGetCacheCmd, then DoCache end to end against fakeredis
package main

import (
	"bufio"
	"encoding/json"
	"flag"
	"fmt"
	"net"
	"os"
	"sort"
	"strings"
	"time"

	"verifharness/vh"
)

var (
	mode      = flag.String("mode", "", "url | selector | scanner | vector | slot | cachekey")
	casesPath = flag.String("cases", "", "ndjson file with the cases printed by TLC")
)

// readCases decodes one JSON object per line into T.
func readCases[T any](rep *vh.Report) []T {
	f, err := os.Open(*casesPath)
	if err != nil {
		rep.Inconcl("cannot open cases: %v", err)
		return nil
	}
	defer f.Close()
	var out []T
	sc := bufio.NewScanner(f)
	sc.Buffer(make([]byte, 1<<20), 1<<26)
	n := 0
	for sc.Scan() {
		n++
		line := strings.TrimSpace(sc.Text())
		if line == "" {
			continue
		}
		var c T
		dec := json.NewDecoder(strings.NewReader(line))
		dec.UseNumber()
		if err := dec.Decode(&c); err != nil {
			rep.Inconcl("case line %d does not decode: %v", n, err)
			return nil
		}
		out = append(out, c)
	}
	if err := sc.Err(); err != nil {
		rep.Inconcl("reading cases: %v", err)
	}
	return out
}

// guard runs f and turns a panic into (msg, true).
func guard(f func()) (msg string, panicked bool) {
	defer func() {
		if r := recover(); r != nil {
			msg, panicked = fmt.Sprint(r), true
		}
	}()
	f()
	return "", false
}

func sortedInts(s []int) []int {
	c := append([]int(nil), s...)
	sort.Ints(c)
	return c
}

func main() {
	flag.Parse()
	rep := &vh.Report{}
	switch *mode {
	case "url":
		runURL(rep)
	case "selector":
		runSelector(rep)
	case "scanner":
		runScanner(rep)
	case "vector":
		runVector(rep)
	case "slot":
		runSlot(rep)
	case "cachekey":
		runCacheKey(rep)
	default:
		rep.Inconcl("unknown mode %q", *mode)
	}
	rep.Write(*vh.Out)
}

func sortStrings(s []string) { sort.Strings(s) }

func netDialer(timeout time.Duration) net.Dialer { return net.Dialer{Timeout: timeout} }
