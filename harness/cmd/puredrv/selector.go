package main

import (
	"fmt"

	"github.com/redis/rueidis"
	"verifharness/vh"
)

type selCase struct {
	Sel    string   `json:"sel"`
	N      int      `json:"n"`
	Azs    []string `json:"azs"`
	Client string   `json:"client"`
	Same   []int    `json:"same"`
	Adm    []int    `json:"adm"`
	Rot    []int    `json:"rot"`
	Calls  int      `json:"calls"`
}

func newSelector(sel, clientAZ string) rueidis.ReadNodeSelectorFunc {
	switch sel {
	case "prefer":
		return rueidis.PreferReplicaNodeSelector()
	case "az":
		return rueidis.AZAffinityNodeSelector(clientAZ)
	case "azp":
		return rueidis.AZAffinityReplicasAndPrimaryNodeSelector(clientAZ)
	}
	panic("unknown selector " + sel)
}

// nodesOf concretises a case: short lists carry their AZ list; long lists are given by the index set `same`
// (nodes whose AZ equals the client's), every other node gets a different AZ.
func nodesOf(c *selCase) []rueidis.NodeInfo {
	nodes := make([]rueidis.NodeInfo, c.N)
	if len(c.Azs) == c.N {
		for i := range nodes {
			nodes[i] = rueidis.NodeInfo{Addr: fmt.Sprintf("n%d:6379", i), AZ: c.Azs[i]}
		}
		return nodes
	}
	same := map[int]bool{}
	for _, i := range c.Same {
		same[i] = true
	}
	for i := range nodes {
		az := "other-" + c.Client
		if same[i] {
			az = c.Client
		}
		nodes[i] = rueidis.NodeInfo{Addr: fmt.Sprintf("n%d:6379", i), AZ: az}
	}
	return nodes
}

func listClass(n int) string {
	switch {
	case n == 0:
		return "empty"
	case n == 1:
		return "primary-only"
	case n <= 8:
		return "short"
	}
	return "long"
}

func inSet(s []int, x int) bool {
	for _, y := range s {
		if y == x {
			return true
		}
	}
	return false
}

func runSelector(rep *vh.Report) {
	cases := readCases[selCase](rep)
	rep.Rule = "node lists with at least one replica (n >= 2), i.e. cases in which the selector has a choice or a priority to respect"
	for i := range cases {
		c := &cases[i]
		nodes := nodesOf(c)
		f := newSelector(c.Sel, c.Client)
		rep.Evaluations++
		if c.N >= 2 {
			rep.DistinctNontrivial++
		}
		results := make([]int, 0, c.Calls)
		bad := false
		for k := 0; k < c.Calls && !bad; k++ {
			var r int
			if msg, p := guard(func() { r = f(uint16(k*4099), nodes) }); p {
				rep.Violate(fmt.Sprintf("selector=%s class=panic nodes=%s", c.Sel, listClass(c.N)),
					fmt.Sprintf("%s selector panicked on %d nodes (client AZ %q): %s", c.Sel, c.N, c.Client, msg), c)
				bad = true
				break
			}
			results = append(results, r)
			if !inSet(c.Adm, r) {
				class := "priority"
				if r < -1 || r >= c.N {
					class = "invalid-index"
				}
				rep.Violate(fmt.Sprintf("selector=%s class=%s nodes=%s", c.Sel, class, listClass(c.N)),
					fmt.Sprintf("%s selector, %d nodes azs=%v same-AZ indices=%v client AZ %q: call %d returned %d, admissible results are %v",
						c.Sel, c.N, c.Azs, c.Same, c.Client, k+1, r, c.Adm), map[string]any{"case": c, "results": results})
				bad = true
			}
		}
		if bad {
			continue
		}
		// rotation: every window of |rot| consecutive calls returns every rotating candidate
		w := len(c.Rot)
		for s := 0; s+w <= len(results); s++ {
			seen := map[int]bool{}
			for _, r := range results[s : s+w] {
				seen[r] = true
			}
			ok := len(seen) == w
			for _, r := range c.Rot {
				ok = ok && seen[r]
			}
			if !ok {
				rep.Violate(fmt.Sprintf("selector=%s class=no-rotation nodes=%s", c.Sel, listClass(c.N)),
					fmt.Sprintf("%s selector, %d nodes same-AZ indices=%v client AZ %q: calls %d..%d returned %v, expected each of %v once",
						c.Sel, c.N, c.Same, c.Client, s+1, s+w, results[s:s+w], c.Rot), map[string]any{"case": c, "results": results})
				break
			}
		}
		if i%701 == 0 {
			rep.Sample(map[string]any{"sel": c.Sel, "n": c.N, "azs": c.Azs, "client": c.Client, "admissible": c.Adm, "results": results})
		}
	}
	// one selector instance fed with changing node lists (the counter is shared): only admissibility is required
	rng := vh.Rng(22)
	bySel := map[string][]*selCase{}
	for i := range cases {
		k := cases[i].Sel + "\x00" + cases[i].Client
		bySel[k] = append(bySel[k], &cases[i])
	}
	keys := make([]string, 0, len(bySel))
	for k := range bySel {
		keys = append(keys, k)
	}
	sortStrings(keys)
	for _, k := range keys {
		cs := bySel[k]
		f := newSelector(cs[0].Sel, cs[0].Client)
		rounds := 2000
		if vh.Thorough() {
			rounds = 20000
		}
		for j := 0; j < rounds; j++ {
			c := cs[rng.Intn(len(cs))]
			nodes := nodesOf(c)
			var r int
			rep.Evaluations++
			if msg, p := guard(func() { r = f(uint16(j), nodes) }); p {
				rep.Violate(fmt.Sprintf("selector=%s class=panic nodes=%s", c.Sel, listClass(c.N)), "mixed sequence: "+msg, c)
				break
			}
			if !inSet(c.Adm, r) {
				class := "priority"
				if r < -1 || r >= c.N {
					class = "invalid-index"
				}
				rep.Violate(fmt.Sprintf("selector=%s class=%s nodes=%s", c.Sel, class, listClass(c.N)),
					fmt.Sprintf("%s selector reused across node lists: %d nodes same-AZ indices=%v client AZ %q returned %d, admissible %v", c.Sel, c.N, c.Same, c.Client, r, c.Adm), c)
				break
			}
		}
	}
}
