package main

import (
	"context"
	"fmt"
	"strings"
	"time"

	"github.com/redis/rueidis"
	"verifharness/fakeredis"
	"verifharness/vh"
)

type slotCase struct {
	Kind  string  `json:"kind"` // "key" (one key) | "multi"
	Keys  [][]int `json:"keys"`
	Slots []int   `json:"slots"`
	Same  bool    `json:"same"`
}

type builderKind struct {
	name string
	b    func() rueidis.Builder
}

// single-key shapes from several gen_*.go families; every one returns the built command
var singleShapes = []struct {
	name string
	f    func(b rueidis.Builder, k string) rueidis.Completed
}{
	{"GET", func(b rueidis.Builder, k string) rueidis.Completed { return b.Get().Key(k).Build() }},
	{"GET.Cache", func(b rueidis.Builder, k string) rueidis.Completed { return rueidis.Completed(b.Get().Key(k).Cache()) }},
	{"SET", func(b rueidis.Builder, k string) rueidis.Completed { return b.Set().Key(k).Value("v").Build() }},
	{"GETRANGE", func(b rueidis.Builder, k string) rueidis.Completed {
		return b.Getrange().Key(k).Start(0).End(1).Build()
	}},
	{"INCR", func(b rueidis.Builder, k string) rueidis.Completed { return b.Incr().Key(k).Build() }},
	{"EXPIRE", func(b rueidis.Builder, k string) rueidis.Completed { return b.Expire().Key(k).Seconds(1).Build() }},
	{"TYPE", func(b rueidis.Builder, k string) rueidis.Completed { return b.Type().Key(k).Build() }},
	{"SORT", func(b rueidis.Builder, k string) rueidis.Completed { return b.Sort().Key(k).Build() }},
	{"HGET", func(b rueidis.Builder, k string) rueidis.Completed { return b.Hget().Key(k).Field("f").Build() }},
	{"HMGET.Cache", func(b rueidis.Builder, k string) rueidis.Completed {
		return rueidis.Completed(b.Hmget().Key(k).Field("f", "g").Cache())
	}},
	{"LRANGE", func(b rueidis.Builder, k string) rueidis.Completed {
		return b.Lrange().Key(k).Start(0).Stop(-1).Build()
	}},
	{"SADD", func(b rueidis.Builder, k string) rueidis.Completed { return b.Sadd().Key(k).Member("m", "{x}").Build() }},
	{"ZADD", func(b rueidis.Builder, k string) rueidis.Completed {
		return b.Zadd().Key(k).ScoreMember().ScoreMember(1, "{m}").Build()
	}},
	{"PFADD", func(b rueidis.Builder, k string) rueidis.Completed { return b.Pfadd().Key(k).Element("e").Build() }},
	{"GETBIT", func(b rueidis.Builder, k string) rueidis.Completed { return b.Getbit().Key(k).Offset(1).Build() }},
	{"JSON.GET", func(b rueidis.Builder, k string) rueidis.Completed { return b.JsonGet().Key(k).Path("$").Build() }},
	{"SPUBLISH", func(b rueidis.Builder, k string) rueidis.Completed {
		return b.Spublish().Channel(k).Message("m").Build()
	}},
	{"EVAL(1 key)", func(b rueidis.Builder, k string) rueidis.Completed {
		return b.Eval().Script("return 1").Numkeys(1).Key(k).Arg("{arg}").Build()
	}},
	{"MGET(1 key)", func(b rueidis.Builder, k string) rueidis.Completed { return b.Mget().Key(k).Build() }},
	{"Arbitrary.Keys", func(b rueidis.Builder, k string) rueidis.Completed { return b.Arbitrary("GET").Keys(k).Build() }},
	{"Arbitrary.Keys.Args", func(b rueidis.Builder, k string) rueidis.Completed {
		return b.Arbitrary("SET").Keys(k).Args("{other}").Build()
	}},
	{"Completed.SetSlot", func(b rueidis.Builder, k string) rueidis.Completed {
		return b.Arbitrary("PING").Build().SetSlot(k)
	}},
}

// multi-key shapes: every key of the case is a key of the command
var multiShapes = []struct {
	name string
	min  int
	f    func(b rueidis.Builder, ks []string) rueidis.Completed
}{
	{"MGET", 1, func(b rueidis.Builder, ks []string) rueidis.Completed { return b.Mget().Key(ks...).Build() }},
	{"MGET.Key.Key", 2, func(b rueidis.Builder, ks []string) rueidis.Completed {
		return b.Mget().Key(ks[0]).Key(ks[1:]...).Build()
	}},
	{"MGET.Cache", 1, func(b rueidis.Builder, ks []string) rueidis.Completed {
		return rueidis.Completed(b.Mget().Key(ks...).Cache())
	}},
	{"DEL", 1, func(b rueidis.Builder, ks []string) rueidis.Completed { return b.Del().Key(ks...).Build() }},
	{"EXISTS", 1, func(b rueidis.Builder, ks []string) rueidis.Completed { return b.Exists().Key(ks...).Build() }},
	{"UNLINK", 1, func(b rueidis.Builder, ks []string) rueidis.Completed { return b.Unlink().Key(ks...).Build() }},
	{"TOUCH", 1, func(b rueidis.Builder, ks []string) rueidis.Completed { return b.Touch().Key(ks...).Build() }},
	{"WATCH", 1, func(b rueidis.Builder, ks []string) rueidis.Completed { return b.Watch().Key(ks...).Build() }},
	{"MSET", 1, func(b rueidis.Builder, ks []string) rueidis.Completed {
		c := b.Mset().KeyValue()
		for _, k := range ks {
			c = c.KeyValue(k, "{v}")
		}
		return c.Build()
	}},
	{"RENAME", 2, func(b rueidis.Builder, ks []string) rueidis.Completed {
		if len(ks) != 2 {
			return rueidis.Completed{}
		}
		return b.Rename().Key(ks[0]).Newkey(ks[1]).Build()
	}},
	{"COPY", 2, func(b rueidis.Builder, ks []string) rueidis.Completed {
		if len(ks) != 2 {
			return rueidis.Completed{}
		}
		return b.Copy().Source(ks[0]).Destination(ks[1]).Build()
	}},
	{"SMOVE", 2, func(b rueidis.Builder, ks []string) rueidis.Completed {
		if len(ks) != 2 {
			return rueidis.Completed{}
		}
		return b.Smove().Source(ks[0]).Destination(ks[1]).Member("{m}").Build()
	}},
	{"LMOVE", 2, func(b rueidis.Builder, ks []string) rueidis.Completed {
		if len(ks) != 2 {
			return rueidis.Completed{}
		}
		return b.Lmove().Source(ks[0]).Destination(ks[1]).Left().Right().Build()
	}},
	{"SINTERSTORE", 2, func(b rueidis.Builder, ks []string) rueidis.Completed {
		return b.Sinterstore().Destination(ks[0]).Key(ks[1:]...).Build()
	}},
	{"SDIFF", 1, func(b rueidis.Builder, ks []string) rueidis.Completed { return b.Sdiff().Key(ks...).Build() }},
	{"BITOP", 2, func(b rueidis.Builder, ks []string) rueidis.Completed {
		return b.Bitop().And().Destkey(ks[0]).Key(ks[1:]...).Build()
	}},
	{"PFMERGE", 2, func(b rueidis.Builder, ks []string) rueidis.Completed {
		return b.Pfmerge().Destkey(ks[0]).Sourcekey(ks[1:]...).Build()
	}},
	{"ZUNIONSTORE", 2, func(b rueidis.Builder, ks []string) rueidis.Completed {
		return b.Zunionstore().Destination(ks[0]).Numkeys(int64(len(ks) - 1)).Key(ks[1:]...).Build()
	}},
	{"EVAL", 1, func(b rueidis.Builder, ks []string) rueidis.Completed {
		return b.Eval().Script("return 1").Numkeys(int64(len(ks))).Key(ks...).Arg("{a}").Build()
	}},
	{"FCALL", 1, func(b rueidis.Builder, ks []string) rueidis.Completed {
		return b.Fcall().Function("f").Numkeys(int64(len(ks))).Key(ks...).Build()
	}},
	{"BLPOP", 1, func(b rueidis.Builder, ks []string) rueidis.Completed { return b.Blpop().Key(ks...).Timeout(1).Build() }},
	{"XREAD", 1, func(b rueidis.Builder, ks []string) rueidis.Completed {
		ids := make([]string, len(ks))
		for i := range ids {
			ids[i] = "0"
		}
		return b.Xread().Streams().Key(ks...).Id(ids...).Build()
	}},
	{"JSON.MGET", 1, func(b rueidis.Builder, ks []string) rueidis.Completed {
		return b.JsonMget().Key(ks...).Path("$").Build()
	}},
	{"SINTERCARD", 1, func(b rueidis.Builder, ks []string) rueidis.Completed {
		return b.Sintercard().Numkeys(int64(len(ks))).Key(ks...).Build()
	}},
	{"Arbitrary.Keys", 1, func(b rueidis.Builder, ks []string) rueidis.Completed { return b.Arbitrary("DEL").Keys(ks...).Build() }},
	{"Arbitrary.Keys.Keys", 2, func(b rueidis.Builder, ks []string) rueidis.Completed {
		return b.Arbitrary("DEL").Keys(ks[0]).Args("x").Keys(ks[1:]...).Build()
	}},
}

func keyString(bs []int) string {
	b := make([]byte, len(bs))
	for i, v := range bs {
		b[i] = byte(v)
	}
	return string(b)
}

// clusterAndSingleClients connects real clients to fakeredis so that client.B() of a cluster client and of a
// single client are exercised too (the export wrapper VerifBuilder covers the same two builder kinds directly).
func realBuilders(rep *vh.Report) (kinds []builderKind, closeFn func()) {
	closeFn = func() {}
	mk := func(cluster bool) (rueidis.Client, error) {
		s := fakeredis.NewServer("n1", fakeredis.Options{})
		if cluster {
			s.SetIntercept(func(c *fakeredis.Conn, argv []string) (fakeredis.Value, fakeredis.Action) {
				if len(argv) == 2 && strings.EqualFold(argv[0], "CLUSTER") && strings.EqualFold(argv[1], "SLOTS") {
					return fakeredis.Array(fakeredis.Array(fakeredis.Int(0), fakeredis.Int(16383),
						fakeredis.Array(fakeredis.Bulk("127.0.0.1"), fakeredis.Int(6379), fakeredis.Bulk("node1")))), fakeredis.Reply
				}
				return fakeredis.Value{}, fakeredis.Pass
			})
		}
		n := fakeredis.NewNetwork()
		n.Add("127.0.0.1:6379", s)
		return rueidis.NewClient(rueidis.ClientOption{InitAddress: []string{"127.0.0.1:6379"}, DialCtxFn: n.DialCtxFn(),
			ForceSingleClient: !cluster, DisableCache: true, Dialer: netDialer(2 * time.Second)})
	}
	var closers []func()
	for _, cluster := range []bool{true, false} {
		cl, err := mk(cluster)
		if err != nil {
			rep.Inconcl("cannot create %v client on fakeredis: %v", map[bool]string{true: "cluster", false: "single"}[cluster], err)
			continue
		}
		closers = append(closers, cl.Close)
		if cluster {
			// make sure it really is a cluster client: a cross-slot MGET must be refused by its builder
			if _, p := guard(func() { cl.B().Mget().Key("a", "b").Build() }); !p {
				rep.Inconcl("client created with a CLUSTER SLOTS topology does not behave as a cluster client")
				continue
			}
			_ = cl.Do(context.Background(), cl.B().Ping().Build())
			kinds = append(kinds, builderKind{"cluster-client.B()", cl.B})
		} else {
			kinds = append(kinds, builderKind{"single-client.B()", cl.B})
		}
	}
	return kinds, func() {
		for _, f := range closers {
			f()
		}
	}
}

func runSlot(rep *vh.Report) {
	cases := readCases[slotCase](rep)
	rep.Rule = "keys containing at least one brace, or a non-ASCII / control byte; multi-key combinations whose keys differ"
	kinds := []builderKind{
		{"cluster", func() rueidis.Builder { return rueidis.VerifBuilder(true) }},
		{"noncluster", func() rueidis.Builder { return rueidis.VerifBuilder(false) }},
	}
	real, closeFn := realBuilders(rep)
	defer closeFn()
	isCluster := map[string]bool{"cluster": true, "cluster-client.B()": true}
	noSlot := int(rueidis.VerifNoSlot)
	for i := range cases {
		c := &cases[i]
		keys := make([]string, len(c.Keys))
		nontrivial := false
		for j, k := range c.Keys {
			keys[j] = keyString(k)
			for _, b := range k {
				nontrivial = nontrivial || b == '{' || b == '}' || b < 32 || b > 126
			}
			nontrivial = nontrivial || keys[j] != keys[0]
		}
		if nontrivial {
			rep.DistinctNontrivial++
		}
		ks := kinds
		if c.Kind == "multi" || i%16 == 0 { // the real clients see every multi-key case and a sixteenth of the single keys
			ks = append(append([]builderKind{}, kinds...), real...)
		}
		if c.Kind == "key" {
			rep.Evaluations++
			if got := int(rueidis.VerifKeySlot(keys[0])); got != c.Slots[0] {
				rep.Violate("slot builder=cmds.Slot kind=function diff=slot", fmt.Sprintf("slot(%q) = %d, the specification gives %d", keys[0], got, c.Slots[0]), c)
			}
			for _, kd := range ks {
				for _, sh := range singleShapes {
					rep.Evaluations++
					var cmd rueidis.Completed
					if msg, p := guard(func() { cmd = sh.f(kd.b(), keys[0]) }); p {
						rep.Violate(fmt.Sprintf("slot builder=%s kind=%s diff=panic-unexpected", sh.name, kd.name), fmt.Sprintf("building %s with key %q panicked: %s", sh.name, keys[0], msg), c)
						continue
					}
					want := c.Slots[0]
					if !isCluster[kd.name] {
						want |= noSlot
					}
					if got := int(cmd.Slot()); got != want {
						rep.Violate(fmt.Sprintf("slot builder=%s kind=%s diff=slot", sh.name, kd.name),
							fmt.Sprintf("%s built by the %s builder with key %q (% x): Slot() = %d, the specification gives %d", sh.name, kd.name, keys[0], keys[0], got, want), c)
					}
				}
			}
			if i%1500 == 0 {
				rep.Sample(map[string]any{"key": keys[0], "bytes": c.Keys[0], "slot": c.Slots[0]})
			}
			continue
		}
		for _, kd := range ks {
			for _, sh := range multiShapes {
				if len(keys) < sh.min {
					continue
				}
				rep.Evaluations++
				var cmd rueidis.Completed
				msg, panicked := guard(func() { cmd = sh.f(kd.b(), keys) })
				if !panicked && cmd.IsEmpty() {
					continue // shape not applicable to this number of keys
				}
				if isCluster[kd.name] {
					switch {
					case c.Same && panicked:
						rep.Violate(fmt.Sprintf("slot builder=%s kind=%s diff=panic-unexpected", sh.name, kd.name),
							fmt.Sprintf("%s with keys %q (slots %v, equal) was rejected by the %s builder: %s", sh.name, keys, c.Slots, kd.name, msg), c)
					case !c.Same && !panicked:
						rep.Violate(fmt.Sprintf("slot builder=%s kind=%s diff=panic-missing", sh.name, kd.name),
							fmt.Sprintf("%s with keys %q (slots %v, different) was accepted by the %s builder, Slot() = %d", sh.name, keys, c.Slots, kd.name, cmd.Slot()), c)
					case c.Same && int(cmd.Slot()) != c.Slots[0]:
						rep.Violate(fmt.Sprintf("slot builder=%s kind=%s diff=slot", sh.name, kd.name),
							fmt.Sprintf("%s with keys %q: Slot() = %d, the specification gives %d", sh.name, keys, cmd.Slot(), c.Slots[0]), c)
					}
					continue
				}
				if panicked {
					rep.Violate(fmt.Sprintf("slot builder=%s kind=%s diff=panic-unexpected", sh.name, kd.name),
						fmt.Sprintf("%s with keys %q (slots %v) was rejected by the %s builder: %s", sh.name, keys, c.Slots, kd.name, msg), c)
					continue
				}
				got := int(cmd.Slot())
				okSlot := got&noSlot == noSlot && inSet(c.Slots, got&^noSlot)
				if !okSlot {
					rep.Violate(fmt.Sprintf("slot builder=%s kind=%s diff=slot", sh.name, kd.name),
						fmt.Sprintf("%s with keys %q built by the %s builder: Slot() = %d, expected the no-slot flag plus one of %v", sh.name, keys, kd.name, got, c.Slots), c)
				}
			}
		}
		if i%97 == 0 {
			rep.Sample(map[string]any{"keys": keys, "slots": c.Slots, "cluster_builder_must_reject": !c.Same})
		}
	}
}
