package main

import (
	"bytes"
	"encoding/json"
	"fmt"
	"math"

	"github.com/redis/rueidis"
	"verifharness/vh"
)

type jtree struct {
	T string   `json:"t"`
	B bool     `json:"b"`
	I int64    `json:"i"`
	S string   `json:"s"`
	A []jtree  `json:"a"`
	K []string `json:"k"`
	V []jtree  `json:"v"`
}

type vecCase struct {
	Kind  string  `json:"kind"`
	Words [][]int `json:"words"` // 16-bit halves, most significant first
	Bytes []int   `json:"bytes"`
	Tree  jtree   `json:"tree"`
	Text  string  `json:"text"`
}

func (t *jtree) value() any {
	switch t.T {
	case "null":
		return nil
	case "bool":
		return t.B
	case "int":
		return int(t.I)
	case "str":
		return t.S
	case "arr":
		out := make([]any, len(t.A))
		for i := range t.A {
			out[i] = t.A[i].value()
		}
		return out
	case "obj":
		out := make(map[string]any, len(t.K))
		for i := range t.K {
			out[t.K[i]] = t.V[i].value()
		}
		return out
	}
	panic("unknown tree node " + t.T)
}

func wordBits(halves []int) uint64 {
	var v uint64
	for _, h := range halves {
		v = v<<16 | uint64(h)
	}
	return v
}

func toBytes(is []int) []byte {
	b := make([]byte, len(is))
	for i, v := range is {
		b[i] = byte(v)
	}
	return b
}

func runVector(rep *vh.Report) {
	cases := readCases[vecCase](rep)
	rep.Rule = "vectors containing a NaN, a signed zero, a denormal or the all-ones word; byte strings with a non-printable byte; JSON trees with an aggregate or an escaped string"
	// The helpers return values: a result that was right when it was returned must still be right after the helpers were
	// called again (a result that aliases a buffer the helper recycles changes under the caller's hands). Every correct
	// result is kept and compared once more after all cases have run.
	type kept struct {
		c    *vecCase
		kind string
		got  string
		want string
	}
	var held []kept
	defer func() {
		seen := map[string]bool{}
		for _, h := range held {
			if h.got != h.want && !seen[h.kind] {
				seen[h.kind] = true
				rep.Violate(h.kind+" diff=result-changed-after-later-calls",
					fmt.Sprintf("a result that equalled the specification when it was returned reads %q after later calls of the helper, the specification says %q", clipN(h.got, 120), clipN(h.want, 120)), h.c)
			}
		}
	}()
	for i := range cases {
		c := &cases[i]
		rep.Evaluations++
		want := toBytes(c.Bytes)
		switch c.Kind {
		case "v32":
			bits := make([]uint32, len(c.Words))
			v := make([]float32, len(c.Words))
			special := false
			for j, w := range c.Words {
				bits[j] = uint32(wordBits(w))
				v[j] = math.Float32frombits(bits[j])
				special = special || bits[j] != 0x3F800000 && bits[j] != 0
			}
			if special {
				rep.DistinctNontrivial++
			}
			var enc string
			var dec, rt []float32
			if msg, p := guard(func() {
				enc = rueidis.VectorString32(v)
				dec = rueidis.ToVector32(string(want))
				rt = rueidis.ToVector32(enc)
			}); p {
				rep.Violate("vector kind=v32 diff=panic", msg, c)
				continue
			}
			if !bytes.Equal([]byte(enc), want) {
				rep.Violate("vector kind=v32 diff=encode", fmt.Sprintf("VectorString32(bits %08x) = % x, the specification packs % x", bits, []byte(enc), want), c)
			}
			if bytes.Equal([]byte(enc), want) {
				held = append(held, kept{c, "vector kind=v32", enc, string(want)})
			}
			if !sameBits32(dec, bits) {
				rep.Violate("vector kind=v32 diff=decode", fmt.Sprintf("ToVector32(% x) has bits %08x, the specification unpacks %08x", want, bitsOf32(dec), bits), c)
			}
			if !sameBits32(rt, bits) {
				rep.Violate("vector kind=v32 diff=roundtrip", fmt.Sprintf("ToVector32(VectorString32(v)) has bits %08x, v has %08x", bitsOf32(rt), bits), c)
			}
			if i%397 == 0 {
				rep.Sample(map[string]any{"kind": "v32", "bits": fmt.Sprintf("%08x", bits), "bytes": fmt.Sprintf("% x", []byte(enc))})
			}
		case "v64":
			bits := make([]uint64, len(c.Words))
			v := make([]float64, len(c.Words))
			special := false
			for j, w := range c.Words {
				bits[j] = wordBits(w)
				v[j] = math.Float64frombits(bits[j])
				special = special || bits[j] != 0x3FF0000000000000 && bits[j] != 0
			}
			if special {
				rep.DistinctNontrivial++
			}
			var enc string
			var dec, rt []float64
			if msg, p := guard(func() {
				enc = rueidis.VectorString64(v)
				dec = rueidis.ToVector64(string(want))
				rt = rueidis.ToVector64(enc)
			}); p {
				rep.Violate("vector kind=v64 diff=panic", msg, c)
				continue
			}
			if !bytes.Equal([]byte(enc), want) {
				rep.Violate("vector kind=v64 diff=encode", fmt.Sprintf("VectorString64(bits %016x) = % x, the specification packs % x", bits, []byte(enc), want), c)
			}
			if bytes.Equal([]byte(enc), want) {
				held = append(held, kept{c, "vector kind=v64", enc, string(want)})
			}
			if !sameBits64(dec, bits) {
				rep.Violate("vector kind=v64 diff=decode", fmt.Sprintf("ToVector64(% x) has bits %016x, the specification unpacks %016x", want, bitsOf64(dec), bits), c)
			}
			if !sameBits64(rt, bits) {
				rep.Violate("vector kind=v64 diff=roundtrip", fmt.Sprintf("ToVector64(VectorString64(v)) has bits %016x, v has %016x", bitsOf64(rt), bits), c)
			}
		case "bin":
			np := false
			for _, b := range want {
				np = np || b < 32 || b > 126
			}
			if np {
				rep.DistinctNontrivial++
			}
			in := append([]byte(nil), want...)
			var s string
			if msg, p := guard(func() { s = rueidis.BinaryString(in) }); p {
				rep.Violate("binary diff=panic", msg, c)
				continue
			}
			if len(s) != len(want) || !bytes.Equal([]byte(s), want) {
				rep.Violate("binary diff=bytes", fmt.Sprintf("BinaryString(% x) = % x", want, []byte(s)), c)
			}
		case "json":
			if c.Tree.T == "arr" || c.Tree.T == "obj" || c.Tree.S == "q\"z" || c.Tree.S == "b\\s" {
				rep.DistinctNontrivial++
			}
			x := c.Tree.value()
			var got string
			if msg, p := guard(func() { got = rueidis.JSON(x) }); p {
				rep.Violate("json diff=panic", msg, c)
				continue
			}
			std, err := json.Marshal(x)
			if err != nil {
				rep.Inconcl("encoding/json failed on a generated tree: %v", err)
				continue
			}
			if got != c.Text {
				rep.Violate("json diff=specification", fmt.Sprintf("JSON(%#v) = %s, the specification serialises %s", x, got, c.Text), c)
			}
			if got == c.Text {
				held = append(held, kept{c, "json", got, c.Text})
			}
			if got != string(std) {
				rep.Violate("json diff=encoding/json", fmt.Sprintf("JSON(%#v) = %s, encoding/json gives %s", x, got, std), c)
			}
			if i%397 == 0 {
				rep.Sample(map[string]any{"kind": "json", "text": got})
			}
		default:
			rep.Inconcl("unknown vector case kind %q", c.Kind)
		}
	}
}

func bitsOf32(v []float32) []uint32 {
	out := make([]uint32, len(v))
	for i := range v {
		out[i] = math.Float32bits(v[i])
	}
	return out
}

func bitsOf64(v []float64) []uint64 {
	out := make([]uint64, len(v))
	for i := range v {
		out[i] = math.Float64bits(v[i])
	}
	return out
}

func sameBits32(v []float32, bits []uint32) bool {
	if len(v) != len(bits) {
		return false
	}
	for i := range v {
		if math.Float32bits(v[i]) != bits[i] {
			return false
		}
	}
	return true
}

func sameBits64(v []float64, bits []uint64) bool {
	if len(v) != len(bits) {
		return false
	}
	for i := range v {
		if math.Float64bits(v[i]) != bits[i] {
			return false
		}
	}
	return true
}

func clipN(s string, n int) string {
	if len(s) > n {
		return s[:n] + "..."
	}
	return s
}
