package main

import (
	"errors"
	"fmt"
	"reflect"

	"github.com/redis/rueidis"
	"verifharness/vh"
)

type scanPage struct {
	Fail   bool   `json:"fail"`
	N      int    `json:"n"`
	Cursor uint64 `json:"cursor"`
}

type scanCase struct {
	Script []scanPage `json:"script"`
	Mode   string     `json:"mode"`
	StopAt int        `json:"stopAt"`
	Req    []uint64   `json:"req"`
	Out    [][][2]int `json:"out"` // items; an item is one element (Iter) or two (Iter2); an element is <<page, index>>
	Err    bool       `json:"err"`
}

var errScripted = errors.New("scripted page failure")

func elemName(p, j int) string { return fmt.Sprintf("p%de%d", p, j) }

func runScanner(rep *vh.Report) {
	cases := readCases[scanCase](rep)
	rep.Rule = "behaviours with at least two requested pages, a failing page, or a consumer stop"
	for i := range cases {
		c := &cases[i]
		rep.Evaluations++
		rep.Traces++
		if len(c.Req) >= 2 || c.Err || c.StopAt > 0 {
			rep.DistinctNontrivial++
		}
		// Every traversal of a Scanner starts at cursor 0 (Init of Scanner.tla), whatever happened to the Scanner before:
		// each behaviour is replayed on a fresh Scanner and on one whose earlier traversal was abandoned by the consumer
		// on a page with a non-zero cursor.
		for _, reuse := range []bool{false, true} {
			tag := ""
			if reuse {
				tag = " reuse=after-abandoned-traversal"
				rep.Evaluations++
			}
			var req []uint64
			beyond := false
			calls := 0
			prelude := reuse
			next := func(cursor uint64) (rueidis.ScanEntry, error) {
				if prelude {
					return rueidis.ScanEntry{Cursor: 7, Elements: []string{"x1", "x2", "x3", "x4"}}, nil
				}
				calls++
				req = append(req, cursor)
				if calls > len(c.Script) {
					beyond = true
					return rueidis.ScanEntry{}, errors.New("next called beyond the script")
				}
				p := c.Script[calls-1]
				if p.Fail {
					return rueidis.ScanEntry{}, errScripted
				}
				els := make([]string, p.N)
				for j := range els {
					els[j] = elemName(calls, j+1)
				}
				return rueidis.ScanEntry{Cursor: p.Cursor, Elements: els}, nil
			}
			want := make([][]string, len(c.Out))
			for k, item := range c.Out {
				for _, e := range item {
					want[k] = append(want[k], elemName(e[0], e[1]))
				}
			}
			var got [][]string
			runaway := false
			sc := rueidis.NewScanner(next)
			if reuse {
				if _, p := guard(func() {
					if c.Mode == "iter" {
						for range sc.Iter() {
							break
						}
					} else {
						for range sc.Iter2() {
							break
						}
					}
				}); p {
					continue
				}
				prelude = false
			}
			msg, panicked := guard(func() {
				if c.Mode == "iter" {
					for v := range sc.Iter() {
						got = append(got, []string{v})
						if len(got) == c.StopAt {
							break
						}
						if len(got) > 200 {
							runaway = true
							break
						}
					}
				} else {
					for a, b := range sc.Iter2() {
						got = append(got, []string{a, b})
						if len(got) == c.StopAt {
							break
						}
						if len(got) > 200 {
							runaway = true
							break
						}
					}
				}
			})
			stop := "none"
			if c.StopAt > 0 {
				stop = "consumer"
			}
			replay := map[string]any{"case": c, "yielded": got, "requested": req, "reused": reuse}
			switch {
			case panicked:
				rep.Violate("scanner mode="+c.Mode+" diff=panic"+tag, "Scanner panicked: "+msg, replay)
				continue
			case runaway:
				rep.Violate("scanner mode="+c.Mode+" diff=runaway"+tag, "Scanner yielded more than 200 items for a finite script", replay)
				continue
			}
			if beyond {
				rep.Violate("scanner mode="+c.Mode+" diff=requested-beyond-end stop="+stop+tag,
					fmt.Sprintf("next was called %d times with cursors %v; the specification ends the scan after %v", calls, req, c.Req), replay)
				continue
			}
			if !reflect.DeepEqual(got, want) && !(len(got) == 0 && len(want) == 0) {
				rep.Violate("scanner mode="+c.Mode+" diff=yielded stop="+stop+tag,
					fmt.Sprintf("script %+v stopAt=%d: yielded %v, the specification yields %v", c.Script, c.StopAt, got, want), replay)
				continue
			}
			if !reflect.DeepEqual(req, c.Req) && !(len(req) == 0 && len(c.Req) == 0) {
				rep.Violate("scanner mode="+c.Mode+" diff=cursors stop="+stop+tag,
					fmt.Sprintf("script %+v stopAt=%d: next was called with cursors %v, the specification requests %v", c.Script, c.StopAt, req, c.Req), replay)
				continue
			}
			e := sc.Err()
			if (e != nil) != c.Err || (c.Err && !errors.Is(e, errScripted)) {
				rep.Violate("scanner mode="+c.Mode+" diff=err stop="+stop+tag,
					fmt.Sprintf("script %+v stopAt=%d: Err() = %v, the specification says failure=%v", c.Script, c.StopAt, e, c.Err), replay)
				continue
			}
			if i%911 == 0 && !reuse {
				rep.Sample(map[string]any{"script": c.Script, "mode": c.Mode, "stopAt": c.StopAt, "yielded": got, "requested": req, "err": fmt.Sprint(e)})
			}
		}
	}
}
