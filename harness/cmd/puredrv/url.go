package main

import (
	"crypto/tls"
	"fmt"
	"reflect"
	"strings"
	"time"

	"github.com/redis/rueidis"
	"verifharness/vh"
)

type urlCase struct {
	Parts struct {
		Scheme    string   `json:"scheme"`
		Authority string   `json:"authority"`
		Path      string   `json:"path"`
		Query     []string `json:"query"`
	} `json:"parts"`
	Exp struct {
		Err        bool     `json:"err"`
		User       string   `json:"user"`
		Pass       string   `json:"pass"`
		Addrs      []string `json:"addrs"`
		DB         int      `json:"db"`
		DialMs     int      `json:"dialMs"`
		WriteMs    int      `json:"writeMs"`
		TLS        bool     `json:"tls"`
		ServerName string   `json:"serverName"`
		SkipVerify bool     `json:"skipVerify"`
		Resp2      bool     `json:"resp2"`
		NoCache    bool     `json:"noCache"`
		NoRetry    bool     `json:"noRetry"`
		ClientName string   `json:"clientName"`
		MasterSet  string   `json:"masterSet"`
		Unix       bool     `json:"unix"`
	} `json:"exp"`
	Form map[string]string `json:"form"`
}

func assembleURL(c *urlCase, query []string) string {
	u := c.Parts.Scheme + "://" + c.Parts.Authority + c.Parts.Path
	if len(query) > 0 {
		u += "?" + strings.Join(query, "&")
	}
	return u
}

// permuted returns the query in another order; the relative order of the addr entries is kept (it is meaningful).
func permuted(q []string, rot int) []string {
	if len(q) < 2 {
		return nil
	}
	var addrs, rest []string
	for _, s := range q {
		if strings.HasPrefix(s, "addr=") {
			addrs = append(addrs, s)
		} else {
			rest = append(rest, s)
		}
	}
	// reverse the non-addr parameters and insert the addr block at a rotating position
	for i, j := 0, len(rest)-1; i < j; i, j = i+1, j-1 {
		rest[i], rest[j] = rest[j], rest[i]
	}
	at := 0
	if len(rest) > 0 {
		at = rot % (len(rest) + 1)
	}
	out := append([]string(nil), rest[:at]...)
	out = append(out, addrs...)
	out = append(out, rest[at:]...)
	if reflect.DeepEqual(out, q) {
		return nil
	}
	return out
}

func runURL(rep *vh.Report) {
	cases := readCases[urlCase](rep)
	rep.Rule = "URLs that carry at least one query parameter, credentials, a database path or a non-default host form"
	rng := vh.Rng(44)
	for i := range cases {
		c := &cases[i]
		variants := [][]string{c.Parts.Query}
		if p := permuted(c.Parts.Query, rng.Intn(8)); p != nil {
			variants = append(variants, p)
		}
		nontrivial := len(c.Parts.Query) > 0 || c.Form["cred"] != "none" || c.Form["path"] != "absent" || (c.Form["host"] != "nameport" && c.Form["host"] != "sock")
		for vi, q := range variants {
			u := assembleURL(c, q)
			rep.Evaluations++
			if nontrivial && vi == 0 {
				rep.DistinctNontrivial++
			}
			var opt rueidis.ClientOption
			var err error
			if msg, p := guard(func() { opt, err = rueidis.ParseURL(u) }); p {
				rep.Violate("parseurl panic", fmt.Sprintf("ParseURL(%q) panicked: %s", u, msg), map[string]any{"url": u, "form": c.Form})
				continue
			}
			if i%997 == 0 && vi == 0 {
				rep.Sample(map[string]any{"url": u, "expected": c.Exp, "error": fmt.Sprint(err)})
			}
			if c.Exp.Err {
				if err == nil {
					rep.Violate("parseurl accepted-invalid "+invalidPart(c), fmt.Sprintf("ParseURL(%q) returned no error; the specification rejects this URL (%s)", u, invalidPart(c)), map[string]any{"url": u, "form": c.Form})
				}
				continue
			}
			if err != nil {
				rep.Violate("parseurl rejected-valid", fmt.Sprintf("ParseURL(%q) = error %v; the specification accepts this URL", u, err), map[string]any{"url": u, "form": c.Form})
				continue
			}
			for _, d := range diffOption(c, &opt) {
				rep.Violate("parseurl mismatch field="+d.field, fmt.Sprintf("ParseURL(%q): %s = %v, the specification maps the URL to %v", u, d.field, d.got, d.want), map[string]any{"url": u, "form": c.Form, "field": d.field})
			}
		}
	}
}

func invalidPart(c *urlCase) string {
	var bad []string
	if s := c.Form["scheme"]; s == "http" {
		bad = append(bad, "scheme")
	}
	for _, k := range []string{"path", "db", "dial", "write", "skip"} {
		if v := c.Form[k]; v == "invalid" || v == "extra" {
			bad = append(bad, k+"="+v)
		}
	}
	return strings.Join(bad, ",")
}

type fieldDiff struct {
	field     string
	got, want any
}

func diffOption(c *urlCase, opt *rueidis.ClientOption) (out []fieldDiff) {
	cmp := func(field string, got, want any) {
		if !reflect.DeepEqual(got, want) {
			out = append(out, fieldDiff{field, got, want})
		}
	}
	e := &c.Exp
	cmp("Username", opt.Username, e.User)
	cmp("Password", opt.Password, e.Pass)
	cmp("InitAddress", append([]string{}, opt.InitAddress...), append([]string{}, e.Addrs...))
	cmp("SelectDB", opt.SelectDB, e.DB)
	cmp("Dialer.Timeout", opt.Dialer.Timeout, time.Duration(e.DialMs)*time.Millisecond)
	cmp("ConnWriteTimeout", opt.ConnWriteTimeout, time.Duration(e.WriteMs)*time.Millisecond)
	cmp("TLSConfig", opt.TLSConfig != nil, e.TLS)
	if opt.TLSConfig != nil {
		cmp("TLSConfig.ServerName", opt.TLSConfig.ServerName, e.ServerName)
		cmp("TLSConfig.InsecureSkipVerify", opt.TLSConfig.InsecureSkipVerify, e.SkipVerify)
		cmp("TLSConfig.MinVersion", opt.TLSConfig.MinVersion >= tls.VersionTLS12, true)
	}
	cmp("AlwaysRESP2", opt.AlwaysRESP2, e.Resp2)
	cmp("DisableCache", opt.DisableCache, e.NoCache)
	cmp("DisableRetry", opt.DisableRetry, e.NoRetry)
	cmp("ClientName", opt.ClientName, e.ClientName)
	cmp("Sentinel.MasterSet", opt.Sentinel.MasterSet, e.MasterSet)
	cmp("DialCtxFn(unix)", opt.DialCtxFn != nil, e.Unix)
	// options no URL component maps to stay at their zero value
	cmp("ConnLifetime", opt.ConnLifetime, time.Duration(0))
	cmp("Dialer.KeepAlive", opt.Dialer.KeepAlive, time.Duration(0))
	cmp("ShuffleInit", opt.ShuffleInit, false)
	cmp("ReplicaOnly", opt.ReplicaOnly, false)
	cmp("ForceSingleClient", opt.ForceSingleClient, false)
	cmp("Sentinel.Username", opt.Sentinel.Username, "")
	cmp("Sentinel.Password", opt.Sentinel.Password, "")
	cmp("ClientNoTouch", opt.ClientNoTouch, false)
	cmp("BlockingPoolSize", opt.BlockingPoolSize, 0)
	return out
}
