package main

import (
	"context"
	"fmt"
	"sort"
	"strconv"
	"strings"
	"sync"
	"time"

	"github.com/redis/rueidis"
	"verifharness/fakeredis"
	"verifharness/vh"
)

type ckPartner struct {
	Wire  []string `json:"wire"`
	Class string   `json:"class"`
}

type ckCase struct {
	Kind        string      `json:"kind"` // "cmd" | "mget"
	Wire        []string    `json:"wire"`
	Name        string      `json:"name"`
	Key         string      `json:"key"`
	LruKey      string      `json:"lruKey"`
	LruCmd      string      `json:"lruCmd"`
	AdapterKey  string      `json:"adapterKey"`
	LruPartners []ckPartner `json:"lruPartners"`
	AdPartners  []ckPartner `json:"adPartners"`
	// mget
	Keys []string    `json:"keys"`
	Path string      `json:"path"`
	IDs  [][2]string `json:"ids"`
}

func atoi(s string) int64 {
	v, err := strconv.ParseInt(s, 10, 64)
	if err != nil {
		panic("integer-typed argument " + s)
	}
	return v
}

// typed builds the command with the typed builder of its family (Cache()); prefix is prepended to the key.
// ok=false when there is no typed builder for the shape (then only the Arbitrary path is used).
func typed(b rueidis.Builder, prefix string, w []string) (c rueidis.Cacheable, ok bool) {
	name := w[0]
	if name == "EVAL_RO" {
		return b.EvalRo().Script(w[1]).Numkeys(atoi(w[2])).Key(prefix + w[3]).Arg(w[4:]...).Cache(), true
	}
	k, a := prefix+w[1], w[2:]
	switch name {
	case "GET":
		return b.Get().Key(k).Cache(), true
	case "STRLEN":
		return b.Strlen().Key(k).Cache(), true
	case "HGETALL":
		return b.Hgetall().Key(k).Cache(), true
	case "GETRANGE":
		return b.Getrange().Key(k).Start(atoi(a[0])).End(atoi(a[1])).Cache(), true
	case "GETBIT":
		return b.Getbit().Key(k).Offset(atoi(a[0])).Cache(), true
	case "BITCOUNT":
		if len(a) == 0 {
			return b.Bitcount().Key(k).Cache(), true
		}
		return b.Bitcount().Key(k).Start(atoi(a[0])).End(atoi(a[1])).Cache(), true
	case "LRANGE":
		return b.Lrange().Key(k).Start(atoi(a[0])).Stop(atoi(a[1])).Cache(), true
	case "LINDEX":
		return b.Lindex().Key(k).Index(atoi(a[0])).Cache(), true
	case "HGET":
		return b.Hget().Key(k).Field(a[0]).Cache(), true
	case "HEXISTS":
		return b.Hexists().Key(k).Field(a[0]).Cache(), true
	case "HSTRLEN":
		return b.Hstrlen().Key(k).Field(a[0]).Cache(), true
	case "HMGET":
		return b.Hmget().Key(k).Field(a...).Cache(), true
	case "ZRANGE":
		return b.Zrange().Key(k).Min(a[0]).Max(a[1]).Cache(), true
	case "ZRANGEBYSCORE":
		return b.Zrangebyscore().Key(k).Min(a[0]).Max(a[1]).Cache(), true
	case "ZSCORE":
		return b.Zscore().Key(k).Member(a[0]).Cache(), true
	case "SISMEMBER":
		return b.Sismember().Key(k).Member(a[0]).Cache(), true
	}
	return rueidis.Cacheable{}, false
}

// arbitrary builds the same command through Builder.Arbitrary (the documented way for commands without a typed builder).
func arbitrary(b rueidis.Builder, prefix string, w []string) (rueidis.Cacheable, bool) {
	if w[0] == "EVAL_RO" {
		return rueidis.Cacheable{}, false // the script tag is only set by the typed builder
	}
	return rueidis.Cacheable(b.Arbitrary(w[0]).Keys(prefix + w[1]).Args(w[2:]...).ReadOnly()), true
}

func build(b rueidis.Builder, prefix string, w []string) rueidis.Cacheable {
	if c, ok := typed(b, prefix, w); ok {
		return c
	}
	c, _ := arbitrary(b, prefix, w)
	return c
}

// ---------------------------------------------------------------------------------------------------- stores

// mapCache is a SimpleCache for NewSimpleCacheAdapter that remembers the keys it was asked to store.
type mapCache struct {
	mu   sync.Mutex
	m    map[string]rueidis.RedisMessage
	sets []string
}

func (c *mapCache) Get(key string) rueidis.RedisMessage {
	c.mu.Lock()
	defer c.mu.Unlock()
	return c.m[key]
}
func (c *mapCache) Set(key string, val rueidis.RedisMessage) {
	c.mu.Lock()
	defer c.mu.Unlock()
	c.m[key] = val
	c.sets = append(c.sets, key)
}
func (c *mapCache) Del(key string) { c.mu.Lock(); defer c.mu.Unlock(); delete(c.m, key) }
func (c *mapCache) Flush()         { c.mu.Lock(); defer c.mu.Unlock(); c.m = map[string]rueidis.RedisMessage{} }
func (c *mapCache) lastSet() string {
	c.mu.Lock()
	defer c.mu.Unlock()
	if len(c.sets) == 0 {
		return ""
	}
	return c.sets[len(c.sets)-1]
}

type env struct {
	store  string // "lru" | "adapter"
	srv    *fakeredis.Server
	client rueidis.Client
	cache  *mapCache
	seq    int
}

func newEnv(store string) (*env, error) {
	e := &env{store: store, srv: fakeredis.NewServer("n1", fakeredis.Options{})}
	n := fakeredis.NewNetwork()
	n.Add("127.0.0.1:6379", e.srv)
	opt := rueidis.ClientOption{InitAddress: []string{"127.0.0.1:6379"}, DialCtxFn: n.DialCtxFn(), ForceSingleClient: true,
		DisableAutoPipelining: true, Dialer: netDialer(2 * time.Second)}
	if store == "adapter" {
		e.cache = &mapCache{m: map[string]rueidis.RedisMessage{}}
		opt.NewCacheStoreFn = func(rueidis.CacheStoreOption) rueidis.CacheStore { return rueidis.NewSimpleCacheAdapter(e.cache) }
	}
	cl, err := rueidis.NewClient(opt)
	if err != nil {
		return nil, err
	}
	e.client = cl
	return e, nil
}

func dataType(name string) string {
	switch name {
	case "GET", "STRLEN", "GETRANGE", "SUBSTR", "GETBIT", "BITCOUNT":
		return "string"
	case "HGET", "HMGET", "HGETALL", "HEXISTS", "HSTRLEN":
		return "hash"
	case "LRANGE", "LINDEX":
		return "list"
	case "ZRANGE", "ZRANGEBYSCORE", "ZSCORE":
		return "zset"
	case "SISMEMBER":
		return "set"
	}
	return "none"
}

func wireKey(w []string) string {
	if w[0] == "EVAL_RO" {
		return w[3]
	}
	return w[1]
}

// populate gives key the data type of command `name`, with contents under which different reads give different replies.
func (e *env) populate(key, name string, fields []string) {
	s := e.srv
	s.Do("DEL", key)
	switch dataType(name) {
	case "string":
		s.Do("SET", key, key+"|abcdefghijklmnopqrstuvwxyzABCDEFGHIJKLMNOPQRSTUVWXYZ0123456789")
	case "hash":
		for _, f := range fields {
			s.Do("HSET", key, f, "v("+key+")("+f+")")
		}
		s.Do("HSET", key, "1", "one:"+key, "2", "two:"+key, "11", "eleven", "12", "twelve", "21", "twentyone", "22", "twentytwo", "ALL", "all!")
	case "list":
		for i := 0; i < 30; i++ {
			s.Do("RPUSH", key, fmt.Sprintf("%s[%d]", key, i))
		}
	case "zset":
		for i := 0; i < 30; i++ {
			s.Do("ZADD", key, strconv.Itoa(i), fmt.Sprintf("m%d", i))
		}
		for _, f := range fields {
			s.Do("ZADD", key, "7", f)
		}
	case "set":
		for i, f := range fields {
			if i%2 == 0 {
				s.Do("SADD", key, f)
			}
		}
		s.Do("SADD", key, "1", "12")
	}
}

// render makes a reply comparable: the whole reply tree (or the error) as text, without cache metadata.
func render(r rueidis.RedisResult) string {
	m, err := r.ToMessage()
	if err != nil {
		return "error: " + err.Error()
	}
	v, err := m.ToAny()
	if err != nil {
		return "error: " + err.Error()
	}
	return fmt.Sprintf("%#v", normalise(v))
}

func normalise(v any) any {
	switch x := v.(type) {
	case map[string]any:
		ks := make([]string, 0, len(x))
		for k := range x {
			ks = append(ks, k)
		}
		sort.Strings(ks)
		out := make([]any, 0, 2*len(ks))
		for _, k := range ks {
			out = append(out, k, normalise(x[k]))
		}
		return out
	case []any:
		out := make([]any, len(x))
		for i := range x {
			out[i] = normalise(x[i])
		}
		return out
	}
	return v
}

type pairOutcome struct {
	skipped  string // reason, when the pair could not be decided
	hitWrong bool   // B was served A's reply from the cache
	detail   string
}

// runPair: DoCache(A) then DoCache(B) for two distinct commands, on fresh keys (a unique prefix keeps the identities'
// structure: both keys get the same prefix).  B served from the cache with A's reply is the violation of C08.
func (e *env) runPair(rep *vh.Report, a, b []string) pairOutcome {
	e.seq++
	prefix := fmt.Sprintf("p%d:", e.seq)
	ctx, cancel := context.WithTimeout(context.Background(), 10*time.Second)
	defer cancel()
	fields := []string{}
	for _, w := range [][]string{a, b} {
		if w[0] != "EVAL_RO" {
			fields = append(fields, w[2:]...)
		}
	}
	ka, kb := prefix+wireKey(a), prefix+wireKey(b)
	e.populate(ka, a[0], fields)
	if kb != ka {
		e.populate(kb, b[0], fields)
	}
	cl := e.client
	truthA := render(cl.Do(ctx, rueidis.Completed(build(cl.B(), prefix, a))))
	truthB := render(cl.Do(ctx, rueidis.Completed(build(cl.B(), prefix, b))))
	if strings.HasPrefix(truthA, "error: ") {
		return pairOutcome{skipped: "first command is answered with an error (errors are not cached)"}
	}
	if truthA == truthB {
		return pairOutcome{skipped: "both commands have the same reply on the test data"}
	}
	ra := cl.DoCache(ctx, build(cl.B(), prefix, a), time.Minute)
	if got := render(ra); got != truthA || ra.IsCacheHit() {
		return pairOutcome{skipped: fmt.Sprintf("first DoCache: reply %s hit=%v, uncached reply %s", got, ra.IsCacheHit(), truthA)}
	}
	if e.cache != nil {
		ck, cc := rueidis.VerifCacheKey(build(cl.B(), prefix, a))
		if got := e.cache.lastSet(); got != ck+cc {
			rep.Violate("identity=adapter-key-not-key+cmd store=adapter", fmt.Sprintf("adapter stored %v under %q, CacheKey gives key %q cmd %q", a, got, ck, cc), nil)
		}
	}
	rb := cl.DoCache(ctx, build(cl.B(), prefix, b), time.Minute)
	gotB := render(rb)
	switch {
	case rb.IsCacheHit() && gotB == truthA:
		return pairOutcome{hitWrong: true, detail: fmt.Sprintf("DoCache(%s) = %s as a cache hit; that is the reply to %s, the server answers %s",
			strings.Join(b, " "), clip(gotB), strings.Join(a, " "), clip(truthB))}
	case gotB != truthB:
		return pairOutcome{skipped: fmt.Sprintf("second DoCache returned %s (hit=%v), neither A's reply nor the uncached reply %s", clip(gotB), rb.IsCacheHit(), clip(truthB))}
	}
	// and the first command is still served from the cache with its own reply
	ra2 := cl.DoCache(ctx, build(cl.B(), prefix, a), time.Minute)
	if got := render(ra2); got != truthA {
		return pairOutcome{hitWrong: true, detail: fmt.Sprintf("after caching %s, DoCache(%s) = %s (hit=%v), the server answers %s",
			strings.Join(b, " "), strings.Join(a, " "), clip(got), ra2.IsCacheHit(), clip(truthA))}
	}
	return pairOutcome{}
}

func clip(s string) string {
	if len(s) > 160 {
		return s[:160] + "..."
	}
	return s
}

func runCacheKey(rep *vh.Report) {
	cases := readCases[ckCase](rep)
	rep.Rule = "commands with at least one argument after the key (identity needs concatenation), plus every executed pair of distinct commands"
	b := rueidis.VerifBuilder(false)
	bc := rueidis.VerifBuilder(true)

	// ---- binding: the real cmds.CacheKey against the transcription, for every enumerated command and both builder paths
	for i := range cases {
		c := &cases[i]
		if c.Kind == "mget" {
			rep.Evaluations++
			var cmd rueidis.Cacheable
			if c.Name == "MGET" {
				cmd = b.Mget().Key(c.Keys...).Cache()
			} else {
				cmd = b.JsonMget().Key(c.Keys...).Path(c.Path).Cache()
			}
			if !cmd.IsMGet() {
				rep.Violate("identity=mget-not-recognised", fmt.Sprintf("%s %v is not recognised as a multi-get", c.Name, c.Keys), c)
				continue
			}
			for j := range c.Keys {
				k, cc := rueidis.VerifMGetCacheKey(cmd, j), rueidis.VerifMGetCacheCmd(cmd)
				if k != c.IDs[j][0] || cc != c.IDs[j][1] {
					rep.Violate("identity=transcription-mismatch builder=mget", fmt.Sprintf("%s %v path %q key #%d: identity (%q, %q), specification (%q, %q)", c.Name, c.Keys, c.Path, j, k, cc, c.IDs[j][0], c.IDs[j][1]), c)
				}
			}
			// the singular command has the same identity (that is why MGET is not a separate element of the injectivity question)
			for j := range c.Keys {
				var single rueidis.Cacheable
				if c.Name == "MGET" {
					single = b.Get().Key(c.Keys[j]).Cache()
				} else {
					single = b.JsonGet().Key(c.Keys[j]).Path(c.Path).Cache()
				}
				if k, cc := rueidis.VerifCacheKey(single); k != c.IDs[j][0] || cc != c.IDs[j][1] {
					rep.Violate("identity=transcription-mismatch builder=mget-singular", fmt.Sprintf("singular of %s key %q: identity (%q, %q), specification (%q, %q)", c.Name, c.Keys[j], k, cc, c.IDs[j][0], c.IDs[j][1]), c)
				}
			}
			continue
		}
		if len(c.Wire) > 2 {
			rep.DistinctNontrivial++
		}
		type path struct {
			name string
			f    func() (rueidis.Cacheable, bool)
		}
		for _, p := range []path{
			{"typed", func() (rueidis.Cacheable, bool) { return typed(b, "", c.Wire) }},
			{"typed-cluster", func() (rueidis.Cacheable, bool) { return typed(bc, "", c.Wire) }},
			{"arbitrary", func() (rueidis.Cacheable, bool) { return arbitrary(b, "", c.Wire) }},
		} {
			var cmd rueidis.Cacheable
			var ok bool
			if msg, pn := guard(func() { cmd, ok = p.f() }); pn {
				rep.Violate("identity=builder-panic builder="+p.name, fmt.Sprintf("building %v panicked: %s", c.Wire, msg), c)
				continue
			}
			if !ok {
				continue
			}
			rep.Evaluations++
			if got := cmd.Commands(); strings.Join(got, "\x00") != strings.Join(c.Wire, "\x00") {
				rep.Violate("identity=wire-mismatch builder="+p.name, fmt.Sprintf("builder produced %q for %q", got, c.Wire), c)
				continue
			}
			var k, cc string
			if msg, pn := guard(func() { k, cc = rueidis.VerifCacheKey(cmd) }); pn {
				rep.Violate("identity=cachekey-panic builder="+p.name, fmt.Sprintf("CacheKey(%v) panicked: %s", c.Wire, msg), c)
				continue
			}
			if k != c.LruKey || cc != c.LruCmd {
				rep.Violate("identity=transcription-mismatch builder="+p.name,
					fmt.Sprintf("CacheKey(%q) = (%q, %q); CacheKey.tla transcribes it as (%q, %q): the specification no longer describes the code", c.Wire, k, cc, c.LruKey, c.LruCmd), c)
			} else if k+cc != c.AdapterKey {
				rep.Violate("identity=transcription-mismatch builder="+p.name, fmt.Sprintf("adapter key of %q: %q, specification %q", c.Wire, k+cc, c.AdapterKey), c)
			}
		}
		if i%211 == 0 {
			rep.Sample(map[string]any{"command": c.Wire, "lru_identity": []string{c.LruKey, c.LruCmd}, "adapter_identity": c.AdapterKey,
				"colliding_with": c.AdPartners})
		}
	}

	// ---- end to end
	type job struct {
		a, b      []string
		class     string
		predicted bool
	}
	for _, store := range []string{"lru", "adapter"} {
		e, err := newEnv(store)
		if err != nil {
			rep.Inconcl("cannot connect the %s client to fakeredis: %v", store, err)
			continue
		}
		var jobs []job
		var cmdsOnly [][]string
		for i := range cases {
			c := &cases[i]
			if c.Kind != "cmd" {
				continue
			}
			cmdsOnly = append(cmdsOnly, c.Wire)
			ps := c.LruPartners
			if store == "adapter" {
				ps = c.AdPartners
			}
			for _, p := range ps {
				jobs = append(jobs, job{a: c.Wire, b: p.Wire, class: p.Class, predicted: true})
			}
		}
		// pairs the specification declares distinct: a seeded sample, biased to commands that share key and name
		rng := vh.Rng(8)
		nd := 600
		if vh.Thorough() {
			nd = 6000
		}
		collide := map[string]bool{}
		for _, j := range jobs {
			collide[strings.Join(j.a, "\x00")+"\x01"+strings.Join(j.b, "\x00")] = true
		}
		for n := 0; n < nd && len(cmdsOnly) > 1; n++ {
			a := cmdsOnly[rng.Intn(len(cmdsOnly))]
			var bb []string
			for try := 0; try < 50; try++ {
				cand := cmdsOnly[rng.Intn(len(cmdsOnly))]
				if n%3 != 0 && (cand[0] != a[0] || wireKey(cand) != wireKey(a)) {
					continue
				}
				bb = cand
				break
			}
			if bb == nil || strings.Join(a, "\x00") == strings.Join(bb, "\x00") || collide[strings.Join(a, "\x00")+"\x01"+strings.Join(bb, "\x00")] {
				continue
			}
			jobs = append(jobs, job{a: a, b: bb, class: "none", predicted: false})
		}
		confirmed := map[string]int{}
		undecided := map[string]int{}
		ran := 0
		for _, j := range jobs {
			out := e.runPair(rep, j.a, j.b)
			rep.Evaluations++
			rep.Traces++
			rep.DistinctNontrivial++
			ran++
			switch {
			case out.hitWrong && j.predicted:
				confirmed[j.class]++
				rep.Violate(fmt.Sprintf("identity=concat-without-separator class=%s store=%s", j.class, store),
					fmt.Sprintf("%s | two different cacheable commands share the cache entry: %s", store, out.detail),
					map[string]any{"first": j.a, "second": j.b, "store": store, "class": j.class})
			case out.hitWrong:
				rep.Violate(fmt.Sprintf("identity=unpredicted-collision store=%s", store),
					fmt.Sprintf("%s | commands the specification gives different identities share a cache entry: %s", store, out.detail),
					map[string]any{"first": j.a, "second": j.b, "store": store})
			case out.skipped != "":
				undecided[out.skipped[:min(len(out.skipped), 40)]+" first="+j.a[0]]++
			}
		}
		e.client.Close()
		e.srv.Close()
		if rep.Extra == nil {
			rep.Extra = map[string]any{}
		}
		rep.Extra["c08_"+store] = map[string]any{"pairs_run": ran, "collisions_confirmed_by_class": confirmed, "undecided": undecided}
	}
}
