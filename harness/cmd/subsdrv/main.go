// subsdrv drives the real Pub/Sub subscription registry (pubsub.go `subs`) the way pipe.go does: one reader goroutine
// publishing, unsubscribing and finally closing; several Receive-like subscribers that consume (some slowly, so the
// 16-slot buffers fill up and Publish blocks while holding the read lock), end by context or by channel close, and then
// run the cancel function.  Hook events from inside the lock regions plus the subscribers' observations are validated
// against spec/pipe/Subs.tla (SubsTrace.tla); panics (send on / close of a closed channel), hangs and order violations
// are also detected directly.
package main

import (
	"flag"
	"fmt"
	"math/rand"
	"path/filepath"
	"runtime"
	"sync"
	"sync/atomic"
	"time"

	"github.com/redis/rueidis"
	"verifharness/vh"
)

var (
	runs     = flag.Int("runs", 60, "runs")
	traceDir = flag.String("tracedir", "", "directory for ndjson traces")
)

func topics(s int) []string {
	switch s % 3 {
	case 1:
		return []string{"a"}
	case 2:
		return []string{"a", "b"}
	}
	return []string{"b"}
}

type run struct {
	tr       *vh.Tracer
	subs     *rueidis.VerifSubs
	rng      *rand.Rand
	rngMu    sync.Mutex
	chanMu   sync.Mutex
	byChan   map[<-chan rueidis.PubSubMessage]int
	byID     map[int]int // registry id -> subscriber
	readerID int64
	curChan  string
	curPay   string
	nextMsg  int
	payID    sync.Map // payload -> message id
	pending  sync.Map // goroutine id -> subscriber index (inside Subscribe)
	pubStart   atomic.Int64
	readerDone atomic.Bool
}

func (r *run) rnd(n int) int { r.rngMu.Lock(); defer r.rngMu.Unlock(); return r.rng.Intn(n) }

func (r *run) log(ev string, s int, c string, m int) { r.tr.Log(ev, "s", s, "c", c, "m", m) }

func (r *run) hook(point string, obj any, a, b int) {
	switch point {
	case "subs.sub":
		// the channel is not known to the driver yet: the subscribing goroutine registered itself
		s := 0
		if v, ok := r.pending.Load(vh.GoID()); ok {
			s = v.(int)
		}
		r.chanMu.Lock()
		r.byChan[rueidis.VerifSubChan(obj)] = s
		r.byID[a] = s
		r.chanMu.Unlock()
		r.log(point, s, "", 0)
	case "subs.cancel":
		if !r.subs.Is(obj) {
			return
		}
		r.chanMu.Lock()
		s := r.byID[a]
		r.chanMu.Unlock()
		r.log(point, s, "", 0)
	case "subs.pub.begin":
		if !r.subs.Is(obj) {
			return
		}
		r.nextMsg++
		r.payID.Store(r.curPay, r.nextMsg)
		r.log(point, 0, r.curChan, r.nextMsg)
	case "subs.pub.send":
		r.chanMu.Lock()
		s := r.byChan[rueidis.VerifSubChan(obj)]
		r.chanMu.Unlock()
		r.log(point, s, "", 0)
	case "subs.pub.end", "subs.close.locked", "subs.close.done":
		if r.subs.Is(obj) {
			r.log(point, 0, "", 0)
		}
	case "subs.unsub.begin": // logged before any subscriber channel is closed (the hook at the end of the critical
		// section would come after a subscriber could already have seen its channel closed)
		if r.subs.Is(obj) {
			r.log("subs.unsub", 0, r.curChan, 0)
		}
	default:
		return
	}
	if x := r.rnd(100); x < 25 {
		runtime.Gosched()
	} else if x < 32 {
		time.Sleep(time.Duration(20+r.rnd(200)) * time.Microsecond)
	}
}

func oneRun(rep *vh.Report, seed int64) []map[string]any {
	r := &run{tr: &vh.Tracer{}, rng: rand.New(rand.NewSource(seed)), byChan: map[<-chan rueidis.PubSubMessage]int{}, byID: map[int]int{}}
	r.subs = rueidis.VerifNewSubs()
	rueidis.SetVerifHook(r.hook)
	defer rueidis.SetVerifHook(nil)
	r.log("RESET", 0, "", 0)
	var wg sync.WaitGroup
	var panicked atomic.Value
	guard := func(who string) {
		if e := recover(); e != nil {
			panicked.Store(fmt.Sprintf("%s: %v", who, e))
		}
	}
	nsub := 3 + r.rnd(4)
	for s := 1; s <= nsub; s++ {
		wg.Add(1)
		srng := rand.New(rand.NewSource(seed*17 + int64(s)))
		go func(s int) {
			defer wg.Done()
			defer guard(fmt.Sprintf("subscriber %d", s))
			time.Sleep(time.Duration(srng.Intn(1500)) * time.Microsecond)
			r.pending.Store(vh.GoID(), s)
			ch, cancel := r.subs.Subscribe(topics(s), nil)
			if ch == nil {
				r.log("SubNil", s, "", 0)
				return
			}
			slow := srng.Intn(100) < 40
			if srng.Intn(100) < 25 {
				// a Receive whose callback is stuck: nothing is consumed, the 16-slot buffer fills, Publish blocks holding the
				// read lock; then the caller's context ends and cancel() must still get through (the drainer goroutine)
				for t0 := time.Now(); time.Since(t0) < 300*time.Millisecond; time.Sleep(200 * time.Microsecond) {
					if ps := r.pubStart.Load(); ps != 0 && time.Now().UnixNano()-ps > int64(3*time.Millisecond) {
						break // a Publish has been blocked for 3 ms (very likely on this subscriber's full buffer)
					}
					if r.readerDone.Load() {
						break
					}
				}
				r.log("CtxDone", s, "", 0)
				cancel()
				return
			}
			limit := 1 + srng.Intn(40) // stop by "context" after this many messages (or earlier by close)
			last := 0
			n := 0
			for msg := range ch {
				id := 0
				if v, ok := r.payID.Load(msg.Message); ok {
					id = v.(int)
				}
				r.log("Recv", s, "", id)
				if id <= last {
					rep.Violate("subs-order", fmt.Sprintf("subscriber %d received message %d after %d", s, id, last), r.tr.Events())
				}
				last = id
				ok := false
				for _, t := range topics(s) {
					if t == msg.Channel {
						ok = true
					}
				}
				if !ok {
					rep.Violate("subs-foreign-message", fmt.Sprintf("subscriber %d (topics %v) received a message of channel %q", s, topics(s), msg.Channel), r.tr.Events())
				}
				if slow {
					time.Sleep(time.Duration(srng.Intn(300)) * time.Microsecond)
				}
				if n++; n >= limit {
					r.log("CtxDone", s, "", 0)
					cancel()
					return
				}
			}
			r.log("RecvClosed", s, "", 0)
			cancel()
		}(s)
	}
	wg.Add(1)
	go func() { // the reader goroutine
		defer wg.Done()
		defer guard("reader")
		nops := 40 + r.rnd(60)
		for i := 0; i < nops; i++ {
			c := []string{"a", "b"}[r.rnd(2)]
			r.curChan = c
			if x := r.rnd(100); x < 4 {
				r.subs.Unsubscribe(rueidis.PubSubSubscription{Kind: "unsubscribe", Channel: c})
			} else {
				r.curPay = fmt.Sprintf("p%d", i)
				r.pubStart.Store(time.Now().UnixNano())
				r.subs.Publish(c, rueidis.PubSubMessage{Channel: c, Message: r.curPay})
				r.pubStart.Store(0)
			}
			if r.rnd(100) < 20 {
				time.Sleep(time.Duration(r.rnd(200)) * time.Microsecond)
			}
		}
		r.readerDone.Store(true)
		r.subs.Close()
	}()
	done := make(chan struct{})
	go func() { wg.Wait(); close(done) }()
	select {
	case <-done:
	case <-time.After(10 * time.Second):
		rep.Violate("subs-deadlock", "reader or a cancelling subscriber still blocked after 10 s (Publish blocked on a full buffer while cancel waits for the lock?)", r.tr.Events())
		return nil
	}
	if p := panicked.Load(); p != nil {
		rep.Violate("subs-panic", p.(string), r.tr.Events())
		return nil
	}
	return r.tr.Events()
}

func main() {
	flag.Parse()
	rep := &vh.Report{Rule: "subs runs: 3-6 subscribers with overlapping topics (40% slow consumers so buffers fill), one reader goroutine publishing 30-90 messages with occasional server-side unsubscribes, then Close; non-trivial when some Publish had to wait for a full buffer or a subscriber cancelled while messages were in flight; distinct by event sequence"}
	var traces [][]map[string]any
	distinct := map[string]bool{}
	for i := 0; i < *runs; i++ {
		ev := oneRun(rep, vh.Seed()*6151+int64(i))
		rep.Evaluations++
		if ev == nil {
			continue
		}
		traces = append(traces, ev)
		key := ""
		for _, e := range ev {
			key += e["ev"].(string)[len(e["ev"].(string))-2:] + fmt.Sprint(e["s"])
		}
		distinct[key] = true
		if i == 0 {
			n := len(ev)
			if n > 40 {
				n = 40
			}
			rep.Sample(map[string]any{"events": ev[:n]})
		}
	}
	rep.Traces = len(traces)
	rep.DistinctNontrivial = len(distinct)
	if *traceDir != "" {
		if err := vh.WriteNDJSON(filepath.Join(*traceDir, "subs.ndjson"), traces); err != nil {
			rep.Inconcl("write trace: %v", err)
		}
	}
	rep.Write(*vh.Out)
}
