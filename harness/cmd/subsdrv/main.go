// subsdrv drives the real Pub/Sub subscription registry (pubsub.go `subs`) the way pipe.go does: one reader goroutine
// publishing, unsubscribing and finally closing; several Receive-like subscribers that consume (some slowly, so the
// 16-slot buffers fill up and Publish blocks while holding the read lock), end by context or by channel close, and then
// run the cancel function.  Hook events from inside the lock regions plus the subscribers' observations are validated
// against spec/pipe/Subs.tla (SubsTrace.tla); panics (send on / close of a closed channel), hangs and order violations
// are also detected directly.
package main

import (
	"flag"
	"fmt"
	"math/rand"
	"path/filepath"
	"runtime"
	"sync"
	"sync/atomic"
	"time"

	"github.com/redis/rueidis"
	"verifharness/vh"
)

var (
	runs     = flag.Int("runs", 60, "runs")
	traceDir = flag.String("tracedir", "", "directory for ndjson traces")
)

func topics(s int) []string {
	switch s % 3 {
	case 1:
		return []string{"a"}
	case 2:
		return []string{"a", "b"}
	}
	return []string{"b"}
}

type run struct {
	tr       *vh.Tracer
	subs     *rueidis.VerifSubs
	rng      *rand.Rand
	rngMu    sync.Mutex
	chanMu   sync.Mutex
	byChan   map[<-chan rueidis.PubSubMessage]int
	byID     map[int]int // registry id -> subscriber
	readerID int64
	curChan  string
	curPay   string
	nextMsg  int
	payID    sync.Map // payload -> message id
	pending  sync.Map // goroutine id -> subscriber index (inside Subscribe)
	pubStart   atomic.Int64
	readerDone atomic.Bool
	nextSub    atomic.Int64 // subscriber numbers handed out so far (a Receive call = one number; at most maxSub per run)
	hookFired  bool         // reader goroutine only: a hook of the lock region fired during the current call
}

const maxSub = 12 // Sub of spec/pipe/SubsTrace.cfg

func (r *run) rnd(n int) int { r.rngMu.Lock(); defer r.rngMu.Unlock(); return r.rng.Intn(n) }

func (r *run) log(ev string, s int, c string, m int) { r.tr.Log(ev, "s", s, "c", c, "m", m, "id", 0) }

// logID: records of the registry that carry the subscription id the implementation used
func (r *run) logID(ev string, s int, id int) { r.tr.Log(ev, "s", s, "c", "", "m", 0, "id", id) }

func (r *run) hook(point string, obj any, a, b int) {
	switch point {
	case "subs.sub":
		// the channel is not known to the driver yet: the subscribing goroutine registered itself
		s := 0
		if v, ok := r.pending.Load(vh.GoID()); ok {
			s = v.(int)
		}
		r.chanMu.Lock()
		r.byChan[rueidis.VerifSubChan(obj)] = s
		r.chanMu.Unlock()
		r.logID(point, s, a)
	case "subs.cancel":
		if !r.subs.Is(obj) {
			return
		}
		// cancel runs on the goroutine of the Receive it belongs to; a is the id its closure removes
		s := 0
		if v, ok := r.pending.Load(vh.GoID()); ok {
			s = v.(int)
		}
		r.logID(point, s, a)
	case "subs.pub.begin":
		if !r.subs.Is(obj) {
			return
		}
		r.hookFired = true
		r.nextMsg++
		r.payID.Store(r.curPay, r.nextMsg)
		r.log(point, 0, r.curChan, r.nextMsg)
	case "subs.pub.send":
		r.chanMu.Lock()
		s := r.byChan[rueidis.VerifSubChan(obj)]
		r.chanMu.Unlock()
		r.log(point, s, "", 0)
	case "subs.pub.end", "subs.close.locked", "subs.close.done":
		if r.subs.Is(obj) {
			r.log(point, 0, "", 0)
		}
	case "subs.unsub.begin": // logged before any subscriber channel is closed (the hook at the end of the critical
		// section would come after a subscriber could already have seen its channel closed)
		if r.subs.Is(obj) {
			r.hookFired = true
			r.log("subs.unsub", 0, r.curChan, 0)
		}
	default:
		return
	}
	if x := r.rnd(100); x < 25 {
		runtime.Gosched()
	} else if x < 32 {
		time.Sleep(time.Duration(20+r.rnd(200)) * time.Microsecond)
	}
}

// oneReceive is one Receive call: Subscribe, consume (slowly or not at all), end by "context" or by channel close, cancel.
func (r *run) oneReceive(rep *vh.Report, s int, srng *rand.Rand, short bool) {
	r.pending.Store(vh.GoID(), s)
	ch, cancel := r.subs.Subscribe(topics(s), nil)
	if ch == nil {
		r.log("SubNil", s, "", 0)
		return
	}
	slow := srng.Intn(100) < 40
	if !short && srng.Intn(100) < 25 {
		// a Receive whose callback is stuck: nothing is consumed, the 16-slot buffer fills, Publish blocks holding the
		// read lock; then the caller's context ends and cancel() must still get through (the drainer goroutine)
		for t0 := time.Now(); time.Since(t0) < 300*time.Millisecond; time.Sleep(200 * time.Microsecond) {
			if ps := r.pubStart.Load(); ps != 0 && time.Now().UnixNano()-ps > int64(3*time.Millisecond) {
				break // a Publish has been blocked for 3 ms (very likely on this subscriber's full buffer)
			}
			if r.readerDone.Load() {
				break
			}
		}
		r.log("CtxDone", s, "", 0)
		cancel()
		return
	}
	limit := 1 + srng.Intn(40) // stop by "context" after this many messages (or earlier by close)
	if short {
		limit = 1 + srng.Intn(4)
	}
	last := 0
	n := 0
	for msg := range ch {
		id := 0
		if v, ok := r.payID.Load(msg.Message); ok {
			id = v.(int)
		}
		r.log("Recv", s, "", id)
		if id <= last {
			rep.Violate("subs-order", fmt.Sprintf("subscriber %d received message %d after %d", s, id, last), r.tr.Events())
		}
		last = id
		ok := false
		for _, t := range topics(s) {
			if t == msg.Channel {
				ok = true
			}
		}
		if !ok {
			rep.Violate("subs-foreign-message", fmt.Sprintf("subscriber %d (topics %v) received a message of channel %q", s, topics(s), msg.Channel), r.tr.Events())
		}
		if slow {
			time.Sleep(time.Duration(srng.Intn(300)) * time.Microsecond)
		}
		if n++; n >= limit {
			r.log("CtxDone", s, "", 0)
			cancel()
			return
		}
	}
	r.log("RecvClosed", s, "", 0)
	cancel()
}

func oneRun(rep *vh.Report, seed int64) (events []map[string]any, stop bool) {
	r := &run{tr: &vh.Tracer{}, rng: rand.New(rand.NewSource(seed)), byChan: map[<-chan rueidis.PubSubMessage]int{}, byID: map[int]int{}}
	r.subs = rueidis.VerifNewSubs()
	rueidis.SetVerifHook(r.hook)
	defer rueidis.SetVerifHook(nil)
	r.log("RESET", 0, "", 0)
	var wg sync.WaitGroup
	var panicked atomic.Value
	guard := func(who string) {
		if e := recover(); e != nil {
			panicked.Store(fmt.Sprintf("%s: %v", who, e))
		}
	}
	// Receive-like goroutines.  Each runs one to three Receives in a row (a new subscriber number each time), so that
	// subscriptions start after others have ended - by their context, by an unsubscribe of their channel - while
	// further ones are alive: the registry hands out ids, removes by id and must never give an id of a live
	// subscription to a new one.
	ngo := 3 + r.rnd(4)
	for g := 1; g <= ngo; g++ {
		wg.Add(1)
		srng := rand.New(rand.NewSource(seed*17 + int64(g)))
		go func(g int) {
			defer wg.Done()
			defer guard(fmt.Sprintf("receiver %d", g))
			time.Sleep(time.Duration(srng.Intn(1500)) * time.Microsecond)
			rounds := 1 + srng.Intn(3)
			for round := 0; round < rounds; round++ {
				s := int(r.nextSub.Add(1))
				if s > maxSub || r.readerDone.Load() {
					return
				}
				short := round+1 < rounds || srng.Intn(2) == 0 // ends soon, so that the next one starts among live ones
				r.oneReceive(rep, s, srng, short)
				if srng.Intn(2) == 0 {
					time.Sleep(time.Duration(srng.Intn(300)) * time.Microsecond)
				}
			}
		}(g)
	}
	wg.Add(1)
	go func() { // the reader goroutine
		defer wg.Done()
		defer guard("reader")
		nops := 40 + r.rnd(60)
		for i := 0; i < nops; i++ {
			c := []string{"a", "b"}[r.rnd(2)]
			r.curChan = c
			// every call is announced; one that returns without having reached its lock region took the lock-free
			// fast path ("nobody is subscribed"), which the specification accepts only if that was true at some moment
			// of the call
			r.hookFired = false
			if x := r.rnd(100); x < 6 {
				r.log("UnsubCall", 0, c, 0)
				r.subs.Unsubscribe(rueidis.PubSubSubscription{Kind: "unsubscribe", Channel: c})
				if !r.hookFired {
					r.log("UnsubSkip", 0, c, 0)
				}
			} else {
				r.curPay = fmt.Sprintf("p%d", i)
				r.log("PubCall", 0, c, 0)
				r.pubStart.Store(time.Now().UnixNano())
				r.subs.Publish(c, rueidis.PubSubMessage{Channel: c, Message: r.curPay})
				r.pubStart.Store(0)
				if !r.hookFired {
					r.log("PubSkip", 0, c, 0)
				}
			}
			if r.rnd(100) < 20 {
				time.Sleep(time.Duration(r.rnd(200)) * time.Microsecond)
			}
		}
		r.readerDone.Store(true)
		r.subs.Close()
	}()
	done := make(chan struct{})
	go func() { wg.Wait(); close(done) }()
	select {
	case <-done:
	case <-time.After(10 * time.Second):
		rep.Violate("subs-deadlock", "reader, a Receive or a cancelling subscriber still blocked after 10 s (Publish blocked on a full buffer while cancel waits for the lock? a subscription whose channel is never closed?)", r.tr.Events())
		return r.tr.Events(), true // what was recorded up to here is still a behaviour of the registry: it is validated too
	}
	if p := panicked.Load(); p != nil {
		rep.Violate("subs-panic", p.(string), r.tr.Events())
		return r.tr.Events(), true
	}
	return r.tr.Events(), false
}

func main() {
	flag.Parse()
	rep := &vh.Report{Rule: "subs runs: 3-6 receiver goroutines running 1-3 Receives in a row (up to 12 subscriptions, overlapping topics, subscriptions starting after others ended while further ones are alive; 40% slow consumers so buffers fill), one reader goroutine publishing 30-90 messages with occasional server-side unsubscribes, then Close; non-trivial when some Publish had to wait for a full buffer or a subscriber cancelled while messages were in flight; distinct by event sequence"}
	var traces [][]map[string]any
	distinct := map[string]bool{}
	for i := 0; i < *runs; i++ {
		ev, stop := oneRun(rep, vh.Seed()*6151+int64(i))
		rep.Evaluations++
		traces = append(traces, ev)
		key := ""
		for _, e := range ev {
			key += e["ev"].(string)[len(e["ev"].(string))-2:] + fmt.Sprint(e["s"])
		}
		distinct[key] = true
		if i == 0 {
			n := len(ev)
			if n > 40 {
				n = 40
			}
			rep.Sample(map[string]any{"events": ev[:n]})
		}
		if stop {
			// a deadlock or a panic was reported: every further run would wait for its time-out again
			break
		}
	}
	rep.Traces = len(traces)
	rep.DistinctNontrivial = len(distinct)
	if *traceDir != "" {
		if err := vh.WriteNDJSON(filepath.Join(*traceDir, "subs.ndjson"), traces); err != nil {
			rep.Inconcl("write trace: %v", err)
		}
	}
	rep.Write(*vh.Out)
}
