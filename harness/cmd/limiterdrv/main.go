// limiterdrv executes scenarios enumerated by TLC from spec/addons/LimiterGen.tla against the real rueidislimiter.
// A scenario is a script of controllable steps: caller c starts Check/Allow/AllowN (it reads time.Now() and sends the
// script, which the fake server parks), the server runs a parked caller's script, the clock advances by d ticks.
// One tick is a fixed slice of real time chosen so that "same window / next window / keys expired" in the model
// (W = 2 ticks, Slack = 2 ticks) and in reality (window 1150 ms, key slack 1000 ms, tick 500 ms) agree with margins
// of >= 150 ms: 2 ticks = 1000 < 1150 < 1500 = 3 ticks, and 4 ticks = 2000 < 2150 < 2500 = 5 ticks.  In general a window
// of w ticks is w*500+150 ms (w ticks < window < w+1 ticks, w+2 ticks < window+1000 ms < w+3 ticks).
// Every limiter instance is configured with the scenario's DEFAULT limit and window; a Read step says how many
// per-call options the call passes (WithCustomRateLimit) and with which values: the last one is the limit/window the
// specification holds the call to, an option in front of it is a decoy with other values.  Calls that pass no option
// in the scenario sometimes pass the configured values explicitly (seeded choice).
// Every caller is a separate limiter instance with its own client (a separate process as far as the
// limiter is concerned); the server runs on a virtual clock that the driver synchronises with real time right
// before it lets a script run, so the server time of every execution is known exactly.
//
// The oracle is LimiterTrace.tla: the driver records Call / Exec (ARGV and reply of the script as seen by the server,
// server time) / Ret (what the caller got) with real, rebased millisecond values and TLC recomputes every reply and
// result from its own copy of the keys, evaluating the properties at every step.  The outcome TLC predicted for the
// abstract scenario is compared as well, but only to report how many scenarios were realised as intended.
package main

import (
	"bufio"
	"context"
	"encoding/json"
	"flag"
	"fmt"
	"net"
	"os"
	"strconv"
	"strings"
	"sync"
	"time"

	"github.com/redis/rueidis"
	"github.com/redis/rueidis/rueidislimiter"
	"verifharness/fakeredis"
	"verifharness/vh"
)

var (
	casesPath = flag.String("cases", "", "ndjson file of TLC scenarios")
	tracePath = flag.String("trace", "", "prefix of the ndjson trace files (one per limit)")
	parallel  = flag.Int("parallel", 96, "scenarios in flight")
)

const (
	tick        = 500 * time.Millisecond
	staleMargin = 850 // ms; a call is inside the assumption when its script ran at most window + 850 ms after its clock reading (window + key slack = window + 1000)
)

// windowMsOf maps a window of w ticks to real time (w = 2 <-> 1150 ms)
func windowMsOf(w int) int { return w*500 + 150 }

type step struct {
	A         string `json:"a"`
	C         int    `json:"c"`
	ID        int    `json:"id"`
	N         int    `json:"n"`
	D         int    `json:"d"`
	Clock     int    `json:"clock"`
	Lim       int    `json:"lim"` // limit / window (ticks) in force for the call
	W         int    `json:"w"`
	Nopt      int    `json:"nopt"` // number of options the call passes
	Lim0      int    `json:"lim0"` // the option in front of the one in force (nopt = 2)
	W0        int    `json:"w0"`
	Allowed   bool   `json:"allowed"`
	Remaining int    `json:"remaining"`
	Cur       int    `json:"cur"`
	Wasreset  bool   `json:"wasreset"`
}
type tcase struct {
	Limit int    `json:"limit"`
	W     int    `json:"w"`
	Slack int    `json:"slack"`
	Steps []step `json:"steps"`
}

type callState struct {
	phase    int // 0 idle, 1 waiting to be parked, 2 parked, 3 released
	conn     *fakeredis.Conn
	parked   chan struct{}
	id, n    int
	lim, wms int // values of the last option passed (the default when none), for the record only
	cls      string
	optkv    []any          // the option list of the call as event fields (nopt, lim1, wms1, lim2, wms2), repeated on its Exec and Ret events
	pending  map[string]any // Exec event under construction
}

type scen struct {
	idx    int
	c      tcase
	srv    *fakeredis.Server
	vc     *fakeredis.VirtualClock
	base   int64
	prefix string
	mu     sync.Mutex
	calls  map[int]*callState
	events []map[string]any
	keyBad string
	dead   map[int64]bool // PXAT deadlines seen so far (absolute ms)
}

func (s *scen) emit(ev string, kv ...any) {
	m := map[string]any{"ev": ev, "c": 0, "id": 0, "n": 0, "now": 0, "next": 0, "cur": 0, "exp": 0, "t": 0, "wasreset": false,
		"allowed": false, "remaining": 0, "resetat": 0, "cls": "", "lim": 0, "wms": 0, "nopt": 0, "lim1": 0, "wms1": 0, "lim2": 0, "wms2": 0}
	for i := 0; i+1 < len(kv); i += 2 {
		m[kv[i].(string)] = kv[i+1]
	}
	s.events = append(s.events, m)
}

func callerOf(c *fakeredis.Conn) int {
	var n int
	if _, err := fmt.Sscanf(c.Name(), "caller%d", &n); err != nil {
		return 0
	}
	return n
}

func isScript(argv []string) bool {
	up := strings.ToUpper(argv[0])
	return (up == "EVALSHA" || up == "EVAL") && len(argv) == 8 && argv[2] == "2"
}

func (s *scen) intercept(c *fakeredis.Conn, argv []string) (fakeredis.Value, fakeredis.Action) {
	if !isScript(argv) {
		return fakeredis.Value{}, fakeredis.Pass
	}
	s.mu.Lock()
	defer s.mu.Unlock()
	cs := s.calls[callerOf(c)]
	if cs == nil || cs.phase != 1 {
		return fakeredis.Value{}, fakeredis.Pass
	}
	cs.phase, cs.conn = 2, c
	close(cs.parked)
	return fakeredis.Value{}, fakeredis.Park
}

func (s *scen) sink(ev fakeredis.Event) {
	if ev.Conn == 0 {
		return
	}
	c := s.srv.Conn(ev.Conn)
	if c == nil {
		return
	}
	s.mu.Lock()
	defer s.mu.Unlock()
	cs := s.calls[callerOf(c)]
	if cs == nil {
		return
	}
	switch ev.Kind {
	case fakeredis.SExec:
		if len(ev.Argv) == 0 {
			return
		}
		if isScript(ev.Argv) && strings.Contains(ev.Note, "body:") {
			// name script numkeys k1 k2 n next now
			key := fmt.Sprintf("%s:{id%d}", s.prefix, cs.id)
			if ev.Argv[3] != key || ev.Argv[4] != key+":ex" {
				s.keyBad = fmt.Sprintf("keys %q %q, expected %q and %q", ev.Argv[3], ev.Argv[4], key, key+":ex")
			}
			n, _ := strconv.ParseInt(ev.Argv[5], 10, 64)
			next, _ := strconv.ParseInt(ev.Argv[6], 10, 64)
			now, _ := strconv.ParseInt(ev.Argv[7], 10, 64)
			cs.pending = map[string]any{"n": int(n), "next": int(next - s.base), "now": int(now - s.base),
				"t": int(s.vc.Now().UnixMilli() - s.base), "wasreset": false}
		} else if cs.pending != nil && strings.Contains(ev.Note, "lua") && strings.ToUpper(ev.Argv[0]) == "SET" {
			cs.pending["wasreset"] = true
			if len(ev.Argv) >= 5 {
				if d, err := strconv.ParseInt(ev.Argv[4], 10, 64); err == nil {
					s.dead[d] = true
				}
			}
		}
	case fakeredis.SRep:
		if cs.pending != nil && len(ev.Reply.Arr) == 2 {
			p := cs.pending
			cs.pending = nil
			s.emit("Exec", append([]any{"c", callerOf(c), "id", cs.id, "n", p["n"], "now", p["now"], "next", p["next"], "t", p["t"], "wasreset", p["wasreset"],
				"cur", int(ev.Reply.Arr[0].Int), "exp", int(ev.Reply.Arr[1].Int - s.base), "lim", cs.lim, "wms", cs.wms,
				"cls", classOf(p["n"].(int), cs.lim, cs.wms, s.c.Limit, windowMsOf(s.c.W))}, cs.optkv...)...)
		}
	}
}

// classOf names the input class of a call for signatures: n and, when the call carries a per-call option that differs
// from the configured default, how it differs
func classOf(n, lim, wms, defLim, defWms int) string {
	cls := fmt.Sprintf("n=%d", n)
	switch {
	case lim < defLim:
		cls += fmt.Sprintf(" lim=%d<default%d", lim, defLim)
	case lim > defLim:
		cls += fmt.Sprintf(" lim=%d>default%d", lim, defLim)
	}
	switch {
	case wms < defWms:
		cls += fmt.Sprintf(" w=%dms<default%dms", wms, defWms)
	case wms > defWms:
		cls += fmt.Sprintf(" w=%dms>default%dms", wms, defWms)
	}
	return cls
}

type outcome struct {
	res rueidislimiter.Result
	err error
}

type stats struct {
	mu                                                                   sync.Mutex
	realised, diverged, unmet, evaluations                               int
	callsLow, callsHigh, callsWindow, callsTwoOpts, callsExplicitDefault int
	divergedSamples, droppedSamples                                      []string
}

func runScenario(idx int, c tcase, rep *vh.Report, st *stats) (events []map[string]any, ok bool) {
	rng := vh.Rng(int64(idx))
	s := &scen{idx: idx, c: c, calls: map[int]*callState{}, dead: map[int64]bool{}}
	s.prefix = rueidislimiter.PlaceholderPrefix
	custom := rng.Intn(3) == 0
	if custom {
		s.prefix = fmt.Sprintf("tenant%d:rl", rng.Intn(100))
	}
	start := time.Now()
	s.vc = fakeredis.NewVirtualClock(start)
	s.base = start.UnixMilli() - 10000
	s.srv = fakeredis.NewServer("limiter", fakeredis.Options{Clock: s.vc})
	defer s.srv.Close()
	s.srv.SetIntercept(s.intercept)
	s.srv.SetEventSink(s.sink)
	network := fakeredis.NewNetwork()
	network.Add("127.0.0.1:6379", s.srv)
	limiters := map[int]rueidislimiter.RateLimiterClient{}
	var clients []rueidis.Client
	defer func() {
		for _, cl := range clients {
			cl.Close()
		}
	}()
	for _, stp := range c.Steps {
		if stp.A != "Read" || limiters[stp.C] != nil {
			continue
		}
		opt := rueidislimiter.RateLimiterOption{
			ClientOption: rueidis.ClientOption{InitAddress: []string{"127.0.0.1:6379"}, DialCtxFn: network.DialCtxFn(),
				ClientName: fmt.Sprintf("caller%d", stp.C), ForceSingleClient: true, DisableCache: true, DisableRetry: true,
				Dialer: net.Dialer{Timeout: time.Minute}, ConnWriteTimeout: time.Minute},
			ClientBuilder: func(o rueidis.ClientOption) (rueidis.Client, error) {
				cl, err := rueidis.NewClient(o)
				if err == nil {
					clients = append(clients, cl)
				}
				return cl, err
			},
			Limit: c.Limit, Window: time.Duration(windowMsOf(c.W)) * time.Millisecond,
		}
		if custom {
			opt.KeyPrefix = s.prefix
		}
		l, err := rueidislimiter.NewRateLimiter(opt)
		if err != nil {
			rep.Inconcl("NewRateLimiter: %v", err)
			return nil, false
		}
		limiters[stp.C] = l
		s.calls[stp.C] = &callState{}
	}
	s.mu.Lock()
	s.emit("RESET", "cls", fmt.Sprintf("limit=%d", c.Limit))
	s.mu.Unlock()

	results := map[int]chan outcome{}
	t0 := time.Now()
	at := func(clock int) time.Time { return t0.Add(time.Duration(clock-1) * tick) }
	realised := true
	var diverge string
	for _, stp := range c.Steps {
		switch stp.A {
		case "Adv":
			time.Sleep(time.Until(at(stp.Clock)))
		case "Read":
			cs := s.calls[stp.C]
			// the options of this call, as the scenario says; the event records exactly what is passed, in order
			type optv struct{ lim, wms int }
			var ov []optv
			switch {
			case stp.Nopt >= 2:
				ov = []optv{{stp.Lim0, windowMsOf(stp.W0)}, {stp.Lim, windowMsOf(stp.W)}}
			case stp.Nopt == 1:
				ov = []optv{{stp.Lim, windowMsOf(stp.W)}}
			case rng.Intn(3) == 0: // no option in the scenario: sometimes the per-call option path with the configured values
				ov = []optv{{c.Limit, windowMsOf(c.W)}}
			}
			opts := []rueidislimiter.RateLimitOption{}
			for _, o := range ov {
				opts = append(opts, rueidislimiter.WithCustomRateLimit(o.lim, time.Duration(o.wms)*time.Millisecond))
			}
			lastLim, lastWms := c.Limit, windowMsOf(c.W)
			o1, o2 := optv{}, optv{}
			if len(ov) > 0 {
				o1 = ov[0]
				lastLim, lastWms = ov[len(ov)-1].lim, ov[len(ov)-1].wms
			}
			if len(ov) > 1 {
				o2 = ov[1]
			}
			cls := classOf(stp.N, lastLim, lastWms, c.Limit, windowMsOf(c.W))
			st.mu.Lock()
			if lastLim < c.Limit {
				st.callsLow++
			}
			if lastLim > c.Limit {
				st.callsHigh++
			}
			if lastWms != windowMsOf(c.W) {
				st.callsWindow++
			}
			if len(ov) > 1 {
				st.callsTwoOpts++
			}
			if len(ov) == 1 && stp.Nopt == 0 {
				st.callsExplicitDefault++
			}
			st.mu.Unlock()
			s.mu.Lock()
			cs.phase, cs.parked, cs.id, cs.n = 1, make(chan struct{}), stp.ID, stp.N
			cs.lim, cs.wms, cs.cls = lastLim, lastWms, cls
			cs.optkv = []any{"nopt", len(ov), "lim1", o1.lim, "wms1", o1.wms, "lim2", o2.lim, "wms2", o2.wms}
			s.emit("Call", append([]any{"c", stp.C, "id", stp.ID, "n", stp.N, "cls", cls, "lim", lastLim, "wms", lastWms}, cs.optkv...)...)
			s.mu.Unlock()
			ch := make(chan outcome, 1)
			results[stp.C] = ch
			l, n, id := limiters[stp.C], stp.N, fmt.Sprintf("id%d", stp.ID)
			viaN := rng.Intn(2) == 0
			go func() {
				ctx, cancel := context.WithTimeout(context.Background(), 40*time.Second)
				defer cancel()
				var o outcome
				switch {
				case n == 0 && !viaN:
					o.res, o.err = l.Check(ctx, id, opts...)
				case n == 1 && !viaN:
					o.res, o.err = l.Allow(ctx, id, opts...)
				default:
					o.res, o.err = l.AllowN(ctx, id, int64(n), opts...)
				}
				ch <- o
			}()
			select {
			case <-cs.parked:
			case <-time.After(30 * time.Second):
				rep.Inconcl("scenario %d: the script of caller %d did not reach the server within 30s", idx, stp.C)
				return nil, false
			}
		case "Script":
			cs := s.calls[stp.C]
			// server time := real time, never exactly on a key deadline (the fake expires at deadline <= now, Redis at deadline < now)
			d := time.Until(s.vc.Now()) * -1
			if d > 0 {
				s.vc.Advance(d)
			}
			s.mu.Lock()
			for s.dead[s.vc.Now().UnixMilli()] {
				s.vc.Advance(time.Millisecond)
			}
			cs.phase = 3
			conn := cs.conn
			s.mu.Unlock()
			conn.UnparkExec()
		case "Ret":
			var o outcome
			select {
			case o = <-results[stp.C]:
			case <-time.After(45 * time.Second):
				rep.Inconcl("scenario %d: call of caller %d did not return within 45s", idx, stp.C)
				return nil, false
			}
			s.mu.Lock()
			s.calls[stp.C].phase = 0
			if o.err != nil {
				s.mu.Unlock()
				// an error return (time-out on an overloaded machine) says nothing about admission
				rep.Inconcl("scenario %d: call of caller %d returned error %v", idx, stp.C, o.err)
				return nil, false
			}
			s.emit("Ret", append([]any{"c", stp.C, "id", stp.ID, "n", stp.N, "allowed", o.res.Allowed, "remaining", int(o.res.Remaining),
				"resetat", int(o.res.ResetAtMs - s.base), "cls", s.calls[stp.C].cls, "lim", s.calls[stp.C].lim, "wms", s.calls[stp.C].wms}, s.calls[stp.C].optkv...)...)
			// the Exec event of this call is the last Exec of this caller
			var ex map[string]any
			for i := len(s.events) - 1; i >= 0; i-- {
				if s.events[i]["ev"] == "Exec" && s.events[i]["c"] == stp.C {
					ex = s.events[i]
					break
				}
			}
			s.mu.Unlock()
			if ex == nil {
				rep.Inconcl("scenario %d: no script execution observed for caller %d", idx, stp.C)
				return nil, false
			}
			if ex["t"].(int)-ex["now"].(int) > ex["wms"].(int)+staleMargin {
				st.mu.Lock()
				st.unmet++
				if len(st.droppedSamples) < 8 {
					st.droppedSamples = append(st.droppedSamples, fmt.Sprintf("scenario %d caller %d %s: script ran %d ms after the clock reading (window %d ms), scenario clock %d",
						idx, stp.C, s.calls[stp.C].cls, ex["t"].(int)-ex["now"].(int), ex["wms"].(int), stp.Clock))
				}
				st.mu.Unlock()
				return nil, true // the machine was too slow: the no-skew assumption of the property is not met, scenario dropped
			}
			if o.res.Allowed != stp.Allowed || int(o.res.Remaining) != stp.Remaining || ex["cur"].(int) != stp.Cur || ex["wasreset"].(bool) != stp.Wasreset {
				realised = false
				diverge = fmt.Sprintf("scenario %d caller %d %s: real allowed=%v remaining=%d cur=%d reset=%v, abstract scenario allowed=%v remaining=%d cur=%d reset=%v",
					idx, stp.C, s.calls[stp.C].cls, o.res.Allowed, o.res.Remaining, ex["cur"], ex["wasreset"], stp.Allowed, stp.Remaining, stp.Cur, stp.Wasreset)
			}
		}
	}
	if s.keyBad != "" {
		rep.Violate("limiter key-names", fmt.Sprintf("scenario %d (prefix %q): %s", idx, s.prefix, s.keyBad), c)
	}
	st.mu.Lock()
	st.evaluations++
	if realised {
		st.realised++
	} else {
		st.diverged++
		if len(st.divergedSamples) < 5 {
			st.divergedSamples = append(st.divergedSamples, diverge)
		}
	}
	st.mu.Unlock()
	s.mu.Lock()
	defer s.mu.Unlock()
	return s.events, true
}

func main() {
	flag.Parse()
	rep := &vh.Report{Rule: "distinct scenarios with at least two calls on one identifier in which a window boundary is crossed, the keys expire, a request is refused, or a caller's script runs after a later caller's (stale clock reading)"}
	defer func() { rep.Write(*vh.Out) }()
	f, err := os.Open(*casesPath)
	if err != nil {
		rep.Inconcl("cannot open cases: %v", err)
		return
	}
	defer f.Close()
	sc := bufio.NewScanner(f)
	sc.Buffer(make([]byte, 1<<20), 1<<26)
	var cases []tcase
	for sc.Scan() {
		var c tcase
		if err := json.Unmarshal(sc.Bytes(), &c); err != nil {
			rep.Inconcl("bad case: %v", err)
			continue
		}
		cases = append(cases, c)
	}
	st := &stats{}
	traces := map[int][][]map[string]any{}
	var tmu sync.Mutex
	sem := make(chan struct{}, *parallel)
	var wg sync.WaitGroup
	for i, c := range cases {
		wg.Add(1)
		sem <- struct{}{}
		go func(i int, c tcase) {
			defer wg.Done()
			defer func() { <-sem }()
			evs, ok := runScenario(i+1, c, rep, st)
			if ok && evs != nil {
				tmu.Lock()
				traces[c.Limit] = append(traces[c.Limit], evs)
				tmu.Unlock()
			}
		}(i, c)
	}
	wg.Wait()
	rep.Evaluations = st.evaluations
	for _, c := range cases {
		nontrivial := false
		for _, s := range c.Steps {
			if s.A == "Ret" && (!s.Allowed || s.Wasreset && s.Clock > 1) || s.A == "Adv" && s.D >= 3 {
				nontrivial = true
			}
		}
		if nontrivial {
			rep.DistinctNontrivial++
		}
	}
	for limit, trs := range traces {
		rep.Traces += len(trs)
		if *tracePath != "" {
			if err := vh.WriteNDJSON(fmt.Sprintf("%s.limit-%d.ndjson", *tracePath, limit), trs); err != nil {
				rep.Inconcl("cannot write trace: %v", err)
			}
		}
	}
	if len(cases) > 0 {
		rep.Sample(cases[0])
		rep.Sample(cases[len(cases)/2])
	}
	rep.Extra = map[string]any{"scenarios_realised_as_predicted": st.realised, "scenarios_timing_divergent": st.diverged,
		"scenarios_dropped_assumption_unmet": st.unmet, "divergent_samples": st.divergedSamples, "dropped_samples": st.droppedSamples, "window_ms": windowMsOf(2), "tick_ms": tick.Milliseconds(),
		"calls_custom_limit_below_default": st.callsLow, "calls_custom_limit_above_default": st.callsHigh, "calls_custom_window": st.callsWindow,
		"calls_two_options": st.callsTwoOpts, "calls_option_with_default_values": st.callsExplicitDefault}
	if len(cases) > 20 && st.unmet*2 > len(cases) {
		rep.Inconcl("more than half of the scenarios (%d of %d) were dropped because a script ran more than window + %d ms after its caller read the clock: the machine is too slow for the real-time schedule", st.unmet, len(cases), staleMargin)
	}
	rep.Assumptions = append(rep.Assumptions,
		"the limiter reads time.Now(): scenarios run in real time (default window 1150 ms, a window of w ticks = w*500+150 ms, tick 500 ms, key slack 1000 ms); callers and server share one clock; a call whose script runs more than its window + 850 ms after its clock reading is outside the property (clock skew) and dropped",
		"every caller is its own limiter instance and client on the same fake server; the server runs on a virtual clock synchronised with real time before each script execution")
}
