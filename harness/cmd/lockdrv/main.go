// lockdrv binds C34 (rueidislock) to spec/addons/Lock.tla / LockTrace.tla, hook-free:
//
// real rueidislock.NewLocker instances (one rueidis client each) run over one fakeredis server per scenario with the
// real clock and a short validity. Scenario faults are injected at the server (intercept): error reply / connection
// cut / stalled connection on the next extend script of a locker, external DEL or expiry of a key, delayed reply of a
// delkey script. Every context handed to the user is kept and read at the instant of server events inside the
// event sink (contexts are monotone, so "ctx.Err()==nil read after the DEL took effect" proves the context was live
// when the key was released). Events (API begin/return, server-side acquire/extend/delkey with key and token,
// expiry, external deletion, context-observed-done) are written as ndjson and judged by LockTrace.tla.
//
//	-mode scen    scenarios from -scen (ndjson, produced from TLC behaviours of Lock.tla by checks/c34.py)
//	-mode random  seeded random scenarios
//	-mode both
package main

import (
	"bufio"
	"context"
	"crypto/sha1"
	"encoding/hex"
	"encoding/json"
	"errors"
	"flag"
	"fmt"
	"math/rand"
	"os"
	"path/filepath"
	"strconv"
	"strings"
	"sync"
	"sync/atomic"
	"time"

	"github.com/redis/rueidis"
	"github.com/redis/rueidis/rueidislock"
	"verifharness/fakeredis"
	"verifharness/vh"
)

var (
	mode     = flag.String("mode", "both", "scen | random | both")
	scenFile = flag.String("scen", "", "ndjson scenarios")
	runs     = flag.Int("runs", 40, "random scenarios")
	par      = flag.Int("par", 24, "scenarios run concurrently (each has its own server)")
	traceDir = flag.String("tracedir", "", "directory for the ndjson trace")
	verbose  = flag.Bool("v", false, "print every scenario")
)

const (
	addr      = "127.0.0.1:6379"
	lockName  = "lk"
	prefix    = "rueidislock"
	majority  = 2
	totalKeys = 2*majority - 1
	validity  = 400 * time.Millisecond
	interval  = 100 * time.Millisecond
	tryNext   = 150 * time.Millisecond
)

type step struct {
	Op string `json:"op"` // acq rel fail failacq holddel slowext park cut xdel xset tryloop expire cancel sleep
	H  int    `json:"h"`
	K  int    `json:"k"`
	M  string `json:"m"` // acq: with|try|force ; fail: err|cut
	Ms int    `json:"ms"`
}

type scenario struct {
	ID      string `json:"id"`
	Lockers int    `json:"lockers"`
	NoRetry bool   `json:"noretry"`
	NoLoop  bool   `json:"noloop"`
	Steps   []step `json:"steps"`
	Class   string `json:"class"` // fault class, used in signatures
}

type tokRec struct {
	id      int
	h       int
	val     string
	ctx     context.Context
	acqOK   int
	failed  bool
	retOK   bool
	done    bool
	relUser bool
}

type fault struct {
	kind   string // err cut holddel park slowext (slowext stays armed: every extend of the locker is answered ms late)
	h, k   int
	ms     int
	used   bool
	logged bool // slowext: the Fault record was written
}

type proc struct {
	h       int
	mode    string
	src     context.Context
	cancel  context.CancelFunc // of src
	unlock  context.CancelFunc // lock's cancel
	tok     *tokRec
	state   string // pending held released failed
	heldAt  time.Time
	retErr  error
	relDone chan struct{}
}

type pendScript struct {
	key             string
	conn            int
	kind            string
	h, k            int
	tok             *tokRec
	preVal, postVal string
	preOK, postOK   bool
	live            string
	rep             fakeredis.Value
	hasRep          bool
	expInside       int // how often the key expired while the command ran
	x, tr, te       int // expiry argument, arrival and execution time (ms since the start of the scenario), -1 = none
}

type world struct {
	sc      *scenario
	srv     *fakeredis.Server
	net     *fakeredis.Network
	lockers []rueidislock.Locker
	t0      time.Time
	tr      *vh.Tracer
	rep     *vh.Report

	mu       sync.Mutex
	shaKind  map[string]string
	shaAbs   map[string]bool
	toks     map[string]*tokRec
	tokList  []*tokRec
	faults   []*fault
	pre      map[int]*pendScript // by connection: script seen by the intercept, not yet executed
	pend     *pendScript         // executed script whose event is not yet logged (consequences may precede it)
	procs    []*proc
	fired    int
	nfaults  int
	connName map[int]int
	unbound  int
	idem     map[int]map[string]bool // per key: state-preserving events already logged since the key last changed
	pushed   map[[2]int]bool         // (locker, key): an invalidation push was already logged
	holding  map[int]bool            // connection: replies are being held by a slowext fault
	beats    atomic.Int64            // 50 ms heartbeats of the driver process
}

func keyOf(k int) string { return prefix + ":" + strconv.Itoa(k) + ":" + lockName }

func keyIndex(key string) int {
	if !strings.HasPrefix(key, prefix+":") {
		return -1
	}
	rest := key[len(prefix)+1:]
	i := strings.IndexByte(rest, ':')
	if i < 0 || rest[i+1:] != lockName {
		return -1
	}
	n, err := strconv.Atoi(rest[:i])
	if err != nil {
		return -1
	}
	return n
}

func (w *world) now() int { return int(time.Since(w.t0) / time.Millisecond) }

// log writes one trace record; all records carry the same field set (TLC rejects access to a missing field).
func (w *world) log(ev string, h, tok, k int, res, live string, o []int) {
	w.logx(ev, h, tok, k, res, live, o, -1, -1, -1)
}

// logx: x = the expiry argument of a script, tr / te = when it arrived / executed (ms since the start of the scenario).
func (w *world) logx(ev string, h, tok, k int, res, live string, o []int, x, tr, te int) {
	if o == nil {
		o = []int{}
	}
	if k >= 0 && ev != "Fault" {
		// events that leave the key as it is (successful extend by the owner, refused acquire, refused delete) are
		// logged once per key state: the self-invalidation loop of a holder without NOLOOP and the retries of the
		// waiters it wakes would otherwise fill the trace with thousands of identical lines
		idem := (ev == "Ext" && res == "ok") || (ev == "Acq" && res == "no") || (ev == "Del" && res == "no")
		if idem {
			sig := fmt.Sprintf("%s/%d/%s/%d", ev, tok, res, x) // an extend with a new expiry is always logged
			if ev == "Acq" {
				sig = "Acq/no/" + strconv.Itoa(h)
			}
			if w.idem[k] == nil {
				w.idem[k] = map[string]bool{}
			}
			if w.idem[k][sig] {
				return
			}
			w.idem[k][sig] = true
		} else {
			w.idem[k] = nil
		}
	}
	w.tr.Log(ev, "h", h, "tok", tok, "k", k, "res", res, "live", live, "o", o, "t", w.now(), "x", x, "tr", tr, "te", te, "b", int(w.beats.Load()))
}

// classify tells what a lock script does from its text (the text itself is the library's).
func classify(src string) string {
	switch {
	case strings.Contains(src, `"DEL"`):
		return "del"
	case strings.Contains(src, `"PEXPIREAT"`) || strings.Contains(src, `"PEXPIRE"`):
		return "ext"
	case strings.Contains(src, `"SET"`) && strings.Contains(src, `"NX"`):
		return "acq"
	case strings.Contains(src, `"SET"`):
		return "frc"
	}
	return ""
}

// absExpiry: the script's second argument is an absolute expiry in Unix milliseconds.
func absExpiry(src string) bool {
	return strings.Contains(src, `"PXAT"`) || strings.Contains(src, `"PEXPIREAT"`)
}

func (w *world) lockerOfConn(c *fakeredis.Conn) int {
	n := c.Name()
	if strings.HasPrefix(n, "L") {
		if v, err := strconv.Atoi(n[1:]); err == nil {
			return v
		}
	}
	return 0
}

func (w *world) token(val string, h int) *tokRec {
	t := w.toks[val]
	if t == nil {
		t = &tokRec{id: len(w.tokList) + 1, h: h, val: val}
		w.toks[val] = t
		w.tokList = append(w.tokList, t)
	}
	return t
}

// intercept runs under the dispatcher mutex before a command executes.
func (w *world) intercept(c *fakeredis.Conn, argv []string) (fakeredis.Value, fakeredis.Action) {
	cmd := strings.ToUpper(argv[0])
	h := w.lockerOfConn(c)
	w.mu.Lock()
	defer w.mu.Unlock()
	// a stalled connection: the next command of locker h, whatever it is
	for _, f := range w.faults {
		if !f.used && f.kind == "park" && f.h == h && h != 0 && cmd != "HELLO" && cmd != "CLIENT" {
			f.used = true
			w.fired++
			w.log("Fault", h, 0, -1, "park", "na", nil)
			ms := f.ms
			go func() {
				time.Sleep(time.Duration(ms) * time.Millisecond)
				c.UnparkExec()
			}()
			return fakeredis.Value{}, fakeredis.Park
		}
	}
	if cmd != "EVAL" && cmd != "EVALSHA" {
		return fakeredis.Value{}, fakeredis.Pass
	}
	if len(argv) < 6 || argv[2] != "1" {
		return fakeredis.Value{}, fakeredis.Pass
	}
	sha := strings.ToLower(argv[1])
	if cmd == "EVAL" {
		sum := sha1.Sum([]byte(argv[1]))
		sha = hex.EncodeToString(sum[:])
		if _, ok := w.shaKind[sha]; !ok {
			w.shaKind[sha] = classify(argv[1])
			w.shaAbs[sha] = absExpiry(argv[1])
		}
	}
	kind := w.shaKind[sha]
	k := keyIndex(argv[3])
	if kind == "" || k < 0 {
		return fakeredis.Value{}, fakeredis.Pass
	}
	tok := w.token(argv[4], h)
	for _, f := range w.faults {
		if f.used || f.h != h {
			continue
		}
		switch {
		case kind == "ext" && f.k == k && (f.kind == "err" || f.kind == "cut"):
			f.used = true
			w.fired++
			w.log("Fault", h, tok.id, k, f.kind, "na", nil)
			if f.kind == "err" {
				return fakeredis.Err("ERR injected failure of the extend script"), fakeredis.Reply
			}
			return fakeredis.Value{}, fakeredis.CutNow
		case kind == "acq" && f.kind == "acqerr":
			f.used = true
			w.fired++
			w.log("Fault", h, tok.id, k, f.kind, "na", nil)
			return fakeredis.Err("ERR injected failure of the acquire script"), fakeredis.Reply
		case kind == "del" && f.kind == "holddel":
			f.used = true
			w.fired++
			ms := f.ms
			c.HoldReplies(true)
			go func() {
				time.Sleep(time.Duration(ms) * time.Millisecond)
				c.HoldReplies(false)
			}()
		case kind == "ext" && f.kind == "slowext":
			// the round trip of every extend of this locker takes ms longer: replies are held (the script itself runs
			// at once); scripts that arrive while the connection is held share the release
			if !f.logged {
				f.logged = true
				w.fired++
				w.log("Fault", h, 0, -1, "slowext", "na", nil)
			}
			if id := c.ID(); !w.holding[id] {
				w.holding[id] = true
				ms := f.ms
				c.HoldReplies(true)
				go func() {
					time.Sleep(time.Duration(ms) * time.Millisecond)
					w.mu.Lock()
					w.holding[id] = false
					w.mu.Unlock()
					c.HoldReplies(false)
				}()
			}
		}
	}
	x := -1
	if w.shaAbs[sha] {
		if v, err := strconv.ParseInt(argv[5], 10, 64); err == nil {
			x = int(v - w.t0.UnixMilli())
		}
	}
	tr := w.now()
	// expire what is due now, so that the expiry is logged before the script that observes it
	w.mu.Unlock()
	w.srv.ExpireNow()
	pv, _, pok := w.srv.PeekRaw(argv[3])
	w.mu.Lock()
	w.pre[c.ID()] = &pendScript{key: argv[3], conn: c.ID(), kind: kind, h: h, k: k, tok: tok, preVal: pv, preOK: pok, x: x, tr: tr, te: -1}
	return fakeredis.Value{}, fakeredis.Pass
}

func (w *world) flushPend() {
	p := w.pend
	if p == nil {
		return
	}
	w.pend = nil
	expire := func() { w.log("Expire", 0, 0, p.k, "ok", "na", nil) }
	// what the script told its caller (reply) must agree with what it did to the key (effect); "odd" otherwise.
	// p.expInside: the key expired while the command ran (lazy expiry); where the Expire record goes depends on
	// whether the command saw the key before it vanished.
	res := "no"
	switch p.kind {
	case "xdel":
		if p.expInside > 0 { // the DEL found the key expired
			expire()
		} else {
			w.log("XDel", 0, 0, p.k, "ok", "na", nil)
		}
	case "acq", "frc":
		before := p.expInside > 0 && p.preOK                      // the old value expired under the script's eyes: it found the key absent
		after := (p.expInside > 0 && !p.preOK) || p.expInside > 1 // the script stored the key with a deadline already over
		pre := p.preOK && !before
		eff := (after || (p.postOK && p.postVal == p.tok.val)) && (p.kind == "frc" || !pre)
		said := eff
		if p.hasRep {
			said = !p.rep.IsNull() && !p.rep.IsError()
		}
		if eff && said {
			res = "ok"
			p.tok.acqOK++
		} else if eff != said {
			res = "odd"
		}
		name := "Acq"
		if p.kind == "frc" {
			name = "Frc"
		}
		// a refusal although the old value expired while the script ran: the SET NX still saw it, the expiry came with
		// the script's GET, i.e. after the refusal
		late := before && res == "no"
		if before && !late {
			expire()
		}
		w.logx(name, p.h, p.tok.id, p.k, res, "na", nil, p.x, p.tr, p.te)
		if after || late {
			expire()
		}
	case "ext":
		said := p.preOK && p.preVal == p.tok.val
		if p.hasRep {
			said = p.rep.Typ == fakeredis.TInt && p.rep.Int == 1
		}
		if said {
			res = "ok"
			if !p.preOK {
				res = "odd"
			}
		} else if p.expInside > 0 {
			expire() // the script found the key expired
		}
		w.logx("Ext", p.h, p.tok.id, p.k, res, "na", nil, p.x, p.tr, p.te)
		if said && (p.expInside > 0 || !p.postOK) {
			// extended to a deadline that was (nearly) over: the key is gone again, the holder did not extend in time
			expire()
		}
	case "del":
		if p.expInside > 0 {
			expire()
		}
		eff := p.preOK && !p.postOK && p.expInside == 0
		said := eff
		if p.hasRep {
			said = p.rep.Typ == fakeredis.TInt && p.rep.Int == 1
		}
		if eff && said {
			res = "ok"
		} else if eff != said {
			res = "odd"
		}
		w.log("Del", p.h, p.tok.id, p.k, res, p.live, nil)
	}
}

// sink runs under the dispatcher mutex for every server event.
var debug = os.Getenv("LOCKDRV_DEBUG") != ""

func (w *world) sink(ev fakeredis.Event) {
	if debug && (ev.Kind == fakeredis.SExec || ev.Kind == fakeredis.SRep || ev.Kind == fakeredis.SExpire) {
		a := ev.Argv
		if len(a) > 2 && len(a[1]) > 60 {
			a = append([]string{a[0], "<script>"}, a[2:]...)
		}
		fmt.Fprintf(os.Stderr, "%s %d %s conn=%d note=%q argv=%q rep=%v/%q/%d\n", w.sc.ID, w.now(), ev.Kind, ev.Conn, ev.Note, a, ev.Reply.Null, ev.Reply.Str, ev.Reply.Int)
	}
	w.mu.Lock()
	defer w.mu.Unlock()
	if ev.Kind == fakeredis.SRep && w.pend != nil && w.pend.conn == ev.Conn {
		w.pend.rep, w.pend.hasRep = ev.Reply, true
		w.flushPend()
		return
	}
	inner := ev.Kind == fakeredis.SExpire || ev.Kind == fakeredis.SPush ||
		(ev.Kind == fakeredis.SExec && strings.HasPrefix(ev.Note, "lua"))
	if !inner {
		w.flushPend()
	}
	switch ev.Kind {
	case fakeredis.SPush:
		// an invalidation queued for a locker's connection: the first one per (locker, key) is logged
		if h := w.connName[ev.Conn]; h != 0 && ev.Reply.Typ == fakeredis.TPush && len(ev.Reply.Arr) == 2 && ev.Reply.Arr[0].Str == "invalidate" {
			for _, kv := range ev.Reply.Arr[1].Arr {
				if k := keyIndex(kv.Str); k >= 0 && !w.pushed[[2]int{h, k}] {
					w.pushed[[2]int{h, k}] = true
					w.tr.Log("Push", "h", h, "tok", 0, "k", k, "res", "ok", "live", "na", "o", []int{}, "t", w.now(), "x", -1, "tr", -1, "te", -1, "b", int(w.beats.Load()))
				}
			}
		}
	case fakeredis.SExpire:
		if p := w.pend; p != nil && p.key == ev.Argv[0] {
			p.expInside++ // logged together with the command, in the order the command saw it
			return
		}
		if k := keyIndex(ev.Argv[0]); k >= 0 {
			w.log("Expire", 0, 0, k, "ok", "na", nil)
		}
	case fakeredis.SCut, fakeredis.SClose:
		if h := w.connName[ev.Conn]; h != 0 {
			w.log("Cut", h, 0, -1, "ok", "na", nil)
		}
		delete(w.pre, ev.Conn)
	case fakeredis.SExec:
		if strings.HasPrefix(ev.Note, "lua") {
			return
		}
		cmd := strings.ToUpper(ev.Argv[0])
		if ev.Conn == 0 {
			if cmd == "DEL" && len(ev.Argv) == 2 {
				if k := keyIndex(ev.Argv[1]); k >= 0 {
					w.pend = &pendScript{key: ev.Argv[1], conn: 0, kind: "xdel", k: k, preOK: true}
				}
			}
			if cmd == "SET" && len(ev.Argv) >= 3 { // a foreign holder (third party) takes the key
				if k := keyIndex(ev.Argv[1]); k >= 0 {
					w.log("Frc", 0, w.token(ev.Argv[2], 0).id, k, "ok", "na", nil)
				}
			}
			return
		}
		if cmd == "HELLO" {
			w.mu.Unlock()
			c := w.srv.Conn(ev.Conn)
			h := w.lockerOfConn(c)
			w.mu.Lock()
			w.connName[ev.Conn] = h
			return
		}
		if cmd != "EVAL" && cmd != "EVALSHA" {
			return
		}
		p := w.pre[ev.Conn]
		delete(w.pre, ev.Conn)
		if p == nil || len(ev.Argv) < 5 || p.key != ev.Argv[3] || p.tok.val != ev.Argv[4] {
			return
		}
		w.mu.Unlock()
		pv, _, pok := w.srv.PeekRaw(ev.Argv[3])
		w.mu.Lock()
		p.postVal, p.postOK = pv, pok
		p.te = w.now()
		p.live = "unk"
		if p.kind == "del" && p.tok.ctx != nil {
			// the DEL has taken effect; a context that is still live now was live when the key was released
			if p.tok.ctx.Err() == nil {
				p.live = "live"
			} else {
				p.live = "done"
			}
		}
		w.pend = p
	}
}

func (w *world) newLocker(h int) (rueidislock.Locker, error) {
	return rueidislock.NewLocker(rueidislock.LockerOption{
		ClientOption: rueidis.ClientOption{
			InitAddress:       []string{addr},
			DialCtxFn:         w.net.DialCtxFn(),
			ForceSingleClient: true,
			ClientName:        "L" + strconv.Itoa(h),
			DisableRetry:      w.sc.NoRetry,
		},
		KeyValidity:    validity,
		ExtendInterval: interval,
		TryNextAfter:   tryNext,
		KeyMajority:    majority,
		NoLoopTracking: w.sc.NoLoop,
	})
}

func (w *world) call(p *proc) {
	l := w.lockers[p.h]
	w.mu.Lock()
	w.log("Begin", p.h, 0, -1, p.mode, "na", nil)
	w.mu.Unlock()
	var ctx context.Context
	var unlock context.CancelFunc
	var err error
	switch p.mode {
	case "with":
		ctx, unlock, err = l.WithContext(p.src, lockName)
	case "try":
		ctx, unlock, err = l.TryWithContext(p.src, lockName)
	case "force":
		ctx, unlock, err = l.ForceWithContext(p.src, lockName)
	}
	w.mu.Lock()
	defer w.mu.Unlock()
	p.retErr = err
	if err != nil {
		res := "err"
		switch {
		case errors.Is(err, rueidislock.ErrNotLocked):
			res = "notlocked"
		case errors.Is(err, context.Canceled), errors.Is(err, context.DeadlineExceeded):
			res = "cancelled"
		case errors.Is(err, rueidislock.ErrLockerClosed):
			res = "closed"
		}
		// the tokens this locker used so far without success will never be handed out
		for _, t := range w.tokList {
			if t.h == p.h && t.ctx == nil && t.acqOK < majority {
				t.failed = true
			}
		}
		p.state = "failed"
		w.log("Ret", p.h, 0, -1, res, "na", nil)
		return
	}
	// the token of the returned lock: the latest token of this locker that won a majority and is not handed out yet
	var tok *tokRec
	for i := len(w.tokList) - 1; i >= 0; i-- {
		t := w.tokList[i]
		if t.h == p.h && t.ctx == nil && !t.failed && t.acqOK >= majority {
			tok = t
			break
		}
	}
	p.unlock = unlock
	p.state = "held"
	p.heldAt = time.Now()
	if tok == nil {
		w.log("Ret", p.h, 0, -1, "ok", "na", nil)
		w.unbound++
		return
	}
	tok.ctx = ctx
	tok.retOK = true
	p.tok = tok
	// read the other handed-out contexts first, then the new one: if both reads say "live" the two were live together
	var others []int
	for _, t := range w.tokList {
		if t != tok && t.ctx != nil && t.ctx.Err() == nil {
			others = append(others, t.id)
		}
	}
	live := "live"
	if ctx.Err() != nil {
		live = "done"
		others = nil
	}
	w.log("Ret", p.h, tok.id, -1, "ok", live, others)
	go func() {
		<-ctx.Done()
		w.mu.Lock()
		tok.done = true
		w.log("Done", tok.h, tok.id, -1, "ok", "done", nil)
		w.mu.Unlock()
	}()
}

func (w *world) release(p *proc) {
	w.mu.Lock()
	if p.state != "held" {
		w.mu.Unlock()
		return
	}
	p.state = "released"
	id := 0
	if p.tok != nil {
		id = p.tok.id
		p.tok.relUser = true
	}
	w.log("Rel", p.h, id, -1, "ok", "na", nil)
	unlock := p.unlock
	w.mu.Unlock()
	p.relDone = make(chan struct{})
	go func() {
		unlock()
		close(p.relDone)
	}()
}

func (w *world) startProc(h int, m string) {
	src, cancel := context.WithCancel(context.Background())
	p := &proc{h: h, mode: m, src: src, cancel: cancel, state: "pending"}
	w.mu.Lock()
	w.procs = append(w.procs, p)
	w.mu.Unlock()
	go w.call(p)
}

func (w *world) pick(h int, state string) *proc {
	w.mu.Lock()
	defer w.mu.Unlock()
	for _, p := range w.procs {
		if p.h == h && p.state == state {
			return p
		}
	}
	return nil
}

func (w *world) arm(f *fault) {
	w.mu.Lock()
	w.faults = append(w.faults, f)
	w.nfaults++
	w.mu.Unlock()
}

func (w *world) waitFired(f *fault, d time.Duration) {
	end := time.Now().Add(d)
	for time.Now().Before(end) {
		w.mu.Lock()
		u := f.used
		w.mu.Unlock()
		if u {
			return
		}
		time.Sleep(3 * time.Millisecond)
	}
}

func (w *world) keysFree() bool {
	for k := 0; k < totalKeys; k++ {
		if _, _, ok := w.srv.PeekString(keyOf(k)); ok {
			return false
		}
	}
	return true
}

func runScenario(sc *scenario, rep *vh.Report, rng *rand.Rand) []map[string]any {
	w := &world{sc: sc, tr: &vh.Tracer{}, rep: rep, shaKind: map[string]string{}, toks: map[string]*tokRec{},
		pre: map[int]*pendScript{}, connName: map[int]int{}, idem: map[int]map[string]bool{}, shaAbs: map[string]bool{},
		pushed: map[[2]int]bool{}, holding: map[int]bool{}}
	w.srv = fakeredis.NewServer("s", fakeredis.Options{})
	w.net = fakeredis.NewNetwork()
	w.net.Add(addr, w.srv)
	w.t0 = time.Now()
	w.srv.SetIntercept(w.intercept)
	w.srv.SetEventSink(w.sink)
	w.lockers = make([]rueidislock.Locker, sc.Lockers+1)
	w.tr.Log("RESET", "h", sc.Lockers, "tok", 0, "k", -1, "res", sc.ID, "live", "na", "o", []int{}, "t", 0, "x", -1, "tr", -1, "te", -1, "b", 0)
	// heartbeat of this process: deadlines on the library's reaction are counted in beats as well as in milliseconds
	stopBeat := make(chan struct{})
	defer close(stopBeat)
	go func() {
		for {
			select {
			case <-stopBeat:
				return
			case <-time.After(50 * time.Millisecond):
				w.beats.Add(1)
			}
		}
	}()
	for h := 1; h <= sc.Lockers; h++ {
		l, err := w.newLocker(h)
		if err != nil {
			rep.Inconcl("NewLocker failed: %v", err)
			return nil
		}
		w.lockers[h] = l
	}
	jitter := func(base int) {
		time.Sleep(time.Duration(base+rng.Intn(base/2+1)) * time.Millisecond)
	}
	for _, st := range sc.Steps {
		switch st.Op {
		case "acq":
			w.startProc(st.H, st.M)
			jitter(25)
		case "acqcancel": // WithContext whose source context ends ms microseconds later
			w.startProc(st.H, "with")
			time.Sleep(time.Duration(st.Ms) * time.Microsecond)
			if p := w.pick(st.H, "pending"); p != nil {
				p.cancel()
			}
		case "rel":
			if p := w.pick(st.H, "held"); p != nil {
				w.release(p)
			}
			jitter(25)
		case "cancel":
			if p := w.pick(st.H, "pending"); p != nil {
				p.cancel()
			}
			jitter(15)
		case "fail":
			f := &fault{kind: st.M, h: st.H, k: st.K}
			w.arm(f)
			w.waitFired(f, 3*interval)
			jitter(10)
		case "failacq":
			w.arm(&fault{kind: "acqerr", h: st.H})
		case "holddel":
			ms := st.Ms
			if ms == 0 {
				ms = 150
			}
			w.arm(&fault{kind: "holddel", h: st.H, ms: ms})
		case "slowext": // from now on every extend of locker h is answered ms late
			ms := st.Ms
			if ms == 0 {
				ms = 40
			}
			w.arm(&fault{kind: "slowext", h: st.H, ms: ms})
		case "park":
			ms := st.Ms
			if ms == 0 {
				ms = int(validity/time.Millisecond) + 150
			}
			f := &fault{kind: "park", h: st.H, ms: ms}
			w.arm(f)
			w.waitFired(f, 3*interval)
			time.Sleep(time.Duration(ms) * time.Millisecond)
		case "cut":
			for _, c := range w.srv.Conns() {
				if w.lockerOfConn(c) == st.H {
					c.Cut()
				}
			}
			jitter(25)
		case "xdel":
			w.srv.Do("DEL", keyOf(st.K))
			jitter(15)
		case "xset": // a foreign holder's key (expires after ms)
			w.srv.Do("SET", keyOf(st.K), "foreign", "PX", strconv.Itoa(st.Ms))
		case "tryloop": // n back-to-back TryWithContext calls of locker h in one goroutine
			n := st.Ms
			go func(h int) {
				for i := 0; i < n; i++ {
					src, cancel := context.WithCancel(context.Background())
					p := &proc{h: h, mode: "try", src: src, cancel: cancel, state: "pending"}
					w.mu.Lock()
					w.procs = append(w.procs, p)
					w.mu.Unlock()
					w.call(p)
				}
			}(st.H)
		case "expire":
			w.srv.ExpireKeyNow(keyOf(st.K))
			jitter(15)
		case "sleep":
			time.Sleep(time.Duration(st.Ms) * time.Millisecond)
		}
	}
	// settle, then drain: everybody who holds releases after a short hold; every WithContext caller must get its turn
	time.Sleep(interval + 150*time.Millisecond)
	w.mu.Lock()
	w.faults = nil
	w.mu.Unlock()
	deadline := time.Now().Add(time.Duration(4+len(sc.Steps)) * time.Second)
	var freeSince time.Time
	stuck, hung := false, false
	probed := false
	for {
		w.mu.Lock()
		pending, held := 0, 0
		var toRel []*proc
		for _, p := range w.procs {
			switch p.state {
			case "pending":
				pending++
			case "held":
				held++
				if time.Since(p.heldAt) > 60*time.Millisecond {
					toRel = append(toRel, p)
				}
			}
		}
		w.mu.Unlock()
		for _, p := range toRel {
			w.release(p)
		}
		if pending == 0 && held == 0 {
			break
		}
		if pending > 0 && held == 0 && w.keysFree() {
			if freeSince.IsZero() {
				freeSince = time.Now()
			} else if time.Since(freeSince) > validity+2*time.Second {
				// A waiter counts as parked on a free lock only while its client demonstrably reaches the server: on a
				// starved machine the client of a locker whose connection was cut can take seconds to get through again,
				// and a waiter that cannot send its acquisition has not missed a wake-up. Every pending locker's client
				// must answer a PING, and the waiter must then stay parked for another full period.
				if !probed {
					ok := true
					w.mu.Lock()
					var hs []int
					for _, p := range w.procs {
						if p.state == "pending" {
							hs = append(hs, p.h)
						}
					}
					w.mu.Unlock()
					for _, h := range hs {
						pctx, pcancel := context.WithTimeout(context.Background(), 3*time.Second)
						cl := w.lockers[h].Client()
						if err := cl.Do(pctx, cl.B().Ping().Build()).Error(); err != nil {
							ok = false
						}
						pcancel()
					}
					if ok {
						probed = true
					}
					freeSince = time.Now()
				} else {
					stuck = true
					break
				}
			}
		} else {
			freeSince = time.Time{}
			probed = false
		}
		if time.Now().After(deadline) {
			if held == 0 {
				// nobody holds the lock from the callers' point of view, no fault is being injected any more, and a call
				// has neither returned nor acquired for seconds: it hangs
				stuck, hung = true, true
			} else {
				rep.Inconcl("scenario %s did not drain in time (pending=%d held=%d)", sc.ID, pending, held)
			}
			break
		}
		time.Sleep(5 * time.Millisecond)
	}
	if stuck {
		w.mu.Lock()
		for _, p := range w.procs {
			if p.state == "pending" {
				how := "parked" // on a free lock
				if hung {
					how = "hung"
				}
				w.log("Stuck", p.h, 0, -1, how, "na", nil)
			}
		}
		w.mu.Unlock()
	}
	// wait for the releases to complete (the cancel function returns after all keys are deleted)
	for _, p := range w.procs {
		if p.relDone != nil {
			select {
			case <-p.relDone:
			case <-time.After(validity + 2*time.Second):
				rep.Inconcl("scenario %s: unlock did not return", sc.ID)
			}
		}
	}
	time.Sleep(30 * time.Millisecond)
	w.mu.Lock()
	w.flushPend()
	w.log("End", 0, 0, -1, "ok", "na", nil)
	w.mu.Unlock()
	evs := w.tr.Events()
	for _, p := range w.procs {
		p.cancel()
	}
	for h := 1; h <= sc.Lockers; h++ {
		go w.lockers[h].Close()
	}
	time.Sleep(20 * time.Millisecond)
	w.srv.SetEventSink(nil)
	w.srv.SetIntercept(nil)
	w.srv.Close()
	return evs
}

func randomScenario(i int, rng *rand.Rand) *scenario {
	sc := &scenario{ID: fmt.Sprintf("rnd%d", i), Lockers: 2 + rng.Intn(2), NoRetry: rng.Intn(3) == 0, NoLoop: rng.Intn(2) == 0,
		Class: "random"}
	n := 4 + rng.Intn(6)
	modes := []string{"with", "with", "with", "try", "force"}
	for j := 0; j < n; j++ {
		h := 1 + rng.Intn(sc.Lockers)
		k := rng.Intn(totalKeys)
		switch r := rng.Intn(20); {
		case r < 7:
			sc.Steps = append(sc.Steps, step{Op: "acq", H: h, M: modes[rng.Intn(len(modes))]})
		case r < 10:
			sc.Steps = append(sc.Steps, step{Op: "rel", H: h})
		case r < 12:
			m := "err"
			if sc.NoRetry && rng.Intn(2) == 0 {
				m = "cut"
			}
			sc.Steps = append(sc.Steps, step{Op: "fail", H: h, K: k, M: m})
		case r < 13:
			sc.Steps = append(sc.Steps, step{Op: "holddel", H: h, Ms: 100 + rng.Intn(150)})
		case r < 15:
			sc.Steps = append(sc.Steps, step{Op: "xdel", K: k})
		case r < 16:
			sc.Steps = append(sc.Steps, step{Op: "expire", K: k})
		case r < 17:
			sc.Steps = append(sc.Steps, step{Op: "cut", H: h})
		case r < 18:
			sc.Steps = append(sc.Steps, step{Op: "park", H: h})
		case r < 19:
			if rng.Intn(2) == 0 {
				sc.Steps = append(sc.Steps, step{Op: "failacq", H: h})
			} else {
				sc.Steps = append(sc.Steps, step{Op: "cancel", H: h})
			}
		default:
			sc.Steps = append(sc.Steps, step{Op: "sleep", Ms: 20 + rng.Intn(200)})
		}
	}
	return sc
}

func main() {
	flag.Parse()
	rep := &vh.Report{Rule: "a scenario counts as non-trivial when at least one injected fault fired or at least two lockers competed for the lock"}
	var scs []*scenario
	if (*mode == "scen" || *mode == "both") && *scenFile != "" {
		f, err := os.Open(*scenFile)
		if err != nil {
			rep.Inconcl("cannot read scenarios: %v", err)
		} else {
			r := bufio.NewScanner(f)
			r.Buffer(make([]byte, 1<<20), 1<<24)
			for r.Scan() {
				if len(strings.TrimSpace(r.Text())) == 0 {
					continue
				}
				sc := &scenario{}
				if err := json.Unmarshal(r.Bytes(), sc); err != nil {
					rep.Inconcl("bad scenario line: %v", err)
					continue
				}
				scs = append(scs, sc)
			}
			f.Close()
		}
	}
	if *mode == "random" || *mode == "both" {
		rng := vh.Rng(34)
		for i := 0; i < *runs; i++ {
			scs = append(scs, randomScenario(i, rng))
		}
	}
	traces := make([][]map[string]any, len(scs))
	sem := make(chan struct{}, *par)
	var wg sync.WaitGroup
	for i, sc := range scs {
		wg.Add(1)
		sem <- struct{}{}
		go func(i int, sc *scenario) {
			defer wg.Done()
			defer func() { <-sem }()
			traces[i] = runScenario(sc, rep, vh.Rng(int64(1000+i)))
		}(i, sc)
	}
	wg.Wait()
	nontrivial := 0
	for i, tr := range traces {
		lockers := map[int]bool{}
		fired := false
		for _, e := range tr {
			if e["ev"] == "Acq" {
				lockers[e["h"].(int)] = true
			}
			if e["ev"] == "Fault" {
				fired = true
			}
		}
		if fired || len(lockers) >= 2 {
			nontrivial++
		}
		if i < 3 {
			rep.Sample(map[string]any{"scenario": scs[i], "events": len(tr)})
		}
		if *verbose {
			b, _ := json.Marshal(scs[i])
			fmt.Printf("%s -> %d events\n", b, len(tr))
		}
	}
	rep.Evaluations = len(scs)
	rep.DistinctNontrivial = nontrivial
	rep.Traces = 0 // counted by the check: traces accepted by LockTrace.tla
	if *traceDir != "" {
		if err := vh.WriteNDJSON(filepath.Join(*traceDir, "lock-traces.ndjson"), traces); err != nil {
			rep.Inconcl("cannot write traces: %v", err)
		}
		idx := make([]map[string]any, 0, len(scs))
		pos := 1
		for i, sc := range scs {
			idx = append(idx, map[string]any{"first": pos, "last": pos + len(traces[i]) - 1, "scenario": sc})
			pos += len(traces[i])
		}
		b, _ := json.Marshal(idx)
		_ = os.WriteFile(filepath.Join(*traceDir, "lock-index.json"), b, 0o644)
	}
	rep.Assumptions = []string{
		"fakeredis + luamini stand for Redis (OPTOUT tracking, invalidation on write/expiry, PXAT on the real clock)",
		"contexts are read inside the server's event sink right after a script took effect; by monotonicity a live reading proves liveness at the effect",
	}
	rep.Write(*vh.Out)
}
