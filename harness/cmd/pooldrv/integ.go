package main

import (
	"context"
	"crypto/tls"
	"fmt"
	"math/rand"
	"net"
	"sync"
	"sync/atomic"
	"time"

	"github.com/redis/rueidis"
	"verifharness/fakeredis"
	"verifharness/vh"
)

// integ: the blocking pool as the real client uses it (mux.blocking for blocking commands, Dedicated sessions),
// observed from outside: the fake server counts the connections that are open at the same time.  With
// BlockingPoolSize = cap and one pipelining connection the server must never see more than 1 + cap connections
// (C24 Bound), a dedicated session's commands must not interleave with another session's on its connection
// (C24 Exclusive), callers whose context ends while the pool is exhausted return promptly (C05), and after
// Close every call fails with ErrClosing.
func integ(rep *vh.Report) {
	for round := 0; round < 6; round++ {
		capN := 1 + round%2
		seed := vh.Seed()*7717 + int64(round)
		rng := rand.New(rand.NewSource(seed))
		srv := fakeredis.NewServer("n1", fakeredis.Options{})
		var open, maxOpen atomic.Int64
		var evMu sync.Mutex
		var events []map[string]any
		owners := map[int]string{} // server connection id -> session currently using it
		srv.SetEventSink(func(e fakeredis.Event) {
			switch e.Kind {
			case "SRecv":
				// session isolation: commands carrying a session tag "sess:<id>:<step>" as key
				if len(e.Argv) >= 2 && len(e.Argv[1]) > 5 && e.Argv[1][:5] == "sess:" {
					var id string
					var step int
					fmt.Sscanf(e.Argv[1], "sess:%s", &id)
					for i := len(id) - 1; i >= 0; i-- {
						if id[i] == ':' {
							fmt.Sscanf(id[i+1:], "%d", &step)
							id = id[:i]
							break
						}
					}
					evMu.Lock()
					if step == 0 {
						owners[e.Conn] = id
					} else if owners[e.Conn] != id {
						rep.Violate("pool-integ-session-interleaved", fmt.Sprintf("connection %d: command of session %s arrived while session %q owns it", e.Conn, id, owners[e.Conn]), nil)
					}
					if step == 9 {
						delete(owners, e.Conn)
					}
					evMu.Unlock()
				}
			}
			evMu.Lock()
			if len(events) < 400 {
				events = append(events, map[string]any{"seq": e.Seq, "kind": e.Kind, "conn": e.Conn, "argv": e.Argv})
			}
			evMu.Unlock()
		})
		fnet := fakeredis.NewNetwork()
		fnet.Add("127.0.0.1:6379", srv)
		inner := fnet.DialCtxFn()
		// connections are counted on the client side: open from the dial until the client calls Close on it (the
		// pool closes a connection, synchronously and under its lock, before it releases the slot); the server
		// notices a close later, so counting there would not be sound
		dial := func(ctx context.Context, dst string, d *net.Dialer, cfg *tls.Config) (net.Conn, error) {
			c, err := inner(ctx, dst, d, cfg)
			if err != nil {
				return nil, err
			}
			n := open.Add(1)
			for {
				m := maxOpen.Load()
				if n <= m || maxOpen.CompareAndSwap(m, n) {
					break
				}
			}
			return &countedConn{Conn: c, open: &open}, nil
		}
		client, err := rueidis.NewClient(rueidis.ClientOption{
			InitAddress: []string{"127.0.0.1:6379"}, DialCtxFn: dial, ForceSingleClient: true,
			BlockingPoolSize: capN, PipelineMultiplex: -1, DisableCache: true,
		})
		if err != nil {
			rep.Inconcl("integ: NewClient: %v", err)
			return
		}
		var wg sync.WaitGroup
		var late atomic.Int64
		nw := 4 + rng.Intn(3)
		for g := 0; g < nw; g++ {
			wg.Add(1)
			grng := rand.New(rand.NewSource(seed*53 + int64(g)))
			go func(g int) {
				defer wg.Done()
				for k := 0; k < 4; k++ {
					switch grng.Intn(3) {
					case 0: // blocking command through the pool, with a deadline that may end while waiting for a connection
						d := time.Duration(20+grng.Intn(120)) * time.Millisecond
						key := fmt.Sprintf("q%d.%d", g, k)
						pre := grng.Intn(2) == 0
						tmo := 0.05
						if pre { // the list already has an element: the reply must be exactly [key, value-of-that-key], and soon
							srv.Do("RPUSH", key, "v:"+key)
							d = 4 * time.Second
						} else if grng.Intn(3) == 0 {
							tmo = 0 // block for ever: only closing the connection gets it back when the caller gives up
						}
						var ctx context.Context
						var cancel context.CancelFunc
						if grng.Intn(2) == 0 {
							ctx, cancel = context.WithTimeout(context.Background(), d)
						} else { // manual cancellation: no deadline on the socket, the call is abandoned while its reply is pending
							ctx, cancel = context.WithCancel(context.Background())
							tm := time.AfterFunc(d, cancel)
							defer tm.Stop()
						}
						t0 := time.Now()
						res := client.Do(ctx, client.B().Blpop().Key(key).Timeout(tmo).Build())
						if el := time.Since(t0); el > d+2*time.Second {
							late.Add(1)
							rep.Violate("pool-integ-deadline-ignored", fmt.Sprintf("blocking call with a %v deadline returned after %v (pool size %d)", d, el, capN), nil)
						}
						if arr, err := res.AsStrSlice(); err == nil {
							if len(arr) != 2 || arr[0] != key || arr[1] != "v:"+key {
								rep.Violate("pool-integ-misrouted-reply", fmt.Sprintf("BLPOP %s returned %v: a connection was reused while another caller's reply was still pending on it", key, arr), nil)
							}
						} else if pre && rueidis.IsRedisNil(err) {
							rep.Violate("pool-integ-misrouted-reply", fmt.Sprintf("BLPOP %s returned nil although the list had an element", key), nil)
						} else if pre {
							rep.Violate("pool-integ-connection-not-recovered", fmt.Sprintf("BLPOP %s on a list that has an element failed with %v after %v: the pool handed out a connection on which an abandoned blocking command is still pending", key, err, time.Since(t0)), nil)
						}
						cancel()
					case 1: // dedicated session: WATCH/MULTI/EXEC with tagged keys
						id := fmt.Sprintf("g%dk%d", g, k)
						ctx, cancel := context.WithTimeout(context.Background(), 3*time.Second)
						_ = client.Dedicated(func(c rueidis.DedicatedClient) error {
							c.Do(ctx, c.B().Watch().Key("sess:"+id+":0").Build())
							time.Sleep(time.Duration(grng.Intn(2000)) * time.Microsecond)
							c.DoMulti(ctx, c.B().Multi().Build(), c.B().Set().Key("sess:"+id+":1").Value("v").Build(), c.B().Exec().Build())
							c.Do(ctx, c.B().Get().Key("sess:"+id+":9").Build())
							return nil
						})
						cancel()
					case 2: // already-cancelled context: must not consume a slot for good
						ctx, cancel := context.WithCancel(context.Background())
						cancel()
						client.Do(ctx, client.B().Blpop().Key("never").Timeout(1).Build())
					}
				}
			}(g)
		}
		done := make(chan struct{})
		go func() { wg.Wait(); close(done) }()
		select {
		case <-done:
		case <-time.After(60 * time.Second):
			rep.Violate("pool-integ-hang", fmt.Sprintf("callers of blocking commands / dedicated sessions still blocked after 60 s (pool size %d)", capN), events)
		}
		if m := maxOpen.Load(); m > int64(1+capN) {
			rep.Violate("pool-integ-bound", fmt.Sprintf("the client had %d connections open at once with BlockingPoolSize %d (+1 pipelining connection)", m, capN), events)
		}
		doubleRelease(rep, client, srv, capN, round)
		client.Close()
		before := len(fnet.Dials())
		if err := client.Do(context.Background(), client.B().Blpop().Key("x").Timeout(1).Build()).Error(); err == nil || len(fnet.Dials()) != before {
			rep.Violate("pool-integ-after-close", fmt.Sprintf("blocking call after Close: err=%v, dials %d -> %d (must fail on a closed connection without dialing)", err, before, len(fnet.Dials())), nil)
		}
		time.Sleep(20 * time.Millisecond)
		if n := open.Load(); n != 0 {
			rep.Violate("pool-integ-leak-after-close", fmt.Sprintf("%d connections still open after Close", n), events)
		}
		srv.Close()
		rep.Evaluations++
		if round == 0 {
			evMu.Lock()
			n := len(events)
			if n > 25 {
				n = 25
			}
			rep.Sample(map[string]any{"scenario": "integ", "cap": capN, "max_open": maxOpen.Load(), "events": events[:n]})
			evMu.Unlock()
		}
	}
	rep.DistinctNontrivial = rep.Evaluations
	rep.Assumptions = append(rep.Assumptions, "fakeredis stands for the server (BLPOP parks the connection, WATCH/MULTI/EXEC semantics)")
}

type countedConn struct {
	net.Conn
	open   *atomic.Int64
	closed atomic.Bool
}

func (c *countedConn) Close() error {
	if c.closed.CompareAndSwap(false, true) {
		c.open.Add(-1)
	}
	return c.Conn.Close()
}

// doubleRelease: a Dedicate() session whose release functions (cancel, cancel again, Close) overlap while the clean-up
// round trip of the first one is still waiting for the server (replies held).  The connection must go back to the pool
// exactly once: afterwards two concurrent dedicated sessions must never run on the same connection at the same time
// (with pool size 1 they have to take turns).
func doubleRelease(rep *vh.Report, client rueidis.Client, srv *fakeredis.Server, capN, round int) {
	id := fmt.Sprintf("dr%d", round)
	dc, cancel := client.Dedicate()
	cctx, ccancel := context.WithCancel(context.Background())
	dc.Do(cctx, dc.B().Get().Key("sess:"+id+":0").Build()) // a cancellable context switches the wire to pipelining
	ccancel()
	var sc *fakeredis.Conn
	for _, c := range srv.Conns() {
		for _, argv := range c.Log() {
			if len(argv) == 2 && argv[1] == "sess:"+id+":0" {
				sc = c
			}
		}
	}
	if sc == nil {
		rep.Inconcl("doubleRelease: session connection not found")
		return
	}
	dc.Do(context.Background(), dc.B().Get().Key("sess:"+id+":9").Build())
	sc.HoldReplies(true)
	var wg sync.WaitGroup
	for i := 0; i < 3; i++ {
		wg.Add(1)
		go func(i int) {
			defer wg.Done()
			if i == 2 {
				time.Sleep(5 * time.Millisecond)
			}
			cancel()
		}(i)
	}
	time.Sleep(30 * time.Millisecond)
	sc.HoldReplies(false)
	done := make(chan struct{})
	go func() { wg.Wait(); close(done) }()
	select {
	case <-done:
	case <-time.After(10 * time.Second):
		rep.Violate("pool-integ-release-hang", "releasing a dedicated client did not return within 10 s", nil)
		return
	}
	if err := dc.Do(context.Background(), dc.B().Get().Key("x").Build()).Error(); err != rueidis.ErrDedicatedClientRecycled {
		rep.Violate("pool-integ-use-after-release", fmt.Sprintf("a released dedicated client returned %v, want ErrDedicatedClientRecycled", err), nil)
	}
	// two overlapping sessions: the session monitor in the event sink reports any interleaving on one connection
	var wg2 sync.WaitGroup
	for j := 0; j < 2; j++ {
		wg2.Add(1)
		go func(j int) {
			defer wg2.Done()
			sid := fmt.Sprintf("%sx%d", id, j)
			ctx, cancel := context.WithTimeout(context.Background(), 5*time.Second)
			defer cancel()
			_ = client.Dedicated(func(c rueidis.DedicatedClient) error {
				c.Do(ctx, c.B().Watch().Key("sess:"+sid+":0").Build())
				time.Sleep(15 * time.Millisecond)
				c.Do(ctx, c.B().Get().Key("sess:"+sid+":1").Build())
				time.Sleep(5 * time.Millisecond)
				c.Do(ctx, c.B().Get().Key("sess:"+sid+":9").Build())
				return nil
			})
		}(j)
	}
	wg2.Wait()
}
