// pooldrv drives the real pool (pool.go) of redis/rueidis with stub wires:
//
//	-mode stress    seeded random schedules with yields injected at the verif hooks; writes one ndjson trace file per
//	                (cap, minsize) group for validation against spec/pool/PoolTrace.tla and evaluates the C24/C05
//	                monitors (bound, exclusivity, leak, promptness, no hang) on the real run
//	-mode lostwake  the schedule TLC finds in MC_neg_bcast (Check -> CtxCancel -> WatcherFire -> WaitEnq), forced
//	                through the real Acquire with a blocking hook at pool.acq.wait
//	-mode deadstore the schedule of MC_neg_dead (a cancelled waiter stores its placeholder; is a slot lost?)
package main

import (
	"context"
	"flag"
	"fmt"
	"math/rand"
	"path/filepath"
	"runtime"
	"sync"
	"sync/atomic"
	"time"

	"github.com/redis/rueidis"
	"verifharness/vh"
)

var (
	mode     = flag.String("mode", "stress", "stress | lostwake | deadstore | integ")
	runs     = flag.Int("runs", 100, "stress runs per group")
	traceDir = flag.String("tracedir", "", "directory for ndjson traces")
)

type run struct {
	tr     *vh.Tracer
	pool   *rueidis.VerifPool
	procs  sync.Map // goroutine id -> proc
	rng    *rand.Rand
	rngMu  sync.Mutex
	nextW  atomic.Int64
	madeMu sync.Mutex
	made   []*rueidis.VerifWire // every wire the pool's make function produced in this run
	rep    *vh.Report
	cap    int
	gateMu sync.Mutex
	gates  map[string]func(p int) // blocking gates by hook point (targeted modes)
	yield  bool
}

func (r *run) rnd(n int) int {
	r.rngMu.Lock()
	defer r.rngMu.Unlock()
	return r.rng.Intn(n)
}

func (r *run) proc() int {
	if v, ok := r.procs.Load(vh.GoID()); ok {
		return v.(int)
	}
	return 0
}

func (r *run) log(ev string, p, w int, size, idle int, down, ok bool, kind string) {
	r.tr.Log(ev, "p", p, "w", w, "size", size, "idle", idle, "down", down, "ok", ok, "kind", kind)
}

func (r *run) hook(point string, obj any, a, b int) {
	if r.pool == nil || !r.pool.Is(obj) {
		return
	}
	p := r.proc()
	if point == "pool.watch.bcast" {
		r.log(point, 0, 0, -1, -1, false, false, "")
	} else {
		size, idle, down, _ := rueidis.VerifPoolState(obj)
		r.log(point, p, 0, size, idle, down, false, "")
	}
	r.gateMu.Lock()
	g := r.gates[point]
	r.gateMu.Unlock()
	if g != nil {
		g(p)
	}
	if r.yield {
		switch x := r.rnd(100); {
		case x < 30:
			runtime.Gosched()
		case x < 40:
			time.Sleep(time.Duration(50+r.rnd(400)) * time.Microsecond)
		case x < 55 && point == "pool.acq.wait":
			time.Sleep(time.Duration(200+r.rnd(1500)) * time.Microsecond)
		}
	}
}

func (r *run) makeFn(expireProb int) func(ctx context.Context) *rueidis.VerifWire {
	return func(ctx context.Context) *rueidis.VerifWire {
		// id assignment, the bound monitor and the Made event form one critical section, so ids follow the log order
		r.madeMu.Lock()
		id := int(r.nextW.Add(1))
		w := rueidis.VerifNewWire(id)
		ok := true
		if expireProb > 0 && r.rnd(100) < expireProb {
			ok = false
			w.SetTimerExpired(true)
		}
		// C24 Bound on the real run: the pool closes a wire before it releases its slot, always under its lock, so at
		// the moment a new wire is made the wires still open (this one included) must not exceed the cap
		r.made = append(r.made, w)
		open := 0
		for _, m := range r.made {
			if m.Closed() == 0 {
				open++
			}
		}
		r.log("Made", r.proc(), id, 0, 0, false, ok, "")
		r.madeMu.Unlock()
		if down := r.poolDown(); !down && open > r.cap && r.rep != nil {
			r.rep.Violate("pool-bound-live", fmt.Sprintf("%d connections open at once with BlockingPoolSize %d", open, r.cap), r.tr.Events())
		}
		return w
	}
}

// guard turns a panic inside the pool (e.g. Close on a nil list entry) into a violation instead of killing the driver.
func (r *run) guard(rep *vh.Report, who string) {
	if e := recover(); e != nil {
		rep.Violate("pool-panic", fmt.Sprintf("%s: panic inside the pool: %v", who, e), r.tr.Events())
	}
}

func (r *run) poolDown() bool { _, _, d := r.pool.Snapshot(); return d }

func newRun(seed int64, cap, minSize, expireProb int, yield bool) *run {
	r := &run{tr: &vh.Tracer{}, rng: rand.New(rand.NewSource(seed)), cap: cap, gates: map[string]func(int){}, yield: yield}
	r.pool = rueidis.VerifNewPool(cap, 0, minSize, r.makeFn(expireProb))
	rueidis.SetVerifHook(r.hook)
	return r
}

type acqStat struct {
	P          int
	Kind       string
	CancelEnd  time.Time
	Returned   time.Time
	Cancelable bool
}

func stress(rep *vh.Report, group int, cap, minSize, nprocs int, nruns int) [][]map[string]any {
	var traces [][]map[string]any
	for i := 0; i < nruns; i++ {
		seed := vh.Seed()*7919 + int64(group)*100003 + int64(i)
		r := newRun(seed, cap, minSize, 8, true)
		r.rep = rep
		r.log("RESET", 0, 0, 0, 0, false, false, "")
		var wg sync.WaitGroup
		var held sync.Map // wire id -> proc (exclusivity monitor on the real run)
		doClose := r.rnd(100) < 30
		nacq := 2 + r.rnd(3)
		done := make(chan struct{})
		for p := 1; p <= nprocs; p++ {
			wg.Add(1)
			prng := rand.New(rand.NewSource(seed*31 + int64(p)))
			go func(p int) {
				defer wg.Done()
				defer r.guard(rep, fmt.Sprintf("acquirer %d", p))
				r.procs.Store(vh.GoID(), p)
				cancelable := p%2 == 1
				for k := 0; k < nacq; k++ {
					r.log("CtxNew", p, 0, 0, 0, false, false, "")
					ctx := context.Background()
					var cancel context.CancelFunc
					var cancelEnd atomic.Int64
					var cwg sync.WaitGroup
					if cancelable {
						ctx, cancel = context.WithCancel(ctx)
						switch x := prng.Intn(100); {
						case x < 15: // already done
							r.log("CancelBegin", p, 0, 0, 0, false, false, "")
							cancel()
							r.log("CancelEnd", p, 0, 0, 0, false, false, "")
							cancelEnd.Store(time.Now().UnixNano())
						case x < 65: // cancelled while acquiring (or after)
							d := time.Duration(prng.Intn(2500)) * time.Microsecond
							cwg.Add(1)
							go func() {
								defer cwg.Done()
								time.Sleep(d)
								r.log("CancelBegin", p, 0, 0, 0, false, false, "")
								cancel()
								r.log("CancelEnd", p, 0, 0, 0, false, false, "")
								cancelEnd.Store(time.Now().UnixNano())
							}()
						}
					}
					a := r.pool.Acquire(ctx)
					ret := time.Now()
					kind := a.Kind()
					wid := 0
					if w := a.Stub(); w != nil && kind == "wire" {
						wid = w.ID
						if prev, loaded := held.LoadOrStore(wid, p); loaded {
							rep.Violate("pool-exclusive", fmt.Sprintf("wire %d handed to proc %d while proc %v holds it", wid, p, prev), r.tr.Events())
						}
						if w.Closed() > 0 {
							rep.Violate("pool-handed-out-closed", fmt.Sprintf("wire %d handed out after Close()", wid), r.tr.Events())
						}
					}
					r.log("Ret", p, wid, 0, 0, false, false, kind)
					if ce := cancelEnd.Load(); ce != 0 {
						if lat := ret.Sub(time.Unix(0, ce)); lat > 2*time.Second {
							rep.Violate("pool-ctx-not-prompt", fmt.Sprintf("proc %d returned %v after its context ended", p, lat), r.tr.Events())
						}
					}
					// use the connection
					if kind == "wire" {
						time.Sleep(time.Duration(prng.Intn(1500)) * time.Microsecond)
						switch x := prng.Intn(100); {
						case x < 12:
							a.Stub().SetError(fmt.Errorf("broken"))
							r.log("Break", p, wid, 0, 0, false, false, "err")
						case x < 22:
							a.Stub().SetTimerExpired(true)
							r.log("Break", p, wid, 0, 0, false, false, "exp")
						}
						held.Delete(wid)
					}
					r.pool.Store(a)
					cwg.Wait()
					if cancel != nil {
						cancel()
					}
				}
			}(p)
		}
		if doClose {
			wg.Add(1)
			go func() {
				defer wg.Done()
				defer r.guard(rep, "Close")
				time.Sleep(time.Duration(r.rnd(4000)) * time.Microsecond)
				r.pool.Close()
			}()
		}
		wg.Add(1)
		go func() {
			defer wg.Done()
			defer r.guard(rep, "removeIdleConns")
			for j := 0; j < 2; j++ {
				time.Sleep(time.Duration(r.rnd(3000)) * time.Microsecond)
				r.pool.RemoveIdle()
			}
		}()
		go func() { wg.Wait(); close(done) }()
		select {
		case <-done:
		case <-time.After(10 * time.Second):
			rep.Violate("pool-hang", fmt.Sprintf("cap=%d procs=%d: goroutines still blocked 10s after start (lost wake-up or deadlock)", cap, nprocs), r.tr.Events())
			rueidis.SetVerifHook(nil)
			r.pool.Close()
			continue
		}
		rueidis.SetVerifHook(nil)
		// monitors on the finished run
		size, idle, down := r.pool.Snapshot()
		openW := 0
		r.madeMu.Lock()
		for _, w := range r.made {
			if w.Closed() == 0 {
				openW++
			}
		}
		r.madeMu.Unlock()
		if !down && (size != idle || openW != idle) {
			rep.Violate("pool-accounting", fmt.Sprintf("quiescent pool: size=%d idle=%d open wires=%d (cap %d)", size, idle, openW, cap), r.tr.Events())
		}
		if down && openW > 0 {
			// wires still in the list at Close are closed by Close; wires stored later are closed by Store
			rep.Violate("pool-leak-after-close", fmt.Sprintf("%d wires left open after Close and all Stores", openW), r.tr.Events())
		}
		if !down && size > cap {
			rep.Violate("pool-bound", fmt.Sprintf("size=%d > cap=%d", size, cap), r.tr.Events())
		}
		rep.Evaluations++
		ev := r.tr.Events()
		traces = append(traces, ev)
		if i == 0 {
			rep.Sample(map[string]any{"cap": cap, "minsize": minSize, "procs": nprocs, "events": trim(ev, 40)})
		}
	}
	return traces
}

func trim(ev []map[string]any, n int) []map[string]any {
	if len(ev) > n {
		return ev[:n]
	}
	return ev
}

func lostwake(rep *vh.Report) {
	for i := 0; i < 3; i++ {
		r := newRun(vh.Seed()+int64(i), 1, 0, 0, false)
		r.log("RESET", 0, 0, 0, 0, false, false, "")
		r.procs.Store(vh.GoID(), 1)
		a1 := r.pool.Acquire(context.Background()) // proc 1 keeps the only wire
		atWait := make(chan struct{}, 1)
		bcast := make(chan struct{}, 1)
		r.gateMu.Lock()
		r.gates["pool.acq.wait"] = func(p int) {
			if p != 3 {
				return
			}
			select {
			case atWait <- struct{}{}:
			default:
			}
			select { // hold the waiter between the loop condition and cond.Wait until the watcher has broadcast
			case <-bcast:
			case <-time.After(300 * time.Millisecond):
			}
		}
		r.gates["pool.watch.bcast"] = func(int) {
			select {
			case bcast <- struct{}{}:
			default:
			}
		}
		r.gateMu.Unlock()
		ctx, cancel := context.WithCancel(context.Background())
		ret := make(chan string, 1)
		go func() {
			r.procs.Store(vh.GoID(), 3)
			a := r.pool.Acquire(ctx)
			ret <- a.Kind()
			r.pool.Store(a)
		}()
		<-atWait
		cancel()
		t0 := time.Now()
		select {
		case k := <-ret:
			if k != "ctxdead" {
				rep.Violate("pool-cancelled-waiter-got-"+k, "a waiter whose context ended did not get the context error", r.tr.Events())
			}
		case <-time.After(3 * time.Second):
			rep.Violate("pool-lost-wakeup", fmt.Sprintf("waiter still parked %v after its context ended (the only wire stays checked out); schedule Check -> CtxCancel -> WatcherFire -> WaitEnq", time.Since(t0)), r.tr.Events())
			r.pool.Store(a1)
			<-ret
			rueidis.SetVerifHook(nil)
			rep.Evaluations++
			continue
		}
		r.pool.Store(a1)
		rueidis.SetVerifHook(nil)
		rep.Evaluations++
		rep.Sample(map[string]any{"scenario": "lostwake", "events": trim(r.tr.Events(), 30)})
	}
}

func deadstore(rep *vh.Report) {
	r := newRun(vh.Seed(), 1, 0, 0, false)
	r.log("RESET", 0, 0, 0, 0, false, false, "")
	r.procs.Store(vh.GoID(), 1)
	a1 := r.pool.Acquire(context.Background()) // the only wire stays checked out
	for k := 0; k < 3; k++ {
		ctx, cancel := context.WithCancel(context.Background())
		ret := make(chan struct{})
		go func() {
			r.procs.Store(vh.GoID(), 3)
			a := r.pool.Acquire(ctx)
			r.pool.Store(a) // what mux.blocking does with whatever Acquire returned
			close(ret)
		}()
		time.Sleep(20 * time.Millisecond)
		cancel()
		select {
		case <-ret:
		case <-time.After(3 * time.Second):
			rep.Inconcl("deadstore: cancelled waiter did not return")
			return
		}
	}
	// now a live acquirer must wait: the pool is full (cap 1, wire 1 checked out)
	got := make(chan string, 1)
	go func() {
		r.procs.Store(vh.GoID(), 5)
		a := r.pool.Acquire(context.Background())
		got <- a.Kind()
		r.pool.Store(a)
	}()
	select {
	case <-got:
		size, idle, _ := r.pool.Snapshot()
		rep.Violate("pool-bound-after-cancelled-waiter", fmt.Sprintf("cap=1 and wire 1 still checked out, yet a second connection was made after cancelled waiters stored their placeholders (wires made=%d size=%d idle=%d)", r.nextW.Load(), size, idle), r.tr.Events())
	case <-time.After(300 * time.Millisecond):
	}
	r.pool.Store(a1)
	select {
	case <-got:
	case <-time.After(3 * time.Second):
	}
	rueidis.SetVerifHook(nil)
	rep.Evaluations++
	rep.Sample(map[string]any{"scenario": "deadstore", "events": trim(r.tr.Events(), 40)})
}

func main() {
	flag.Parse()
	rep := &vh.Report{Rule: "pool runs: (cap, minsize, procs) group x seeded random schedule with yields at hook points; a run is non-trivial when at least one acquirer had to wait (pool.acq.wait event); distinct by event-name sequence"}
	switch *mode {
	case "stress":
		groups := []struct{ cap, min, procs int }{{1, 0, 3}, {2, 1, 5}, {2, 0, 4}, {3, 1, 6}}
		distinct := map[string]bool{}
		for gi, g := range groups {
			traces := stress(rep, gi, g.cap, g.min, g.procs, *runs)
			for _, t := range traces {
				waited := false
				key := ""
				for _, e := range t {
					if e["ev"] == "pool.acq.wait" {
						waited = true
					}
					key += e["ev"].(string)[len(e["ev"].(string))-3:] + fmt.Sprint(e["p"])
				}
				if waited {
					distinct[key] = true
				}
			}
			if *traceDir != "" {
				name := fmt.Sprintf("pool-cap%d-min%d-procs%d.ndjson", g.cap, g.min, g.procs)
				if err := vh.WriteNDJSON(filepath.Join(*traceDir, name), traces); err != nil {
					rep.Inconcl("write trace: %v", err)
				}
			}
			rep.Traces += len(traces)
		}
		rep.DistinctNontrivial = len(distinct)
	case "lostwake":
		lostwake(rep)
		rep.DistinctNontrivial = rep.Evaluations
	case "deadstore":
		deadstore(rep)
		rep.DistinctNontrivial = rep.Evaluations
	case "integ":
		integ(rep)
	}
	rep.Write(*vh.Out)
}
