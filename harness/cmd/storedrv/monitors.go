package main

import (
	"fmt"
	"strings"
	"sync"

	"github.com/redis/rueidis"
)

// mapCache is the SimpleCache the adapter is wrapped around in this harness: a plain map (no bound, no eviction).
type mapCache struct {
	mu sync.Mutex
	m  map[string]rueidis.RedisMessage
	id map[string]pair // key+cmd -> (key, cmd), filled by the harness (the adapter only sees the concatenation)
}

func newMapCache() *mapCache {
	return &mapCache{m: map[string]rueidis.RedisMessage{}, id: map[string]pair{}}
}
func (c *mapCache) Get(key string) rueidis.RedisMessage {
	c.mu.Lock()
	defer c.mu.Unlock()
	return c.m[key]
}
func (c *mapCache) Set(key string, val rueidis.RedisMessage) {
	c.mu.Lock()
	c.m[key] = val
	c.mu.Unlock()
}
func (c *mapCache) Del(key string) { c.mu.Lock(); delete(c.m, key); c.mu.Unlock() }
func (c *mapCache) Flush() {
	c.mu.Lock()
	c.m = map[string]rueidis.RedisMessage{}
	c.mu.Unlock()
}
func (c *mapCache) learn(k, cmd string) { c.mu.Lock(); c.id[k+cmd] = pair{k, cmd}; c.mu.Unlock() }
func (c *mapCache) dump() map[pair]rueidis.RedisMessage {
	c.mu.Lock()
	defer c.mu.Unlock()
	out := map[pair]rueidis.RedisMessage{}
	for k, v := range c.m {
		if id, ok := c.id[k]; ok {
			out[id] = v
		} else {
			out[pair{k, "?"}] = v
		}
	}
	return out
}

func touched(in In) map[pair]bool {
	t := map[pair]bool{}
	for _, it := range in.Items {
		t[pair{it.K, it.C}] = true
	}
	if in.K != "" {
		t[pair{in.K, in.C}] = true
	}
	return t
}

func inKeys(in In, k string) bool {
	if in.Op == "DeleteAll" {
		return true
	}
	for _, x := range in.Ks {
		if x == k {
			return true
		}
	}
	return false
}

// monitors evaluates the properties on the real store itself: pre and post are real snapshots around one real call
// (for a Flight call parked at a hook: around one of its critical sections).  Nothing here uses a prediction.
func (r *runner) monitors(in In, pre, post snap, ob *obs) {
	if r.failed {
		return
	}
	op := in.Op
	after := " after=" + op
	tch := touched(in)
	if r.kind == "lru" {
		// C10 SizeIsSumOfDone
		if !post.closed {
			sum := 0
			for _, e := range post.entries {
				if e.pending && e.size != 0 {
					r.violate("monitor=pending-entry-has-size"+after, fmt.Sprintf("pending entry (%s,%s) is accounted with %d bytes", e.k, e.c, e.size))
					return
				}
				if !e.pending {
					sum += e.size
				}
			}
			if sum != post.size {
				r.violate("monitor=size-not-sum-of-completed"+after, fmt.Sprintf("lru.size=%d but the completed entries retained add up to %d bytes", post.size, sum))
				return
			}
		}
		// C10 SizeWithinMax
		if post.size > post.max {
			r.violate("monitor=size-above-max"+after, fmt.Sprintf("lru.size=%d > CacheSizeEachConn=%d when %s returned (%d entries retained)", post.size, post.max, op, len(post.entries)))
			return
		}
		// list and maps describe the same entries
		bad := post.mapEntries != len(post.entries) || post.emptyKeys != 0
		for _, e := range post.entries {
			bad = bad || !e.inMap || !e.keyOK
		}
		if bad && !post.closed {
			r.violate("monitor=list-and-maps-disagree"+after, fmt.Sprintf("%d list elements, %d map registrations, %d empty keys", len(post.entries), post.mapEntries, post.emptyKeys))
			return
		}
	}
	// PendingNeverEvicted: a flight leaves only through its own Update / Cancel, or Close
	for _, e := range pre.entries {
		if !e.pending {
			continue
		}
		if pe := post.find(e.k, e.c); pe == nil || !pe.pending {
			own := (op == "Update" || op == "Cancel") && in.K == e.k && in.C == e.c
			if !own && op != "Close" {
				r.violate("monitor=pending-entry-lost"+after, fmt.Sprintf("the pending flight (%s,%s) disappeared during %s", e.k, e.c, inString(in)))
				return
			}
		}
	}
	if r.kind == "lru" {
		// completed entries leave only by eviction in Update, invalidation, Close, or replacement once expired
		var doneSeq []snapEntry // completed entries as the eviction loop of Update sees them, in list order
		for _, e := range pre.entries {
			if e.done || (op == "Update" && e.pending && e.k == in.K && e.c == in.C) {
				doneSeq = append(doneSeq, e)
			}
		}
		var gone []int
		for i, e := range doneSeq {
			pe := post.find(e.k, e.c)
			lost := pe == nil || (e.done && pe.pending)
			if !lost {
				if e.done && (pe.size != e.size || pe.expireAt != e.expireAt) {
					r.violate("monitor=completed-entry-changed"+after, fmt.Sprintf("(%s,%s) size %d->%d expiry %d->%d", e.k, e.c, e.size, pe.size, e.expireAt, pe.expireAt))
					return
				}
				continue
			}
			switch {
			case op == "Update":
				gone = append(gone, i)
			case (op == "Delete" || op == "DeleteAll") && inKeys(in, e.k), op == "Close":
			case tch[pair{e.k, e.c}] && e.expireAt <= r.tickMs(in.At) && strings.HasPrefix(op, "Flight"):
			default:
				r.violate("monitor=completed-entry-lost"+after, fmt.Sprintf("the completed entry (%s,%s) disappeared during %s", e.k, e.c, inString(in)))
				return
			}
		}
		if op == "Update" {
			// C10 EvictedIsLruPrefix, and no more than necessary
			for n, i := range gone {
				if i != n {
					r.violate("monitor=evicted-not-lru-prefix"+after, fmt.Sprintf("Update evicted (%s,%s) but kept the less recently used completed entry (%s,%s)",
						doneSeq[i].k, doneSeq[i].c, doneSeq[n].k, doneSeq[n].c))
					return
				}
			}
			if len(gone) > 0 {
				last := doneSeq[gone[len(gone)-1]]
				sz := last.size
				if last.pending {
					sz = in.Sz * r.unit
				}
				if post.size+sz <= post.max {
					r.violate("monitor=evicted-more-than-needed"+after, fmt.Sprintf("size was already %d <= %d before (%s,%s) was evicted", post.size+sz, post.max, last.k, last.c))
					return
				}
			}
		}
		// LRU order of the entries the call did not touch is unchanged
		var a, b []pair
		for _, e := range pre.entries {
			if pe := post.find(e.k, e.c); pe != nil && !tch[pair{e.k, e.c}] {
				a = append(a, pair{e.k, e.c})
			}
		}
		for _, e := range post.entries {
			if pe := pre.find(e.k, e.c); pe != nil && !tch[pair{e.k, e.c}] {
				b = append(b, pair{e.k, e.c})
			}
		}
		for i := range a {
			if i >= len(b) || a[i] != b[i] {
				r.violate("monitor=order-of-untouched-entries-changed"+after, fmt.Sprintf("before %v after %v", a, b))
				return
			}
		}
	}
	// C07 NoHitAtOrAfterExpiry, and the hit reports the expiry the store holds
	if ob != nil {
		for i, res := range ob.res {
			if res.R != "hit" || i >= len(in.Items) {
				continue
			}
			it := in.Items[i]
			raw := ob.rawHit[i]
			if raw.ExpireAt <= r.tickMs(in.At) {
				r.violate("monitor=hit-at-or-after-expiry"+after, fmt.Sprintf("Flight(%s,%s) at %d ms returned a hit whose expiry is %d ms (%d ms earlier)", it.K, it.C, r.tickMs(in.At), raw.ExpireAt, r.tickMs(in.At)-raw.ExpireAt))
				return
			}
			if !raw.CacheHit {
				r.violate("monitor=hit-not-marked-as-cache-hit"+after, fmt.Sprintf("Flight(%s,%s) returned a stored reply without the cache mark", it.K, it.C))
				return
			}
		}
	}
	// C07 ExpiryIsMin on the real entry: earlier of the flight's client expiry and the server expiry of the reply
	if op == "Update" {
		if pe := pre.find(in.K, in.C); pe != nil && pe.pending && ob != nil && len(ob.rawHit) == 1 {
			client := pe.expireAt
			if r.kind == "adapter" {
				client = pe.fxat
			}
			want := client
			if in.Srv >= 0 {
				if sx := r.tickMs(in.At) + int64(in.Srv)*tickMs; sx < want {
					want = sx
				}
			}
			got := ob.rawHit[0].ExpireAt
			if got != want {
				r.violate("monitor=expiry-not-min-of-client-and-server"+after, fmt.Sprintf("Update(%s,%s) returned expiry %d ms; client expiry %d ms, server ttl %d ticks at %d ms: earlier one is %d ms (off by %d ms)",
					in.K, in.C, got, client, in.Srv, r.tickMs(in.At), want, got-want))
				return
			}
			if ne := post.find(in.K, in.C); ne != nil && ne.done && ne.expireAt != want {
				r.violate("monitor=stored-expiry-not-min-of-client-and-server"+after, fmt.Sprintf("(%s,%s) stored with expiry %d ms, the earlier of client and server expiry is %d ms", in.K, in.C, ne.expireAt, want))
				return
			}
		}
	}
}

// trackFlights follows the flights of the real store through the snapshots around one call, attributes the
// CacheEntry handles the call returned to the flight they were taken from, and checks WaitersGetFlightOutcome on the
// real store: every handle resolves exactly when its flight ends, with the reply of the Update (or the error of the
// Cancel / Close) that ended it.
func (r *runner) trackFlights(in In, pre, post snap, ob *obs, atRead map[pair]*flightRec) {
	// flights ending / beginning in this call
	for _, e := range pre.entries {
		if !e.pending {
			continue
		}
		if pe := post.find(e.k, e.c); pe == nil || !pe.pending {
			if rec := r.flights[pair{e.k, e.c}]; rec != nil {
				rec.ended, rec.endedBy, rec.how = true, in.Op, "lost"
				own := in.K == e.k && in.C == e.c
				switch {
				case in.Op == "Update" && own && ob != nil && len(ob.rawHit) == 1:
					rec.how, rec.tag, rec.pxat = "val", ob.rawHit[0].Tag, ob.rawHit[0].ExpireAt
				case in.Op == "Cancel" && own, in.Op == "Close":
					rec.how, rec.errStep = "err", len(r.applied)
				}
				delete(r.flights, pair{e.k, e.c})
			}
		}
	}
	for _, e := range post.entries {
		if !e.pending {
			continue
		}
		if pe := pre.find(e.k, e.c); pe == nil || !pe.pending {
			r.flights[pair{e.k, e.c}] = &flightRec{id: pair{e.k, e.c}}
		}
	}
	if r.failed {
		return
	}
	// handles returned by this call: the look-up under the read lock hands out the flight pending at that moment,
	// the slow path the flight pending (possibly just created by another caller) when it runs
	if ob != nil {
		for _, w := range ob.waits {
			rec := atRead[w.id]
			if rec == nil {
				rec = r.flights[w.id]
			}
			if rec == nil {
				r.violate("monitor=wait-on-no-flight after="+in.Op, fmt.Sprintf("Flight(%s,%s) returned a CacheEntry but no flight was pending", w.id.k, w.id.c))
				return
			}
			r.handles = append(r.handles, handle{ce: w.ce, rec: rec})
		}
	}
	keep := r.handles[:0]
	for _, h := range r.handles {
		resolved, m, err := probe(h.ce)
		id := h.rec.id
		switch {
		case !h.rec.ended && resolved:
			r.violate("monitor=waiter-woken-while-flight-pending after="+in.Op, fmt.Sprintf("(%s,%s) err=%v", id.k, id.c, err))
			return
		case !h.rec.ended:
			keep = append(keep, h)
		case !resolved:
			r.violate("monitor=waiter-never-woken after="+h.rec.endedBy, fmt.Sprintf("the flight (%s,%s) ended during %s but its waiter is still blocked", id.k, id.c, h.rec.endedBy))
			return
		default:
			mi := rueidis.VerifMsgInfo(m)
			switch h.rec.how {
			case "val":
				if err != nil || mi.Tag != h.rec.tag || mi.ExpireAt != h.rec.pxat || !mi.CacheHit {
					r.violate("monitor=waiter-got-other-outcome after=Update", fmt.Sprintf("(%s,%s): waiter got tag %q expiry %d err %v, the Update stored tag %q expiry %d",
						id.k, id.c, mi.Tag, mi.ExpireAt, err, h.rec.tag, h.rec.pxat))
					return
				}
			case "err":
				if se, ok := err.(*stepError); !ok || se.n != h.rec.errStep {
					r.violate("monitor=waiter-got-other-outcome after="+h.rec.endedBy, fmt.Sprintf("(%s,%s): waiter got (%v, typ %d), expected the error passed to %s", id.k, id.c, err, mi.Typ, h.rec.endedBy))
					return
				}
			}
		}
	}
	r.handles = keep
}

// compare checks the real store against the abstract state and results TLC predicts for this step.
func (r *runner) compare(st Step, post snap, ob *obs) {
	if r.failed {
		return
	}
	op := st.O.Op
	div := func(field, what string) {
		r.violate("diverges="+field+" op="+op, "real store differs from the specification's prediction: "+what)
	}
	if ob.note != "" {
		div("call", ob.note)
		return
	}
	if got := r.parkedAt(); got != st.S.Ph {
		div("section", fmt.Sprintf("the specification has the Flight call at %q, the real call is at %q", st.S.Ph, got))
		return
	}
	// results
	if len(ob.res) != len(st.O.Res) {
		div("results", fmt.Sprintf("predicted %v, got %v", st.O.Res, ob.res))
		return
	}
	for i := range ob.res {
		if ob.res[i] != st.O.Res[i] {
			f := "result"
			if ob.res[i].R == st.O.Res[i].R {
				f = "hit-expiry"
				if ob.res[i].Exp == st.O.Res[i].Exp {
					f = "hit-size"
				}
			}
			div(f, fmt.Sprintf("position %d (%s,%s): predicted %+v, got %+v", i, st.O.Items[i].K, st.O.Items[i].C, st.O.Res[i], ob.res[i]))
			return
		}
	}
	if op == "Update" && ob.pxat != st.O.Pxat {
		div("returned-expiry", fmt.Sprintf("Update(%s,%s) returned expiry tick %d, predicted %d", st.O.K, st.O.C, ob.pxat, st.O.Pxat))
		return
	}
	if op == "GetTTL" && ob.ttlr != st.O.Ttlr {
		div("ttl", fmt.Sprintf("GetTTL(%s,%s) = %d ticks, predicted %d", st.O.K, st.O.C, ob.ttlr, st.O.Ttlr))
		return
	}
	// state
	if post.closed != st.S.Closed {
		div("closed", fmt.Sprintf("predicted %v got %v", st.S.Closed, post.closed))
		return
	}
	if r.kind == "lru" {
		if u := r.units(post.size); u != st.S.Size {
			div("size", fmt.Sprintf("predicted size %d units, real size %d bytes = %d units of %d", st.S.Size, post.size, u, r.unit))
			return
		}
		if len(post.entries) != len(st.S.Lst) {
			div("entries", fmt.Sprintf("predicted list %v, real list %s", st.S.Lst, listString(post)))
			return
		}
		for i, e := range post.entries {
			if st.S.Lst[i][0] != e.k || st.S.Lst[i][1] != e.c {
				set := map[pair]bool{}
				for _, p := range st.S.Lst {
					set[pair{p[0], p[1]}] = true
				}
				f := "lru-order"
				for _, x := range post.entries {
					if !set[pair{x.k, x.c}] {
						f = "entries"
					}
				}
				div(f, fmt.Sprintf("predicted list %v, real list %s", st.S.Lst, listString(post)))
				return
			}
		}
		for _, e := range post.entries {
			p := st.S.Store[e.k][e.c]
			var got EntryS
			if e.pending {
				got = EntryS{St: "pending", Exp: r.msTick(e.expireAt)}
			} else {
				got = EntryS{St: "done", Exp: r.msTick(e.expireAt), Sz: r.units(e.size)}
			}
			if got != p {
				f := "entry-state"
				if got.St == p.St {
					f = "entry-expiry"
					if got.Exp == p.Exp {
						f = "entry-size"
					}
				}
				div(f, fmt.Sprintf("(%s,%s): predicted %+v, real %+v (expireAt %d ms, %d bytes)", e.k, e.c, p, got, e.expireAt, e.size))
				return
			}
		}
		for k, h := range st.S.Hits {
			if got := int(post.hits[k]) % r.every; got != h {
				div("hits", fmt.Sprintf("key %s: predicted %d, real %d (mod %d)", k, h, got, r.every))
				return
			}
		}
		return
	}
	// adapter: cached values and flight registrations
	seen := map[pair]bool{}
	for _, e := range post.entries {
		seen[pair{e.k, e.c}] = true
		p, ok := st.S.Store[e.k][e.c]
		if !ok {
			div("entries", fmt.Sprintf("real adapter knows (%s,%s), the specification does not", e.k, e.c))
			return
		}
		got := EntryS{St: "none", F: "absent"}
		if e.done {
			got.St, got.Exp, got.Sz = "done", r.msTick(e.expireAt), r.szOfMsg(e.k, e.c, rueidis.VerifMsg{PayloadLen: e.payload})
		}
		if e.pending {
			got.F, got.Fexp = "pending", r.msTick(e.fxat)
		} else if e.marker {
			got.F = "marker"
		}
		if got != p {
			f := "entry-state"
			if got.St == p.St && got.F == p.F {
				f = "entry-expiry"
			}
			div(f, fmt.Sprintf("(%s,%s): predicted %+v, real %+v", e.k, e.c, p, got))
			return
		}
	}
	for k, m := range st.S.Store {
		for c, p := range m {
			if !seen[pair{k, c}] && (p.St != "none" || p.F != "absent") {
				div("entries", fmt.Sprintf("the specification has (%s,%s) = %+v, the real adapter has nothing", k, c, p))
				return
			}
		}
	}
}

func listString(s snap) string {
	out := "["
	for i, e := range s.entries {
		if i > 0 {
			out += " "
		}
		st := "done"
		if e.pending {
			st = "pending"
		}
		out += fmt.Sprintf("(%s,%s %s %dB)", e.k, e.c, st, e.size)
	}
	return out + "]"
}
