package main

import (
	"context"
	"encoding/json"
	"fmt"
	"path/filepath"
	"strings"
	"sync"
	"sync/atomic"
	"time"

	"github.com/redis/rueidis"
	"verifharness/fakeredis"
	"verifharness/vh"
)

// fillMode (spec -> code, C07 between the store and the server): every case printed by spec/cache/CacheFill.tla is one
// call of the real client (DoCache / DoMultiCache / DoCache(MGET)) over fakeredis.  The server's PTTL answers are
// scripted per key name (fakeredis ext_store2: SetPTTLScript) with the value CacheFill gives the key state of the case,
// so that the answers 0, 1, "small", exactly the client ttl, -1 and -2 are produced deterministically.
//
//   - the commands the real client put on the wire for the call (SRecv events of the server) are turned into the tokens
//     of CacheFill.tla (optin, multi, pttl:<item>:<argument position the probe names>, cmd:<item>, mget:<n>, exec) and
//     compared with the predicted wire;
//   - hit / filled and nil / value per item are compared with the prediction;
//   - every result is logged with clock readings around the call (same record layout as mode e2e, mode = "scripted",
//     srvP = the PTTL of the key the command reads, static = "the batch is on the static-TTL path" as predicted);
//     CacheTtlObs.tla decides about the reported expiries and about hits after the expiry.
type fillCase struct {
	Store      string `json:"store"`
	Call       string `json:"call"`
	Ttl        int64  `json:"ttl"`
	StaticPath bool   `json:"staticpath"`
	Items      []struct {
		Shape  string `json:"shape"`
		Static bool   `json:"static"`
		Srv    string `json:"srv"`
		Cached bool   `json:"cached"`
		Keypos int    `json:"keypos"`
		Pttl   int64  `json:"pttl"`
		Isnil  bool   `json:"isnil"`
	} `json:"items"`
	Wire []string `json:"wire"`
	Fill []struct {
		How    string `json:"how"`
		Server int64  `json:"server"`
	} `json:"fill"`
}

func (c *fillCase) class() string {
	sh := make([]string, len(c.Items))
	for i, it := range c.Items {
		sh[i] = it.Shape
		if it.Static {
			sh[i] += "/static"
		}
		if it.Cached {
			sh[i] += "/cached"
		}
	}
	return fmt.Sprintf("store=%s call=%s items=%s", c.Store, c.Call, strings.Join(sh, "+"))
}

type fillEnv struct {
	store  string
	client rueidis.Client
	srv    *fakeredis.Server
	mu     sync.Mutex
	pttl   map[string]int64
	recv   [][]string
}

func newFillEnv(store string) (*fillEnv, error) {
	// one connection: the mux would otherwise split a batch by key slot over four connections (each with its own store and
	// its own all-or-nothing decision about the static-TTL path), and the order of the parts on the wire would be open
	client, srv, err := e2eClientMux(store, -1)
	if err != nil {
		return nil, err
	}
	e := &fillEnv{store: store, client: client, srv: srv, pttl: map[string]int64{}}
	if err := shapeServer(srv); err != nil {
		return nil, err
	}
	srv.SetPTTLScript(func(key string, real int64) int64 {
		e.mu.Lock()
		defer e.mu.Unlock()
		if v, ok := e.pttl[key]; ok {
			return v
		}
		return real
	})
	srv.SetEventSink(func(ev fakeredis.Event) {
		if ev.Kind == fakeredis.SRecv && ev.Conn != 0 {
			e.mu.Lock()
			e.recv = append(e.recv, append([]string(nil), ev.Argv...))
			e.mu.Unlock()
		}
	})
	return e, nil
}

func (e *fillEnv) close() {
	e.client.Close()
	e.srv.Close()
	e.srv.ForgetExt2()
}

func (e *fillEnv) mark() int {
	e.mu.Lock()
	defer e.mu.Unlock()
	return len(e.recv)
}

func (e *fillEnv) since(m int) [][]string {
	e.mu.Lock()
	defer e.mu.Unlock()
	return append([][]string(nil), e.recv[m:]...)
}

func sameArgv(a, b []string) bool {
	if len(a) != len(b) {
		return false
	}
	for i := range a {
		if a[i] != b[i] {
			return false
		}
	}
	return true
}

func short(s string) string {
	if len(s) > 24 {
		return s[:24] + "~"
	}
	return s
}

// tokens turns the commands the server received into the wire tokens of CacheFill.tla.
func fillTokens(c *fillCase, keys []string, cmdsSeen [][]string) []string {
	argvOf := func(i int) []string {
		if c.Items[i].Shape == "mgetkey" {
			return []string{"MGET", keys[i]}
		}
		return shapeArgv(c.Items[i].Shape, keys[i])
	}
	var missed []string
	for i, it := range c.Items {
		if !it.Cached {
			missed = append(missed, keys[i])
		}
	}
	cmdItem := make([]int, len(cmdsSeen)) // index of the item a command is, -1 otherwise
	for j, a := range cmdsSeen {
		cmdItem[j] = -1
		if c.Call == "mget" {
			continue
		}
		for i := range c.Items {
			if sameArgv(a, argvOf(i)) {
				cmdItem[j] = i
			}
		}
	}
	var out []string
	for j, a := range cmdsSeen {
		up := strings.ToUpper(a[0])
		switch {
		case up == "PING" || up == "HELLO" || up == "AUTH" || up == "SELECT" || (up == "CLIENT" && len(a) > 1 && !strings.EqualFold(a[1], "CACHING")):
			// keep-alive and connection set-up are not part of the call
		case up == "CLIENT" && len(a) == 3 && strings.EqualFold(a[1], "CACHING") && strings.EqualFold(a[2], "YES"):
			out = append(out, "optin")
		case up == "MULTI":
			out = append(out, "multi")
		case up == "EXEC":
			out = append(out, "exec")
		case up == "PTTL" && len(a) == 2:
			tok := "pttl:?:" + short(a[1])
			if c.Call == "mget" {
				for i := range keys {
					if keys[i] == a[1] {
						tok = fmt.Sprintf("pttl:%d:1", i+1)
					}
				}
			} else {
				// the probe goes with the next command of the call; which of its arguments does it name?
				for n := j + 1; n < len(cmdsSeen); n++ {
					if i := cmdItem[n]; i >= 0 {
						for pos, arg := range argvOf(i) {
							if pos > 0 && arg == a[1] {
								tok = fmt.Sprintf("pttl:%d:%d", i+1, pos)
								break
							}
						}
						break
					}
				}
			}
			out = append(out, tok)
		case up == "MGET" && c.Call == "mget":
			if sameArgv(a[1:], missed) {
				out = append(out, fmt.Sprintf("mget:%d", len(missed)))
			} else {
				out = append(out, "mget:?"+short(strings.Join(a[1:], ",")))
			}
		case cmdItem[j] >= 0:
			out = append(out, fmt.Sprintf("cmd:%d", cmdItem[j]+1))
		default:
			out = append(out, "other:"+short(strings.Join(a, " ")))
		}
	}
	return out
}

// fillStalls counts calls that did not return within fillCallTimeout; after a few of them the remaining cases are skipped
// (a client that hangs would otherwise cost that time-out once per case and worker).
var fillStalls atomic.Int32

const fillCallTimeout = 30 * time.Second

type fillRes struct {
	ci    cacheInfo
	isNil bool
	val   string
}

func fillMode(rep *vh.Report) {
	base := time.Now().UnixMilli()
	ms := func() int64 { return time.Now().UnixMilli() - base }
	var cases []fillCase
	n, err := readCases(*casesPath, func(raw []byte) error {
		var c fillCase
		if err := json.Unmarshal(raw, &c); err != nil {
			return err
		}
		cases = append(cases, c)
		return nil
	})
	if err != nil || n == 0 {
		rep.Inconcl("fill cases: n=%d err=%v", n, err)
		return
	}
	obs := &e2eObs{}
	ctx, cancel := context.WithTimeout(context.Background(), 600*time.Second)
	defer cancel()
	type job struct {
		n int
		c *fillCase
	}
	var statMu sync.Mutex
	classes := map[string]bool{}
	wireOK, late := 0, 0
	const workers = 8
	for _, store := range []string{"lru", "adapter"} {
		jobs := make(chan job)
		var wg sync.WaitGroup
		for w := 0; w < workers; w++ {
			env, err := newFillEnv(store)
			if err != nil {
				rep.Inconcl("fill: NewClient(%s): %v", store, err)
				continue
			}
			wg.Add(1)
			go func(env *fillEnv) {
				defer wg.Done()
				defer env.close()
				for j := range jobs {
					if fillStalls.Load() > 3 {
						continue
					}
					ok, l := runFillCase(ctx, rep, obs, env, j.n, j.c, base, ms)
					statMu.Lock()
					classes[j.c.class()+fmt.Sprint(srvOf(j.c))] = true
					if ok {
						wireOK++
					}
					if l {
						late++
					}
					statMu.Unlock()
				}
			}(env)
		}
		for i := range cases {
			if cases[i].Store == store {
				jobs <- job{i, &cases[i]}
			}
		}
		close(jobs)
		wg.Wait()
	}
	if *traceDir != "" {
		if err := vh.WriteNDJSON(filepath.Join(*traceDir, "fill-obs.ndjson"), [][]map[string]any{obs.recs}); err != nil {
			rep.Inconcl("writing observations: %v", err)
		}
	}
	rep.Evaluations = len(obs.recs)
	rep.DistinctNontrivial = len(classes)
	rep.Traces = len(cases)
	rep.Rule = "CacheFill.tla cases (store, call, shapes, static tags, cached items, server key states) run through the real client with the wire compared token by token"
	for i, r := range obs.recs {
		if i%211 == 0 {
			rep.Sample(r)
		}
	}
	if n := fillStalls.Load(); n > 3 {
		rep.Inconcl("fill: %d cases did not finish within %v, the remaining cases were skipped", n, fillCallTimeout)
	}
	rep.Extra = map[string]any{"fill_cases": len(cases), "fill_wire_equal": wireOK, "fill_results": len(obs.recs), "fill_hits": obs.hits,
		"fill_populations": obs.pops, "fill_late_reads": late}
	rep.Assumptions = append(rep.Assumptions,
		"fill: fakeredis stands for the server; its PTTL answers are scripted per key name (ext_store2.go), everything else is executed",
		"fill: only sound bounds are used: clock reading and arrival lie between the call and its return")
}

func srvOf(c *fillCase) []string {
	out := make([]string, len(c.Items))
	for i, it := range c.Items {
		out[i] = it.Srv
	}
	return out
}

// runFillCase returns (wire as predicted, a late read was made).
func runFillCase(pctx context.Context, rep *vh.Report, obs *e2eObs, env *fillEnv, n int, c *fillCase, base int64, ms func() int64) (bool, bool) {
	ctx, cancel := context.WithTimeout(pctx, fillCallTimeout)
	defer cancel()
	defer func() {
		if ctx.Err() != nil {
			fillStalls.Add(1)
		}
	}()
	client, srv := env.client, env.srv
	ttl := time.Duration(c.Ttl) * time.Millisecond
	keys := make([]string, len(c.Items))
	ps := make([]e2eParams, len(c.Items))
	pops := make([]popInfo, len(c.Items))
	env.mu.Lock()
	for i, it := range c.Items {
		keys[i] = fmt.Sprintf("f%d.%d.%d", vh.Seed(), n, i+1)
		env.pttl[keys[i]] = it.Pttl
	}
	env.mu.Unlock()
	defer func() {
		env.mu.Lock()
		for _, k := range keys {
			delete(env.pttl, k)
		}
		env.mu.Unlock()
	}()
	for i, it := range c.Items {
		if !it.Isnil {
			shapeStore(srv, it.Shape, keys[i], "v-"+keys[i], 0)
		}
		ps[i] = e2eParams{key: keys[i], ttl: c.Ttl, srvP: it.Pttl, exists: !it.Isnil, static: c.StaticPath, shape: it.Shape, mode: "scripted", srv: it.Srv}
	}
	one := func(r rueidis.RedisResult) (fillRes, error) {
		err := r.Error()
		if err != nil && !rueidis.IsRedisNil(err) {
			return fillRes{}, err
		}
		s, _ := r.ToString()
		return fillRes{ci: r, isNil: err != nil, val: s}, nil
	}
	single := func(i int) (fillRes, int64, int64, error) {
		t1 := ms()
		var res fillRes
		var err error
		if c.Items[i].Shape == "mgetkey" {
			var arr []rueidis.RedisMessage
			arr, err = client.DoCache(ctx, client.B().Mget().Key(keys[i]).Cache(), ttl).ToArray()
			if err == nil && len(arr) != 1 {
				err = fmt.Errorf("%d elements for a one-key MGET", len(arr))
			}
			if err == nil {
				s, _ := arr[0].ToString()
				res = fillRes{ci: &arr[0], isNil: arr[0].IsNil(), val: s}
			}
		} else {
			cmd := shapeCmd(client, c.Items[i].Shape, keys[i])
			if c.Items[i].Static {
				cmd = cmd.ToStaticTTL()
			}
			res, err = one(client.DoCache(ctx, cmd, ttl))
		}
		return res, t1, ms(), err
	}
	call := func() ([]fillRes, int64, int64, error) {
		t1 := ms()
		var out []fillRes
		switch c.Call {
		case "single":
			r, _, _, err := single(0)
			if err != nil {
				return nil, t1, ms(), err
			}
			out = append(out, r)
		case "multi":
			cts := make([]rueidis.CacheableTTL, len(c.Items))
			for i, it := range c.Items {
				cmd := shapeCmd(client, it.Shape, keys[i])
				if it.Static {
					cmd = cmd.ToStaticTTL()
				}
				cts[i] = rueidis.CT(cmd, ttl)
			}
			for _, r := range client.DoMultiCache(ctx, cts...) {
				fr, err := one(r)
				if err != nil {
					return nil, t1, ms(), err
				}
				out = append(out, fr)
			}
		case "mget":
			arr, err := client.DoCache(ctx, client.B().Mget().Key(keys...).Cache(), ttl).ToArray()
			if err != nil {
				return nil, t1, ms(), err
			}
			for j := range arr {
				s, _ := arr[j].ToString()
				out = append(out, fillRes{ci: &arr[j], isNil: arr[j].IsNil(), val: s})
			}
		}
		if len(out) != len(c.Items) {
			return nil, t1, ms(), fmt.Errorf("%d results for %d items", len(out), len(c.Items))
		}
		return out, t1, ms(), nil
	}
	// record one result; a result that is not a hit is the population of a new entry
	record := func(i int, r fillRes, t1, t2 int64, p e2eParams) {
		kind := "read"
		if !r.ci.IsCacheHit() {
			kind = "pop"
			pops[i] = popInfo{tcall: t1, tret: t2, popNil: r.isNil, tsetA: t1, tsetB: t2}
		}
		rec := e2eRecord(base, env.store, kind, c.Call, p, pops[i], t1, t2, r.ci)
		if kind == "pop" {
			pops[i].pxat = rec["pxat"].(int64)
			rec["ppxat"] = pops[i].pxat
		}
		obs.add(rec)
	}
	// items answered from the cache: filled by an earlier one-item call
	for i, it := range c.Items {
		if !it.Cached {
			continue
		}
		r, t1, t2, err := single(i)
		if err != nil {
			rep.Inconcl("fill: preparing call failed (%s): %v", c.class(), err)
			return false, false
		}
		p := ps[i]
		p.static = it.Static && it.Shape != "mgetkey" // a one-item call: the static path iff the command is tagged
		record(i, r, t1, t2, p)
	}
	tprep := ms()
	m := env.mark()
	res, t1, t2, err := call()
	if err != nil {
		rep.Inconcl("fill: call failed (%s): %v", c.class(), err)
		return false, false
	}
	got := fillTokens(c, keys, env.since(m))
	wireOK := sameArgv(got, c.Wire)
	if !wireOK {
		want, have := "(end)", "(end)"
		for j := 0; j < len(got) || j < len(c.Wire); j++ {
			if j < len(got) && j < len(c.Wire) && got[j] == c.Wire[j] {
				continue
			}
			if j < len(c.Wire) {
				want = c.Wire[j]
			}
			if j < len(got) {
				have = got[j]
				if strings.HasPrefix(have, "pttl:?:") || strings.HasPrefix(have, "other:") || strings.HasPrefix(have, "mget:?") {
					have = have[:strings.LastIndex(have, ":")+1] + "..."
				}
			}
			break
		}
		rep.Violate(fmt.Sprintf("fill wire-diverges %s staticpath=%v want=%s got=%s", c.class(), c.StaticPath, want, have),
			fmt.Sprintf("the real client sent %v where CacheFill.tla predicts %v (server key states %v); a probe token is pttl:<item>:<position of the named argument in the item's command>",
				got, c.Wire, srvOf(c)), map[string]any{"case": c, "wire": got})
	}
	for i, r := range res {
		wantHit := c.Fill[i].How == "hit"
		if r.ci.IsCacheHit() != wantHit {
			if wantHit && ms()-tprep > c.Ttl/2 {
				rep.Inconcl("fill: the case stalled for %d ms, the prepared entry may have expired (%s)", ms()-tprep, c.class())
				return wireOK, false
			}
			rep.Violate(fmt.Sprintf("fill hit-diverges %s item=%d want-hit=%v", c.class(), i+1, wantHit),
				fmt.Sprintf("IsCacheHit=%v where CacheFill.tla predicts %q (server key states %v)", r.ci.IsCacheHit(), c.Fill[i].How, srvOf(c)), map[string]any{"case": c})
		}
		wantVal := "v-" + keys[i]
		if c.Items[i].Isnil {
			wantVal = ""
		}
		if r.isNil != c.Items[i].Isnil || r.val != wantVal {
			rep.Violate(fmt.Sprintf("fill value-diverges %s item=%d", c.class(), i+1),
				fmt.Sprintf("result nil=%v %q, expected nil=%v %q", r.isNil, r.val, c.Items[i].Isnil, wantVal), map[string]any{"case": c})
		}
		record(i, r, t1, t2, ps[i])
	}
	// read again at once, and once more after the earliest predicted expiry when that is near
	reread := func() (int64, bool) {
		res, t1, t2, err := call()
		if err != nil {
			rep.Inconcl("fill: read failed (%s): %v", c.class(), err)
			return 0, false
		}
		for i, r := range res {
			record(i, r, t1, t2, ps[i])
		}
		return t2, true
	}
	t3, ok := reread()
	if !ok {
		return wireOK, false
	}
	wait := int64(-1)
	for i, f := range c.Fill {
		if f.How == "fill" && !c.StaticPath && c.Items[i].Pttl >= 0 && c.Items[i].Pttl <= 50 && c.Items[i].Pttl > wait {
			wait = c.Items[i].Pttl // scheduling only: CacheTtlObs.tla decides from the clock readings
		}
	}
	if wait < 0 {
		return wireOK, false
	}
	for ms() < t3+wait+3 { // t3: a read that was not a hit populated the entry anew
		time.Sleep(time.Millisecond)
	}
	reread()
	return wireOK, true
}
