package main

import (
	"context"
	"fmt"
	"math/rand"
	"path/filepath"
	"sync"
	"time"

	"github.com/redis/rueidis"
	"verifharness/fakeredis"
	"verifharness/vh"
)

const e2eAddr = "127.0.0.1:6379"

func e2eClient(store string) (rueidis.Client, *fakeredis.Server, error) {
	return e2eClientMux(store, 0)
}

// multiplex: ClientOption.PipelineMultiplex (0: the default of 4 connections, each with its own cache store, commands
// spread by key slot; -1: one connection)
func e2eClientMux(store string, multiplex int) (rueidis.Client, *fakeredis.Server, error) {
	s := fakeredis.NewServer("e2e-"+store, fakeredis.Options{})
	n := fakeredis.NewNetwork()
	n.Add(e2eAddr, s)
	opt := rueidis.ClientOption{InitAddress: []string{e2eAddr}, DialCtxFn: n.DialCtxFn(), ForceSingleClient: true, DisableRetry: true,
		PipelineMultiplex: multiplex}
	if store == "adapter" {
		opt.NewCacheStoreFn = func(rueidis.CacheStoreOption) rueidis.CacheStore {
			return rueidis.NewSimpleCacheAdapter(newMapCache())
		}
	}
	c, err := rueidis.NewClient(opt)
	return c, s, err
}

type e2eParams struct {
	key    string
	ttl    int64 // ms
	srvP   int64 // ms, -1: no server expiry
	exists bool
	static bool
	shape  string // see shapes.go
	mode   string // "rt": the server key really expires (real clock); "scripted": the PTTL answers are scripted (fill.go)
	srv    string // scripted mode: the server key state of CacheFill.tla ("rt" otherwise)
}

type e2eObs struct {
	mu   sync.Mutex
	recs []map[string]any
	hits int
	pops int
}

func (o *e2eObs) add(r map[string]any) {
	o.mu.Lock()
	o.recs = append(o.recs, r)
	if r["hit"].(bool) {
		o.hits++
	}
	if r["kind"] == "pop" {
		o.pops++
	}
	o.mu.Unlock()
}

type popInfo struct {
	tcall, tret, pxat, tsetA, tsetB int64
	popNil                          bool
}

// cacheInfo is what a result (RedisResult, or an element of an MGET reply) reports about its cache entry.
type cacheInfo interface {
	CachePTTL() int64
	CacheTTL() int64
	CachePXAT() int64
	IsCacheHit() bool
}

type e2eRes struct {
	ci    cacheInfo
	isNil bool
}

// record reads the three accessors of one result with clock readings around them.
func e2eRecord(base int64, store, kind string, multi string, p e2eParams, pop popInfo, tcall, tret int64, r cacheInfo) map[string]any {
	ms := func() int64 { return time.Now().UnixMilli() - base }
	ta := ms()
	pttl := r.CachePTTL()
	tb := ms()
	tc := ms()
	ttls := r.CacheTTL()
	td := ms()
	pxat := r.CachePXAT()
	if pxat > 0 {
		pxat -= base
	}
	if kind == "pop" {
		pop.pxat = pxat
	}
	return map[string]any{"kind": kind, "store": store, "multi": multi, "static": p.static, "key": p.key, "mode": p.mode, "shape": p.shape, "srv": p.srv, "ttl": p.ttl, "srvP": p.srvP,
		"exists": p.exists, "popNil": pop.popNil, "tsetA": pop.tsetA, "tsetB": pop.tsetB, "ptcall": pop.tcall, "ptret": pop.tret, "ppxat": pop.pxat,
		"tcall": tcall, "tret": tret, "hit": r.IsCacheHit(), "pxat": pxat, "pttl": pttl, "ttls": ttls, "ta": ta, "tb": tb, "tc": tc, "td": td}
}

// e2eMode: the real client over fakeredis with real time.  Every result of every DoCache / DoMultiCache call is logged
// with clock readings; spec/cache/CacheTtlObs.tla decides (sound bounds only).
func e2eMode(rep *vh.Report) {
	base := time.Now().UnixMilli()
	ms := func() int64 { return time.Now().UnixMilli() - base }
	obs := &e2eObs{}
	ctx, cancel := context.WithTimeout(context.Background(), 120*time.Second)
	defer cancel()
	for _, store := range []string{"lru", "adapter"} {
		client, srv, err := e2eClient(store)
		if err != nil {
			rep.Inconcl("e2e: NewClient(%s): %v", store, err)
			continue
		}
		if err := shapeServer(srv); err != nil {
			rep.Inconcl("e2e: %v", err)
			continue
		}
		build := func(p e2eParams) rueidis.Cacheable {
			c := shapeCmd(client, p.shape, p.key)
			if p.static {
				c = c.ToStaticTTL()
			}
			return c
		}
		prepare := func(p e2eParams) (a, b int64) {
			a = ms()
			if p.exists {
				shapeStore(srv, p.shape, p.key, "v-"+p.key, p.srvP)
			}
			return a, ms()
		}
		var wg sync.WaitGroup
		sem := make(chan struct{}, 12)
		for i := 0; i < *runs; i++ {
			rng := vh.Rng(int64(1000*len(store) + i))
			wg.Add(1)
			sem <- struct{}{}
			go func(i int, rng *rand.Rand) {
				defer wg.Done()
				defer func() { <-sem }()
				mk := func(j int) e2eParams {
					p := e2eParams{key: fmt.Sprintf("%s-%d-%d-%d", store, vh.Seed(), i, j), ttl: int64(100 + rng.Intn(301)), srvP: -1, exists: true,
						mode: "rt", srv: "rt", shape: "get"}
					if rng.Intn(2) == 0 { // half of the commands are not plain GETs: the key is not always the first argument
						p.shape = e2eShapes[rng.Intn(len(e2eShapes))]
					}
					switch rng.Intn(6) {
					case 0: // key without expiry
					case 1: // missing key: nil reply, PTTL -2
						p.exists = false
					case 2: // server expiry earlier than the client ttl
						p.srvP = int64(100 + rng.Intn(200))
						p.ttl = p.srvP + int64(100+rng.Intn(400))
					case 3: // client ttl earlier
						p.srvP = p.ttl + int64(100+rng.Intn(400))
					default: // close to each other
						p.srvP = int64(100 + rng.Intn(301))
					}
					p.static = rng.Intn(4) == 0
					return p
				}
				multi := []string{"single", "single", "multi", "mget"}[i%4]
				ps := []e2eParams{mk(0)}
				if multi != "single" {
					ps = append(ps, mk(1))
					ps[1].static = ps[0].static // all-or-nothing rule of DoMultiCache: keep batches uniform
				}
				if multi == "mget" { // one client ttl for the command; static TTL does not apply to MGET
					ps[1].ttl = ps[0].ttl
					ps[0].static, ps[1].static = false, false
					ps[0].shape, ps[1].shape = "mgetkey", "mgetkey"
				}
				pops := make([]popInfo, len(ps))
				for j, p := range ps {
					pops[j].tsetA, pops[j].tsetB = prepare(p)
				}
				call := func() ([]e2eRes, int64, int64, error) {
					t1 := ms()
					var out []e2eRes
					one := func(r rueidis.RedisResult) error {
						err := r.Error()
						if err != nil && !rueidis.IsRedisNil(err) {
							return err
						}
						out = append(out, e2eRes{ci: r, isNil: err != nil})
						return nil
					}
					switch multi {
					case "multi":
						cts := make([]rueidis.CacheableTTL, len(ps))
						for j, p := range ps {
							cts[j] = rueidis.CT(build(p), time.Duration(p.ttl)*time.Millisecond)
						}
						for _, r := range client.DoMultiCache(ctx, cts...) {
							if err := one(r); err != nil {
								return nil, t1, ms(), err
							}
						}
					case "mget":
						arr, err := client.DoCache(ctx, client.B().Mget().Key(ps[0].key, ps[1].key).Cache(), time.Duration(ps[0].ttl)*time.Millisecond).ToArray()
						if err != nil {
							return nil, t1, ms(), err
						}
						for j := range arr {
							out = append(out, e2eRes{ci: &arr[j], isNil: arr[j].IsNil()})
						}
					default:
						if err := one(client.DoCache(ctx, build(ps[0]), time.Duration(ps[0].ttl)*time.Millisecond)); err != nil {
							return nil, t1, ms(), err
						}
					}
					if len(out) != len(ps) {
						return nil, t1, ms(), fmt.Errorf("%d results for %d keys", len(out), len(ps))
					}
					return out, t1, ms(), nil
				}
				res, t1, t2, err := call()
				if err != nil {
					rep.Inconcl("e2e: populating call (%s) failed: %v", multi, err)
					return
				}
				var horizon int64
				for j, r := range res {
					pops[j].tcall, pops[j].tret, pops[j].popNil = t1, t2, r.isNil
					rec := e2eRecord(base, store, "pop", multi, ps[j], pops[j], t1, t2, r.ci)
					pops[j].pxat = rec["pxat"].(int64)
					rec["ppxat"] = pops[j].pxat
					obs.add(rec)
					if h := t2 + ps[j].ttl; h > horizon {
						horizon = h
					}
				}
				for ms() < horizon+150 {
					time.Sleep(time.Duration(8+rng.Intn(40)) * time.Millisecond)
					res, t1, t2, err := call()
					if err != nil {
						rep.Inconcl("e2e: read (%s) failed: %v", multi, err)
						return
					}
					for j, r := range res {
						obs.add(e2eRecord(base, store, "read", multi, ps[j], pops[j], t1, t2, r.ci))
					}
				}
			}(i, rng)
		}
		wg.Wait()
		client.Close()
		srv.Close()
	}
	tr := [][]map[string]any{obs.recs}
	if *traceDir != "" {
		if err := vh.WriteNDJSON(filepath.Join(*traceDir, "e2e-obs.ndjson"), tr); err != nil {
			rep.Inconcl("writing observations: %v", err)
		}
	}
	rep.Evaluations = len(obs.recs)
	rep.DistinctNontrivial = obs.hits
	rep.Traces = obs.pops
	rep.Rule = "results that are cache hits (each checked against the expiry bounds of the call that populated the entry)"
	if obs.hits == 0 {
		rep.Inconcl("e2e: no cache hit was observed at all")
	}
	for i, r := range obs.recs {
		if i%97 == 0 {
			rep.Sample(r)
		}
	}
	rep.Extra = map[string]any{"e2e_results": len(obs.recs), "e2e_hits": obs.hits, "e2e_populations": obs.pops}
	rep.Assumptions = append(rep.Assumptions,
		"e2e: fakeredis stands for the server (real clock, active expiry every 10 ms, invalidation pushes); its PTTL is trusted within 2 ms",
		"e2e: only sound bounds are used: the client reads its clock somewhere between the call and its return")
}
