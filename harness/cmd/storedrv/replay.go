package main

import (
	"crypto/sha1"
	"encoding/json"
	"fmt"

	"verifharness/vh"
)

// step applies one step, runs the monitors and returns what was observed.
func (r *runner) step(in In) (*obs, snap) {
	if r.kind == "adapter" {
		for p := range touched(in) {
			r.sc.learn(p.k, p.c)
		}
	}
	pre := r.snapshot()
	var atRead map[pair]*flightRec
	if _, begin, resume, ok := isFlightOp(in.Op); ok && begin {
		atRead = map[pair]*flightRec{}
		for id, rec := range r.flights {
			atRead[id] = rec
		}
	} else if resume && r.pc != nil {
		atRead = r.pc.atRead
	}
	ob := r.apply(in)
	if r.pc != nil && r.pc.atRead == nil {
		r.pc.atRead = atRead
	}
	post := r.snapshot()
	if ob.ph == "hang" {
		r.violate("monitor=call-hangs after="+in.Op, ob.note)
		return ob, post
	}
	r.monitors(in, pre, post, ob)
	r.trackFlights(in, pre, post, ob, atRead)
	return ob, post
}

func nontrivial(st Step) bool {
	for _, x := range st.O.Res {
		if x.R != "miss" {
			return true
		}
	}
	return len(st.O.Ev) > 0 || len(st.O.Dlv) > 0 || st.O.Op == "Update" || st.O.Op == "Delete" || st.O.Op == "DeleteAll"
}

func replayMode(rep *vh.Report) {
	installHook()
	classes := map[[20]byte]bool{}
	ops := map[string]int{}
	evictions := map[int]int{}
	n, err := readCases(*casesPath, func(raw []byte) error {
		var c Case
		if err := json.Unmarshal(raw, &c); err != nil {
			return fmt.Errorf("bad case: %v", err)
		}
		r := newRunner(*storeKind, *maxUnits, *moveEvery, rep)
		for _, in := range c.Pre {
			r.step(in)
			if r.failed {
				break
			}
		}
		for _, st := range c.Steps {
			if r.failed {
				break
			}
			ob, post := r.step(st.O.In)
			r.compare(st, post, ob)
			rep.Evaluations++
			ops[st.O.Op]++
			if st.O.Op == "Update" {
				evictions[len(st.O.Ev)]++
			}
			if nontrivial(st) {
				b, _ := json.Marshal(st)
				classes[sha1.Sum(b)] = true
			}
		}
		r.finish()
		if !r.failed {
			rep.Traces++
			if rep.Traces%997 == 1 {
				rep.Sample(map[string]any{"store": *storeKind, "pre": c.Pre, "steps": c.Steps})
			}
		}
		return nil
	})
	if err != nil {
		rep.Inconcl("reading %s: %v", *casesPath, err)
	}
	if n == 0 {
		rep.Inconcl("no cases in %s", *casesPath)
	}
	rep.DistinctNontrivial = len(classes)
	rep.Rule = "distinct (step, predicted results, predicted post-state) triples of compared steps that return a hit or a wait, evict, wake waiters, or are an Update/Delete"
	rep.Extra = map[string]any{"store": *storeKind, "cases": n, "compared_steps_by_op": ops, "updates_by_number_of_evictions": evictions}
	rep.Assumptions = append(rep.Assumptions,
		"replay: one size unit of the specification = the smallest multiple of 64 bytes holding a minimal entry (payload lengths are chosen with the exported size constants; the driver checks the real entry size equals units x bytes)",
		"replay: one clock tick = 1 h; Flight receives the specification's clock as its now argument; GetTTL reads the wall clock, which stays within the first tick",
		fmt.Sprintf("replay: the move threshold (every 1024th hit of a key) is scaled to every %d-th hit by resetting the hit counters below the threshold before each call (ScaleHits)", *moveEvery))
}
