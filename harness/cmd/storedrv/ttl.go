package main

import (
	"encoding/json"
	"fmt"
	"time"

	"github.com/redis/rueidis"
	"verifharness/vh"
)

type ttlCase struct {
	Unset bool  `json:"unset"`
	D     int64 `json:"d"`
	Pxatd int64 `json:"pxatd"`
	Pttl  int64 `json:"pttl"`
	Ttl   int64 `json:"ttl"`
}

// ttlMode: CacheTtl.tla predicts what CachePXAT / CachePTTL / CacheTTL return for an expiry d milliseconds away from
// the current millisecond.  The accessors read the wall clock themselves, so each case is repeated until the clock
// reading before and after the call falls in the same millisecond as the one the expiry was computed from.
func ttlMode(rep *vh.Report) {
	n, err := readCases(*casesPath, func(raw []byte) error {
		var c ttlCase
		if err := json.Unmarshal(raw, &c); err != nil {
			return err
		}
		rep.Evaluations++
		if c.D != 0 || c.Unset {
			rep.DistinctNontrivial++
		}
		class := fmt.Sprintf("d=%d", c.D)
		switch {
		case c.Unset:
			class = "no-expiry"
		case c.D < 0:
			class = "expired"
		case c.D == 0:
			class = "expires-now"
		case c.D%1000 == 0:
			class = "whole-seconds-left"
		default:
			class = "fraction-of-second-left"
		}
		for try := 0; ; try++ {
			if try > 10000 {
				rep.Inconcl("ttl case d=%d: the wall clock never stayed within one millisecond", c.D)
				return nil
			}
			t1 := time.Now().UnixMilli()
			var exp int64
			if !c.Unset {
				exp = t1 + c.D
			}
			m := rueidis.VerifCacheValue(1, 'x', exp)
			pxat := m.CachePXAT()
			pttl := m.CachePTTL()
			ttl := m.CacheTTL()
			if time.Now().UnixMilli() != t1 {
				continue
			}
			wantPxat := t1 + c.Pxatd
			if c.Unset {
				wantPxat = c.Pxatd
			}
			if pxat != wantPxat || pttl != c.Pttl || ttl != c.Ttl {
				rep.Violate("accessors class="+class, fmt.Sprintf("expiry %d ms from now (unset=%v): CachePXAT-now=%d CachePTTL=%d CacheTTL=%d, CacheTtl.tla predicts %d %d %d",
					c.D, c.Unset, pxat-t1, pttl, ttl, c.Pxatd, c.Pttl, c.Ttl), c)
			}
			if rep.Evaluations%7 == 1 {
				rep.Sample(map[string]any{"case": c, "got": []int64{pxat - t1, pttl, ttl}})
			}
			return nil
		}
	})
	if err != nil || n == 0 {
		rep.Inconcl("ttl cases: n=%d err=%v", n, err)
	}
	rep.Rule = "CacheTtl.tla cases other than 'expires this very millisecond'"
}
