package main

import (
	"crypto/sha1"
	"encoding/hex"
	"fmt"

	"github.com/redis/rueidis"
	"verifharness/fakeredis"
)

// Command shapes of the end-to-end modes (e2e, fill).  The cache key of a cacheable command is not always its first
// argument: the read-only scripts carry <script|sha|function> 1 <key>.
//
//	get        GET k                  (two arguments: the short-cut of cmds.CacheKey)
//	hget       HGET k f               (key first, more arguments)
//	eval_ro    EVAL_RO <body> 1 k
//	evalsha_ro EVALSHA_RO <sha> 1 k
//	fcall_ro   FCALL_RO verifget 1 k
//	mgetkey    one key of an MGET
const (
	roScript = "return redis.call('GET', KEYS[1])"
	roFunc   = "verifget"
	hField   = "f"
)

var roSha = func() string { s := sha1.Sum([]byte(roScript)); return hex.EncodeToString(s[:]) }()

var e2eShapes = []string{"get", "hget", "eval_ro", "evalsha_ro", "fcall_ro"}

// shapeArgv: what the command looks like on the wire.
func shapeArgv(shape, key string) []string {
	switch shape {
	case "get":
		return []string{"GET", key}
	case "hget":
		return []string{"HGET", key, hField}
	case "eval_ro":
		return []string{"EVAL_RO", roScript, "1", key}
	case "evalsha_ro":
		return []string{"EVALSHA_RO", roSha, "1", key}
	case "fcall_ro":
		return []string{"FCALL_RO", roFunc, "1", key}
	}
	panic("unknown shape " + shape)
}

func shapeCmd(c rueidis.Client, shape, key string) rueidis.Cacheable {
	switch shape {
	case "get":
		return c.B().Get().Key(key).Cache()
	case "hget":
		return c.B().Hget().Key(key).Field(hField).Cache()
	case "eval_ro":
		return c.B().EvalRo().Script(roScript).Numkeys(1).Key(key).Cache()
	case "evalsha_ro":
		return c.B().EvalshaRo().Sha1(roSha).Numkeys(1).Key(key).Cache()
	case "fcall_ro":
		return c.B().FcallRo().Function(roFunc).Numkeys(1).Key(key).Cache()
	}
	panic("unknown shape " + shape)
}

// shapeServer prepares a server for the script shapes.
func shapeServer(srv *fakeredis.Server) error {
	if v := srv.Do("SCRIPT", "LOAD", roScript); v.Str != roSha {
		return fmt.Errorf("SCRIPT LOAD answered %q, want %q", v.Str, roSha)
	}
	srv.RegisterROFunction(roFunc, roScript)
	return nil
}

// shapeStore gives the key the value the command of that shape reads; px > 0: with that lifetime.
func shapeStore(srv *fakeredis.Server, shape, key, val string, px int64) {
	switch shape {
	case "hget":
		srv.Do("HSET", key, hField, val)
		if px > 0 {
			srv.Do("PEXPIRE", key, fmt.Sprint(px))
		}
	default:
		if px > 0 {
			srv.Do("SET", key, val, "PX", fmt.Sprint(px))
		} else {
			srv.Do("SET", key, val)
		}
	}
}
