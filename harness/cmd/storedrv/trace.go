package main

import (
	"fmt"
	"math/rand"
	"path/filepath"

	"verifharness/vh"
)

var (
	trKeys  = []string{"a", "b", "c"}
	trCmds  = []string{"x", "y"}
	trSizes = []int{1, 2, 5}
	trTTLs  = []int{0, 1, 3}
	trSrv   = []int{-1, 0, 2}
)

// event converts what one real call returned and the real state after it to the record LruTrace.tla reads.
func (r *runner) event(in In, ob *obs, post snap) map[string]any {
	store := map[string]any{}
	for _, k := range trKeys {
		m := map[string]any{}
		for _, c := range trCmds {
			m[c] = map[string]any{"st": "none", "exp": 0, "sz": 0}
		}
		store[k] = m
	}
	lst := [][]string{}
	for _, e := range post.entries {
		lst = append(lst, []string{e.k, e.c})
		if m, ok := store[e.k].(map[string]any); ok {
			if e.pending {
				m[e.c] = map[string]any{"st": "pending", "exp": r.msTick(e.expireAt), "sz": 0}
			} else {
				m[e.c] = map[string]any{"st": "done", "exp": r.msTick(e.expireAt), "sz": r.units(e.size)}
			}
		}
	}
	hits := map[string]int{}
	for _, k := range trKeys {
		hits[k] = int(post.hits[k]) % r.every
	}
	res := []Res{}
	if ob != nil && !ob.parked {
		res = append(res, ob.res...)
	}
	items := in.Items
	if items == nil {
		items = []Item{}
	}
	ks := in.Ks
	if ks == nil {
		ks = []string{}
	}
	size := r.units(post.size)
	ev := map[string]any{"op": in.Op, "items": items, "k": in.K, "c": in.C, "srv": in.Srv, "sz": in.Sz, "ks": ks, "at": in.At,
		"store": store, "lst": lst, "size": size, "hits": hits, "closed": post.closed, "ph": r.parkedAt(),
		"res": res, "pxat": 0, "ttlr": 0}
	if ob != nil {
		ev["pxat"], ev["ttlr"] = ob.pxat, ob.ttlr
	}
	return ev
}

func resetEvent() map[string]any {
	store := map[string]any{}
	hits := map[string]int{}
	for _, k := range trKeys {
		m := map[string]any{}
		for _, c := range trCmds {
			m[c] = map[string]any{"st": "none", "exp": 0, "sz": 0}
		}
		store[k] = m
		hits[k] = 0
	}
	return map[string]any{"op": "RESET", "items": []Item{}, "k": "", "c": "", "srv": 0, "sz": 0, "ks": []string{}, "at": 1,
		"store": store, "lst": [][]string{}, "size": 0, "hits": hits, "closed": false, "ph": "none", "res": []Res{}, "pxat": 0, "ttlr": 0}
}

func pick[T any](rng *rand.Rand, xs []T) T { return xs[rng.Intn(len(xs))] }

// traceMode runs seeded random histories on the real lru.  The driver decides nothing about outcomes: it issues calls,
// labels a Flight call by what the real call did (returned at once, or stopped at a hook), and logs the real state.
func traceMode(rep *vh.Report) {
	installHook()
	rng := vh.Rng(11)
	var all [][]map[string]any
	totalEvents := 0
	opCount := map[string]int{}
	for run := 0; run < *runs; run++ {
		r := newRunner("lru", *maxUnits, *moveEvery, rep)
		tr := []map[string]any{resetEvent()}
		now := 1
		heavy := run%3 == 0 // every third history is dominated by misses and updates: eviction pressure
		log := func(in In, ob *obs, post snap) {
			tr = append(tr, r.event(in, ob, post))
			opCount[in.Op]++
		}
		do := func(in In) {
			ob, post := r.step(in)
			log(in, ob, post)
		}
		for s := 0; s < *steps && !r.failed; s++ {
			k, c := pick(rng, trKeys), pick(rng, trCmds)
			x := rng.Intn(100)
			if heavy && x >= 70 {
				x = rng.Intn(70)
			}
			switch {
			case r.pc != nil && x < 12:
				// let the parked call run its next critical section
				in := r.pc.in
				ob, post := r.step(In{Op: "FlightEnd", Items: in.Items, At: in.At})
				lab := "End"
				if r.pc != nil {
					lab = "Moved"
				}
				op := "Flight" + lab
				if in.Op == "FlightsBegin" {
					op = "Flights" + lab
				}
				log(In{Op: op, Items: in.Items, At: in.At}, ob, post)
			case x < 30:
				item := Item{K: k, C: c, TTL: pick(rng, trTTLs)}
				in := In{Op: "Flight", Items: []Item{item}, At: now}
				if r.pc == nil && rng.Intn(3) == 0 {
					in.Op = "FlightBegin"
					ob, post := r.step(in)
					if r.pc == nil { // it returned without reaching a second critical section
						in.Op = "Flight"
					}
					log(in, ob, post)
				} else {
					do(in)
				}
			case x < 42:
				n := 2 // not more items than MoveEvery: the scaled hit counter wraps at most once per call (ScaleHits)
				in := In{Op: "Flights", At: now}
				for i := 0; i < n; i++ {
					in.Items = append(in.Items, Item{K: pick(rng, trKeys), C: pick(rng, trCmds), TTL: pick(rng, trTTLs)})
				}
				if r.pc == nil && rng.Intn(3) == 0 {
					in.Op = "FlightsBegin"
					ob, post := r.step(in)
					if r.pc == nil {
						in.Op = "Flights"
					}
					log(in, ob, post)
				} else {
					do(in)
				}
			case x < 70:
				// reply arrival: prefer an identity that is in flight
				pre := r.snapshot()
				var pend []snapEntry
				for _, e := range pre.entries {
					if e.pending {
						pend = append(pend, e)
					}
				}
				in := In{Op: "Update", K: k, C: c, Srv: -1, Sz: 1, At: now}
				if len(pend) > 0 && rng.Intn(8) != 0 {
					e := pend[rng.Intn(len(pend))]
					in.K, in.C = e.k, e.c
				}
				if e := pre.find(in.K, in.C); e != nil && e.pending {
					in.Srv, in.Sz = pick(rng, trSrv), pick(rng, trSizes)
				}
				do(in)
			case x < 76:
				do(In{Op: "Cancel", K: k, C: c, At: now})
			case x < 84:
				var ks []string
				for _, kk := range trKeys {
					if rng.Intn(2) == 0 {
						ks = append(ks, kk)
					}
				}
				if len(ks) == 0 {
					ks = []string{k}
				}
				do(In{Op: "Delete", Ks: ks, At: now})
			case x < 86:
				do(In{Op: "DeleteAll", At: now})
			case x < 92:
				do(In{Op: "GetTTL", K: k, C: c, At: now})
			case x < 99:
				now++
				do(In{Op: "Tick", At: now})
			default:
				if s > *steps*2/3 {
					do(In{Op: "Close", At: now})
				}
			}
		}
		for r.pc != nil && !r.failed {
			in := r.pc.in
			ob, post := r.step(In{Op: "FlightEnd", Items: in.Items, At: in.At})
			lab := "End"
			if r.pc != nil {
				lab = "Moved"
			}
			op := "Flight" + lab
			if in.Op == "FlightsBegin" {
				op = "Flights" + lab
			}
			log(In{Op: op, Items: in.Items, At: in.At}, ob, post)
		}
		r.finish()
		rep.Evaluations += len(tr) - 1
		totalEvents += len(tr)
		if !r.failed {
			all = append(all, tr)
			rep.Traces++
		}
		if run == 0 && len(tr) > 6 {
			rep.Sample(map[string]any{"trace_head": tr[1:6]})
		}
	}
	if *traceDir != "" {
		if err := vh.WriteNDJSON(filepath.Join(*traceDir, "lru-trace.ndjson"), all); err != nil {
			rep.Inconcl("writing trace: %v", err)
		}
	}
	rep.Rule = "events of random histories on the real lru (each logged with the complete real state)"
	rep.DistinctNontrivial = totalEvents
	rep.Extra = map[string]any{"events_by_op": opCount}
	rep.Assumptions = append(rep.Assumptions, fmt.Sprintf("trace: %d seeded random histories of %d steps; the goroutine of a parked Flight call is held at the verif hook between its critical sections while the driver runs other calls", *runs, *steps))
}
