package main

import (
	"context"
	"errors"
	"fmt"
	"sort"
	"sync/atomic"
	"time"

	"github.com/redis/rueidis"
	"verifharness/vh"
)

// ------------------------------------------------------------------------------------------------ TLC records
type Item struct {
	K   string `json:"k"`
	C   string `json:"c"`
	TTL int    `json:"ttl"`
}

// In is the label and the arguments of one step (operator In of LruGen.tla).
type In struct {
	Op    string   `json:"op"`
	Items []Item   `json:"items"`
	K     string   `json:"k"`
	C     string   `json:"c"`
	Srv   int      `json:"srv"`
	Sz    int      `json:"sz"`
	Ks    []string `json:"ks"`
	At    int      `json:"at"`
}

type Res struct {
	R   string `json:"r"`
	Exp int    `json:"exp"`
	Sz  int    `json:"sz"`
}

type Dlv struct {
	K   string `json:"k"`
	C   string `json:"c"`
	How string `json:"how"`
}

// Out is variable out of the specification after the step: arguments plus predicted results.
type Out struct {
	In
	Res  []Res      `json:"res"`
	Ph   string     `json:"ph"`
	Pxat int        `json:"pxat"`
	Ttlr int        `json:"ttlr"`
	Ev   [][]string `json:"ev"`
	Dlv  []Dlv      `json:"dlv"`
}

type EntryS struct {
	St  string `json:"st"`
	Exp int    `json:"exp"`
	Sz  int    `json:"sz"`
	// adapter only
	F    string `json:"f"`
	Fexp int    `json:"fexp"`
}

type State struct {
	Store  map[string]map[string]EntryS `json:"store"`
	Lst    [][]string                   `json:"lst"`
	Size   int                          `json:"size"`
	Hits   map[string]int               `json:"hits"`
	Closed bool                         `json:"closed"`
	Now    int                          `json:"now"`
	Ph     string                       `json:"ph"`
	Mv     [][]string                   `json:"mv"`
}

type Step struct {
	O Out   `json:"o"`
	S State `json:"s"`
}

type Case struct {
	Pre   []In   `json:"pre"`
	Steps []Step `json:"steps"`
}

// ------------------------------------------------------------------------------------------------ scaling
const tickMs = int64(3600 * 1000) // one tick of the specification's clock

const unrep = -999 // a real value that is not a whole number of units / ticks

type pair struct{ k, c string }

// obs is what one real call returned, in model units.
type obs struct {
	res    []Res  // Flight / Flights
	ph     string // "move" | "slow" when the call is parked, "none" when it returned
	pxat   int    // Update
	ttlr   int    // GetTTL
	rawHit []rueidis.VerifMsg
	waits  []waitObs
	note   string
	parked bool // this very call stopped at a hook (ph says where)
}

type waitObs struct {
	id pair
	ce rueidis.CacheEntry
}

// pcall is a Flight/Flights call running on its own goroutine so that it can be held at a verif hook.
type pcall struct {
	gid     atomic.Int64
	parked  chan string
	release chan struct{}
	done    chan *obs
	in      In
	at      string               // where it is parked
	atRead  map[pair]*flightRec // the flights that were pending when the call did its look-up
}

// flightRec is one flight (pending entry) of the real store as the snapshots show it: it begins when a pending entry
// appears and ends when it stops being pending; the call that ended it fixes the outcome its waiters must get.
type flightRec struct {
	id      pair
	ended   bool
	how     string // "val" | "err" | "lost"
	tag     byte
	pxat    int64
	errStep int
	endedBy string
}

type handle struct {
	ce  rueidis.CacheEntry
	rec *flightRec
}

type runner struct {
	kind    string
	st      *rueidis.VerifStore
	sc      *mapCache // adapter only
	t0      int64
	unit    int
	max     int
	every   int
	handles []handle
	flights map[pair]*flightRec // current flight per identity
	tagSeq  int
	pc      *pcall
	rep     *vh.Report
	applied []In
	failed  bool // a violation was reported for this behaviour: stop comparing it
	prop    string
}

var curRunner atomic.Pointer[runner]

func installHook() {
	rueidis.SetVerifHook(func(point string, obj any, a, b int) {
		r := curRunner.Load()
		if r == nil || !r.st.Is(obj) {
			return
		}
		pc := r.pc
		if pc == nil || pc.gid.Load() != vh.GoID() {
			return
		}
		pc.parked <- point
		<-pc.release
	})
}

// unitBytes is the number of bytes one size unit of the specification stands for: the smallest multiple of 64 that
// can hold an entry of one unit for the longest key/command of the run.
func unitBytes(maxKeyCmd int) int {
	min := rueidis.VerifEntryBaseSize + rueidis.VerifKeyCmdFactor*maxKeyCmd + rueidis.VerifMessageStructSize
	return (min + 63) / 64 * 64
}

func newRunner(kind string, maxUnits, every int, rep *vh.Report) *runner {
	r := &runner{kind: kind, every: every, rep: rep, flights: map[pair]*flightRec{}}
	r.t0 = time.Now().UnixMilli()
	r.unit = unitBytes(2)
	if *unitFlag > 0 {
		r.unit = *unitFlag
	}
	r.max = maxUnits * r.unit
	switch kind {
	case "lru":
		r.st = rueidis.VerifNewLRU(r.max)
	case "adapter":
		r.sc = newMapCache()
		r.st = rueidis.VerifWrapStore(rueidis.NewSimpleCacheAdapter(r.sc))
	}
	curRunner.Store(r)
	return r
}

func (r *runner) tickMs(t int) int64 { return r.t0 + int64(t-1)*tickMs }
func (r *runner) tickTime(t int) time.Time {
	return time.UnixMilli(r.tickMs(t))
}
func (r *runner) msTick(ms int64) int {
	if ms == 0 {
		return 0
	}
	d := ms - r.t0
	if d%tickMs != 0 {
		return unrep
	}
	return int(d/tickMs) + 1
}
func (r *runner) units(b int) int {
	if b%r.unit != 0 {
		return unrep
	}
	return b / r.unit
}
func (r *runner) payloadLen(k, c string, sz int) int {
	return sz*r.unit - (rueidis.VerifEntryBaseSize + rueidis.VerifKeyCmdFactor*(len(k)+len(c)) + rueidis.VerifMessageStructSize)
}

// szOfMsg converts a reply held by a store back to model units (the inverse of payloadLen).
func (r *runner) szOfMsg(k, c string, m rueidis.VerifMsg) int {
	return r.units(rueidis.VerifEntryBaseSize + rueidis.VerifKeyCmdFactor*(len(k)+len(c)) + rueidis.VerifMessageStructSize + m.PayloadLen)
}

var errProbe = errors.New("probe: still pending")

// probeCtx is a context that is already done; Wait on an unresolved flight then returns errProbe.
type probeCtx struct{ ch chan struct{} }

func (p probeCtx) Deadline() (time.Time, bool) { return time.Time{}, false }
func (p probeCtx) Done() <-chan struct{}       { return p.ch }
func (p probeCtx) Err() error                  { return errProbe }
func (p probeCtx) Value(any) any               { return nil }

var doneCtx context.Context = func() probeCtx { c := make(chan struct{}); close(c); return probeCtx{c} }()

// probe reports whether the flight behind a CacheEntry has been resolved, and with what.  Wait selects between the
// done context and the flight's channel; with both ready Go picks at random, so 64 tries miss a resolved flight with
// probability 2^-64.
func probe(ce rueidis.CacheEntry) (resolved bool, m rueidis.RedisMessage, err error) {
	for i := 0; i < 64; i++ {
		m, err = ce.Wait(doneCtx)
		if err != errProbe {
			return true, m, err
		}
	}
	return false, m, nil
}

// ------------------------------------------------------------------------------------------------ snapshots
// snap is the real state of either store in one shape.
type snapEntry struct {
	k, c     string
	pending  bool
	done     bool // holds a completed reply
	size     int  // accounted bytes (lru)
	expireAt int64
	payload  int
	marker   bool  // adapter: nil marker registered
	fxat     int64 // adapter: pending flight's client expiry
	inMap    bool
	keyOK    bool
}

type snap struct {
	entries    []snapEntry // lru: list order
	size, max  int
	closed     bool
	hits       map[string]uint32
	mapEntries int
	emptyKeys  int
}

func (s *snap) find(k, c string) *snapEntry {
	for i := range s.entries {
		if s.entries[i].k == k && s.entries[i].c == c {
			return &s.entries[i]
		}
	}
	return nil
}

func (r *runner) snapshot() snap {
	var s snap
	if r.kind == "lru" {
		ls, _ := r.st.LRUSnapshot()
		s.size, s.max, s.closed, s.hits, s.mapEntries, s.emptyKeys = ls.Size, ls.Max, ls.Closed, ls.Hits, ls.MapEntries, ls.EmptyKeys
		for _, e := range ls.Entries {
			s.entries = append(s.entries, snapEntry{k: e.Key, c: e.Cmd, pending: e.Pending, done: !e.Pending, size: e.Size,
				expireAt: e.ExpireAt, payload: e.PayloadLen, inMap: e.InMap, keyOK: e.KeyMatches})
		}
		return s
	}
	as, _ := r.st.AdapterSnapshot()
	s.closed = as.Closed
	byPair := map[pair]*snapEntry{}
	for _, f := range as.Flights {
		byPair[pair{f.Key, f.Cmd}] = &snapEntry{k: f.Key, c: f.Cmd, pending: f.Pending, marker: !f.Pending, fxat: f.ExpireAt}
	}
	for id, m := range r.sc.dump() {
		e := byPair[id]
		if e == nil {
			e = &snapEntry{k: id.k, c: id.c}
			byPair[id] = e
		}
		mi := rueidis.VerifMsgInfo(m)
		e.done, e.expireAt, e.payload = true, mi.ExpireAt, mi.PayloadLen
	}
	for _, e := range byPair {
		s.entries = append(s.entries, *e)
	}
	sort.Slice(s.entries, func(i, j int) bool {
		if s.entries[i].k != s.entries[j].k {
			return s.entries[i].k < s.entries[j].k
		}
		return s.entries[i].c < s.entries[j].c
	})
	return s
}

// ------------------------------------------------------------------------------------------------ applying a step
func (r *runner) violate(class, what string) {
	r.failed = true
	hist := make([]string, 0, len(r.applied))
	for _, in := range r.applied {
		hist = append(hist, inString(in))
	}
	r.rep.Violate("store="+r.kind+" "+class, what+"\nhistory: "+fmt.Sprint(hist), map[string]any{"store": r.kind, "history": r.applied,
		"max_units": r.max / r.unit, "unit_bytes": r.unit, "move_every": r.every})
}

func inString(in In) string {
	switch in.Op {
	case "Update":
		return fmt.Sprintf("Update(%s,%s,srv=%d,sz=%d)@%d", in.K, in.C, in.Srv, in.Sz, in.At)
	case "Cancel", "GetTTL":
		return fmt.Sprintf("%s(%s,%s)", in.Op, in.K, in.C)
	case "Delete":
		return fmt.Sprintf("Delete(%v)", in.Ks)
	case "DeleteAll", "Close", "Tick":
		return in.Op
	}
	s := in.Op + "("
	for i, it := range in.Items {
		if i > 0 {
			s += ";"
		}
		s += fmt.Sprintf("%s,%s,ttl=%d", it.K, it.C, it.TTL)
	}
	return s + fmt.Sprintf(")@%d", in.At)
}

func isFlightOp(op string) (single, begin, resume bool, ok bool) {
	switch op {
	case "Flight":
		return true, false, false, true
	case "Flights":
		return false, false, false, true
	case "FlightBegin":
		return true, true, false, true
	case "FlightsBegin":
		return false, true, false, true
	case "FlightMoved", "FlightEnd", "FlightsMoved", "FlightsEnd":
		return op[6] != 's', false, true, true
	}
	return
}

// callFlight performs the real Flight / Flights call and converts what it returns.
func (r *runner) callFlight(in In, single bool) *obs {
	o := &obs{ph: "none"}
	now := r.tickTime(in.At)
	add := func(it Item, kind string, v rueidis.RedisMessage, ce rueidis.CacheEntry) {
		switch kind {
		case "hit":
			mi := rueidis.VerifMsgInfo(v)
			o.res = append(o.res, Res{R: "hit", Exp: r.msTick(mi.ExpireAt), Sz: r.szOfMsg(it.K, it.C, mi)})
			o.rawHit = append(o.rawHit, mi)
		case "wait":
			o.res = append(o.res, Res{R: "wait"})
			o.rawHit = append(o.rawHit, rueidis.VerifMsg{})
			o.waits = append(o.waits, waitObs{id: pair{it.K, it.C}, ce: ce})
		default:
			o.res = append(o.res, Res{R: kind})
			o.rawHit = append(o.rawHit, rueidis.VerifMsg{})
		}
	}
	if single {
		it := in.Items[0]
		v, ce := r.st.Store().Flight(it.K, it.C, time.Duration(it.TTL)*time.Duration(tickMs)*time.Millisecond, now)
		mi := rueidis.VerifMsgInfo(v)
		switch {
		case mi.Typ != 0: // lru's fast path returns the entry along with a hit; callers look at the message first
			add(it, "hit", v, nil)
		case ce != nil:
			add(it, "wait", v, ce)
		default:
			add(it, "miss", v, nil)
		}
		return o
	}
	multi := make([]rueidis.CacheableTTL, len(in.Items))
	for i, it := range in.Items {
		multi[i] = rueidis.CT(rueidis.VerifCacheable(it.C, it.K), time.Duration(it.TTL)*time.Duration(tickMs)*time.Millisecond)
	}
	res, ok := r.st.Flights(now, multi)
	if !ok {
		o.note = "store has no Flights"
		return o
	}
	for i, fr := range res {
		add(in.Items[i], fr.Kind, fr.Val, fr.Entry)
	}
	return o
}

const hangTimeout = 20 * time.Second

// apply performs one step on the real store.
func (r *runner) apply(in In) *obs {
	r.applied = append(r.applied, in)
	if r.kind == "lru" {
		r.st.ScaleHits(uint32(r.every))
	}
	o := &obs{ph: r.parkedAt()}
	if single, begin, resume, ok := isFlightOp(in.Op); ok {
		switch {
		case begin:
			if r.pc != nil {
				o.note = "driver: a call is already parked"
				return o
			}
			pc := &pcall{parked: make(chan string), release: make(chan struct{}), done: make(chan *obs, 1), in: in}
			r.pc = pc
			go func() {
				pc.gid.Store(vh.GoID())
				pc.done <- r.callFlight(in, single)
			}()
			return r.awaitPark()
		case resume:
			if r.pc == nil {
				o.note = "no call is parked"
				return o
			}
			r.pc.release <- struct{}{}
			return r.awaitPark()
		default:
			ob := r.callFlight(in, single)
			ob.ph = r.parkedAt()
			return ob
		}
	}
	switch in.Op {
	case "Update":
		var sx int64
		if in.Srv >= 0 {
			sx = r.tickMs(in.At) + int64(in.Srv)*tickMs
		}
		r.tagSeq++
		tag := byte('A' + r.tagSeq%26)
		val := rueidis.VerifCacheValue(r.payloadLen(in.K, in.C, in.Sz), tag, sx)
		px := r.st.Store().Update(in.K, in.C, val)
		o.pxat = r.msTick(px)
		o.rawHit = []rueidis.VerifMsg{{Tag: tag, ExpireAt: px}}
	case "Cancel":
		r.st.Store().Cancel(in.K, in.C, r.stepErr())
	case "Delete":
		r.st.Store().Delete(rueidis.VerifKeys(in.Ks))
	case "DeleteAll":
		r.st.Store().Delete(nil)
	case "Close":
		r.st.Store().Close(r.stepErr())
	case "GetTTL":
		d, ok := r.st.GetTTL(in.K, in.C)
		switch {
		case !ok:
			o.note = "store has no GetTTL"
		case d == -2:
			o.ttlr = -2
		default:
			// the wall clock has advanced by at most a few seconds since t0: round up to whole ticks
			ms := d.Milliseconds()
			o.ttlr = int((ms + tickMs - 1) / tickMs)
			if int64(o.ttlr)*tickMs-ms > 120_000 {
				o.ttlr = unrep
			}
		}
	case "Tick":
	default:
		o.note = "unknown operation " + in.Op
	}
	return o
}

func (r *runner) parkedAt() string {
	if r.pc == nil {
		return "none"
	}
	return r.pc.at
}

type stepError struct{ n int }

func (e *stepError) Error() string { return fmt.Sprintf("verif step error %d", e.n) }

// stepErr is the error value of the current step (identified by the number of steps applied).
func (r *runner) stepErr() error { return &stepError{n: len(r.applied)} }

func (r *runner) awaitPark() *obs {
	pc := r.pc
	select {
	case pt := <-pc.parked:
		ph := pt
		switch pt {
		case "lru.flight.move", "lru.flights.move":
			ph = "move"
		case "lru.flight.slow", "lru.flights.slow", "adapter.flight.slow":
			ph = "slow"
		}
		pc.at = ph
		return &obs{ph: ph, parked: true}
	case ob := <-pc.done:
		r.pc = nil
		return ob
	case <-time.After(hangTimeout):
		r.pc = nil
		return &obs{ph: "hang", note: "the Flight call neither returned nor reached a hook within " + hangTimeout.String()}
	}
}

// finish lets a parked call run to completion at the end of a behaviour.
func (r *runner) finish() {
	for i := 0; r.pc != nil && i < 3; i++ {
		select {
		case r.pc.release <- struct{}{}:
			r.awaitPark()
		case <-r.pc.done:
			r.pc = nil
		case <-time.After(hangTimeout):
			r.pc = nil
		}
	}
}
