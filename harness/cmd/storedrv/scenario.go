package main

import (
	"fmt"

	"github.com/redis/rueidis"
	"verifharness/vh"
)

// scenarioMode is the byte-sized workload of DESIGN.md section 5 C10: n small completed entries, some flights still
// pending between them, then one large reply against CacheSizeEachConn = 2000 bytes, so that one insert needs several
// evictions.  Only the property monitors decide (size <= max after Update, size = sum of completed entries, evicted
// entries are the least recently used completed ones, pending flights survive).
func scenarioMode(rep *vh.Report) {
	const max = 2000
	for _, n := range []int{2, 3, 5, 8} {
		for _, large := range []int{300, 900, 1500, 1900} {
			for _, pendingEvery := range []int{0, 2} {
				r := newRunner("lru", 0, 1024, rep)
				r.unit, r.max = 1, max
				r.st = rueidis.VerifNewLRU(max)
				curRunner.Store(r)
				size := func(k, c string, payload int) int {
					return rueidis.VerifEntryBaseSize + rueidis.VerifKeyCmdFactor*(len(k)+len(c)) + rueidis.VerifMessageStructSize + payload
				}
				var keys []string
				for i := 0; i < n; i++ {
					k := fmt.Sprintf("k%d", i)
					keys = append(keys, k)
					r.step(In{Op: "Flight", Items: []Item{{K: k, C: "GET", TTL: 1}}, At: 1})
					if pendingEvery > 0 && i%pendingEvery == 1 {
						r.step(In{Op: "Flight", Items: []Item{{K: k + "p", C: "GET", TTL: 1}}, At: 1}) // stays pending
					}
				}
				for _, k := range keys {
					r.step(In{Op: "Update", K: k, C: "GET", Srv: -1, Sz: size(k, "GET", 1), At: 1})
				}
				r.step(In{Op: "Flight", Items: []Item{{K: "big", C: "GET", TTL: 1}}, At: 1})
				r.step(In{Op: "Update", K: "big", C: "GET", Srv: -1, Sz: size("big", "GET", large), At: 1})
				post := r.snapshot()
				rep.Evaluations++
				if size("k0", "GET", 1)*n+size("big", "GET", large) > max+size("k0", "GET", 1) {
					rep.DistinctNontrivial++
				}
				if !r.failed {
					rep.Traces++
				}
				if n == 5 && large == 1500 && pendingEvery == 0 {
					rep.Sample(map[string]any{"scenario": "5 small + 1 large", "small_entry_bytes": size("k0", "GET", 1), "large_entry_bytes": size("big", "GET", large),
						"max": max, "size_after": post.size, "entries_after": len(post.entries)})
				}
			}
		}
	}
	rep.Rule = "byte-sized scenarios in which the last insert needs at least two evictions"
}
