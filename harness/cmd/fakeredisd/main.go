// fakeredisd exposes one fakeredis server on a TCP address, so that the add-on packages' own test suites (which
// expect a Redis on 127.0.0.1:6379) can be run against it inside a private network namespace:
//
//	unshare -n sh -c 'ip link set lo up; fakeredisd -addr 127.0.0.1:6379 & sleep 0.3; cd repo/rueidislock && go test ...'
//
// It is a regression aid for fix: commits, not part of any check.
package main

import (
	"flag"
	"io"
	"log"
	"net"

	"verifharness/fakeredis"
)

func main() {
	addr := flag.String("addr", "127.0.0.1:6379", "listen address")
	flag.Parse()
	srv := fakeredis.NewServer("tcp", fakeredis.Options{})
	ln, err := net.Listen("tcp", *addr)
	if err != nil {
		log.Fatal(err)
	}
	for {
		c, err := ln.Accept()
		if err != nil {
			log.Fatal(err)
		}
		s := srv.Dial(c.RemoteAddr().String())
		go func() { _, _ = io.Copy(s, c); s.Close(); c.Close() }()
		go func() { _, _ = io.Copy(c, s); c.Close(); s.Close() }()
	}
}
