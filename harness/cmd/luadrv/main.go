// luadrv replays scenarios enumerated by TLC from spec/addons/Lua.tla on real rueidis.Lua objects (all six
// constructors, WithLoadSHA1) over a real client connected to the fake Redis server, which executes the script text
// with luamini.  A scenario fixes the constructor, the initial script-cache state, the calls (Exec / ExecMulti with n
// LuaExec, arguments that make the body fail after its side effect), where SCRIPT FLUSH happens and which fault is
// injected at which command (error reply, cut before execution, execute then cut); it carries the command sequence,
// outcomes, body executions and results Lua.tla predicts.  The driver injects the environment part through the
// server's intercept, observes what the server received / executed / replied (event sink) and compares with the
// prediction.  The observed events are also written as an ndjson trace for validation against LuaTrace.tla.
package main

import (
	"bufio"
	"context"
	"encoding/json"
	"flag"
	"fmt"
	"os"
	"strings"
	"sync"
	"time"

	"github.com/redis/rueidis"
	"verifharness/fakeredis"
	"verifharness/vh"
)

var (
	casesPath = flag.String("cases", "", "ndjson file of TLC cases")
	tracePath = flag.String("trace", "", "ndjson trace output (observed behaviour)")
	traceMod  = flag.Int("tracemod", 1, "write every k-th scenario to the trace")
)

type event struct {
	Ev      string   `json:"ev"`
	Kind    string   `json:"kind"`
	Cached  bool     `json:"cached"`
	Mode    string   `json:"mode"`
	N       int      `json:"n"`
	Failing []int    `json:"failing"`
	C       string   `json:"c"`
	I       int      `json:"i"`
	O       string   `json:"o"`
	B       int      `json:"b"`
	Fault   string   `json:"fault"`
	Res     []string `json:"res"`
}
type tcase struct {
	Kind  string  `json:"kind"`
	Retry bool    `json:"retry"`
	Log   []event `json:"log"`
}

// one observed script command
type obs struct {
	argv   []string
	c      string
	i      int
	conn   int
	exec   bool // SCRIPT LOAD took effect / body ran
	b      int
	o      string
	closed bool
}

type env struct {
	retry  bool
	srv    *fakeredis.Server
	client rueidis.Client

	mu       sync.Mutex
	marker   string  // unique text of the current scenario's script
	sha      string  // its SHA-1
	expect   []event // the scenario's log
	cursor   int     // next event of the log the environment has to act on
	observed []*obs
	cur      map[int]*obs // per connection: the script command being processed
	problems []string
}

func scriptIndex(argv []string) int {
	// ARGV[1] is "a<i>": EVAL* name script|sha numkeys key... a<i> flag ...
	if len(argv) >= 5 {
		var nk, i int
		fmt.Sscan(argv[2], &nk)
		if 3+nk < len(argv) {
			if _, err := fmt.Sscanf(argv[3+nk], "a%d", &i); err == nil {
				return i
			}
		}
	}
	return 0
}

func (e *env) isOurs(argv []string) (string, bool) {
	up := strings.ToUpper(argv[0])
	switch up {
	case "SCRIPT":
		if len(argv) >= 3 && strings.ToUpper(argv[1]) == "LOAD" && strings.Contains(argv[2], e.marker) {
			return "SCRIPTLOAD", true
		}
	case "EVAL", "EVAL_RO":
		if len(argv) >= 2 && strings.Contains(argv[1], e.marker) {
			return up, true
		}
	case "EVALSHA", "EVALSHA_RO":
		if len(argv) >= 2 && strings.EqualFold(argv[1], e.sha) {
			return up, true
		}
	}
	return "", false
}

// intercept runs under the server's dispatcher mutex for every received command
func (e *env) intercept(c *fakeredis.Conn, argv []string) (fakeredis.Value, fakeredis.Action) {
	e.mu.Lock()
	defer e.mu.Unlock()
	if e.marker == "" {
		return fakeredis.Value{}, fakeredis.Pass
	}
	name, ours := e.isOurs(argv)
	if !ours {
		return fakeredis.Value{}, fakeredis.Pass
	}
	// environment steps scheduled before this command
	for e.cursor < len(e.expect) && e.expect[e.cursor].Ev == "Flush" {
		e.srv.Do("SCRIPT", "FLUSH")
		e.cursor++
	}
	o := &obs{c: name, i: scriptIndex(argv), conn: c.ID(), argv: append([]string(nil), argv...)}
	e.observed = append(e.observed, o)
	e.cur[c.ID()] = o
	fault := "none"
	if e.cursor < len(e.expect) && e.expect[e.cursor].Ev == "Cmd" {
		fault = e.expect[e.cursor].Fault
		e.cursor++
	} // otherwise the client sent a command the specification does not predict here: let it through, the comparison reports it
	switch fault {
	case "err":
		return fakeredis.Err("ERR injected"), fakeredis.Reply
	case "cutbefore":
		return fakeredis.Value{}, fakeredis.CutNow
	case "execcut":
		return fakeredis.Value{}, fakeredis.ExecThenCut
	}
	return fakeredis.Value{}, fakeredis.Pass
}

func (e *env) sink(ev fakeredis.Event) {
	if ev.Conn == 0 {
		return
	}
	e.mu.Lock()
	defer e.mu.Unlock()
	o := e.cur[ev.Conn]
	if o == nil || o.closed {
		return
	}
	switch ev.Kind {
	case fakeredis.SExec:
		if len(ev.Argv) > 0 {
			up := strings.ToUpper(ev.Argv[0])
			if up == "SCRIPT" && o.c == "SCRIPTLOAD" {
				o.exec = true
			}
			if strings.HasPrefix(up, "EVAL") && strings.Contains(ev.Note, "body:") && ev.Note != "lua" {
				o.exec, o.b = true, o.b+1
			}
		}
	case fakeredis.SRep:
		switch {
		case !ev.Reply.IsError():
			o.o = "ok"
		case strings.HasPrefix(ev.Reply.Str, "NOSCRIPT"):
			o.o = "noscript"
		case strings.HasPrefix(ev.Reply.Str, "BOOM"):
			o.o = "bodyerr"
		case ev.Reply.Str == "ERR injected":
			o.o = "err"
		default:
			o.o = "othererr:" + ev.Reply.Str
		}
		o.closed = true
	case fakeredis.SCut:
		if strings.Contains(ev.Note, "exec-then-cut") {
			o.o = "execcut"
		} else {
			o.o = "cutbefore"
		}
		o.closed = true
	}
}

func newEnv(retry bool) (*env, error) {
	e := &env{retry: retry, cur: map[int]*obs{}}
	e.srv = fakeredis.NewServer("lua", fakeredis.Options{})
	e.srv.SetEventSink(e.sink)
	e.srv.SetIntercept(e.intercept)
	n := fakeredis.NewNetwork()
	n.Add("127.0.0.1:6379", e.srv)
	c, err := rueidis.NewClient(rueidis.ClientOption{
		InitAddress:       []string{"127.0.0.1:6379"},
		DialCtxFn:         n.DialCtxFn(),
		ForceSingleClient: true,
		DisableRetry:      !retry,
		DisableCache:      true,
		RetryDelay:        func(int, rueidis.Completed, error) time.Duration { return 0 },
	})
	if err != nil {
		return nil, err
	}
	e.client = c
	return e, nil
}

const rwBody = `local v = redis.call('INCR', KEYS[1])
if ARGV[2] == 'fail' then return redis.error_reply('BOOM after the side effect') end
return {ARGV[1], v}`
const roBody = `local v = redis.call('GET', KEYS[1])
if ARGV[2] == 'fail' then return redis.error_reply('BOOM in the read-only body') end
return {ARGV[1], v}`

func mkLua(kind, text string) *rueidis.Lua {
	switch kind {
	case "std":
		return rueidis.NewLuaScript(text)
	case "ro":
		return rueidis.NewLuaScriptReadOnly(text)
	case "nosha":
		return rueidis.NewLuaScriptNoSha(text)
	case "ronosha":
		return rueidis.NewLuaScriptReadOnlyNoSha(text)
	case "retry":
		return rueidis.NewLuaScriptRetryable(text)
	case "noshartry":
		return rueidis.NewLuaScriptNoShaRetryable(text)
	case "stdload":
		return rueidis.NewLuaScript(text, rueidis.WithLoadSHA1(true))
	case "roload":
		return rueidis.NewLuaScriptReadOnly(text, rueidis.WithLoadSHA1(true))
	case "retryload":
		return rueidis.NewLuaScriptRetryable(text, rueidis.WithLoadSHA1(true))
	}
	return nil
}

func classify(r rueidis.RedisResult, want int) (class string, echoOK bool) {
	err := r.Error()
	if err == nil {
		arr, aerr := r.ToArray()
		if aerr != nil || len(arr) != 2 {
			return "ok", false
		}
		s, _ := arr[0].ToString()
		return "ok", s == fmt.Sprintf("a%d", want)
	}
	if re, ok := rueidis.IsRedisErr(err); ok {
		switch {
		case re.IsNoScript():
			return "noscript", true
		case strings.HasPrefix(re.Error(), "BOOM"):
			return "bodyerr", true
		case strings.Contains(re.Error(), "injected"):
			return "err", true
		}
		return "othererr:" + re.Error(), true
	}
	return "transport", true
}

func has(xs []int, x int) bool {
	for _, y := range xs {
		if y == x {
			return true
		}
	}
	return false
}

type result struct {
	bad bool
}

func (e *env) runCase(idx int, c tcase, rep *vh.Report, trace *[]map[string]any) {
	rng := vh.Rng(int64(idx))
	xkeys, xargs := []string{}, []string{}
	for i := rng.Intn(3); i > 0; i-- {
		xkeys = append(xkeys, fmt.Sprintf("{%d}x%d", idx, i))
	}
	for i := rng.Intn(3); i > 0; i-- {
		xargs = append(xargs, fmt.Sprintf("extra %d\r\n", i))
	}
	ro := strings.HasPrefix(c.Kind, "ro")
	marker := fmt.Sprintf("-- case %d retry=%v", idx, c.Retry)
	text := rwBody + "\n" + marker
	if ro {
		text = roBody + "\n" + marker
	}
	key := fmt.Sprintf("ctr:%d", idx)
	e.srv.Do("SET", key, "0")
	sha := e.srv.Do("SCRIPT", "LOAD", text).Str
	e.srv.Do("SCRIPT", "FLUSH")
	initCached := c.Log[0].Cached
	if initCached {
		e.srv.Do("SCRIPT", "LOAD", text)
	}
	e.mu.Lock()
	e.marker, e.sha, e.expect, e.cursor, e.observed, e.cur, e.problems = marker, sha, c.Log, 1, nil, map[int]*obs{}, nil
	e.mu.Unlock()
	defer func() { e.mu.Lock(); e.marker = ""; e.mu.Unlock() }()

	fail := func(mode, diff, what string) {
		sig := fmt.Sprintf("lua kind=%s mode=%s retry=%v diff=%s", c.Kind, mode, c.Retry, diff)
		rep.Violate(sig, what, c)
	}
	emit := func(ev string, kv ...any) {
		m := map[string]any{"ev": ev, "kind": c.Kind, "cached": false, "mode": "", "n": 0, "failing": []int{}, "c": "", "i": 0, "o": "", "b": 0, "res": []string{}, "cls": c.Kind}
		for i := 0; i+1 < len(kv); i += 2 {
			m[kv[i].(string)] = kv[i+1]
		}
		*trace = append(*trace, m)
	}
	emit("RESET", "cached", initCached)
	lua := mkLua(c.Kind, text)
	bad := false
	for {
		// environment steps at idle
		// (never call the server while holding e.mu: the intercept takes the two locks in the other order)
		e.mu.Lock()
		cur := e.cursor
		e.mu.Unlock()
		for cur < len(c.Log) && c.Log[cur].Ev == "Flush" {
			e.srv.Do("SCRIPT", "FLUSH")
			cur++
			emit("Flush")
		}
		if cur >= len(c.Log) {
			break
		}
		b := c.Log[cur]
		if b.Ev != "Begin" {
			rep.Inconcl("driver: scenario out of step at event %d (%s)", cur, b.Ev)
			return
		}
		begin := cur
		e.mu.Lock()
		e.cursor = cur + 1
		obs0 := len(e.observed)
		e.mu.Unlock()
		emit("Begin", "mode", b.Mode, "n", b.N, "failing", append([]int{}, b.Failing...))

		before := e.srv.Do("GET", key).Str
		ctx, cancel := context.WithTimeout(context.Background(), 10*time.Second)
		var rs []rueidis.RedisResult
		flag := func(i int) string {
			if has(b.Failing, i) {
				return "fail"
			}
			return "pass"
		}
		done := make(chan struct{})
		go func() {
			defer close(done)
			if b.Mode == "exec" {
				rs = []rueidis.RedisResult{lua.Exec(ctx, e.client, append([]string{key}, xkeys...), append([]string{"a1", flag(1)}, xargs...))}
			} else {
				multi := make([]rueidis.LuaExec, b.N)
				for i := range multi {
					multi[i] = rueidis.LuaExec{Keys: append([]string{key}, xkeys...), Args: append([]string{fmt.Sprintf("a%d", i+1), flag(i + 1)}, xargs...)}
				}
				rs = lua.ExecMulti(ctx, e.client, multi...)
			}
		}()
		select {
		case <-done:
		case <-time.After(20 * time.Second):
			cancel()
			rep.Inconcl("call did not return within 20s: kind=%s mode=%s", c.Kind, b.Mode)
			return
		}
		cancel()
		after := e.srv.Do("GET", key).Str

		// predicted part of the log for this call
		var wantCmds []event
		var wantEnd *event
		k := begin + 1
		for ; k < len(c.Log); k++ {
			if c.Log[k].Ev == "Cmd" {
				wantCmds = append(wantCmds, c.Log[k])
			} else if c.Log[k].Ev == "End" {
				wantEnd = &c.Log[k]
				break
			}
		}
		e.mu.Lock()
		got := append([]*obs(nil), e.observed[obs0:]...)
		// Flush events consumed by the intercept during the call are interleaved by position: re-derive from the log
		e.cursor = k + 1
		e.mu.Unlock()
		// emit observed events in the order they happened, with the scenario's Flush positions
		gi := 0
		for q := begin + 1; q < k; q++ {
			if c.Log[q].Ev == "Flush" {
				emit("Flush")
			} else if c.Log[q].Ev == "Cmd" && gi < len(got) {
				emit("Cmd", "c", got[gi].c, "i", got[gi].i, "o", got[gi].o, "b", got[gi].b, "cls", c.Kind+"/"+got[gi].c)
				gi++
			}
		}
		for ; gi < len(got); gi++ {
			emit("Cmd", "c", got[gi].c, "i", got[gi].i, "o", got[gi].o, "b", got[gi].b, "cls", c.Kind+"/"+got[gi].c)
		}
		for _, o := range got {
			if o.c == "SCRIPTLOAD" {
				continue
			}
			want := append([]string{fmt.Sprint(1 + len(xkeys)), key}, xkeys...)
			want = append(want, fmt.Sprintf("a%d", o.i), flag(o.i))
			want = append(want, xargs...)
			if len(o.argv) < 2 || strings.Join(o.argv[2:], "\x00") != strings.Join(want, "\x00") {
				bad = true
				fail(b.Mode, "arguments", fmt.Sprintf("%s carried numkeys/keys/args %q, the caller passed %q", o.c, o.argv[2:], want))
			}
		}
		classes := make([]string, len(rs))
		for i, r := range rs {
			cl, echo := classify(r, i+1)
			classes[i] = cl
			if !echo {
				bad = true
				fail(b.Mode, "result-not-positional", fmt.Sprintf("result %d of %s does not carry the arguments of LuaExec %d: %v", i+1, b.Mode, i+1, r))
			}
		}
		emit("End", "res", classes)

		// comparison with the prediction
		desc := func(o *obs) string { return fmt.Sprintf("%s[%d]->%s/body=%d", o.c, o.i, o.o, o.b) }
		var gs, ws []string
		for _, o := range got {
			gs = append(gs, desc(o))
		}
		for _, w := range wantCmds {
			ws = append(ws, fmt.Sprintf("%s[%d]->%s/body=%d", w.C, w.I, w.O, w.B))
		}
		if strings.Join(gs, " ") != strings.Join(ws, " ") {
			bad = true
			diff := "commands"
			nb, wb := 0, 0
			for _, o := range got {
				nb += o.b
			}
			for _, w := range wantCmds {
				wb += w.B
			}
			switch {
			case nb > wb:
				diff = "body-ran-more-often"
			case len(got) > len(wantCmds):
				diff = "extra-command-" + got[len(wantCmds)].c
			case len(got) < len(wantCmds):
				diff = "missing-command-" + wantCmds[len(got)].C
			default:
				for i := range got {
					if got[i].c != wantCmds[i].C {
						diff = "command-" + got[i].c + "-instead-of-" + wantCmds[i].C
						break
					}
				}
			}
			fail(b.Mode, diff, fmt.Sprintf("server saw [%s], Lua.tla predicts [%s]", strings.Join(gs, " "), strings.Join(ws, " ")))
		}
		if wantEnd != nil && strings.Join(classes, ",") != strings.Join(wantEnd.Res, ",") {
			bad = true
			fail(b.Mode, "results", fmt.Sprintf("results %v, Lua.tla predicts %v (commands [%s])", classes, wantEnd.Res, strings.Join(gs, " ")))
		}
		if !ro {
			var bi, ai, wb int
			fmt.Sscan(before, &bi)
			fmt.Sscan(after, &ai)
			for _, w := range wantCmds {
				wb += w.B
			}
			if ai-bi != wb {
				bad = true
				fail(b.Mode, "counter", fmt.Sprintf("the script's INCR ran %d times during the call, Lua.tla predicts %d body executions (commands [%s])", ai-bi, wb, strings.Join(gs, " ")))
			}
		}
	}
	rep.Evaluations++
	rep.Traces++
	nontrivial := false
	for _, ev := range c.Log {
		if ev.Ev == "Flush" || (ev.Ev == "Cmd" && (ev.O != "ok" || ev.C == "SCRIPTLOAD")) {
			nontrivial = true
		}
	}
	if nontrivial {
		rep.DistinctNontrivial++
		if !bad {
			rep.Sample(c)
		}
	}
}

func main() {
	flag.Parse()
	rep := &vh.Report{Rule: "distinct scenarios in which at least one command is not answered with a plain success (NOSCRIPT, error reply, body error, transport fault), a SCRIPT LOAD is sent, or SCRIPT FLUSH happens"}
	defer func() { rep.Write(*vh.Out) }()
	envs := map[bool]*env{}
	f, err := os.Open(*casesPath)
	if err != nil {
		rep.Inconcl("cannot open cases: %v", err)
		return
	}
	defer f.Close()
	sc := bufio.NewScanner(f)
	sc.Buffer(make([]byte, 1<<20), 1<<26)
	traces := map[bool]*[]map[string]any{false: {}, true: {}}
	idx := 0
	for sc.Scan() {
		var c tcase
		if err := json.Unmarshal(sc.Bytes(), &c); err != nil {
			rep.Inconcl("bad case: %v", err)
			continue
		}
		idx++
		e := envs[c.Retry]
		if e == nil {
			if e, err = newEnv(c.Retry); err != nil {
				rep.Inconcl("cannot create client: %v", err)
				return
			}
			envs[c.Retry] = e
			defer e.client.Close()
		}
		if idx%*traceMod == 0 {
			e.runCase(idx, c, rep, traces[c.Retry])
		} else {
			var sink []map[string]any
			t0 := rep.Traces
			e.runCase(idx, c, rep, &sink)
			rep.Traces = t0 // replayed and compared with the prediction, but not written to the trace
		}
	}
	if *tracePath != "" {
		for retry, tr := range traces {
			if len(*tr) == 0 {
				continue
			}
			p := fmt.Sprintf("%s.retry-%v.ndjson", *tracePath, retry)
			if err := vh.WriteNDJSON(p, [][]map[string]any{*tr}); err != nil {
				rep.Inconcl("cannot write trace: %v", err)
			}
		}
	}
	rep.Assumptions = append(rep.Assumptions,
		"server = fakeredis executing the script text with luamini; standalone client (Nodes() = one node), RESP3, no client-side cache",
		"one caller at a time per Lua object (concurrent Exec on one object is not explored)")
}
