// accessdrv binds spec/data/Accessors.tla to the typed reply accessors of redis/rueidis (properties C15 and C16).
//
// Input (-cases): one JSON object per line, the CASE records TLC printed while enumerating the initial states of
// Accessors.tla.  Every record carries a reply tree and what the specification predicts for it:
//
//	C15  rules    outcome class -> accessors (V value, N Nil, R *RedisError with the reply's text, P parse error,
//	              VE value or error, A anything but a panic, T the transport error of the RedisResult,
//	              X an error of whatever kind - family comp: one malformed component of a structured reply)
//	     classify expected result of every RedisError classifier for the error-text grammar
//	C16  exp      accessor -> the exact Go value it must return ({"Fail_":true}: an error; {"Dec_":text}: the integer
//	              with that decimal text; {"F2_":[s,e]}: s*2^e; {"Inf_":s}, {"NaN_":true})
//
// The tree is encoded to RESP bytes (fakeredis.Value.Encode for everything the independent codec can express; the
// streamed, attribute and RESP2-null framings by hand), decoded with the real decoder (rueidis.VerifDecode) and
// EVERY method of *RedisMessage and *RedisResult found by reflection is applied under recover, plus
// DecodeSliceOfJSON and every method of *RedisError.  Nothing about the accessors' rules is re-implemented
// here: the driver classifies what it observes and compares it with the record.
//
// Violation signatures:  <accessor>-panics-on-<shape class>
//
//	<accessor>-returns-<observed>-instead-of-<expected>-on-<shape class>
//	<accessor>-wrong-error-text-on-<shape class>
//	<classifier>-wrong-on-<error text class>
//	<accessor>-wrong-<data class>-<resp2|resp3>
package main

import (
	"bufio"
	"bytes"
	"encoding/json"
	"errors"
	"flag"
	"fmt"
	"io"
	"os"
	"math"
	"reflect"
	"sort"
	"strconv"
	"strings"

	"github.com/redis/rueidis"
	"verifharness/fakeredis"
	"verifharness/vh"
)

var casesPath = flag.String("cases", "", "ndjson file with the CASE records printed by TLC")

// ------------------------------------------------------------------------------------------------ case records

type Node struct {
	T string `json:"t"`
	S string `json:"s"`
	I int64  `json:"i"`
	D int64  `json:"d"`
	A []Node `json:"a"`
}

type ExpEntry struct {
	Acc string `json:"acc"`
	Val any    `json:"val"`
}

type Case struct {
	Prop     string                     `json:"prop"`
	Fam      string                     `json:"fam"`
	Cls      string                     `json:"cls"`
	Proto    int                        `json:"proto"`
	Tree     Node                       `json:"tree"`
	Exp      []ExpEntry                 `json:"exp"`
	Rules    map[string][]string        `json:"rules"`
	ErrText  string                     `json:"errtext"`
	Classify map[string]json.RawMessage `json:"classify"`
}

func (n Node) String() string {
	switch n.T {
	case "int", "bool":
		return n.T + ":" + strconv.FormatInt(n.I, 10)
	case "err", "bloberr":
		return n.T + ":" + strconv.Quote(rawErr(n))
	}
	if len(n.A) > 0 || isAgg(n.T) {
		parts := make([]string, len(n.A))
		for i, c := range n.A {
			parts[i] = c.String()
		}
		return n.T + "[" + strings.Join(parts, " ") + "]"
	}
	if n.T == "null" || n.T == "nullbulk" || n.T == "nullarr" || n.T == "end" {
		return n.T
	}
	return n.T + ":" + strconv.Quote(n.S)
}

func size(n Node) int {
	s := 1
	for _, c := range n.A {
		s += size(c)
	}
	return s
}

func isAgg(t string) bool {
	switch t {
	case "arr", "set", "map", "push", "sarr", "sset", "smap", "attr":
		return true
	}
	return false
}

func rawErr(n Node) string {
	if n.I == 1 {
		return "ERR " + n.S
	}
	return n.S
}

// ------------------------------------------------------------------------------------------------ encoding

// plain reports whether fakeredis.Value can express the whole subtree.
func plain(n Node) bool {
	switch n.T {
	case "bulk", "simple", "int", "null", "double", "bool", "big", "verb", "err", "bloberr":
		return true
	case "arr", "set", "push", "map":
		if n.T == "map" && len(n.A)%2 != 0 {
			return false
		}
		for _, c := range n.A {
			if !plain(c) {
				return false
			}
		}
		return true
	}
	return false
}

func toValue(n Node) fakeredis.Value {
	kids := func() []fakeredis.Value {
		out := make([]fakeredis.Value, len(n.A))
		for i, c := range n.A {
			out[i] = toValue(c)
		}
		return out
	}
	switch n.T {
	case "bulk":
		return fakeredis.Bulk(n.S)
	case "simple":
		return fakeredis.Simple(n.S)
	case "int":
		return fakeredis.Int(n.I)
	case "null":
		return fakeredis.Null()
	case "double":
		return fakeredis.Value{Typ: fakeredis.TDouble, Str: n.S}
	case "bool":
		return fakeredis.Bool(n.I == 1)
	case "big":
		return fakeredis.BigNumber(n.S)
	case "verb":
		return fakeredis.Value{Typ: fakeredis.TVerbatim, Str: n.S}
	case "err":
		return fakeredis.Err(rawErr(n))
	case "bloberr":
		return fakeredis.BlobErr(rawErr(n))
	case "arr":
		return fakeredis.Array(kids()...)
	case "set":
		return fakeredis.Set(kids()...)
	case "push":
		return fakeredis.Push(kids()...)
	case "map":
		return fakeredis.Map(kids()...)
	}
	panic("toValue: " + n.T)
}

func encode(b []byte, n Node) []byte {
	if plain(n) {
		return append(b, toValue(n).Encode(3)...)
	}
	kids := func(b []byte) []byte {
		for _, c := range n.A {
			b = encode(b, c)
		}
		return b
	}
	hdr := func(b []byte, typ byte, cnt int) []byte {
		b = append(b, typ)
		b = strconv.AppendInt(b, int64(cnt), 10)
		return append(b, '\r', '\n')
	}
	switch n.T {
	case "nullbulk":
		return append(b, "$-1\r\n"...)
	case "intx": // an integer reply given by its decimal text (beyond TLC's 32 bits)
		return append(append(append(b, ':'), n.S...), '\r', '\n')
	case "nullarr":
		return append(b, "*-1\r\n"...)
	case "end":
		return append(b, ".\r\n"...)
	case "sbulk": // two chunks where possible
		b = append(b, "$?\r\n"...)
		h := len(n.S) / 2
		for _, part := range []string{n.S[:h], n.S[h:]} {
			if part != "" {
				b = append(b, ';')
				b = strconv.AppendInt(b, int64(len(part)), 10)
				b = append(b, '\r', '\n')
				b = append(b, part...)
				b = append(b, '\r', '\n')
			}
		}
		return append(b, ";0\r\n"...)
	case "sarr":
		return append(kids(append(b, "*?\r\n"...)), ".\r\n"...)
	case "sset":
		return append(kids(append(b, "~?\r\n"...)), ".\r\n"...)
	case "smap":
		return append(kids(append(b, "%?\r\n"...)), ".\r\n"...)
	case "attr": // attribute pairs, then the value
		return kids(hdr(b, '|', (len(n.A)-1)/2))
	case "arr":
		return kids(hdr(b, '*', len(n.A)))
	case "set":
		return kids(hdr(b, '~', len(n.A)))
	case "push":
		return kids(hdr(b, '>', len(n.A)))
	case "map":
		if len(n.A)%2 != 0 {
			panic("odd map must be streamed")
		}
		return kids(hdr(b, '%', len(n.A)/2))
	}
	panic("encode: " + n.T)
}

func decode(b []byte) (rueidis.RedisMessage, error) {
	r := bufio.NewReader(bytes.NewReader(b))
	m, err := rueidis.VerifDecode(r)
	if err != nil {
		return m, err
	}
	if r.Buffered() != 0 {
		return m, fmt.Errorf("decoder left %d of %d bytes unread", r.Buffered(), len(b))
	}
	return m, nil
}

// ------------------------------------------------------------------------------------------------ applying accessors

type outcome struct {
	panicked string
	outs     []reflect.Value
	err      error
	hasErr   bool // the method has a trailing error result
}

var errType = reflect.TypeOf((*error)(nil)).Elem()

func call(fn reflect.Value, args []reflect.Value) (o outcome) {
	defer func() {
		if r := recover(); r != nil {
			o.panicked = fmt.Sprint(r)
		}
	}()
	outs := fn.Call(args)
	t := fn.Type()
	if n := t.NumOut(); n > 0 && t.Out(n-1) == errType {
		o.hasErr = true
		if e := outs[n-1]; !e.IsNil() {
			o.err = e.Interface().(error)
		}
		outs = outs[:n-1]
	}
	o.outs = outs
	return o
}

type jsonDoc struct {
	N int
	S string
}

// apply calls method `name` of recv (a *RedisMessage or *RedisResult) with the arguments this driver knows how to
// supply.  ok=false: the signature is not handled (reported as inconclusive so that new accessors are noticed).
func apply(recv reflect.Value, m reflect.Method) (o outcome, ok bool) {
	fn := recv.Method(m.Index)
	switch {
	case fn.Type().NumIn() == 0:
		return call(fn, nil), true
	case m.Name == "DecodeJSON":
		dst := new(any)
		o = call(fn, []reflect.Value{reflect.ValueOf(dst)})
		o.outs = []reflect.Value{reflect.ValueOf(dst).Elem()}
		return o, true
	case m.Name == "CacheMarshal":
		return call(fn, []reflect.Value{reflect.ValueOf([]byte(nil))}), true
	case m.Name == "CacheUnmarshalView":
		mar := call(recv.MethodByName("CacheMarshal"), []reflect.Value{reflect.ValueOf([]byte(nil))})
		if mar.panicked != "" {
			return mar, true
		}
		var fresh rueidis.RedisMessage
		return call(reflect.ValueOf(&fresh).MethodByName("CacheUnmarshalView"), mar.outs[:1]), true
	}
	return o, false
}

func sliceOfJSON(res rueidis.RedisResult) (o outcome) {
	defer func() {
		if r := recover(); r != nil {
			o.panicked = fmt.Sprint(r)
		}
	}()
	var dest []jsonDoc
	o.hasErr = true
	o.err = rueidis.DecodeSliceOfJSON(res, &dest)
	o.outs = []reflect.Value{reflect.ValueOf(dest)}
	return o
}

// class of an observed outcome
func observe(o outcome) string {
	switch {
	case o.panicked != "":
		return "panic"
	case o.err == nil:
		return "V"
	case o.err == error(rueidis.Nil):
		return "N"
	}
	if _, ok := o.err.(*rueidis.RedisError); ok {
		return "R"
	}
	if rueidis.IsParseErr(o.err) {
		return "P"
	}
	return "E"
}

func allowed(expected, observed string) bool {
	switch expected {
	case "A":
		return observed != "panic"
	case "VE":
		return observed != "panic"
	case "X": // an error of whatever kind: not a value, not a panic
		return observed == "N" || observed == "R" || observed == "P" || observed == "E"
	}
	return expected == observed
}

// ------------------------------------------------------------------------------------------------ canonical values

type msgNode struct{ m rueidis.RedisMessage }

var multiOut = map[string][]string{
	"AsFtSearch":          {"Total", "Docs"},
	"AsFtAggregate":       {"Total", "Docs"},
	"AsFtAggregateCursor": {"Cursor", "Total", "Docs"},
}

var msgType = reflect.TypeOf(rueidis.RedisMessage{})

func canon(v reflect.Value) any {
	if !v.IsValid() {
		return nil
	}
	if v.Type() == msgType {
		return msgNode{v.Interface().(rueidis.RedisMessage)}
	}
	switch v.Kind() {
	case reflect.Interface, reflect.Pointer:
		if v.IsNil() {
			return nil
		}
		if e, ok := v.Interface().(error); ok {
			return map[string]any{"Err_": e.Error()}
		}
		if r, ok := v.Interface().(io.Reader); ok {
			b, _ := io.ReadAll(r)
			return string(b)
		}
		return canon(v.Elem())
	case reflect.String:
		return v.String()
	case reflect.Bool:
		return v.Bool()
	case reflect.Int, reflect.Int8, reflect.Int16, reflect.Int32, reflect.Int64:
		return v.Int()
	case reflect.Uint, reflect.Uint8, reflect.Uint16, reflect.Uint32, reflect.Uint64:
		return v.Uint()
	case reflect.Float32, reflect.Float64:
		return v.Float()
	case reflect.Slice, reflect.Array:
		if v.Kind() == reflect.Slice && v.IsNil() {
			return nil
		}
		if v.Type().Elem().Kind() == reflect.Uint8 {
			return string(v.Bytes())
		}
		out := make([]any, v.Len())
		for i := range out {
			out[i] = canon(v.Index(i))
		}
		return out
	case reflect.Map:
		if v.IsNil() {
			return nil
		}
		out := make(map[string]any, v.Len())
		it := v.MapRange()
		for it.Next() {
			out[fmt.Sprint(it.Key().Interface())] = canon(it.Value())
		}
		return out
	case reflect.Struct:
		out := map[string]any{}
		for i := 0; i < v.NumField(); i++ {
			if f := v.Type().Field(i); f.IsExported() {
				out[f.Name] = canon(v.Field(i))
			}
		}
		return out
	}
	return fmt.Sprintf("<%s>", v.Kind())
}

func canonOuts(name string, outs []reflect.Value) any {
	if len(outs) == 1 {
		return canon(outs[0])
	}
	names, ok := multiOut[name]
	if !ok || len(names) != len(outs) {
		return fmt.Sprintf("<%d results of %s>", len(outs), name)
	}
	m := map[string]any{}
	for i, n := range names {
		m[n] = canon(outs[i])
	}
	return m
}

func emptyish(act any) bool {
	switch a := act.(type) {
	case nil:
		return true
	case []any:
		return len(a) == 0
	case map[string]any:
		return len(a) == 0
	}
	return false
}

var typNames = map[byte]string{'$': "bulk", '+': "simple", ':': "int", '_': "null", ',': "double", '#': "bool", '(': "big",
	'=': "verb", '-': "err", '!': "bloberr", '*': "arr", '~': "set", '%': "map", '>': "push", '.': "end"}

func numOf(x any) (int64, bool) {
	if n, ok := x.(json.Number); ok {
		v, err := n.Int64()
		return v, err == nil
	}
	return 0, false
}

// matchNode compares a decoded message with a node of the specification (already normalised by Norm).
func matchNode(exp map[string]any, m rueidis.RedisMessage, path string) string {
	typ, str, n, vals, _ := rueidis.VerifMsgView(m)
	t, _ := exp["t"].(string)
	if typNames[typ] != t {
		return fmt.Sprintf("%s: message type %q, expected %s", path, typ, t)
	}
	es, _ := exp["s"].(string)
	ei, _ := numOf(exp["i"])
	switch t {
	case "bulk", "simple", "big", "verb", "double":
		if str != es {
			return fmt.Sprintf("%s: payload %q, expected %q", path, str, es)
		}
	case "err", "bloberr":
		if ei == 1 {
			es = "ERR " + es
		}
		if str != es {
			return fmt.Sprintf("%s: error text %q, expected %q", path, str, es)
		}
	case "int", "bool":
		if n != ei {
			return fmt.Sprintf("%s: integer %d, expected %d", path, n, ei)
		}
	}
	ea, _ := exp["a"].([]any)
	if len(ea) != len(vals) {
		return fmt.Sprintf("%s: %d children, expected %d", path, len(vals), len(ea))
	}
	for i := range ea {
		if d := matchNode(ea[i].(map[string]any), vals[i], fmt.Sprintf("%s[%d]", path, i)); d != "" {
			return d
		}
	}
	return ""
}

// match compares the expected value of the specification (JSON) with the canonical form of the observed Go value.
// It returns "" or a description of the first difference.
func match(exp, act any, path string) string {
	switch e := exp.(type) {
	case nil:
		if !emptyish(act) {
			return fmt.Sprintf("%s: got %v, expected nil", path, show(act))
		}
	case bool:
		if a, ok := act.(bool); !ok || a != e {
			return fmt.Sprintf("%s: got %v, expected %v", path, show(act), e)
		}
	case string:
		if a, ok := act.(string); !ok || a != e {
			return fmt.Sprintf("%s: got %v, expected %q", path, show(act), e)
		}
	case json.Number:
		want, ok := numOf(e)
		if !ok {
			return fmt.Sprintf("%s: unusable expected number %s", path, e)
		}
		switch a := act.(type) {
		case int64:
			if a != want {
				return fmt.Sprintf("%s: got %d, expected %d", path, a, want)
			}
		case uint64:
			if want < 0 || a != uint64(want) {
				return fmt.Sprintf("%s: got %d, expected %d", path, a, want)
			}
		case float64:
			if a != float64(want) {
				return fmt.Sprintf("%s: got %v, expected %d", path, a, want)
			}
		default:
			return fmt.Sprintf("%s: got %v, expected the number %d", path, show(act), want)
		}
	case []any:
		if len(e) == 0 {
			if !emptyish(act) {
				return fmt.Sprintf("%s: got %v, expected an empty list/map", path, show(act))
			}
			return ""
		}
		a, ok := act.([]any)
		if !ok || len(a) != len(e) {
			return fmt.Sprintf("%s: got %v, expected a list of %d", path, show(act), len(e))
		}
		for i := range e {
			if d := match(e[i], a[i], fmt.Sprintf("%s[%d]", path, i)); d != "" {
				return d
			}
		}
	case map[string]any:
		if f, ok := e["F_"]; ok && len(e) == 1 { // exactly num/den
			nd := f.([]any)
			num, _ := numOf(nd[0])
			den, _ := numOf(nd[1])
			if a, ok := act.(float64); !ok || a != float64(num)/float64(den) {
				return fmt.Sprintf("%s: got %v, expected the float %d/%d", path, show(act), num, den)
			}
			return ""
		}
		if _, ok := e["Nil_"]; ok && len(e) == 1 {
			if !emptyish(act) {
				return fmt.Sprintf("%s: got %v, expected nil", path, show(act))
			}
			return ""
		}
		if d, ok := e["Dec_"]; ok && len(e) == 1 { // the integer whose decimal text is d
			var got string
			switch a := act.(type) {
			case int64:
				got = strconv.FormatInt(a, 10)
			case uint64:
				got = strconv.FormatUint(a, 10)
			default:
				return fmt.Sprintf("%s: got %v, expected the integer %v", path, show(act), d)
			}
			if got != d.(string) {
				return fmt.Sprintf("%s: got %s, expected %v", path, got, d)
			}
			return ""
		}
		if f, ok := e["F2_"]; ok && len(e) == 1 { // sign * 2^exp
			se := f.([]any)
			sg, _ := numOf(se[0])
			ex, _ := numOf(se[1])
			if a, ok := act.(float64); !ok || a != math.Ldexp(float64(sg), int(ex)) {
				return fmt.Sprintf("%s: got %v, expected the float %d*2^%d", path, show(act), sg, ex)
			}
			return ""
		}
		if f, ok := e["Inf_"]; ok && len(e) == 1 {
			sg, _ := numOf(f)
			if a, ok := act.(float64); !ok || !math.IsInf(a, int(sg)) {
				return fmt.Sprintf("%s: got %v, expected %d*infinity", path, show(act), sg)
			}
			return ""
		}
		if _, ok := e["NaN_"]; ok && len(e) == 1 {
			if a, ok := act.(float64); !ok || !math.IsNaN(a) {
				return fmt.Sprintf("%s: got %v, expected NaN", path, show(act))
			}
			return ""
		}
		if mn, ok := act.(msgNode); ok {
			return matchNode(e, mn.m, path)
		}
		a, ok := act.(map[string]any)
		if !ok || len(a) != len(e) {
			return fmt.Sprintf("%s: got %v, expected a map/struct with %d entries %v", path, show(act), len(e), keysOf(e))
		}
		for k, ev := range e {
			av, ok := a[k]
			if !ok {
				return fmt.Sprintf("%s: key %q missing in %v", path, k, show(act))
			}
			if d := match(ev, av, path+"."+k); d != "" {
				return d
			}
		}
	default:
		return fmt.Sprintf("%s: unsupported expected value %T", path, exp)
	}
	return ""
}

func keysOf(m map[string]any) []string {
	ks := make([]string, 0, len(m))
	for k := range m {
		ks = append(ks, k)
	}
	sort.Strings(ks)
	return ks
}

func show(v any) string {
	switch a := v.(type) {
	case msgNode:
		return a.m.String()
	case []any:
		parts := make([]string, len(a))
		for i := range a {
			parts[i] = show(a[i])
		}
		return "[" + strings.Join(parts, " ") + "]"
	case map[string]any:
		parts := []string{}
		for _, k := range keysOf(a) {
			parts = append(parts, k+":"+show(a[k]))
		}
		return "{" + strings.Join(parts, " ") + "}"
	case string:
		return strconv.Quote(a)
	}
	return fmt.Sprintf("%v(%T)", v, v)
}

// ------------------------------------------------------------------------------------------------ the run

type runner struct {
	rep         *vh.Report
	sigs        map[string]int // signature -> occurrences
	perAcc      map[string]int // accessor/kind -> distinct signatures reported
	unhandled   map[string]bool
	norule      map[string]bool
	missing     map[string]bool
	methodsSeen map[string]bool
	distinct    map[string]bool
	evals       int
}

// C15: at most this many distinct failing shape classes are listed per accessor and shape family (simplest shapes
// first); the rest is summarised in one "<accessor> in family <f>-more-signatures-suppressed" violation
const maxSigsPerAccessor = 4

func (r *runner) violate(acc, sig, what string, c *Case, wire []byte) {
	r.sigs[sig]++
	if r.sigs[sig] > 1 {
		return
	}
	if c.Prop == "C15" { // C16 signatures are few (data class x protocol): all of them are listed
		key := acc + " in family " + c.Fam
		r.perAcc[key]++
		if r.perAcc[key] > maxSigsPerAccessor {
			return // counted in extra.suppressed_signatures
		}
	}
	r.rep.Violate(sig, what, map[string]any{"case": c, "wire": string(wire), "tree": c.Tree.String()})
}

var transportErr = errors.New("verif: simulated transport error")

func (r *runner) targets(c *Case, msg rueidis.RedisMessage) map[string]reflect.Value {
	if c.Fam == "neterr" {
		res := rueidis.NewErrorResult(transportErr)
		return map[string]reflect.Value{"RedisResult": reflect.ValueOf(&res)}
	}
	m := msg
	res := rueidis.NewResult(msg, nil)
	return map[string]reflect.Value{"RedisMessage": reflect.ValueOf(&m), "RedisResult": reflect.ValueOf(&res)}
}

func (r *runner) runCase(c *Case) {
	wire := encode(nil, c.Tree)
	msg, err := decode(wire)
	if err != nil {
		r.rep.Inconcl("case %s/%s: the real decoder rejects %q (%s): %v", c.Fam, c.Cls, wire, c.Tree, err)
		return
	}
	r.distinct[string(wire)] = true

	ruleOf := map[string]string{}
	for cl, accs := range c.Rules {
		for _, a := range accs {
			ruleOf[a] = cl
		}
	}
	expOf := map[string]any{}
	for _, e := range c.Exp {
		expOf[e.Acc] = e.Val
	}
	used := map[string]bool{}
	proto := "resp" + strconv.Itoa(c.Proto)

	check := func(recvName, name string, o outcome) {
		r.evals++
		full := recvName + "." + name
		obs := observe(o)
		if obs == "panic" {
			used[name] = true
			if c.Prop == "C16" {
				if _, inExp := expOf[name]; !inExp {
					return // panics on shapes outside an accessor's domain are C15's business (family mut/none)
				}
				r.violate(name, fmt.Sprintf("%s-wrong-%s-%s", name, c.Cls, proto),
					fmt.Sprintf("%s panics on the %s reply %s: %s", full, strings.ToUpper(proto), c.Tree, o.panicked), c, wire)
				return
			}
			r.violate(name, fmt.Sprintf("%s-panics-on-%s", name, c.Cls),
				fmt.Sprintf("%s panics on %s (wire %q): %s", full, c.Tree, wire, o.panicked), c, wire)
			return
		}
		if c.Prop == "C15" {
			want, ok := ruleOf[name]
			if !ok {
				if o.hasErr && name != "NonRedisError" && name != "CacheUnmarshalView" {
					r.norule[name] = true
				}
				if c.Fam == "neterr" && name == "NonRedisError" && o.err != transportErr {
					r.violate(name, "NonRedisError-loses-transport-error", fmt.Sprintf("%s returned %v", full, o.err), c, wire)
				}
				return
			}
			used[name] = true
			if want == "T" {
				if o.err != transportErr {
					r.violate(name, fmt.Sprintf("%s-returns-%s-instead-of-T-on-%s", name, obs, c.Cls),
						fmt.Sprintf("%s on a RedisResult holding a transport error returned err=%v", full, o.err), c, wire)
				}
				return
			}
			if !allowed(want, obs) {
				r.violate(name, fmt.Sprintf("%s-returns-%s-instead-of-%s-on-%s", name, obs, want, c.Cls),
					fmt.Sprintf("%s on %s: outcome class %s (err=%v), the specification says %s", full, c.Tree, obs, o.err, want), c, wire)
				return
			}
			if want == "R" && o.err.Error() != c.ErrText {
				r.violate(name, fmt.Sprintf("%s-wrong-error-text-on-%s", name, c.Cls),
					fmt.Sprintf("%s on %s: error text %q, expected %q", full, c.Tree, o.err.Error(), c.ErrText), c, wire)
			}
			return
		}
		// C16: exact value
		want, ok := expOf[name]
		if !ok {
			return
		}
		used[name] = true
		sig := fmt.Sprintf("%s-wrong-%s-%s", name, c.Cls, proto)
		if wm, isMap := want.(map[string]any); isMap && len(wm) == 1 && wm["Fail_"] != nil { // the specification predicts an error
			if o.err == nil {
				r.violate(name, sig, fmt.Sprintf("%s on the %s reply %s: returned %s without an error; the specification predicts an error",
					full, strings.ToUpper(proto), c.Tree, show(canonOuts(name, o.outs))), c, wire)
			}
			return
		}
		if o.err != nil {
			r.violate(name, sig, fmt.Sprintf("%s on the %s reply %s: unexpected error %v; expected %s",
				full, strings.ToUpper(proto), c.Tree, o.err, mustJSON(want)), c, wire)
			return
		}
		if d := match(want, canonOuts(name, o.outs), name); d != "" {
			r.violate(name, sig, fmt.Sprintf("%s on the %s reply %s: %s; expected %s, got %s",
				full, strings.ToUpper(proto), c.Tree, d, mustJSON(want), show(canonOuts(name, o.outs))), c, wire)
		}
	}

	for recvName, recv := range r.targets(c, msg) {
		t := recv.Type()
		for i := 0; i < t.NumMethod(); i++ {
			m := t.Method(i)
			r.methodsSeen[recvName+"."+m.Name] = true
			o, ok := apply(recv, m)
			if !ok {
				r.unhandled[recvName+"."+m.Name+" "+m.Type.String()] = true
				continue
			}
			check(recvName, m.Name, o)
		}
		if recvName == "RedisResult" {
			r.methodsSeen["rueidis.DecodeSliceOfJSON"] = true
			check("rueidis", "DecodeSliceOfJSON", sliceOfJSON(*recv.Interface().(*rueidis.RedisResult)))
		}
	}
	for a := range ruleOf {
		if !used[a] {
			r.missing[a] = true
		}
	}
	for a := range expOf {
		if !used[a] {
			r.missing[a] = true
		}
	}
	if c.Fam != "neterr" {
		r.classifiers(c, msg, wire)
	}
	r.rep.Sample(map[string]any{"prop": c.Prop, "class": c.Fam + "/" + c.Cls, "proto": c.Proto, "tree": c.Tree.String(), "wire": string(wire)})
}

// classifiers applies every method of *RedisError to the error of the reply and of every nested element.
func (r *runner) classifiers(c *Case, msg rueidis.RedisMessage, wire []byte) {
	var walk func(m rueidis.RedisMessage, top bool)
	walk = func(m rueidis.RedisMessage, top bool) {
		if e, ok := m.Error().(*rueidis.RedisError); ok {
			r.classify(c, e, top, wire)
			if e != rueidis.Nil { // the raw text too, the way the streaming reader builds a RedisError
				typ, str, _, _, _ := rueidis.VerifMsgView(m)
				r.classify(c, rueidis.VerifRedisError(typ, str), false, wire)
			}
		}
		_, _, _, vals, _ := rueidis.VerifMsgView(m)
		for _, v := range vals {
			walk(v, false)
		}
	}
	walk(msg, true)
}

func (r *runner) classify(c *Case, e *rueidis.RedisError, top bool, wire []byte) {
	recv := reflect.ValueOf(e)
	t := recv.Type()
	for i := 0; i < t.NumMethod(); i++ {
		m := t.Method(i)
		r.methodsSeen["RedisError."+m.Name] = true
		if m.Type.NumIn() != 1 {
			r.unhandled["RedisError."+m.Name+" "+m.Type.String()] = true
			continue
		}
		r.evals++
		o := call(recv.Method(i), nil)
		if o.panicked != "" {
			r.violate(m.Name, fmt.Sprintf("%s-panics-on-%s", m.Name, c.Cls),
				fmt.Sprintf("RedisError.%s panics on the error text %q: %s", m.Name, e.Error(), o.panicked), c, wire)
			continue
		}
		if !top || c.Fam != "errtext" {
			continue
		}
		raw, ok := c.Classify[m.Name]
		if !ok {
			if m.Name != "Error" {
				r.norule["RedisError."+m.Name] = true
			}
			continue
		}
		var want any
		dec := json.NewDecoder(bytes.NewReader(raw))
		dec.UseNumber()
		_ = dec.Decode(&want)
		var got any
		if len(o.outs) == 2 {
			got = map[string]any{"addr": canon(o.outs[0]), "ok": canon(o.outs[1])}
		} else {
			got = canon(o.outs[0])
		}
		if d := match(want, got, m.Name); d != "" {
			r.violate(m.Name, fmt.Sprintf("%s-wrong-on-%s", m.Name, c.Cls),
				fmt.Sprintf("RedisError.%s on the error text %q: %s; expected %s", m.Name, e.Error(), d, raw), c, wire)
		}
	}
	if top && c.Fam == "errtext" {
		for name := range c.Classify {
			if _, ok := t.MethodByName(name); !ok {
				r.missing["RedisError."+name] = true
			}
		}
	}
}

func mustJSON(v any) string {
	b, _ := json.Marshal(v)
	return string(b)
}

// compPrio: within family comp the nil and the error component come first (their predicted classes N / R say most)
func compPrio(c *Case) int {
	switch {
	case c.Fam != "comp":
		return 0
	case strings.HasSuffix(c.Cls, "-is-null"):
		return 0
	case strings.HasSuffix(c.Cls, "-is-error"):
		return 1
	}
	return 2
}

func main() {
	flag.Parse()
	rep := &vh.Report{}
	r := &runner{rep: rep, sigs: map[string]int{}, perAcc: map[string]int{}, unhandled: map[string]bool{}, norule: map[string]bool{},
		missing: map[string]bool{}, methodsSeen: map[string]bool{}, distinct: map[string]bool{}}
	f, err := os.Open(*casesPath)
	if err != nil {
		rep.Inconcl("cannot read cases: %v", err)
		rep.Write(*vh.Out)
		return
	}
	defer f.Close()
	sc := bufio.NewScanner(f)
	sc.Buffer(make([]byte, 1<<20), 64<<20)
	ncases := 0
	fams := map[string]int{}
	var cases []*Case
	for sc.Scan() {
		line := bytes.TrimSpace(sc.Bytes())
		if len(line) == 0 {
			continue
		}
		var c Case
		dec := json.NewDecoder(bytes.NewReader(line))
		dec.UseNumber()
		if err := dec.Decode(&c); err != nil {
			rep.Inconcl("bad CASE record: %v: %.200s", err, line)
			continue
		}
		ncases++
		fams[c.Fam]++
		cases = append(cases, &c)
	}
	// simplest shapes first, so that the listed signatures name the smallest failing shape of each accessor
	rank := map[string]int{"leaf": 0, "errtext": 1, "neterr": 2, "flat": 3, "nest": 4, "comp": 5, "mut": 6}
	sort.SliceStable(cases, func(i, j int) bool {
		a, b := cases[i], cases[j]
		if rank[a.Fam] != rank[b.Fam] {
			return rank[a.Fam] < rank[b.Fam]
		}
		if pa, pb := compPrio(a), compPrio(b); pa != pb {
			return pa < pb
		}
		if sa, sb := size(a.Tree), size(b.Tree); sa != sb {
			return sa < sb
		}
		return a.Cls < b.Cls
	})
	for _, c := range cases {
		r.runCase(c)
	}
	if err := sc.Err(); err != nil {
		rep.Inconcl("reading cases: %v", err)
	}
	if ncases == 0 {
		rep.Inconcl("no cases")
	}
	for k := range r.unhandled {
		rep.Inconcl("accessor with a signature the driver cannot call: %s", k)
	}
	for k := range r.norule {
		rep.Inconcl("accessor %s returns an error but Accessors.tla has no rule for it (add it to Accs/Rule)", k)
	}
	for k := range r.missing {
		rep.Inconcl("Accessors.tla names the accessor %s, which the library does not have (or it is not applicable to the receiver)", k)
	}
	suppressed := 0
	for acc, n := range r.perAcc {
		if n > maxSigsPerAccessor {
			suppressed += n - maxSigsPerAccessor
			rep.Violate(strings.ReplaceAll(acc, " ", "-")+"-more-signatures-suppressed",
				fmt.Sprintf("%d further distinct failing shape classes of %s not listed", n-maxSigsPerAccessor, acc), nil)
		}
	}
	rep.Evaluations = r.evals
	rep.DistinctNontrivial = len(r.distinct)
	rep.Traces = ncases
	rep.Rule = "evaluations = accessor/classifier applications to decoded replies; distinct_nontrivial = distinct RESP encodings among the TLC-generated cases; traces = TLC cases replayed into the real code"
	methods := make([]string, 0, len(r.methodsSeen))
	for k := range r.methodsSeen {
		methods = append(methods, k)
	}
	sort.Strings(methods)
	occ := map[string]int{}
	for s, n := range r.sigs {
		occ[s] = n
	}
	rep.Extra = map[string]any{"cases": ncases, "cases_by_family": fams, "methods_applied": len(methods), "methods": methods,
		"signature_occurrences": occ, "suppressed_signatures": suppressed}
	rep.Assumptions = []string{
		"the reply bytes are produced by the independent codec of harness/fakeredis (streamed / attribute / RESP2-null framing written by hand from the RESP3 specification) and decoded by the real readNextMessage",
		"floats are restricted to exactly representable values with a finite decimal text; integers to 32 bits (TLC)",
	}
	rep.Write(*vh.Out)
}
