package main

// C13: malformed input.  Oracle (from the specification): class "error" -> the decoder must return an error,
// class "any" -> a value or an error; in every case no panic and
//     bytes allocated while decoding <= allocFactor * bytes received + allocConst.
// Well-formed cases (kind "value") are run here as well: they are byte sequences a peer can send.

import (
	"bufio"
	"bytes"
	"fmt"
	"math/rand"
	"os"
	"runtime"

	"github.com/redis/rueidis"
)

const (
	allocFactor = 64      // a 3 byte null element legitimately becomes a 48 byte RedisMessage inside a slice that grows by doubling
	allocConst  = 1 << 20 // 1 MiB
)

type malformedCase struct {
	Sig  string `json:"sig"`
	Name string `json:"name"`
	Toks []any  `json:"toks"`
	Cls  string `json:"cls"`
	// Abound > 0: the allocation the specification permits for this input (spec/data/RespAlloc.tla: AllocBounded evaluated on
	// the bytes of the case); the driver then has no rule of its own.  0: the round 1 rule allocFactor * received + allocConst.
	Abound int64 `json:"abound"`
	// Detail: a refinement of the input class that belongs into the description, not into the signature (the rung of the
	// delivery ladder: the same defect fails on many rungs)
	Detail string `json:"detail"`
}

var ms runtime.MemStats

func totalAlloc() uint64 {
	runtime.ReadMemStats(&ms)
	return ms.TotalAlloc
}

// guarded runs f, converting a panic into a description.
func guarded(f func()) (panicked string) {
	defer func() {
		if r := recover(); r != nil {
			panicked = fmt.Sprint(r)
		}
	}()
	f()
	return ""
}

func runMalformed(c *malformedCase, res *caseResult, rng *rand.Rand) {
	s := newSubst(rng)
	ex := expand(c.Toks, s)
	data := ex.data
	bound := uint64(allocFactor*len(data) + allocConst)
	if c.Abound > 0 {
		bound = uint64(c.Abound)
	}
	desc := c.Name + " in " + c.Sig
	if c.Detail != "" {
		desc = c.Name + " " + c.Detail
	}
	var maxUsed uint64
	plans := plansFor(ex, rng, false)
	big := c.Abound > 0 && len(data) > 1<<16
	if big {
		// partially delivered bodies of up to some MiB: network segments instead of single bytes (10^9 one-byte reads otherwise),
		// and a pairwise cover of delivery x reader size x API (4 of the 8 combinations: every decode clears MiBs of fresh memory)
		plans = []plan{{name: "whole"}, {name: "segments1460", step: 1460}}
	}
	for pi, p := range plans {
		for si, size := range bufSizes {
			for ai, api := range []string{"read", "stream"} {
				if big && (pi+si+ai)%2 == 1 {
					continue
				}
				src, done := source(data, p)
				r := bufio.NewReaderSize(src, size)
				var err error
				var w bytes.Buffer // the caller's buffer counts as well: a decoder must not size it from a declared length either
				before := totalAlloc()
				pan := guarded(func() {
					if api == "read" {
						_, err = rueidis.VerifReadNextMessage(r)
					} else {
						_, err, _ = rueidis.VerifStreamTo(r, &w)
					}
				})
				used := totalAlloc() - before
				if used > maxUsed {
					maxUsed = used
				}
				done()
				res.Evals++
				where := fmt.Sprintf("[%s, reader size %d, delivery %s, %d bytes received: %s]", api, size, p.name, len(data), clip(string(data)))
				if pan != "" {
					res.violate("c13 panic "+api+" "+c.Name, fmt.Sprintf("decoding %s panicked: %s %s", desc, pan, where), c)
					continue
				}
				if used > bound {
					res.violate("c13 alloc "+api+" "+c.Name, fmt.Sprintf("decoding %s allocated %d bytes for %d bytes received (bound %d) %s", desc, used, len(data), bound, where), c)
				}
				if c.Cls == "error" && err == nil {
					res.violate("c13 accepted "+api+" "+c.Name, fmt.Sprintf("decoding %s returned a value although the input is not a complete well-formed message %s", desc, where), c)
				}
			}
		}
	}
	res.Nontrivial = len(data) > 0
	if os.Getenv("VERIF_RESP_ALLOCLOG") != "" && c.Abound > 0 { // development aid: how close the real decoder comes to the bound
		fmt.Fprintf(os.Stderr, "ALLOC %s "+c.Detail+" received=%d used=%d bound=%d ratio=%.3f\n", c.Name, len(data), maxUsed, bound, float64(maxUsed)/float64(bound))
	}
}

// runValueAsBytes: the no-panic / allocation part of C13 on well-formed input.
func runValueAsBytes(c *valueCase, res *caseResult, rng *rand.Rand) {
	s := newSubst(rng)
	ex := expand(c.Toks, s)
	bound := uint64(allocFactor*len(ex.data) + allocConst)
	for _, p := range plansFor(ex, rng, false) {
		for _, size := range bufSizes {
			src, done := source(ex.data, p)
			r := bufio.NewReaderSize(src, size)
			before := totalAlloc()
			var err error
			pan := guarded(func() {
				for range c.Exp {
					if _, err = rueidis.VerifReadNextMessage(r); err != nil {
						return
					}
				}
			})
			used := totalAlloc() - before
			done()
			res.Evals++
			where := fmt.Sprintf("[reader size %d, delivery %s, %d bytes received]", size, p.name, len(ex.data))
			if pan != "" {
				res.violate("c13 panic read well-formed "+class(c.Sig), "decoding panicked: "+pan+" "+where, c)
			} else if used > bound {
				res.violate("c13 alloc read well-formed "+class(c.Sig), fmt.Sprintf("decoding allocated %d bytes (bound %d) %s", used, bound, where), c)
			}
			_ = err
		}
	}
	res.Nontrivial = true
}
