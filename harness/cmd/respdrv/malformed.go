package main

// C13: malformed input.  Oracle (from the specification): class "error" -> the decoder must return an error,
// class "any" -> a value or an error; in every case no panic and
//     bytes allocated while decoding <= allocFactor * bytes received + allocConst.
// Well-formed cases (kind "value") are run here as well: they are byte sequences a peer can send.

import (
	"bufio"
	"bytes"
	"fmt"
	"math/rand"
	"runtime"

	"github.com/redis/rueidis"
)

const (
	allocFactor = 64      // a 3 byte null element legitimately becomes a 48 byte RedisMessage inside a slice that grows by doubling
	allocConst  = 1 << 20 // 1 MiB
)

type malformedCase struct {
	Sig  string `json:"sig"`
	Name string `json:"name"`
	Toks []any  `json:"toks"`
	Cls  string `json:"cls"`
}

var ms runtime.MemStats

func totalAlloc() uint64 {
	runtime.ReadMemStats(&ms)
	return ms.TotalAlloc
}

// guarded runs f, converting a panic into a description.
func guarded(f func()) (panicked string) {
	defer func() {
		if r := recover(); r != nil {
			panicked = fmt.Sprint(r)
		}
	}()
	f()
	return ""
}

func runMalformed(c *malformedCase, res *caseResult, rng *rand.Rand) {
	s := newSubst(rng)
	ex := expand(c.Toks, s)
	data := ex.data
	bound := uint64(allocFactor*len(data) + allocConst)
	desc := c.Name + " in " + c.Sig
	for _, p := range plansFor(ex, rng, false) {
		for _, size := range bufSizes {
			for _, api := range []string{"read", "stream"} {
				src, done := source(data, p)
				r := bufio.NewReaderSize(src, size)
				var err error
				var w bytes.Buffer
				before := totalAlloc()
				pan := guarded(func() {
					if api == "read" {
						_, err = rueidis.VerifReadNextMessage(r)
					} else {
						_, err, _ = rueidis.VerifStreamTo(r, &w)
					}
				})
				used := totalAlloc() - before
				done()
				res.Evals++
				where := fmt.Sprintf("[%s, reader size %d, delivery %s, %d bytes received: %s]", api, size, p.name, len(data), clip(string(data)))
				if pan != "" {
					res.violate("c13 panic "+api+" "+c.Name, fmt.Sprintf("decoding %s panicked: %s %s", desc, pan, where), c)
					continue
				}
				if used > bound {
					res.violate("c13 alloc "+api+" "+c.Name, fmt.Sprintf("decoding %s allocated %d bytes for %d bytes received (bound %d) %s", desc, used, len(data), bound, where), c)
				}
				if c.Cls == "error" && err == nil {
					res.violate("c13 accepted "+api+" "+c.Name, fmt.Sprintf("decoding %s returned a value although the input is not a complete well-formed message %s", desc, where), c)
				}
			}
		}
	}
	res.Nontrivial = len(data) > 0
}

// runValueAsBytes: the no-panic / allocation part of C13 on well-formed input.
func runValueAsBytes(c *valueCase, res *caseResult, rng *rand.Rand) {
	s := newSubst(rng)
	ex := expand(c.Toks, s)
	bound := uint64(allocFactor*len(ex.data) + allocConst)
	for _, p := range plansFor(ex, rng, false) {
		for _, size := range bufSizes {
			src, done := source(ex.data, p)
			r := bufio.NewReaderSize(src, size)
			before := totalAlloc()
			var err error
			pan := guarded(func() {
				for range c.Exp {
					if _, err = rueidis.VerifReadNextMessage(r); err != nil {
						return
					}
				}
			})
			used := totalAlloc() - before
			done()
			res.Evals++
			where := fmt.Sprintf("[reader size %d, delivery %s, %d bytes received]", size, p.name, len(ex.data))
			if pan != "" {
				res.violate("c13 panic read well-formed "+class(c.Sig), "decoding panicked: "+pan+" "+where, c)
			} else if used > bound {
				res.violate("c13 alloc read well-formed "+class(c.Sig), fmt.Sprintf("decoding allocated %d bytes (bound %d) %s", used, bound, where), c)
			}
			_ = err
		}
	}
	res.Nontrivial = true
}
