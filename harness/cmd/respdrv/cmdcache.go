package main

// C14 (commands written by writeCmd / flushCmd / the pipeline writer decode, with an independent parser, to the same
// argv) and C17 (cache serialization round trip, CacheSize, truncation).

import (
	"bufio"
	"bytes"
	"context"
	"errors"
	"fmt"
	"io"
	"math/rand"
	"strconv"
	"strings"
	"sync"
	"time"

	"github.com/redis/rueidis"
	"verifharness/fakeredis"
)

// ------------------------------------------------------------------------------------------------------- C14
type group struct {
	Rep int   `json:"rep"`
	Arg []any `json:"arg"`
}

type cmdCase struct {
	Cmds [][]group `json:"cmds"`
	Toks []any     `json:"toks"`
}

func (c *cmdCase) sig() string {
	s := ""
	for i, cmd := range c.Cmds {
		if i > 0 {
			s += " ; "
		}
		n, maxLen := 0, 0
		for _, g := range cmd {
			n += g.Rep
			l := 0
			for _, e := range g.Arg {
				if v := asInt(e); v < 0 {
					l += -v
				} else {
					l++
				}
			}
			if l > maxLen {
				maxLen = l
			}
		}
		s += fmt.Sprintf("argc=%d maxlen=%d", n, maxLen)
	}
	return s
}

func argvOf(cmd []group, s subst) []string {
	var argv []string
	for _, g := range cmd {
		a := string(payload(any(g.Arg), s, nil))
		for i := 0; i < g.Rep; i++ {
			argv = append(argv, a)
		}
	}
	return argv
}

func sameArgv(a, b []string) string {
	if len(a) != len(b) {
		return fmt.Sprintf("%d arguments decoded, %d written", len(a), len(b))
	}
	for i := range a {
		if a[i] != b[i] {
			return fmt.Sprintf("argument %d decoded as %s, written %s", i, clip(a[i]), clip(b[i]))
		}
	}
	return ""
}

// decodeCommands reads wire with the independent parser of the fake server and compares with the argvs.
func decodeCommands(wire []byte, argvs [][]string) string {
	r := bufio.NewReader(bytes.NewReader(wire))
	for i, want := range argvs {
		got, err := fakeredis.ReadCommand(r)
		if err != nil {
			return fmt.Sprintf("command %d is not decodable by an independent RESP parser: %v", i, err)
		}
		if d := sameArgv(got, want); d != "" {
			return fmt.Sprintf("command %d: %s", i, d)
		}
	}
	if _, err := r.ReadByte(); err != io.EOF {
		return "bytes left on the wire after the last command"
	}
	return ""
}

func runCmd(c *cmdCase, res *caseResult, rng *rand.Rand) {
	s := newSubst(rng)
	want := expand(c.Toks, s).data // the encoding the specification prescribes
	var argvs [][]string
	total, nontrivial := 0, false
	for _, cmd := range c.Cmds {
		a := argvOf(cmd, s)
		argvs = append(argvs, a)
		nontrivial = nontrivial || len(a) >= 2
		for _, x := range a {
			total += len(x)
			nontrivial = nontrivial || len(x) >= 10 || bytes.ContainsAny([]byte(x), "\r\n\x00")
		}
	}
	res.Nontrivial = nontrivial
	sig := c.sig()
	for _, size := range []int{16, 64, 4096, 1 << 19} {
		for _, how := range []string{"writeCmd", "flushCmd"} {
			var wire bytes.Buffer
			w := bufio.NewWriterSize(&wire, size)
			var err error
			pan := guarded(func() {
				for _, a := range argvs {
					if how == "writeCmd" {
						err = rueidis.VerifWriteCmd(w, a)
					} else {
						err = rueidis.VerifFlushCmd(w, a)
					}
					if err != nil {
						return
					}
				}
				err = w.Flush()
			})
			res.Evals++
			where := fmt.Sprintf("[%s, writer size %d, %s]", how, size, sig)
			switch {
			case pan != "":
				res.violate("c14 panic "+sig, "writing the command panicked: "+pan+" "+where, nil)
			case err != nil:
				res.violate("c14 error "+sig, "writing the command to a buffer failed: "+err.Error()+" "+where, nil)
			default:
				if d := decodeCommands(wire.Bytes(), argvs); d != "" {
					res.violate("c14 decode "+sig, d+" "+where+" wire starts "+clip(wire.String()), nil)
				} else if !bytes.Equal(wire.Bytes(), want) {
					res.violate("c14 bytes "+sig, fmt.Sprintf("the wire bytes differ from the encoding of the specification at offset %d %s wire starts %s", firstDiff(wire.Bytes(), want), where, clip(wire.String())), nil)
				}
			}
		}
	}
	if total <= 4<<20 && okForClient(argvs) {
		if d := throughClient(argvs); d != "" {
			res.violate("c14 pipeline "+sig, d+" ["+sig+"]", nil)
		}
		res.Evals++
		res.Traces++
	}
}

func firstDiff(a, b []byte) int {
	for i := 0; i < len(a) && i < len(b); i++ {
		if a[i] != b[i] {
			return i
		}
	}
	return min(len(a), len(b))
}

// The pipeline writer (_backgroundWrite) of a real client connected to the fake server: what the server's independent
// parser received must be the argv handed to the client.
var (
	clientOnce sync.Once
	client     rueidis.Client
	clientErr  error
	recvMu     sync.Mutex
	recv       [][]string
)

func okForClient(argvs [][]string) bool {
	for _, a := range argvs {
		if len(a) == 0 || len(a) > 2000 || a[0] == "" { // the command builder refuses an empty command name
			return false
		}
	}
	return true
}

func throughClient(argvs [][]string) string {
	clientOnce.Do(func() {
		srv := fakeredis.NewServer("127.0.0.1:6379", fakeredis.Options{})
		net := fakeredis.NewNetwork()
		net.Add("127.0.0.1:6379", srv)
		ready := false
		srv.SetIntercept(func(c *fakeredis.Conn, argv []string) (fakeredis.Value, fakeredis.Action) {
			recvMu.Lock()
			defer recvMu.Unlock()
			if up := strings.ToUpper(argv[0]); !ready || up == "HELLO" || up == "CLIENT" || up == "AUTH" || up == "SELECT" || (up == "PING" && len(argv) == 1) {
				return fakeredis.Value{}, fakeredis.Pass // connection setup / keep-alive PING of the client, not a case command
			}
			recv = append(recv, append([]string(nil), argv...))
			return fakeredis.Simple("OK"), fakeredis.Reply
		})
		client, clientErr = rueidis.NewClient(rueidis.ClientOption{InitAddress: []string{"127.0.0.1:6379"}, DialCtxFn: net.DialCtxFn(),
			ForceSingleClient: true, DisableCache: true, DisableRetry: true, AlwaysPipelining: true})
		recvMu.Lock()
		ready = true
		recvMu.Unlock()
	})
	if clientErr != nil {
		return "inconclusive: client setup failed: " + clientErr.Error()
	}
	recvMu.Lock()
	recv = nil
	recvMu.Unlock()
	ctx, cancel := context.WithTimeout(context.Background(), 30*time.Second)
	defer cancel()
	cmds := make(rueidis.Commands, 0, len(argvs))
	for _, a := range argvs {
		cmds = append(cmds, client.B().Arbitrary(a[0]).Args(a[1:]...).Build())
	}
	for i, r := range client.DoMulti(ctx, cmds...) {
		if err := r.Error(); err != nil {
			return fmt.Sprintf("command %d through the real client failed: %v", i, err)
		}
	}
	recvMu.Lock()
	defer recvMu.Unlock()
	if len(recv) != len(argvs) {
		heads := ""
		for _, r := range recv {
			heads += fmt.Sprintf(" [%d args, first %s]", len(r), clip(r[0]))
		}
		return fmt.Sprintf("the server received %d commands, the client was given %d:%s", len(recv), len(argvs), heads)
	}
	for i := range argvs {
		if d := sameArgv(recv[i], argvs[i]); d != "" {
			return fmt.Sprintf("through the pipeline writer, command %d: %s", i, d)
		}
	}
	return ""
}

// ------------------------------------------------------------------------------------------------------- C17
type cacheCase struct {
	Sig    string    `json:"sig"`
	Toks   []any     `json:"toks"`
	Exp    []expTree `json:"exp"`
	Expiry string    `json:"expiry"`
	Pxat   string    `json:"pxat"`
}

func runCache(c *cacheCase, res *caseResult, rng *rand.Rand) {
	for i := range c.Exp {
		c.Exp[i].inflate()
	}
	s := newSubst(rng)
	ex := expand(c.Toks, s)
	m, err := rueidis.VerifReadNextMessage(bufio.NewReader(bytes.NewReader(ex.data)))
	if err != nil {
		res.Inconclusive = append(res.Inconclusive, "c17: the reply of case "+c.Sig+" could not be decoded: "+err.Error())
		return
	}
	now := time.Now().UnixMilli()
	expiry, pxat := now, now
	if c.Expiry != "now" {
		expiry, _ = strconv.ParseInt(c.Expiry, 10, 64)
		pxat, _ = strconv.ParseInt(c.Pxat, 10, 64)
	}
	rueidis.VerifSetExpireAt(&m, expiry)
	desc := c.Sig + " expiry=" + c.Expiry
	var buf []byte
	size := 0
	if pan := guarded(func() { size = m.CacheSize(); buf = m.CacheMarshal(nil) }); pan != "" {
		res.violate("c17 panic marshal "+class(c.Sig), "CacheMarshal panicked: "+pan+" ["+desc+"]", c)
		return
	}
	res.Evals++
	if len(buf) != size {
		res.violate("c17 size "+class(c.Sig), fmt.Sprintf("CacheMarshal wrote %d bytes, CacheSize announced %d [%s]", len(buf), size, desc), c)
	}
	prefix := []byte("prefix")
	if b2 := m.CacheMarshal(append(make([]byte, 0, 8), prefix...)); !bytes.Equal(b2, append(append([]byte{}, prefix...), buf...)) {
		res.violate("c17 append "+class(c.Sig), "CacheMarshal into a provided buffer does not append the same serialization ["+desc+"]", c)
	}
	var back rueidis.RedisMessage
	var uerr error
	if pan := guarded(func() { uerr = back.CacheUnmarshalView(buf) }); pan != "" {
		res.violate("c17 panic unmarshal "+class(c.Sig), "CacheUnmarshalView of a complete buffer panicked: "+pan+" ["+desc+"]", c)
		return
	}
	res.Evals++
	if uerr != nil {
		res.violate("c17 roundtrip "+class(c.Sig), "CacheUnmarshalView rejected what CacheMarshal wrote: "+uerr.Error()+" ["+desc+"]", c)
	} else {
		t := rueidis.VerifTreeOf(&back)
		if d := compare("msg", &c.Exp[0], &t, s); d != "" {
			res.violate("c17 roundtrip "+class(c.Sig), "the reconstructed reply differs: "+d+" ["+desc+"]", c)
		}
		if got := rueidis.VerifExpireAt(&back); got != expiry {
			res.violate("c17 expiry "+class(c.Sig), fmt.Sprintf("expiry %d reconstructed as %d [%s]", expiry, got, desc), c)
		}
		if got := back.CachePXAT(); got != pxat {
			res.violate("c17 expiry "+class(c.Sig), fmt.Sprintf("CachePXAT %d, expected %d [%s]", got, pxat, desc), c)
		}
		if !back.IsCacheHit() {
			res.violate("c17 cachehit "+class(c.Sig), "the reconstructed reply is not marked as a cache hit ["+desc+"]", c)
		}
	}
	// every truncation point; for a serialization above 64 KiB (wide aggregates) the first and last KiB, every 9973rd
	// position and 300 seeded random positions (each attempt parses the whole prefix)
	sampled := len(buf) > 1<<16
	var pick map[int]bool
	if sampled {
		pick = map[int]bool{}
		for i := 0; i < 300; i++ {
			pick[rng.Intn(len(buf))] = true
		}
	}
	for k := 0; k < len(buf); k++ {
		if sampled && k >= 1024 && k < len(buf)-1024 && k%9973 != 0 && !pick[k] {
			continue
		}
		var tm rueidis.RedisMessage
		var terr error
		cut := append([]byte(nil), buf[:k]...) // exact capacity: reading past the truncation point is out of bounds
		pan := guarded(func() { terr = tm.CacheUnmarshalView(cut) })
		res.Evals++
		if pan != "" {
			res.violate("c17 panic truncated "+class(c.Sig), fmt.Sprintf("CacheUnmarshalView of the buffer truncated to %d of %d bytes panicked: %s [%s]", k, len(buf), pan, desc), c)
			break
		}
		if !errors.Is(terr, rueidis.ErrCacheUnmarshal) {
			res.violate("c17 truncated "+class(c.Sig), fmt.Sprintf("CacheUnmarshalView of the buffer truncated to %d of %d bytes returned %v instead of ErrCacheUnmarshal [%s]", k, len(buf), terr, desc), c)
			break
		}
	}
	res.Nontrivial = c.Exp[0].hasAgg() || len(c.Exp[0].S) > 0
}
