package main

// Expansion of the abstract tokens of spec/data/Resp.tla into bytes.  The expansion is a function of the token, the
// per-case substitution and the seed only, so the encoding side (toks) and the expectation side (payloads inside the
// expected tree) always expand identically.

import (
	"fmt"
	"math/rand"
	"strconv"
	"sync"
)

// subst is the class preserving substitution of one case: the representative letter 'a', digit '7' and high byte 0xFF
// are replaced by seeded members of their class; CR, LF, 0x00, '-', '?' and every other byte stay as they are.
type subst struct {
	letter, digit, high byte
}

func newSubst(rng *rand.Rand) subst {
	const letters = "abcdefghijklmnopqrstuvwxyzABCDEFGHIJKLMNOPQRSTUVWXYZ"
	return subst{letter: letters[rng.Intn(len(letters))], digit: byte('0' + rng.Intn(10)), high: byte(0x80 + rng.Intn(0x80))}
}

func (s subst) apply(b byte) byte {
	switch b {
	case 'a':
		return s.letter
	case '7':
		return s.digit
	case 0xFF:
		return s.high
	}
	return b
}

var (
	fillMu    sync.Mutex
	fillCache = map[int][]byte{}
	fillSeed  int64
)

// fill returns k filler bytes: seeded pseudo random bytes without CR and LF.
func fill(k int) []byte {
	fillMu.Lock()
	defer fillMu.Unlock()
	if b, ok := fillCache[k]; ok {
		return b
	}
	rng := rand.New(rand.NewSource(fillSeed*1000003 + int64(k)))
	b := make([]byte, k)
	for i := 0; i < k; {
		v := rng.Uint64()
		for j := 0; j < 8 && i < k; j++ {
			c := byte(v >> (8 * j))
			if c == '\r' || c == '\n' {
				c = 'x'
			}
			b[i] = c
			i++
		}
	}
	if k <= 1<<21 {
		fillCache[k] = b
	}
	return b
}

func asInt(v any) int {
	switch x := v.(type) {
	case float64:
		return int(x)
	case int:
		return x
	}
	panic(fmt.Sprintf("token field is not a number: %#v", v))
}

// payload expands a payload description (sequence of ints: 0..255 a byte, -k = k filler bytes).
func payload(p any, s subst, out []byte) []byte {
	for _, e := range p.([]any) {
		v := asInt(e)
		if v >= 0 {
			out = append(out, s.apply(byte(v)))
		} else {
			out = append(out, fill(-v)...)
		}
	}
	return out
}

// hasPayloadSplitRoom reports the byte ranges [from,to) of payload tokens (used to count splits inside payloads).
type span struct{ from, to int }

type expansion struct {
	data     []byte
	starts   []int  // offset of every top level token
	payloads []span // byte ranges that are payload
}

func expandTok(tok []any, s subst, out []byte, ex *expansion) []byte {
	switch tok[0].(string) {
	case "y", "l":
		out = append(out, tok[1].(string)...)
	case "n":
		out = strconv.AppendInt(out, int64(asInt(tok[1])), 10)
	case "p":
		from := len(out)
		out = payload(tok[1], s, out)
		if ex != nil {
			ex.payloads = append(ex.payloads, span{from, len(out)})
		}
	case "c":
		out = append(out, '\r', '\n')
	case "x":
		out = append(out, byte(asInt(tok[1])))
	case "t":
		inner := expandTok(tok[1].([]any), s, nil, nil)
		out = append(out, inner[:asInt(tok[2])]...)
	case "r":
		var unit []byte
		for _, t := range tok[2].([]any) {
			unit = expandTok(t.([]any), s, unit, nil)
		}
		for i, n := 0, asInt(tok[1]); i < n; i++ {
			out = append(out, unit...)
		}
	default:
		panic("unknown token " + fmt.Sprint(tok))
	}
	return out
}

func expand(toks []any, s subst) *expansion {
	ex := &expansion{}
	for _, t := range toks {
		ex.starts = append(ex.starts, len(ex.data))
		ex.data = expandTok(t.([]any), s, ex.data, ex)
	}
	return ex
}
