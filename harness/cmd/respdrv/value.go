package main

// C12: well-formed replies.  Every case carries the tokens of one or two messages, the tree(s) the specification
// expects and what a streaming read must deliver.  The bytes are delivered to the real readNextMessage / streamTo
// through bufio.Readers of two sizes with every split point.

import (
	"bufio"
	"bytes"
	"errors"
	"fmt"
	"io"
	"math/rand"
	"net"
	"sort"
	"strconv"
	"strings"
	"time"

	"github.com/redis/rueidis"
	"verifharness/fakeredis/bufconn"
)

// chunkReader delivers data with read boundaries at the given offsets.
type chunkReader struct {
	data []byte
	cuts []int // sorted offsets; a Read never crosses one
	pos  int
	one  bool // one byte per Read
	step int  // > 0: at most step bytes per Read (network segments)
}

func (c *chunkReader) Read(p []byte) (int, error) {
	if c.pos >= len(c.data) {
		return 0, io.EOF
	}
	end := len(c.data)
	if c.one {
		end = c.pos + 1
	} else if c.step > 0 {
		end = min(end, c.pos+c.step)
	} else {
		for _, k := range c.cuts {
			if k > c.pos {
				if k < end {
					end = k
				}
				break
			}
		}
	}
	n := copy(p, c.data[c.pos:end])
	c.pos += n
	return n, nil
}

type plan struct {
	name  string
	cuts  []int
	one   bool
	chunk int // > 0: deliver through a bufconn pair with SetChunk(chunk)
	step  int // > 0: at most step bytes per Read
}

var sentinel = []byte(":424242\r\n")

// plans: every single split point for short encodings; token boundaries (and their neighbours), seeded split sets
// and uniform chunk sizes beyond.
func plansFor(ex *expansion, rng *rand.Rand, full bool) []plan {
	n := len(ex.data)
	ps := []plan{{name: "whole"}, {name: "bytewise", one: true}}
	if !full {
		return ps
	}
	if n <= 64 {
		for k := 1; k < n; k++ {
			ps = append(ps, plan{name: "split@" + strconv.Itoa(k), cuts: []int{k}})
		}
	} else {
		seen := map[int]bool{}
		add := func(k int) {
			if k > 0 && k < n && !seen[k] {
				seen[k] = true
				ps = append(ps, plan{name: "split@" + strconv.Itoa(k), cuts: []int{k}})
			}
		}
		for _, s := range ex.starts {
			add(s - 1)
			add(s)
			add(s + 1)
		}
		for _, sp := range ex.payloads {
			add(sp.from + 1)
			add(sp.to - 1)
			add((sp.from + sp.to) / 2)
		}
		for _, k := range []int{15, 16, 17, 31, 32, 33, 4095, 4096, 4097, n - 1} {
			add(k)
		}
	}
	for i := 0; i < 3; i++ { // seeded split sets
		var cuts []int
		for j, m := 0, 2+rng.Intn(5); j < m && n > 1; j++ {
			cuts = append(cuts, 1+rng.Intn(n-1))
		}
		sort.Ints(cuts)
		ps = append(ps, plan{name: fmt.Sprintf("splits%v", cuts), cuts: cuts})
	}
	for _, c := range []int{2, 3, 7} {
		ps = append(ps, plan{name: "bufconn-chunk" + strconv.Itoa(c), chunk: c})
	}
	return ps
}

// source builds the io.Reader of one delivery plan (data already includes the sentinel).
func source(data []byte, p plan) (io.Reader, func()) {
	if p.chunk > 0 {
		client, server := bufconn.Pipe("c", "s")
		_, _ = server.Write(data)
		_ = server.Close()
		client.SetChunk(p.chunk)
		_ = client.SetReadDeadline(time.Now().Add(20 * time.Second))
		return client, func() { _ = client.Close() }
	}
	return &chunkReader{data: data, cuts: p.cuts, one: p.one, step: p.step}, func() {}
}

var bufSizes = []int{32, 4096}

// ---------------------------------------------------------------------------------------------- expected trees
type expTree struct {
	K    string    `json:"k"`
	T    string    `json:"t"`
	S    []any     `json:"s"`
	I    string    `json:"i"`
	Kids []expTree `json:"kids"`
	A    []any     `json:"a"` // [] = no attribute, [[...]] = attribute elements
	Rep  int       `json:"rep"` // > 0: the aggregate holds Kids repeated Rep times (wide aggregates are described run-length encoded)
}

// inflate writes out run-length encoded kids.
func (t *expTree) inflate() {
	if t.Rep > 0 {
		unit := t.Kids
		kids := make([]expTree, 0, t.Rep*len(unit))
		for i := 0; i < t.Rep; i++ {
			kids = append(kids, unit...)
		}
		t.Kids, t.Rep = kids, 0
	}
	for i := range t.Kids {
		t.Kids[i].inflate()
	}
}

func attrKids(a []any) ([]expTree, bool) {
	if len(a) == 0 {
		return nil, false
	}
	var kids []expTree
	reencode(a[0], &kids)
	return kids, true
}

func (e *expTree) hasAgg() bool { return e.K == "agg" || len(e.A) > 0 }

// compare returns "" or a description of the first difference between what the specification expects and what the
// real decoder produced.
func compare(path string, e *expTree, g *rueidis.VerifTree, s subst) string {
	if string(g.Typ) != e.T {
		return fmt.Sprintf("%s: type %q, expected %q", path, string(g.Typ), e.T)
	}
	switch e.K {
	case "str":
		want := payload(any(e.S), s, nil)
		if g.Str != string(want) {
			return fmt.Sprintf("%s: string %s, expected %s", path, clip(g.Str), clip(string(want)))
		}
		if g.Int != int64(len(want)) {
			return fmt.Sprintf("%s: length field %d, expected %d", path, g.Int, len(want))
		}
		if g.HasArr {
			return path + ": string message carries elements"
		}
	case "int":
		want, err := strconv.ParseInt(e.I, 10, 64)
		if err != nil {
			return path + ": bad expectation " + e.I
		}
		if g.Int != want {
			return fmt.Sprintf("%s: integer %d, expected %d", path, g.Int, want)
		}
		if g.HasStr || g.HasArr {
			return path + ": integer message carries a payload"
		}
	case "null":
		if g.HasStr || g.HasArr {
			return path + ": null message carries a payload"
		}
	case "agg":
		if len(g.Arr) != len(e.Kids) || g.Int != int64(len(e.Kids)) {
			return fmt.Sprintf("%s: %d elements (length field %d), expected %d", path, len(g.Arr), g.Int, len(e.Kids))
		}
		if g.HasStr {
			return path + ": aggregate carries a byte payload"
		}
		for i := range e.Kids {
			if d := compare(fmt.Sprintf("%s[%d]", path, i), &e.Kids[i], &g.Arr[i], s); d != "" {
				return d
			}
		}
	default:
		return path + ": unknown expectation kind " + e.K
	}
	kids, has := attrKids(e.A)
	if !has {
		if g.Attrs != nil {
			return path + ": unexpected attribute attached"
		}
		return ""
	}
	if g.Attrs == nil {
		return path + ": attribute frame lost"
	}
	if g.Attrs.Typ != '|' || len(g.Attrs.Arr) != len(kids) {
		return fmt.Sprintf("%s: attribute of type %q with %d elements, expected %d", path, string(g.Attrs.Typ), len(g.Attrs.Arr), len(kids))
	}
	for i := range kids {
		if d := compare(fmt.Sprintf("%s|attr[%d]", path, i), &kids[i], &g.Attrs.Arr[i], s); d != "" {
			return d
		}
	}
	return ""
}

func clip(s string) string {
	if len(s) > 48 {
		return fmt.Sprintf("%q...(%d bytes)", s[:48], len(s))
	}
	return strconv.Quote(s)
}

// ---------------------------------------------------------------------------------------------- the case
type streamExp struct {
	K   string `json:"k"`
	S   []any  `json:"s"`
	Txt string `json:"txt"`
}

type valueCase struct {
	Sig    string    `json:"sig"`
	Toks   []any     `json:"toks"`
	Exp    []expTree `json:"exp"`
	Stream streamExp `json:"stream"`
	Nodes  int       `json:"nodes"`
}

func readAll(r *bufio.Reader, count int) ([]rueidis.VerifTree, error) {
	var out []rueidis.VerifTree
	for i := 0; i < count; i++ {
		m, err := rueidis.VerifReadNextMessage(r)
		if err != nil {
			return out, fmt.Errorf("message %d: %w", i, err)
		}
		out = append(out, rueidis.VerifTreeOf(&m))
	}
	return out, nil
}

// checkSentinel verifies that the decoder consumed exactly the bytes of the reply: the next message is the sentinel
// and then the stream ends.
func checkSentinel(r *bufio.Reader) string {
	m, err := rueidis.VerifReadNextMessage(r)
	if err != nil {
		return "the message that follows the reply is not readable (bytes over- or under-consumed): " + err.Error()
	}
	t := rueidis.VerifTreeOf(&m)
	if t.Typ != ':' || t.Int != 424242 {
		return fmt.Sprintf("the message that follows the reply was read as type %q value %d (bytes over- or under-consumed)", string(t.Typ), t.Int)
	}
	if _, err := r.ReadByte(); err != io.EOF {
		return "bytes left after the following message"
	}
	return ""
}

// class is the coarse input class named in violation signatures: the root of the reply (attribute marker, type byte,
// streamed / RESP2-null marker) and whether the reply contains an integer with an explicit plus sign.
func class(sig string) string {
	root := sig
	if i := strings.IndexByte(sig, '['); i >= 0 {
		root = sig[:i+1] + "..]"
	}
	if len(root) > 12 {
		root = root[:12]
	}
	if strings.Contains(sig, ":(+)") {
		root += " plus-signed-int"
	}
	if strings.Contains(sig[1:], "|") {
		root += " nested-attr"
	}
	return root
}

func runValue(c *valueCase, res *caseResult, rng *rand.Rand) {
	s := newSubst(rng)
	ex := expand(c.Toks, s)
	data := append(append([]byte{}, ex.data...), sentinel...)
	body := len(ex.data)
	hasAgg := false
	for i := range c.Exp {
		hasAgg = hasAgg || c.Exp[i].hasAgg()
	}
	payloadSplit := false
	for _, p := range plansFor(ex, rng, true) {
		if !payloadSplit {
			for _, k := range p.cuts {
				for _, sp := range ex.payloads {
					if k > sp.from && k < sp.to {
						payloadSplit = true
					}
				}
			}
			if (p.one || p.chunk > 0) && body > 0 {
				for _, sp := range ex.payloads {
					payloadSplit = payloadSplit || sp.to-sp.from >= 2
				}
			}
		}
		for _, size := range bufSizes {
			// --- normal read
			src, done := source(data, p)
			r := bufio.NewReaderSize(src, size)
			got, err := readAll(r, len(c.Exp))
			res.Evals++
			diff := ""
			if err != nil {
				diff = "decoding a well-formed reply failed: " + err.Error()
			} else {
				for i := range c.Exp {
					if diff = compare(fmt.Sprintf("msg%d", i), &c.Exp[i], &got[i], s); diff != "" {
						break
					}
				}
				if diff == "" {
					diff = checkSentinel(r)
				}
			}
			done()
			if diff != "" {
				res.violate("c12 decode "+class(c.Sig), fmt.Sprintf("reply %s: %s [reader size %d, delivery %s, input %s]", c.Sig, diff, size, p.name, clip(string(ex.data))), c)
			}
			// --- streaming read
			src, done = source(data, p)
			r = bufio.NewReaderSize(src, size)
			diff = streamCheck(c, r, s)
			res.Evals++
			done()
			if diff != "" {
				res.violate("c12 stream "+class(c.Sig), fmt.Sprintf("reply %s: %s [reader size %d, delivery %s, input %s]", c.Sig, diff, size, p.name, clip(string(ex.data))), c)
			}
		}
	}
	res.Nontrivial = hasAgg || payloadSplit
}

func streamCheck(c *valueCase, r *bufio.Reader, s subst) string {
	var w bytes.Buffer
	n, err, clean := rueidis.VerifStreamTo(r, &w)
	want := payload(any(c.Stream.S), s, nil)
	var rerr *rueidis.RedisError
	var nerr net.Error
	if errors.As(err, &nerr) && nerr.Timeout() {
		return "streaming read blocked until the read deadline"
	}
	switch c.Stream.K {
	case "bytes", "text":
		if c.Stream.K == "text" {
			want = []byte(c.Stream.Txt)
		}
		if err != nil {
			return "streaming read of a string / number reply failed: " + err.Error()
		}
		if !bytes.Equal(w.Bytes(), want) {
			return fmt.Sprintf("streaming read wrote %s, a normal read returns %s", clip(w.String()), clip(string(want)))
		}
		if n != int64(len(want)) {
			return fmt.Sprintf("streaming read reported %d bytes, wrote %d", n, len(want))
		}
		if !clean {
			return "streaming read of a complete reply reported the connection as not clean"
		}
	case "nil":
		if !rueidis.IsRedisNil(err) || w.Len() != 0 {
			return fmt.Sprintf("streaming read of a null reply: err=%v, wrote %d bytes", err, w.Len())
		}
	case "err":
		if !errors.As(err, &rerr) || rueidis.IsRedisNil(err) || w.Len() != 0 {
			return fmt.Sprintf("streaming read of an error reply: err=%v, wrote %d bytes", err, w.Len())
		}
		if rerr.Error() != string(want) {
			return fmt.Sprintf("streaming read of an error reply returned the message %s, expected %s", clip(rerr.Error()), clip(string(want)))
		}
	case "unsupported":
		if err == nil || errors.As(err, &rerr) || w.Len() != 0 {
			return fmt.Sprintf("streaming read of an aggregate reply: err=%v, wrote %d bytes", err, w.Len())
		}
	case "push": // not a reply: the streaming read delivers the message that follows (here: the sentinel)
		if err != nil || w.String() != "424242" || !clean {
			return fmt.Sprintf("streaming read over a push frame: err=%v wrote %s clean=%v, expected the next reply", err, clip(w.String()), clean)
		}
		if _, e := r.ReadByte(); e != io.EOF {
			return "bytes left after the reply that follows the push frame"
		}
		return ""
	case "any":
	}
	if clean {
		if d := checkSentinel(r); d != "" {
			return "after a streaming read reported clean: " + d
		}
	}
	return ""
}
