// respdrv binds spec/data/Resp.tla to the real RESP reader / writer and cache serialization of redis/rueidis
// (properties C12, C13, C14, C17).  The cases (tokens + the outcome the specification predicts) are the CASE records
// TLC printed; respdrv expands the tokens to bytes, applies them to the real code and compares.
//
//	respdrv -cases cases.ndjson -check c12|c13|c14|c17 -out report.json
//
// Cases are executed in child processes (respdrv -child ...) under GOMEMLIMIT and a hard address-space limit: a huge
// declared length makes the Go runtime die with "fatal error: out of memory", which cannot be recovered; the parent
// attributes the death of a child to the case in flight and restarts behind it.
package main

import (
	"bufio"
	"bytes"
	"encoding/json"
	"flag"
	"fmt"
	"math/rand"
	"os"
	"os/exec"
	"regexp"
	"runtime/debug"
	"strconv"
	"strings"
	"sync"
	"sync/atomic"
	"syscall"
	"time"

	"verifharness/vh"
)

var (
	casesPath = flag.String("cases", "", "ndjson file with the CASE records printed by TLC")
	check     = flag.String("check", "c12", "c12 | c13 | c14 | c17")
	child     = flag.Bool("child", false, "run cases [from, ...) and report on stdout (internal)")
	from      = flag.Int("from", 0, "first case index (child)")
	to        = flag.Int("to", -1, "end of the case range, exclusive (child)")
	par       = flag.Int("par", 4, "number of child processes working on disjoint case ranges")
	asLimit   = flag.Int64("aslimit", 2<<30, "address space a c13 child may add to what it has at start (bytes); the other checks run without a limit")
)

type viol struct {
	Sig  string `json:"sig"`
	What string `json:"what"`
	Case any    `json:"case,omitempty"`
}

type caseResult struct {
	Evals        int      `json:"evals"`
	Traces       int      `json:"traces"`
	Nontrivial   bool     `json:"nontrivial"`
	Violations   []viol   `json:"violations,omitempty"`
	Inconclusive []string `json:"inconclusive,omitempty"`
}

func (r *caseResult) violate(sig, what string, c any) {
	for _, v := range r.Violations {
		if v.Sig == sig {
			return // one example per signature and case
		}
	}
	r.Violations = append(r.Violations, viol{Sig: sig, What: what, Case: c})
}

func reencode(in any, out any) {
	b, err := json.Marshal(in)
	if err == nil {
		err = json.Unmarshal(b, out)
	}
	if err != nil {
		panic(err)
	}
}

func loadCases(path string) [][]byte {
	f, err := os.Open(path)
	if err != nil {
		panic(err)
	}
	defer f.Close()
	var out [][]byte
	sc := bufio.NewScanner(f)
	sc.Buffer(make([]byte, 1<<20), 1<<28)
	for sc.Scan() {
		if len(bytes.TrimSpace(sc.Bytes())) > 0 {
			out = append(out, append([]byte(nil), sc.Bytes()...))
		}
	}
	return out
}

type header struct {
	Kind string `json:"kind"`
	Name string `json:"name"`
	Sig  string `json:"sig"`
}

// ------------------------------------------------------------------------------------------------------ child
func runChild() {
	// hard limit on address space: what the process has now plus -aslimit
	if b, err := os.ReadFile("/proc/self/statm"); err == nil && *check == "c13" {
		if pages, err := strconv.ParseInt(strings.Fields(string(b))[0], 10, 64); err == nil {
			lim := uint64(pages*int64(os.Getpagesize()) + *asLimit)
			_ = syscall.Setrlimit(syscall.RLIMIT_AS, &syscall.Rlimit{Cur: lim, Max: lim})
		}
	}
	if *check == "c13" {
		// Go's default limit for one goroutine stack is 1 GB; growing a stack that far takes minutes on a loaded machine. A
		// quarter of it keeps the deep-nesting cases quick and their outcome (fatal error: stack overflow) deterministic.
		debug.SetMaxStack(256 << 20)
	}
	fillSeed = vh.Seed()
	cases := loadCases(*casesPath)
	out := bufio.NewWriter(os.Stdout)
	end := len(cases)
	if *to >= 0 && *to < end {
		end = *to
	}
	for i := *from; i < end; i++ {
		fmt.Fprintf(out, "B %d\n", i)
		out.Flush()
		var h header
		_ = json.Unmarshal(cases[i], &h)
		rng := rand.New(rand.NewSource(vh.Seed()*1000003 + int64(i)))
		res := &caseResult{}
		if pan := guarded(func() { dispatch(h.Kind, cases[i], res, rng) }); pan != "" {
			res.Inconclusive = append(res.Inconclusive, fmt.Sprintf("driver panic on case %d (%s %s): %s", i, h.Kind, h.Sig, pan))
		}
		b, _ := json.Marshal(res)
		fmt.Fprintf(out, "E %d %s\n", i, b)
		out.Flush()
	}
}

func dispatch(kind string, raw []byte, res *caseResult, rng *rand.Rand) {
	switch kind {
	case "value":
		var c valueCase
		must(json.Unmarshal(raw, &c))
		if *check == "c13" {
			runValueAsBytes(&c, res, rng)
		} else {
			runValue(&c, res, rng)
		}
	case "malformed":
		var c malformedCase
		must(json.Unmarshal(raw, &c))
		runMalformed(&c, res, rng)
	case "cmd":
		var c cmdCase
		must(json.Unmarshal(raw, &c))
		runCmd(&c, res, rng)
	case "cache":
		var c cacheCase
		must(json.Unmarshal(raw, &c))
		runCache(&c, res, rng)
	default:
		panic("unknown case kind " + kind)
	}
}

func must(err error) {
	if err != nil {
		panic(err)
	}
}

// ------------------------------------------------------------------------------------------------------ parent
var fatalRe = regexp.MustCompile(`(?m)^(fatal error: .*|runtime: out of memory.*|panic: .*|signal: .*)$`)

func main() {
	flag.Parse()
	if *child {
		runChild()
		return
	}
	rep := &vh.Report{}
	cases := loadCases(*casesPath)
	rules := map[string]string{
		"c12": "distinct generated replies that contain an aggregate or an attribute, or were delivered with a read boundary inside a payload",
		"c13": "distinct generated inputs with at least one byte (every mutation of every base reply is a distinct input class)",
		"c14": "distinct command sequences with >= 2 arguments, an argument of >= 10 bytes or an argument containing CR, LF or NUL",
		"c17": "distinct (reply, expiry) pairs whose reply is an aggregate or carries a non-empty string",
	}
	rep.Rule = rules[*check]
	var mu sync.Mutex // guards rep's counters and seenNT
	var restarts atomic.Int64
	seenNT := map[string]bool{}
	var wg sync.WaitGroup
	shards := max(1, min(*par, (len(cases)+49)/50))
	for sh := 0; sh < shards; sh++ {
		lo, hi := sh*len(cases)/shards, (sh+1)*len(cases)/shards
		wg.Add(1)
		go func() {
			defer wg.Done()
			for next := lo; next < hi; {
				inflight, done := runBatch(cases, next, hi, rep, seenNT, &mu, false)
				if done {
					return
				}
				if inflight >= 0 { // the death of a child counts only if the case alone, in a fresh process, kills it again
					if _, alone := runBatch(cases, inflight, inflight+1, rep, seenNT, &mu, true); alone {
						rep.Sample(map[string]any{"note": "a child died during this case but the case passes alone in a fresh process (memory pressure of the harness)", "case_index": inflight})
					}
				}
				if inflight < 0 {
					rep.Inconcl("child process ended before starting a case (from %d)", next)
					return
				}
				next = inflight + 1
				if restarts.Add(1) > 400 {
					rep.Inconcl("more than 400 child crashes; stopping at case %d of %d", next, len(cases))
					return
				}
			}
		}()
	}
	wg.Wait()
	rep.Extra = map[string]any{"cases": len(cases), "child_restarts": restarts.Load(), "check": *check,
		"alloc_bound": fmt.Sprintf("%d * bytes received + %d", allocFactor, allocConst)}
	rep.Assumptions = append(rep.Assumptions,
		"token expansion (decimal rendering of lengths, filler bytes, class representatives) is done by the driver; the oracle values come from Resp.tla",
		"allocation is measured as runtime.MemStats.TotalAlloc delta around the decoding call")
	rep.Write(*vh.Out)
}

// runBatch starts one child at case index from. It returns the case in flight when the child died (done=false).
// With final=false the death of the child is only reported to the caller (which retries the case alone); with final=true
// it is recorded as a violation of the case in flight.
func runBatch(cases [][]byte, from, to int, rep *vh.Report, seenNT map[string]bool, mu *sync.Mutex, final bool) (inflight int, done bool) {
	self, _ := os.Executable()
	cmd := exec.Command(self, "-child", "-check", *check, "-cases", *casesPath, "-from", strconv.Itoa(from), "-to", strconv.Itoa(to), "-aslimit", strconv.FormatInt(*asLimit, 10))
	cmd.Env = append(os.Environ(), "GOMEMLIMIT=512MiB", "GOTRACEBACK=single")
	var stderr bytes.Buffer
	cmd.Stderr = &limitedWriter{w: &stderr, left: 1 << 16}
	stdout, err := cmd.StdoutPipe()
	must(err)
	must(cmd.Start())
	inflight = -1
	progress := make(chan struct{}, 1)
	finished := make(chan struct{})
	var hung atomic.Bool
	go func() { // watchdog: a case that makes no progress for 300 s is a hang
		for {
			select {
			case <-progress:
			case <-finished:
				return
			case <-time.After(300 * time.Second):
				hung.Store(true)
				_ = cmd.Process.Kill()
				return
			}
		}
	}()
	sc := bufio.NewScanner(stdout)
	sc.Buffer(make([]byte, 1<<20), 1<<28)
	last := -1
	for sc.Scan() {
		select {
		case progress <- struct{}{}:
		default:
		}
		line := sc.Text()
		if strings.HasPrefix(line, "B ") {
			inflight, _ = strconv.Atoi(line[2:])
			continue
		}
		if !strings.HasPrefix(line, "E ") {
			continue
		}
		parts := strings.SplitN(line, " ", 3)
		idx, _ := strconv.Atoi(parts[1])
		var res caseResult
		if err := json.Unmarshal([]byte(parts[2]), &res); err != nil {
			rep.Inconcl("unreadable result of case %d: %v", idx, err)
			continue
		}
		last = idx
		inflight = -1
		mu.Lock()
		rep.Evaluations += res.Evals
		rep.Traces += res.Traces
		if res.Nontrivial {
			key := string(cases[idx])
			if !seenNT[key] {
				seenNT[key] = true
				rep.DistinctNontrivial++
			}
		}
		mu.Unlock()
		for _, v := range res.Violations {
			rep.Violate(v.Sig, v.What, map[string]any{"case_index": idx, "case": json.RawMessage(cases[idx]), "seed": vh.Seed()})
		}
		for _, s := range res.Inconclusive {
			rep.Inconcl("%s", s)
		}
		if len(res.Violations) == 0 && (idx%997 == 0 || idx == len(cases)-1 || idx == 0) {
			rep.Sample(map[string]any{"case_index": idx, "case": json.RawMessage(clipJSON(cases[idx])), "evaluations": res.Evals, "verdict": "as the specification predicts"})
		}
	}
	werr := cmd.Wait()
	close(finished)
	if werr == nil {
		if last != to-1 && from < to {
			rep.Inconcl("child ended normally after case %d of range [%d, %d)", last, from, to)
		}
		return -1, true
	}
	if inflight < 0 {
		rep.Inconcl("child ended between cases (after %d): %v %s", last, werr, tail(stderr.String()))
		return last, false
	}
	if !final {
		return inflight, false
	}
	var h header
	_ = json.Unmarshal(cases[inflight], &h)
	name := h.Name
	if name == "" {
		name = h.Kind + " " + h.Sig
	}
	if hung.Load() {
		rep.Violate(*check+" hang "+name, fmt.Sprintf("case %d (%s in %s) made no progress for 300 s", inflight, name, h.Sig),
			map[string]any{"case_index": inflight, "case": json.RawMessage(cases[inflight])})
		return inflight, false
	}
	kind := "crash"
	msg := fatalRe.FindString(stderr.String())
	switch {
	case strings.Contains(msg, "out of memory") || strings.Contains(stderr.String(), "out of memory") || strings.Contains(stderr.String(), "pthread_create failed"):
		kind = "fatal-oom"
	case strings.Contains(stderr.String(), "stack overflow") || strings.Contains(stderr.String(), "stack exceeds"):
		kind = "fatal-stack"
	}
	rep.Violate(*check+" "+kind+" "+name, fmt.Sprintf("the process died while handling case %d (%s in %s): %v: %s", inflight, name, h.Sig, werr, tail(stderr.String())),
		map[string]any{"case_index": inflight, "case": json.RawMessage(cases[inflight])})
	return inflight, false
}

func tail(s string) string {
	s = strings.TrimSpace(s)
	if i := strings.Index(s, "\n\ngoroutine "); i > 0 {
		s = s[:i]
	}
	if len(s) > 600 {
		s = s[:600]
	}
	return s
}

func clipJSON(b []byte) []byte {
	if len(b) <= 1500 {
		return b
	}
	q, _ := json.Marshal(string(b[:1500]) + "...")
	return q
}

type limitedWriter struct {
	w    *bytes.Buffer
	left int
}

func (l *limitedWriter) Write(p []byte) (int, error) {
	if l.left > 0 {
		n := min(len(p), l.left)
		l.w.Write(p[:n])
		l.left -= n
	}
	return len(p), nil
}
