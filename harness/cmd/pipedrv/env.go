package main

import (
	"context"
	"crypto/tls"
	"errors"
	"fmt"
	"hash/fnv"
	"net"
	"os"
	"regexp"
	"strconv"
	"strings"
	"sync"
	"sync/atomic"
	"time"

	"github.com/redis/rueidis"
	"verifharness/fakeredis"
	"verifharness/vh"
)

// Cfg is one client configuration of the sweep. The queue type is read by rueidis in init from the environment,
// which is why every Cfg runs in a re-executed child process.
type Cfg struct {
	Name             string `json:"name"`
	Queue            string `json:"queue"`     // ring | flowbuffer
	RingScale        int    `json:"ringscale"` // 0 = default (2^10 slots), 1 = 2 slots
	Multiplex        int    `json:"multiplex"` // PipelineMultiplex: -1 (one connection), 1, 2
	AlwaysPipelining bool   `json:"alwayspipe"`
	RESP2            bool   `json:"resp2"` // AlwaysRESP2 + DisableCache: Pub/Sub goes over a second connection
	NoAutoPipe       bool   `json:"noautopipe"`
	SmallBuf         bool   `json:"smallbuf"` // 64 byte read buffer: replies cross many read boundaries
	NoCache          bool   `json:"nocache"`  // DisableCache on a RESP3 connection: no client-side cache, tracking only when a caller turns it on by hand
}

// noCache: DoCache / DoMultiCache fall back to Do / DoMulti (plain wire form)
func (c Cfg) noCache() bool { return c.RESP2 || c.NoCache }

func (c Cfg) singleConn() bool { return c.Multiplex < 0 && !c.NoAutoPipe }

// ---------------------------------------------------------------------------------------------- trace records

// E is one trace record. Every record carries every field (TLC rejects access to a missing record field).
type E struct {
	Ev    string
	C     int
	Conn  int
	Kind  string
	Sess  int
	Ids   []string
	Cmds  [][]string
	Vals  []string
	Elems []string
	Chan  string
	N     int
	Flag  bool
}

// debugging aid: PIPEDRV_LIVE=<file> streams every record to a file (survives a crash of the process)
var (
	liveFile *os.File
	liveMu   sync.Mutex
)

func init() {
	if p := os.Getenv("PIPEDRV_LIVE"); p != "" {
		liveFile, _ = os.OpenFile(p, os.O_CREATE|os.O_WRONLY|os.O_APPEND, 0o644)
	}
}

func nz(s []string) []string {
	if s == nil {
		return []string{}
	}
	return s
}

func (r *run) log(e E) {
	cmds := e.Cmds
	if cmds == nil {
		cmds = [][]string{}
	}
	if liveFile != nil {
		liveMu.Lock()
		fmt.Fprintf(liveFile, "%s c=%d conn=%d kind=%s sess=%d ids=%v cmds=%v vals=%v chan=%s n=%d flag=%v\n", e.Ev, e.C, e.Conn, e.Kind, e.Sess, e.Ids, e.Cmds, e.Vals, e.Chan, e.N, e.Flag)
		liveMu.Unlock()
	}
	r.tr.Log(e.Ev, "c", e.C, "conn", e.Conn, "kind", e.Kind, "sess", e.Sess, "ids", nz(e.Ids), "cmds", cmds,
		"vals", nz(e.Vals), "elems", nz(e.Elems), "chan", e.Chan, "n", e.N, "flag", e.Flag)
}

// ---------------------------------------------------------------------------------------------- canonical values

// short keeps trace strings small: long payloads are replaced by length and hash.
func short(s string) string {
	if len(s) <= 64 {
		return s
	}
	h := fnv.New64a()
	h.Write([]byte(s))
	return fmt.Sprintf("#%d:%x", len(s), h.Sum64())
}

// canonV renders a reply tree of the fake server the way a client of protocol proto must see it (RESP2 downgrade as
// documented for fakeredis.Value.EncodeRESP2).
func canonV(v fakeredis.Value, proto int) string {
	if v.IsNull() {
		return "_"
	}
	list := func(tag string) string {
		parts := make([]string, len(v.Arr))
		for i, x := range v.Arr {
			parts[i] = canonV(x, proto)
		}
		return tag + "[" + strings.Join(parts, ",") + "]"
	}
	switch v.Typ {
	case fakeredis.TSimple:
		return "+" + short(v.Str)
	case fakeredis.TError, fakeredis.TBlobErr:
		return "-" + short(v.Str)
	case fakeredis.TInt:
		return ":" + strconv.FormatInt(v.Int, 10)
	case fakeredis.TBulk:
		return "$" + short(v.Str)
	case fakeredis.TArray:
		return list("*")
	case fakeredis.TPush:
		if proto < 3 {
			return list("*")
		}
		return list(">")
	case fakeredis.TMap:
		if proto < 3 {
			return list("*")
		}
		return list("%")
	case fakeredis.TSet:
		if proto < 3 {
			return list("*")
		}
		return list("~")
	case fakeredis.TDouble:
		if proto < 3 {
			return "$" + v.Str
		}
		return "," + v.Str
	case fakeredis.TBool:
		if proto < 3 {
			return ":" + strconv.FormatInt(v.Int, 10)
		}
		return "#" + strconv.FormatInt(v.Int, 10)
	case fakeredis.TBigNum:
		if proto < 3 {
			return "$" + v.Str
		}
		return "(" + v.Str
	case fakeredis.TVerbatim:
		if proto < 3 {
			return "$" + short(v.Str[4:])
		}
		return "=" + short(v.Str)
	}
	return fmt.Sprintf("?%c", v.Typ)
}

// canonM renders what the client returned, in the same form.
func canonM(m rueidis.RedisMessage) string {
	typ, str, n, vals := rueidis.VerifPipeMsgView(m)
	list := func(tag string) string {
		parts := make([]string, len(vals))
		for i, x := range vals {
			parts[i] = canonM(x)
		}
		return tag + "[" + strings.Join(parts, ",") + "]"
	}
	switch typ {
	case 0:
		return "" // the empty message (acknowledged SUBSCRIBE)
	case '_':
		return "_"
	case '+':
		return "+" + short(str)
	case '-', '!':
		return "-" + short(str)
	case ':':
		return ":" + strconv.FormatInt(n, 10)
	case '$':
		return "$" + short(str)
	case '*':
		return list("*")
	case '>':
		return list(">")
	case '%':
		return list("%")
	case '~':
		return list("~")
	case ',':
		return "," + str
	case '#':
		return "#" + strconv.FormatInt(n, 10)
	case '(':
		return "(" + str
	case '=':
		return "=" + short(str)
	}
	return fmt.Sprintf("?%c", typ)
}

// canonR renders a result: a reply, or "!class" for an error that is not a reply.
func canonR(res rueidis.RedisResult) string {
	if err := res.NonRedisError(); err != nil {
		return errClass(err)
	}
	m, _ := res.ToMessage() // a Redis error reply is still a reply: ToMessage returns the message with it
	return canonM(m)
}

func errClass(err error) string {
	switch {
	case err == nil:
		return "nil"
	case errors.Is(err, context.Canceled) || errors.Is(err, context.DeadlineExceeded):
		return "!ctx" // also a dial error that wraps the context's error (connection made on demand with the caller's context)
	case err == rueidis.ErrClosing:
		return "!closing"
	}
	return "!other:" + short(strings.ReplaceAll(err.Error(), "\"", "'"))
}

var idRe = regexp.MustCompile(`^[a-z]+:(\d+\.\d+)`)

// idOf extracts the command id the driver embedded in an argv ("" for protocol commands of the client).
func idOf(argv []string) string {
	if len(argv) < 2 {
		return ""
	}
	switch strings.ToUpper(argv[0]) {
	case "VTAG":
		return argv[1]
	case "GET", "MGET", "HGETALL", "SUBSCRIBE", "PSUBSCRIBE", "SSUBSCRIBE":
		if m := idRe.FindStringSubmatch(argv[1]); m != nil {
			return m[1]
		}
	}
	return ""
}

func canonArgv(argv []string) []string {
	out := make([]string, len(argv))
	for i, a := range argv {
		out[i] = short(a)
	}
	return out
}

// ---------------------------------------------------------------------------------------------- tagged replies

// hashOf gives the integer that stands for an id.
func hashOf(id string) int64 {
	h := fnv.New32a()
	h.Write([]byte(id))
	return int64(h.Sum32())
}

var shapes = []string{"str", "int", "arr", "map", "nil", "err", "big", "simple", "dbl", "bool", "set", "empty"}

// tagged is the reply of `VTAG <id> <shape>`: a value tree derived from the id, so that the replies of two commands
// are never interchangeable.
func tagged(id, shape string) fakeredis.Value {
	switch shape {
	case "int":
		return fakeredis.Int(hashOf(id))
	case "arr":
		return fakeredis.Array(fakeredis.Bulk("a:"+id), fakeredis.Int(hashOf(id)), fakeredis.Array(fakeredis.Bulk("n:"+id), fakeredis.Null()))
	case "map":
		return fakeredis.Map(fakeredis.Bulk("id"), fakeredis.Bulk("m:"+id), fakeredis.Bulk("n"), fakeredis.Int(hashOf(id)))
	case "nil":
		return fakeredis.Null()
	case "err":
		return fakeredis.Err("ERR tagged " + id)
	case "big":
		return fakeredis.Bulk(strings.Repeat("b:"+id+"|", 6000))
	case "simple":
		return fakeredis.Simple("s:" + id)
	case "dbl":
		return fakeredis.Double(float64(hashOf(id)%1000) + 0.5)
	case "bool":
		return fakeredis.Bool(hashOf(id)%2 == 0)
	case "set":
		return fakeredis.Set(fakeredis.Bulk("e:"+id), fakeredis.Bulk("f:"+id))
	case "empty":
		return fakeredis.Array()
	}
	return fakeredis.Bulk("v:" + id)
}

// ---------------------------------------------------------------------------------------------- gated transport

// gate lets the driver stop the client's writes to one connection (the client's writer goroutine blocks in Flush):
// commands queue up unwritten in the ring / flow buffer.
type gate struct {
	mu     sync.Mutex
	cond   *sync.Cond
	closed bool
}

func newGate() *gate { g := &gate{}; g.cond = sync.NewCond(&g.mu); return g }
func (g *gate) set(closed bool) {
	g.mu.Lock()
	g.closed = closed
	g.cond.Broadcast()
	g.mu.Unlock()
}
func (g *gate) wait() {
	g.mu.Lock()
	for g.closed {
		g.cond.Wait()
	}
	g.mu.Unlock()
}

type gatedConn struct {
	net.Conn
	g *gate
}

func (c *gatedConn) Write(p []byte) (int, error) { c.g.wait(); return c.Conn.Write(p) }

// ---------------------------------------------------------------------------------------------- one run

const addr = "127.0.0.1:6379"

type call struct {
	id     int
	kind   string
	cancel context.CancelFunc
	done   chan struct{}
}

type run struct {
	cfg    Cfg
	seed   int64
	tr     *vh.Tracer
	srv    *fakeredis.Server
	net    *fakeredis.Network
	client rueidis.Client
	gate   *gate
	rep    *vh.Report
	mode   string

	nextCall atomic.Int64
	mu       sync.Mutex
	open     map[int]*call // calls that have not returned
	nret     int
	ncalls   int
	misroute atomic.Int64

	invalOn  bool
	ninvalCb atomic.Int64
	nlossCb  atomic.Int64
	closing  atomic.Bool
	ctx      context.Context // context of the calls the driver issues for itself; ended only when the run hangs
	abort    context.CancelFunc
	features map[string]bool // what happened in this run (for the distinct/non-trivial count)
}

func (r *run) feat(f string) {
	r.mu.Lock()
	r.features[f] = true
	r.mu.Unlock()
}

// sink turns the fake server's events into trace records (runs under the dispatcher mutex).
func (r *run) sink(e fakeredis.Event) {
	if e.Conn == 0 {
		return // the admin connection of Server.Do: the environment, not the client
	}
	switch e.Kind {
	case fakeredis.SConn:
		r.log(E{Ev: "SConn", Conn: e.Conn})
	case fakeredis.SRecv:
		r.log(E{Ev: "SRecv", Conn: e.Conn, Ids: []string{idOf(e.Argv)}, Cmds: [][]string{canonArgv(e.Argv)}})
	case fakeredis.SExec:
		// not recorded: none of the properties of this family looks at executions (C03 does), and the event would
		// make every trace a sixth longer
	case fakeredis.SRep:
		proto := r.protoOf(e.Conn)
		var elems []string
		if e.Reply.Typ == fakeredis.TArray && !e.Reply.IsNull() {
			for _, x := range e.Reply.Arr {
				elems = append(elems, canonV(x, proto))
			}
		}
		r.log(E{Ev: "SRep", Conn: e.Conn, Vals: []string{canonV(e.Reply, proto)}, Elems: elems, N: e.Frame})
	case fakeredis.SPush:
		kind, ch, val := pushInfo(e.Reply, r.protoOf(e.Conn))
		r.log(E{Ev: "SPush", Conn: e.Conn, Kind: kind, Chan: ch, Vals: []string{val}, N: e.Frame})
	case fakeredis.SCut, fakeredis.SClose:
		r.log(E{Ev: e.Kind, Conn: e.Conn, Kind: e.Note})
	}
}

func (r *run) protoOf(conn int) int {
	if c := r.srv.Conn(conn); c != nil {
		return c.Proto()
	}
	return 3
}

// pushInfo classifies a push frame: kind, subscription name (channel or pattern) and the payload in the form the
// callbacks report it ("pattern|channel|message" for messages, "k1,k2" or "nil" for invalidations).
func pushInfo(v fakeredis.Value, proto int) (kind, ch, val string) {
	if len(v.Arr) == 0 {
		return "?", "", canonV(v, proto)
	}
	kind = v.Arr[0].Str
	str := func(i int) string {
		if i < len(v.Arr) && !v.Arr[i].IsNull() {
			return v.Arr[i].Str
		}
		return ""
	}
	switch kind {
	case "message", "smessage":
		return kind, str(1), "|" + str(1) + "|" + short(str(2))
	case "pmessage":
		return kind, str(1), str(1) + "|" + str(2) + "|" + short(str(3))
	case "invalidate":
		if len(v.Arr) < 2 || v.Arr[1].IsNull() {
			return kind, "", "nil"
		}
		keys := make([]string, len(v.Arr[1].Arr))
		for i, k := range v.Arr[1].Arr {
			keys[i] = k.Str
		}
		return kind, "", strings.Join(keys, ",")
	case "subscribe", "psubscribe", "ssubscribe", "unsubscribe", "punsubscribe", "sunsubscribe":
		n := int64(0)
		if len(v.Arr) > 2 {
			n = v.Arr[2].Int
		}
		return kind, str(1), ":" + strconv.FormatInt(n, 10)
	}
	return kind, "", canonV(v, proto)
}

func msgVal(m rueidis.PubSubMessage) string {
	return m.Pattern + "|" + m.Channel + "|" + short(m.Message)
}

func keysVal(keys []rueidis.RedisMessage) string {
	if keys == nil {
		return "nil"
	}
	out := make([]string, len(keys))
	for i, k := range keys {
		out[i], _ = k.ToString()
	}
	return strings.Join(out, ",")
}

// newRun starts a fake server and the real client for one run.
func newRun(cfg Cfg, mode string, seed int64, invalOn bool, rep *vh.Report) (*run, error) {
	r := &run{cfg: cfg, seed: seed, tr: &vh.Tracer{}, rep: rep, mode: mode, open: map[int]*call{}, invalOn: invalOn,
		features: map[string]bool{}, gate: newGate()}
	r.ctx, r.abort = context.WithCancel(context.Background())
	name := cfg.Name
	if cfg.NoCache {
		name += "+nocache"
	}
	r.log(E{Ev: "RESET", Kind: name + "/" + mode, N: int(seed)})
	r.log(E{Ev: "Start", Flag: invalOn})
	r.srv = fakeredis.NewServer("s1", fakeredis.Options{})
	r.srv.SetEventSink(r.sink)
	r.srv.SetIntercept(func(c *fakeredis.Conn, argv []string) (fakeredis.Value, fakeredis.Action) {
		if len(argv) >= 3 && argv[0] == "VTAG" {
			return tagged(argv[1], argv[2]), fakeredis.Reply
		}
		return fakeredis.Value{}, fakeredis.Pass
	})
	r.net = fakeredis.NewNetwork()
	r.net.Add(addr, r.srv)
	opt := rueidis.ClientOption{
		InitAddress:       []string{addr},
		ForceSingleClient: true,
		DisableRetry:      true,
		DialCtxFn: func(ctx context.Context, dst string, _ *net.Dialer, _ *tls.Config) (net.Conn, error) {
			c, err := r.net.Dial(ctx, dst)
			if err != nil {
				return nil, err
			}
			return &gatedConn{Conn: c, g: r.gate}, nil
		},
		RingScaleEachConn:     cfg.RingScale,
		PipelineMultiplex:     cfg.Multiplex,
		AlwaysPipelining:      cfg.AlwaysPipelining,
		AlwaysRESP2:           cfg.RESP2,
		DisableCache:          cfg.noCache(),
		DisableAutoPipelining: cfg.NoAutoPipe,
		ConnWriteTimeout:      10 * time.Minute, // no background PING, no write deadline during a run
		BlockingPoolSize:      8,
	}
	opt.Dialer.KeepAlive = 10 * time.Minute
	if cfg.SmallBuf {
		opt.ReadBufferEachConn = 64
	}
	if mode == "dedicated" {
		opt.BlockingPoolSize = 1 // successive sessions reuse one connection
	}
	if invalOn {
		opt.OnInvalidations = func(keys []rueidis.RedisMessage) {
			v := keysVal(keys)
			r.log(E{Ev: "InvalCb", Vals: []string{v}})
			r.ninvalCb.Add(1)
		}
	}
	var err error
	r.client, err = rueidis.NewClient(opt)
	if err != nil {
		r.srv.Close()
		return nil, err
	}
	return r, nil
}

// settle waits until the trace has not grown for quiet (at most max).
func (r *run) settle(quiet, max time.Duration) {
	deadline := time.Now().Add(max)
	n, since := r.tr.Len(), time.Now()
	for time.Now().Before(deadline) {
		time.Sleep(200 * time.Microsecond)
		if m := r.tr.Len(); m != n {
			n, since = m, time.Now()
		} else if time.Since(since) >= quiet {
			return
		}
	}
}

// waitUntil polls cond (generous: the machine may be loaded).
func waitUntil(max time.Duration, cond func() bool) bool {
	deadline := time.Now().Add(max)
	for !cond() {
		if time.Now().After(deadline) {
			return false
		}
		time.Sleep(300 * time.Microsecond)
	}
	return true
}

func (r *run) hung() bool {
	r.mu.Lock()
	defer r.mu.Unlock()
	return r.features["hang"]
}

// await waits for the driver's own goroutines, but never for ever: calls that do not return are a finding (hang), not a
// reason to block the driver.
func (r *run) await(wg *sync.WaitGroup) bool { return r.awaitFor(wg, hangWait) }

func (r *run) awaitFor(wg *sync.WaitGroup, d time.Duration) bool {
	done := make(chan struct{})
	go func() { wg.Wait(); close(done) }()
	select {
	case <-done:
		return true
	case <-time.After(d):
		r.feat("hang")
		return false
	}
}

// bounded runs a call of the driver's main flow; if it does not return the run is marked as hanging and the driver's
// context is ended so that the flow can go on to the end of the run.
func (r *run) bounded(fn func()) {
	var wg sync.WaitGroup
	wg.Add(1)
	go func() { defer wg.Done(); fn() }()
	if !r.await(&wg) {
		r.abort()
	}
}

func (r *run) openCalls() int {
	r.mu.Lock()
	defer r.mu.Unlock()
	return len(r.open)
}

// finish: the driver has ended or released everything; wait for the client to settle, declare quiescence, close.
func (r *run) finish(hangWait time.Duration) [](map[string]any) {
	r.gate.set(false)
	for _, c := range r.srv.Conns() {
		r.holdOff(c)
	}
	allBack := waitUntil(hangWait, func() bool { return r.openCalls() == 0 })
	if !allBack {
		r.feat("hang")
	}
	r.settle(2*time.Millisecond, 200*time.Millisecond)
	r.log(E{Ev: "Quiesce", Flag: allBack})
	// unblock whatever is left (only after a violation), then close
	r.abort()
	r.mu.Lock()
	for _, c := range r.open {
		if c.cancel != nil {
			c.cancel()
		}
	}
	r.mu.Unlock()
	r.closing.Store(true)
	r.log(E{Ev: "CloseBegin"})
	done := make(chan struct{})
	go func() { r.client.Close(); close(done) }()
	select {
	case <-done:
	case <-time.After(10 * time.Second):
		r.rep.Inconcl("client.Close did not return within 10 s (cfg %s mode %s seed %d)", r.cfg.Name, r.mode, r.seed)
	}
	r.srv.Close()
	return r.tr.Events()
}

func (r *run) holdOn(c *fakeredis.Conn) {
	r.srv.Lock()
	c.HoldReplies(true)
	r.log(E{Ev: "Hold", Conn: c.ID(), Flag: true})
	r.srv.Unlock()
}
func (r *run) holdOff(c *fakeredis.Conn) {
	r.srv.Lock()
	r.log(E{Ev: "Hold", Conn: c.ID(), Flag: false})
	c.HoldReplies(false)
	r.srv.Unlock()
}
func (r *run) release(c *fakeredis.Conn, n int) {
	r.srv.Lock()
	r.log(E{Ev: "Release", Conn: c.ID(), N: n})
	c.Release(n)
	r.srv.Unlock()
}
