package main

import (
	"context"
	"fmt"
	"time"

	"github.com/redis/rueidis"
)

// begin logs the Call record (before the call is made) and registers the call as open.
func (r *run) begin(kind string, sess int, cancel context.CancelFunc, ids []string, argvs [][]string) *call {
	c := &call{id: int(r.nextCall.Add(1)), kind: kind, cancel: cancel, done: make(chan struct{})}
	r.mu.Lock()
	r.open[c.id] = c
	r.ncalls++
	r.mu.Unlock()
	r.log(E{Ev: "Call", C: c.id, Kind: kind, Sess: sess, Ids: ids, Cmds: argvs})
	return c
}

// end logs the Ret record (after the call returned).
func (r *run) end(c *call, vals []string) {
	r.log(E{Ev: "Ret", C: c.id, Vals: vals})
	r.mu.Lock()
	delete(r.open, c.id)
	r.nret++
	r.mu.Unlock()
	close(c.done)
}

// cancelCall ends the context of a call (logged before: from here on the call may observe it).
func (r *run) cancelCall(c *call) {
	if c.cancel == nil {
		return
	}
	r.log(E{Ev: "Cancel", C: c.id})
	c.cancel()
}

// cancelLate ends a call that the driver waited for in vain: whatever should have ended it happened long ago.
func (r *run) cancelLate(c *call) {
	if c.cancel == nil {
		return
	}
	r.log(E{Ev: "Cancel", C: c.id, Flag: true})
	c.cancel()
}

func (r *run) proto() int {
	if r.cfg.RESP2 {
		return 2
	}
	return 3
}

// direct is the second verdict path: the reply value embeds the command id, so the driver itself sees a reply that
// was handed to the wrong call (the first path is OwnRepliesInOrder in the trace specification).
func (r *run) direct(kind string, callID int, i int, got, want string, alt string) {
	if len(got) > 0 && got[0] == '!' {
		return // a client side error, not a reply
	}
	if got == want || (alt != "" && got == alt) {
		return
	}
	r.misroute.Add(1)
	r.rep.Violate("direct:misrouted-reply kind="+kind,
		fmt.Sprintf("call %d (%s) result %d is %q, the server's reply to that command is %q: the caller did not get its own reply (cfg %s mode %s seed %d)",
			callID, kind, i, got, want, r.cfg.Name, r.mode, r.seed),
		map[string]any{"cfg": r.cfg, "mode": r.mode, "seed": r.seed, "trace_tail": tail(r.tr.Events(), 60)})
}

func tail(ev []map[string]any, n int) []map[string]any {
	if len(ev) > n {
		return ev[len(ev)-n:]
	}
	return ev
}

type tag struct{ id, shape string }

func (r *run) cmdID(n int64, i int) string { return fmt.Sprintf("%d.%d", n, i) }

// peekID returns the id the next call will get (ids are embedded in the argv before the Call record exists).
// Calls are numbered by one atomic counter; begin() must be the next user of it on this goroutine's behalf, which is
// guaranteed by reserving the number here and passing it on.
type reserved struct {
	n int64
}

func (r *run) reserve() reserved { return reserved{n: r.nextCall.Add(1)} }

func (r *run) beginReserved(rs reserved, kind string, sess int, cancel context.CancelFunc, ids []string, argvs [][]string) *call {
	c := &call{id: int(rs.n), kind: kind, cancel: cancel, done: make(chan struct{})}
	r.mu.Lock()
	r.open[c.id] = c
	r.ncalls++
	r.mu.Unlock()
	r.log(E{Ev: "Call", C: c.id, Kind: kind, Sess: sess, Ids: ids, Cmds: argvs})
	return c
}

type doer interface {
	B() rueidis.Builder
	Do(ctx context.Context, cmd rueidis.Completed) rueidis.RedisResult
	DoMulti(ctx context.Context, multi ...rueidis.Completed) []rueidis.RedisResult
}

// callTagged issues Do (one shape) or DoMulti (several) of VTAG commands; blocking marks a single command with the
// blocking tag (it then travels over a pooled dedicated connection). onCall, when set, is invoked with the call
// right after the Call record (scenario mode keeps track of the current call of a caller).
func (r *run) callTagged(cl doer, sess int, ctx context.Context, cancel context.CancelFunc, shapes []string, blocking bool, onCall func(*call)) []string {
	rs := r.reserve()
	n := len(shapes)
	ids := make([]string, n)
	argvs := make([][]string, n)
	cmds := make([]rueidis.Completed, n)
	for i, sh := range shapes {
		ids[i] = r.cmdID(rs.n, i+1)
		a := cl.B().Arbitrary("VTAG").Args(ids[i], sh)
		if blocking {
			cmds[i] = a.Blocking()
		} else {
			cmds[i] = a.Build()
		}
		argvs[i] = canonArgv(cmds[i].Commands())
	}
	kind := "multi"
	if n == 1 {
		kind = "do"
		if blocking {
			kind = "block"
		}
	}
	c := r.beginReserved(rs, kind, sess, cancel, ids, argvs)
	if onCall != nil {
		onCall(c)
	}
	vals := make([]string, n)
	if n == 1 {
		vals[0] = canonR(cl.Do(ctx, cmds[0]))
	} else {
		for i, res := range cl.DoMulti(ctx, cmds...) {
			vals[i] = canonR(res)
		}
	}
	r.end(c, vals)
	for i := range vals {
		r.direct(kind, c.id, i+1, vals[i], canonV(tagged(ids[i], shapes[i]), r.proto()), "")
	}
	return vals
}

// callCache issues a cached read of keys named after the command ids: DoCache (one key), DoMultiCache (several),
// DoCache of an MGET (mget) or of a ToStaticTTL command (static). missing keys are not created (nil replies).
func (r *run) callCache(ctx context.Context, cancel context.CancelFunc, form string, nkeys int, missing bool, onCall func(*call)) []string {
	rs := r.reserve()
	cl := r.client
	key := func(i int) string { return fmt.Sprintf("k:%d.%d{c%d}", rs.n, i, rs.n) }
	val := func(i int) string { return fmt.Sprintf("v:%d.%d", rs.n, i) }
	want := func(i int) string {
		if missing {
			return "_"
		}
		return "$" + val(i)
	}
	if !missing {
		for i := 1; i <= nkeys; i++ {
			r.srv.Do("SET", key(i), val(i))
		}
	}
	var c *call
	var vals, wants []string
	switch form {
	case "mget":
		keys := make([]string, nkeys)
		w := "*["
		for i := range keys {
			// the id of the call's single command is carried by the first key
			keys[i] = fmt.Sprintf("k:%d.1:%d{c%d}", rs.n, i+1, rs.n)
			if !missing {
				r.srv.Do("SET", keys[i], fmt.Sprintf("v:%d.1:%d", rs.n, i+1))
				w += fmt.Sprintf("$v:%d.1:%d", rs.n, i+1)
			} else {
				w += "_"
			}
			if i < nkeys-1 {
				w += ","
			}
		}
		w += "]"
		cmd := cl.B().Mget().Key(keys...).Cache()
		argv := canonArgv(cmd.Commands())
		kind := "mget"
		if r.cfg.noCache() {
			kind = "do" // DisableCache: DoCache falls back to Do
		}
		c = r.beginReserved(rs, kind, 0, cancel, []string{r.cmdID(rs.n, 1)}, [][]string{argv})
		if onCall != nil {
			onCall(c)
		}
		vals = []string{canonR(cl.DoCache(ctx, cmd, time.Minute))}
		wants = []string{w}
	case "static", "cache":
		ids := make([]string, nkeys)
		argvs := make([][]string, nkeys)
		cts := make([]rueidis.CacheableTTL, nkeys)
		for i := 0; i < nkeys; i++ {
			ids[i] = r.cmdID(rs.n, i+1)
			cc := cl.B().Get().Key(key(i + 1)).Cache()
			if form == "static" {
				cc = cc.ToStaticTTL()
			}
			argvs[i] = canonArgv(cc.Commands())
			cts[i] = rueidis.CT(cc, time.Minute)
			wants = append(wants, want(i+1))
		}
		kind := form
		if r.cfg.noCache() {
			kind = "multi"
			if nkeys == 1 {
				kind = "do"
			}
		}
		c = r.beginReserved(rs, kind, 0, cancel, ids, argvs)
		if onCall != nil {
			onCall(c)
		}
		if nkeys == 1 {
			vals = []string{canonR(cl.DoCache(ctx, cts[0].Cmd, time.Minute))}
		} else {
			for _, res := range cl.DoMultiCache(ctx, cts...) {
				vals = append(vals, canonR(res))
			}
		}
	}
	r.end(c, vals)
	alt := ""
	if r.mode == "inval" {
		alt = "_" // another goroutine's FLUSHALL may have removed the key between its creation and the read
	}
	for i := range vals {
		r.direct(c.kind, c.id, i+1, vals[i], wants[i], alt)
	}
	return vals
}

// callPlain issues a command without an id through Do (UNSUBSCRIBE ... from the driver).
func (r *run) callPlain(cl doer, sess int, ctx context.Context, cmd rueidis.Completed) string {
	argv := canonArgv(cmd.Commands())
	kind := "do"
	if cmd.IsUnsub() {
		kind = "unsub" // the client writes a PING behind it and returns the PING's reply
	}
	c := r.begin(kind, sess, nil, []string{""}, [][]string{argv})
	v := canonR(cl.Do(ctx, cmd))
	r.end(c, []string{v})
	return v
}

type receiver interface {
	B() rueidis.Builder
	Receive(ctx context.Context, subscribe rueidis.Completed, fn func(msg rueidis.PubSubMessage)) error
}

// callReceive runs one Receive: cmd is SUBSCRIBE / PSUBSCRIBE / SSUBSCRIBE, the first name is unique for the call
// ("u:<id>..."), the others may be shared with other subscriptions.
func (r *run) callReceive(cl receiver, sess int, ctx context.Context, cancel context.CancelFunc, cmd string, shared []string, onCall func(*call)) string {
	rs := r.reserve()
	id := r.cmdID(rs.n, 1)
	var sub rueidis.Completed
	switch cmd {
	case "PSUBSCRIBE":
		names := append([]string{"u:" + id + ":*"}, shared...)
		sub = cl.B().Psubscribe().Pattern(names...).Build()
	case "SSUBSCRIBE":
		names := append([]string{"u:" + id}, shared...)
		sub = cl.B().Ssubscribe().Channel(names...).Build()
	default:
		names := append([]string{"u:" + id}, shared...)
		sub = cl.B().Subscribe().Channel(names...).Build()
	}
	argv := canonArgv(sub.Commands())
	c := r.beginReserved(rs, "sub", sess, cancel, []string{id}, [][]string{argv})
	if onCall != nil {
		onCall(c)
	}
	err := cl.Receive(ctx, sub, func(m rueidis.PubSubMessage) {
		r.log(E{Ev: "RecvCb", C: c.id, Vals: []string{msgVal(m)}})
	})
	v := errClass(err)
	if re, ok := rueidis.IsRedisErr(err); ok {
		v = "!other:redis " + short(re.Error())
	}
	r.end(c, []string{v})
	return v
}
