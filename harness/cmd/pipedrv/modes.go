package main

import (
	"context"
	"fmt"
	"math/rand"
	"sync"
	"time"

	"github.com/redis/rueidis"
	"verifharness/fakeredis"
)

const hangWait = 8 * time.Second // "never" for a call whose replies were all released (the machine may be loaded)

func (r *run) ctxFor(rng *rand.Rand, pCancel int) (context.Context, context.CancelFunc) {
	if rng.Intn(100) < pCancel {
		return context.WithCancel(context.Background())
	}
	return context.Background(), nil
}

// conns returns the open connections of the server.
func (r *run) conns() []*fakeredis.Conn { return r.srv.Conns() }

// pushable returns the connections that completed the RESP3 handshake: only those may be sent unsolicited push
// frames (a real server never pushes to a connection that has not switched to RESP3).
func (r *run) pushable() []*fakeredis.Conn {
	var out []*fakeredis.Conn
	for _, c := range r.srv.Conns() {
		if _, ver := c.LibInfo(); ver != "" && c.Proto() == 3 {
			out = append(out, c)
		}
	}
	return out
}

// ---------------------------------------------------------------------------------------------- mode c01: random concurrency

// runRandom: N goroutines issue Do / DoMulti / DoCache / DoMultiCache / MGET / static-TTL / blocking-tagged calls and
// Receives back to back (building the next command immediately after a cancelled call), contexts are cancelled at
// random moments, a pusher inserts invalidations, messages and unknown pushes, replies are held and released in
// random chunks, the client's writes are gated now and then.
func runRandom(cfg Cfg, seed int64, rep *reportT) []map[string]any {
	rng := rand.New(rand.NewSource(seed))
	r, err := newRun(cfg, "c01", seed, false, rep.Report)
	if err != nil {
		rep.Inconcl("NewClient failed: %v (cfg %s)", err, cfg.Name)
		return nil
	}
	ngo := 2 + rng.Intn(4)
	ncall := 3 + rng.Intn(5)
	useHold := cfg.singleConn() && rng.Intn(3) == 0
	useGate := rng.Intn(4) == 0
	pCancel := []int{0, 20, 50}[rng.Intn(3)]
	var wg sync.WaitGroup
	stop := make(chan struct{})
	if useHold {
		for _, c := range r.conns() {
			r.holdOn(c)
		}
		r.feat("hold")
	}
	// canceller: ends contexts of open calls at random moments
	var cmu sync.Mutex
	var cancellable []*call
	cseed := rng.Int63()
	go func() {
		crng := rand.New(rand.NewSource(cseed))
		for {
			select {
			case <-stop:
				return
			case <-time.After(time.Duration(20+crng.Intn(300)) * time.Microsecond):
			}
			cmu.Lock()
			if len(cancellable) > 0 {
				i := crng.Intn(len(cancellable))
				c := cancellable[i]
				cancellable = append(cancellable[:i], cancellable[i+1:]...)
				cmu.Unlock()
				r.cancelCall(c)
				r.feat("cancel")
			} else {
				cmu.Unlock()
			}
		}
	}()
	onCall := func(c *call) {
		if c.cancel != nil {
			cmu.Lock()
			cancellable = append(cancellable, c)
			cmu.Unlock()
		}
	}
	// environment: pushes, releases, gate
	eseed := rng.Int63()
	envDone := make(chan struct{})
	go func() {
		defer close(envDone)
		erng := rand.New(rand.NewSource(eseed))
		npub := 0
		for {
			select {
			case <-stop:
				return
			case <-time.After(time.Duration(30+erng.Intn(400)) * time.Microsecond):
			}
			switch erng.Intn(8) {
			case 0, 1:
				npub++
				r.srv.Do("PUBLISH", "sh1", fmt.Sprintf("p%d", npub))
				r.feat("push")
			case 2:
				if cs := r.pushable(); len(cs) > 0 {
					cs[erng.Intn(len(cs))].Inject(fakeredis.Push(fakeredis.Bulk("server-cpu-usage"), fakeredis.Int(int64(npub))))
					r.feat("push")
				}
			case 3:
				if cs := r.pushable(); len(cs) > 0 {
					cs[erng.Intn(len(cs))].Inject(fakeredis.Push(fakeredis.Bulk("invalidate"), fakeredis.BulkArray(fmt.Sprintf("zz%d", npub))))
					r.feat("push")
				}
			case 4, 5:
				if useHold {
					for _, c := range r.conns() {
						if h := c.Held(); h > 0 {
							r.release(c, 1+erng.Intn(h))
						}
					}
				}
			case 6:
				if useGate {
					r.gate.set(true)
					r.feat("gate")
					time.Sleep(time.Duration(50+erng.Intn(300)) * time.Microsecond)
					r.gate.set(false)
				}
			}
		}
	}()
	kinds := []string{"do", "do", "multi", "multi", "cache", "cachemulti", "mget", "static", "block", "sub"}
	if cfg.RESP2 {
		kinds = []string{"do", "do", "multi", "multi", "cache", "cachemulti", "block", "sub"}
	}
	for g := 0; g < ngo; g++ {
		wg.Add(1)
		gseed := rng.Int63()
		go func() {
			defer wg.Done()
			grng := rand.New(rand.NewSource(gseed))
			for i := 0; i < ncall; i++ {
				kind := kinds[grng.Intn(len(kinds))]
				ctx, cancel := r.ctxFor(grng, pCancel)
				shape := func() string { return shapes[grng.Intn(len(shapes))] }
				switch kind {
				case "do":
					r.callTagged(r.client, 0, ctx, cancel, []string{shape()}, false, onCall)
				case "block":
					if useHold { // a blocking-tagged call uses a pooled connection whose replies nobody releases
						r.callTagged(r.client, 0, ctx, cancel, []string{shape()}, false, onCall)
					} else {
						r.callTagged(r.client, 0, ctx, cancel, []string{shape()}, true, onCall)
						r.feat("block")
					}
				case "multi":
					n := 2 + grng.Intn(3)
					sh := make([]string, n)
					for j := range sh {
						sh[j] = shape()
					}
					r.callTagged(r.client, 0, ctx, cancel, sh, false, onCall)
					r.feat("multi")
				case "cache":
					r.callCache(ctx, cancel, "cache", 1, grng.Intn(4) == 0, onCall)
					r.feat("cache")
				case "cachemulti":
					r.callCache(ctx, cancel, "cache", 2+grng.Intn(2), false, onCall)
					r.feat("cache")
				case "mget":
					r.callCache(ctx, cancel, "mget", 2, false, onCall)
					r.feat("cache")
				case "static":
					r.callCache(ctx, cancel, "static", 1+grng.Intn(2), false, onCall)
					r.feat("cache")
				case "sub":
					// a short Receive: it is ended by the canceller or, if nobody does, by its own timer
					if cancel == nil {
						ctx, cancel = context.WithCancel(context.Background())
					}
					var t *time.Timer
					d := time.Duration(200+grng.Intn(800)) * time.Microsecond
					r.callReceive(r.client, 0, ctx, cancel, "SUBSCRIBE", []string{"sh1"}, func(c *call) {
						t = time.AfterFunc(d, func() { r.cancelCall(c) })
						onCall(c)
					})
					t.Stop()
					r.feat("sub")
				}
				if cancel != nil {
					cancel() // after the call returned: no event
				}
			}
		}()
	}
	callersDone := make(chan struct{})
	go func() { wg.Wait(); close(callersDone) }()
	// while the callers run under hold, the environment goroutine releases; give them time, then release everything
	select {
	case <-callersDone:
	case <-time.After(time.Duration(5+rng.Intn(20)) * time.Millisecond):
	}
	close(stop)
	<-envDone
	// nothing is held back any more: every caller must now run to its end
	r.gate.set(false)
	for _, c := range r.conns() {
		r.holdOff(c)
	}
	select {
	case <-callersDone:
	case <-time.After(hangWait):
		r.feat("hang")
	}
	ev := r.finish(hangWait)
	rep.account(r)
	return ev
}

// ---------------------------------------------------------------------------------------------- mode scenario: TLC scripts

type step struct {
	Op   string `json:"op"`
	P    int    `json:"p"`
	Kind string `json:"kind"`
}
type scenario struct {
	Script []step `json:"script"`
}

// runScenario executes one script generated by TLC from PipeScenario.tla (Gen*.cfg) against the real client: one
// connection whose replies are held; "release" hands the next frame to the client, "push" inserts a push frame at
// that point of the reply stream, "cancel" ends the context of the caller's current call, "cut" resets the connection.
func runScenario(cfg Cfg, sc scenario, idx int, seed int64, rep *reportT) []map[string]any {
	invalOn := false
	hold := false
	for _, s := range sc.Script {
		if s.Op == "push" && (s.Kind == "invalidate" || s.Kind == "flush") {
			invalOn = true
		}
		if s.Op == "release" {
			hold = true
		}
	}
	if cfg.RESP2 {
		invalOn = false
	}
	if len(sc.Script) > 0 && sc.Script[0].Op == "opt" && sc.Script[0].Kind == "nocache" {
		cfg.NoCache = true // the model's run without the client-side cache
	}
	r, err := newRun(cfg, "scenario", seed, invalOn, rep.Report)
	if err != nil {
		rep.Inconcl("NewClient failed: %v (cfg %s)", err, cfg.Name)
		return nil
	}
	conn := r.conns()[0]
	pubsubConn := func() *fakeredis.Conn { // RESP2: subscriptions live on a second connection
		for _, c := range r.conns() {
			if ch, _, _ := c.Subscriptions(); len(ch) > 0 {
				return c
			}
		}
		return conn
	}
	if hold {
		r.holdOn(conn)
	}
	cur := map[int]*call{}
	var mu sync.Mutex
	var wg sync.WaitGroup
	npush := 0
	// the model inserts a Pub/Sub push only while the server has the channel subscribed: wait for that (the machine may
	// be loaded; without the wait the push would precede the SUBSCRIBE and the run would be another scenario)
	subscribed := func(ch string) bool {
		return waitUntil(3*time.Second, func() bool {
			for _, c := range r.conns() {
				chs, _, _ := c.Subscriptions()
				for _, x := range chs {
					if x == ch {
						return true
					}
				}
			}
			return false
		})
	}
	ownChan := func(p int) string {
		mu.Lock()
		defer mu.Unlock()
		if c := cur[p]; c != nil {
			return fmt.Sprintf("u:%d.1", c.id)
		}
		return ""
	}
	for _, s := range sc.Script {
		switch s.Op {
		case "opt":
		case "call":
			mu.Lock()
			prev := cur[s.P]
			mu.Unlock()
			if prev != nil {
				select {
				case <-prev.done:
				case <-time.After(2 * time.Second):
					r.feat("diverged")
				}
			}
			started := make(chan struct{})
			wg.Add(1)
			p, kind := s.P, s.Kind
			go func() {
				defer wg.Done()
				ctx, cancel := context.WithCancel(context.Background())
				defer cancel()
				on := func(c *call) { mu.Lock(); cur[p] = c; mu.Unlock(); close(started) }
				switch kind {
				case "do":
					r.callTagged(r.client, 0, ctx, cancel, []string{"str"}, false, on)
				case "multi":
					r.callTagged(r.client, 0, ctx, cancel, []string{"str", "arr"}, false, on)
				case "cache":
					r.callCache(ctx, cancel, "cache", 1, false, on)
				case "sub":
					r.callReceive(r.client, 0, ctx, cancel, "SUBSCRIBE", []string{"sh"}, on)
				case "subown":
					r.callReceive(r.client, 0, ctx, cancel, "SUBSCRIBE", nil, on)
				}
			}()
			<-started
		case "cancel":
			mu.Lock()
			c := cur[s.P]
			mu.Unlock()
			if c != nil {
				r.cancelCall(c)
			}
		case "release":
			r.release(conn, 1)
		case "push":
			npush++
			switch s.Kind {
			case "invalidate":
				conn.Inject(fakeredis.Push(fakeredis.Bulk("invalidate"), fakeredis.BulkArray(fmt.Sprintf("k%d", npush))))
			case "flush":
				conn.Inject(fakeredis.Push(fakeredis.Bulk("invalidate"), fakeredis.Null()))
			case "message":
				if !subscribed("sh") {
					r.feat("diverged")
				}
				r.srv.Do("PUBLISH", "sh", fmt.Sprintf("m%d", npush))
			case "unsubscribe":
				if !subscribed("sh") {
					r.feat("diverged")
				}
				pubsubConn().Inject(fakeredis.Push(fakeredis.Bulk("unsubscribe"), fakeredis.Bulk("sh"), fakeredis.Int(0)))
			case "msgown": // a message on the own channel of caller p's current Receive
				if ch := ownChan(s.P); ch != "" && subscribed(ch) {
					r.srv.Do("PUBLISH", ch, fmt.Sprintf("m%d", npush))
				} else {
					r.feat("diverged")
				}
			case "unsubown": // the server ends the subscription of that channel on its own
				if ch := ownChan(s.P); ch != "" && subscribed(ch) {
					pubsubConn().Inject(fakeredis.Push(fakeredis.Bulk("unsubscribe"), fakeredis.Bulk(ch), fakeredis.Int(0)))
				} else {
					r.feat("diverged")
				}
			}
		case "cut":
			conn.Cut()
		}
		r.settle(600*time.Microsecond, 30*time.Millisecond)
	}
	// the model quiesces only when every Receive was cancelled or ended by an unsubscribe push
	ev := r.finishScenario(invalOn)
	r.await(&wg)
	r.feat(fmt.Sprintf("scenario-%d", idx))
	rep.account(r)
	return ev
}

func (r *run) finishScenario(invalOn bool) []map[string]any {
	if invalOn {
		r.waitInval()
	}
	return r.finish(hangWait)
}

// waitInval waits until the invalidation callback has been invoked for every invalidation push of every open
// connection and once more (nil) per lost connection - it counts records by payload, it does not judge them.
func (r *run) waitInval() {
	waitUntil(8*time.Second, func() bool {
		need := map[string]int{}
		have := map[string]int{}
		r.srv.Lock()
		defer r.srv.Unlock()
		for _, e := range r.tr.Events() {
			switch e["ev"] {
			case "SCut", "SClose":
				need["nil"]++
			case "SPush":
				if e["kind"] == "invalidate" {
					if c := r.srv.Conn(e["conn"].(int)); c != nil && !c.Closed() {
						need[e["vals"].([]string)[0]]++
					}
				}
			case "InvalCb":
				have[e["vals"].([]string)[0]]++
			}
		}
		for v, n := range need {
			if have[v] < n {
				return false
			}
		}
		return true
	})
}

// ---------------------------------------------------------------------------------------------- mode c33: recycling under cancellation

// runRecycle: the client's writes are stopped, calls are queued unwritten and abandoned, their callers immediately
// build and issue new commands (a wrongly recycled CommandSlice is then reused and overwritten), the writes resume.
// The server must receive, for every id, exactly the argv that was built.
func runRecycle(cfg Cfg, seed int64, rep *reportT) []map[string]any {
	rng := rand.New(rand.NewSource(seed))
	r, err := newRun(cfg, "c33", seed, false, rep.Report)
	if err != nil {
		rep.Inconcl("NewClient failed: %v (cfg %s)", err, cfg.Name)
		return nil
	}
	// two concurrent calls make the connection pipelined (writer and reader goroutines running)
	var wg sync.WaitGroup
	for i := 0; i < 2; i++ {
		wg.Add(1)
		go func() {
			defer wg.Done()
			ctx, cancel := context.WithCancel(context.Background())
			defer cancel()
			r.callTagged(r.client, 0, ctx, cancel, []string{"str"}, false, nil)
		}()
	}
	r.await(&wg)
	r.gate.set(true)
	r.feat("gate")
	ngo := 2 + rng.Intn(3)
	for g := 0; g < ngo; g++ {
		wg.Add(1)
		gseed := rng.Int63()
		go func() {
			defer wg.Done()
			grng := rand.New(rand.NewSource(gseed))
			for i := 0; i < 3+grng.Intn(3); i++ {
				ctx, cancel := context.WithCancel(context.Background())
				var me *call
				got := make(chan struct{})
				go func() {
					<-got
					time.Sleep(time.Duration(20+grng.Intn(200)) * time.Microsecond)
					r.cancelCall(me)
				}()
				on := func(c *call) { me = c; close(got) }
				switch grng.Intn(3) {
				case 0:
					r.callTagged(r.client, 0, ctx, cancel, []string{"str"}, false, on)
				case 1:
					r.callTagged(r.client, 0, ctx, cancel, []string{"int", "arr", "str"}, false, on)
				case 2:
					if cfg.RESP2 {
						r.callTagged(r.client, 0, ctx, cancel, []string{"map"}, false, on)
					} else {
						r.callCache(ctx, cancel, "cache", 1, false, on)
					}
				}
				r.feat("cancel")
				cancel()
			}
		}()
	}
	// every caller abandons its calls and builds the following commands (with a ring of two slots a caller may be
	// stuck waiting for a slot until the writes resume: do not wait for those)
	cdone := make(chan struct{})
	go func() { wg.Wait(); close(cdone) }()
	select {
	case <-cdone:
	case <-time.After(40 * time.Millisecond):
	}
	r.gate.set(false)
	select {
	case <-cdone:
	case <-time.After(hangWait):
		r.feat("hang")
	}
	// a few more calls behind the abandoned ones: their replies must still be their own
	wg.Add(1)
	go func() {
		defer wg.Done()
		for i := 0; i < 2; i++ {
			r.callTagged(r.client, 0, r.ctx, nil, []string{"str", "int"}, false, nil)
		}
	}()
	r.await(&wg)
	ev := r.finish(hangWait)
	rep.account(r)
	return ev
}

// ---------------------------------------------------------------------------------------------- mode pubsub

// runPubSub: receivers with overlapping channel / pattern / shard subscriptions, a publisher with unique payloads,
// interleaved regular commands, endings by context, by client UNSUBSCRIBE, by an unsubscribe push the server sends
// on its own, by a cut of the connection.
func runPubSub(cfg Cfg, seed int64, rep *reportT) []map[string]any {
	rng := rand.New(rand.NewSource(seed))
	r, err := newRun(cfg, "pubsub", seed, false, rep.Report)
	if err != nil {
		rep.Inconcl("NewClient failed: %v (cfg %s)", err, cfg.Name)
		return nil
	}
	type rcv struct {
		c    *call
		cmd  string
		subs []string
	}
	var mu sync.Mutex
	var rcvs []*rcv
	var wg sync.WaitGroup
	nrecv := 2 + rng.Intn(3)
	ending := rng.Intn(5) // 0 cancel all, 1 client unsubscribe, 2 server unsubscribe push, 3 cut, 4 mixed
	startReceiver := func() {
		cmd := "SUBSCRIBE"
		var shared []string
		switch rng.Intn(6) {
		case 0:
			cmd, shared = "PSUBSCRIBE", []string{"sh*"}
		case 1:
			if !cfg.RESP2 {
				cmd, shared = "SSUBSCRIBE", []string{"ss1"}
			} else {
				shared = []string{"sh1"}
			}
		case 2:
			shared = nil // unique channel only
		case 3:
			shared = []string{"sh1", "sh2"}
		default:
			shared = []string{"sh1"}
		}
		me := &rcv{cmd: cmd, subs: shared}
		wg.Add(1)
		started := make(chan struct{})
		go func() {
			defer wg.Done()
			ctx, cancel := context.WithCancel(context.Background())
			defer cancel()
			r.callReceive(r.client, 0, ctx, cancel, cmd, shared, func(c *call) {
				me.c = c
				mu.Lock()
				rcvs = append(rcvs, me)
				mu.Unlock()
				close(started)
			})
		}()
		<-started
		if rng.Intn(2) == 0 {
			time.Sleep(time.Duration(rng.Intn(300)) * time.Microsecond)
		}
	}
	for i := 0; i < nrecv; i++ {
		startReceiver()
	}
	// regular traffic on the same client meanwhile
	stop := make(chan struct{})
	var twg sync.WaitGroup
	twg.Add(1)
	tseed := rng.Int63()
	go func() {
		defer twg.Done()
		trng := rand.New(rand.NewSource(tseed))
		for n := 0; n < 10; n++ { // a handful of regular calls is enough; the trace stays short
			select {
			case <-stop:
				return
			default:
			}
			if trng.Intn(2) == 0 {
				r.callTagged(r.client, 0, r.ctx, nil, []string{shapes[trng.Intn(len(shapes))]}, false, nil)
			} else {
				r.callTagged(r.client, 0, r.ctx, nil, []string{"str", "arr"}, false, nil)
			}
			time.Sleep(time.Duration(trng.Intn(200)) * time.Microsecond)
		}
	}()
	publish := func(n int) {
		for i := 0; i < n; i++ {
			switch rng.Intn(4) {
			case 0:
				r.srv.Do("PUBLISH", "sh2", fmt.Sprintf("b%d.%d", seed%1000, rng.Int31()))
			case 1:
				if !cfg.RESP2 {
					r.srv.Do("SPUBLISH", "ss1", fmt.Sprintf("s%d.%d", seed%1000, rng.Int31()))
				}
			default:
				r.srv.Do("PUBLISH", "sh1", fmt.Sprintf("a%d.%d", seed%1000, rng.Int31()))
			}
			if rng.Intn(3) == 0 {
				time.Sleep(time.Duration(rng.Intn(150)) * time.Microsecond)
			}
		}
		r.feat("publish")
	}
	publish(3 + rng.Intn(20)) // more than the 16 slot buffer of a subscription now and then
	r.settle(500*time.Microsecond, 20*time.Millisecond)
	subConn := func() *fakeredis.Conn {
		for _, c := range r.conns() {
			if a, b, s := c.Subscriptions(); len(a)+len(b)+len(s) > 0 {
				return c
			}
		}
		return nil
	}
	endOne := func(x *rcv, how int) {
		switch how {
		case 1: // the client unsubscribes one of the names of x
			name := "u:" + fmt.Sprintf("%d.1", x.c.id)
			if len(x.subs) > 0 && rng.Intn(2) == 0 {
				name = x.subs[rng.Intn(len(x.subs))]
			} else if x.cmd == "PSUBSCRIBE" {
				name += ":*"
			}
			var cmd rueidis.Completed
			switch x.cmd {
			case "PSUBSCRIBE":
				cmd = r.client.B().Punsubscribe().Pattern(name).Build()
			case "SSUBSCRIBE":
				cmd = r.client.B().Sunsubscribe().Channel(name).Build()
			default:
				cmd = r.client.B().Unsubscribe().Channel(name).Build()
			}
			r.bounded(func() { r.callPlain(r.client, 0, r.ctx, cmd) })
			r.feat("unsub-client")
		case 2: // the server sends an unsubscribe push on its own (as for a slot migration)
			if c := subConn(); c != nil {
				kind := map[string]string{"SUBSCRIBE": "unsubscribe", "PSUBSCRIBE": "punsubscribe", "SSUBSCRIBE": "sunsubscribe"}[x.cmd]
				name := fmt.Sprintf("u:%d.1", x.c.id)
				if x.cmd == "PSUBSCRIBE" {
					name += ":*"
				}
				if len(x.subs) > 0 && rng.Intn(2) == 0 {
					name = x.subs[rng.Intn(len(x.subs))]
				}
				c.Inject(fakeredis.Push(fakeredis.Bulk(kind), fakeredis.Bulk(name), fakeredis.Int(0)))
				r.feat("unsub-server")
			} else {
				r.cancelCall(x.c)
			}
		default:
			r.cancelCall(x.c)
			r.feat("cancel")
		}
	}
	mu.Lock()
	list := append([]*rcv(nil), rcvs...)
	mu.Unlock()
	if ending == 3 {
		if c := subConn(); c != nil {
			c.Cut()
			r.feat("cut")
		}
		publish(2)
	} else {
		for i := 0; i < len(list); i++ {
			x := list[i]
			how := ending
			if ending == 4 {
				how = rng.Intn(3)
			}
			endOne(x, how)
			if i == 0 || rng.Intn(2) == 0 {
				publish(1 + rng.Intn(4)) // the others keep receiving
			}
			if i == 0 && len(list) >= 2 && len(list) < 6 && rng.Intn(3) > 0 {
				// a Receive that starts after another one has ended while further ones are alive: it must get a
				// subscription of its own (its own end, its own messages), whatever was freed by the one that left
				waitDone(x.c, 2*time.Second) // (one that does not return is dealt with at the end of the run)
				r.settle(300*time.Microsecond, 10*time.Millisecond)
				for k := 0; k < 1+rng.Intn(2); k++ {
					startReceiver()
				}
				mu.Lock()
				list = append([]*rcv(nil), rcvs...)
				mu.Unlock()
				r.feat("late-subscribe")
				publish(1 + rng.Intn(3))
			}
		}
	}
	// whatever is still listening (a subscription the chosen ending did not reach) is cancelled
	r.settle(500*time.Microsecond, 30*time.Millisecond)
	for _, x := range list {
		select {
		case <-x.c.done:
		default:
			// a Receive whose subscription was ended by an unsubscribe push returns by itself: give it ample time
			if !waitDone(x.c, 3*time.Second) {
				r.cancelLate(x.c)
				r.feat("late-cancel")
			}
		}
	}
	close(stop)
	r.await(&twg)
	ev := r.finish(hangWait)
	r.await(&wg)
	rep.account(r)
	return ev
}

func waitDone(c *call, d time.Duration) bool {
	select {
	case <-c.done:
		return true
	case <-time.After(d):
		return false
	}
}

// ---------------------------------------------------------------------------------------------- mode inval

// runInval: the client is created with OnInvalidations; cached reads make the server track keys, writes by another
// client (Server.Do) produce invalidation pushes (single key, several in a row, FLUSHALL = nil), regular commands
// are interleaved; some runs end with a cut of a connection (exactly one more nil).
func runInval(cfg Cfg, seed int64, rep *reportT) []map[string]any {
	rng := rand.New(rand.NewSource(seed))
	// every third run: no client-side cache (DisableCache).  The connection then has no tracking of its own; the driver
	// turns on broadcast tracking by hand, as a user of OnInvalidations without the cache does.
	nocache := curRun%3 == 2
	if nocache {
		cfg.NoCache = true
	}
	r, err := newRun(cfg, "inval", seed, true, rep.Report)
	if err != nil {
		rep.Inconcl("NewClient failed: %v (cfg %s)", err, cfg.Name)
		return nil
	}
	if nocache {
		r.feat("nocache")
		r.bounded(func() {
			r.callPlain(r.client, 0, r.ctx, r.client.B().Arbitrary("CLIENT", "TRACKING", "ON", "BCAST").Build())
		})
	}
	var wg sync.WaitGroup
	ngo := 2 + rng.Intn(2)
	for g := 0; g < ngo; g++ {
		wg.Add(1)
		gseed := rng.Int63()
		go func() {
			defer wg.Done()
			grng := rand.New(rand.NewSource(gseed))
			for i := 0; i < 3+grng.Intn(4); i++ {
				switch grng.Intn(5) {
				case 0:
					r.callTagged(r.client, 0, r.ctx, nil, []string{"str", "map"}, false, nil)
				case 1:
					r.callCache(r.ctx, nil, "cache", 2, false, nil)
				default:
					r.callCache(r.ctx, nil, "cache", 1, false, nil)
				}
				// another client writes keys that were just cached: invalidation pushes
				if grng.Intn(3) > 0 {
					r.invalidateSome(grng)
				}
				if grng.Intn(12) == 0 {
					r.srv.Do("FLUSHALL")
					r.feat("flush")
				}
			}
		}()
	}
	r.await(&wg)
	if (rng.Intn(3) == 0 || (nocache && rng.Intn(2) == 0)) && !r.hung() {
		if cs := r.conns(); len(cs) > 0 {
			cs[rng.Intn(len(cs))].Cut()
			r.feat("cut")
			// calls after the loss use a new connection
			r.bounded(func() { r.callCache(r.ctx, nil, "cache", 1, false, nil) })
			r.invalidateSome(rng)
		}
	}
	r.waitInval()
	ev := r.finish(hangWait)
	rep.account(r)
	return ev
}

// invalidateSome overwrites some of the keys the server currently tracks.
func (r *run) invalidateSome(rng *rand.Rand) {
	if r.cfg.NoCache {
		// broadcast tracking: every write is announced to the connections that turned it on
		for i := 0; i < 1+rng.Intn(2); i++ {
			r.srv.Do("SET", fmt.Sprintf("nk:%d", rng.Intn(6)), "changed")
		}
		r.feat("invalidate")
		return
	}
	var keys []string
	for _, c := range r.conns() {
		keys = append(keys, c.TrackedKeys()...)
	}
	if len(keys) == 0 {
		return
	}
	for i := 0; i < 1+rng.Intn(2); i++ {
		r.srv.Do("SET", keys[rng.Intn(len(keys))], "changed")
	}
	r.feat("invalidate")
}

// ---------------------------------------------------------------------------------------------- mode dedicated

// runDedicated: successive dedicated sessions on a pool of one connection. A session installs PubSubHooks and / or
// SetOnInvalidations, subscribes, reads a key with CLIENT CACHING YES, receives messages and invalidations through
// the hooks, and is released (or its connection is cut). The next session must find a connection with tracking off
// and no subscriptions; every channel handed out by the hook setters is closed exactly once.
func runDedicated(cfg Cfg, seed int64, rep *reportT) []map[string]any {
	rng := rand.New(rand.NewSource(seed))
	invalOn := rng.Intn(2) == 0
	// every third run without the client-side cache: a session that wants invalidations turns on broadcast tracking
	nocache := curRun%3 == 1
	if nocache {
		cfg.NoCache = true
	}
	r, err := newRun(cfg, "dedicated", seed, invalOn, rep.Report)
	if err != nil {
		rep.Inconcl("NewClient failed: %v (cfg %s)", err, cfg.Name)
		return nil
	}
	var watchers sync.WaitGroup
	nsess := 2 + rng.Intn(2)
	var body sync.WaitGroup
	body.Add(1)
	go func() {
		defer body.Done()
		for s := 1; s <= nsess && !r.hung(); s++ {
			sess := s
			dc, release := r.client.Dedicate()
			var nmsg, ninv, nlossnil int64
			var cmu sync.Mutex
			watch := func(ch <-chan error) {
				watchers.Add(1)
				go func() {
					defer watchers.Done()
					n := 0
					timeout := time.After(20 * time.Second)
					for {
						select {
						case _, ok := <-ch:
							if !ok {
								r.log(E{Ev: "HookClosed", Sess: sess, N: n})
								return
							}
							n++
						case <-timeout:
							return // never closed: HookClosedOnce sees the missing record at Quiesce
						}
					}
				}()
			}
			hooks := rng.Intn(3) // 0 hooks only, 1 invalidations only, 2 both
			if hooks != 1 {
				ch := dc.SetPubSubHooks(rueidis.PubSubHooks{OnMessage: func(m rueidis.PubSubMessage) {
					r.log(E{Ev: "HookMsg", Sess: sess, Vals: []string{msgVal(m)}})
					cmu.Lock()
					nmsg++
					cmu.Unlock()
				}})
				r.log(E{Ev: "HookSet", Sess: sess, Flag: false})
				watch(ch)
			}
			if hooks != 0 {
				ch := dc.SetOnInvalidations(func(keys []rueidis.RedisMessage) {
					r.log(E{Ev: "HookInval", Sess: sess, Vals: []string{keysVal(keys)}})
					cmu.Lock()
					ninv++
					if keys == nil {
						nlossnil++
					}
					cmu.Unlock()
				})
				r.log(E{Ev: "HookSet", Sess: sess, Flag: true})
				watch(ch)
				r.feat("setoninval")
			}
			// the session's first command tells the specification which connection it owns
			r.callTagged(dc, sess, r.ctx, nil, []string{"str"}, false, nil)
			if nocache && hooks != 0 {
				r.feat("nocache")
				r.callPlain(dc, sess, r.ctx, dc.B().Arbitrary("CLIENT", "TRACKING", "ON", "BCAST").Build())
			}
			wantMsg, wantInv := int64(0), int64(0)
			if hooks != 1 {
				// subscribe through Do: the id is carried by the first channel
				rs := r.reserve()
				id := r.cmdID(rs.n, 1)
				sub := dc.B().Subscribe().Channel("u:"+id, "dsh").Build()
				argv := canonArgv(sub.Commands())
				c := r.beginReserved(rs, "do", sess, nil, []string{id}, [][]string{argv})
				v := canonR(dc.Do(r.ctx, sub))
				r.end(c, []string{v})
				for i := 0; i < 1+rng.Intn(4); i++ {
					r.srv.Do("PUBLISH", "dsh", fmt.Sprintf("d%d.%d", sess, i))
					wantMsg++
				}
				r.feat("hookmsg")
			}
			// a tracked read, then a write by another client
			{
				rs := r.reserve()
				id := r.cmdID(rs.n, 2)
				key := "k:" + id
				r.srv.Do("SET", key, "v:"+id)
				c1 := dc.B().Arbitrary("CLIENT", "CACHING", "YES").Build()
				c2 := dc.B().Arbitrary("GET").Keys(key).Build()
				argvs := [][]string{canonArgv(c1.Commands()), canonArgv(c2.Commands())}
				c := r.beginReserved(rs, "multi", sess, nil, []string{"", id}, argvs)
				res := dc.DoMulti(r.ctx, c1, c2)
				r.end(c, []string{canonR(res[0]), canonR(res[1])})
				tracked := nocache && hooks != 0 // broadcast mode announces every write
				for _, sc := range r.conns() {
					for _, k := range sc.TrackedKeys() {
						if k == key {
							tracked = true
						}
					}
				}
				if tracked {
					r.srv.Do("SET", key, "changed")
					if hooks != 0 {
						wantInv++
					}
					r.feat("invalidate")
				}
			}
			waitUntil(5*time.Second, func() bool { cmu.Lock(); defer cmu.Unlock(); return nmsg >= wantMsg && ninv >= wantInv })
			if s == nsess && (rng.Intn(3) == 0 || (nocache && rng.Intn(2) == 0)) {
				// the last session loses its connection instead of being released
				didCut := false
				for _, sc := range r.conns() {
					if a, _, _ := sc.Subscriptions(); len(a) > 0 || len(sc.TrackedKeys()) > 0 || hooks != 0 {
						sc.Cut()
						r.feat("cut")
						didCut = true
						break
					}
				}
				if didCut && hooks != 0 {
					// the invalidation hook is owed one nil for the lost connection; release() takes the hooks away, so
					// give the client ample time to deliver it first (no verdict here: LossNilOnce judges the log)
					waitUntil(5*time.Second, func() bool { cmu.Lock(); defer cmu.Unlock(); return nlossnil >= 1 })
				} else {
					time.Sleep(2 * time.Millisecond)
				}
				release()
			} else {
				release()
				r.log(E{Ev: "DedReleased", Sess: sess})
			}
		}
	}()
	r.awaitFor(&body, 4*hangWait)
	done := make(chan struct{})
	go func() { watchers.Wait(); close(done) }()
	select {
	case <-done:
	case <-time.After(6 * time.Second):
		r.feat("hook-channel-open")
	}
	if invalOn {
		r.waitInval()
	}
	ev := r.finish(hangWait)
	rep.account(r)
	return ev
}
