// omdrv binds spec/addons/Om.tla (C40) to the real om package: real NewHashRepository / NewJSONRepository on a real
// rueidis client over fakeredis, which executes the real save scripts (om/hash.go, om/json.go) with luamini.
//
//	-mode replay     TLC-generated behaviours of concurrent savers (obtain a copy by NewEntity or Fetch, edit, Save),
//	                 every step carrying the outcome and the stored document Om.tla predicts; savers act in TLC's
//	                 order; after every Save the stored document is read back with Fetch and FetchCache
//	-mode types      the cells of OmTypes.tla (repository, place, field type, boundary class -> "equal"), see types.go
//	-mode roundtrip  generated field values of every type conv.go / encoding/json support: Save, Fetch, FetchCache
//	                 must return an entity equal to the saved one, over several versions of the same entity
package main

import (
	"bufio"
	"context"
	"encoding/json"
	"errors"
	"flag"
	"fmt"
	"math"
	"math/rand"
	"os"
	"reflect"
	"sort"
	"strings"
	"time"

	"github.com/redis/rueidis"
	"github.com/redis/rueidis/om"
	"verifharness/fakeredis"
	"verifharness/vh"
)

var (
	mode = flag.String("mode", "replay", "replay | roundtrip | types")
	inF  = flag.String("in", "", "replay: ndjson of behaviours")
	runs = flag.Int("runs", 300, "roundtrip: number of generated entities per repository")
)

const addr = "127.0.0.1:6379"

// ---------------------------------------------------------------------------------------------- entities

type Nested struct {
	A string
	B int64
	C []string
	D *Nested
}

// HashEnt: every field type conv.go has a converter for.
type HashEnt struct {
	Key string `redis:",key"`
	Ver int64  `redis:",ver"`
	// group f1: always stored
	Str   string
	Int   int64
	Bool  bool
	Bytes []byte
	Vec32 []float32
	Vec64 []float64
	Nst   Nested          // struct: stored as JSON text
	NstS  []Nested        // slice of struct: JSON text
	Raw   json.RawMessage // []uint8
	// group f2: pointers, nil = no value
	PStr  *string
	PInt  *int64
	PBool *bool
	PNst  *Nested
	T     time.Time  // struct: stored as JSON text (RFC 3339 with nanoseconds and zone offset)
	PT    *time.Time // pointer to struct: JSON text, nil = null
	Exp   time.Time  `redis:",exat"`
}

// JSONEnt: stored with encoding/json as one RedisJSON document.
type JSONEnt struct {
	Key   string `redis:",key"`
	Ver   int64  `redis:",ver"`
	Str   string
	Int   int64
	Bool  bool
	Bytes []byte
	Strs  []string
	Vec32 []float32
	Vec64 []float64
	F64   float64
	Nst   Nested
	NstS  []Nested
	Map   map[string]int64
	PStr  *string
	PInt  *int64
	PBool *bool
	PNst  *Nested
	PF64  *float64
	U64   uint64
	T     time.Time
	PT    *time.Time
	Exp   time.Time `redis:",exat"`
}

// f1 / f2 are the concrete values standing for one abstract value id of Om.tla
type f1vals struct {
	Str   string
	Int   int64
	Bool  bool
	Bytes []byte
	Strs  []string
	Vec32 []float32
	Vec64 []float64
	F64   float64
	Nst   Nested
	NstS  []Nested
	Raw   json.RawMessage
	Map   map[string]int64
	U64   uint64
	T     time.Time
}
type f2vals struct {
	Str  string
	Int  int64
	Bool bool
	Nst  Nested // the f3 group of Om.tla: pointer to struct
	F64  float64
	T    time.Time // f3 group as well (*time.Time)
}

// strPool: valid UTF-8 (control characters included); binPool adds byte strings that are not valid UTF-8, used only where
// the value is stored as it is (hash string / *string / []byte fields, []byte in JSON = base64): encoding/json replaces
// invalid bytes inside JSON strings, so such values are not "supported" there.
var strPool = []string{"", " ", "plain", "with space", "ünï©ode ✓", "quote\"back\\slash", "new\nline\ttab", "\x00\x01 ctl", "{\"json\":1}", "t", "f", "0", "-1", strings.Repeat("long", 300)}
var binPool = append([]string{"\x00\x01\xff\xfe binary", "\xc3\x28", "\r\n$5\r\n"}, strPool...)
var intPool = []int64{0, 1, -1, 42, math.MaxInt64, math.MinInt64, 1 << 53, -(1 << 53) - 1, 1700000000000}
var f64Pool = []float64{0, 1, -1, 0.5, -0.25, 1024, 1e10, 3.0 / 1024, -7.625}
var u64Pool = []uint64{0, 1, math.MaxUint64, 1 << 63, 1<<53 + 1}

// timePool: instants with nanoseconds, microseconds, non-UTC zone offsets, before the epoch, the zero time
var timePool = []time.Time{
	{},
	time.Date(2023, 11, 14, 22, 13, 20, 123456789, time.UTC),
	time.Date(2023, 11, 14, 22, 13, 20, 1500000, time.FixedZone("", 5*3600+1800)),
	time.Date(1969, 12, 31, 23, 59, 59, 999999999, time.FixedZone("", -8*3600)),
	time.Date(2038, 1, 19, 3, 14, 8, 1, time.UTC),
	time.Date(9999, 12, 31, 23, 59, 59, 999999000, time.FixedZone("", 14*3600)),
	time.Date(2000, 2, 29, 12, 0, 0, 0, time.FixedZone("", -3*3600-1800)),
	time.UnixMilli(1700000000123).UTC(),
}
var f32Pool = []float32{0, 1, -1, 0.5, -0.25, 1024, 65536, 3.0 / 1024}

func pick[T any](r *rand.Rand, p []T) T { return p[r.Intn(len(p))] }

func genNested(r *rand.Rand, depth int) Nested {
	n := Nested{A: pick(r, strPool), B: pick(r, intPool)}
	for i := r.Intn(3); i > 0; i-- {
		n.C = append(n.C, pick(r, strPool))
	}
	if depth > 0 && r.Intn(2) == 0 {
		d := genNested(r, depth-1)
		n.D = &d
	}
	return n
}

func genF1(r *rand.Rand, raw bool) f1vals {
	sp := strPool
	if raw {
		sp = binPool
	}
	v := f1vals{Str: pick(r, sp), Int: pick(r, intPool), Bool: r.Intn(2) == 0, F64: pick(r, f64Pool), Nst: genNested(r, 1), U64: pick(r, u64Pool), T: pick(r, timePool)}
	switch r.Intn(4) {
	case 0: // nil
	case 1:
		v.Bytes = []byte{}
	default:
		v.Bytes = []byte(pick(r, binPool))
	}
	for i := r.Intn(4); i > 0; i-- {
		v.Strs = append(v.Strs, pick(r, strPool))
	}
	for i := r.Intn(5); i > 0; i-- {
		v.Vec32 = append(v.Vec32, pick(r, f32Pool))
	}
	for i := r.Intn(5); i > 0; i-- {
		v.Vec64 = append(v.Vec64, pick(r, f64Pool))
	}
	for i := r.Intn(3); i > 0; i-- {
		v.NstS = append(v.NstS, genNested(r, 0))
	}
	v.Raw = json.RawMessage(pick(r, []string{`[1]`, `{"a":[1,2,{"b":null}]}`, `"s"`, `null`, `12.5`}))
	if r.Intn(3) > 0 {
		v.Map = map[string]int64{}
		for i := r.Intn(3); i > 0; i-- {
			v.Map[pick(r, strPool)] = pick(r, intPool)
		}
	}
	return v
}

func genF2(r *rand.Rand, raw bool) f2vals {
	sp := strPool
	if raw {
		sp = binPool
	}
	return f2vals{Str: pick(r, sp), Int: pick(r, intPool), Bool: r.Intn(2) == 0, Nst: genNested(r, 1), F64: pick(r, f64Pool), T: pick(r, timePool)}
}

func (e *HashEnt) setF1(v f1vals) {
	e.Str, e.Int, e.Bool, e.Bytes, e.Vec32, e.Vec64, e.Nst, e.NstS, e.Raw = v.Str, v.Int, v.Bool, v.Bytes, v.Vec32, v.Vec64, v.Nst, v.NstS, v.Raw
	e.T = v.T
}
func (e *HashEnt) setF2(v *f2vals) {
	if v == nil {
		e.PStr, e.PInt, e.PBool = nil, nil, nil
		return
	}
	c := *v
	e.PStr, e.PInt, e.PBool = &c.Str, &c.Int, &c.Bool
}
func (e *HashEnt) setF3(v *f2vals) {
	if v == nil {
		e.PNst, e.PT = nil, nil
		return
	}
	c := *v
	e.PNst, e.PT = &c.Nst, &c.T
}
func (e *HashEnt) setExp(t time.Time) { e.Exp = t }
func (e *JSONEnt) setExp(t time.Time) { e.Exp = t }
func (e *JSONEnt) setF1(v f1vals) {
	e.Str, e.Int, e.Bool, e.Bytes, e.Strs, e.Vec32, e.Vec64, e.F64, e.Nst, e.NstS, e.Map = v.Str, v.Int, v.Bool, v.Bytes, v.Strs, v.Vec32, v.Vec64, v.F64, v.Nst, v.NstS, v.Map
	e.U64, e.T = v.U64, v.T
}
func (e *JSONEnt) setF2(v *f2vals) {
	if v == nil {
		e.PStr, e.PInt, e.PBool, e.PF64 = nil, nil, nil, nil
		return
	}
	c := *v
	e.PStr, e.PInt, e.PBool, e.PF64 = &c.Str, &c.Int, &c.Bool, &c.F64
}
func (e *JSONEnt) setF3(v *f2vals) {
	if v == nil {
		e.PNst, e.PT = nil, nil
		return
	}
	c := *v
	e.PNst, e.PT = &c.Nst, &c.T
}

// diff lists the fields in which two entities differ; nil and empty slices/maps are the same value,
// time.Time is compared as an instant plus zone offset (what RFC 3339 carries), floats bit by bit.
func diff(a, b any) []string {
	va, vb := reflect.ValueOf(a), reflect.ValueOf(b)
	if va.Kind() == reflect.Ptr {
		va, vb = va.Elem(), vb.Elem()
	}
	var out []string
	for i := 0; i < va.NumField(); i++ {
		if !same(va.Field(i), vb.Field(i)) {
			out = append(out, fmt.Sprintf("%s(%s)", va.Type().Field(i).Name, va.Type().Field(i).Type))
		}
	}
	return out
}

func same(a, b reflect.Value) bool {
	if t, ok := a.Interface().(time.Time); ok {
		u := b.Interface().(time.Time)
		_, o1 := t.Zone()
		_, o2 := u.Zone()
		return t.Equal(u) && o1 == o2
	}
	if a.Kind() == reflect.Float64 || a.Kind() == reflect.Float32 {
		return math.Float64bits(a.Float()) == math.Float64bits(b.Float()) // -0 is not 0, NaN payloads count
	}
	if r, ok := a.Interface().(json.RawMessage); ok {
		var x, y any
		if json.Unmarshal(r, &x) == nil && json.Unmarshal(b.Interface().(json.RawMessage), &y) == nil {
			return reflect.DeepEqual(x, y)
		}
	}
	switch a.Kind() {
	case reflect.Slice, reflect.Map:
		if a.Len() == 0 && b.Len() == 0 {
			return true
		}
		if a.Len() != b.Len() {
			return false
		}
		if a.Kind() == reflect.Map {
			return reflect.DeepEqual(a.Interface(), b.Interface())
		}
		for i := 0; i < a.Len(); i++ {
			if !same(a.Index(i), b.Index(i)) {
				return false
			}
		}
		return true
	case reflect.Ptr:
		if a.IsNil() || b.IsNil() {
			return a.IsNil() == b.IsNil()
		}
		return same(a.Elem(), b.Elem())
	case reflect.Struct:
		for i := 0; i < a.NumField(); i++ {
			if !same(a.Field(i), b.Field(i)) {
				return false
			}
		}
		return true
	}
	return reflect.DeepEqual(a.Interface(), b.Interface())
}

// violate keeps the first occurrence of every signature and counts the rest.
var sigCount = map[string]int{}

func violate(rep *vh.Report, sig, what string, replay any) {
	sigCount[sig]++
	if sigCount[sig] == 1 {
		rep.Violate(sig, what, replay)
	}
}

// ---------------------------------------------------------------------------------------------- environment

type env struct {
	srv    *fakeredis.Server
	client rueidis.Client
	clock  *fakeredis.VirtualClock
}

// the server's clock is virtual: expiry happens when the driver says so (Tick), never by itself
var clockStart = time.Date(2031, 3, 4, 5, 6, 7, 0, time.UTC)

func newEnv() *env {
	vc := fakeredis.NewVirtualClock(clockStart)
	srv := fakeredis.NewServer("n1", fakeredis.Options{Clock: vc})
	nw := fakeredis.NewNetwork()
	nw.Add(addr, srv)
	c, err := rueidis.NewClient(rueidis.ClientOption{InitAddress: []string{addr}, DialCtxFn: nw.DialCtxFn(), ForceSingleClient: true, DisableRetry: true})
	if err != nil {
		panic(err)
	}
	return &env{srv: srv, client: c, clock: vc}
}

// repo is the part of om.Repository the driver uses, for either entity type.
type repo[T any] struct {
	r    om.Repository[T]
	kind string
}

func cctx() (context.Context, context.CancelFunc) {
	return context.WithTimeout(context.Background(), 10*time.Second)
}

// fetchBoth reads the stored entity with Fetch and FetchCache. FetchCache may lag behind by one invalidation
// message: it is polled for up to 2 s before a difference counts.
func fetchBoth[T any](r om.Repository[T], key string) (f *T, ferr error, c *T, cerr error) {
	ctx, cancel := cctx()
	defer cancel()
	f, ferr = r.Fetch(ctx, key)
	deadline := time.Now().Add(2 * time.Second)
	for {
		c, cerr = r.FetchCache(ctx, key, time.Minute)
		if (ferr != nil) == (cerr != nil) && (ferr != nil || len(diff(f, c)) == 0) {
			return
		}
		if time.Now().After(deadline) {
			return
		}
		time.Sleep(2 * time.Millisecond)
	}
}

// ---------------------------------------------------------------------------------------------- replay

// pdoc is a stored document as Om.tla describes it: value ids, expiry in clock ticks (-1 = none / zero time)
type pdoc struct {
	Ver  int64  `json:"ver"` // -1: no document
	F1   string `json:"f1"`
	F2   string `json:"f2"`
	F3   string `json:"f3"`
	Fexp int64  `json:"fexp"` // stored value of the exat field
	TTL  int64  `json:"ttl"`  // expiry of the key
}

// pentry is the predicted outcome of one entity of a Save / SaveMulti
type pentry struct {
	S    string `json:"s"`
	Key  string `json:"key"`
	OK   bool   `json:"ok"`
	Base int64  `json:"base"`
	Nf2  bool   `json:"nf2"`  // successful hash Save of a nil f2 over a stored non-nil f2 of the same key (HSET keeps the old fields)
	Live bool   `json:"live"` // saved and not removed at once by an expiry that is not in the future
}

type pstep struct {
	Op    string          `json:"op"` // Init | New | Fetch | Save | SaveMulti | Tick
	S     string          `json:"s"`
	Key   string          `json:"key"`
	F1    string          `json:"f1"`  // value id written by New/Fetch
	F2    string          `json:"f2"`  // value id or "nil"
	Exp   int64           `json:"exp"` // exat written by New/Fetch, clock ticks, -1 = zero time
	Batch []pentry        `json:"batch"`
	Seen  map[string]int  `json:"seen"` // key -> 1-based index of the batch entry a Fetch observes afterwards (0: none)
	Now   int64           `json:"now"`
	Docs  map[string]pdoc `json:"docs"` // stored documents after the step
}

type behaviour struct {
	ID    string  `json:"id"`
	Repo  string  `json:"repo"`
	Init  *pstep  `json:"init"`
	Steps []pstep `json:"steps"`
	Src   string  `json:"src"`
}

type valueTable struct {
	f1 map[string]f1vals
	f2 map[string]f2vals
}

func newValueTable(rng *rand.Rand, raw bool) *valueTable {
	vt := &valueTable{f1: map[string]f1vals{}, f2: map[string]f2vals{}}
	for _, id := range []string{"base", "s1", "s2", "s3", "s4"} {
		vt.f1[id] = genF1(rng, raw)
		vt.f2[id] = genF2(rng, raw)
		// value ids must be told apart when read back
		v1 := vt.f1[id]
		v1.Int = int64(len(vt.f1))*1000 + v1.Int%1000
		vt.f1[id] = v1
		v2 := vt.f2[id]
		v2.Int = int64(len(vt.f2))*1000 + v2.Int%1000
		vt.f2[id] = v2
	}
	return vt
}

type entity interface {
	setF1(f1vals)
	setF2(*f2vals)
	setF3(*f2vals)
	setExp(time.Time)
}

func setKey(e any, key string) { reflect.ValueOf(e).Elem().FieldByName("Key").SetString(key) }
func getVer(e any) int64       { return reflect.ValueOf(e).Elem().FieldByName("Ver").Int() }
func getExp(e any) time.Time {
	return reflect.ValueOf(e).Elem().FieldByName("Exp").Interface().(time.Time)
}

const tickDur = 10 * time.Minute

type replayer[T any] struct {
	rep    *vh.Report
	env    *env
	r      om.Repository[T]
	kind   string
	prefix string
	vt     *valueTable
	seq    int
	div    map[string]int
	t1     time.Time // the instant of clock tick 1 in the current behaviour
}

// tickTime is the concrete time standing for a clock tick of Om.tla: whole ticks from the start of the behaviour, plus
// a sub-millisecond part and a zone offset (both must survive the round trip; PEXPIREAT sees the millisecond)
func (rp *replayer[T]) tickTime(tick int64) time.Time {
	if tick < 0 {
		return time.Time{}
	}
	return rp.t1.Add(time.Duration(tick-1)*tickDur + 123456*time.Nanosecond).In(time.FixedZone("", 5*3600+1800))
}

func (rp *replayer[T]) diverge(sig, what string) {
	rp.div[sig]++
	if rp.div[sig] == 1 {
		rp.rep.Inconcl("divergence %s: %s", sig, what)
	}
}

func expName(tick, now int64) string {
	switch {
	case tick < 0:
		return "zero"
	case tick < now:
		return "past"
	case tick == now:
		return "now"
	}
	return "future"
}

func describe(b *behaviour, upto int) string {
	var sb strings.Builder
	fmt.Fprintf(&sb, "%s repository", b.Repo)
	if b.Init != nil {
		var ks []string
		for k := range b.Init.Docs {
			ks = append(ks, k)
		}
		sort.Strings(ks)
		for _, k := range ks {
			if d := b.Init.Docs[k]; d.Ver >= 0 {
				fmt.Fprintf(&sb, ", stored %s ver=%d f1=%s f2=%s", k, d.Ver, d.F1, d.F2)
			} else {
				fmt.Fprintf(&sb, ", no %s", k)
			}
		}
		sb.WriteString(";")
	}
	now := int64(1)
	for i := 0; i <= upto && i < len(b.Steps); i++ {
		s := b.Steps[i]
		switch s.Op {
		case "Save":
			fmt.Fprintf(&sb, " %s.Save(%s base %d)", s.S, s.Key, s.Batch[0].Base)
		case "SaveMulti":
			sb.WriteString(" SaveMulti(")
			for j, e := range s.Batch {
				if j > 0 {
					sb.WriteString(", ")
				}
				fmt.Fprintf(&sb, "%s:%s base %d", e.S, e.Key, e.Base)
			}
			sb.WriteString(")")
		case "Tick":
			sb.WriteString(" Tick")
		default:
			fmt.Fprintf(&sb, " %s.%s(%s,f1=%s,f2=%s,exat=%s)", s.S, s.Op, s.Key, s.F1, s.F2, expName(s.Exp, now))
		}
		now = s.Now
	}
	return sb.String()
}

// expected builds the entity Om.tla predicts to be stored.
func (rp *replayer[T]) expected(key string, d pdoc) *T {
	var v T
	p := any(&v).(entity)
	setKey(&v, key)
	reflect.ValueOf(&v).Elem().FieldByName("Ver").SetInt(d.Ver)
	p.setF1(rp.vt.f1[d.F1])
	if d.F2 == "nil" {
		p.setF2(nil)
	} else {
		x := rp.vt.f2[d.F2]
		p.setF2(&x)
	}
	if d.F3 == "nil" {
		p.setF3(nil)
	} else {
		x := rp.vt.f2[d.F3]
		p.setF3(&x)
	}
	p.setExp(rp.tickTime(d.Fexp))
	return &v
}

func (rp *replayer[T]) pexpiretime(ctx context.Context, ckey string) (int64, error) {
	return rp.env.client.Do(ctx, rp.env.client.B().Pexpiretime().Key(rp.prefix+":"+ckey).Build()).AsInt64()
}

func (rp *replayer[T]) run(b *behaviour) {
	rp.seq++
	ckey := func(k string) string { return fmt.Sprintf("e%d%s", rp.seq, k) }
	ents := map[string]*T{}
	entExp := map[string]int64{} // saver -> the clock tick its entity's exat stands for (wording of reports only)
	ctx, cancel := cctx()
	defer cancel()
	rp.t1 = rp.env.clock.Now()
	write := func(f1, f2 string, exp int64, e *T) {
		p := any(e).(entity)
		p.setF1(rp.vt.f1[f1])
		if f2 == "nil" {
			p.setF2(nil)
			p.setF3(nil)
		} else {
			x := rp.vt.f2[f2]
			p.setF2(&x)
			p.setF3(&x)
		}
		p.setExp(rp.tickTime(exp))
	}
	if b.Init == nil {
		rp.diverge("om-"+rp.kind+":bad-behaviour", "no initial snapshot")
		return
	}
	var keys []string
	for k := range b.Init.Docs {
		keys = append(keys, k)
	}
	sort.Strings(keys)
	for _, k := range keys {
		d := b.Init.Docs[k]
		if d.Ver < 0 {
			continue
		}
		// the stored document the behaviour starts from: saved Ver times through the real repository
		e := rp.r.NewEntity()
		setKey(e, ckey(k))
		write(d.F1, d.F2, d.Fexp, e) // f3 = f2 in every initial document
		for i := int64(0); i < d.Ver; i++ {
			if err := rp.r.Save(ctx, e); err != nil {
				rp.diverge("om-"+rp.kind+":setup-save-failed", fmt.Sprintf("%s: %v", describe(b, -1), err))
				return
			}
		}
		// the initial document is itself a successful Save with the zero time as exat
		if _, err := rp.r.Fetch(ctx, ckey(k)); err != nil {
			if om.IsRecordNotFound(err) {
				violate(rp.rep, "om-"+rp.kind+":fetch-fails-after-save:Save:exat-zero",
					fmt.Sprintf("%s: the initial document of key %s was saved %d time(s) successfully with the zero time as exat, yet Fetch says %v", describe(b, -1), k, d.Ver, err), b)
			} else {
				rp.diverge("om-"+rp.kind+":setup-fetch-failed", fmt.Sprintf("%s: %v", describe(b, -1), err))
			}
			return
		}
	}
	cur := b.Init.Docs
	now := int64(1)
	for i, s := range b.Steps {
		where := func() string { return describe(b, i) }
		var saved []*T // copies of the entities as they were handed to Save/SaveMulti, version advanced where the save succeeded
		var errs []error
		switch s.Op {
		case "New":
			e := rp.r.NewEntity()
			setKey(e, ckey(s.Key))
			write(s.F1, s.F2, s.Exp, e)
			ents[s.S], entExp[s.S] = e, s.Exp
			continue
		case "Fetch":
			e, err := rp.r.Fetch(ctx, ckey(s.Key))
			if err != nil {
				rp.diverge("om-"+rp.kind+":fetch-failed", fmt.Sprintf("%s: %v", where(), err))
				return
			}
			write(s.F1, s.F2, s.Exp, e)
			ents[s.S], entExp[s.S] = e, s.Exp
			continue
		case "Tick":
			rp.env.clock.Advance(tickDur)
			rp.env.srv.ExpireNow()
		case "Save", "SaveMulti":
			var batch []*T
			for _, pe := range s.Batch {
				e := ents[pe.S]
				if getVer(e) != pe.Base {
					rp.diverge("om-"+rp.kind+":base-version-differs", fmt.Sprintf("%s: entity version of %s is %d, specification %d", where(), pe.S, getVer(e), pe.Base))
					return
				}
				c := *e
				saved = append(saved, &c)
				batch = append(batch, e)
			}
			if s.Op == "Save" {
				errs = []error{rp.r.Save(ctx, batch[0])}
			} else {
				errs = rp.r.SaveMulti(ctx, batch...)
				if len(errs) != len(batch) {
					violate(rp.rep, "om-"+rp.kind+":savemulti-result-count", fmt.Sprintf("%s: %d results for %d entities", where(), len(errs), len(batch)), b)
					return
				}
			}
			for j, pe := range s.Batch {
				who := fmt.Sprintf("entity %d of the batch (%s, key %s, base %d)", j+1, pe.S, pe.Key, pe.Base)
				switch err := errs[j]; {
				case err == nil:
					if !pe.OK {
						violate(rp.rep, "om-"+rp.kind+":save-succeeds-from-stale-version",
							fmt.Sprintf("%s: %s: this Save succeeded although the stored version was %d, not its base; the specification predicts ErrVersionMismatch", where(), who, cur[pe.Key].Ver), b)
						return
					}
					if getVer(batch[j]) != pe.Base+1 {
						violate(rp.rep, "om-"+rp.kind+":entity-version-not-plus-one",
							fmt.Sprintf("%s: %s: Save succeeded and left the entity at version %d", where(), who, getVer(batch[j])), b)
						return
					}
					reflect.ValueOf(saved[j]).Elem().FieldByName("Ver").SetInt(pe.Base + 1)
				case errors.Is(err, om.ErrVersionMismatch):
					if pe.OK {
						rp.diverge("om-"+rp.kind+":spurious-version-mismatch", fmt.Sprintf("%s: %s: ErrVersionMismatch although the specification predicts success", where(), who))
						return
					}
					if getVer(batch[j]) != pe.Base {
						violate(rp.rep, "om-"+rp.kind+":failed-save-changes-entity", fmt.Sprintf("%s: %s: ErrVersionMismatch, entity version now %d", where(), who, getVer(batch[j])), b)
						return
					}
				default:
					rp.diverge("om-"+rp.kind+":save-error", fmt.Sprintf("%s: %s: %v", where(), who, err))
					return
				}
			}
		}
		// read every stored document back and compare with the saved entity and with the specification's document
		for _, k := range keys {
			want := s.Docs[k]
			f, ferr, c, cerr := fetchBoth(rp.r, ckey(k))
			var pe *pentry
			var sv *T
			if n := s.Seen[k]; n > 0 {
				pe, sv = &s.Batch[n-1], saved[n-1]
			}
			how := s.Op
			exat := ""
			if pe != nil {
				exat = expName(entExp[pe.S], now)
			}
			if ferr != nil && !om.IsRecordNotFound(ferr) || cerr != nil && !om.IsRecordNotFound(cerr) {
				rp.diverge("om-"+rp.kind+":fetch-error", fmt.Sprintf("%s: Fetch %v FetchCache %v", where(), ferr, cerr))
				return
			}
			if (ferr == nil) != (cerr == nil) {
				violate(rp.rep, "om-"+rp.kind+":fetchcache-differs-from-fetch:existence",
					fmt.Sprintf("%s: 2 s after the step Fetch(%s) says %v and FetchCache says %v", where(), k, ferr, cerr), b)
				return
			}
			switch {
			case want.Ver < 0 && ferr == nil:
				switch {
				case pe != nil:
					violate(rp.rep, "om-"+rp.kind+":save-with-passed-expiry-stays:"+how+":exat-"+exat,
						fmt.Sprintf("%s: key %s was saved with an expiry that is not in the future; the specification predicts that the key is gone, Fetch returns %s", where(), k, dump(f)), b)
				case s.Op == "Tick":
					violate(rp.rep, "om-"+rp.kind+":document-outlives-expiry",
						fmt.Sprintf("%s: the expiry of key %s has passed, Fetch still returns %s", where(), k, dump(f)), b)
				default:
					rp.diverge("om-"+rp.kind+":unexpected-document", fmt.Sprintf("%s: key %s exists, the specification has none", where(), k))
				}
				return
			case want.Ver < 0:
				continue
			case ferr != nil:
				switch {
				case pe != nil:
					violate(rp.rep, "om-"+rp.kind+":fetch-fails-after-save:"+how+":exat-"+exat,
						fmt.Sprintf("%s: the save of key %s succeeded and its expiry has not passed, yet Fetch says %v (FetchCache %v)", where(), k, ferr, cerr), b)
				case s.Op == "Tick":
					violate(rp.rep, "om-"+rp.kind+":document-expires-early",
						fmt.Sprintf("%s: key %s is gone although its expiry (tick %d) has not been reached (now %d)", where(), k, want.TTL, s.Now), b)
				default:
					violate(rp.rep, "om-"+rp.kind+":failed-save-removes-document",
						fmt.Sprintf("%s: no save of key %s succeeded in this step, yet the document is gone", where(), k), b)
				}
				return
			}
			if d := diff(f, c); len(d) > 0 {
				violate(rp.rep, "om-"+rp.kind+":fetchcache-differs-from-fetch:"+strings.Join(d, ","),
					fmt.Sprintf("%s: 2 s after the step FetchCache(%s) still differs from Fetch in %v", where(), k, d), b)
				return
			}
			if pe != nil {
				if getVer(f) != pe.Base+1 {
					violate(rp.rep, "om-"+rp.kind+":stored-version-not-plus-one",
						fmt.Sprintf("%s: key %s saved from version %d, stored version is %d", where(), k, pe.Base, getVer(f)), b)
					return
				}
				if d := diff(sv, f); len(d) > 0 {
					switch {
					case pe.Nf2 && onlyPointers(d):
						// Om.tla models this (HSET never removes a field): report it and go on with the behaviour
						violate(rp.rep, "om-"+rp.kind+":nil-pointer-save-keeps-old-value:"+strings.Join(d, ","),
							fmt.Sprintf("%s: Save succeeded with nil pointer fields over stored values of the same key %s; Fetch afterwards still returns the old values of %v", where(), k, d), b)
					case s.Op == "SaveMulti":
						violate(rp.rep, "om-"+rp.kind+":savemulti-differs-from-save:"+strings.Join(d, ","),
							fmt.Sprintf("%s: entity %d of the batch was saved to key %s; Fetch afterwards differs from it in %v (the specification: a batch is the sequence of its single saves); saved %s fetched %s",
								where(), s.Seen[k], k, d, dump(sv), dump(f)), b)
						return
					default:
						violate(rp.rep, "om-"+rp.kind+":fetch-differs-from-saved:"+strings.Join(d, ","),
							fmt.Sprintf("%s: Save succeeded; Fetch(%s) afterwards differs from the saved entity in %v", where(), k, d), b)
						return
					}
				}
			}
			if d := diff(rp.expected(ckey(k), want), f); len(d) > 0 {
				if pe == nil {
					violate(rp.rep, "om-"+rp.kind+":document-changes-without-successful-save:"+strings.Join(d, ","),
						fmt.Sprintf("%s: no save of key %s succeeded in this step, yet the stored document changed in %v", where(), k, d), b)
				} else {
					rp.diverge("om-"+rp.kind+":stored-document-mismatch", fmt.Sprintf("%s: stored document %s differs from the specification's in %v", where(), k, d))
				}
				return
			}
			// the key's expiry
			at, err := rp.pexpiretime(ctx, ckey(k))
			if err != nil {
				rp.diverge("om-"+rp.kind+":pexpiretime-error", fmt.Sprintf("%s: %v", where(), err))
				return
			}
			wantAt := int64(-1)
			if want.TTL >= 0 {
				wantAt = rp.tickTime(want.TTL).UnixMilli()
			}
			if at != wantAt {
				if pe != nil && !getExp(sv).IsZero() {
					violate(rp.rep, "om-"+rp.kind+":expiry-not-applied:"+how,
						fmt.Sprintf("%s: key %s saved with exat %s; PEXPIRETIME says %d, the specification %d", where(), k, getExp(sv).Format(time.RFC3339Nano), at, wantAt), b)
				} else {
					violate(rp.rep, "om-"+rp.kind+":expiry-changes-without-exat:"+how,
						fmt.Sprintf("%s: PEXPIRETIME of key %s is %d, the specification predicts %d (a save with the zero time keeps the expiry the key had)", where(), k, at, wantAt), b)
				}
				return
			}
		}
		cur = s.Docs
		now = s.Now
	}
	rp.rep.Traces++
}

func shape(b *behaviour) string {
	var sb strings.Builder
	for _, s := range b.Steps {
		sb.WriteString(s.Op[:1])
		if s.Op == "SaveMulti" {
			sb.WriteString("M")
		}
		for _, e := range s.Batch {
			switch {
			case e.OK && e.Live:
				sb.WriteString("+")
			case e.OK:
				sb.WriteString("x")
			default:
				sb.WriteString("-")
			}
		}
	}
	return sb.String()
}

func replayAll[T any](rep *vh.Report, e *env, kind, prefix string, r om.Repository[T], bs []*behaviour, shapes map[string]bool) {
	rp := &replayer[T]{rep: rep, env: e, r: r, kind: kind, prefix: prefix, vt: newValueTable(vh.Rng(40), kind == "hash"), div: map[string]int{}}
	for i, b := range bs {
		nv := len(rep.Violations)
		rp.run(b)
		rep.Evaluations++
		if len(rep.Violations) == nv {
			shapes[kind+":"+shape(b)] = true
			if i%2999 == 0 {
				rep.Sample(map[string]any{"behaviour": describe(b, len(b.Steps)), "src": b.Src, "last": b.Steps[len(b.Steps)-1]})
			}
		}
		if len(rep.Violations) > 12 {
			break
		}
	}
	for sig, c := range rp.div {
		if c > 1 {
			rep.Inconcl("divergence %s: %d behaviours in total", sig, c)
		}
	}
}

func replay(rep *vh.Report) {
	fh, err := os.Open(*inF)
	if err != nil {
		panic(err)
	}
	defer fh.Close()
	sc := bufio.NewScanner(fh)
	sc.Buffer(make([]byte, 1<<20), 1<<28)
	var hash, jsn []*behaviour
	for sc.Scan() {
		var b behaviour
		if err := json.Unmarshal(sc.Bytes(), &b); err != nil {
			rep.Inconcl("bad behaviour line: %v", err)
			return
		}
		if b.Repo == "hash" {
			hash = append(hash, &b)
		} else {
			jsn = append(jsn, &b)
		}
	}
	e := newEnv()
	defer e.client.Close()
	shapes := map[string]bool{}
	replayAll(rep, e, "hash", "h", om.NewHashRepository("h", HashEnt{}, e.client), hash, shapes)
	replayAll(rep, e, "json", "j", om.NewJSONRepository("j", JSONEnt{}, e.client), jsn, shapes)
	rep.DistinctNontrivial = len(shapes)
	rep.Rule = "replay: distinct (repository, sequence of New/Fetch/Save/SaveMulti/Tick steps with the outcome of every saved entity: + stored, x stored and removed at once by a passed expiry, - ErrVersionMismatch) among the behaviours replayed to completion"
}

// ---------------------------------------------------------------------------------------------- roundtrip

func roundtripOne[T any](rep *vh.Report, kind string, r om.Repository[T], rng *rand.Rand, n int, types map[string]bool) {
	ctx, cancel := cctx()
	defer cancel()
	e := r.NewEntity()
	p := any(e).(entity)
	var trail []string
	for round := 0; round < 4; round++ {
		f1 := genF1(rng, kind == "hash")
		p.setF1(f1)
		var f2 *f2vals
		if rng.Intn(3) > 0 || round == 0 {
			x := genF2(rng, kind == "hash")
			f2 = &x
		}
		p.setF2(f2)
		p.setF3(f2)
		exp := reflect.ValueOf(e).Elem().FieldByName("Exp")
		if rng.Intn(3) == 0 {
			exp.Set(reflect.ValueOf(time.UnixMilli(clockStart.Add(time.Hour).UnixMilli() + rng.Int63n(1000)).UTC()))
		} else {
			exp.Set(reflect.ValueOf(time.Time{}))
		}
		trail = append(trail, fmt.Sprintf("Save#%d(pointers %v)", round+1, map[bool]string{true: "set", false: "nil"}[f2 != nil]))
		before := getVer(e)
		if err := r.Save(ctx, e); err != nil {
			rep.Inconcl("roundtrip %s: Save failed: %v", kind, err)
			return
		}
		if getVer(e) != before+1 {
			violate(rep, "om-"+kind+":entity-version-not-plus-one", fmt.Sprintf("%s: version %d -> %d", strings.Join(trail, " "), before, getVer(e)), nil)
			return
		}
		key := reflect.ValueOf(e).Elem().FieldByName("Key").String()
		f, ferr, c, cerr := fetchBoth(r, key)
		if ferr != nil || cerr != nil {
			sig := "om-" + kind + ":fetch-fails-after-save"
			violate(rep, sig, fmt.Sprintf("%s: Fetch %v FetchCache %v; saved %s", strings.Join(trail, " "), ferr, cerr, dump(e)), nil)
			return
		}
		if d := diff(e, f); len(d) > 0 {
			sig := "om-" + kind + ":fetch-differs-from-saved:" + strings.Join(d, ",")
			if kind == "hash" && f2 == nil && round > 0 && onlyPointers(d) {
				sig = "om-" + kind + ":nil-pointer-save-keeps-old-value:" + strings.Join(d, ",")
			}
			violate(rep, sig, fmt.Sprintf("%s: Fetch differs from the saved entity in %v; saved %s fetched %s", strings.Join(trail, " "), d, dump(e), dump(f)), nil)
			return
		}
		if d := diff(f, c); len(d) > 0 {
			violate(rep, "om-"+kind+":fetchcache-differs-from-fetch:"+strings.Join(d, ","),
				fmt.Sprintf("%s: FetchCache differs from Fetch in %v", strings.Join(trail, " "), d), nil)
			return
		}
		if !exp.Interface().(time.Time).IsZero() {
			// the expiry tag became the key's expiry
		}
		rep.Evaluations++
	}
	t := reflect.TypeOf(*e)
	for i := 0; i < t.NumField(); i++ {
		types[kind+":"+t.Field(i).Type.String()] = true
	}
	if n%97 == 0 {
		rep.Sample(map[string]any{"repository": kind, "entity": dump(e)})
	}
	rep.Traces++
}

func onlyPointers(d []string) bool {
	for _, f := range d {
		if !strings.Contains(f, "(*") {
			return false
		}
	}
	return true
}

func dump(v any) string {
	b, _ := json.Marshal(v)
	if len(b) > 700 {
		b = append(b[:700], "..."...)
	}
	return string(b)
}

func roundtrip(rep *vh.Report) {
	e := newEnv()
	defer e.client.Close()
	rng := vh.Rng(41)
	types := map[string]bool{}
	hr := om.NewHashRepository("rh", HashEnt{}, e.client)
	jr := om.NewJSONRepository("rj", JSONEnt{}, e.client)
	for i := 0; i < *runs; i++ {
		roundtripOne(rep, "hash", hr, rng, i, types)
		roundtripOne(rep, "json", jr, rng, i, types)
		if len(rep.Violations) > 8 {
			break
		}
	}
	var ts []string
	for t := range types {
		ts = append(ts, t)
	}
	sort.Strings(ts)
	rep.DistinctNontrivial = len(ts)
	rep.Rule = "roundtrip: distinct (repository, field type) pairs written and read back"
	rep.Extra["field_types"] = ts
}

func main() {
	flag.Parse()
	rep := &vh.Report{Extra: map[string]any{}}
	switch *mode {
	case "replay":
		replay(rep)
	case "roundtrip":
		roundtrip(rep)
	case "types":
		typesMode(rep)
	default:
		panic("mode")
	}
	rep.Extra["occurrences_by_signature"] = sigCount
	rep.Assumptions = append(rep.Assumptions,
		"fakeredis + luamini execute the real save scripts; JSON.SET/JSON.GET/JSON.NUMINCRBY are emulated on encoding/json",
		"entities equal = field by field, nil and empty slices/maps identified, time.Time compared as instants; float fields only hold exactly representable values")
	rep.Write(*vh.Out)
}
