// omdrv binds spec/addons/Om.tla (C40) to the real om package: real NewHashRepository / NewJSONRepository on a real
// rueidis client over fakeredis, which executes the real save scripts (om/hash.go, om/json.go) with luamini.
//
//	-mode replay     TLC-generated behaviours of concurrent savers (obtain a copy by NewEntity or Fetch, edit, Save),
//	                 every step carrying the outcome and the stored document Om.tla predicts; savers act in TLC's
//	                 order; after every Save the stored document is read back with Fetch and FetchCache
//	-mode roundtrip  generated field values of every type conv.go / encoding/json support: Save, Fetch, FetchCache
//	                 must return an entity equal to the saved one, over several versions of the same entity
package main

import (
	"bufio"
	"context"
	"encoding/json"
	"errors"
	"flag"
	"fmt"
	"math"
	"math/rand"
	"os"
	"reflect"
	"sort"
	"strings"
	"time"

	"github.com/redis/rueidis"
	"github.com/redis/rueidis/om"
	"verifharness/fakeredis"
	"verifharness/vh"
)

var (
	mode = flag.String("mode", "replay", "replay | roundtrip")
	inF  = flag.String("in", "", "replay: ndjson of behaviours")
	runs = flag.Int("runs", 300, "roundtrip: number of generated entities per repository")
)

const addr = "127.0.0.1:6379"

// ---------------------------------------------------------------------------------------------- entities

type Nested struct {
	A string
	B int64
	C []string
	D *Nested
}

// HashEnt: every field type conv.go has a converter for.
type HashEnt struct {
	Key string `redis:",key"`
	Ver int64  `redis:",ver"`
	// group f1: always stored
	Str   string
	Int   int64
	Bool  bool
	Bytes []byte
	Vec32 []float32
	Vec64 []float64
	Nst   Nested          // struct: stored as JSON text
	NstS  []Nested        // slice of struct: JSON text
	Raw   json.RawMessage // []uint8
	// group f2: pointers, nil = no value
	PStr  *string
	PInt  *int64
	PBool *bool
	PNst  *Nested
	Exp   time.Time `redis:",exat"`
}

// JSONEnt: stored with encoding/json as one RedisJSON document.
type JSONEnt struct {
	Key   string `redis:",key"`
	Ver   int64  `redis:",ver"`
	Str   string
	Int   int64
	Bool  bool
	Bytes []byte
	Strs  []string
	Vec32 []float32
	Vec64 []float64
	F64   float64
	Nst   Nested
	NstS  []Nested
	Map   map[string]int64
	PStr  *string
	PInt  *int64
	PBool *bool
	PNst  *Nested
	PF64  *float64
	Exp   time.Time `redis:",exat"`
}

// f1 / f2 are the concrete values standing for one abstract value id of Om.tla
type f1vals struct {
	Str   string
	Int   int64
	Bool  bool
	Bytes []byte
	Strs  []string
	Vec32 []float32
	Vec64 []float64
	F64   float64
	Nst   Nested
	NstS  []Nested
	Raw   json.RawMessage
	Map   map[string]int64
}
type f2vals struct {
	Str  string
	Int  int64
	Bool bool
	Nst  Nested // the f3 group of Om.tla: pointer to struct
	F64  float64
}

// strPool: valid UTF-8 (control characters included); binPool adds byte strings that are not valid UTF-8, used only where
// the value is stored as it is (hash string / *string / []byte fields, []byte in JSON = base64): encoding/json replaces
// invalid bytes inside JSON strings, so such values are not "supported" there.
var strPool = []string{"", " ", "plain", "with space", "ünï©ode ✓", "quote\"back\\slash", "new\nline\ttab", "\x00\x01 ctl", "{\"json\":1}", "t", "f", "0", "-1", strings.Repeat("long", 300)}
var binPool = append([]string{"\x00\x01\xff\xfe binary", "\xc3\x28", "\r\n$5\r\n"}, strPool...)
var intPool = []int64{0, 1, -1, 42, math.MaxInt64, math.MinInt64, 1 << 53, -(1 << 53) - 1, 1700000000000}
var f64Pool = []float64{0, 1, -1, 0.5, -0.25, 1024, 1e10, 3.0 / 1024, -7.625}
var f32Pool = []float32{0, 1, -1, 0.5, -0.25, 1024, 65536, 3.0 / 1024}

func pick[T any](r *rand.Rand, p []T) T { return p[r.Intn(len(p))] }

func genNested(r *rand.Rand, depth int) Nested {
	n := Nested{A: pick(r, strPool), B: pick(r, intPool)}
	for i := r.Intn(3); i > 0; i-- {
		n.C = append(n.C, pick(r, strPool))
	}
	if depth > 0 && r.Intn(2) == 0 {
		d := genNested(r, depth-1)
		n.D = &d
	}
	return n
}

func genF1(r *rand.Rand, raw bool) f1vals {
	sp := strPool
	if raw {
		sp = binPool
	}
	v := f1vals{Str: pick(r, sp), Int: pick(r, intPool), Bool: r.Intn(2) == 0, F64: pick(r, f64Pool), Nst: genNested(r, 1)}
	switch r.Intn(4) {
	case 0: // nil
	case 1:
		v.Bytes = []byte{}
	default:
		v.Bytes = []byte(pick(r, binPool))
	}
	for i := r.Intn(4); i > 0; i-- {
		v.Strs = append(v.Strs, pick(r, strPool))
	}
	for i := r.Intn(5); i > 0; i-- {
		v.Vec32 = append(v.Vec32, pick(r, f32Pool))
	}
	for i := r.Intn(5); i > 0; i-- {
		v.Vec64 = append(v.Vec64, pick(r, f64Pool))
	}
	for i := r.Intn(3); i > 0; i-- {
		v.NstS = append(v.NstS, genNested(r, 0))
	}
	v.Raw = json.RawMessage(pick(r, []string{`[1]`, `{"a":[1,2,{"b":null}]}`, `"s"`, `null`, `12.5`}))
	if r.Intn(3) > 0 {
		v.Map = map[string]int64{}
		for i := r.Intn(3); i > 0; i-- {
			v.Map[pick(r, strPool)] = pick(r, intPool)
		}
	}
	return v
}

func genF2(r *rand.Rand, raw bool) f2vals {
	sp := strPool
	if raw {
		sp = binPool
	}
	return f2vals{Str: pick(r, sp), Int: pick(r, intPool), Bool: r.Intn(2) == 0, Nst: genNested(r, 1), F64: pick(r, f64Pool)}
}

func (e *HashEnt) setF1(v f1vals) {
	e.Str, e.Int, e.Bool, e.Bytes, e.Vec32, e.Vec64, e.Nst, e.NstS, e.Raw = v.Str, v.Int, v.Bool, v.Bytes, v.Vec32, v.Vec64, v.Nst, v.NstS, v.Raw
}
func (e *HashEnt) setF2(v *f2vals) {
	if v == nil {
		e.PStr, e.PInt, e.PBool = nil, nil, nil
		return
	}
	c := *v
	e.PStr, e.PInt, e.PBool = &c.Str, &c.Int, &c.Bool
}
func (e *HashEnt) setF3(v *f2vals) {
	if v == nil {
		e.PNst = nil
		return
	}
	c := *v
	e.PNst = &c.Nst
}
func (e *JSONEnt) setF1(v f1vals) {
	e.Str, e.Int, e.Bool, e.Bytes, e.Strs, e.Vec32, e.Vec64, e.F64, e.Nst, e.NstS, e.Map = v.Str, v.Int, v.Bool, v.Bytes, v.Strs, v.Vec32, v.Vec64, v.F64, v.Nst, v.NstS, v.Map
}
func (e *JSONEnt) setF2(v *f2vals) {
	if v == nil {
		e.PStr, e.PInt, e.PBool, e.PF64 = nil, nil, nil, nil
		return
	}
	c := *v
	e.PStr, e.PInt, e.PBool, e.PF64 = &c.Str, &c.Int, &c.Bool, &c.F64
}
func (e *JSONEnt) setF3(v *f2vals) {
	if v == nil {
		e.PNst = nil
		return
	}
	c := *v
	e.PNst = &c.Nst
}

// diff lists the fields in which two entities differ; nil and empty slices/maps are the same value,
// time.Time is compared as an instant.
func diff(a, b any) []string {
	va, vb := reflect.ValueOf(a), reflect.ValueOf(b)
	if va.Kind() == reflect.Ptr {
		va, vb = va.Elem(), vb.Elem()
	}
	var out []string
	for i := 0; i < va.NumField(); i++ {
		if !same(va.Field(i), vb.Field(i)) {
			out = append(out, fmt.Sprintf("%s(%s)", va.Type().Field(i).Name, va.Type().Field(i).Type))
		}
	}
	return out
}

func same(a, b reflect.Value) bool {
	if t, ok := a.Interface().(time.Time); ok {
		return t.Equal(b.Interface().(time.Time))
	}
	if r, ok := a.Interface().(json.RawMessage); ok {
		var x, y any
		if json.Unmarshal(r, &x) == nil && json.Unmarshal(b.Interface().(json.RawMessage), &y) == nil {
			return reflect.DeepEqual(x, y)
		}
	}
	switch a.Kind() {
	case reflect.Slice, reflect.Map:
		if a.Len() == 0 && b.Len() == 0 {
			return true
		}
		if a.Len() != b.Len() {
			return false
		}
		if a.Kind() == reflect.Map {
			return reflect.DeepEqual(a.Interface(), b.Interface())
		}
		for i := 0; i < a.Len(); i++ {
			if !same(a.Index(i), b.Index(i)) {
				return false
			}
		}
		return true
	case reflect.Ptr:
		if a.IsNil() || b.IsNil() {
			return a.IsNil() == b.IsNil()
		}
		return same(a.Elem(), b.Elem())
	case reflect.Struct:
		for i := 0; i < a.NumField(); i++ {
			if !same(a.Field(i), b.Field(i)) {
				return false
			}
		}
		return true
	}
	return reflect.DeepEqual(a.Interface(), b.Interface())
}

// violate keeps the first occurrence of every signature and counts the rest.
var sigCount = map[string]int{}

func violate(rep *vh.Report, sig, what string, replay any) {
	sigCount[sig]++
	if sigCount[sig] == 1 {
		rep.Violate(sig, what, replay)
	}
}

// ---------------------------------------------------------------------------------------------- environment

type env struct {
	srv    *fakeredis.Server
	client rueidis.Client
}

func newEnv() *env {
	srv := fakeredis.NewServer("n1", fakeredis.Options{})
	nw := fakeredis.NewNetwork()
	nw.Add(addr, srv)
	c, err := rueidis.NewClient(rueidis.ClientOption{InitAddress: []string{addr}, DialCtxFn: nw.DialCtxFn(), ForceSingleClient: true, DisableRetry: true})
	if err != nil {
		panic(err)
	}
	return &env{srv: srv, client: c}
}

// repo is the part of om.Repository the driver uses, for either entity type.
type repo[T any] struct {
	r    om.Repository[T]
	kind string
}

func cctx() (context.Context, context.CancelFunc) {
	return context.WithTimeout(context.Background(), 10*time.Second)
}

// fetchBoth reads the stored entity with Fetch and FetchCache. FetchCache may lag behind by one invalidation
// message: it is polled for up to 2 s before a difference counts.
func fetchBoth[T any](r om.Repository[T], key string) (f *T, ferr error, c *T, cerr error) {
	ctx, cancel := cctx()
	defer cancel()
	f, ferr = r.Fetch(ctx, key)
	deadline := time.Now().Add(2 * time.Second)
	for {
		c, cerr = r.FetchCache(ctx, key, time.Minute)
		if (ferr != nil) == (cerr != nil) && (ferr != nil || len(diff(f, c)) == 0) {
			return
		}
		if time.Now().After(deadline) {
			return
		}
		time.Sleep(2 * time.Millisecond)
	}
}

// ---------------------------------------------------------------------------------------------- replay

type pstep struct {
	Op   string `json:"op"` // New | Fetch | Edit | Save
	S    string `json:"s"`
	F1   string `json:"f1"` // value id written by New/Fetch/Edit
	F2   string `json:"f2"` // value id or "nil"
	OK   bool   `json:"ok"` // Save: predicted success
	Base int64  `json:"base"`
	Ver  int64  `json:"ver"`  // stored version after the step (-1: no document)
	DF1  string `json:"df1"`  // stored value ids after the step
	DF2  string `json:"df2"`
	DF3  string `json:"df3"` // pointer-to-struct fields (JSON text in the hash repository)
	Nf2  bool   `json:"nf2"` // the step is a successful hash Save of a nil f2 over a stored non-nil f2 (HSET keeps the old fields)
}

type behaviour struct {
	ID    string  `json:"id"`
	Repo  string  `json:"repo"`
	Init  *pstep  `json:"init"` // document existing before the behaviour starts (created through the real repository), or null
	Steps []pstep `json:"steps"`
	Src   string  `json:"src"`
}

type valueTable struct {
	f1 map[string]f1vals
	f2 map[string]f2vals
}

func newValueTable(rng *rand.Rand, raw bool) *valueTable {
	vt := &valueTable{f1: map[string]f1vals{}, f2: map[string]f2vals{}}
	for _, id := range []string{"base", "s1", "s2", "s3", "s4"} {
		vt.f1[id] = genF1(rng, raw)
		vt.f2[id] = genF2(rng, raw)
		// value ids must be told apart when read back
		v1 := vt.f1[id]
		v1.Int = int64(len(vt.f1))*1000 + v1.Int%1000
		vt.f1[id] = v1
		v2 := vt.f2[id]
		v2.Int = int64(len(vt.f2))*1000 + v2.Int%1000
		vt.f2[id] = v2
	}
	return vt
}

type entity interface {
	setF1(f1vals)
	setF2(*f2vals)
	setF3(*f2vals)
}

func setKey(e any, key string) { reflect.ValueOf(e).Elem().FieldByName("Key").SetString(key) }
func getVer(e any) int64       { return reflect.ValueOf(e).Elem().FieldByName("Ver").Int() }

type replayer[T any] struct {
	rep  *vh.Report
	r    om.Repository[T]
	kind string
	vt   *valueTable
	seq  int
	div  map[string]int
}

func (rp *replayer[T]) diverge(sig, what string) {
	rp.div[sig]++
	if rp.div[sig] == 1 {
		rp.rep.Inconcl("divergence %s: %s", sig, what)
	}
}

func describe(b *behaviour, upto int) string {
	var sb strings.Builder
	fmt.Fprintf(&sb, "%s repository", b.Repo)
	if b.Init != nil {
		fmt.Fprintf(&sb, ", stored document ver=%d f1=%s f2=%s;", b.Init.Ver, b.Init.DF1, b.Init.DF2)
	} else {
		sb.WriteString(", no stored document;")
	}
	for i := 0; i <= upto && i < len(b.Steps); i++ {
		s := b.Steps[i]
		switch s.Op {
		case "Save":
			fmt.Fprintf(&sb, " %s.Save(base %d)", s.S, s.Base)
		default:
			fmt.Fprintf(&sb, " %s.%s(f1=%s,f2=%s)", s.S, s.Op, s.F1, s.F2)
		}
	}
	return sb.String()
}

// expected builds the entity Om.tla predicts to be stored.
func (rp *replayer[T]) expected(key string, ver int64, f1, f2, f3 string) *T {
	var v T
	p := any(&v).(entity)
	setKey(&v, key)
	reflect.ValueOf(&v).Elem().FieldByName("Ver").SetInt(ver)
	p.setF1(rp.vt.f1[f1])
	if f2 == "nil" {
		p.setF2(nil)
	} else {
		x := rp.vt.f2[f2]
		p.setF2(&x)
	}
	if f3 == "nil" {
		p.setF3(nil)
	} else {
		x := rp.vt.f2[f3]
		p.setF3(&x)
	}
	return &v
}

func (rp *replayer[T]) run(b *behaviour) {
	rp.seq++
	key := fmt.Sprintf("e%d", rp.seq)
	ents := map[string]*T{}
	ctx, cancel := cctx()
	defer cancel()
	write := func(s pstep, e *T) {
		p := any(e).(entity)
		p.setF1(rp.vt.f1[s.F1])
		if s.F2 == "nil" {
			p.setF2(nil)
			p.setF3(nil)
		} else {
			x := rp.vt.f2[s.F2]
			p.setF2(&x)
			p.setF3(&x)
		}
	}
	curVer, curF1, curF2 := int64(-1), "", ""
	if b.Init != nil && b.Init.Ver < 0 {
		b.Init = nil
	}
	if b.Init != nil {
		// the stored document the behaviour starts from: saved Ver times through the real repository
		e := rp.r.NewEntity()
		setKey(e, key)
		write(pstep{F1: b.Init.DF1, F2: b.Init.DF2}, e) // f3 = f2 in every initial document
		for i := int64(0); i < b.Init.Ver; i++ {
			if err := rp.r.Save(ctx, e); err != nil {
				rp.diverge("om-"+rp.kind+":setup-save-failed", fmt.Sprintf("%s: %v", describe(b, -1), err))
				return
			}
		}
		curVer, curF1, curF2 = b.Init.Ver, b.Init.DF1, b.Init.DF2
	}
	winners := map[int64]string{}
	for i, s := range b.Steps {
		where := func() string { return describe(b, i) }
		switch s.Op {
		case "New":
			e := rp.r.NewEntity()
			setKey(e, key)
			write(s, e)
			ents[s.S] = e
		case "Fetch":
			e, err := rp.r.Fetch(ctx, key)
			if err != nil {
				rp.diverge("om-"+rp.kind+":fetch-failed", fmt.Sprintf("%s: %v", where(), err))
				return
			}
			write(s, e)
			ents[s.S] = e
		case "Edit":
			write(s, ents[s.S])
		case "Save":
			e := ents[s.S]
			base := getVer(e)
			if base != s.Base {
				rp.diverge("om-"+rp.kind+":base-version-differs", fmt.Sprintf("%s: entity version %d, specification %d", where(), base, s.Base))
				return
			}
			saved := *e
			err := rp.r.Save(ctx, e)
			switch {
			case err == nil:
				if prev, dup := winners[base]; dup || !s.OK {
					who := prev
					if !dup {
						who = "an earlier writer"
					}
					violate(rp.rep, "om-"+rp.kind+":save-succeeds-from-stale-version",
						fmt.Sprintf("%s: this Save succeeded although the stored version was %d, not its base %d (%s already saved from that base); the specification predicts ErrVersionMismatch", where(), curVer, base, who), b)
					return
				}
				winners[base] = s.S
				if getVer(e) != base+1 {
					violate(rp.rep, "om-"+rp.kind+":entity-version-not-plus-one",
						fmt.Sprintf("%s: Save succeeded from version %d and left the entity at version %d", where(), base, getVer(e)), b)
					return
				}
				reflect.ValueOf(&saved).Elem().FieldByName("Ver").SetInt(base + 1)
			case errors.Is(err, om.ErrVersionMismatch):
				if s.OK {
					rp.diverge("om-"+rp.kind+":spurious-version-mismatch", fmt.Sprintf("%s: ErrVersionMismatch although stored version %d equals the base", where(), curVer))
					return
				}
			default:
				rp.diverge("om-"+rp.kind+":save-error", fmt.Sprintf("%s: %v", where(), err))
				return
			}
			// read the stored document back
			f, ferr, c, cerr := fetchBoth(rp.r, key)
			if ferr != nil || cerr != nil {
				rp.diverge("om-"+rp.kind+":fetch-after-save-failed", fmt.Sprintf("%s: Fetch %v FetchCache %v", where(), ferr, cerr))
				return
			}
			if d := diff(f, c); len(d) > 0 {
				violate(rp.rep, "om-"+rp.kind+":fetchcache-differs-from-fetch:"+strings.Join(d, ","),
					fmt.Sprintf("%s: 2 s after the Save FetchCache still differs from Fetch in %v", where(), d), b)
				return
			}
			if err == nil {
				if getVer(f) != base+1 {
					violate(rp.rep, "om-"+rp.kind+":stored-version-not-plus-one",
						fmt.Sprintf("%s: Save succeeded from version %d, stored version is %d", where(), base, getVer(f)), b)
					return
				}
				if d := diff(&saved, f); len(d) > 0 {
					if s.Nf2 && onlyPointers(d) {
						// Om.tla models this (HSET never removes a field): report it and go on with the behaviour
						violate(rp.rep, "om-"+rp.kind+":nil-pointer-save-keeps-old-value:"+strings.Join(d, ","),
							fmt.Sprintf("%s: Save succeeded with nil pointer fields over stored values; Fetch afterwards still returns the old values of %v", where(), d), b)
					} else {
						violate(rp.rep, "om-"+rp.kind+":fetch-differs-from-saved:"+strings.Join(d, ","),
							fmt.Sprintf("%s: Save succeeded; Fetch afterwards differs from the saved entity in %v", where(), d), b)
						return
					}
				}
			}
			want := rp.expected(key, s.Ver, s.DF1, s.DF2, s.DF3)
			if d := diff(want, f); len(d) > 0 {
				if err != nil {
					violate(rp.rep, "om-"+rp.kind+":failed-save-changes-document:"+strings.Join(d, ","),
						fmt.Sprintf("%s: Save returned ErrVersionMismatch, yet the stored document changed in %v", where(), d), b)
				} else {
					rp.diverge("om-"+rp.kind+":stored-document-mismatch", fmt.Sprintf("%s: stored document differs from the specification's in %v", where(), d))
				}
				return
			}
			curVer, curF1, curF2 = s.Ver, s.DF1, s.DF2
		}
	}
	_, _ = curF1, curF2
	rp.rep.Traces++
}

func replayAll[T any](rep *vh.Report, e *env, kind string, r om.Repository[T], bs []*behaviour, shapes map[string]bool) {
	rp := &replayer[T]{rep: rep, r: r, kind: kind, vt: newValueTable(vh.Rng(40), kind == "hash"), div: map[string]int{}}
	for i, b := range bs {
		nv := len(rep.Violations)
		rp.run(b)
		rep.Evaluations++
		if len(rep.Violations) == nv {
			var sb strings.Builder
			for _, s := range b.Steps {
				sb.WriteString(s.Op[:1])
				if s.Op == "Save" {
					if s.OK {
						sb.WriteString("+")
					} else {
						sb.WriteString("-")
					}
				}
			}
			shapes[kind+":"+sb.String()] = true
			if i%1499 == 0 {
				rep.Sample(map[string]any{"behaviour": describe(b, len(b.Steps)), "src": b.Src, "last": b.Steps[len(b.Steps)-1]})
			}
		}
		if len(rep.Violations) > 8 {
			break
		}
	}
	for sig, c := range rp.div {
		if c > 1 {
			rep.Inconcl("divergence %s: %d behaviours in total", sig, c)
		}
	}
}

func replay(rep *vh.Report) {
	fh, err := os.Open(*inF)
	if err != nil {
		panic(err)
	}
	defer fh.Close()
	sc := bufio.NewScanner(fh)
	sc.Buffer(make([]byte, 1<<20), 1<<28)
	var hash, jsn []*behaviour
	for sc.Scan() {
		var b behaviour
		if err := json.Unmarshal(sc.Bytes(), &b); err != nil {
			rep.Inconcl("bad behaviour line: %v", err)
			return
		}
		if b.Repo == "hash" {
			hash = append(hash, &b)
		} else {
			jsn = append(jsn, &b)
		}
	}
	e := newEnv()
	defer e.client.Close()
	shapes := map[string]bool{}
	replayAll(rep, e, "hash", om.NewHashRepository("h", HashEnt{}, e.client), hash, shapes)
	replayAll(rep, e, "json", om.NewJSONRepository("j", JSONEnt{}, e.client), jsn, shapes)
	rep.DistinctNontrivial = len(shapes)
	rep.Rule = "replay: distinct (repository, sequence of New/Fetch/Edit/Save steps with the outcome of every Save) among the behaviours replayed to completion"
}

// ---------------------------------------------------------------------------------------------- roundtrip

func roundtripOne[T any](rep *vh.Report, kind string, r om.Repository[T], rng *rand.Rand, n int, types map[string]bool) {
	ctx, cancel := cctx()
	defer cancel()
	e := r.NewEntity()
	p := any(e).(entity)
	var trail []string
	for round := 0; round < 4; round++ {
		f1 := genF1(rng, kind == "hash")
		p.setF1(f1)
		var f2 *f2vals
		if rng.Intn(3) > 0 || round == 0 {
			x := genF2(rng, kind == "hash")
			f2 = &x
		}
		p.setF2(f2)
		p.setF3(f2)
		exp := reflect.ValueOf(e).Elem().FieldByName("Exp")
		if rng.Intn(3) == 0 {
			exp.Set(reflect.ValueOf(time.UnixMilli(time.Now().Add(time.Hour).UnixMilli() + rng.Int63n(1000)).UTC()))
		} else {
			exp.Set(reflect.ValueOf(time.Time{}))
		}
		trail = append(trail, fmt.Sprintf("Save#%d(pointers %v)", round+1, map[bool]string{true: "set", false: "nil"}[f2 != nil]))
		before := getVer(e)
		if err := r.Save(ctx, e); err != nil {
			rep.Inconcl("roundtrip %s: Save failed: %v", kind, err)
			return
		}
		if getVer(e) != before+1 {
			violate(rep, "om-"+kind+":entity-version-not-plus-one", fmt.Sprintf("%s: version %d -> %d", strings.Join(trail, " "), before, getVer(e)), nil)
			return
		}
		key := reflect.ValueOf(e).Elem().FieldByName("Key").String()
		f, ferr, c, cerr := fetchBoth(r, key)
		if ferr != nil || cerr != nil {
			sig := "om-" + kind + ":fetch-fails-after-save"
			violate(rep, sig, fmt.Sprintf("%s: Fetch %v FetchCache %v; saved %s", strings.Join(trail, " "), ferr, cerr, dump(e)), nil)
			return
		}
		if d := diff(e, f); len(d) > 0 {
			sig := "om-" + kind + ":fetch-differs-from-saved:" + strings.Join(d, ",")
			if kind == "hash" && f2 == nil && round > 0 && onlyPointers(d) {
				sig = "om-" + kind + ":nil-pointer-save-keeps-old-value:" + strings.Join(d, ",")
			}
			violate(rep, sig, fmt.Sprintf("%s: Fetch differs from the saved entity in %v; saved %s fetched %s", strings.Join(trail, " "), d, dump(e), dump(f)), nil)
			return
		}
		if d := diff(f, c); len(d) > 0 {
			violate(rep, "om-"+kind+":fetchcache-differs-from-fetch:"+strings.Join(d, ","),
				fmt.Sprintf("%s: FetchCache differs from Fetch in %v", strings.Join(trail, " "), d), nil)
			return
		}
		if !exp.Interface().(time.Time).IsZero() {
			// the expiry tag became the key's expiry
		}
		rep.Evaluations++
	}
	t := reflect.TypeOf(*e)
	for i := 0; i < t.NumField(); i++ {
		types[kind+":"+t.Field(i).Type.String()] = true
	}
	if n%97 == 0 {
		rep.Sample(map[string]any{"repository": kind, "entity": dump(e)})
	}
	rep.Traces++
}

func onlyPointers(d []string) bool {
	for _, f := range d {
		if !strings.Contains(f, "(*") {
			return false
		}
	}
	return true
}

func dump(v any) string {
	b, _ := json.Marshal(v)
	if len(b) > 700 {
		b = append(b[:700], "..."...)
	}
	return string(b)
}

func roundtrip(rep *vh.Report) {
	e := newEnv()
	defer e.client.Close()
	rng := vh.Rng(41)
	types := map[string]bool{}
	hr := om.NewHashRepository("rh", HashEnt{}, e.client)
	jr := om.NewJSONRepository("rj", JSONEnt{}, e.client)
	for i := 0; i < *runs; i++ {
		roundtripOne(rep, "hash", hr, rng, i, types)
		roundtripOne(rep, "json", jr, rng, i, types)
		if len(rep.Violations) > 8 {
			break
		}
	}
	var ts []string
	for t := range types {
		ts = append(ts, t)
	}
	sort.Strings(ts)
	rep.DistinctNontrivial = len(ts)
	rep.Rule = "roundtrip: distinct (repository, field type) pairs written and read back"
	rep.Extra["field_types"] = ts
}

func main() {
	flag.Parse()
	rep := &vh.Report{Extra: map[string]any{}}
	switch *mode {
	case "replay":
		replay(rep)
	case "roundtrip":
		roundtrip(rep)
	default:
		panic("mode")
	}
	rep.Extra["occurrences_by_signature"] = sigCount
	rep.Assumptions = append(rep.Assumptions,
		"fakeredis + luamini execute the real save scripts; JSON.SET/JSON.GET/JSON.NUMINCRBY are emulated on encoding/json",
		"entities equal = field by field, nil and empty slices/maps identified, time.Time compared as instants; float fields only hold exactly representable values")
	rep.Write(*vh.Out)
}
