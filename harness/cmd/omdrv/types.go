// -mode types: the cells of spec/addons/OmTypes.tla - (repository, place in the schema, field type, boundary class) with the
// outcome the specification predicts ("equal") - executed on the real repositories: the driver only supplies concrete values
// for every class and puts them where the cell says; Save, Fetch and FetchCache must give the value back.
package main

import (
	"bufio"
	"encoding/json"
	"fmt"
	"math"
	"os"
	"reflect"
	"sort"
	"strings"
	"time"

	"github.com/redis/rueidis/om"
	"verifharness/vh"
)

// Inner: the types that are supported inside a struct (stored through encoding/json by both repositories)
type Inner struct {
	S  string
	I  int64
	B  bool
	By []byte
	T  time.Time
	F  float64
	U  uint64
	Ss []string
	M  map[string]int64
}

// THash: every kind conv.go converts, as a field and as a pointer field
type THash struct {
	Key string `redis:",key"`
	Ver int64  `redis:",ver"`
	S   string
	I   int64
	B   bool
	By  []byte
	T   time.Time
	V32 []float32
	V64 []float64
	PS  *string
	PI  *int64
	PB  *bool
	PT  *time.Time
	N   Inner
	E   []Inner
}

type TJSON struct {
	Key string `redis:",key"`
	Ver int64  `redis:",ver"`
	S   string
	I   int64
	B   bool
	By  []byte
	T   time.Time
	F   float64
	U   uint64
	Ss  []string
	M   map[string]int64
	V32 []float32
	V64 []float64
	PS  *string
	PI  *int64
	PB  *bool
	PT  *time.Time
	PF  *float64
	PU  *uint64
	N   Inner
	E   []Inner
}

var typeField = map[string]string{"string": "S", "int64": "I", "bool": "B", "bytes": "By", "time": "T", "float64": "F", "uint64": "U",
	"strings": "Ss", "map": "M", "vec32": "V32", "vec64": "V64"}

func nan32() float32 { return float32(math.NaN()) }

// classValues: concrete members of a boundary class of OmTypes.tla
func classValues(typ, class string) []any {
	switch typ + "/" + class {
	case "string/empty":
		return []any{""}
	case "string/ascii":
		return []any{"plain", "t", "f", "0", "null"}
	case "string/separators":
		return []any{"a:b,c;d|e", "\r\n$5\r\nhello\r\n*2\r\n", "\"quoted\" 'single' back\\slash", "{\"k\":[1,2]}", " lead and trail ", "a\tb\nc"}
	case "string/unicode":
		return []any{"ünï©ode ✓", "日本語 😀   ", "<html>&amp;"}
	case "string/control":
		return []any{"\x00", "\x00\x01\x1f\x7f mid \x00 dle"}
	case "string/invalid-utf8":
		return []any{"\xff\xfe", "ok\xc3\x28ok", "\xed\xa0\x80"}
	case "string/long":
		return []any{strings.Repeat("0123456789abcdef", 5000)}
	case "int64/zero":
		return []any{int64(0)}
	case "int64/min":
		return []any{int64(math.MinInt64), int64(math.MinInt64 + 1)}
	case "int64/max":
		return []any{int64(math.MaxInt64), int64(math.MaxInt64 - 1)}
	case "int64/beyond-2p53":
		return []any{int64(1<<53 + 1), int64(-(1 << 53) - 1), int64(1234567890123456789)}
	case "int64/negative":
		return []any{int64(-1), int64(-42)}
	case "uint64/zero":
		return []any{uint64(0)}
	case "uint64/max":
		return []any{uint64(math.MaxUint64), uint64(math.MaxUint64 - 1)}
	case "uint64/beyond-2p63":
		return []any{uint64(1 << 63), uint64(1<<63 + 1)}
	case "uint64/beyond-2p53":
		return []any{uint64(1<<53 + 1)}
	case "bool/true":
		return []any{true}
	case "bool/false":
		return []any{false}
	case "bytes/nil":
		return []any{[]byte(nil)}
	case "bytes/empty":
		return []any{[]byte{}}
	case "bytes/text":
		return []any{[]byte("plain text")}
	case "bytes/invalid-utf8":
		return []any{[]byte{0xff, 0xfe, 0, 1, 0x80}, []byte{0}}
	case "bytes/separators":
		return []any{[]byte("\r\n$5\r\n\"q\"")}
	case "time/zero":
		return []any{time.Time{}}
	case "time/utc-nanoseconds":
		return []any{time.Date(2023, 11, 14, 22, 13, 20, 123456789, time.UTC), time.Date(2038, 1, 19, 3, 14, 8, 1, time.UTC)}
	case "time/zoned-nanoseconds":
		return []any{time.Date(2023, 11, 14, 22, 13, 20, 999999999, time.FixedZone("", 5*3600+1800)), time.Date(2024, 2, 29, 0, 0, 0, 7, time.FixedZone("", -8*3600))}
	case "time/zoned-microseconds":
		return []any{time.Date(2023, 11, 14, 22, 13, 20, 1500000, time.FixedZone("", -3*3600-1800)), time.Date(2001, 9, 9, 1, 46, 40, 1000, time.FixedZone("", 14*3600))}
	case "time/before-epoch":
		return []any{time.Date(1969, 12, 31, 23, 59, 59, 999999999, time.UTC), time.Date(1066, 10, 14, 9, 0, 0, 500, time.FixedZone("", 3600))}
	case "time/year-9999":
		return []any{time.Date(9999, 12, 31, 23, 59, 59, 999999000, time.UTC)}
	case "time/whole-millisecond":
		return []any{time.UnixMilli(1700000000123).UTC(), time.UnixMilli(1700000000000).In(time.FixedZone("", 2*3600))}
	case "float64/zero":
		return []any{float64(0)}
	case "float64/negative-zero":
		return []any{math.Copysign(0, -1)}
	case "float64/digits-17":
		return []any{0.1 + 0.2, math.Pi, -math.E, 0.1, 1.0 / 3, 123456.78901234567}
	case "float64/large-exponent":
		return []any{1e300, -1.2345678901234567e250, 1e21, 1e22}
	case "float64/small-exponent":
		return []any{1e-300, -9.87654321e-200, 1e-7, 1e-6}
	case "float64/denormal":
		return []any{5e-324, 2.2250738585072009e-308}
	case "float64/max":
		return []any{math.MaxFloat64, -math.MaxFloat64}
	case "float64/integer-beyond-2p53":
		return []any{float64(1<<53 + 2), float64(1 << 62), -float64(1 << 63)}
	case "strings/nil":
		return []any{[]string(nil)}
	case "strings/one-empty":
		return []any{[]string{""}}
	case "strings/separators":
		return []any{[]string{"a,b", "c\"d", "", "[", "\r\n"}}
	case "map/empty":
		return []any{map[string]int64{}}
	case "map/separator-keys":
		return []any{map[string]int64{"a.b": 1, "": 2, "k\"q": math.MinInt64, "$": math.MaxInt64, "ü": -1}}
	case "vec32/empty":
		return []any{[]float32{}}
	case "vec32/dyadic":
		return []any{[]float32{0.5, -0.25, 1024, 0}}
	case "vec32/digits":
		return []any{[]float32{0.1, math.MaxFloat32, 1e-45, -1.17549435e-38, float32(math.Copysign(0, -1))}}
	case "vec32/nan-inf":
		return []any{[]float32{nan32(), float32(math.Inf(1)), float32(math.Inf(-1))}}
	case "vec64/empty":
		return []any{[]float64{}}
	case "vec64/dyadic":
		return []any{[]float64{0.5, -0.25, 1024, 0}}
	case "vec64/digits-17":
		return []any{[]float64{0.1 + 0.2, math.Pi, 5e-324, math.MaxFloat64, math.Copysign(0, -1)}}
	case "vec64/nan-inf":
		return []any{[]float64{math.NaN(), math.Inf(1), math.Inf(-1)}}
	}
	return nil
}

type cell struct {
	Repo   string `json:"repo"`
	Place  string `json:"place"`
	Type   string `json:"type"`
	Class  string `json:"class"`
	Expect string `json:"expect"`
}

// place puts v where the cell says and returns a description of the spot
func place(ent reflect.Value, c cell, v any) (string, bool) {
	name := typeField[c.Type]
	var f reflect.Value
	spot := name
	switch c.Place {
	case "field":
		f = ent.FieldByName(name)
	case "pointer":
		spot = "P" + name
		f = ent.FieldByName(spot)
		if !f.IsValid() {
			return spot, false
		}
		p := reflect.New(f.Type().Elem())
		p.Elem().Set(reflect.ValueOf(v))
		f.Set(p)
		return spot, true
	case "nested":
		spot = "N." + name
		f = ent.FieldByName("N").FieldByName(name)
	case "element":
		spot = "E[1]." + name
		ent.FieldByName("E").Set(reflect.ValueOf([]Inner{{S: "filler", I: 7}, {}}))
		f = ent.FieldByName("E").Index(1).FieldByName(name)
	}
	if !f.IsValid() {
		return spot, false
	}
	f.Set(reflect.ValueOf(v))
	return spot, true
}

func show(v any) string {
	switch x := v.(type) {
	case time.Time:
		return x.Format(time.RFC3339Nano)
	case float64:
		return fmt.Sprintf("%v (bits %#x)", x, math.Float64bits(x))
	case string:
		if len(x) > 80 {
			return fmt.Sprintf("%q... (%d bytes)", x[:80], len(x))
		}
		return fmt.Sprintf("%q", x)
	}
	s := fmt.Sprintf("%#v", v)
	if len(s) > 200 {
		s = s[:200] + "..."
	}
	return s
}

func typesRun[T any](rep *vh.Report, kind string, r om.Repository[T], cells []cell, done map[string]bool) {
	for _, c := range cells {
		vals := classValues(c.Type, c.Class)
		if len(vals) == 0 {
			rep.Inconcl("types: the driver has no values for %s/%s", c.Type, c.Class)
			continue
		}
		if c.Expect != "equal" {
			rep.Inconcl("types: unknown prediction %q", c.Expect)
			continue
		}
		ctx, cancel := cctx()
		e := r.NewEntity() // one entity per cell, saved once per value: later values overwrite earlier ones
		key := reflect.ValueOf(e).Elem().FieldByName("Key").String()
		okCell := true
		for n, v := range vals {
			spot, ok := place(reflect.ValueOf(e).Elem(), c, v)
			if !ok {
				rep.Inconcl("types: the driver's schema has no place %s for cell %+v", spot, c)
				okCell = false
				break
			}
			sig := fmt.Sprintf("om-%s:roundtrip-differs:%s:%s:%s", kind, c.Place, c.Type, c.Class)
			if err := r.Save(ctx, e); err != nil {
				violate(rep, "om-"+kind+":save-fails-for-supported-value:"+c.Place+":"+c.Type+":"+c.Class,
					fmt.Sprintf("Save of an entity with %s = %s failed: %v (OmTypes.tla: supported, round-trips equal)", spot, show(v), err), c)
				okCell = false
				break
			}
			f, ferr, cc, cerr := fetchBoth(r, key)
			if ferr != nil || cerr != nil {
				violate(rep, "om-"+kind+":fetch-fails-after-save:types:"+c.Place+":"+c.Type+":"+c.Class,
					fmt.Sprintf("save #%d with %s = %s succeeded; Fetch %v FetchCache %v", n+1, spot, show(v), ferr, cerr), c)
				okCell = false
				break
			}
			if d := diff(e, f); len(d) > 0 {
				got := reflect.ValueOf(f).Elem()
				violate(rep, sig, fmt.Sprintf("%s repository, %s = %s saved (version %d); Fetch returns an entity that differs in %v: fetched %s; OmTypes.tla predicts an equal value",
					kind, spot, show(v), getVer(e), d, dump(got.Interface())), c)
				okCell = false
				break
			}
			if d := diff(f, cc); len(d) > 0 {
				violate(rep, "om-"+kind+":fetchcache-differs-from-fetch:"+strings.Join(d, ","),
					fmt.Sprintf("%s = %s: FetchCache differs from Fetch in %v", spot, show(v), d), c)
				okCell = false
				break
			}
			rep.Evaluations++
		}
		cancel()
		if okCell {
			done[kind+":"+c.Place+":"+c.Type+":"+c.Class] = true
		}
		if len(rep.Violations) > 24 {
			return
		}
	}
}

func typesMode(rep *vh.Report) {
	fh, err := os.Open(*inF)
	if err != nil {
		panic(err)
	}
	defer fh.Close()
	sc := bufio.NewScanner(fh)
	var hash, jsn []cell
	for sc.Scan() {
		var c cell
		if err := json.Unmarshal(sc.Bytes(), &c); err != nil {
			rep.Inconcl("bad cell line: %v", err)
			return
		}
		if c.Repo == "hash" {
			hash = append(hash, c)
		} else {
			jsn = append(jsn, c)
		}
	}
	e := newEnv()
	defer e.client.Close()
	done := map[string]bool{}
	typesRun(rep, "hash", om.NewHashRepository("th", THash{}, e.client), hash, done)
	typesRun(rep, "json", om.NewJSONRepository("tj", TJSON{}, e.client), jsn, done)
	var ds []string
	for d := range done {
		ds = append(ds, d)
	}
	sort.Strings(ds)
	rep.DistinctNontrivial = len(ds)
	rep.Traces = len(ds)
	rep.Rule = "types: cells (repository, place, field type, boundary class) of OmTypes.tla whose values were all saved and fetched back equal"
	rep.Extra["cells_given"] = len(hash) + len(jsn)
	rep.Extra["cells_equal"] = len(ds)
	if len(ds) > 0 {
		rep.Sample(map[string]any{"first": ds[0], "last": ds[len(ds)-1]})
	}
}
