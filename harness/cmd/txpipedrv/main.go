// txpipedrv replays programs enumerated by TLC from spec/addons/TxPipe.tla on the real rueidiscompat adapter
// (Pipeline, TxPipeline, Watch, Pipelined, TxPipelined) connected to the fake Redis server.  Every operation carries
// the outcome TxPipe.tla predicts (wire batch, per-Cmder value and error class, Exec error class, store, Len());
// the driver applies the operation to the real adapter and compares what the server received on the connection and
// what the Cmders show.  While transactions run, another goroutine issues commands through the same client, so
// that "one contiguous MULTI ... EXEC batch" is a real constraint.
package main

import (
	"bufio"
	"context"
	"encoding/json"
	"errors"
	"flag"
	"fmt"
	"os"
	"reflect"
	"strings"
	"sync"
	"sync/atomic"
	"time"

	"github.com/redis/rueidis"
	"github.com/redis/rueidis/rueidiscompat"
	"verifharness/fakeredis"
	"verifharness/vh"
)

var casesPath = flag.String("cases", "", "ndjson file of TLC cases")

type ret struct {
	Val string `json:"val"`
	Err string `json:"err"`
}
type op struct {
	Op   string     `json:"op"`
	C    string     `json:"c"`
	V    string     `json:"v"`
	Len  int        `json:"len"`
	Wire [][]string `json:"wire"`
	Rets []ret      `json:"rets"`
	Err  string     `json:"err"`
	Sent bool       `json:"sent"`
	Ks   string     `json:"ks"`
	Kn   int        `json:"kn"`
}
type tcase struct {
	Kind string `json:"kind"`
	API  string `json:"api"`
	Ops  []op   `json:"ops"`
}

type recv struct {
	conn int
	argv []string
}

type env struct {
	name   string
	srv    *fakeredis.Server
	client rueidis.Client
	ad     rueidiscompat.Cmdable
	mu     sync.Mutex
	recvs  []recv
}

func newEnv(name string, opt rueidis.ClientOption) (*env, error) {
	e := &env{name: name}
	e.srv = fakeredis.NewServer(name, fakeredis.Options{})
	e.srv.SetEventSink(func(ev fakeredis.Event) {
		if ev.Kind == fakeredis.SRecv && ev.Conn != 0 {
			e.mu.Lock()
			e.recvs = append(e.recvs, recv{ev.Conn, append([]string(nil), ev.Argv...)})
			e.mu.Unlock()
		}
	})
	n := fakeredis.NewNetwork()
	n.Add("127.0.0.1:6379", e.srv)
	opt.InitAddress = []string{"127.0.0.1:6379"}
	opt.DialCtxFn = n.DialCtxFn()
	opt.ForceSingleClient = true
	opt.DisableRetry = true
	c, err := rueidis.NewClient(opt)
	if err != nil {
		return nil, err
	}
	e.client = c
	e.ad = rueidiscompat.NewAdapter(c)
	return e, nil
}

func (e *env) mark() int { e.mu.Lock(); defer e.mu.Unlock(); return len(e.recvs) }
func (e *env) since(m int) []recv {
	e.mu.Lock()
	defer e.mu.Unlock()
	return append([]recv(nil), e.recvs[m:]...)
}

func errClass(err error) string {
	switch {
	case err == nil:
		return ""
	case errors.Is(err, rueidiscompat.TxFailedErr):
		return "txfailed"
	case err == rueidiscompat.Nil || rueidis.IsRedisNil(err):
		return "nil"
	case strings.Contains(err.Error(), "EXECABORT"):
		return "execabort"
	case strings.Contains(err.Error(), "not an integer"):
		return "notint"
	case strings.Contains(err.Error(), "unknown command"):
		return "unknown"
	case strings.Contains(err.Error(), "pipeline has not been executed"):
		return "notexec"
	}
	return "other:" + err.Error()
}

func cmderVal(c rueidiscompat.Cmder) string {
	switch x := c.(type) {
	case *rueidiscompat.StringCmd: // StatusCmd is the same type
		return x.Val()
	case *rueidiscompat.IntCmd:
		if x.Val() == 0 {
			return ""
		}
		return fmt.Sprint(x.Val())
	case *rueidiscompat.Cmd:
		if x.Val() == nil {
			return ""
		}
		return fmt.Sprint(x.Val())
	}
	return fmt.Sprintf("?%T", c)
}

type runner struct {
	e      *env
	c      tcase
	rep    *vh.Report
	bad    bool
	noise  bool
	queued []rueidiscompat.Cmder
}

func (r *runner) fail(o op, i int, diff, what string) {
	r.bad = true
	sig := fmt.Sprintf("txpipe kind=%s api=%s op=%s diff=%s", r.c.Kind, r.c.API, o.Op, diff)
	r.rep.Violate(sig, fmt.Sprintf("[%s] op #%d %s: %s", r.e.name, i+1, o.Op, what), r.c)
}

func (r *runner) queue(p rueidiscompat.Pipeliner, o op) {
	ctx := context.Background()
	var c rueidiscompat.Cmder
	switch o.C {
	case "SETs":
		c = p.Set(ctx, "ks", o.V, 0)
	case "GETs":
		c = p.Get(ctx, "ks")
	case "GETm":
		c = p.Get(ctx, "km")
	case "INCRn":
		c = p.Incr(ctx, "kn")
	case "INCRs":
		c = p.Incr(ctx, "ks")
	case "DOinc":
		c = p.Do(ctx, "INCRBY", "kn", "10")
	case "DObad":
		c = p.Do(ctx, "NOSUCHCMD", "ks")
	}
	r.queued = append(r.queued, c)
}

// checkExec compares the result of one Exec with the prediction.
func (r *runner) checkExec(o op, i int, m0 int, cmders []rueidiscompat.Cmder, err error) {
	// 1. wire: what the server received since m0, noise removed, must be one contiguous batch on one connection
	rs := r.e.since(m0)
	var batch [][]string
	conn := -1
	first := -1
	for j, x := range rs {
		if len(x.argv) > 1 && x.argv[1] == "noise" {
			continue
		}
		up := strings.ToUpper(x.argv[0])
		if up == "WATCH" || up == "UNWATCH" || up == "HELLO" || up == "CLIENT" || up == "PING" {
			continue
		}
		if conn == -1 {
			conn, first = x.conn, j
		}
		if x.conn != conn {
			r.fail(o, i, "wire-split", fmt.Sprintf("batch spread over connections %d and %d: %v", conn, x.conn, rs))
			return
		}
		batch = append(batch, x.argv)
	}
	want := o.Wire
	if len(want) == 0 {
		want = nil
	}
	if !reflect.DeepEqual(batch, want) {
		diff := "wire"
		if len(batch) > 0 && len(want) > 0 && want[0][0] == "MULTI" && batch[0][0] != "MULTI" {
			diff = "wire-multi-not-first"
		}
		r.fail(o, i, diff, fmt.Sprintf("server received %v, TxPipe.tla predicts %v", batch, want))
	} else if len(want) > 0 && want[0][0] == "MULTI" {
		// contiguity on the connection: nothing of the same connection between MULTI and EXEC
		n := 0
		for _, x := range rs[first:] {
			if x.conn == conn {
				n++
				if strings.ToUpper(x.argv[0]) == "EXEC" {
					break
				}
			}
		}
		if n != len(want) {
			r.fail(o, i, "wire-interleaved", fmt.Sprintf("foreign commands between MULTI and EXEC on connection %d: %v", conn, rs))
		}
	}
	// a transaction aborted although nobody wrote a watched key since this Watch() began: everything else follows from it
	if errClass(err) == "txfailed" && o.Err != "txfailed" {
		r.fail(o, i, "spurious-txfailed", fmt.Sprintf("Exec returned TxFailedErr, TxPipe.tla predicts %q: no key watched by this Watch() was written before EXEC", o.Err))
		r.queued = nil
		return
	}
	// 2. Cmders
	if len(cmders) != len(o.Rets) {
		r.fail(o, i, "cmders-len", fmt.Sprintf("Exec returned %d Cmders, TxPipe.tla predicts %d", len(cmders), len(o.Rets)))
	} else {
		for k, c := range cmders {
			if k < len(r.queued) && c != r.queued[k] {
				r.fail(o, i, "cmder-identity", fmt.Sprintf("Cmder %d returned by Exec is not the object returned when command %d was queued", k, k))
			}
			gv, ge := cmderVal(c), errClass(c.Err())
			w := o.Rets[k]
			if w.Err == "notexec" {
				// an unanswered Cmder: the property only demands that it carries no server value
				if gv != "" {
					r.fail(o, i, "cmder-unanswered-has-value", fmt.Sprintf("Cmder %d shows value %q although the transaction did not run", k, gv))
				}
				continue
			}
			if gv != w.Val || ge != w.Err {
				r.fail(o, i, "cmder-value", fmt.Sprintf("Cmder %d shows (val=%q err=%q), TxPipe.tla predicts (val=%q err=%q); all=%s", k, gv, ge, w.Val, w.Err, dump(cmders)))
			}
		}
	}
	// 3. Exec error
	if got := errClass(err); got != o.Err {
		diff := "exec-err"
		if o.Err == "txfailed" {
			diff = "txfailed-not-reported"
		}
		r.fail(o, i, diff, fmt.Sprintf("Exec returned error %q (%v), TxPipe.tla predicts %q", got, err, o.Err))
	}
	r.checkStore(o, i)
	r.queued = nil
}

func dump(cs []rueidiscompat.Cmder) string {
	var sb strings.Builder
	for _, c := range cs {
		sb.WriteString(fmt.Sprintf("(%s|%s)", cmderVal(c), errClass(c.Err())))
	}
	return sb.String()
}

func (r *runner) checkStore(o op, i int) {
	ks := r.e.srv.Do("GET", "ks")
	kn := r.e.srv.Do("GET", "kn")
	gkn := 0
	if !kn.IsNull() {
		fmt.Sscan(kn.Str, &gkn)
	}
	if ks.Str != o.Ks || gkn != o.Kn {
		r.fail(o, i, "store", fmt.Sprintf("server store ks=%q kn=%d, TxPipe.tla predicts ks=%q kn=%d", ks.Str, gkn, o.Ks, o.Kn))
	}
}

// body runs ops[from:] on p; with viaFn it stops before the final Exec (which Pipelined performs)
func (r *runner) body(p rueidiscompat.Pipeliner, viaFn bool) (execAt int) {
	for i, o := range r.c.Ops {
		switch o.Op {
		case "Conflict", "Stale":
			continue // performed by the caller before the pipeline exists
		case "Queue":
			r.queue(p, o)
			if p.Len() != o.Len {
				r.fail(o, i, "len", fmt.Sprintf("Len() = %d, TxPipe.tla predicts %d", p.Len(), o.Len))
			}
		case "Discard":
			p.Discard()
			r.queued = nil
			if p.Len() != o.Len {
				r.fail(o, i, "len", fmt.Sprintf("Len() = %d after Discard, TxPipe.tla predicts %d", p.Len(), o.Len))
			}
		case "Exec":
			if viaFn {
				return i
			}
			m0 := r.e.mark()
			stop := r.startNoise()
			cmders, err := p.Exec(context.Background())
			stop()
			r.checkExec(o, i, m0, cmders, err)
		}
	}
	return -1
}

func (r *runner) startNoise() func() {
	if !r.noise {
		return func() {}
	}
	var stop atomic.Bool
	var wg sync.WaitGroup
	started := make(chan struct{})
	for g := 0; g < 2; g++ {
		wg.Add(1)
		go func() {
			defer wg.Done()
			once := false
			for !stop.Load() {
				r.e.client.Do(context.Background(), r.e.client.B().Get().Key("noise").Build())
				if !once {
					once = true
					started <- struct{}{}
				}
			}
		}()
	}
	<-started
	<-started
	return func() { stop.Store(true); wg.Wait() }
}

func (r *runner) run() {
	defer func() {
		if p := recover(); p != nil {
			r.bad = true
			r.rep.Violate(fmt.Sprintf("txpipe kind=%s api=%s diff=panic", r.c.Kind, r.c.API), fmt.Sprintf("panic: %v", p), r.c)
		}
	}()
	ctx := context.Background()
	e := r.e
	e.srv.Do("FLUSHALL")
	e.srv.Do("SET", "ks", "abc")
	viaFn := r.c.API == "fn" || r.c.API == "ofn"
	exec := func(mk func() rueidiscompat.Pipeliner, pipelined func(context.Context, func(rueidiscompat.Pipeliner) error) ([]rueidiscompat.Cmder, error)) {
		if r.c.API == "oexec" || r.c.API == "ofn" {
			// the secondary entry points of an explicit pipeline object: the object keeps its kind
			obj, tx := mk(), r.c.Kind != "pipe"
			mk = func() rueidiscompat.Pipeliner {
				if tx {
					return obj.TxPipeline()
				}
				return obj.Pipeline()
			}
			if tx {
				pipelined = obj.TxPipelined
			} else {
				pipelined = obj.Pipelined
			}
		}
		if !viaFn {
			r.body(mk(), false)
			return
		}
		at := -1
		m0 := e.mark()
		stop := r.startNoise()
		cmders, err := pipelined(ctx, func(p rueidiscompat.Pipeliner) error { at = r.body(p, true); return nil })
		stop()
		if at >= 0 {
			r.checkExec(r.c.Ops[at], at, m0, cmders, err)
		}
	}
	switch r.c.Kind {
	case "pipe":
		exec(e.ad.Pipeline, e.ad.Pipelined)
	case "tx":
		exec(e.ad.TxPipeline, e.ad.TxPipelined)
	case "txwatch", "txconflict", "txstale":
		if r.c.Kind == "txstale" {
			// an earlier optimistic-locking attempt that gave up before EXEC, then somebody writes the key
			if err := e.ad.Watch(ctx, func(tx rueidiscompat.Tx) error { return nil }, "ks"); err != nil {
				r.rep.Inconcl("Watch returned %v", err)
			}
			e.srv.Do("SET", "ks", "stale")
		}
		werr := e.ad.Watch(ctx, func(tx rueidiscompat.Tx) error {
			if r.c.Kind == "txconflict" {
				e.srv.Do("SET", "ks", "other")
			}
			exec(tx.TxPipeline, tx.TxPipelined)
			return nil
		}, "ks")
		if werr != nil {
			r.rep.Inconcl("Watch returned %v", werr)
		}
	}
}

var cfgs = []struct {
	name string
	opt  rueidis.ClientOption
}{
	{"resp2-nocache", rueidis.ClientOption{AlwaysRESP2: true, DisableCache: true}},
	{"resp3-pipelining", rueidis.ClientOption{AlwaysPipelining: true}},
}

func main() {
	flag.Parse()
	rep := &vh.Report{Rule: "distinct programs containing an Exec of a non-empty queue that involves at least one of: an error element, a nil reply, a WATCH abort, an EXECABORT, a Discard, or a second Exec"}
	defer func() { rep.Write(*vh.Out) }()
	envs := []*env{}
	for _, cfg := range cfgs {
		e, err := newEnv(cfg.name, cfg.opt)
		if err != nil {
			rep.Inconcl("cannot create client %s: %v", cfg.name, err)
			return
		}
		defer e.client.Close()
		envs = append(envs, e)
	}
	f, err := os.Open(*casesPath)
	if err != nil {
		rep.Inconcl("cannot open cases: %v", err)
		return
	}
	defer f.Close()
	sc := bufio.NewScanner(f)
	sc.Buffer(make([]byte, 1<<20), 1<<26)
	idx := 0
	deadline := time.Now().Add(20 * time.Minute)
	for sc.Scan() {
		var c tcase
		if err := json.Unmarshal(sc.Bytes(), &c); err != nil {
			rep.Inconcl("bad case: %v", err)
			continue
		}
		if time.Now().After(deadline) {
			rep.Inconcl("time budget exhausted after %d cases", idx)
			break
		}
		idx++
		// every case on one environment (alternating), every 5th transaction case also with concurrent traffic
		e := envs[idx%2]
		if strings.HasPrefix(c.Kind, "tx") && c.Kind != "tx" {
			// Watch() takes a pooled connection: a fresh client per case keeps the cases independent of each other
			fe, err := newEnv(e.name, cfgs[idx%2].opt)
			if err != nil {
				rep.Inconcl("cannot create client: %v", err)
				continue
			}
			e = fe
		}
		r := &runner{e: e, c: c, rep: rep, noise: c.Kind != "pipe" && idx%5 == 0}
		r.run()
		if e != envs[idx%2] {
			e.client.Close()
			e.srv.Close()
		}
		rep.Evaluations++
		rep.Traces++
		nontrivial := false
		nexec := 0
		for _, o := range c.Ops {
			if o.Op == "Discard" {
				nontrivial = true
			}
			if o.Op == "Exec" && o.Sent {
				nexec++
				if o.Err != "" {
					nontrivial = true
				}
			}
		}
		if nontrivial || nexec > 1 {
			rep.DistinctNontrivial++
		}
		if !r.bad && (nontrivial || idx%1000 == 1) {
			rep.Sample(c)
		}
	}
	rep.Assumptions = append(rep.Assumptions, "server = fakeredis (MULTI/EXEC/WATCH per Redis 7 semantics); standalone client, RESP3 with AlwaysPipelining and RESP2 without cache, retries disabled")
}
