// hookdrv replays programs enumerated by TLC from spec/addons/Hook.tla on the real rueidishook.WithHook wrapper
// around a hand-written stub rueidis.Client tree (root, Nodes() children, dedicated clients).  Every operation of a
// program carries the outcome Hook.tla predicts: which Hook methods are invoked with which underlying client, which
// calls reach the underlying client, and whether the caller gets the hook's result.  The driver applies the
// operation and compares; it contains no routing rule of its own.
package main

import (
	"bufio"
	"context"
	"encoding/json"
	"errors"
	"flag"
	"fmt"
	"net"
	"os"
	"reflect"
	"strings"
	"time"

	"github.com/redis/rueidis"
	"github.com/redis/rueidis/mock"
	"github.com/redis/rueidis/rueidishook"
	"verifharness/fakeredis"
	"verifharness/vh"
)

var casesPath = flag.String("cases", "", "ndjson file of TLC cases")

// ---------------------------------------------------------------------------------------------- stub world
type world struct {
	under   []string // calls that reached a stub: "Entry@/path"
	hooks   []string // hook invocations: "Entry@/path of the client handed to the hook"
	seq     int
	nextD   int
	lastB   string
	probing bool
	fwd     bool
	nodeIDs []string
	deds    map[string]*stubDed
}

func (w *world) newDed(parent string) *stubDed {
	w.nextD++
	d := &stubDed{w: w, path: fmt.Sprintf("%s/d%d", parent, w.nextD)}
	w.deds[d.path] = d
	return d
}

func (w *world) tag(entry, path string) string {
	w.seq++
	return fmt.Sprintf("S:%s:%s:#%d", entry, path, w.seq)
}

var builder = mock.NewClient(nil)

type stub struct {
	w    *world
	path string
	kids map[string]*stub
}

func res(s string) rueidis.RedisResult { return mock.Result(mock.RedisString(s)) }

func (s *stub) B() rueidis.Builder {
	s.w.lastB = s.path
	if !s.w.probing {
		s.w.under = append(s.w.under, "B@"+s.path)
	}
	return builder.B()
}
func (s *stub) Do(ctx context.Context, cmd rueidis.Completed) rueidis.RedisResult {
	s.w.under = append(s.w.under, "Do@"+s.path)
	return res(s.w.tag("Do", s.path))
}
func (s *stub) DoMulti(ctx context.Context, multi ...rueidis.Completed) []rueidis.RedisResult {
	s.w.under = append(s.w.under, "DoMulti@"+s.path)
	t := s.w.tag("DoMulti", s.path)
	out := make([]rueidis.RedisResult, len(multi))
	for i := range out {
		out[i] = res(fmt.Sprintf("%s[%d]", t, i))
	}
	return out
}
func (s *stub) DoCache(ctx context.Context, cmd rueidis.Cacheable, ttl time.Duration) rueidis.RedisResult {
	s.w.under = append(s.w.under, "DoCache@"+s.path)
	return res(s.w.tag("DoCache", s.path))
}
func (s *stub) DoMultiCache(ctx context.Context, multi ...rueidis.CacheableTTL) []rueidis.RedisResult {
	s.w.under = append(s.w.under, "DoMultiCache@"+s.path)
	t := s.w.tag("DoMultiCache", s.path)
	out := make([]rueidis.RedisResult, len(multi))
	for i := range out {
		out[i] = res(fmt.Sprintf("%s[%d]", t, i))
	}
	return out
}
func (s *stub) DoStream(ctx context.Context, cmd rueidis.Completed) rueidis.RedisResultStream {
	s.w.under = append(s.w.under, "DoStream@"+s.path)
	return mock.RedisResultStreamError(errors.New(s.w.tag("DoStream", s.path)))
}
func (s *stub) DoMultiStream(ctx context.Context, multi ...rueidis.Completed) rueidis.MultiRedisResultStream {
	s.w.under = append(s.w.under, "DoMultiStream@"+s.path)
	return mock.MultiRedisResultStreamError(errors.New(s.w.tag("DoMultiStream", s.path)))
}
func (s *stub) Receive(ctx context.Context, sub rueidis.Completed, fn func(rueidis.PubSubMessage)) error {
	s.w.under = append(s.w.under, "Receive@"+s.path)
	fn(rueidis.PubSubMessage{Channel: "ch", Message: s.path})
	return errors.New(s.w.tag("Receive", s.path))
}
func (s *stub) Dedicated(fn func(rueidis.DedicatedClient) error) error {
	s.w.under = append(s.w.under, "Dedicated@"+s.path)
	return fn(s.w.newDed(s.path))
}
func (s *stub) Dedicate() (rueidis.DedicatedClient, func()) {
	s.w.under = append(s.w.under, "Dedicate@"+s.path)
	d := s.w.newDed(s.path)
	return d, func() { s.w.under = append(s.w.under, "cancel@"+d.path) }
}
func (s *stub) Nodes() map[string]rueidis.Client {
	s.w.under = append(s.w.under, "Nodes@"+s.path)
	if s.kids == nil {
		s.kids = map[string]*stub{}
		for _, id := range s.w.nodeIDs {
			s.kids[id] = &stub{w: s.w, path: s.path + "/" + id}
		}
	}
	out := map[string]rueidis.Client{}
	for k, v := range s.kids {
		out[k] = v
	}
	return out
}
func (s *stub) Mode() rueidis.ClientMode {
	s.w.under = append(s.w.under, "Mode@"+s.path)
	return rueidis.ClientMode(s.w.tag("Mode", s.path))
}
func (s *stub) Close() { s.w.under = append(s.w.under, "Close@"+s.path) }

type stubDed struct {
	w    *world
	path string
	ch1  chan error
	ch2  chan error
}

func (s *stubDed) B() rueidis.Builder {
	s.w.lastB = s.path
	if !s.w.probing {
		s.w.under = append(s.w.under, "B@"+s.path)
	}
	return builder.B()
}
func (s *stubDed) Do(ctx context.Context, cmd rueidis.Completed) rueidis.RedisResult {
	s.w.under = append(s.w.under, "Do@"+s.path)
	return res(s.w.tag("Do", s.path))
}
func (s *stubDed) DoMulti(ctx context.Context, multi ...rueidis.Completed) []rueidis.RedisResult {
	s.w.under = append(s.w.under, "DoMulti@"+s.path)
	t := s.w.tag("DoMulti", s.path)
	out := make([]rueidis.RedisResult, len(multi))
	for i := range out {
		out[i] = res(fmt.Sprintf("%s[%d]", t, i))
	}
	return out
}
func (s *stubDed) Receive(ctx context.Context, sub rueidis.Completed, fn func(rueidis.PubSubMessage)) error {
	s.w.under = append(s.w.under, "Receive@"+s.path)
	fn(rueidis.PubSubMessage{Channel: "ch", Message: s.path})
	return errors.New(s.w.tag("Receive", s.path))
}
func (s *stubDed) SetPubSubHooks(h rueidis.PubSubHooks) <-chan error {
	s.w.under = append(s.w.under, "SetPubSubHooks@"+s.path)
	s.ch1 = make(chan error)
	return s.ch1
}
func (s *stubDed) SetOnInvalidations(fn func([]rueidis.RedisMessage)) <-chan error {
	s.w.under = append(s.w.under, "SetOnInvalidations@"+s.path)
	s.ch2 = make(chan error)
	return s.ch2
}
func (s *stubDed) Close() { s.w.under = append(s.w.under, "Close@"+s.path) }

// ---------------------------------------------------------------------------------------------- the hook
type hook struct {
	w     *world
	layer int // 1 = innermost hook (handed the underlying client), k > 1: handed the wrapper of hook k-1
}

func (h *hook) log(entry, p string) { h.w.hooks = append(h.w.hooks, fmt.Sprintf("L%d:%s@%s", h.layer, entry, p)) }

// which underlying client was the hook handed?  B() is a pass-through of every wrapper type, the stubs note who was asked.
func (h *hook) id(c rueidis.Client) string {
	h.w.probing, h.w.lastB = true, "?"
	c.B()
	h.w.probing = false
	return h.w.lastB
}
func mark(r rueidis.RedisResult) rueidis.RedisResult {
	s, err := r.ToString()
	if err != nil {
		return rueidis.NewErrorResult(fmt.Errorf("H(%w)", err))
	}
	return res("H(" + s + ")")
}
func (h *hook) Do(c rueidis.Client, ctx context.Context, cmd rueidis.Completed) rueidis.RedisResult {
	p := h.id(c)
	h.log("Do", p)
	if h.w.fwd {
		return mark(c.Do(ctx, cmd))
	}
	return res("OWN:Do:" + p)
}
func marks(rs []rueidis.RedisResult) []rueidis.RedisResult {
	out := make([]rueidis.RedisResult, len(rs))
	for i, r := range rs {
		out[i] = mark(r)
	}
	return out
}
func owns(entry, p string, n int) []rueidis.RedisResult {
	out := make([]rueidis.RedisResult, n)
	for i := range out {
		out[i] = res(fmt.Sprintf("OWN:%s:%s[%d]", entry, p, i))
	}
	return out
}
func (h *hook) DoMulti(c rueidis.Client, ctx context.Context, multi ...rueidis.Completed) []rueidis.RedisResult {
	p := h.id(c)
	h.log("DoMulti", p)
	if h.w.fwd {
		return marks(c.DoMulti(ctx, multi...))
	}
	return owns("DoMulti", p, len(multi))
}
func (h *hook) DoCache(c rueidis.Client, ctx context.Context, cmd rueidis.Cacheable, ttl time.Duration) rueidis.RedisResult {
	p := h.id(c)
	h.log("DoCache", p)
	if h.w.fwd {
		return mark(c.DoCache(ctx, cmd, ttl))
	}
	return res("OWN:DoCache:" + p)
}
func (h *hook) DoMultiCache(c rueidis.Client, ctx context.Context, multi ...rueidis.CacheableTTL) []rueidis.RedisResult {
	p := h.id(c)
	h.log("DoMultiCache", p)
	if h.w.fwd {
		return marks(c.DoMultiCache(ctx, multi...))
	}
	return owns("DoMultiCache", p, len(multi))
}
func (h *hook) Receive(c rueidis.Client, ctx context.Context, sub rueidis.Completed, fn func(rueidis.PubSubMessage)) error {
	p := h.id(c)
	h.log("Receive", p)
	if h.w.fwd {
		return fmt.Errorf("H(%w)", c.Receive(ctx, sub, fn))
	}
	return errors.New("OWN:Receive:" + p)
}
func (h *hook) DoStream(c rueidis.Client, ctx context.Context, cmd rueidis.Completed) rueidis.RedisResultStream {
	p := h.id(c)
	h.log("DoStream", p)
	if h.w.fwd {
		s := c.DoStream(ctx, cmd)
		return mock.RedisResultStreamError(fmt.Errorf("H(%w)", s.Error()))
	}
	return mock.RedisResultStreamError(errors.New("OWN:DoStream:" + p))
}
func (h *hook) DoMultiStream(c rueidis.Client, ctx context.Context, multi ...rueidis.Completed) rueidis.MultiRedisResultStream {
	p := h.id(c)
	h.log("DoMultiStream", p)
	if h.w.fwd {
		s := c.DoMultiStream(ctx, multi...)
		return mock.MultiRedisResultStreamError(fmt.Errorf("H(%w)", s.Error()))
	}
	return mock.MultiRedisResultStreamError(errors.New("OWN:DoMultiStream:" + p))
}

// ---------------------------------------------------------------------------------------------- cases
type op struct {
	Op    string  `json:"op"`
	Cx    string  `json:"cx"`
	H     [][]any `json:"h"`
	E     string  `json:"e"`
	Hook  [][]any `json:"hook"`
	Under [][]any `json:"under"`
	Ret   string  `json:"ret"`
	Made  [][][]any `json:"made"`
}
type tcase struct {
	Fwd    bool `json:"fwd"`
	Layers int  `json:"layers"`
	Ops []op `json:"ops"`
}

func pathOf(h [][]any) string {
	var sb strings.Builder
	for _, el := range h {
		sb.WriteString(fmt.Sprintf("/%v%v", el[0], jsonInt(el[1])))
	}
	return sb.String()
}
func jsonInt(v any) int {
	if f, ok := v.(float64); ok {
		return int(f)
	}
	return -1
}
func kindPath(h [][]any) string {
	if len(h) == 0 {
		return "root"
	}
	ks := []string{}
	for _, el := range h {
		if el[0] == "n" {
			ks = append(ks, "node")
		} else {
			ks = append(ks, "ded")
		}
	}
	return "root." + strings.Join(ks, ".")
}
func pairs(ps [][]any) []string {
	out := []string{}
	for _, p := range ps {
		hh := [][]any{}
		if arr, ok := p[1].([]any); ok {
			for _, e := range arr {
				hh = append(hh, e.([]any))
			}
		}
		out = append(out, fmt.Sprintf("%v@%s", p[0], pathOf(hh)))
	}
	return out
}

type runner struct {
	w       *world
	c       tcase
	handles map[string]any // path -> rueidis.Client or rueidis.DedicatedClient (as handed out by the wrapper)
	cancels map[string]func()
	fnErrs  map[string]error
	rep     *vh.Report
	bad     bool
	combos  map[string]bool
}

func (r *runner) fail(o op, diff, what string) {
	r.bad = true
	sig := fmt.Sprintf("hook kind=%s op=%s entry=%s fwd=%v diff=%s", kindPath(o.H), o.Op, o.E, r.c.Fwd, diff)
	if r.c.Layers > 1 {
		sig += fmt.Sprintf(" stacked-hooks=%d", r.c.Layers)
	}
	if o.Cx != "" && o.Cx != "live" {
		sig += " ctx=" + o.Cx
	}
	r.rep.Violate(sig, what, r.c)
}

func (r *runner) step(o op) (stop bool) {
	w := r.w
	u0, h0 := len(w.under), len(w.hooks)
	path := pathOf(o.H)
	wantRet := ""
	gotRet := ""
	defer func() {
		if p := recover(); p != nil {
			r.fail(o, "panic", fmt.Sprintf("panic in %s %s on %s: %v", o.Op, o.E, path, p))
			stop = true
		}
	}()
	ctx := context.Background()
	switch o.Cx { // the state of the caller's context at the call
	case "cancelled":
		c2, cancel := context.WithCancel(ctx)
		cancel()
		ctx = c2
	case "expired":
		c2, cancel := context.WithDeadline(ctx, time.Now().Add(-time.Second))
		defer cancel()
		ctx = c2
	}
	hd := r.handles[path]
	if hd == nil && o.Op != "End" {
		r.rep.Inconcl("driver: no handle for %s", path)
		return true
	}
	switch o.Op {
	case "Call":
		seqBefore := w.seq
		stubTag := func() string { return fmt.Sprintf("S:%s:%s:#%d", o.E, path, seqBefore+1) }
		expect := func(suffix string) string {
			switch o.Ret {
			case "marked": // every hook of the stack forwarded and marked
				return strings.Repeat("H(", r.c.Layers) + stubTag() + suffix + strings.Repeat(")", r.c.Layers)
			case "own":
				return "OWN:" + o.E + ":" + path + suffix
			default:
				return stubTag() + suffix
			}
		}
		get := func(x rueidis.RedisResult) string {
			s, err := x.ToString()
			if err != nil {
				return "ERR:" + err.Error()
			}
			return s
		}
		cc, isClient := hd.(rueidis.Client)
		dc, _ := hd.(rueidis.DedicatedClient)
		var core rueidis.CoreClient
		if isClient {
			core = cc
		} else {
			core = dc
		}
		switch o.E {
		case "B":
			core.B()
		case "Do":
			gotRet, wantRet = get(core.Do(ctx, builder.B().Get().Key("k").Build())), expect("")
		case "DoMulti":
			rs := core.DoMulti(ctx, builder.B().Get().Key("k").Build(), builder.B().Get().Key("k2").Build())
			for i, x := range rs {
				gotRet += get(x) + ";"
				wantRet += expect(fmt.Sprintf("[%d]", i)) + ";"
			}
			if len(rs) != 2 {
				gotRet += fmt.Sprintf("len=%d", len(rs))
			}
		case "Receive":
			got := 0
			err := core.Receive(ctx, builder.B().Subscribe().Channel("ch").Build(), func(m rueidis.PubSubMessage) { got++ })
			gotRet, wantRet = err.Error(), expect("")
			if o.Ret != "own" && got != 1 {
				gotRet += fmt.Sprintf(" callbacks=%d", got)
			}
		case "DoCache":
			gotRet, wantRet = get(cc.DoCache(ctx, builder.B().Get().Key("k").Cache(), time.Second)), expect("")
		case "DoMultiCache":
			rs := cc.DoMultiCache(ctx, rueidis.CT(builder.B().Get().Key("k").Cache(), time.Second), rueidis.CT(builder.B().Get().Key("k2").Cache(), time.Second))
			for i, x := range rs {
				gotRet += get(x) + ";"
				wantRet += expect(fmt.Sprintf("[%d]", i)) + ";"
			}
			if len(rs) != 2 {
				gotRet += fmt.Sprintf("len=%d", len(rs))
			}
		case "DoStream":
			s := cc.DoStream(ctx, builder.B().Get().Key("k").Build())
			gotRet, wantRet = fmt.Sprint(s.Error()), expect("")
		case "DoMultiStream":
			s := cc.DoMultiStream(ctx, builder.B().Get().Key("k").Build())
			gotRet, wantRet = fmt.Sprint(s.Error()), expect("")
		case "Mode":
			gotRet, wantRet = string(cc.Mode()), expect("")
		case "Close":
			core.Close()
		case "SetPubSubHooks":
			ch := dc.SetPubSubHooks(rueidis.PubSubHooks{OnMessage: func(m rueidis.PubSubMessage) {}})
			gotRet, wantRet = fmt.Sprintf("%p", ch), fmt.Sprintf("%p", r.stubDedOf(path).ch1)
			if r.stubDedOf(path).ch1 == nil {
				gotRet = "stub not reached"
			}
		case "SetOnInvalidations":
			ch := dc.SetOnInvalidations(func([]rueidis.RedisMessage) {})
			gotRet, wantRet = fmt.Sprintf("%p", ch), fmt.Sprintf("%p", r.stubDedOf(path).ch2)
			if r.stubDedOf(path).ch2 == nil {
				gotRet = "stub not reached"
			}
		default:
			r.rep.Inconcl("driver: unknown entry %s", o.E)
			return true
		}
		r.combos[kindPath(o.H)+"|"+o.E+"|"+fmt.Sprint(r.c.Fwd)] = true
	case "Nodes":
		m := hd.(rueidis.Client).Nodes()
		keys := map[string]bool{}
		for k, v := range m {
			keys[k] = true
			r.handles[path+"/"+k] = v
		}
		for _, md := range o.Made {
			k := strings.TrimPrefix(pathOf(md), path+"/")
			if !keys[k] {
				r.fail(o, "nodes", fmt.Sprintf("Nodes() of %s lacks key %s (got %v)", path, k, keys))
			}
		}
		if len(keys) != len(o.Made) {
			r.fail(o, "nodes", fmt.Sprintf("Nodes() of %s returned %d entries, specification %d", path, len(keys), len(o.Made)))
		}
	case "Dedicate":
		d, cancel := hd.(rueidis.Client).Dedicate()
		dp := pathOf(o.Made[0])
		r.handles[dp] = d
		r.cancels[dp] = cancel
	case "Cancel":
		r.cancels[path]()
	}
	r.compare(o, u0, h0, gotRet, wantRet)
	return false
}

func (r *runner) stubDedOf(path string) *stubDed { return r.w.deds[path] }

func (r *runner) compare(o op, u0, h0 int, gotRet, wantRet string) {
	w := r.w
	gotH, gotU := append([]string{}, w.hooks[h0:]...), append([]string{}, w.under[u0:]...)
	wantH, wantU := pairs(o.Hook), pairs(o.Under)
	if !reflect.DeepEqual(gotH, wantH) {
		d := fmt.Sprintf("hookcalls(%d,want %d)", len(gotH), len(wantH))
		if len(gotH) == len(wantH) {
			d = "hookcalls(wrong-hook-or-client)"
		}
		r.fail(o, d, fmt.Sprintf("%s %s on handle %s: Hook invocations %v, Hook.tla predicts %v", o.Op, o.E, pathOf(o.H), gotH, wantH))
	}
	if !reflect.DeepEqual(gotU, wantU) {
		r.fail(o, fmt.Sprintf("undercalls(%d,want %d)", len(gotU), len(wantU)),
			fmt.Sprintf("%s %s on handle %s: underlying client saw %v, Hook.tla predicts %v", o.Op, o.E, pathOf(o.H), gotU, wantU))
	}
	if gotRet != wantRet {
		r.fail(o, "result", fmt.Sprintf("%s %s on handle %s returned %q, Hook.tla predicts %q (%s)", o.Op, o.E, pathOf(o.H), gotRet, wantRet, o.Ret))
	}
}

// run executes ops[i:]; inside a Dedicated(fn) callback it returns at the matching End
func (r *runner) run(i int, inScope bool) (next int, stopped bool) {
	for i < len(r.c.Ops) {
		o := r.c.Ops[i]
		switch o.Op {
		case "Begin":
			path := pathOf(o.H)
			hd, _ := r.handles[path].(rueidis.Client)
			if hd == nil {
				r.rep.Inconcl("driver: no client handle for %s", path)
				return len(r.c.Ops), true
			}
			dp := pathOf(o.Made[0])
			fnErr := errors.New("fnerr:" + dp)
			endAt, innerStopped := -1, false
			u0, h0 := len(r.w.under), len(r.w.hooks)
			var got error
			func() {
				defer func() {
					if p := recover(); p != nil {
						r.fail(o, "panic", fmt.Sprintf("panic in Dedicated(fn) on %s: %v", path, p))
						innerStopped = true
					}
				}()
				got = hd.Dedicated(func(dc rueidis.DedicatedClient) error {
					r.handles[dp] = dc
					r.compare(o, u0, h0, "", "")
					endAt, innerStopped = r.run(i+1, true)
					return fnErr
				})
			}()
			if innerStopped {
				return len(r.c.Ops), true
			}
			if endAt < 0 {
				r.fail(o, "fn-not-called", fmt.Sprintf("Dedicated(fn) on %s did not run fn", path))
				return len(r.c.Ops), true
			}
			if got != fnErr {
				r.fail(r.c.Ops[endAt], "result", fmt.Sprintf("Dedicated(fn) on %s returned %v, fn returned %v", path, got, fnErr))
			}
			i = endAt + 1
		case "End":
			if !inScope {
				r.rep.Inconcl("driver: End outside a scope")
				return len(r.c.Ops), true
			}
			return i, false
		default:
			if r.step(o) {
				return len(r.c.Ops), true
			}
			i++
		}
	}
	return i, false
}

// ---------------------------------------------------------------------------------------------- real single client
// Round 2: programs made of Nodes() and Do/DoMulti calls on the root and on node handles (one node address, live
// contexts) are ALSO replayed with a real rueidis single client over fakeredis as the underlying client, because a real
// client decides itself which map Nodes() hands out.  Observed per operation and compared with the same prediction:
// the Hook invocations (layer, entry, what the hook was handed: the real client itself for hook 1, a wrapper for the
// hooks above it), the number of commands that reached the server, the marks on the result.
type rworld struct {
	raw   rueidis.Client
	hooks []string
	fwd   bool
	cmds  int
}
type rhook struct {
	w     *rworld
	layer int
}

func (h *rhook) log(entry string, c rueidis.Client) {
	cls := "other:" + fmt.Sprintf("%T", c)
	if c == h.w.raw {
		cls = "real"
	} else if strings.Contains(fmt.Sprintf("%T", c), "hookclient") {
		cls = "wrapper"
	}
	h.w.hooks = append(h.w.hooks, fmt.Sprintf("L%d:%s@%s", h.layer, entry, cls))
}
func (h *rhook) Do(c rueidis.Client, ctx context.Context, cmd rueidis.Completed) rueidis.RedisResult {
	h.log("Do", c)
	if h.w.fwd {
		return mark(c.Do(ctx, cmd))
	}
	return res("OWN:Do")
}
func (h *rhook) DoMulti(c rueidis.Client, ctx context.Context, multi ...rueidis.Completed) []rueidis.RedisResult {
	h.log("DoMulti", c)
	if h.w.fwd {
		return marks(c.DoMulti(ctx, multi...))
	}
	return owns("DoMulti", "", len(multi))
}
func (h *rhook) DoCache(c rueidis.Client, ctx context.Context, cmd rueidis.Cacheable, ttl time.Duration) rueidis.RedisResult {
	h.log("DoCache", c)
	return c.DoCache(ctx, cmd, ttl)
}
func (h *rhook) DoMultiCache(c rueidis.Client, ctx context.Context, multi ...rueidis.CacheableTTL) []rueidis.RedisResult {
	h.log("DoMultiCache", c)
	return c.DoMultiCache(ctx, multi...)
}
func (h *rhook) Receive(c rueidis.Client, ctx context.Context, sub rueidis.Completed, fn func(rueidis.PubSubMessage)) error {
	h.log("Receive", c)
	return c.Receive(ctx, sub, fn)
}
func (h *rhook) DoStream(c rueidis.Client, ctx context.Context, cmd rueidis.Completed) rueidis.RedisResultStream {
	h.log("DoStream", c)
	return c.DoStream(ctx, cmd)
}
func (h *rhook) DoMultiStream(c rueidis.Client, ctx context.Context, multi ...rueidis.Completed) rueidis.MultiRedisResultStream {
	h.log("DoMultiStream", c)
	return c.DoMultiStream(ctx, multi...)
}

func eligibleReal(c tcase) bool {
	nodes := false
	for _, o := range c.Ops {
		for _, el := range o.H {
			if el[0] != "n" {
				return false
			}
		}
		switch {
		case o.Op == "Nodes":
			nodes = true
			if len(o.Made) != 1 {
				return false
			}
		case o.Op == "Call" && (o.E == "Do" || o.E == "DoMulti") && (o.Cx == "" || o.Cx == "live"):
		default:
			return false
		}
	}
	return nodes
}

type realEnv struct {
	srv     *fakeredis.Server
	network *fakeredis.Network
	cur     *rworld
}

func newRealEnv() *realEnv {
	e := &realEnv{srv: fakeredis.NewServer("hook", fakeredis.Options{}), network: fakeredis.NewNetwork()}
	e.network.Add("127.0.0.1:6379", e.srv)
	e.srv.SetIntercept(func(c *fakeredis.Conn, argv []string) (fakeredis.Value, fakeredis.Action) {
		if len(argv) > 0 && strings.EqualFold(argv[0], "GET") && e.cur != nil {
			e.cur.cmds++ // under the server's dispatcher lock; read by the driver only after the call returned
		}
		return fakeredis.Value{}, fakeredis.Pass
	})
	return e
}

func (e *realEnv) run(c tcase, rep *vh.Report) {
	raw, err := rueidis.NewClient(rueidis.ClientOption{InitAddress: []string{"127.0.0.1:6379"}, DialCtxFn: e.network.DialCtxFn(),
		ForceSingleClient: true, DisableCache: true, DisableRetry: true, Dialer: net.Dialer{Timeout: time.Minute}, ConnWriteTimeout: time.Minute})
	if err != nil {
		rep.Inconcl("real single client: %v", err)
		return
	}
	defer raw.Close()
	ctx, cancel := context.WithTimeout(context.Background(), time.Minute)
	defer cancel()
	if err := raw.Do(ctx, raw.B().Set().Key("k").Value("v").Build()).Error(); err != nil {
		rep.Inconcl("real single client: SET: %v", err)
		return
	}
	w := &rworld{raw: raw, fwd: c.Fwd}
	e.cur = w
	defer func() { e.cur = nil }()
	var wrapped rueidis.Client = raw
	for k := 1; k <= c.Layers; k++ {
		wrapped = rueidishook.WithHook(wrapped, &rhook{w: w, layer: k})
	}
	handles := map[string]rueidis.Client{"": wrapped}
	fail := func(o op, diff, what string) {
		sig := fmt.Sprintf("hook real-single-client kind=%s op=%s entry=%s fwd=%v diff=%s", kindPath(o.H), o.Op, o.E, c.Fwd, diff)
		if c.Layers > 1 {
			sig += fmt.Sprintf(" stacked-hooks=%d", c.Layers)
		}
		rep.Violate(sig, what, c)
	}
	for i, o := range c.Ops {
		path := pathOf(o.H)
		hd := handles[path]
		if hd == nil {
			rep.Inconcl("real single client: no handle for %s", path)
			return
		}
		h0, c0 := len(w.hooks), w.cmds
		gotRet, wantRet, ncmd := "", "", 0
		get := func(x rueidis.RedisResult) string {
			s, err := x.ToString()
			if err != nil {
				return "ERR:" + err.Error()
			}
			return s
		}
		want := func() string {
			if o.Ret == "own" {
				return "OWN:"
			}
			return strings.Repeat("H(", c.Layers) + "v" + strings.Repeat(")", c.Layers)
		}
		switch o.Op {
		case "Nodes":
			m := hd.Nodes()
			if len(m) != 1 {
				fail(o, "nodes", fmt.Sprintf("Nodes() of %s over a real single client returned %d entries", path, len(m)))
				return
			}
			for _, v := range m {
				handles[pathOf(o.Made[0])] = v
			}
		case "Call":
			if o.E == "Do" {
				ncmd = 1
				gotRet, wantRet = get(hd.Do(ctx, raw.B().Get().Key("k").Build())), want()
				if o.Ret == "own" {
					gotRet = strings.TrimSuffix(gotRet, "Do")
				}
			} else {
				ncmd = 2
				for _, x := range hd.DoMulti(ctx, raw.B().Get().Key("k").Build(), raw.B().Get().Key("k").Build()) {
					g := get(x)
					if o.Ret == "own" && strings.HasPrefix(g, "OWN:DoMulti:[") {
						g = "OWN:"
					}
					gotRet += g + ";"
					wantRet += want() + ";"
				}
			}
		}
		gotH := append([]string{}, w.hooks[h0:]...)
		wantH := []string{}
		for _, p := range o.Hook {
			name := fmt.Sprint(p[0])
			cls := "wrapper"
			if strings.HasPrefix(name, "L1:") {
				cls = "real"
			}
			wantH = append(wantH, name+"@"+cls)
		}
		if !reflect.DeepEqual(gotH, wantH) {
			fail(o, fmt.Sprintf("hookcalls(%d,want %d)", len(gotH), len(wantH)),
				fmt.Sprintf("operation %d: %s %s on handle %s over a real single client: Hook invocations %v, Hook.tla predicts %v", i+1, o.Op, o.E, path, gotH, wantH))
			return
		}
		if got, wantN := w.cmds-c0, len(o.Under)*ncmd; o.Op == "Call" && got != wantN {
			fail(o, fmt.Sprintf("undercalls(%d,want %d)", got, wantN),
				fmt.Sprintf("operation %d: %s %s on handle %s over a real single client: %d commands reached the server, Hook.tla predicts %d", i+1, o.Op, o.E, path, got, wantN))
			return
		}
		if gotRet != wantRet {
			fail(o, "result", fmt.Sprintf("operation %d: %s %s on handle %s over a real single client returned %q, Hook.tla predicts %q", i+1, o.Op, o.E, path, gotRet, wantRet))
			return
		}
	}
}

// nodeIDsOf: the node addresses the specification used (taken from the handles made by the first Nodes operation)
func nodeIDsOf(c tcase) []string {
	for _, o := range c.Ops {
		if o.Op != "Nodes" {
			continue
		}
		var ids []string
		for _, md := range o.Made {
			last := md[len(md)-1]
			ids = append(ids, fmt.Sprintf("%v%v", last[0], jsonInt(last[1])))
		}
		return ids
	}
	return nil
}

func main() {
	flag.Parse()
	rep := &vh.Report{Rule: "distinct (handle derivation kind, entry point, hook behaviour) combinations exercised through a handle other than the wrapped root client"}
	f, err := os.Open(*casesPath)
	if err != nil {
		rep.Inconcl("cannot open cases: %v", err)
		rep.Write(*vh.Out)
		return
	}
	defer f.Close()
	sc := bufio.NewScanner(f)
	sc.Buffer(make([]byte, 1<<20), 1<<26)
	combos := map[string]bool{}
	var env *realEnv
	realRuns := 0
	for sc.Scan() {
		var c tcase
		if err := json.Unmarshal(sc.Bytes(), &c); err != nil {
			rep.Inconcl("bad case: %v", err)
			continue
		}
		w := &world{fwd: c.Fwd, nodeIDs: []string{"n1", "n2"}, deds: map[string]*stubDed{}}
		if ids := nodeIDsOf(c); len(ids) > 0 { // the address set of the specification's configuration
			w.nodeIDs = ids
		}
		root := &stub{w: w, path: ""}
		if c.Layers < 1 {
			c.Layers = 1
		}
		var wrapped rueidis.Client = root
		for k := 1; k <= c.Layers; k++ { // hook k is the k-th WithHook around the client: the last one is outermost
			wrapped = rueidishook.WithHook(wrapped, &hook{w: w, layer: k})
		}
		r := &runner{w: w, c: c, handles: map[string]any{"": wrapped}, cancels: map[string]func(){}, rep: rep, combos: combos}
		r.run(0, false)
		rep.Evaluations++
		rep.Traces++
		if !r.bad {
			rep.Sample(c)
		}
		if eligibleReal(c) && realRuns < 600 {
			if env == nil {
				env = newRealEnv()
			}
			realRuns++
			env.run(c, rep)
		}
	}
	if env != nil {
		env.srv.Close()
	}
	rep.Extra = map[string]any{"programs_replayed_over_real_single_client": realRuns}
	for k := range combos {
		if !strings.HasPrefix(k, "root|") {
			rep.DistinctNontrivial++
		}
	}
	rep.Assumptions = append(rep.Assumptions, "the underlying client is a hand-written stub tree (root, Nodes() children, dedicated clients numbered in creation order); the hook identifies the client it is handed through the pass-through B()")
	rep.Write(*vh.Out)
}
